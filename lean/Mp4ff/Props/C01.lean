import Mp4ff.Model.Boxes
import Mp4ff.Expect.Facts
import Mp4ff.Lemmas.LayoutThms
import Mp4ff.Props.C01b
import Mp4ff.Expect.Transcribed
import Mp4ff.Props.C01c
/-!
# C01 — decode then encode is lossless outside reserved fields, and a fixed point
Property theorems (proofs in `Mp4ff/Lemmas/LayoutThms.lean`).  The generic theorems hold for EVERY layout term
and every byte string; the 64 box layouts of `Model/Boxes.lean` are instances, tied to the Go code by the
`box.rt` correspondence.
-/
namespace Mp4ff.Boxes.C01
open Mp4ff.Layout

/-- every hand-modelled box type is a registered type (coverage accounting against the current source) -/
theorem modelled_are_registered :
    (specs.map (·.1)).all (Generated.decoderKeys.contains ·) = true := Expect.modelled_are_registered

/-- **decode ∘ encode = id** for every layout: the trace written is the trace read back, leaving what follows -/
theorem decode_encode (f : Nat) (L : List Syn) (acc src : Trace) (tail : Bytes) (h : Fits f L acc src tail)
    (bs : Bytes) (a s : Trace) (he : encode f L acc src = some (bs, a, s)) :
    decode f L acc (bs ++ tail) = some (a, tail) := Layout.decode_encode f L acc src tail h bs a s he

/-- **encode ∘ decode = id outside the computed don't-care positions, and a fixed point**, for every layout and
    every accepted byte string: the re-encoding has exactly the consumed length, equals the input at every position
    not produced by a reserved field, and decodes to the same values again -/
theorem encode_decode (f : Nat) (L : List Syn) (acc : Trace) (bs : Bytes) (a : Trace) (rest : Bytes)
    (hb : IsBytes bs) (hd : decode f L acc bs = some (a, rest)) :
    ∃ out dc p, encode f L acc (a.drop acc.length) = some (out, a, []) ∧
      dontCare f L acc bs 0 = some (dc, a, rest, p) ∧ p = out.length ∧
      out.length + rest.length = bs.length ∧
      (∀ i, i < out.length → i ∉ dc → out[i]? = bs[i]?) ∧
      decode f L acc (out ++ rest) = some (a, rest) := Layout.encode_decode f L acc bs a rest hb hd

/-- **single-box round trip** (`DecodeBox` then `Encode`, 8-byte header) for the modelled box types: size reported =
    bytes written = header size field; type unchanged; output equals the input outside the don't-care positions
    (trailing payload bytes the decoder ignores are dropped); and when nothing was dropped the output is a fixed point -/
theorem roundTrip_spec (bs : Bytes) (hb : IsBytes bs) (size : Nat) (enc : Bytes) (dc : List Nat)
    (h8 : beVal (bs.take 4) ≠ 1) (hsz : bs.length < 2 ^ 32) (h : roundTrip bs = .ok size enc dc) :
    enc.length = size ∧ beVal (enc.take 4) = size ∧ (enc.drop 4).take 4 = (bs.drop 4).take 4 ∧
    enc.length ≤ bs.length ∧
    (∀ i, 8 ≤ i → i < enc.length → i ∉ dc → enc[i]? = bs[i]?) ∧
    (enc.length = bs.length → ∃ dc', roundTrip enc = .ok size enc dc') :=
  Boxes.roundTrip_spec bs hb size enc dc h8 hsz h

/-- the Go functions the models of this property transcribe (committed table `spec/transcribed.json`, checked against
    the current source by the extractor on every run) all still exist -/
theorem model_sources_exist :
    (["Aac.lean", "Bits.lean", "Boxes.lean", "Tree.lean"] : List String).all Mp4ff.Expect.presentFor = true := by decide +kernel

end Mp4ff.Boxes.C01
