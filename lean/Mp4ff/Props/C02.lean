import Mp4ff.Model.BoxTree
import Mp4ff.Expect.Facts
import Mp4ff.Lemmas.LayoutThms
import Mp4ff.Expect.Transcribed
import Mp4ff.Props.C02b
/-!
# C02 — Size() equals bytes written equals the header size field, at every level
-/
namespace Mp4ff.BoxTree.C02

theorem beBytes_length (n v : Nat) : (beBytes n v).length = n := by
  induction n with
  | zero => rfl
  | succ n ih => simp [beBytes, ih]

mutual
/-- **Size() = bytes written**, at every nesting level -/
theorem size_eq_length : (t : Tree) → t.WF → t.size = t.enc.length
  | .leaf ty p, h => by
      simp only [Tree.WF] at h
      simp [Tree.size, Tree.enc, beBytes_length, h]; omega
  | .node ty cs, h => by
      simp only [Tree.WF] at h
      have := sizes_eq_length cs h.2
      simp [Tree.size, Tree.enc, beBytes_length, h.1]; omega
theorem sizes_eq_length : (cs : List Tree) → WFs cs → sizes cs = (encs cs).length
  | [], _ => by simp [sizes, encs]
  | c :: cs, h => by
      simp only [WFs] at h
      have h1 := size_eq_length c h.1
      have h2 := sizes_eq_length cs h.2
      simp [sizes, encs]; omega
end

/-- **a container's size is the header plus the sum of its children** -/
theorem container_size (ty : Bytes) (cs : List Tree) : (Tree.node ty cs).size = 8 + (cs.map Tree.size).sum := by
  have : ∀ l : List Tree, sizes l = (l.map Tree.size).sum := by
    intro l; induction l with
    | nil => rfl
    | cons c cs ih => simp [sizes, ih]
  simp [Tree.size, this]

/-- **the written header size field is the length of the box** (first four bytes, big endian) -/
theorem header_field (t : Tree) (h : t.WF) : t.enc.take 4 = beBytes 4 t.enc.length := by
  have hs := size_eq_length t h
  cases t with
  | leaf ty p =>
    rw [← hs]
    simp [Tree.enc, Tree.size, beBytes_length]
  | node ty cs =>
    rw [← hs]
    simp [Tree.enc, Tree.size, beBytes_length]

/-- **per-box sizes (modelled box types)**: whatever `DecodeBox` + `Encode` output, the size the box reports, the
    number of bytes written and the big-endian size field in the written header are one and the same number -/
theorem box_size_eq_written (bs : Bytes) (hb : IsBytes bs) (size : Nat) (enc : Bytes) (dc : List Nat)
    (h8 : beVal (bs.take 4) ≠ 1) (hsz : bs.length < 2 ^ 32) (h : Boxes.roundTrip bs = .ok size enc dc) :
    enc.length = size ∧ beVal (enc.take 4) = size :=
  let r := Boxes.roundTrip_spec bs hb size enc dc h8 hsz h
  ⟨r.1, r.2.1⟩

/-- source facts this property depends on: header constants -/
theorem header_constants : Generated.const_boxHeaderSize = 8 ∧ Generated.const_largeSizeLen = 8 :=
  ⟨Expect.consts.2.2.2.1, Expect.consts.2.2.2.2.1⟩

example : (Tree.node [0x6d, 0x6f, 0x6f, 0x76] [Tree.leaf [0x6d, 0x76, 0x68, 0x64] [1, 2, 3], Tree.node [0x74, 0x72, 0x61, 0x6b] []]).WF := by
  simp [Tree.WF, WFs]

/-- the Go functions the models of this property transcribe (committed table `spec/transcribed.json`, checked against
    the current source by the extractor on every run) all still exist -/
theorem model_sources_exist :
    (["Aac.lean", "Bits.lean", "BoxTree.lean", "Boxes.lean"] : List String).all Mp4ff.Expect.presentFor = true := by decide +kernel

end Mp4ff.BoxTree.C02
