import Mp4ff.Model.Protect
import Mp4ff.Lemmas.Protect
import Mp4ff.Lemmas.ProtectTrex
/-!
# C06 / C07 — the box bookkeeping of Common Encryption

Property-level theorems about the structure side of mp4/crypto.go (`EncryptFragment`, `Fragment.Encode` + `DecodeFile`,
`DecryptFragment`, `InitProtect`, `DecryptInit`) on the model `Mp4ff.Model.Protect` (boxes with sizes and offsets).
Proofs in `Mp4ff/Lemmas/Protect.lean`.  The cipher side is in `Props/C06.lean` and `Props/C07.lean`.

All statements quantify over every fragment structure: any number of boxes in the moof and in each traf, any number of
samples per trun and of sub-sample entries per sample, any box sizes and positions; the `encryptAll` statements also over
any number of trafs (the library function `encryptFrag` accepts exactly one traf with one trun).
-/
namespace Mp4ff.C06b
open Mp4ff.Protect

/-! ## examples used to show that the hypotheses can be met -/

/-- a clear one-track fragment as decoded from a file at position 100: mfhd, traf(tfhd, tfdt, trun with two samples,
    a uuid box), a free box; mdat right after the 175-byte moof -/
def exFrag : Frag :=
  { moofStart := 100
    children := [.other "mfhd" 16,
                 .traf { trackID := 1, children := [.other "tfhd" 16, .other "tfdt" 20,
                          .trun { size := 52, dataOffset := 183, writeOrder := 0, sampleSizes := [500, 600] },
                          .other "uuid" 44] },
                 .other "free" 11]
    mdatStart := 275
    mdatHdr := 8 }

/-- a clear two-track fragment built in memory (write order numbers 1, 2; offsets not set yet) -/
def exFrag2 : Frag :=
  { moofStart := 0
    children := [.other "mfhd" 16,
                 .traf { trackID := 1, children := [.other "tfhd" 16, .other "tfdt" 20,
                          .trun { size := 52, dataOffset := 0, writeOrder := 1, sampleSizes := [500, 600] }] },
                 .traf { trackID := 2, children := [.other "tfhd" 16,
                          .trun { size := 36, dataOffset := 0, writeOrder := 2, sampleSizes := [70] }, .other "abcd" 13] }]
    mdatStart := 0
    mdatHdr := 8 }

def exParams (id : Nat) : Option (Scheme × List Nat) :=
  if id = 1 then some (.cenc, [2, 1]) else if id = 2 then some (.cbcs, [0]) else none

def exDecInfo : DecInfo := [(1, some ("cenc", 16)), (2, some ("cbcs", 0))]

def exEntry : SampleEntry := { cls := .visual, kind := "avc1", children := [.other "avcC" 49, .other "btrt" 20] }

def exMoov : List MoovChild := [.other "mvhd" 108, .trak { trackID := 1, entries := [exEntry] }, .other "mvex" 40]

/-! ## C06: decrypting what was encrypted restores the structure -/

/-- **decrypt ∘ write ∘ `EncryptFragment` = write.**  For every clear fragment the library function accepts: the
    encrypted fragment, written and decoded again, is accepted by the decoder (its saio check passes) and by
    `DecryptFragment`, and the result is the clear fragment as written: the same boxes in the same order with the same
    sizes, every trun data offset and the mdat position those of the clear fragment. -/
theorem decrypt_write_encrypt (sc : Scheme) (subs : List Nat) (di : DecInfo) (f g : Frag)
    (hclear : f.Clear) (henc : encryptFrag sc subs f = some g)
    (hdi : ∀ t ∈ f.trafs, ∃ s iv, findTrack di t.trackID = some (s, iv) ∧ (s = "cenc" ∨ s = "cbcs"))
    (hfit : f.moofStart + g.moofSize < 2 ^ 64) :
    ∃ gl, layout g = some gl ∧ decryptFrag di gl = some (clearLayout f) :=
  roundtrip_lib sc subs di f g hclear henc hdi hfit

/-- ... and a fragment that came from a file (already laid out as written) is restored exactly -/
theorem decrypt_write_encrypt_decoded (sc : Scheme) (subs : List Nat) (di : DecInfo) (f g : Frag)
    (hclear : f.Clear) (hw : AsWritten f) (henc : encryptFrag sc subs f = some g)
    (hdi : ∀ t ∈ f.trafs, ∃ s iv, findTrack di t.trackID = some (s, iv) ∧ (s = "cenc" ∨ s = "cbcs"))
    (hfit : f.moofStart + g.moofSize < 2 ^ 64) :
    ∃ gl, layout g = some gl ∧ decryptFrag di gl = some f := by
  have := roundtrip_lib sc subs di f g hclear henc hdi hfit
  unfold AsWritten at hw
  rwa [hw] at this

example : exFrag.Clear ∧ AsWritten exFrag ∧
    (∃ g, encryptFrag .cenc [2, 1] exFrag = some g ∧ exFrag.moofStart + g.moofSize < 2 ^ 64) ∧
    (∀ t ∈ exFrag.trafs, ∃ s iv, findTrack exDecInfo t.trackID = some (s, iv) ∧ (s = "cenc" ∨ s = "cbcs")) := by
  refine ⟨rfl, (by unfold AsWritten; rfl), ⟨_, rfl, by decide⟩, ?_⟩
  intro t ht
  simp [exFrag, Frag.trafs, trafsOf] at ht
  subst ht
  exact ⟨"cenc", 16, rfl, Or.inl rfl⟩

/-- the same for any number of trafs, each protected with its own scheme and sub-sample map (or left clear) -/
theorem decrypt_write_encryptAll (ps : Nat → Option (Scheme × List Nat)) (di : DecInfo) (f g : Frag)
    (hclear : f.Clear) (hcov : Covers di ps f.children) (henc : encryptAll ps f = some g)
    (hman : offsetsUnmanaged f.allTruns = false) (hfit : f.moofStart + g.moofSize < 2 ^ 64) :
    ∃ gl, layout g = some gl ∧ decryptFrag di gl = some (clearLayout f) :=
  roundtrip ps di f g hclear hcov henc hman hfit

example : exFrag2.Clear ∧ offsetsUnmanaged exFrag2.allTruns = false ∧
    (∃ g, encryptAll exParams exFrag2 = some g ∧ exFrag2.moofStart + g.moofSize < 2 ^ 64) ∧
    Covers exDecInfo exParams exFrag2.children := by
  refine ⟨rfl, rfl, ⟨_, rfl, by decide⟩, ?_⟩
  intro t ht
  simp [exFrag2, trafsOf] at ht
  rcases ht with rfl | rfl
  · exact ⟨"cenc", 16, rfl, Or.inl rfl⟩
  · exact ⟨"cbcs", 0, rfl, Or.inr rfl⟩

/-- **encryption keeps every box that is not protection signalling**: dropping saiz / saio / senc (and pssh) from the
    encrypted moof gives the clear moof's children, in order and unchanged (for a clear fragment: exactly its children);
    no trun is touched in memory -/
theorem encrypt_keeps_boxes (ps : Nat → Option (Scheme × List Nat)) (f g : Frag) (henc : encryptAll ps f = some g) :
    stripM g.children = stripM f.children ∧ (f.Clear → stripM g.children = f.children) ∧ g.allTruns = f.allTruns ∧
    g.moofStart = f.moofStart ∧ g.mdatStart = f.mdatStart ∧ g.mdatHdr = f.mdatHdr := by
  obtain ⟨l', h, rfl⟩ := encryptAll_some henc
  have h1 := stripM_encChildren ps _ _ _ h
  exact ⟨h1, fun hc => by rw [h1]; exact stripM_clear _ hc, allTruns_encChildren ps _ _ _ h, rfl, rfl, rfl⟩

theorem encryptFrag_keeps_boxes (sc : Scheme) (subs : List Nat) (f g : Frag) (henc : encryptFrag sc subs f = some g) :
    stripM g.children = stripM f.children ∧ (f.Clear → stripM g.children = f.children) ∧ g.allTruns = f.allTruns := by
  obtain ⟨t, _, ht, _⟩ := encryptFrag_trafs henc
  rw [encryptFrag_eq_encryptAll sc subs f t ht] at henc
  have := encrypt_keeps_boxes _ f g henc
  exact ⟨this.1, this.2.1, this.2.2.1⟩

/-- **data offsets after writing**: every trun data offset of the written encrypted fragment is the one of the written
    clear fragment plus exactly the growth of the moof, and addresses the same byte of the mdat payload -/
theorem offsets_grow_with_moof (ps : Nat → Option (Scheme × List Nat)) (f g fl gl : Frag)
    (henc : encryptAll ps f = some g) (hman : offsetsUnmanaged f.allTruns = false)
    (hfl : layout f = some fl) (hgl : layout g = some gl) :
    f.moofSize ≤ g.moofSize ∧
    fl.allTruns = f.allTruns.map (trunLayout f.moofSize f.mdatHdr f.allTruns) ∧
    gl.allTruns = f.allTruns.map (trunLayout g.moofSize f.mdatHdr f.allTruns) ∧
    ∀ r, (trunLayout g.moofSize f.mdatHdr f.allTruns r).dataOffset
            = (trunLayout f.moofSize f.mdatHdr f.allTruns r).dataOffset + ((g.moofSize - f.moofSize : Nat) : Int) ∧
         gl.payloadPos (trunLayout g.moofSize f.mdatHdr f.allTruns r)
            = fl.payloadPos (trunLayout f.moofSize f.mdatHdr f.allTruns r) :=
  layout_offsets_grow ps f g fl gl henc hman hfl hgl

example : ∃ g fl gl, encryptAll exParams exFrag2 = some g ∧ layout exFrag2 = some fl ∧ layout g = some gl :=
  ⟨_, _, _, rfl, rfl, rfl⟩

/-- **`DecryptFragment` on any fragment it accepts** (third-party content, any number of trafs, protected or not, pssh
    boxes in the moof): with `removed` = the number of bytes by which the moof shrinks, every box that is not protection
    signalling is still present, in order and unchanged, except that each trun data offset is smaller by exactly
    `removed`; when the mdat follows the moof its position moves by the same amount, so every data offset still addresses
    the same payload byte -/
theorem decrypt_keeps_boxes_and_offsets (di : DecInfo) (f g : Frag) (h : decryptFrag di f = some g) :
    ∃ removed, removed + g.moofSize = f.moofSize ∧
      stripM g.children = mapTruns (shiftTrun removed) (stripM f.children) ∧
      g.allTruns = f.allTruns.map (shiftTrun removed) ∧
      (f.mdatStart > f.moofStart → f.moofStart + f.moofSize ≤ f.mdatStart → f.mdatStart < 2 ^ 64 →
        ∀ r, g.payloadPos (shiftTrun removed r) = f.payloadPos r) := by
  obtain ⟨removed, h1, h2, h3, _⟩ := decryptFrag_spec h
  refine ⟨removed, h1, h2, h3, ?_⟩
  intro hpos hend hfit
  obtain ⟨removed', g1, _, g3⟩ := decryptFrag_payload h hpos hend hfit
  have : removed' = removed := by omega
  subst this
  exact g3

/-! ## C07: the encrypted fragment is well-formed Common Encryption -/

/-- **what `EncryptFragment` writes**: see `Mp4ff.Protect.encryptFrag_wellformed` — saiz, saio, senc appended to the
    traf in this order; saio offset = position of the first senc entry from the moof start; senc sample count = trun
    sample count; each saiz entry (table or default) = IV size + (2 + 6·sub-samples when sub-samples are used) ≤ 255;
    senc size = 16 + the sum of these entries; saiz sample count = trun sample count (0 when no sample has any auxiliary
    information: constant IV and no sub-samples) -/
theorem encrypted_wellformed {sc : Scheme} {subs : List Nat} {f g : Frag} (h : encryptFrag sc subs f = some g) :
    ∃ t r a s p q,
      f.trafs = [t] ∧ t.truns = [r] ∧ auxBoxes sc subs = some (a, s) ∧
      trafsAt g.children 8 = [(p, addProt a ((q + 16 : Nat) : Int) s t)] ∧
      (q, TrafChild.senc s) ∈ childOffsets (addProt a ((q + 16 : Nat) : Int) s t).children (p + 8) ∧
      s.sampleCount = r.sampleSizes.length ∧ subs.length = r.sampleSizes.length ∧
      s.size = 16 + (subs.map (sampleInfoSize sc.ivLen)).sum ∧
      (∀ i, (hi : i < subs.length) → a.entry i = sampleInfoSize sc.ivLen subs[i] ∧ sampleInfoSize sc.ivLen subs[i] ≤ 255) ∧
      a.sampleCount = (if sc.ivLen = 0 ∧ (∀ n ∈ subs, n = 0) then 0 else r.sampleSizes.length) :=
  encryptFrag_wellformed h

example : ∃ g, encryptFrag .cbcs [3, 1] exFrag = some g := ⟨_, rfl⟩

/-- the length of the IV the caller passes (8 or 16 bytes, anything else is refused) does not enter the bookkeeping:
    the sizes that are checked and the sizes that are written are those of the 16-byte IV stored per sample (cenc) -/
theorem callerIV_irrelevant {ivLen : Nat} {sc : Scheme} {subs : List Nat} {f g : Frag}
    (h : encryptFragIV ivLen sc subs f = some g) : (ivLen = 8 ∨ ivLen = 16) ∧ encryptFrag sc subs f = some g := by
  unfold encryptFragIV at h
  split at h
  · exact ⟨by assumption, h⟩
  · cases h

/-- **the auxiliary-information sizes and offset describe the per-sample entries actually written**, whatever IV length
    the caller used: every saiz entry is the byte length of that sample's senc entry (IV as stored + 2 + 6 per
    sub-sample entry when sub-samples are used) and fits the one-byte field without wrapping; the saio offset is 16
    bytes into the senc box (at `q`), and offset + the sum of the saiz entries is exactly the end of the senc box.
    A fragment with a sample whose entry would need more than 255 bytes is refused (`encryptFragIV … = none`):
    see the examples below. -/
theorem aux_describes_written {ivLen : Nat} {sc : Scheme} {subs : List Nat} {f g : Frag}
    (h : encryptFragIV ivLen sc subs f = some g) :
    ∃ t a s p q,
      trafsAt g.children 8 = [(p, addProt a ((q + 16 : Nat) : Int) s t)] ∧
      (q, TrafChild.senc s) ∈ childOffsets (addProt a ((q + 16 : Nat) : Int) s t).children (p + 8) ∧
      (∀ i, (hi : i < subs.length) → a.entry i = sampleInfoSize sc.ivLen subs[i] ∧ a.entry i ≤ 255) ∧
      (q + 16) + ((List.range subs.length).map a.entry).sum = q + s.size := by
  obtain ⟨t, r, a, s, p, q, _, _, _, h4, h5, _, _, h8, h9, _⟩ := encrypted_wellformed (callerIV_irrelevant h).2
  refine ⟨t, a, s, p, q, h4, h5, fun i hi => ⟨(h9 i hi).1, (h9 i hi).1 ▸ (h9 i hi).2⟩, ?_⟩
  have : (List.range subs.length).map a.entry = subs.map (sampleInfoSize sc.ivLen) := by
    apply List.ext_getElem (by simp)
    intro i h1 h2
    simp only [List.length_map, List.length_range] at h1
    simp [(h9 i h1).1]
  rw [this, h8]
  omega

/-- 8-byte caller IV, cenc: 39 sub-sample entries fit (16 + 2 + 234 = 252), 40 do not (258): refused, as with a
    16-byte IV; cbcs (no IV stored): 42 fit (254), 43 do not (260); other IV lengths are refused -/
example : (encryptFragIV 8 .cenc [39, 1] exFrag).isSome = true ∧ encryptFragIV 8 .cenc [40, 1] exFrag = none ∧
    encryptFragIV 16 .cenc [40, 1] exFrag = none ∧ (encryptFragIV 8 .cbcs [42, 1] exFrag).isSome = true ∧
    encryptFragIV 8 .cbcs [43, 1] exFrag = none ∧ encryptFragIV 12 .cenc [1, 1] exFrag = none := by decide

/-- the same per traf for `encryptAll` (any number of trafs): each traf with parameters gets the three boxes, its saio
    offset 16 bytes into its own senc box -/
theorem encryptAll_trafs (ps : Nat → Option (Scheme × List Nat)) (f g : Frag) (henc : encryptAll ps f = some g) :
    AllTwo (fun t (pt : Nat × Traf) => EncTraf ps pt.1 t pt.2) f.trafs (trafsAt g.children 8) := by
  obtain ⟨l', h, rfl⟩ := encryptAll_some henc
  exact encChildren_trafs ps _ _ _ h

/-- the saiz / senc pair built by the per-sample loop, for any sub-sample map it accepts -/
theorem aux_boxes {sc : Scheme} {subs : List Nat} {a : Saiz} {s : Senc} (h : auxBoxes sc subs = some (a, s)) :
    s.sampleCount = subs.length ∧
    s.size = 16 + (subs.map (sampleInfoSize sc.ivLen)).sum ∧
    (∀ i, (hi : i < subs.length) → a.entry i = sampleInfoSize sc.ivLen subs[i]) ∧
    a.sampleCount = (if sc.ivLen = 0 ∧ (∀ n ∈ subs, n = 0) then 0 else subs.length) := by
  have := auxBoxes_spec h
  exact ⟨this.1, this.2.1, this.2.2.2.2.2.2.1, this.2.2.2.2.2.2.2.2.1⟩

example : ∃ a s, auxBoxes .cenc [39, 1, 7] = some (a, s) := ⟨_, _, rfl⟩
/-- 40 sub-samples with a 16-byte IV do not fit the one-byte saiz entry: refused -/
example : auxBoxes .cenc [40] = none := rfl
/-- a mix of samples with and without sub-samples is refused -/
example : auxBoxes .cenc [2, 0] = none := rfl

/-- the closed form of the senc size is what the Go loop computes -/
theorem senc_size_loop (s : Senc) (h : s.subFlag = true → s.subs.length = s.sampleCount) :
    (sencLoop s.ivSize s.subFlag s.sampleCount s.subs).map (16 + ·) = some s.calcSize :=
  sencLoop_eq s h

/-! ## init segment -/

/-- **the protected sample entry**: encv / enca, the old children in order, then one sinf whose frma carries the original
    type; the entry grows by the size of the sinf -/
theorem protected_entry {sc : Scheme} {e e' : SampleEntry} (h : protectEntry sc e = some e') :
    e'.cls = e.cls ∧
    ((e.cls = .visual ∧ e'.kind = "encv") ∨ (e.cls = .audio ∧ e'.kind = "enca")) ∧
    e'.children = e.children ++ [.sinf (schemeSinf sc e.kind)] ∧
    (schemeSinf sc e.kind).frma = e.kind ∧
    e'.size = e.size + (schemeSinf sc e.kind).size :=
  protectEntry_spec h

/-- **`RemoveEncryption` ∘ `InitProtect` on the sample entry = identity** (entry without a sinf of its own) -/
theorem unprotect_protect_entry {sc : Scheme} {e e' : SampleEntry} (hn : noSinf e.children = true)
    (h : protectEntry sc e = some e') : unprotectEntry e' = some (e, schemeSinf sc e.kind) :=
  unprotect_protect hn h

example : noSinf exEntry.children = true ∧ ∃ e', protectEntry .cbcs exEntry = some e' := ⟨rfl, _, rfl⟩

/-- **`DecryptInit` ∘ `InitProtect` = identity on the moov** (one trak, one clear sample entry of a supported type, no
    pssh of its own): sample entry type restored, every child of the moov and of the entry in place, the added pssh boxes
    gone; the decrypt info names the track with its scheme and per-sample IV size -/
theorem decryptInit_of_initProtect (sc : Scheme) (psshs : List Nat) (moov m' : List MoovChild) (t : Trak) (e : SampleEntry)
    (ht : traksOf moov = [t]) (hte : t.entries = [e]) (hn : noSinf e.children = true) (hp : noPsshMoov moov = true)
    (h : initProtect sc psshs moov = some m') :
    decryptInit m' = some (moov, [(t.trackID, some (sc.name, sc.ivLen))]) :=
  decryptInit_initProtect sc psshs moov m' t e ht hte hn hp h

example : ∃ m', initProtect .cenc [42, 60] exMoov = some m' := ⟨_, rfl⟩

/-- init and fragment together: the decrypt info that `DecryptInit` extracts from the protected init is one with which
    `DecryptFragment` restores every fragment of that track encrypted by `EncryptFragment` -/
theorem init_then_fragments (sc : Scheme) (psshs subs : List Nat) (moov m' : List MoovChild) (t : Trak) (e : SampleEntry)
    (f g : Frag)
    (ht : traksOf moov = [t]) (hte : t.entries = [e]) (hn : noSinf e.children = true) (hp : noPsshMoov moov = true)
    (h : initProtect sc psshs moov = some m')
    (hclear : f.Clear) (hid : ∀ tr ∈ f.trafs, tr.trackID = t.trackID) (henc : encryptFrag sc subs f = some g)
    (hfit : f.moofStart + g.moofSize < 2 ^ 64) :
    ∃ di gl, decryptInit m' = some (moov, di) ∧ layout g = some gl ∧ decryptFrag di gl = some (clearLayout f) := by
  refine ⟨[(t.trackID, some (sc.name, sc.ivLen))], ?_⟩
  have hdi := decryptInit_initProtect sc psshs moov m' t e ht hte hn hp h
  have := roundtrip_lib sc subs [(t.trackID, some (sc.name, sc.ivLen))] f g hclear henc (by
    intro tr htr
    refine ⟨sc.name, sc.ivLen, by simp [findTrack, hid tr htr], ?_⟩
    cases sc <;> simp [Scheme.name]) hfit
  obtain ⟨gl, h1, h2⟩ := this
  exact ⟨gl, hdi, h1, h2⟩

/-! ## init segment: which trex box a track is decrypted with

`DecryptFragment` reads the samples of a traf through the trex box `DecryptInit` put into the track's decrypt info.
mvex may hold the trex boxes in any order (and between other boxes); the pairing must follow the track ID. -/

/-- **the trex box of a track info carries that track's ID** — for any track IDs (repeated or not), any trex boxes
    (repeated, missing, foreign IDs) in any order; and the loop keeps the track infos as they are -/
theorem trex_pairing_by_id (ids : List Nat) (trexs : List (Nat × Nat)) :
    (pairTrexs ids trexs).map (·.1) = ids ∧
    ∀ id tag, (id, some tag) ∈ pairTrexs ids trexs → (id, tag) ∈ trexs :=
  ⟨pairTrexs_ids ids trexs, fun id tag h => pairTrexs_byID ids trexs id tag h⟩

/-- **distinct track IDs: the loop is the lookup by track ID** (the last trex box with the ID; none when mvex has no
    such box) — position in mvex plays no role -/
theorem trex_pairing_is_lookup (ids : List Nat) (trexs : List (Nat × Nat)) (h : ids.Nodup) :
    pairTrexs ids trexs = ids.map fun id => (id, trexOf trexs id) :=
  pairTrexs_spec ids trexs h

/-- **every permutation of the trex boxes of mvex gives every track the same trex box**, namely its own (distinct track
    IDs, one trex box per track ID) -/
theorem trex_pairing_any_order (ids : List Nat) (trexs trexs' : List (Nat × Nat)) (h : ids.Nodup)
    (hn : (trexs.map (·.1)).Nodup) (hp : trexs.Perm trexs') :
    pairTrexs ids trexs' = pairTrexs ids trexs ∧
    ∀ id tag, id ∈ ids → (id, tag) ∈ trexs → (id, some tag) ∈ pairTrexs ids trexs' := by
  refine ⟨(pairTrexs_perm ids trexs trexs' h hn hp).symm, fun id tag hid ht => ?_⟩
  rw [← pairTrexs_perm ids trexs trexs' h hn hp]
  exact pairTrexs_complete ids trexs id tag h hn hid ht

/-- traks video (ID 2), audio (ID 1); mvex holds the trex boxes audio, video: each track gets its own -/
example : pairTrexs [2, 1] [(1, 10), (2, 20)] = [(2, some 20), (1, some 10)] := by decide
example : decryptInitTrex [.other "mvhd" 108, .trak { trackID := 7, entries := [exEntry] },
    .trak { trackID := 3, entries := [exEntry] }, .other "mvex" 72] [3, 7] = some [(7, some 2), (3, some 1)] := by decide

end Mp4ff.C06b
