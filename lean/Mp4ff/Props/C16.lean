import Mp4ff.Model.Nalu
import Mp4ff.Model.AvcSps
import Mp4ff.Lemmas.C16Nalu
import Mp4ff.Lemmas.C15
import Mp4ff.Props.C15b
import Mp4ff.Expect.Transcribed
/-!
# C16 — untrusted elementary-stream bytes never crash or hang the codec helpers
What a theorem can carry of this property, proved for **every** byte string: the length-prefixed NAL-unit walkers
(`Model/Nalu.lean`, the transcription of avc/nalus.go, avc/avc.go, hevc/hevc.go, avc/annexb.go after the checked-cursor
repair) return only what fits inside the input and stop within |s|+1 steps; the AVC SPS parser (`Model/AvcSps.lean`)
terminates within a fixed number of steps and returns at most a fixed number of values whatever the bytes are; and the
generic statement behind it for every syntax of the DSL.  Panics, wall time and allocation of the real Go code are
runtime behaviour decided by the isolated-worker harness (DESIGN.md §0.25); the models are tied to the code by the
C14 correspondence (well-formed and hostile samples) and the C15 `avcspsm` correspondence.
-/
namespace Mp4ff.C16
open Mp4ff Mp4ff.Nalu Mp4ff.BitSyn Mp4ff.AvcSps Mp4ff.Bits

/-- **GetNalusFromSample on any bytes**: what is returned fits inside the input (4 bytes of length field per unit),
    and every unit is a contiguous piece of the input -/
theorem nalusFromSample_bounded (s : Bytes) (ns : List Bytes) (h : nalusFromSample s = some ns) :
    (ns.map List.length).sum + 4 * ns.length ≤ s.length ∧
    ∀ n ∈ ns, ∃ a, a + n.length ≤ s.length ∧ n = slice s a (a + n.length) := Nalu.nalusFromSample_bounded s ns h

/-- **FindNaluTypes / …UpToFirstVideoNALU on any bytes**: at most one type per 4 input bytes -/
theorem naluTypes_bounded (c : Codec) (stop : Bool) (s : Bytes) : (naluTypes c stop s).length * 4 ≤ s.length :=
  Nalu.naluTypes_bounded c stop s

/-- **GetParameterSets on any bytes**: the returned parameter sets fit inside the input -/
theorem paramSets_bounded (c : Codec) (isPS : Nat → Bool) (s : Bytes) :
    ((paramSets c isPS s).map (·.2.length)).sum + 4 * (paramSets c isPS s).length ≤ s.length :=
  Nalu.paramSets_bounded c isPS s

/-- **ConvertSampleToByteStream on any bytes** rewrites in place: the length never changes -/
theorem toByteStream_length (fuel : Nat) (s : Bytes) (pos : Nat) : (toByteStream fuel s pos).length = s.length :=
  Nalu.toByteStream_length fuel s pos

/-- **the walks terminate within |s| + 1 steps**: a larger fuel never changes the answer -/
theorem walkers_terminate (c : Codec) (stop : Bool) (isPS : Nat → Bool) (t0 : Nat) (s : Bytes) (f : Nat)
    (hf : s.length + 1 ≤ f) :
    nalusFromSample.go s f 0 [] = nalusFromSample.go s (s.length + 1) 0 [] ∧
    naluTypes.go c stop s f 0 [] = naluTypes.go c stop s (s.length + 1) 0 [] ∧
    containsType.go c s t0 f 0 = containsType.go c s t0 (s.length + 1) 0 ∧
    paramSets.go c isPS s f 0 [] = paramSets.go c isPS s (s.length + 1) 0 [] ∧
    toByteStream f s 0 = toByteStream (s.length + 1) s 0 :=
  ⟨Nalu.nalusFromSample_fuel s f hf, Nalu.naluTypes_fuel c stop s f hf, Nalu.containsType_fuel c s t0 f hf,
   Nalu.paramSets_fuel c isPS s f hf, Nalu.toByteStream_fuel s f hf⟩

/-- **every parser written in the syntax DSL is total with bounded output**: with the purely syntactic fuel bound it
    returns on every reader state (any bytes, any error state) and yields at most `maxEntriesL L` values -/
theorem parse_total (L : List Syn) (f : Nat) (acc : Trace) (e : ER) (hf : fuelNeedL L ≤ f) :
    ∃ acc' e', parse f L acc e = some (acc', e') ∧ acc'.length ≤ acc.length + maxEntriesL L :=
  BitSyn.parse_total L f acc e hf

/-- **the AVC SPS parser on any bytes**: returns within 5124 nested steps with at most 1305 values — the count limits
    of the parser (num_ref_frames_in_pic_order_cnt_cycle ≤ 255, cpb_cnt_minus1 ≤ 31, 12 scaling lists of ≤ 64
    coefficients) are what makes the bound a constant -/
theorem sps_total (signedOffsets : Bool) (nalu : Bytes) :
    ∃ t e, parseNalu (fuelNeedL (sps signedOffsets)) (sps signedOffsets) nalu = some (t, e) ∧
      t.length ≤ maxEntriesL (sps signedOffsets) ∧ maxEntriesL (sps signedOffsets) ≤ 2000 ∧
      fuelNeedL (sps signedOffsets) ≤ 6000 := AvcSps.sps_total signedOffsets nalu

/-- non-vacuity: a length field of 2^32-1 in a 6-byte "sample" -/
example : nalusFromSample [0xff, 0xff, 0xff, 0xff, 0x65, 0x00] = none ∧
    naluTypes avc false [0xff, 0xff, 0xff, 0xff, 0x65, 0x00] = [5] := by decide

/-- the Go functions the models of this property transcribe (committed table `spec/transcribed.json`, checked against
    the current source by the extractor on every run) all still exist -/
theorem model_sources_exist :
    (["AvcPps.lean", "AvcSlice.lean", "AvcSps.lean", "Bits.lean", "HevcPps.lean", "HevcSlice.lean", "HevcSps.lean", "Nalu.lean", "Sei.lean"] : List String).all Mp4ff.Expect.presentFor = true := by decide +kernel

end Mp4ff.C16
