import Mp4ff.Expect.Facts
import Mp4ff.Expect.Transcribed
/-!
# C03 — the two decoders and the two encoders are interchangeable
In the model there is one codec per box; the duplication lives in the Go code, so the Lean content is the
regenerated facts about the two registries (below) and — through the correspondence — the agreement of the four
Go code paths with the single model (`bin/check C03`).
-/
namespace Mp4ff.C03
open Mp4ff.Expect Mp4ff.Generated

/-- both decode paths know exactly the same box types -/
theorem registries_same_keys : sameSet decoderKeys decoderSRKeys = true := Expect.registries_same_keys

/-- every type is served by `DecodeX` on the reader path and by `DecodeXSR` on the slice-reader path -/
theorem registries_paired :
    (decoderKeys.zip decoderFuncs).all (fun kf =>
      (decoderSRKeys.zip decoderSRFuncs).any fun ks => ks.1 == kf.1 && ks.2 == kf.2 ++ "SR") = true :=
  Expect.registries_paired

theorem registry_nodup : decoderKeys.Nodup ∧ decoderSRKeys.Nodup := Expect.registry_nodup

/-- the Go functions the models of this property transcribe (committed table `spec/transcribed.json`, checked against
    the current source by the extractor on every run) all still exist -/
theorem model_sources_exist :
    (["Aac.lean", "Bits.lean", "Boxes.lean"] : List String).all Mp4ff.Expect.presentFor = true := by decide +kernel

end Mp4ff.C03
