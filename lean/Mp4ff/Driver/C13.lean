import Mp4ff.Model.Bits
import Mp4ff.Model.Sei
import Mp4ff.Driver.Util
/-! driver ops for the bit layer (C13 correspondence) -/
namespace Mp4ff.Driver.C13
open Mp4ff Mp4ff.Bits Mp4ff.Driver

/-- `bw w:v w:v ...` : plain writer, then Flush -/
def bw (args : List String) : String :=
  let rec go (w : BW) : List String → Option BW
    | [] => some w
    | a :: as =>
      match fields a with
      | [k, v] => do
        let k ← k.toNat?
        let v ← v.toNat?
        go (w.write v k) as
      | _ => none
  match go {} args with
  | none => "bad-op"
  | some w => toHex w.flush

def ewStep (w : EW) (a : String) : Option EW :=
  match fields a with
  | ["w", k, v] => do
    let k ← k.toNat?
    let v ← v.toNat?
    pure (w.write v k)
  | ["ue", v] => do pure (w.writeExpGolomb (← v.toNat?))
  | ["sv", v] => do pure (w.writeSEIValue (← v.toNat?))
  | ["tb"] => some w.writeRbspTrailingBits
  | ["st"] => some w.stuffByteWithZeros
  | _ => none

def ew (args : List String) : String :=
  match args.foldlM ewStep ({} : EW) with
  | none => "bad-op"
  | some w => s!"{toHex w.out} n={w.n} v={w.v}"

/-- one plain-reader op: `k` Read(k), `sK` ReadSigned(K), `f` ReadFlag, `po` counters, `rem` ReadRemainingBytes -/
def brStep (r : BR) (a : String) : Option (BR × String) :=
  if a = "f" then
    let (r', v) := r.readFlag
    some (r', if v then "1" else "0")
  else if a = "po" then some (r, s!"p{r.nrBytesRead}.{r.nrBitsRead}")
  else if a = "rem" then
    let (r', bs) := r.readRemainingBytes
    some (r', match bs with | none => "nil" | some b => "x" ++ toHex b)
  else if a.startsWith "s" then do
    let k ← (a.drop 1).toNat?
    let (r', v) := r.readSigned k
    pure (r', toString v)
  else do
    let k ← a.toNat?
    let (r', v) := r.read k
    pure (r', toString v)

def br (args : List String) : String :=
  match args with
  | hex :: ops =>
    match fromHex hex with
    | none => "bad-op"
    | some bs =>
      let rec go (r : BR) (acc : List String) : List String → Option (BR × List String)
        | [] => some (r, acc)
        | a :: as => do
          let (r', v) ← brStep r a
          if r'.err then some (r', acc ++ [v]) else go r' (acc ++ [v]) as
      match go { rest := bs } [] ops with
      | none => "bad-op"
      | some (r, vals) =>
        let vs := if vals.isEmpty then "-" else ",".intercalate vals
        if r.err then s!"{vs} err nb={r.nrBytesRead}"
        else s!"{vs} ok nb={r.nrBytesRead} nbits={r.nrBitsRead}"
  | _ => "bad-op"

def erStep (st : ER × List String) (a : String) : Option (ER × List String) :=
  let (r, acc) := st
  if r.err then some st else
  match fields a with
  | ["r", k] => do
    let (r', v) := r.read (← k.toNat?)
    pure (r', acc ++ [toString v])
  | ["ue"] => let (r', v) := r.readExpGolomb; some (r', acc ++ [toString v])
  | ["se"] => let (r', v) := r.readSignedGolomb; some (r', acc ++ [toString v])
  | ["fl"] => let (r', v) := r.readFlag; some (r', acc ++ [if v then "1" else "0"])
  | ["by", k] => do
    let (r', bs) := ER.readBytes (← k.toNat?) r []
    pure (r', acc ++ [if r'.err then "nil" else "x" ++ toHex bs])
  | ["po"] => some (r, acc ++ [s!"p{r.nrBytesRead}.{r.nrBitsRead}"])
  | ["mo"] => let (r', more) := Mp4ff.Sei.moreRbspData r; some (r', acc ++ [if more then "m1" else "m0"])
  | _ => none

def er (args : List String) : String :=
  match args with
  | hex :: ops =>
    match fromHex hex with
    | none => "bad-op"
    | some bs =>
      match ops.foldlM erStep (({ rest := bs } : ER), []) with
      | none => "bad-op"
      | some (r, vals) =>
        let vs := if vals.isEmpty then "-" else ",".intercalate vals
        if r.err then s!"{vs} err nb={r.nrBytesRead}"
        else s!"{vs} ok nb={r.nrBytesRead} nbits={r.nrBitsRead}"
  | _ => "bad-op"

def escOp (args : List String) : String :=
  match args with
  | [hex] => match fromHex hex with
    | some bs => toHex (esc 0 bs)
    | none => "bad-op"
  | _ => "bad-op"

def unescOp (args : List String) : String :=
  match args with
  | [hex] => match fromHex hex with
    | some bs => toHex (unesc 0 bs)
    | none => "bad-op"
  | _ => "bad-op"

def dispatch (op : String) (args : List String) : Option String :=
  match op with
  | "bw" => some (bw args)
  | "fw" => some (bw args)
  | "ew" => some (ew args)
  | "br" => some (br args)
  | "er" => some (er args)
  | "esc" => some (escOp args)
  | "unesc" => some (unescOp args)
  | _ => none

end Mp4ff.Driver.C13
