import Mp4ff.Model.Basic
/-! line-protocol helpers for the driver (not part of any theorem) -/
namespace Mp4ff.Driver

def splitWs (s : String) : List String :=
  (s.splitOn " ").filter (· ≠ "")

def natList (s : String) : Option (List Nat) :=
  if s = "-" then some [] else (s.splitOn ",").mapM String.toNat?

def intList (s : String) : Option (List Int) :=
  if s = "-" then some [] else (s.splitOn ",").mapM String.toInt?

def showNats (l : List Nat) : String :=
  if l.isEmpty then "-" else ",".intercalate (l.map toString)

def showInts (l : List Int) : String :=
  if l.isEmpty then "-" else ",".intercalate (l.map toString)

/-- split "a:b:c" -/
def fields (s : String) : List String := s.splitOn ":"

end Mp4ff.Driver
