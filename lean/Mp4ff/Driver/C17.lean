import Mp4ff.Model.Sei
import Mp4ff.Driver.Util
namespace Mp4ff.Driver.C17
open Mp4ff Mp4ff.Sei Mp4ff.Bits Mp4ff.Driver

def b (n : Nat) : Bool := n ≠ 0
def fb (x : Bool) : Nat := if x then 1 else 0

def parseMsg (s : String) : Option Msg :=
  match fields s with
  | [t, h] => do pure ⟨← t.toNat?, ← fromHex h⟩
  | _ => none

def showMsgs (l : List Msg) : String :=
  if l.isEmpty then "none" else " ".intercalate (l.map fun m => s!"{m.type}:{toHex m.payload}")

/-- tov,nf,h,m,s,ctf,ufb,full,sf,mf,hf,disc,cnt,ct,tol -/
def parseClock (s : String) : Option ClockTS :=
  match natList s with
  | some [tov, nf, h, m, sec, ctf, ufb, full, sf, mf, hf, disc, cnt, ct, tol] =>
    some { timeOffsetValue := tov, nFrames := nf, hours := h, minutes := m, seconds := sec,
           clockTimeStampFlag := b ctf, unitsFieldBasedFlag := b ufb, fullTimeStampFlag := b full,
           secondsFlag := b sf, minutesFlag := b mf, hoursFlag := b hf, discontinuityFlag := b disc,
           cntDroppedFlag := b cnt, countingType := ct, timeOffsetLength := tol }
  | _ => none

def showClock (c : ClockTS) : String :=
  showNats [c.timeOffsetValue, c.nFrames, c.hours, c.minutes, c.seconds, fb c.clockTimeStampFlag,
    fb c.unitsFieldBasedFlag, fb c.fullTimeStampFlag, fb c.secondsFlag, fb c.minutesFlag, fb c.hoursFlag,
    fb c.discontinuityFlag, fb c.cntDroppedFlag, c.countingType, c.timeOffsetLength]

/-- ctt,nfb,ct,nf,h,m,s,ctf,full,sf,mf,hf,disc,cnt,tol,tov(signed) -/
def parseClockAvc (s : String) : Option ClockAvc :=
  match intList s with
  | some [ctt, nfb, ct, nf, h, m, sec, ctf, full, sf, mf, hf, disc, cnt, tol, tov] =>
    some { ctType := ctt.toNat, nuitFieldBasedFlag := b nfb.toNat, countingType := ct.toNat, nFrames := nf.toNat,
           hours := h.toNat, minutes := m.toNat, seconds := sec.toNat, clockTimeStampFlag := b ctf.toNat,
           fullTimeStampFlag := b full.toNat, secondsFlag := b sf.toNat, minutesFlag := b mf.toNat,
           hoursFlag := b hf.toNat, discontinuityFlag := b disc.toNat, cntDroppedFlag := b cnt.toNat,
           timeOffsetLength := tol.toNat, timeOffsetValue := tov }
  | _ => none

def showClockAvc (c : ClockAvc) : String :=
  showInts [c.ctType, fb c.nuitFieldBasedFlag, c.countingType, c.nFrames, c.hours, c.minutes, c.seconds,
    fb c.clockTimeStampFlag, fb c.fullTimeStampFlag, fb c.secondsFlag, fb c.minutesFlag, fb c.hoursFlag,
    fb c.discontinuityFlag, fb c.cntDroppedFlag, c.timeOffsetLength, c.timeOffsetValue]

def showClocks {α} (f : α → String) (l : List α) : String :=
  if l.isEmpty then "none" else " ".intercalate (l.map f)

def dispatch (op : String) (args : List String) : Option String :=
  match op, args with
  | "sei.write", ms => do
      let msgs ← (ms.filter (· ≠ "none")).mapM parseMsg
      pure (toHex (writeSEI msgs))
  | "sei.extract", [h] => (fromHex h).map fun bs =>
      match extractSEI bs with
      | (_, some .read) => "err"
      | (l, some .trailingMissing) => showMsgs l ++ " trailing-missing"
      | (l, none) => showMsgs l
  -- sei.nalu <avc|hevc> <sps description> <NAL unit hex>+ : the code parses the NAL units in order through
  -- avc.ParseSEINalu / hevc.ParseSEINalu, holds every returned list and renders them all after the last call; the
  -- typed payloads on these lines are valid for their decoder by construction (the SPS description only selects the
  -- decoder parameters), so the model answer is the (type, payload) list of `parseSEINalu` for every unit on its own
  | "sei.nalu", codec :: _ :: hs => do
      let c ← if codec = "avc" then some Codec.avc else if codec = "hevc" then some Codec.hevc else none
      let nalus ← hs.mapM fromHex
      pure (" | ".intercalate (nalus.map fun n =>
        match parseSEINalu c n with
        | none => "not-sei"
        | some (_, some .read) => "err"
        | some (l, some .trailingMissing) => showMsgs l ++ " trailing-missing"
        | some (l, none) => showMsgs l))
  | "tc.pl", cs => do
      let clocks ← (cs.filter (· ≠ "none")).mapM parseClock
      pure s!"{toHex (timeCodePayload clocks)} size={timeCodeSize clocks}"
  | "tc.dec", [h] => (fromHex h).map fun bs =>
      let (cs, err) := decodeTimeCode bs
      s!"{showClocks showClock cs} err={fb err}"
  | "mdcv.pl", [v] => do
      match ← natList v with
      | [x0, y0, x1, y1, x2, y2, wx, wy, mx, mn] => pure (toHex (mdcvPayload ⟨[x0, x1, x2], [y0, y1, y2], wx, wy, mx, mn⟩))
      | _ => none
  | "mdcv.dec", [h] => (fromHex h).map fun bs =>
      match decodeMDCV bs with
      | none => "err"
      | some m => showNats [m.px.getD 0 0, m.py.getD 0 0, m.px.getD 1 0, m.py.getD 1 0, m.px.getD 2 0, m.py.getD 2 0,
                            m.wx, m.wy, m.maxLum, m.minLum]
  | "cll.pl", [a, c] => do pure (toHex (cllPayload (← a.toNat?) (← c.toNat?)))
  | "cll.dec", [h] => (fromHex h).map fun bs =>
      match decodeCLL bs with
      | none => "err"
      | some (a, c) => s!"{a},{c}"
  | "pt.pl", hrd :: ps :: cs => do
      let hrd ← if hrd = "-" then some none else
        match ← natList hrd with
        | [cpb, dpb, a, c] => some (some (cpb, dpb, a, c))
        | _ => none
      let clocks ← (cs.filter (· ≠ "none")).mapM parseClockAvc
      let p : PicTimingAvc := ⟨hrd, ← ps.toNat?, clocks⟩
      pure s!"{toHex (picTimingPayload p)} size={picTimingSize p}"
  | "pt.dec", [hrd, tol, h] => do
      let hrdLens ← if hrd = "-" then some none else
        match ← natList hrd with
        | [a, c] => some (some (a, c))
        | _ => none
      let bs ← fromHex h
      pure (match decodePicTimingAvc bs hrdLens (← tol.toNat?) with
        | none => "err"
        | some (p, err) =>
          let h := match p.hrd with | some (cpb, dpb, a, c) => showNats [cpb, dpb, a, c] | none => "-"
          s!"{h} {p.pictStruct} {showClocks showClockAvc p.clocks} err={fb err}")
  | _, _ => none

end Mp4ff.Driver.C17
