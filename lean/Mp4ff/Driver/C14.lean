import Mp4ff.Model.Nalu
import Mp4ff.Driver.Util
/-! driver ops for NAL unit framing (C14 correspondence) -/
namespace Mp4ff.Driver.C14
open Mp4ff Mp4ff.Nalu Mp4ff.Driver

def showSCs (l : List SC) : String :=
  if l.isEmpty then "-" else ",".intercalate (l.map fun c => s!"{c.len}:{c.pos}")

def showList (l : List Bytes) : String :=
  if l.isEmpty then "none" else " ".intercalate (l.map toHex)

/-- the Go API returns one list per parameter-set type: print grouped by type, in type order -/
def showTyped (order : List Nat) (l : List (Nat × Bytes)) : String :=
  let g := order.flatMap fun t => l.filter (fun x => x.1 == t)
  if g.isEmpty then "none" else " ".intercalate (g.map fun (t, b) => s!"{t}:{toHex b}")

def codec? (s : String) : Option (Codec × (Nat → Bool)) :=
  if s = "avc" then some (avc, avcIsPS) else if s = "hevc" then some (hevc, hevcIsPS) else none

def dispatch (op : String) (args : List String) : Option String :=
  match op, args with
  | "sc", [h] => (fromHex h).map fun s => let l := scanWord s; s!"{showSCs l} min={minSCLen l}"
  | "scref", [h] => (fromHex h).map fun s => showSCs (scanByte s)
  | "hzb", [v] => v.toNat?.map fun x => if hasZeroByte (BitVec.ofNat 64 x) then "1" else "0"
  | "tosample", [h] => (fromHex h).map fun s => toHex (toSample s)
  | "tobs", [h] => (fromHex h).map fun s => toHex (toByteStream (s.length + 1) s 0)
  | "nalus", [h] => (fromHex h).map fun s =>
      match nalusFromSample s with
      | none => "err"
      | some l => showList l
  | "extract", [h] => (fromHex h).map fun s => showList (extractNalus s)
  | "types", [c, stop, h] => do
      let (cd, _) ← codec? c
      let s ← fromHex h
      pure (showNats (naluTypes cd (stop = "1") s))
  | "contains", [c, t, h] => do
      let (cd, _) ← codec? c
      let s ← fromHex h
      let t ← t.toNat?
      pure (if containsType cd s t then "1" else "0")
  | "ps", [c, h] => do
      let (cd, isPS) ← codec? c
      let s ← fromHex h
      pure (showTyped (if c = "avc" then [7, 8] else [32, 33, 34]) (paramSets cd isPS s))
  | "psbs", [c, h] => do
      let (cd, isPS) ← codec? c
      let s ← fromHex h
      pure (showTyped (if c = "avc" then [7, 8] else [32, 33, 34]) (paramSetsFromByteStream cd isPS s))
  | "oftype", [c, t, stop, h] => do
      let (cd, _) ← codec? c
      let s ← fromHex h
      let t ← t.toNat?
      pure (showList (extractOfType cd s t (stop = "1")))
  | "firstvideo", [h] => (fromHex h).map fun s =>
      match firstVideoNalu avc s with
      | none => "nil"
      | some b => toHex b
  | "hasps", [c, h] => do
      let (cd, _) ← codec? c
      let s ← fromHex h
      pure (if hasParamSets cd (if c = "avc" then [7, 8] else [32, 33, 34]) s then "1" else "0")
  | "anytype", [c, lo, hi, h] => do
      let (cd, _) ← codec? c
      let s ← fromHex h
      pure (if anyTypeIn cd (← lo.toNat?) (← hi.toNat?) s then "1" else "0")
  | _, _ => none

end Mp4ff.Driver.C14
