import Mp4ff.Model.Segmenter
import Mp4ff.Model.Combine
import Mp4ff.Driver.C09
namespace Mp4ff.Driver.C11
open Mp4ff Mp4ff.Stbl Mp4ff.Segmenter Mp4ff.Driver

/-- samples "dur:cto:sync,..." (ids are positions) -/
def parseSamples (s : String) (base : Nat) : Option (List Sample) :=
  if s = "-" then some [] else do
    let l ← (s.splitOn ",").mapM fun p => (p.splitOn ":").mapM String.toInt?
    some (l.zipIdx.map fun (p, i) => ⟨(p.getD 0 0).toNat, p.getD 1 0, p.getD 2 0 == 1, base + i⟩)

def sizes (gs : List (List Sample)) : String := showNats (gs.map List.length)

def sttsOf (s : String) : Option Stts := do
  let st ← C09.pairs s
  some ⟨st.map fun p => (p.getD 0 0).toNat, st.map fun p => (p.getD 1 0).toNat⟩

/-- run "<data_offset|->:<size>,<size>,..." -/
def parseRun (s : String) : Option Frag.RunLoc :=
  match s.splitOn ":" with
  | [off, sz] => do
      let sizes ← natList sz
      let d ← if off = "-" then some none else (off.toInt?).map some
      some ⟨d, sizes⟩
  | _ => none

def dispatch (op : String) (args : List String) : Option String :=
  match op, args.filter (fun a => !a.startsWith "H=") with
  -- seg.pos <moofStart> <base_data_offset|-> <default-base-is-moof 0|1> <run> ... -> position of every sample
  | "seg.pos", ms :: bdo :: dbm :: runs => do
      let ms ← ms.toNat?
      let b ← if bdo = "-" then some none else (bdo.toNat?).map some
      let rs ← runs.mapM parseRun
      pure (showInts (Frag.samplePositions ⟨b, dbm == "1"⟩ ms rs))
  | "seg.reseg", [cd, t0, ss] => do
      let samples ← parseSamples ss 0
      pure (sizes (resegment (← cd.toNat?) (← t0.toNat?) samples))
  | "seg.frag", dur :: frs => do
      let frags ← frs.mapM fun f => parseSamples f 0
      pure (sizes (fragmentify (← dur.toNat?) frags))
  -- seg.iv <segDurMS> <refTimescale> <refStts> <refCtts|-> <refStss> <trackTimescale> <trackStts> <total>
  | "seg.iv", [ms, rts, rstts, rctts, rstss, tts, tstts, total] => do
      let ms ← ms.toNat?
      let rts ← rts.toNat?
      let tts ← tts.toNat?
      let total ← total.toNat?
      let rs ← sttsOf rstts
      let ts ← sttsOf tstts
      let syncs ← natList rstss
      let ctts ← if rctts = "-" then some none else do
        let c ← C09.pairs rctts
        some (some (Ctts.ofCounts (c.map fun p => (p.getD 0 0).toNat) (c.map fun p => p.getD 1 0)))
      let step := ((ms * rts) % U64 / 1000) % U32
      let decode := fun n => match rs.getDecodeTime n with | some (t, _) => t | none => 0
      let cto := fun n => match ctts with
        | some c => (c.getCto n).getD 0
        | none => 0
      let pts := segmentStarts step decode cto syncs
      if rts = 0 then none else
      pure (match intervals total ts.getSampleNrAtTime (fun t => (t * tts) % U64 / rts) pts with
        | some ivs => if ivs.isEmpty then "-" else ",".intercalate (ivs.map fun (a, b) => s!"{a}-{b}")
        | none => "error")
  | _, _ => none

end Mp4ff.Driver.C11
