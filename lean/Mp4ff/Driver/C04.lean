import Mp4ff.Model.Walk
import Mp4ff.Driver.Util
namespace Mp4ff.Driver.C04
open Mp4ff Mp4ff.Walk Mp4ff.Driver

def dispatch (op : String) (args : List String) : Option String :=
  match op, args.filter (fun a => !a.startsWith "H=") with
  | "walk", [h] => do
      let bs ← fromHex h
      pure (match walk bs with
        | some ns => "ok " ++ (if ns.isEmpty then "-" else typesAll ns)
        | none => "err")
  | _, _ => none

end Mp4ff.Driver.C04
