import Mp4ff.Model.Walk
import Mp4ff.Model.SencSize
import Mp4ff.Driver.Util
namespace Mp4ff.Driver.C04
open Mp4ff Mp4ff.Walk Mp4ff.Driver

def dispatch (op : String) (args : List String) : Option String :=
  match op, args.filter (fun a => !a.startsWith "H=") with
  | "walk", [h] => do
      let bs ← fromHex h
      pure (match walk bs with
        | some ns => "ok " ++ (if ns.isEmpty then "-" else typesAll ns)
        | none => "err")
  | "sencsize", [iv, count, left] => do
      let iv ← iv.toNat?
      let count ← count.toNat?
      let left ← left.toNat?
      pure (match SencSize.parse iv count left with
        | some (v, n) => s!"ok {v} {n}"
        | none => "err")
  | _, _ => none

end Mp4ff.Driver.C04
