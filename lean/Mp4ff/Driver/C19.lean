import Mp4ff.Model.Init
import Mp4ff.Driver.Util
namespace Mp4ff.Driver.C19
open Mp4ff Mp4ff.Init Mp4ff.Driver

def parseSpec (s : String) : Option TrackSpec :=
  match fields s with
  | [ts, media, lang, w, h, es] => do
      let ts ← ts.toNat?
      let w ← w.toNat?
      let h ← h.toNat?
      let entries ← if es = "-" then some [] else (es.splitOn "+").mapM fromHex
      pure { timescale := ts, media := media, lang := lang, width := w, height := h, entries := entries }
  | _ => none

def showChild : Child → String
  | .mvhd => "mvhd"
  | .mvex => "mvex"
  | .trak t => "trak" ++ toString t.id
  | .other ty => ty

def dispatch (op : String) (args : List String) : Option String :=
  match op with
  | "init" => do
      let specs ← (args.filter fun a => !a.startsWith "H=").mapM parseSpec
      let st := build specs
      pure ("ids=" ++ showNats (st.traks.map (·.id)) ++ " trex=" ++ showNats st.trexs ++ " next=" ++ toString st.next ++
        " order=" ++ ",".intercalate (st.children.map showChild) ++ " bytes=" ++ toHex (encode st))
  | "lang" => match args with
      | [l] => let (code, elng) := langFields l
               some (toString code ++ " " ++ (match elng with | some e => e | none => "-") ++ " " ++
                 String.ofList ((unpackLang code).map Char.ofNat))
      | _ => none
  | _ => none

end Mp4ff.Driver.C19
