import Mp4ff.Model.Cenc
import Mp4ff.Model.Aes
import Mp4ff.Driver.Util
import Mp4ff.Driver.C15
namespace Mp4ff.Driver.C07
open Mp4ff Mp4ff.Cenc Mp4ff.Nalu Mp4ff.Driver

def ranges? (s : String) : Option (List SubSample) :=
  if s = "-" then some [] else (s.splitOn ",").mapM fun p =>
    match (p.splitOn ":").mapM String.toNat? with
    | some [a, b] => some ⟨a, b⟩
    | _ => none

def showRanges (l : List SubSample) : String :=
  if l.isEmpty then "-" else ",".intercalate (l.map fun r => s!"{r.clear}:{r.prot}")

def dispatch (op : String) (args : List String) : Option String :=
  match op, args with
  | "cenc.ranges", [codec, h] => do
      let c ← if codec = "avc" then some avc else if codec = "hevc" then some hevc else none
      let s ← fromHex h
      pure (match protectRanges c none s with | some l => showRanges l | none => "err")
  | "cbcs.ranges", [codec, hdrs, h] => do
      -- hdrs: slice header sizes of the video NAL units in order ("-" if none)
      let c ← if codec = "avc" then some avc else if codec = "hevc" then some hevc else none
      let s ← fromHex h
      let hs ← natList hdrs
      -- the model is parametric in the header-size function; the driver supplies the i-th parsed size by NALU content lookup
      let units := (nalusFromSample s).getD []
      let vids := units.filter fun n => c.isVideo (c.typeOf (n.headD 0))
      let tbl := vids.zip hs
      pure (match protectRanges c (some fun n => (tbl.find? (·.1 == n)).map (·.2)) s with | some l => showRanges l | none => "err")
  | "cbcs.avcranges", [ss, ps, _, _, h] => do
      -- cbcs sub-sample map of an AVC sample: the range computation (Model/Cenc.lean) fed with the slice header sizes
      -- of the slice header model (Model/AvcSlice.lean) on the given parameter-set values; the parameter-set NAL units
      -- themselves (third and fourth argument, used by the implementation side) are not looked at
      let s ← fromHex h
      let sm ← C15.parseSpsInfos ss
      let pm ← C15.parsePpsInfos ps
      let hdr := fun (n : Bytes) =>
        match AvcSlice.parseSlice (AvcSlice.fuel n) sm pm n with
        | .ok _ size => some size
        | _ => none
      pure (match protectRanges avc (some hdr) s with | some l => showRanges l | none => "err")
  | "cbcs.hevcranges", [ss, ps, h] => do
      -- cbcs sub-sample map of an HEVC sample: the range computation fed with the slice segment header sizes of the
      -- slice header model (Model/HevcSlice.lean) over the parameter-set models (Model/HevcSps.lean, HevcPps.lean)
      let s ← fromHex h
      let (sm, pm) := C15.hevcMaps (← C15.hexList ss) (← C15.hexList ps)
      let hdr := fun (n : Bytes) =>
        match HevcSlice.parseSlice (HevcSlice.fuel n) sm pm n with
        | .ok _ size => some size
        | _ => none
      pure (match protectRanges hevc (some hdr) s with | some l => showRanges l | none => "err")
  | "cenc.apr", [a, b] => do pure (showRanges (appendProtectRange [] (← a.toNat?) (← b.toNat?)))
  | "cenc.crypt", [k, iv, rs, h] => do
      let key ← fromHex k
      pure (toHex (cryptCenc (Aes.encryptBlock key) (← fromHex h) (← fromHex iv) (← ranges? rs)))
  | "cbcs.crypt", [dir, k, iv, cr, sk, rs, h] => do
      let key ← fromHex k
      let F := if dir = "e" then cbcEnc (Aes.encryptBlock key) else cbcDec (Aes.decryptBlock key)
      pure (toHex (cryptCbcs F (← fromHex h) (← fromHex iv) (← ranges? rs) (← cr.toNat?) (← sk.toNat?)))
  | "cenc.ivinc", [iv, rs, n] => do pure (toHex (incrementIV (← fromHex iv) (← ranges? rs) (← n.toNat?)))
  | "aes", [k, b] => do pure (toHex (Aes.encryptBlock (← fromHex k) (← fromHex b)))
  | _, _ => none

end Mp4ff.Driver.C07
