import Mp4ff.Model.Aac
import Mp4ff.Model.Esds
import Mp4ff.Driver.Util
namespace Mp4ff.Driver.C18
open Mp4ff Mp4ff.Aac Mp4ff.Driver

def b01 (b : Bool) : String := if b then "1" else "0"

/-! canonical text of an esds descriptor tree (the Go side renders the real structs the same way, c18model.go) -/
section esds
open Mp4ff.Esds

def showDsi : Option (Nat × Bytes) → String
  | none => "none"
  | some (f, x) => s!"{f}:{toHex x}"

mutual
def showDesc : Desc → String
  | .dc h others => s!"dc[sfs={h.sfs} ot={h.objType} st={h.streamType} buf={h.bufSize} max={h.maxBr} avg={h.avgBr} dsi={showDsi h.dsi} oth=({showDescs others}) unk={toHex h.unk}]"
  | .dsi f x => s!"dsi[{f}:{toHex x}]"
  | .sl f c m => s!"sl[{f}:{c}:{toHex m}]"
  | .raw t f x => s!"raw[{t}:{f}:{toHex x}]"
def showDescs : List Desc → String
  | [] => ""
  | [d] => showDesc d
  | d :: ds => showDesc d ++ "," ++ showDescs ds
end

def showSl : Option (Nat × Nat × Bytes) → String
  | none => "none"
  | some (f, c, m) => s!"{f}:{c}:{toHex m}"

def showEsds (e : Esds) : String :=
  let d := e.es
  s!"v={e.version} f={e.flags} es[sfs={d.sfs} id={d.esId} fl={d.flags} dep={d.dependsOn} url={toHex d.url} ocr={d.ocr} {showDesc (.dc d.dc d.dcOthers)} sl={showSl d.sl} oth=({showDescs d.others}) unk={toHex d.unk}] size={sizeEsds e}"

def showErr : Err → String
  | .tagES => "tagES"
  | .acc .eof => "read"
  | .acc .neg => "neg"
  | .tooSmall => "tooSmall"
  | .useES => "useES"
  | .exceeds t => s!"exceeds{t}"
  | .sizeField .long => "sizeField"
  | .sizeField .overflow => "sizeOverflow"
  | .dcShort => "dcShort"
  | .dcFail e => "dc>" ++ showErr e
  | .tooFarDC => "tooFarDC"
  | .tooFarES => "tooFarES"
  | .dsiLeft => "dsiLeft"
  | .slZero => "slZero"
  | .expectedDC => "expectedDC"
  | .sizeDiff => "sizeDiff"
  | .fuel => "FUEL"

def esdsDispatch (op : String) (args : List String) : Option String :=
  match op, args with
  | "esds.dec", [h] => (fromHex h).map fun bs =>
      match decodeEsds bs with
      | .error e => "err:" ++ showErr e
      | .ok e => showEsds e
  | "esds.rt", [h] => (fromHex h).map fun bs =>
      match decodeEsds bs with
      | .error e => "err:" ++ showErr e
      | .ok e => toHex (encodeEsdsBox e)
  | "esds.create", [h] => (fromHex h).map fun asc =>
      let e := createEsds asc
      s!"{toHex (encodeEsdsBox e)} size={sizeEsds e}"
  | _, _ => none
end esds

def dispatch1 (op : String) (args : List String) : Option String :=
  match op, args with
  | "asc.enc", [ot, ch, sf, ef] => do
      let a : ASC := ⟨← ot.toNat?, ← ch.toNat?, ← sf.toNat?, ← ef.toNat?, false, false⟩
      pure (match encodeASC a with | none => "err" | some b => toHex b)
  | "asc.dec", [h] => (fromHex h).map fun bs =>
      match decodeASC bs with
      | .error _ => "err"
      | .ok a => s!"{a.objectType} {a.channelConfiguration} {a.samplingFrequency} {a.extensionFrequency} {b01 a.sbrPresent} {b01 a.psPresent}"
  | "adts.enc", [ot, sfi, ch, pl, bf] => do
      let a : ADTS := ⟨0, ← ot.toNat?, ← sfi.toNat?, ← ch.toNat?, 7, ← pl.toNat?, ← bf.toNat?⟩
      pure (toHex (encodeADTS a))
  | "adts.dec", [h] => (fromHex h).map fun bs =>
      match decodeADTS bs with
      | .error _ => "err"
      | .ok (a, off) => s!"{a.id} {a.objectType} {a.samplingFrequencyIndex} {a.channelConfig} {a.headerLength} {a.payloadLength} {a.bufferFullness} off={off}"
  -- a decoded header (possibly of a CRC-protected frame, header length 9) is encoded again and decoded
  | "adts.reenc", [h] => (fromHex h).map fun bs =>
      match decodeADTS bs with
      | .error _ => "err"
      | .ok (a, _) =>
        match decodeADTS (encodeADTS a) with
        | .error _ => "err2"
        | .ok (b, off) => s!"{b.id} {b.objectType} {b.samplingFrequencyIndex} {b.channelConfig} {b.headerLength} {b.payloadLength} {b.bufferFullness} off={off}"
  | _, _ => esdsDispatch op args

/-- the token list of a `hist` request cut at the `|` tokens -/
def splitBar : List String → List (List String)
  | [] => [[]]
  | t :: ts =>
    match splitBar ts with
    | [] => [[t]]
    | cur :: more => if t = "|" then [] :: cur :: more else (t :: cur) :: more

/-- `hist r1 | r2 | ...`: the code executes the requests in order, holds every result and renders them all after
    the last call; encoders and decoders are functions, so the model answers every request on its own -/
def dispatch (op : String) (args : List String) : Option String :=
  match op with
  | "hist" =>
    let subs := (splitBar args).filter (· ≠ [])
    some (" | ".intercalate (subs.map fun
      | [] => ""
      | o :: a => (dispatch1 o a).getD "bad-op"))
  | _ => dispatch1 op args

end Mp4ff.Driver.C18
