import Mp4ff.Model.Aac
import Mp4ff.Driver.Util
namespace Mp4ff.Driver.C18
open Mp4ff Mp4ff.Aac Mp4ff.Driver

def b01 (b : Bool) : String := if b then "1" else "0"

def dispatch (op : String) (args : List String) : Option String :=
  match op, args with
  | "asc.enc", [ot, ch, sf, ef] => do
      let a : ASC := ⟨← ot.toNat?, ← ch.toNat?, ← sf.toNat?, ← ef.toNat?, false, false⟩
      pure (match encodeASC a with | none => "err" | some b => toHex b)
  | "asc.dec", [h] => (fromHex h).map fun bs =>
      match decodeASC bs with
      | .error _ => "err"
      | .ok a => s!"{a.objectType} {a.channelConfiguration} {a.samplingFrequency} {a.extensionFrequency} {b01 a.sbrPresent} {b01 a.psPresent}"
  | "adts.enc", [ot, sfi, ch, pl, bf] => do
      let a : ADTS := ⟨0, ← ot.toNat?, ← sfi.toNat?, ← ch.toNat?, 7, ← pl.toNat?, ← bf.toNat?⟩
      pure (toHex (encodeADTS a))
  | "adts.dec", [h] => (fromHex h).map fun bs =>
      match decodeADTS bs with
      | .error _ => "err"
      | .ok (a, off) => s!"{a.id} {a.objectType} {a.samplingFrequencyIndex} {a.channelConfig} {a.headerLength} {a.payloadLength} {a.bufferFullness} off={off}"
  | _, _ => none

end Mp4ff.Driver.C18
