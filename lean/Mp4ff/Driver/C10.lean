import Mp4ff.Model.CropHdr
import Mp4ff.Driver.C09
namespace Mp4ff.Driver.C10
open Mp4ff Mp4ff.Stbl Mp4ff.Crop Mp4ff.Driver

def showPairs (a : List Nat) (b : List String) : String :=
  if a.isEmpty then "-" else ",".intercalate ((a.zip b).map fun (x, y) => s!"{x}:{y}")

def diffs : List Nat → List Nat
  | a :: b :: rest => (b - a) :: diffs (b :: rest)
  | _ => []

def showTrack (o : TrackOut) : String :=
  let stts := showPairs o.stts.count (o.stts.delta.map toString)
  let ctts := match o.ctts with
    | none => "-"
    | some c => showPairs (diffs c.endSampleNr) (c.offset.map toString)
  let stsc := if o.stsc.isEmpty then "-" else ",".intercalate (o.stsc.map fun (a, b, c) => s!"{a}:{b}:{c}")
  let stsz := if o.stsz.uniform ≠ 0 then s!"u{o.stsz.uniform}:{o.stsz.sampleNumber}" else showNats o.stsz.sizes
  let stss := match o.stss with | none => "-" | some l => if l.isEmpty then "e" else showNats l
  let sdtp := match o.sdtp with | none => "-" | some l => if l.isEmpty then "e" else showNats l
  s!"k={o.last} {stts} {ctts} {stsc} {stsz} {showNats o.offsets} {stss} {sdtp}"

/-- tracks: groups of 9 args: hdlr timescale stts ctts stsc stsz stco stss sdtp -/
def parseTracks : List String → Option (List TrackIn)
  | [] => some []
  | h :: ts :: stts :: ctts :: stsc :: stsz :: stco :: stss :: sdtp :: rest => do
      let t ← C09.parseTables [stts, ctts, stsc, stsz, stco, stss, sdtp]
      let sc ← C09.pairs stsc
      let raw := sc.map fun p => ((p.getD 0 0).toNat, (p.getD 1 0).toNat, (p.getD 2 0).toNat)
      let more ← parseTracks rest
      some (⟨h, ← ts.toNat?, t, raw⟩ :: more)
  | _ => none

def dispatch (op : String) (args : List String) : Option String :=
  match op, args.filter (fun a => !a.startsWith "H=") with
  | "crop", ms :: start :: rest => do
      let tracks ← parseTracks rest
      pure (match cropAll tracks (← ms.toNat?) (← start.toNat?) with
        | none => "fail"
        | some (outs, pieces) =>
          " T ".intercalate (outs.map showTrack) ++ " R " ++
            -- empty chunks (tracks with size-0 samples) copy nothing: they are left out on both sides, and what becomes
            -- adjacent is merged again, as the implementation-side rendering does
            (let ps := mergeRanges (pieces.filter fun c => c.size ≠ 0)
             if ps.isEmpty then "-" else ",".intercalate (ps.map fun c => s!"{c.off}:{c.size}")))
  -- cropmdat <ms> <payloadStart> <base> <hex> {track}* : the payload the tool writes into the new mdat (`writeMdat`: the merged
  -- byte ranges copied in the order in which `fillTrakOutsAndByteRanges` collected them); the input file is given as the
  -- payload of its media mdat (`hex`) starting at absolute offset `base`
  | "cropmdat", ms :: start :: base :: hex :: rest => do
      let tracks ← parseTracks rest
      let file := List.replicate (← base.toNat?) 0 ++ (← fromHex hex)
      pure (match cropAll tracks (← ms.toNat?) (← start.toNat?) with
        | none => "fail"
        | some (_, pieces) => toHex (copied file pieces))
  -- crophdr <ms> <mvhd timescale> <mvhd duration> <n> {tkhdDur elst}*n {track}*n : the header durations after the crop
  | "crophdr", ms :: mts :: mdur :: n :: rest => do
      let n ← n.toNat?
      let hdrArgs := rest.take (2 * n)
      let rec hdrs : List String → Option (List TrackHdr)
        | [] => some []
        | d :: e :: more => do some (⟨← d.toNat?, ← (if e == "-" then some [] else (e.splitOn ",").mapM (·.toNat?))⟩ :: (← hdrs more))
        | _ => none
      let tracks ← parseTracks (rest.drop (2 * n))
      let h : MovieHdr := ⟨← mts.toNat?, ← mdur.toNat?, ← hdrs hdrArgs⟩
      pure (match cropHeadersOf tracks (← ms.toNat?) h with
        | none => "fail"
        | some h' => s!"mvhd={h'.mvhdDur}" ++ String.join (h'.tracks.map fun t => s!" T {t.tkhdDur} {showNats t.elst}"))
  | _, _ => none

end Mp4ff.Driver.C10
