import Mp4ff.Model.SampleTables
import Mp4ff.Driver.Util
namespace Mp4ff.Driver.C09
open Mp4ff Mp4ff.Stbl Mp4ff.Driver

def pairs (s : String) : Option (List (List Int)) :=
  if s = "-" then some [] else (s.splitOn ",").mapM fun p => (p.splitOn ":").mapM String.toInt?

def parseTables (a : List String) : Option Tables :=
  match a with
  | [stts, ctts, stsc, stsz, stco, stss, sdtp] => do
    let st ← pairs stts
    let sttsB : Stts := ⟨st.map fun p => (p.getD 0 0).toNat, st.map fun p => (p.getD 1 0).toNat⟩
    let cttsB ← if ctts = "-" then some none else do
      let c ← pairs ctts
      some (some (Ctts.ofCounts (c.map fun p => (p.getD 0 0).toNat) (c.map fun p => p.getD 1 0)))
    let sc ← pairs stsc
    let stscB := Stsc.ofRaw (sc.map fun p => ((p.getD 0 0).toNat, (p.getD 1 0).toNat, (p.getD 2 0).toNat))
    let stszB ← if stsz.startsWith "u" then
        match ((stsz.drop 1).toString.splitOn ":").mapM String.toNat? with
        | some [u, n] => some (⟨u, n, []⟩ : Stsz)
        | _ => none
      else do
        let l ← natList stsz
        some (⟨0, l.length, l⟩ : Stsz)
    let offs ← natList stco
    let stssB ← if stss = "-" then some none else if stss = "e" then some (some []) else (natList stss).map some
    let sdtpB ← if sdtp = "-" then some none else (natList sdtp).map some
    some ⟨sttsB, cttsB, stscB, stszB, offs, stssB, sdtpB⟩
  | _ => none

def join (l : List String) : String := if l.isEmpty then "-" else ",".intercalate l
def opt {α} (f : α → String) : Option α → String
  | some x => f x
  | none => "P"

def showChunks (l : List Chunk) : String := "/".intercalate (l.map fun c => s!"{c.chunkNr}:{c.startSampleNr}:{c.nrSamples}")

def query (t : Tables) (q : List String) : Option String :=
  let n := t.stsz.nrSamples
  let ns := fun (_ : Unit) => List.range' 1 n
  match q with
  | ["dt"] => some (join ((ns ()).map fun i => opt (fun (p : Nat × Nat) => s!"{p.1}:{p.2}") (t.stts.getDecodeTime i)))
  | ["dur"] => some (join ((ns ()).map fun i => opt toString (t.stts.getDur i)))
  | ["nratall", tmax] => do
      let m ← tmax.toNat?
      some (join ((List.range (m + 1)).map fun x => match t.stts.getSampleNrAtTime x with | some k => toString k | none => "e"))
  | ["cto"] => some (match t.ctts with
      | none => "-"
      | some c => join ((ns ()).map fun i => opt toString (c.getCto i)))
  | ["sz"] => some (join ((ns ()).map fun i => opt toString (t.stsz.getSampleSize i)))
  | ["tot", a] => do
      let a ← a.toNat?
      some (join ((List.range' a (n + 2 - a)).map fun b => match t.stsz.getTotalSampleSize a b with | some k => toString k | none => "e"))
  | ["sync"] => some (match t.stss with
      | none => "-"
      | some l => join ((ns ()).map fun i => if isSyncSample l i then "1" else "0"))
  | ["chunkof"] => some (join ((ns ()).map fun i => opt (fun (p : Nat × Nat) => s!"{p.1}:{p.2}") (t.stsc.chunkNrFromSampleNr i)))
  | ["chunk"] => some (join ((List.range' 1 t.offsets.length).map fun c => opt (fun (k : Chunk) => s!"{k.startSampleNr}:{k.nrSamples}") (t.stsc.getChunk c)))
  | ["off"] => some (join ((List.range (t.offsets.length + 2)).map fun c => match getOffset t.offsets c with | some k => toString k | none => "e"))
  | ["chunks", a] => do
      let a ← a.toNat?
      some (join ((List.range' a (n + 1 - a)).map fun b => opt showChunks (t.stsc.getContainingChunks a b)))
  | ["ranges", a] => do
      let a ← a.toNat?
      some (join ((List.range' a (n + 1 - a)).map fun b =>
        opt (fun (l : List (Nat × Nat)) => "/".intercalate (l.map fun p => s!"{p.1}:{p.2}")) (t.getRanges a b)))
  | ["dtn", i] => do
      let i ← i.toNat?
      some (opt (fun (p : Nat × Nat) => s!"{p.1}:{p.2}") (t.stts.getDecodeTime i))
  | ["durn", i] => do some (opt toString (t.stts.getDur (← i.toNat?)))
  | ["nrat", x] => do some (match t.stts.getSampleNrAtTime (← x.toNat?) with | some k => toString k | none => "e")
  | ["cton", i] => do
      let i ← i.toNat?
      some (match t.ctts with | none => "-" | some c => opt toString (c.getCto i))
  | ["chunkofn", i] => do some (opt (fun (p : Nat × Nat) => s!"{p.1}:{p.2}") (t.stsc.chunkNrFromSampleNr (← i.toNat?)))
  | ["chunkn", c] => do some (opt (fun (k : Chunk) => s!"{k.startSampleNr}:{k.nrSamples}") (t.stsc.getChunk (← c.toNat?)))
  | ["totab", a, b] => do some (match t.stsz.getTotalSampleSize (← a.toNat?) (← b.toNat?) with | some k => toString k | none => "e")
  | ["chunksab", a, b] => do some (opt showChunks (t.stsc.getContainingChunks (← a.toNat?) (← b.toNat?)))
  | ["rangesab", a, b] => do
      some (opt (fun (l : List (Nat × Nat)) => "/".intercalate (l.map fun p => s!"{p.1}:{p.2}")) (t.getRanges (← a.toNat?) (← b.toNat?)))
  -- one object, queries in the caller's order (state left behind by an earlier lookup must not matter)
  | ["seq", l] => do
      let l ← natList l
      some (join (l.map fun i =>
        opt (fun (p : Nat × Nat) => s!"{p.1}:{p.2}") (t.stts.getDecodeTime i) ++ ";" ++ opt toString (t.stts.getDur i) ++ ";" ++
        (match t.ctts with | none => "-" | some c => opt toString (c.getCto i)) ++ ";" ++ opt toString (t.stsz.getSampleSize i) ++ ";" ++
        opt (fun (p : Nat × Nat) => s!"{p.1}:{p.2}") (t.stsc.chunkNrFromSampleNr i)))
  | ["sdi"] => some (join ((List.range' 1 t.offsets.length).map fun c => opt toString (t.stsc.getSampleDescriptionID c)))
  | ["sdiseq", l] => do
      let l ← natList l
      some (join (l.map fun c => opt toString (t.stsc.getSampleDescriptionID c)))
  | ["sdata", a, b] => do
      let a ← a.toNat?
      let b ← b.toNat?
      some (opt (fun (l : List SampleMeta) => "/".intercalate (l.map fun m => s!"{m.flags}:{m.dur}:{m.size}:{m.cto}")) (t.getSampleData a b))
  | _ => none

def dispatch (op : String) (args : List String) : Option String :=
  if op = "stbl" then
    match parseTables (args.take 7) with
    | some t => (query t (args.drop 7)).orElse fun _ => some "bad-op"
    | none => some "bad-op"
  else none

end Mp4ff.Driver.C09
