import Mp4ff.Model.Segments
import Mp4ff.Driver.Util
namespace Mp4ff.Driver.C12
open Mp4ff Mp4ff.Segments Mp4ff.Boxes Mp4ff.Layout Mp4ff.Driver

/-- parse a top-level sidx at `it` into anchor + (type, size) references -/
def sidxOfBytes (file : Bytes) (it : Item) : Option Sidx := do
  let bs := (file.drop it.pos).take it.size
  let (_, hl, _) ← parseHeader bs
  let sp ← specOf "sidx"
  let (tr, _) ← decode (fuelFor sp.layout bs.length) sp.layout [] (bs.drop hl)
  let firstOff := tr.nat "first_offset"
  let refs := tr.filterMap fun e => match e with
    | ("type_size", .n v) => some (v / 2 ^ 31, v % 2 ^ 31)
    | _ => none
  some ⟨it.pos + firstOff + it.size, refs⟩

/-- moof offsets of the first tfra inside the mfra box at the end of the file -/
def tfraOffsets (file : Bytes) (items : List Item) : Option (List Nat) := do
  let m ← items.find? (·.kind == .mfra)
  let inner := ((file.drop m.pos).take m.size).drop 8
  let (ty, hl, size) ← parseHeader inner
  if ty ≠ "tfra" then none else
  let p := (inner.take size).drop hl
  let ver := p.getD 0 0
  let lens := beVal ((p.drop 8).take 4)
  let (lt, lr, ls) := ((lens / 16) % 4 + 1, (lens / 4) % 4 + 1, lens % 4 + 1)
  let n := beVal ((p.drop 12).take 4)
  let w := if ver = 1 then 8 else 4
  let entry := 2 * w + lt + lr + ls
  some ((List.range n).map fun i => beVal (((p.drop (16 + i * entry + w)).take w)))

def showSt (st : St) : String :=
  "".intercalate (st.segs.map fun s =>
    "[" ++ ",".intercalate (s.frags.map fun f => match f.moof with | some p => toString p | none => "nomoof") ++ "]")

def dispatch (op : String) (args : List String) : Option String :=
  match op, args with
  | "group", [som, ism, h] => do
      let file ← fromHex h
      let items := topLevel (file.length + 1) file 0
      let st0 : St := { startOnMoof := som = "1", tfra := if ism = "1" then tfraOffsets file items else none }
      pure (match groupItems st0 (sidxOfBytes file) items with
        | some st => showSt st
        | none => "panic")
  | _, _ => none

end Mp4ff.Driver.C12
