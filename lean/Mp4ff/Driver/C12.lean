import Mp4ff.Model.Segments
import Mp4ff.Driver.Util
namespace Mp4ff.Driver.C12
open Mp4ff Mp4ff.Segments Mp4ff.Boxes Mp4ff.Layout Mp4ff.Driver

/-- parse a top-level sidx at `it` into anchor + (type, size) references -/
def sidxOfBytes (file : Bytes) (it : Item) : Option Sidx := do
  let bs := (file.drop it.pos).take it.size
  let (_, hl, _) ← parseHeader bs
  let sp ← specOf "sidx"
  let (tr, _) ← decode (fuelFor sp.layout bs.length) sp.layout [] (bs.drop hl)
  let firstOff := tr.nat "first_offset"
  let refs := tr.filterMap fun e => match e with
    | ("type_size", .n v) => some (v / 2 ^ 31, v % 2 ^ 31)
    | _ => none
  some ⟨it.pos + firstOff + it.size, refs⟩

/-- moof offsets of the first tfra inside the mfra box at the end of the file -/
def tfraOffsets (file : Bytes) (items : List Item) : Option (List Nat) := do
  let m ← items.find? (·.kind == .mfra)
  let inner := ((file.drop m.pos).take m.size).drop 8
  let (ty, hl, size) ← parseHeader inner
  if ty ≠ "tfra" then none else
  let p := (inner.take size).drop hl
  let ver := p.getD 0 0
  let lens := beVal ((p.drop 8).take 4)
  let (lt, lr, ls) := ((lens / 16) % 4 + 1, (lens / 4) % 4 + 1, lens % 4 + 1)
  let n := beVal ((p.drop 12).take 4)
  let w := if ver = 1 then 8 else 4
  let entry := 2 * w + lt + lr + ls
  some ((List.range n).map fun i => beVal (((p.drop (16 + i * entry + w)).take w)))

def showSt (st : St) : String :=
  "".intercalate (st.segs.map fun s =>
    "[" ++ ",".intercalate (s.frags.map fun f => match f.moof with | some p => toString p | none => "nomoof") ++ "]")

/-- size of a top-level sidx as the library writes it back (8-byte header, no trailing bytes) -/
def sidxWrittenSize (file : Bytes) (it : Item) : Option Nat := do
  let bs := (file.drop it.pos).take it.size
  let (_, hl, _) ← parseHeader bs
  let sp ← specOf "sidx"
  let (tr, _) ← decode (fuelFor sp.layout bs.length) sp.layout [] (bs.drop hl)
  some ((if tr.nat "version" = 0 then 32 else 40) + 12 * tr.nat "reference_count")

def kindOfLetter (s : String) : Kind :=
  if s = "e" then .emsg else if s = "m" then .moof else if s = "d" then .mdat else .other

/-- `kind:segment:fragment:recipe/sizes` — the model reads the sizes (last `/` part), the harness builds the boxes from
    the recipe and confirms the sizes -/
def parseOp (o : String) : Option ApiOp := do
  match o.splitOn ":" with
  | [k, s, f, arg] =>
    let si ← s.toNat?
    let fi ← f.toNat?
    let parts := arg.splitOn "/"
    let sizes ← parts.getLast?
    let head := parts.headD ""
    if k = "ae" then some (.addEmsg si fi (← (sizes.splitOn "+").mapM String.toNat?))
    else if k = "ac" then some (.addChild si fi (kindOfLetter ((head.splitOn ".").headD "")) (← sizes.toNat?))
    else if k = "af" then
      let boxes ← (sizes.splitOn "+").mapM fun b =>
        match b.splitOn "." with
        | [kk, z] => z.toNat?.map fun n => (kindOfLetter kk, n)
        | _ => none
      some (.addFragment si boxes)
    else if k = "as" then
      let z ← sizes.toNat?
      some (.addSegment (if head = "1" then some z else none))
    else if k = "st" then some (.setStyp si (← sizes.toNat?))
    else none
  | _ => none

def showUpd : UpdOut → String
  | .error => "err"
  | .nothing => "none"
  | .index o => s!"sizes={showNats o.sizes} first={o.firstOffset} at=" ++
      (match o.insertAt with | some i => toString i | none => "-")

def dispatch (op : String) (args : List String) : Option String :=
  match op, args with
  | "usidx", [som, ism, add, ops, h] => do
      let file ← fromHex h
      let items := topLevel (file.length + 1) file 0
      let st0 : St := { startOnMoof := som = "1", tfra := if ism = "1" then tfraOffsets file items else none }
      let apiOps ← if ops = "-" then some [] else (ops.splitOn ",").mapM parseOp
      pure (match groupItems st0 (sidxOfBytes file) items with
        | none => "panic"
        | some st =>
          let fileSidx := (items.takeWhile fun it => it.kind != .styp && it.kind != .emsg && it.kind != .moof).filter
            (·.kind == .sidx)
          let others := (fileSidx.drop 1).filterMap (sidxWrittenSize file)
          showUpd (updateSidx items (applyOps file.length st apiOps) (add = "1") others))
  | "group", [som, ism, h] => do
      let file ← fromHex h
      let items := topLevel (file.length + 1) file 0
      let st0 : St := { startOnMoof := som = "1", tfra := if ism = "1" then tfraOffsets file items else none }
      pure (match groupItems st0 (sidxOfBytes file) items with
        | some st => showSt st
        | none => "panic")
  | _, _ => none

end Mp4ff.Driver.C12
