import Mp4ff.Model.AvcSps
import Mp4ff.Driver.Util
namespace Mp4ff.Driver.C15
open Mp4ff Mp4ff.BitSyn Mp4ff.AvcSps Mp4ff.Driver

def showTrace (t : Trace) : String := " ".intercalate (t.map fun (n, v) => s!"{n}={v}")

/-- the offsets of poc type 1 are read as ue(v) by the current code (known finding) unless `se` is requested -/
def dispatch (op : String) (args : List String) : Option String :=
  match op, args with
  | "avcsps", [mode, h] => do
      let nalu ← fromHex h
      match parseNalu (fuel nalu) (sps (mode == "se")) nalu with
      | none => pure "fuel"
      | some (t, e) =>
        let d := match dims t with | some (w, hh) => s!"{w}x{hh}" | none => "baddims"
        pure (s!"err={if e.err then 1 else 0} dims={d} read={e.nrBytesRead} " ++ showTrace t)
  | _, _ => none

end Mp4ff.Driver.C15
