import Mp4ff.Model.AvcSps
import Mp4ff.Model.AvcPps
import Mp4ff.Model.HevcSps
import Mp4ff.Model.HevcPps
import Mp4ff.Model.AvcSlice
import Mp4ff.Model.HevcSlice
import Mp4ff.Driver.Util
namespace Mp4ff.Driver.C15
open Mp4ff Mp4ff.BitSyn Mp4ff.AvcSps Mp4ff.Driver

def showTrace (t : Trace) : String := " ".intercalate (t.map fun (n, v) => s!"{n}={v}")

/-- `GetSARfromIDC` (Table E-1); `none` = "SAR bad index" -/
def sarOfIdc (idc : Nat) : Option (Nat × Nat) :=
  if idc = 0 then some (0, 0) else
  [(1, 1), (12, 11), (10, 11), (16, 11), (40, 33), (24, 11), (20, 11), (32, 11), (80, 33), (18, 11), (15, 11),
   (64, 33), (160, 99), (4, 3), (3, 2), (2, 1)][idc - 1]?

/-- sample aspect ratio as the parser stores it -/
def sar (t : Trace) : Option (Nat × Nat) :=
  if t.get "aspect_ratio_info_present_flag" = 1 then
    if t.nat "aspect_ratio_idc" = 255 then some (t.nat "sar_width", t.nat "sar_height") else sarOfIdc (t.nat "aspect_ratio_idc")
  else some (0, 0)

/-- derived scaling lists: one entry per presence flag ("nil" when absent) -/
def scalingLists (t : Trace) : String :=
  let rec go : List (String × Int) → Nat → List String
    | [], _ => []
    | (n, v) :: rest, i =>
      if n == "scaling_list_present" then
        if v = 1 then
          let ds := (rest.takeWhile (·.1 == "delta_scale")).map (·.2)
          let size := if i < 6 then 16 else 64
          ",".intercalate ((scalingList size ds).map toString) :: go rest (i + 1)
        else "nil" :: go rest (i + 1)
      else go rest i
  "|".intercalate (go t 0)

def hidden : List String := ["nal_header", "pic_width_in_mbs_minus1", "pic_height_in_map_units_minus1",
  "aspect_ratio_info_present_flag", "aspect_ratio_idc", "sar_width", "sar_height", "scaling_list_present", "delta_scale"]

/-- the parsed SPS in the canonical text both sides print (fields the Go struct keeps, in syntax order) -/
def record (t : Trace) : Option String := do
  let (w, h) ← dims t
  let (sw, sh) ← sar t
  let parts := t.flatMap fun (n, v) =>
    if hidden.contains n then []
    else if n == "seq_scaling_matrix_present_flag" ∧ v = 1 then [s!"{n}={v}", "lists=" ++ scalingLists t]
    else if n == "vui_parameters_present_flag" ∧ v = 1 then [s!"{n}={v}", s!"sar={sw}:{sh}"]
    else if n == "seq_parameter_set_id" then [s!"{n}={v.toNat % 2 ^ 32}"]
    else if n == "chroma_format_idc" then [s!"{n}={v.toNat % 256}"]
    else [s!"{n}={v}"]
  some (" ".intercalate parts ++ s!" dims={w}x{h}")

/-- the parsed PPS in the canonical text (fields of the Go struct in syntax order; the tail fields print as their
    zero defaults when `more_rbsp_data()` was false, as the struct does not record their presence) -/
def ppsRecord (t : Trace) (more : Bool) : String :=
  let parts := t.flatMap fun (n, v) =>
    if n == "nal_header" ∨ n == "scaling_list_present" ∨ n == "delta_scale" then []
    else if n == "pic_scaling_matrix_present_flag" ∧ v = 1 then [s!"{n}={v}", "lists=" ++ scalingLists t]
    else if n == "pic_parameter_set_id" ∨ n == "seq_parameter_set_id" then [s!"{n}={v.toNat % 2 ^ 32}"]
    else [s!"{n}={v}"]
  let dflt := if more then [] else
    ["transform_8x8_mode_flag=0", "pic_scaling_matrix_present_flag=0", "second_chroma_qp_index_offset=0"]
  " ".intercalate (parts ++ dflt)

/-- "-" or "id:chroma,id:chroma" -/
def parseSpsMap (s : String) : Option (List (Nat × Nat)) :=
  if s = "-" then some [] else
  (s.splitOn ",").mapM fun kv =>
    match kv.splitOn ":" with
    | [a, b] => do pure (← a.toNat?, ← b.toNat?)
    | _ => none

/-! ### HEVC SPS record -/

def hevcHidden : List String := ["nal_header", "reserved_zero_2bits", "scaling_list_pred_mode_flag",
  "scaling_list_pred_matrix_id_delta", "scaling_list_dc_coef_minus8", "scaling_list_delta_coef",
  "aspect_ratio_info_present_flag", "aspect_ratio_idc", "sar_width", "sar_height"] ++ HevcSps.rpsNames

def hevcMask8 : List String := ["sps_seq_parameter_set_id", "chroma_format_idc", "bit_depth_luma_minus8",
  "bit_depth_chroma_minus8", "log2_max_pic_order_cnt_lsb_minus4", "sps_max_dec_pic_buffering_minus1",
  "sps_max_num_reorder_pics", "sps_max_latency_increase_plus1", "log2_min_luma_coding_block_size_minus3",
  "log2_diff_max_min_luma_coding_block_size", "log2_min_luma_transform_block_size_minus2",
  "log2_diff_max_min_luma_transform_block_size", "max_transform_hierarchy_depth_inter",
  "max_transform_hierarchy_depth_intra", "num_short_term_ref_pic_sets", "num_long_term_ref_pics_sps", "cpb_cnt_minus1"]

def hevcMask16 : List String := ["log2_min_pcm_luma_coding_block_size_minus3",
  "log2_diff_max_min_pcm_luma_coding_block_size", "lt_ref_pic_poc_lsb_sps", "elemental_duration_in_tc_minus1"]

def hevcMask32 : List String := ["pic_width_in_luma_samples", "pic_height_in_luma_samples", "conf_win_left_offset",
  "conf_win_right_offset", "conf_win_top_offset", "conf_win_bottom_offset", "bit_rate_value_minus1",
  "cpb_size_value_minus1", "cpb_size_du_value_minus1", "bit_rate_du_value_minus1"]

def showRps (r : HevcSps.Rps) : String :=
  let l (x : List (Nat × Bool)) : String :=
    if x.isEmpty then "-" else ",".intercalate (x.map fun (d, u) => s!"{d}.{if u then 1 else 0}")
  s!"s0:{l r.s0};s1:{l r.s1};n={r.numDelta}"

def hevcSar (t : Trace) : Nat × Nat :=
  if t.get "aspect_ratio_info_present_flag" = 1 then
    if t.nat "aspect_ratio_idc" = 255 then (t.nat "sar_width", t.nat "sar_height")
    else (sarOfIdc (t.nat "aspect_ratio_idc")).getD (0, 0)
  else (0, 0)

def hevcParts (full : Trace) : Trace → List String
  | [] => []
  | (n, v) :: rest =>
    let here : List String :=
      if hevcHidden.contains n then []
      else if n.endsWith "_hi16" then []
      else if n.endsWith "_lo32" then
        let base := (n.dropEnd 5).toString
        -- the 16 high bits are the entry just before in the trace; `rest` no longer has it, so look it up by position
        let hi := ((full.take (full.length - rest.length - 1)).getLast?.map (·.2)).getD 0
        [s!"{base}={hi.toNat * 2 ^ 32 + v.toNat}"]
      else if hevcMask8.contains n then [s!"{n}={v.toNat % 256}"]
      else if hevcMask16.contains n then [s!"{n}={v.toNat % 65536}"]
      else if hevcMask32.contains n then [s!"{n}={v.toNat % 2 ^ 32}"]
      else [s!"{n}={v}"]
    let extra : List String :=
      if n == "num_short_term_ref_pic_sets" then
        let sets := HevcSps.rpsSets full
        ["rps=" ++ (if sets.isEmpty then "-" else "|".intercalate (sets.map showRps))]
      else if n == "vui_parameters_present_flag" ∧ v = 1 then
        let (sw, sh) := hevcSar full
        [s!"sar={sw}:{sh}"]
      else []
    here ++ extra ++ hevcParts full rest

def hevcSpsRecord (t : Trace) (ext : List Bool) : String :=
  let (w, h) := HevcSps.dims t
  let e := if ext.isEmpty then "-" else String.join (ext.map fun b => if b then "1" else "0")
  " ".intercalate (hevcParts t t ++ [s!"ext_data={e}", s!"dims={w}x{h}"])

/-! ### HEVC PPS record -/

def toI8 (v : Int) : Int := (v + 128) % 256 - 128
def toI16 (v : Int) : Int := (v + 32768) % 65536 - 32768

def octNames : List String := ["split_octant_flag_d0", "split_octant_flag_d1", "split_octant_flag_d2",
  "coded_res_flag", "res_coeff_q", "res_coeff_r", "res_coeff_s"]

def refLocNames : List String := ["ref_loc_offset_layer_id", "scaled_ref_layer_offset_present_flag",
  "scaled_ref_layer_left_offset", "scaled_ref_layer_top_offset", "scaled_ref_layer_right_offset",
  "scaled_ref_layer_bottom_offset", "ref_region_offset_present_flag", "ref_region_left_offset",
  "ref_region_top_offset", "ref_region_right_offset", "ref_region_bottom_offset", "resample_phase_set_present_flag",
  "phase_hor_luma", "phase_ver_luma", "phase_hor_chroma_plus8", "phase_ver_chroma_plus8"]

def hpHidden : List String := ["nal_header", "scaling_list_pred_mode_flag", "scaling_list_pred_matrix_id_delta",
  "scaling_list_dc_coef_minus8", "scaling_list_delta_coef"] ++ octNames ++ refLocNames

def hpI8 : List String := ["init_qp_minus26", "pps_cb_qp_offset", "pps_cr_qp_offset", "pps_beta_offset_div2",
  "pps_tc_offset_div2", "cb_qp_offset_list", "cr_qp_offset_list"]

def hpI16 : List String := ["scaled_ref_layer_left_offset", "scaled_ref_layer_top_offset",
  "scaled_ref_layer_right_offset", "scaled_ref_layer_bottom_offset", "ref_region_left_offset", "ref_region_top_offset",
  "ref_region_right_offset", "ref_region_bottom_offset"]

def hpU8 : List String := ["num_ref_idx_l0_default_active_minus1", "num_ref_idx_l1_default_active_minus1",
  "phase_hor_luma", "phase_ver_luma", "phase_hor_chroma_plus8", "phase_ver_chroma_plus8"]

def hpShow (n : String) (v : Int) : String :=
  if hpI8.contains n then s!"{n}={toI8 v}"
  else if hpI16.contains n then s!"{n}={toI16 v}"
  else if hpU8.contains n then s!"{n}={v.toNat % 256}"
  else if n == "pps_pic_parameter_set_id" ∨ n == "pps_seq_parameter_set_id" then s!"{n}={v.toNat % 2 ^ 32}"
  else s!"{n}={v}"

/-- the ref_loc_offset groups: (layer id, text of the fields); a later group with the same id replaces an earlier one
    (the parser keeps them in a map keyed by the id) -/
def refLocGroups (t : Trace) : List (Int × String) :=
  let es := t.filter (fun e => refLocNames.contains e.1)
  let gs : List (Int × List String) := es.foldl (fun acc e =>
    if e.1 == "ref_loc_offset_layer_id" then acc ++ [(e.2, [])]
    else match acc.getLast? with
      | some (id, fs) => acc.dropLast ++ [(id, fs ++ [hpShow e.1 e.2])]
      | none => acc) []
  gs.map fun (id, _) =>
    let last := ((gs.filter (·.1 == id)).getLast?.map (·.2)).getD []
    (id, ",".intercalate last)

/-- three coefficients of one coded octant corner -/
def octCoefs : Nat → Trace → List String → List String × Trace
  | 0, es, acc => (acc, es)
  | n + 1, es, acc =>
    match es with
    | (_, q) :: (_, r) :: rest =>
      if q ≠ 0 ∨ r ≠ 0 then
        match rest with
        | (_, sg) :: rest' => octCoefs n rest' (acc ++ [s!"{q}.{r}.{sg}"])
        | [] => (acc ++ [s!"{q}.{r}.0"], [])
      else octCoefs n rest (acc ++ [s!"{q}.{r}.0"])
    | _ => (acc, [])

/-- the four corners of one octant -/
def octCorners : Nat → Trace → List String → List String × Trace
  | 0, es, acc => (acc, es)
  | n + 1, es, acc =>
    match es with
    | (_, c) :: rest =>
      if c = 1 then
        let (cs, rest') := octCoefs 3 rest []
        octCorners n rest' (acc ++ ["1:" ++ ";".intercalate cs])
      else octCorners n rest (acc ++ ["0"])
    | [] => (acc, [])

def octLeaves (octDepth inpDepth idxY idxCb idxCr : Nat) : Nat → Nat → Trace → List ((Nat × Nat × Nat) × String) →
    List ((Nat × Nat × Nat) × String) × Trace
  | 0, _, es, acc => (acc, es)
  | n + 1, i, es, acc =>
    let (cs, rest) := octCorners 4 es []
    octLeaves octDepth inpDepth idxY idxCb idxCr n (i + 1) rest
      (acc ++ [((idxY + i * 2 ^ (octDepth - inpDepth), idxCb, idxCr), "/".intercalate cs)])

/-- `parseColourMappingOctants` replayed on the octant values of a trace -/
def octWalk (octDepth partNumY : Nat) : Nat → Nat → Nat → Nat → Nat → Nat → Trace →
    List ((Nat × Nat × Nat) × String) × Trace
  | 0, _, _, _, _, _, es => ([], es)
  | fuel + 1, inpDepth, idxY, idxCb, idxCr, inpLength, es =>
    let (split, es1) : Bool × Trace :=
      if inpDepth < octDepth then (match es with | (_, v) :: rest => (v = 1, rest) | [] => (false, [])) else (false, es)
    if split then
      [(0, 0, 0), (0, 0, 1), (0, 1, 0), (0, 1, 1), (1, 0, 0), (1, 0, 1), (1, 1, 0), (1, 1, 1)].foldl
        (fun (st : List ((Nat × Nat × Nat) × String) × Trace) (kmn : Nat × Nat × Nat) =>
          let (k, m, n) := kmn
          let (sub, rest) := octWalk octDepth partNumY fuel (inpDepth + 1) (idxY + partNumY * k * inpLength / 2)
            (idxCb + m * inpLength / 2) (idxCr + n * inpLength / 2) (inpLength / 2) st.2
          (st.1 ++ sub, rest)) ([], es1)
    else octLeaves octDepth inpDepth idxY idxCb idxCr partNumY 0 es1 []

def keyLe (a b : (Nat × Nat × Nat) × String) : Bool :=
  let (a1, a2, a3) := a.1
  let (b1, b2, b3) := b.1
  a1 < b1 ∨ (a1 = b1 ∧ (a2 < b2 ∨ (a2 = b2 ∧ a3 ≤ b3)))

/-- the octant map in key order (a later octant with the same key replaces an earlier one) -/
def octText (t : Trace) : String :=
  let es := t.filter (fun e => octNames.contains e.1)
  let d := t.nat "cm_octant_depth"
  let (all, _) := octWalk d (2 ^ t.nat "cm_y_part_num_log2") 5 0 0 0 0 (2 ^ d) es
  let dedup := all.foldl (fun acc kv => acc.filter (·.1 != kv.1) ++ [kv]) []
  let sorted := dedup.mergeSort keyLe
  if sorted.isEmpty then "-" else
  "|".intercalate (sorted.map fun ((y, cb, cr), s) => s!"{y}-{cb}-{cr}={s}")

def hevcPpsRecord (t : Trace) (ext : List Bool) : String :=
  let parts := t.flatMap fun (n, v) =>
    let here := if hpHidden.contains n then [] else [hpShow n v]
    let extra :=
      if n == "num_ref_loc_offsets" then
        let gs := refLocGroups t
        ["ref_loc=" ++ (if gs.isEmpty then "-" else "|".intercalate (gs.map fun (id, s) => s!"{id}:{s}"))]
      else if n == "colour_mapping_enabled_flag" ∧ v = 1 then ["octants=" ++ octText t]
      else []
    here ++ extra
  let e := if ext.isEmpty then "-" else String.join (ext.map fun b => if b then "1" else "0")
  " ".intercalate (parts ++ [s!"ext_data={e}"])

/-! ### AVC slice header record -/

def toI32 (v : Int) : Int := (v + 2 ^ 31) % 2 ^ 32 - 2 ^ 31

def b01 (s : String) : Option Bool := if s = "1" then some true else if s = "0" then some false else none

/-- "-" or comma-separated `id:log2fn:log2poc:sep:fmo:poctype:daz:chroma:w:h:cl:cr:ct:cb` -/
def parseSpsInfos (s : String) : Option (List AvcSlice.SpsInfo) :=
  if s = "-" then some [] else
  (s.splitOn ",").mapM fun e =>
    match e.splitOn ":" with
    | [a, b, c, d, e5, f, g, h, i, j, k, l, m, n] => do
      pure { id := ← a.toNat?, log2MaxFrameNumMinus4 := ← b.toNat?, log2MaxPocLsbMinus4 := ← c.toNat?,
             separateColourPlane := ← b01 d, frameMbsOnly := ← b01 e5, pocType := ← f.toNat?,
             deltaPicOrderAlwaysZero := ← b01 g, chromaFormatIdc := ← h.toNat?, width := ← i.toNat?,
             height := ← j.toNat?, cropLeft := ← k.toNat?, cropRight := ← l.toNat?, cropTop := ← m.toNat?,
             cropBottom := ← n.toNat? }
    | _ => none

/-- "-" or comma-separated `id:spsid:bf:red:l0:l1:wp:wb:ent:dbf:nsg:sgmt:sgcr` -/
def parsePpsInfos (s : String) : Option (List AvcSlice.PpsInfo) :=
  if s = "-" then some [] else
  (s.splitOn ",").mapM fun e =>
    match e.splitOn ":" with
    | [a, b, c, d, e5, f, g, h, i, j, k, l, m] => do
      pure { id := ← a.toNat?, spsId := ← b.toNat?, bottomFieldPicOrderInFramePresent := ← b01 c,
             redundantPicCntPresent := ← b01 d, numRefIdxL0Default := ← e5.toNat?, numRefIdxL1Default := ← f.toNat?,
             weightedPred := ← b01 g, weightedBipredIdc := ← h.toNat?, entropyCodingMode := ← b01 i,
             deblockingFilterControlPresent := ← b01 j, numSliceGroupsMinus1 := ← k.toNat?,
             sliceGroupMapType := ← l.toNat?, sliceGroupChangeRateMinus1 := ← m.toNat? }
    | _ => none

/-- the `SliceHeader` struct, field by field (every field is the last value read for it, or its zero value) -/
def sliceRecord (_sm : List AvcSlice.SpsInfo) (pm : List AvcSlice.PpsInfo) (t : Trace) (size : Nat) : String :=
  let u (n : String) : String := toString (t.nat n % 2 ^ 32)
  let i (n : String) : String := toString (toI32 (t.get n))
  let pbs := AvcSlice.st t = 0 ∨ AvcSlice.st t = 3 ∨ AvcSlice.st t = 1
  " ".intercalate [
    s!"SliceType={t.nat "slice_type"}", "FirstMBInSlice=" ++ u "first_mb_in_slice",
    "PicParamID=" ++ u "pic_parameter_set_id", s!"SeqParamID={(AvcSlice.pp pm t).spsId}",
    "ColorPlaneID=" ++ u "colour_plane_id", "FrameNum=" ++ u "frame_num", "IDRPicID=" ++ u "idr_pic_id",
    "PicOrderCntLsb=" ++ u "pic_order_cnt_lsb", "DeltaPicOrderCntBottom=" ++ i "delta_pic_order_cnt_bottom",
    "DeltaPicOrderCnt0=" ++ i "delta_pic_order_cnt_0", "DeltaPicOrderCnt1=" ++ i "delta_pic_order_cnt_1",
    "RedundantPicCnt=" ++ u "redundant_pic_cnt",
    s!"NumRefIdxL0ActiveMinus1={if pbs then AvcSlice.numL0 pm t else 0}",
    s!"NumRefIdxL1ActiveMinus1={if pbs then AvcSlice.numL1 pm t else 0}",
    "ModificationOfPicNumsIDC=" ++ u "modification_of_pic_nums_idc", "AbsDiffPicNumMinus1=" ++ u "abs_diff_pic_num_minus1",
    "LongTermPicNum=" ++ u "long_term_pic_num", "AbsDiffViewIdxMinus1=" ++ u "abs_diff_view_idx_minus1",
    "LumaLog2WeightDenom=" ++ u "luma_log2_weight_denom", "ChromaLog2WeightDenom=" ++ u "chroma_log2_weight_denom",
    "DifferenceOfPicNumsMinus1=" ++ u "difference_of_pic_nums_minus1", "LongTermFramIdx=" ++ u "long_term_frame_idx",
    "MaxLongTermFrameIdxPlus1=" ++ u "max_long_term_frame_idx_plus1", "CabacInitIDC=" ++ u "cabac_init_idc",
    "SliceQPDelta=" ++ i "slice_qp_delta", "SliceQSDelta=" ++ i "slice_qs_delta",
    "DisableDeblockingFilterIDC=" ++ u "disable_deblocking_filter_idc",
    "SliceAlphaC0OffsetDiv2=" ++ i "slice_alpha_c0_offset_div2", "SliceBetaOffsetDiv2=" ++ i "slice_beta_offset_div2",
    "SliceGroupChangeCycle=" ++ u "slice_group_change_cycle", s!"Size={size % 2 ^ 32}",
    s!"FieldPicFlag={t.get "field_pic_flag"}", s!"BottomFieldFlag={t.get "bottom_field_flag"}",
    s!"DirectSpatialMvPredFlag={t.get "direct_spatial_mv_pred_flag"}",
    s!"NumRefIdxActiveOverrideFlag={t.get "num_ref_idx_active_override_flag"}",
    s!"RefPicListModificationL0Flag={t.get "ref_pic_list_modification_flag_l0"}",
    s!"RefPicListModificationL1Flag={t.get "ref_pic_list_modification_flag_l1"}",
    s!"NoOutputOfPriorPicsFlag={t.get "no_output_of_prior_pics_flag"}",
    s!"LongTermReferenceFlag={t.get "long_term_reference_flag"}", s!"SPForSwitchFlag={t.get "sp_for_switch_flag"}",
    s!"AdaptiveRefPicMarkingModeFlag={t.get "adaptive_ref_pic_marking_mode_flag"}"]

/-! ### HEVC slice header record -/

/-- the names of SPS / PPS values the slice header model looks at (dropping the others from the traces handed to it
    changes no `get`/`all` of these names; it only makes the look-ups faster) -/
def sliceSpsNames : List String := ["sps_seq_parameter_set_id", "log2_min_luma_coding_block_size_minus3",
  "log2_diff_max_min_luma_coding_block_size", "pic_width_in_luma_samples", "pic_height_in_luma_samples",
  "separate_colour_plane_flag", "chroma_format_idc", "num_short_term_ref_pic_sets", "num_long_term_ref_pics_sps",
  "log2_max_pic_order_cnt_lsb_minus4", "long_term_ref_pics_present_flag", "lt_ref_pic_poc_lsb_sps",
  "used_by_curr_pic_lt_sps_flag", "sps_temporal_mvp_enabled_flag", "sample_adaptive_offset_enabled_flag",
  "motion_vector_resolution_control_idc"] ++ HevcSps.rpsNames

def slicePpsNames : List String := ["pps_pic_parameter_set_id", "pps_seq_parameter_set_id",
  "dependent_slice_segments_enabled_flag", "output_flag_present_flag", "num_extra_slice_header_bits",
  "cabac_init_present_flag", "num_ref_idx_l0_default_active_minus1", "num_ref_idx_l1_default_active_minus1",
  "pps_slice_chroma_qp_offsets_present_flag", "weighted_pred_flag", "weighted_bipred_flag", "tiles_enabled_flag",
  "entropy_coding_sync_enabled_flag", "pps_loop_filter_across_slices_enabled_flag",
  "deblocking_filter_override_enabled_flag", "pps_deblocking_filter_disabled_flag", "lists_modification_present_flag",
  "slice_segment_header_extension_present_flag", "chroma_qp_offset_list_enabled_flag", "pps_curr_pic_ref_enabled_flag",
  "pps_slice_act_qp_offsets_present_flag"]

/-- the parameter-set maps from lists of NAL units, as `hevc.ParseSPSNALUnit` / `ParsePPSNALUnit` would fill them
    (sets that do not parse are left out; SPS key = `uint32(SpsID)`, a byte) -/
def hevcMaps (spsL ppsL : List Bytes) : HevcSlice.PsMap × HevcSlice.PsMap :=
  let sm : HevcSlice.PsMap := spsL.filterMap fun n =>
    match HevcSps.parseSps (HevcSps.fuel n) n with
    | .ok t _ => some (t.nat "sps_seq_parameter_set_id" % 256, t.filter (fun e => sliceSpsNames.contains e.1))
    | _ => none
  let ids := sm.map (·.1)
  let pm : HevcSlice.PsMap := ppsL.filterMap fun n =>
    match HevcPps.parsePps (HevcPps.fuel n) ids n with
    | .ok t _ => some (t.nat "pps_pic_parameter_set_id" % 2 ^ 32, t.filter (fun e => slicePpsNames.contains e.1))
    | _ => none
  (sm, pm)

def hexList (s : String) : Option (List Bytes) :=
  if s = "-" then some [] else (s.splitOn ",").mapM fromHex

def showL (l : List String) : String := if l.isEmpty then "-" else ",".intercalate l

/-- the `SliceHeader` struct: scalars (last value read or the zero/inferred value), then the lists -/
def hevcSliceRecord (sm pm : HevcSlice.PsMap) (t : Trace) (size : Nat) : String :=
  let indep := ¬ HevcSlice.dependent t
  let pb := indep ∧ (HevcSlice.isP t ∨ HevcSlice.isB t)
  let s := HevcSlice.sp sm pm t
  let nls := min (HevcSlice.nlSps t) (HevcSlice.ltIter t)
  let idxs := t.all "lt_idx_sps"
  let spsIdx (i : Nat) : Nat := if HevcSlice.numLt s > 1 then (idxs.getD i 0).toNat else 0
  let ltPoc := (List.range nls).map (fun i => toString ((HevcSps.nth s "lt_ref_pic_poc_lsb_sps" (spsIdx i)).toNat % 65536)) ++
    (t.all "poc_lsb_lt").map (fun v => toString (v.toNat % 65536))
  let ltUsed := (List.range nls).map (fun i => toString (HevcSps.nth s "used_by_curr_pic_lt_sps_flag" (spsIdx i))) ++
    (t.all "used_by_curr_pic_lt_flag").map toString
  let u8 (n : String) : String := toString (t.nat n % 256)
  let i8 (n : String) : String := toString (toI8 (t.get n))
  let all (n : String) (f : Int → String) : String := showL ((t.all n).map f)
  " ".intercalate [
    s!"SliceType={t.nat "slice_type"}", s!"FirstSliceSegmentInPicFlag={t.get "first_slice_segment_in_pic_flag"}",
    s!"NoOutputOfPriorPicsFlag={t.get "no_output_of_prior_pics_flag"}",
    s!"PicParameterSetId={t.nat "slice_pic_parameter_set_id" % 2 ^ 32}",
    s!"DependentSliceSegmentFlag={t.get "dependent_slice_segment_flag"}", s!"SegmentAddress={t.nat "slice_segment_address"}",
    s!"PicOutputFlag={t.get "pic_output_flag"}", "ColourPlaneId=" ++ u8 "colour_plane_id",
    s!"PicOrderCntLsb={t.nat "slice_pic_order_cnt_lsb" % 65536}",
    s!"ShortTermRefPicSetSpsFlag={t.get "short_term_ref_pic_set_sps_flag"}",
    "ShortTermRefPicSet=" ++ showRps (if indep then HevcSlice.sliceRps sm pm t else {}),
    "ShortTermRefPicSetIdx=" ++ u8 "short_term_ref_pic_set_idx", "NumLongTermSps=" ++ u8 "num_long_term_sps",
    s!"NumLongTermPics={t.nat "num_long_term_pics"}",
    "LtPoc=" ++ showL ltPoc, "LtUsed=" ++ showL ltUsed, "LtMsbPresent=" ++ all "delta_poc_msb_present_flag" toString,
    "LtMsbCycle=" ++ all "delta_poc_msb_cycle_lt" toString,
    s!"TemporalMvpEnabledFlag={t.get "slice_temporal_mvp_enabled_flag"}", s!"SaoLumaFlag={t.get "slice_sao_luma_flag"}",
    s!"SaoChromaFlag={t.get "slice_sao_chroma_flag"}",
    s!"NumRefIdxActiveOverrideFlag={t.get "num_ref_idx_active_override_flag"}",
    s!"NumRefIdxL0ActiveMinus1={if pb then HevcSlice.numL0 pm t else 0}",
    s!"NumRefIdxL1ActiveMinus1={if pb then HevcSlice.numL1 pm t else 0}",
    s!"RplmL0={t.get "ref_pic_list_modification_flag_l0"}", "ListEntryL0=" ++ all "list_entry_l0" (fun v => toString (v.toNat % 256)),
    s!"RplmL1={t.get "ref_pic_list_modification_flag_l1"}", "ListEntryL1=" ++ all "list_entry_l1" (fun v => toString (v.toNat % 256)),
    s!"MvdL1ZeroFlag={t.get "mvd_l1_zero_flag"}", s!"CabacInitFlag={t.get "cabac_init_flag"}",
    s!"CollocatedFromL0Flag={if pb ∧ t.get "slice_temporal_mvp_enabled_flag" = 1 ∧ HevcSlice.isB t then t.get "collocated_from_l0_flag" else 1}",
    "CollocatedRefIdx=" ++ u8 "collocated_ref_idx",
    "LumaLog2WeightDenom=" ++ u8 "luma_log2_weight_denom", "DeltaChromaLog2WeightDenom=" ++ i8 "delta_chroma_log2_weight_denom",
    "LumaWeightFlagL0=" ++ all "luma_weight_l0_flag" toString, "ChromaWeightFlagL0=" ++ all "chroma_weight_l0_flag" toString,
    "DeltaLumaWeightL0=" ++ all "delta_luma_weight_l0" (fun v => toString (toI8 v)), "LumaOffsetL0=" ++ all "luma_offset_l0" toString,
    "DeltaChromaWeightL0=" ++ all "delta_chroma_weight_l0" (fun v => toString (toI8 v)),
    "DeltaChromaOffsetL0=" ++ all "delta_chroma_offset_l0" toString,
    "LumaWeightFlagL1=" ++ all "luma_weight_l1_flag" toString, "ChromaWeightFlagL1=" ++ all "chroma_weight_l1_flag" toString,
    "DeltaLumaWeightL1=" ++ all "delta_luma_weight_l1" (fun v => toString (toI8 v)), "LumaOffsetL1=" ++ all "luma_offset_l1" toString,
    "DeltaChromaWeightL1=" ++ all "delta_chroma_weight_l1" (fun v => toString (toI8 v)),
    "DeltaChromaOffsetL1=" ++ all "delta_chroma_offset_l1" toString,
    "FiveMinusMaxNumMergeCand=" ++ u8 "five_minus_max_num_merge_cand", s!"UseIntegerMvFlag={t.get "use_integer_mv_flag"}",
    s!"QpDelta={t.get "slice_qp_delta"}", "CbQpOffset=" ++ i8 "slice_cb_qp_offset", "CrQpOffset=" ++ i8 "slice_cr_qp_offset",
    "ActYQpOffset=" ++ i8 "slice_act_y_qp_offset", "ActCbQpOffset=" ++ i8 "slice_act_cb_qp_offset",
    "ActCrQpOffset=" ++ i8 "slice_act_cr_qp_offset",
    s!"CuChromaQpOffsetEnabledFlag={t.get "cu_chroma_qp_offset_enabled_flag"}",
    s!"DeblockingFilterOverrideFlag={t.get "deblocking_filter_override_flag"}",
    s!"DeblockingFilterDisabledFlag={if indep ∧ HevcSlice.deblockDisabled pm t then 1 else 0}",
    "BetaOffsetDiv2=" ++ i8 "slice_beta_offset_div2", "TcOffsetDiv2=" ++ i8 "slice_tc_offset_div2",
    s!"LoopFilterAcrossSlicesEnabledFlag={t.get "slice_loop_filter_across_slices_enabled_flag"}",
    s!"NumEntryPointOffsets={t.nat "num_entry_point_offsets"}", "OffsetLenMinus1=" ++ u8 "offset_len_minus1",
    "EntryPointOffsetMinus1=" ++ all "entry_point_offset_minus1" (fun v => toString (v.toNat % 2 ^ 32)),
    s!"SegmentHeaderExtensionLength={t.nat "slice_segment_header_extension_length" % 65536}",
    "SegmentHeaderExtensionDataByte=" ++ all "slice_segment_header_extension_data_byte" toString,
    s!"Size={size % 2 ^ 32}"]

def dispatch (op : String) (args : List String) : Option String :=
  match op, args with
  | "avcsps", [mode, h] => do
      let nalu ← fromHex h
      match parseNalu (fuel nalu) (sps (mode == "se")) nalu with
      | none => pure "fuel"
      | some (t, e) =>
        let d := match dims t with | some (w, hh) => s!"{w}x{hh}" | none => "baddims"
        pure (s!"err={if e.err then 1 else 0} dims={d} read={e.nrBytesRead} " ++ showTrace t)
  | "avcspsm", [mode, h] => do
      let nalu ← fromHex h
      if nalu.headD 0 % 32 ≠ 7 then pure "err" else
      match parseNalu (fuel nalu) (sps (mode == "se")) nalu with
      | none => pure "fuel"
      | some (t, e) =>
        if e.err then pure "err" else
        pure (match record t with | some r => r | none => "err")
  | "avcppsm", [m, h] => do
      let nalu ← fromHex h
      let spsMap ← parseSpsMap m
      match AvcPps.parsePps (AvcPps.fuel nalu) spsMap nalu with
      | .fuel => pure "fuel"
      | .err => pure "err"
      | .ok t more => pure (ppsRecord t more)
  | "hevcspsm", [h] => do
      let nalu ← fromHex h
      match HevcSps.parseSps (HevcSps.fuel nalu) nalu with
      | .fuel => pure "fuel"
      | .err => pure "err"
      | .ok t ext => pure (hevcSpsRecord t ext)
  | "hevcppsm", [m, h] => do
      let nalu ← fromHex h
      let ids ← natList m
      match HevcPps.parsePps (HevcPps.fuel nalu) ids nalu with
      | .fuel => pure "fuel"
      | .err => pure "err"
      | .ok t ext => pure (hevcPpsRecord t ext)
  | "avcslicem", [ss, ps, h] => do
      let nalu ← fromHex h
      let sm ← parseSpsInfos ss
      let pm ← parsePpsInfos ps
      match AvcSlice.parseSlice (AvcSlice.fuel nalu) sm pm nalu with
      | .fuel => pure "fuel"
      | .err => pure "err"
      | .trunc => pure "trunc"
      | .ok t size => pure (sliceRecord sm pm t size)
  | "hevcslicem", [ss, ps, h] => do
      let nalu ← fromHex h
      let spsL ← hexList ss
      let ppsL ← hexList ps
      let (sm, pm) := hevcMaps spsL ppsL
      match HevcSlice.parseSlice (HevcSlice.fuel nalu) sm pm nalu with
      | .fuel => pure "fuel"
      | .err => pure "err"
      | .ok t size => pure (hevcSliceRecord sm pm t size)
  | _, _ => none

end Mp4ff.Driver.C15
