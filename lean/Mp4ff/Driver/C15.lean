import Mp4ff.Model.AvcSps
import Mp4ff.Driver.Util
namespace Mp4ff.Driver.C15
open Mp4ff Mp4ff.BitSyn Mp4ff.AvcSps Mp4ff.Driver

def showTrace (t : Trace) : String := " ".intercalate (t.map fun (n, v) => s!"{n}={v}")

/-- `GetSARfromIDC` (Table E-1); `none` = "SAR bad index" -/
def sarOfIdc (idc : Nat) : Option (Nat × Nat) :=
  if idc = 0 then some (0, 0) else
  [(1, 1), (12, 11), (10, 11), (16, 11), (40, 33), (24, 11), (20, 11), (32, 11), (80, 33), (18, 11), (15, 11),
   (64, 33), (160, 99), (4, 3), (3, 2), (2, 1)][idc - 1]?

/-- sample aspect ratio as the parser stores it -/
def sar (t : Trace) : Option (Nat × Nat) :=
  if t.get "aspect_ratio_info_present_flag" = 1 then
    if t.nat "aspect_ratio_idc" = 255 then some (t.nat "sar_width", t.nat "sar_height") else sarOfIdc (t.nat "aspect_ratio_idc")
  else some (0, 0)

/-- derived scaling lists: one entry per presence flag ("nil" when absent) -/
def scalingLists (t : Trace) : String :=
  let rec go : List (String × Int) → Nat → List String
    | [], _ => []
    | (n, v) :: rest, i =>
      if n == "scaling_list_present" then
        if v = 1 then
          let ds := (rest.takeWhile (·.1 == "delta_scale")).map (·.2)
          let size := if i < 6 then 16 else 64
          ",".intercalate ((scalingList size ds).map toString) :: go rest (i + 1)
        else "nil" :: go rest (i + 1)
      else go rest i
  "|".intercalate (go t 0)

def hidden : List String := ["nal_header", "pic_width_in_mbs_minus1", "pic_height_in_map_units_minus1",
  "aspect_ratio_info_present_flag", "aspect_ratio_idc", "sar_width", "sar_height", "scaling_list_present", "delta_scale"]

/-- the parsed SPS in the canonical text both sides print (fields the Go struct keeps, in syntax order) -/
def record (t : Trace) : Option String := do
  let (w, h) ← dims t
  let (sw, sh) ← sar t
  let parts := t.flatMap fun (n, v) =>
    if hidden.contains n then []
    else if n == "seq_scaling_matrix_present_flag" ∧ v = 1 then [s!"{n}={v}", "lists=" ++ scalingLists t]
    else if n == "vui_parameters_present_flag" ∧ v = 1 then [s!"{n}={v}", s!"sar={sw}:{sh}"]
    else if n == "seq_parameter_set_id" then [s!"{n}={v.toNat % 2 ^ 32}"]
    else if n == "chroma_format_idc" then [s!"{n}={v.toNat % 256}"]
    else [s!"{n}={v}"]
  some (" ".intercalate parts ++ s!" dims={w}x{h}")

def dispatch (op : String) (args : List String) : Option String :=
  match op, args with
  | "avcsps", [mode, h] => do
      let nalu ← fromHex h
      match parseNalu (fuel nalu) (sps (mode == "se")) nalu with
      | none => pure "fuel"
      | some (t, e) =>
        let d := match dims t with | some (w, hh) => s!"{w}x{hh}" | none => "baddims"
        pure (s!"err={if e.err then 1 else 0} dims={d} read={e.nrBytesRead} " ++ showTrace t)
  | "avcspsm", [mode, h] => do
      let nalu ← fromHex h
      if nalu.headD 0 % 32 ≠ 7 then pure "err" else
      match parseNalu (fuel nalu) (sps (mode == "se")) nalu with
      | none => pure "fuel"
      | some (t, e) =>
        if e.err then pure "err" else
        pure (match record t with | some r => r | none => "err")
  | _, _ => none

end Mp4ff.Driver.C15
