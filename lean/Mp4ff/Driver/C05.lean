import Mp4ff.Model.Frag
import Mp4ff.Driver.Util
namespace Mp4ff.Driver.C05
open Mp4ff Mp4ff.Frag Mp4ff.Driver

def parseSample (s : String) : Option Sample :=
  match intList (s.replace ":" ",") with
  | some [fl, d, sz, c] => some ⟨fl.toNat, d.toNat, sz.toNat, c⟩
  | _ => none

def ob (o : Option Nat) : String := match o with | some v => toString v | none => "-"
def b01 (b : Bool) : String := if b then "1" else "0"

/-- `trun.rt <passes> <trexDur:trexSize:trexFlags> <flags:dur:size:cto>...` (passes = number of optimisation passes) -/
def dispatch (op : String) (args : List String) : Option String :=
  match op, args with
  | "trun.rt", opt :: trex :: ss => do
      let tx ← natList (trex.replace ":" ",")
      let trexV : Trex := ⟨tx.getD 0 0, tx.getD 1 0, tx.getD 2 0⟩
      let samples ← ss.mapM parseSample
      let t0 : Trun := { samples := samples }
      let (tfhd, t) ← optimizeN (← opt.toNat?) {} t0
      let rb := readBack tfhd trexV t
      pure (s!"tfhd={ob tfhd.defDur},{ob tfhd.defSize},{ob tfhd.defFlags} trun={b01 t.hasDur}{b01 t.hasSize}{b01 t.hasFlags}{b01 t.hasCto},{ob t.firstFlags} " ++
        " ".intercalate (rb.map fun s => s!"{s.flags}:{s.dur}:{s.size}:{s.cto}"))
  | "trun.off", moof :: hdr :: sizes => do
      pure (showNats (dataOffsets (← moof.toNat?) (← hdr.toNat?) (← sizes.mapM String.toNat?)))
  | _, _ => none

end Mp4ff.Driver.C05
