import Mp4ff.Model.Protect
import Mp4ff.Driver.Util
/-!
Driver ops for the box bookkeeping of Common Encryption (`Mp4ff.Model.Protect`).  One canonical text form for a
fragment structure, used for requests and answers:

  frag  := moofStart/mdatStart/mdatHdr/child;child;...
  child := traf=<trackID>=tc,tc,...  |  pssh:<size>  |  <kind>:<size>
  tc    := trun:<size>:<dataOffset>:<writeOrder>:<s1+s2+..>
         | saiz:<size>:<aux>:<default>:<count>:<i1+i2+..>
         | saio:<size>:<version>:<aux>:<o1+o2+..>
         | senc:<size>:<subFlag>:<ivSize>:<count>:<n1+n2+..>:<readSize>:<parsed>:<startPos>
         | usenc:<size>:<parsed>:<startPos>
         | <kind>:<size>
  moov  := child;child;...   child := trak=<trackID>=entry|entry  |  pssh:<size>  |  <kind>:<size>
  entry := <v|a|o>.<kind>.<size>~ec,ec,...    ec := sinf:<size>:<frma>:<scheme>:<ivSize>:<constIVLen> | <kind>:<size>

Empty lists are `-`.  Sizes of saiz/saio/senc/sinf/entries in a request are ignored (recomputed by the model's formulas);
in an answer they are the model's formulas.
-/
namespace Mp4ff.Driver.C06b
open Mp4ff.Protect Mp4ff.Driver

def plusNats (s : String) : Option (List Nat) :=
  if s = "-" then some [] else (s.splitOn "+").mapM String.toNat?

def plusInts (s : String) : Option (List Int) :=
  if s = "-" then some [] else (s.splitOn "+").mapM String.toInt?

def showPlusNats (l : List Nat) : String := if l.isEmpty then "-" else "+".intercalate (l.map toString)
def showPlusInts (l : List Int) : String := if l.isEmpty then "-" else "+".intercalate (l.map toString)

def bool? (s : String) : Option Bool := if s = "1" then some true else if s = "0" then some false else none
def showBool (b : Bool) : String := if b then "1" else "0"

def scheme? (s : String) : Option Scheme := if s = "cenc" then some .cenc else if s = "cbcs" then some .cbcs else none

def trafChild? (s : String) : Option TrafChild :=
  match s.splitOn ":" with
  | ["trun", sz, off, wo, ss] => do
      pure (.trun { size := ← sz.toNat?, dataOffset := ← off.toInt?, writeOrder := ← wo.toNat?, sampleSizes := ← plusNats ss })
  | ["saiz", _, aux, d, n, info] => do
      pure (.saiz { auxType := ← bool? aux, defaultSize := ← d.toNat?, sampleCount := ← n.toNat?, info := ← plusNats info })
  | ["saio", _, v, aux, offs] => do
      pure (.saio { version := ← v.toNat?, auxType := ← bool? aux, offsets := ← plusInts offs })
  | ["senc", _, fl, iv, n, subs, rs, p, sp] => do
      pure (.senc { subFlag := ← bool? fl, ivSize := ← iv.toNat?, sampleCount := ← n.toNat?, subs := ← plusNats subs,
                    readSize := ← rs.toNat?, parsed := ← bool? p, startPos := ← sp.toNat? })
  | ["usenc", sz, p, sp] => do pure (.uuidSenc (← sz.toNat?) (← bool? p) (← sp.toNat?))
  | [k, sz] => do pure (.other k (← sz.toNat?))
  | _ => none

def showTrafChild : TrafChild → String
  | .other k n => s!"{k}:{n}"
  | .trun r => s!"trun:{r.size}:{r.dataOffset}:{r.writeOrder}:{showPlusNats r.sampleSizes}"
  | .saiz b => s!"saiz:{b.size}:{showBool b.auxType}:{b.defaultSize}:{b.sampleCount}:{showPlusNats b.info}"
  | .saio b => s!"saio:{b.size}:{b.version}:{showBool b.auxType}:{showPlusInts b.offsets}"
  | .senc b => s!"senc:{b.size}:{showBool b.subFlag}:{b.ivSize}:{b.sampleCount}:{showPlusNats b.subs}:{b.readSize}:{showBool b.parsed}:{b.startPos}"
  | .uuidSenc n p sp => s!"usenc:{n}:{showBool p}:{sp}"

def moofChild? (s : String) : Option MoofChild :=
  match s.splitOn "=" with
  | ["traf", id, cs] => do
      let l ← if cs = "-" then some [] else (cs.splitOn ",").mapM trafChild?
      pure (.traf { trackID := ← id.toNat?, children := l })
  | [one] =>
    match one.splitOn ":" with
    | ["pssh", sz] => do pure (.pssh (← sz.toNat?))
    | [k, sz] => do pure (.other k (← sz.toNat?))
    | _ => none
  | _ => none

def showMoofChild : MoofChild → String
  | .other k n => s!"{k}:{n}"
  | .pssh n => s!"pssh:{n}"
  | .traf t => s!"traf={t.trackID}={if t.children.isEmpty then "-" else ",".intercalate (t.children.map showTrafChild)}"

def frag? (s : String) : Option Frag :=
  match s.splitOn "/" with
  | [ms, md, mh, cs] => do
      let l ← if cs = "-" then some [] else (cs.splitOn ";").mapM moofChild?
      pure { moofStart := ← ms.toNat?, children := l, mdatStart := ← md.toNat?, mdatHdr := ← mh.toNat? }
  | _ => none

def showFrag (f : Frag) : String :=
  s!"{f.moofStart}/{f.mdatStart}/{f.mdatHdr}/{if f.children.isEmpty then "-" else ";".intercalate (f.children.map showMoofChild)}"

def showOFrag : Option Frag → String
  | some f => showFrag f
  | none => "err"

/-- `id=scheme.n1+n2,id=scheme.-` -/
def params? (s : String) : Option (List (Nat × Scheme × List Nat)) :=
  if s = "-" then some [] else (s.splitOn ",").mapM fun p =>
    match p.splitOn "=" with
    | [id, v] =>
      match v.splitOn "." with
      | [sc, subs] => do pure (← id.toNat?, ← scheme? sc, ← plusNats subs)
      | _ => none
    | _ => none

def paramFn (l : List (Nat × Scheme × List Nat)) (id : Nat) : Option (Scheme × List Nat) :=
  (l.find? fun p => p.1 == id).map (·.2)

/-- `id=scheme.iv,id=-` -/
def decInfo? (s : String) : Option DecInfo :=
  if s = "-" then some [] else (s.splitOn ",").mapM fun p =>
    match p.splitOn "=" with
    | [id, "-"] => do pure (← id.toNat?, none)
    | [id, v] =>
      match v.splitOn "." with
      | [sc, iv] => do pure (← id.toNat?, some (sc, ← iv.toNat?))
      | _ => none
    | _ => none

def showDecInfo (di : DecInfo) : String :=
  if di.isEmpty then "-" else ",".intercalate (di.map fun
    | (id, none) => s!"{id}=-"
    | (id, some (sc, iv)) => s!"{id}={sc}.{iv}")

def entryChild? (s : String) : Option EntryChild :=
  match s.splitOn ":" with
  | ["sinf", _, frma, sc, iv, cl] => do
      pure (.sinf { frma := frma, scheme := sc, ivSize := ← iv.toNat?, constIVLen := ← cl.toNat? })
  | [k, sz] => do pure (.other k (← sz.toNat?))
  | _ => none

def showEntryChild : EntryChild → String
  | .other k n => s!"{k}:{n}"
  | .sinf s => s!"sinf:{s.size}:{s.frma}:{s.scheme}:{s.ivSize}:{s.constIVLen}"

def cls? (s : String) : Option EntryClass :=
  if s = "v" then some .visual else if s = "a" then some .audio else if s = "o" then some .other else none

def showCls : EntryClass → String
  | .visual => "v"
  | .audio => "a"
  | .other => "o"

def entry? (s : String) : Option SampleEntry :=
  match s.splitOn "~" with
  | [hd, cs] =>
    match hd.splitOn "." with
    | [c, k, _] => do
        let l ← if cs = "-" then some [] else (cs.splitOn ",").mapM entryChild?
        pure { cls := ← cls? c, kind := k, children := l }
    | _ => none
  | _ => none

def showEntry (e : SampleEntry) : String :=
  s!"{showCls e.cls}.{e.kind}.{e.size}~{if e.children.isEmpty then "-" else ",".intercalate (e.children.map showEntryChild)}"

def moovChild? (s : String) : Option MoovChild :=
  match s.splitOn "=" with
  | ["trak", id, es] => do
      let l ← if es = "-" then some [] else (es.splitOn "|").mapM entry?
      pure (.trak { trackID := ← id.toNat?, entries := l })
  | [one] =>
    match one.splitOn ":" with
    | ["pssh", sz] => do pure (.pssh (← sz.toNat?))
    | [k, sz] => do pure (.other k (← sz.toNat?))
    | _ => none
  | _ => none

def showMoovChild : MoovChild → String
  | .other k n => s!"{k}:{n}"
  | .pssh n => s!"pssh:{n}"
  | .trak t => s!"trak={t.trackID}={if t.entries.isEmpty then "-" else "|".intercalate (t.entries.map showEntry)}"

def moov? (s : String) : Option (List MoovChild) :=
  if s = "-" then some [] else (s.splitOn ";").mapM moovChild?

def showMoov (l : List MoovChild) : String := if l.isEmpty then "-" else ";".intercalate (l.map showMoovChild)

/-- `id*k`: a trak with k protected sample entries (cenc), or one clear entry when k = 0 -/
def trexTrak? (s : String) : Option MoovChild :=
  match s.splitOn "*" with
  | [id, k] => do
      let n ← k.toNat?
      let prot : SampleEntry := { cls := .visual, kind := "encv", children := [.sinf (schemeSinf .cenc "avc1")] }
      let clear : SampleEntry := { cls := .visual, kind := "avc1", children := [] }
      pure (.trak { trackID := ← id.toNat?, entries := if n = 0 then [clear] else List.replicate n prot })
  | _ => none

def showTrexPairing (l : List (Nat × Option Nat)) : String :=
  if l.isEmpty then "-" else ",".intercalate (l.map fun
    | (id, none) => s!"{id}=-"
    | (id, some p) => s!"{id}={p}")

def dispatch (op : String) (args : List String) : Option String :=
  match op, args with
  | "prot.enc", [sc, subs, f] => do
      pure (showOFrag (encryptFrag (← scheme? sc) (← plusNats subs) (← frag? f)))
  | "prot.enciv", [iv, sc, subs, f] => do
      pure (showOFrag (encryptFragIV (← iv.toNat?) (← scheme? sc) (← plusNats subs) (← frag? f)))
  | "prot.all", [ps, f] => do
      pure (showOFrag (encryptAll (paramFn (← params? ps)) (← frag? f)))
  | "prot.lay", [f] => do pure (showOFrag (layout (← frag? f)))
  | "prot.dec", [di, f] => do pure (showOFrag (decryptFrag (← decInfo? di) (← frag? f)))
  | "prot.init", [sc, ps, m] => do
      pure (match initProtect (← scheme? sc) (← plusNats ps) (← moov? m) with | some r => showMoov r | none => "err")
  | "prot.deinit", [m] => do
      pure (match decryptInit (← moov? m) with | some (r, di) => s!"{showMoov r} {showDecInfo di}" | none => "err")
  | "prot.trex", [ts, tx] => do
      let traks ← (ts.splitOn ",").mapM trexTrak?
      pure (match decryptInitTrex traks (← plusNats tx) with | some r => showTrexPairing r | none => "err")
  | _, _ => none

end Mp4ff.Driver.C06b
