import Mp4ff.Model.Mdat
import Mp4ff.Driver.C09
namespace Mp4ff.Driver.C08
open Mp4ff Mp4ff.Mdat Mp4ff.Stbl Mp4ff.Driver

def mk (lazy : String) (F : Bytes) (ms hl sz : Nat) : MdatBox :=
  if lazy = "1" then decodeLazy ms hl sz else decodeEager F ms hl sz

def ranges? (s : String) : Option (List (Nat × Nat)) :=
  if s = "-" then some [] else (s.splitOn ",").mapM fun p =>
    match (p.splitOn ":").mapM String.toNat? with
    | some [a, b] => some (a, b)
    | _ => none

def dispatch (op : String) (args : List String) : Option String :=
  match op, args with
  | "md.read", [lz, ms, hl, sz, st, ln, h] => do
      let F ← fromHex h
      let m := mk lz F (← ms.toNat?) (← hl.toNat?) (← sz.toNat?)
      pure (match m.readData F (← st.toNat?) (← ln.toNat?) with | some b => toHex b | none => "err")
  -- a history of reads on one object, all results held: the model is stateless (every read is a function of the box
  -- and the file), so each sub-request is answered on its own
  | "md.hist", [lz, ms, hl, sz, rs, h] => do
      let F ← fromHex h
      let m := mk lz F (← ms.toNat?) (← hl.toNat?) (← sz.toNat?)
      let l ← (rs.splitOn ",").mapM fun p =>
        match p.splitOn ":" with
        | [a, b, _] => do pure ((← a.toNat?), (← b.toNat?))
        | _ => none
      pure (",".intercalate (l.map fun (st, ln) => match m.readData F st ln with | some b => toHex b | none => "err"))
  | "md.enc", [lz, ms, hl, sz, h] => do
      let F ← fromHex h
      let m := mk lz F (← ms.toNat?) (← hl.toNat?) (← sz.toNat?)
      pure s!"{toHex m.encode} size={m.size}"
  | "md.copy", [lz, ms, hl, sz, wl, rs, h] => do
      let F ← fromHex h
      let m := mk lz F (← ms.toNat?) (← hl.toNat?) (← sz.toNat?)
      pure (match copyRanges m F (← wl.toNat?) (← ranges? rs) with | some b => toHex b | none => "err")
  | "md.copyt", a => do
      let t ← C09.parseTables (a.take 7)
      match a.drop 7 with
      | [lz, ms, hl, sz, wl, x, y, h] =>
        let F ← fromHex h
        let m := mk lz F (← ms.toNat?) (← hl.toNat?) (← sz.toNat?)
        pure (match copySampleData t m F (← wl.toNat?) (← x.toNat?) (← y.toNat?) with | some b => toHex b | none => "err")
      | _ => none
  | "seg.copy", a => do
      -- examples/segmenter copyMediaData (`segmenter -lazy`): the CopySampleData chunk walk without work buffer, read
      -- straight from the input file; trailing fields (segment duration, track, segment number) only serve the replay
      let t ← C09.parseTables (a.take 7)
      match a.drop 7 with
      | ms :: hl :: sz :: x :: y :: h :: _ =>
        let F ← fromHex h
        let m := decodeLazy (← ms.toNat?) (← hl.toNat?) (← sz.toNat?)
        pure (match copySampleData t m F 0 (← x.toNat?) (← y.toNat?) with | some b => toHex b | none => "err")
      | _ => none
  | _, _ => none

end Mp4ff.Driver.C08
