import Mp4ff.Model.Boxes
import Mp4ff.Model.BoxGen
import Mp4ff.Model.Tree
import Mp4ff.Driver.Util
namespace Mp4ff.Driver.C01
open Mp4ff Mp4ff.Boxes Mp4ff.Driver

def rt (h : String) : Option String :=
  (fromHex h).map fun bs =>
      match roundTrip bs with
      | .unmodelled => "unmodelled"
      | .rejected => "rej"
      | .encFails => "encfail"
      | .ok size enc _ => s!"size={size} enc={toHex enc}"

def dispatch (op : String) (args : List String) : Option String :=
  match op, args with
  | "box.rt", [h] => rt h
  -- C03: the same model function answers for every decoder x encoder combination of the Go code
  | "box.rt@rd-sw", [h] => rt h
  | "box.rt@sr-wr", [h] => rt h
  | "box.rt@sr-sw", [h] => rt h
  | "box.dc", [h] => (fromHex h).map fun bs =>
      match roundTrip bs with
      | .ok _ _ dc => showNats dc
      | _ => "n/a"
  -- model-based generation: a box drawn from the layout term of `ty` (see Model/BoxGen.lean)
  | "box.gen", [ty, seed] => seed.toNat?.map fun n =>
      match BoxGen.genBox ty n with
      | some bs => toHex bs
      | none => "none"
  -- nested round trip (Model/Tree.lean)
  | "tree.rt", [h] => (fromHex h).map fun bs =>
      match TreeRT.roundTripTree bs with
      | .unmodelled => "unmodelled"
      | .rejected => "rej"
      | .encFails => "encfail"
      | .ok enc _ => s!"size={enc.length} enc={toHex enc}"
  | "box.registered", [] => some (" ".intercalate (Generated.decoderKeys.map fun k => toHex (k.toList.map fun c => c.toNat % 256)))
  | "box.types", [] => some (" ".intercalate (specs.map (·.1)))
  | _, _ => none

end Mp4ff.Driver.C01
