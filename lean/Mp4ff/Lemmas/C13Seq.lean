import Mp4ff.Lemmas.ExpGolomb
namespace Mp4ff.Bits

theorem lowBits_zero_val (m : Nat) : lowBits m 0 = List.replicate m false := by
  induction m with
  | zero => rfl
  | succ m ih => simp [lowBits, ih, List.replicate_succ]

theorem BW.write_n (w : BW) (bits k : Nat) : (w.write bits k).n = (w.n + k) % 8 := by
  unfold BW.write
  obtain ⟨bs, hd, _, _⟩ := BW.drain_spec (((w.v <<< k) % W64) ||| (bits &&& mask k)) (w.n + k) w.out
  simp only [hd]

/-- fields of an op as handed to `Write` -/
def Op.fields : Op → List (Nat × Nat)
  | .fld k v => [(k, v)]
  | .flag b => [(1, if b then 1 else 0)]
  | .ue nr => ueFields nr
  | .se x => ueFields (seToUe x)

def Op.bits (op : Op) : List Bool := fieldBits op.fields

def opsBits : List Op → List Bool
  | [] => []
  | op :: ops => op.bits ++ opsBits ops

def allFields : List Op → List (Nat × Nat)
  | [] => []
  | op :: ops => op.fields ++ allFields ops

theorem seToUe_lt {x : Int} (hx : -(2 ^ 31 : Int) < x ∧ x < 2 ^ 31) : seToUe x < 2 ^ 32 := by
  unfold seToUe
  have h31 : (2:Int) ^ 31 = 2147483648 := by decide
  have h32 : (2:Nat) ^ 32 = 4294967296 := by decide
  split <;> omega

theorem Op.fields_ok (op : Op) (h : op.OK) : ∀ kv ∈ op.fields, kv.1 ≤ 56 := by
  cases op with
  | fld k v => intro kv hkv; simp [Op.fields] at hkv; subst hkv; simp; exact Nat.le_trans h.2.1 (by decide)
  | flag b => intro kv hkv; simp [Op.fields] at hkv; subst hkv; simp
  | ue nr => exact ueFields_ok nr h
  | se x => exact ueFields_ok _ (seToUe_lt h)

theorem EW.writeOp_eq (w : EW) (op : Op) (h : op.OK) : w.writeOp op = w.writeAll op.fields := by
  cases op with
  | fld k v => simp [EW.writeOp, Op.fields, EW.writeAll]
  | flag b => simp [EW.writeOp, Op.fields, EW.writeAll]
  | ue nr => simp only [EW.writeOp, Op.fields]; exact EW.writeExpGolomb_eq w nr h
  | se x => simp only [EW.writeOp, Op.fields]; exact EW.writeExpGolomb_eq w _ (seToUe_lt h)

theorem EW.writeAll_append (a b : List (Nat × Nat)) : ∀ w : EW, w.writeAll (a ++ b) = (w.writeAll a).writeAll b := by
  induction a with
  | nil => intro w; rfl
  | cons kv rest ih => intro w; obtain ⟨k, v⟩ := kv; simp [EW.writeAll, ih]

theorem fieldBits_append (a b : List (Nat × Nat)) : fieldBits (a ++ b) = fieldBits a ++ fieldBits b := by
  induction a with
  | nil => rfl
  | cons kv rest ih => obtain ⟨k, v⟩ := kv; simp [fieldBits, ih]

theorem EW.foldl_writeOp (ops : List Op) (hok : ∀ op ∈ ops, op.OK) : ∀ w : EW,
    ops.foldl EW.writeOp w = w.writeAll (allFields ops) := by
  induction ops with
  | nil => intro w; rfl
  | cons op ops ih =>
    intro w
    simp only [List.foldl_cons, allFields]
    rw [ih (fun o h => hok o (by simp [h])), EW.writeOp_eq w op (hok op (by simp)), EW.writeAll_append]

theorem fieldBits_allFields (ops : List Op) : fieldBits (allFields ops) = opsBits ops := by
  induction ops with
  | nil => rfl
  | cons op ops ih => simp [allFields, opsBits, fieldBits_append, ih, Op.bits]

theorem allFields_ok (ops : List Op) (hok : ∀ op ∈ ops, op.OK) : ∀ kv ∈ allFields ops, kv.1 ≤ 56 := by
  induction ops with
  | nil => intro kv h; simp [allFields] at h
  | cons op ops ih =>
    intro kv h
    simp only [allFields, List.mem_append] at h
    rcases h with h | h
    · exact Op.fields_ok op (hok op (by simp)) kv h
    · exact ih (fun o ho => hok o (by simp [ho])) kv h

/-- plain-writer counterpart of `WriteRbspTrailingBits` -/
def BW.trailing (w : BW) : BW :=
  let w1 := w.write 1 1
  if w1.n > 0 then w1.write 0 (8 - w1.n) else w1

theorem BW.trailing_spec (w : BW) (hw : w.Inv) :
    w.trailing.Inv ∧ w.trailing.n = 0 ∧
      ∃ m, w.trailing.abs = w.abs ++ true :: List.replicate m false := by
  have h1 := BW.write_spec w 1 1 hw (by decide)
  unfold BW.trailing
  by_cases hn : (w.write 1 1).n > 0
  · simp only [hn, if_true]
    have hlt : (w.write 1 1).n < 8 := h1.1.1
    have h2 := BW.write_spec (w.write 1 1) 0 (8 - (w.write 1 1).n) h1.1 (by omega)
    refine ⟨h2.1, ?_, 8 - (w.write 1 1).n, ?_⟩
    · rw [BW.write_n]
      have : (w.write 1 1).n + (8 - (w.write 1 1).n) = 8 := by omega
      rw [this]
    · rw [h2.2, h1.2, lowBits_zero_val]
      simp [lowBits]
  · simp only [hn, if_false]
    refine ⟨h1.1, by omega, 0, ?_⟩
    rw [h1.2]; simp [lowBits]

theorem EW.trailing_refines (e : EW) (w : BW) (h : EWRel e w) :
    EWRel e.writeRbspTrailingBits w.trailing := by
  unfold EW.writeRbspTrailingBits EW.stuffByteWithZeros BW.trailing
  have h1 := EW.write_refines e w h 1 1
  have hn : (e.write 1 1).n = (w.write 1 1).n := h1.1
  simp only [hn]
  split
  · exact EW.write_refines _ _ h1 0 _
  · exact h1

/-! ### reading a whole op list -/

theorem ER.readOp_spec (e : ER) (P : Bytes) (op : Op) (tail : List Bool) (hop : op.OK)
    (he : e.Inv P) (habs : e.abs P = op.bits ++ tail) :
    ∃ P', (e.readOp op).2 = op.value ∧ (e.readOp op).1.Inv P' ∧ (e.readOp op).1.abs P' = tail ∧
      (e.readOp op).1.nread + (e.readOp op).1.rest.length = e.nread + e.rest.length := by
  cases op with
  | fld k v =>
    obtain ⟨hk1, hk2, hv⟩ := hop
    simp only [Op.bits, Op.fields, fieldBits, List.append_nil] at habs
    obtain ⟨P', h1, h2, h3, h4, h5⟩ := ER.read_spec e P k he (by omega) (by rw [habs]; simp)
    rw [habs] at h2 h3
    simp at h2 h3
    refine ⟨P', ?_, h1, h2, h5⟩
    simp only [ER.readOp, Op.value]
    rw [eq_of_lowBits_eq h4 hv h3]
  | flag b =>
    simp only [Op.bits, Op.fields, fieldBits, List.append_nil] at habs
    obtain ⟨P', h1, h2, h3, h4, h5⟩ := ER.read_spec e P 1 he (by decide) (by rw [habs]; simp)
    rw [habs] at h2 h3
    simp at h2 h3
    refine ⟨P', ?_, h1, h2, h5⟩
    have hb : (if b then 1 else 0 : Nat) < 2 ^ 1 := by cases b <;> decide
    have hv := eq_of_lowBits_eq h4 hb h3
    simp only [ER.readOp, ER.readFlag, Op.value, hv]
    cases b <;> simp
  | ue nr =>
    simp only [Op.bits, Op.fields, fieldBits_ueFields] at habs
    obtain ⟨P', g1, g2, g3, g4⟩ := ER.readExpGolomb_spec e P nr tail hop he habs
    exact ⟨P', by simp [ER.readOp, Op.value, g1], g2, g3, g4⟩
  | se x =>
    simp only [Op.bits, Op.fields, fieldBits_ueFields] at habs
    obtain ⟨P', g1, g2, g3, g4⟩ := ER.readSignedGolomb_spec e P x tail hop he habs
    exact ⟨P', by simp [ER.readOp, Op.value, g1], g2, g3, g4⟩

theorem ER.readOps_cons_fst (e : ER) (op : Op) (ops : List Op) :
    (e.readOps (op :: ops)).1 = ((e.readOp op).1.readOps ops).1 := rfl

theorem ER.readOps_cons_snd (e : ER) (op : Op) (ops : List Op) :
    (e.readOps (op :: ops)).2 = (e.readOp op).2 :: ((e.readOp op).1.readOps ops).2 := rfl

theorem BR.readAll_cons_fst (r : BR) (k : Nat) (ks : List Nat) :
    (r.readAll (k :: ks)).1 = ((r.read k).1.readAll ks).1 := rfl

theorem BR.readAll_cons_snd (r : BR) (k : Nat) (ks : List Nat) :
    (r.readAll (k :: ks)).2 = (r.read k).2 :: ((r.read k).1.readAll ks).2 := rfl

theorem ER.readOps_spec (ops : List Op) : ∀ (e : ER) (P : Bytes) (tail : List Bool),
    (∀ op ∈ ops, op.OK) → e.Inv P → e.abs P = opsBits ops ++ tail →
    ∃ P', (e.readOps ops).2 = ops.map Op.value ∧ (e.readOps ops).1.Inv P' ∧
      (e.readOps ops).1.abs P' = tail ∧
      (e.readOps ops).1.nread + (e.readOps ops).1.rest.length = e.nread + e.rest.length := by
  induction ops with
  | nil => intro e P tail _ he habs; exact ⟨P, rfl, he, by simpa [opsBits, ER.readOps] using habs, rfl⟩
  | cons op ops ih =>
    intro e P tail hok he habs
    simp only [opsBits, List.append_assoc] at habs
    obtain ⟨P1, a1, a2, a3, a4⟩ := ER.readOp_spec e P op _ (hok op (by simp)) he habs
    obtain ⟨P2, b1, b2, b3, b4⟩ := ih (e.readOp op).1 P1 tail (fun o h => hok o (by simp [h])) a2 a3
    rw [ER.readOps_cons_fst, ER.readOps_cons_snd]
    refine ⟨P2, ?_, b2, b3, by omega⟩
    simp only [List.map_cons]
    rw [b1, a1]

theorem BR.readAll_spec (ops : List (Nat × Nat)) : ∀ (r : BR) (tail : List Bool),
    FieldsOK ops → r.Inv → r.abs = fieldBits ops ++ tail →
    (r.readAll (ops.map (·.1))).2 = ops.map (·.2) ∧ (r.readAll (ops.map (·.1))).1.Inv ∧
      (r.readAll (ops.map (·.1))).1.abs = tail ∧
      (r.readAll (ops.map (·.1))).1.nread + (r.readAll (ops.map (·.1))).1.rest.length = r.nread + r.rest.length := by
  induction ops with
  | nil => intro r tail _ hr habs; exact ⟨rfl, hr, by simpa [fieldBits, BR.readAll] using habs, rfl⟩
  | cons kv ops ih =>
    intro r tail hok hr habs
    obtain ⟨k, v⟩ := kv
    obtain ⟨_, hk, hv⟩ := hok (k, v) (by simp)
    simp only [fieldBits, List.append_assoc] at habs
    obtain ⟨h1, h2, h3, h4, h5⟩ := BR.read_spec r k hr hk (by rw [habs]; simp)
    rw [habs] at h2 h3
    simp at h2 h3
    have hval := eq_of_lowBits_eq h4 hv h3
    obtain ⟨b1, b2, b3, b4⟩ := ih (r.read k).1 tail (fun o h => hok o (by simp [h])) h1 h2
    simp only [List.map_cons]
    rw [BR.readAll_cons_fst, BR.readAll_cons_snd]
    refine ⟨?_, b2, b3, by omega⟩
    rw [b1, hval]

end Mp4ff.Bits
