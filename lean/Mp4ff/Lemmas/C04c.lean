import Mp4ff.Lemmas.C04b
namespace Mp4ff.Walk

theorem suff_both (g : Nat) :
    (∀ (bs : Bytes) (pos : Nat) (r : Node × Nat), decodeBox g bs pos = some r →
      ∀ f, 2 * ((bs.length - pos) / 8) ≤ f → decodeBox f bs pos = some r) ∧
    (∀ (bs : Bytes) (rpos left : Nat) (r : List Node × Nat), rpos ≤ bs.length →
      decodeChildren g bs rpos left = some r →
      ∀ f, 2 * ((bs.length - rpos) / 8) + 1 ≤ f → decodeChildren f bs rpos left = some r) := by
  induction g with
  | zero => constructor <;> intros <;> simp_all [decodeBox, decodeChildren]
  | succ g ih =>
    obtain ⟨ihB, ihC⟩ := ih
    constructor
    · intro bs pos r h f hf
      have ⟨b1, b2, _⟩ := (bound_both _).1 bs pos r.1 r.2 h
      cases f with
      | zero => omega
      | succ f =>
      simp only [decodeBox] at h ⊢
      split at h
      · simp at h
      · rename_i ty size hl hh
        have ⟨h1, h2, h3⟩ := header_facts hh
        split at h
        · simp at h
        · rename_i hc1
          rw [if_neg hc1]
          split at h
          · rename_i hc2
            rw [if_pos hc2]
            split at h
            · rename_i kids p' hc
              rw [ihC _ _ _ _ h1 hc f (by omega)]
              exact h
            · simp at h
          · rename_i hc2
            rw [if_neg hc2]
            exact h
    · intro bs rpos left r hr h f hf
      cases f with
      | zero => omega
      | succ f =>
      simp only [decodeChildren] at h ⊢
      split at h
      · rename_i hl0
        rw [if_pos hl0]; exact h
      · rename_i hl0
        rw [if_neg hl0]
        split at h
        · simp at h
        · rename_i n rpos' hb
          have ⟨b1, b2, _⟩ := (bound_both _).1 _ _ _ _ hb
          rw [ihB _ _ _ hb f (by omega)]; simp only []
          split at h
          · simp at h
          · rename_i hc1
            rw [if_neg hc1]
            split at h
            · simp at h
            · rename_i hc2
              rw [if_neg hc2]
              split at h
              · rename_i ns' p' hc
                rw [ihC _ _ _ _ b2 hc f (by omega)]
                exact h
              · simp at h

end Mp4ff.Walk
