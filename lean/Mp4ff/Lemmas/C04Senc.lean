import Mp4ff.Model.SencSize
namespace Mp4ff.SencSize

/-- every allocated IV slot is backed by at least one byte of the box -/
theorem slots_le (iv count left : Nat) : slots iv count left ≤ left := by
  unfold slots
  simp only
  split
  · exact Nat.zero_le _
  · split
    · exact Nat.zero_le _
    · rename_i h1 h2
      have hv : 1 ≤ effIV iv count left := Nat.pos_of_ne_zero h2
      have h3 : count ≤ effIV iv count left * count := Nat.le_mul_of_pos_left count hv
      omega

/-- an accepted box holds every IV it announces -/
theorem parse_fits (iv count left v n : Nat) (h : parse iv count left = some (v, n)) :
    n * v ≤ left ∧ (n = 0 ∨ n = count) ∧ (v = 0 ∨ v = 8 ∨ v = 16) := by
  unfold parse at h
  simp only at h
  split at h
  · cases h
  · split at h
    · cases h; simp
    · split at h
      · rename_i h1 h2 h3
        cases h
        refine ⟨?_, Or.inr rfl, ?_⟩
        · rw [Nat.mul_comm]; omega
        · cases h3 with
          | inl h => exact Or.inr (Or.inl h)
          | inr h => exact Or.inr (Or.inr h)
      · cases h

end Mp4ff.SencSize
