import Mp4ff.Model.Nalu
import Mp4ff.Lemmas.NaluLenPrefixed
import Mp4ff.Lemmas.NaluAnnexB
/-!
C14 conversions and walkers: specification definitions and proofs (used by Props/C14.lean).
`units : List (Nat × Bytes)` = (start-code length ∈ {3,4}, NAL unit).
-/
namespace Mp4ff.Nalu

def UnitsOK (units : List (Nat × Bytes)) : Prop := ∀ u ∈ units, (u.1 = 3 ∨ u.1 = 4) ∧ WFNalu u.2

/-- expected start-code list of `annexB units` laid out from offset `off` -/
def expectedSCs : Nat → List (Nat × Bytes) → List SC
  | _, [] => []
  | off, (k, n) :: rest => ⟨k, off + k⟩ :: expectedSCs (off + k + n.length) rest

theorem scanL_annexB : ∀ (units : List (Nat × Bytes)), UnitsOK units → ∀ off,
    scanL false off (annexB units) = expectedSCs off units := by
  intro units
  induction units with
  | nil => intro _ off; simp [annexB, scanL, expectedSCs]
  | cons u rest ih =>
    intro h off
    obtain ⟨k, n⟩ := u
    obtain ⟨hk, hne, _, hef, hl⟩ := h (k, n) (by simp)
    have ih' := ih (fun u hu => h u (by simp [hu]))
    simp only at hk
    rcases hk with rfl | rfl
    · simp only [annexB, startCode3, expectedSCs]
      have : [0, 0, 1] ++ n ++ annexB rest = 0 :: 0 :: 1 :: (n ++ annexB rest) := by simp
      rw [this, scanL_sc3 _ _ _ _ hne, scanL_unit n hne hef hl, ih']
      simp
    · simp only [annexB, startCode4, expectedSCs]
      have : [0, 0, 0, 1] ++ n ++ annexB rest = 0 :: 0 :: 0 :: 1 :: (n ++ annexB rest) := by simp
      rw [this, scanL_sc4 _ _ _ _ hne, scanL_unit n hne hef hl, ih']

theorem extL_annexB (s : Bytes) : ∀ (rest : List (Nat × Bytes)), UnitsOK rest →
    ∀ (pre0 nprev : Bytes) (acc : List (Nat × Nat)),
    s = pre0 ++ (nprev ++ annexB rest) → nprev ≠ [] → nprev.getLast? ≠ some 0 → pre0.length > 0 →
    finish s (extL s (pre0.length + nprev.length) pre0.length acc (annexB rest)) =
      acc.map (fun (a, b) => slice s a b) ++ nprev :: rest.map (·.2) := by
  intro rest
  induction rest with
  | nil =>
    intro _ pre0 nprev acc hs hne hl hpos
    have hp : pre0.length ≠ 0 := by omega
    simp only [annexB, List.append_nil] at hs
    simp [annexB, extL, finish, hp, slice_end s pre0 nprev hs]
  | cons u rest ih =>
    intro h pre0 nprev acc hs hne hl hpos
    obtain ⟨k, m⟩ := u
    obtain ⟨hk, hmne, _, hef, hml⟩ := h (k, m) (by simp)
    have ih' := ih (fun u hu => h u (by simp [hu]))
    simp only at hk hmne hef hml
    have hcur : pre0.length > 0 := hpos
    rcases hk with rfl | rfl
    · simp only [annexB, startCode3] at hs ⊢
      have e : [0, 0, 1] ++ m ++ annexB rest = 0 :: 0 :: 1 :: (m ++ annexB rest) := by simp
      rw [e] at hs ⊢
      rw [extL_sc3 _ _ _ _ _ _ hmne, extL_unit s m hmne hef hml]
      simp only [hcur, if_true]
      rw [trimEnd_unit s pre0 nprev _ hs hne hl]
      have hs2 : s = (pre0 ++ nprev ++ [0, 0, 1]) ++ (m ++ annexB rest) := by simp [hs]
      have := ih' (pre0 ++ nprev ++ [0, 0, 1]) m (acc ++ [(pre0.length, pre0.length + nprev.length)]) hs2 hmne hml
        (by simp; omega)
      have hl3 : (pre0 ++ nprev ++ [0, 0, 1]).length = pre0.length + nprev.length + 3 := by simp; omega
      rw [hl3] at this
      rw [this]
      simp [slice_mid s pre0 nprev _ hs]
    · simp only [annexB, startCode4] at hs ⊢
      have e : [0, 0, 0, 1] ++ m ++ annexB rest = 0 :: 0 :: 0 :: 1 :: (m ++ annexB rest) := by simp
      rw [e] at hs ⊢
      rw [extL_sc4 _ _ _ _ _ _ hmne, extL_unit s m hmne hef hml]
      simp only [hcur, if_true]
      rw [trimEnd_unit4 s pre0 nprev _ hs hne hl]
      have hs2 : s = (pre0 ++ nprev ++ [0, 0, 0, 1]) ++ (m ++ annexB rest) := by simp [hs]
      have := ih' (pre0 ++ nprev ++ [0, 0, 0, 1]) m (acc ++ [(pre0.length, pre0.length + nprev.length)]) hs2 hmne hml
        (by simp; omega)
      have hl3 : (pre0 ++ nprev ++ [0, 0, 0, 1]).length = pre0.length + nprev.length + 4 := by simp; omega
      rw [hl3] at this
      rw [this]
      simp [slice_mid s pre0 nprev _ hs]

/-- (C1) the byte scanner finds exactly the start codes that were laid down -/
theorem scanByte_annexB (units : List (Nat × Bytes)) (h : UnitsOK units) :
    scanByte (annexB units) = expectedSCs 0 units := by
  have := scanFrom_eq_scanL (annexB units) [] (annexB units) rfl
  unfold scanByte
  rw [← scanL_annexB units h 0]
  exact this

/-- (C2) extraction returns exactly the NAL units between the start codes -/
theorem extractNalus_annexB (units : List (Nat × Bytes)) (h : UnitsOK units) :
    extractNalus (annexB units) = units.map (·.2) := by
  rw [extractNalus_eq]
  have := extractLoop_eq_extL (annexB units) (annexB units) [] ((annexB units).length + 1) 0 [] rfl (by omega)
  simp only [List.length_nil] at this
  rw [this]
  cases units with
  | nil => simp [annexB, extL, finish]
  | cons u rest =>
    obtain ⟨k, m⟩ := u
    obtain ⟨hk, hmne, _, hef, hml⟩ := h (k, m) (by simp)
    have hrest : UnitsOK rest := fun u hu => h u (by simp [hu])
    simp only at hk hmne hef hml
    generalize hs : annexB ((k, m) :: rest) = s
    rcases hk with rfl | rfl
    · simp only [annexB, startCode3] at hs
      have e : [0, 0, 1] ++ m ++ annexB rest = 0 :: 0 :: 1 :: (m ++ annexB rest) := by simp
      rw [e] at hs
      rw [← hs, extL_sc3 _ _ _ _ _ _ hmne, extL_unit _ m hmne hef hml, hs]
      have := extL_annexB s rest hrest [0, 0, 1] m [] (by simp [← hs]) hmne hml (by simp)
      simpa using this
    · simp only [annexB, startCode4] at hs
      have e : [0, 0, 0, 1] ++ m ++ annexB rest = 0 :: 0 :: 0 :: 1 :: (m ++ annexB rest) := by simp
      rw [e] at hs
      rw [← hs, extL_sc4 _ _ _ _ _ _ hmne, extL_unit _ m hmne hef hml, hs]
      have := extL_annexB s rest hrest [0, 0, 0, 1] m [] (by simp [← hs]) hmne hml (by simp)
      simpa using this

def NalusOK (ns : List Bytes) : Prop := (∀ n ∈ ns, n ≠ [] ∧ IsBytes n) ∧ (lenPrefixed ns).length < U32

/-- (D1) -/
theorem nalusFromSample_lenPrefixed (ns : List Bytes) (h : NalusOK ns) (hne : ns ≠ []) :
    nalusFromSample (lenPrefixed ns) = some ns := by
  obtain ⟨hb, hlt⟩ := h
  have hnz : ∀ m ∈ ns, m ≠ [] := fun m hm => (hb m hm).1
  have hfuel : ns.length + 1 ≤ (lenPrefixed ns).length + 1 := by
    have := length_le_lenPrefixed ns; omega
  have h4 : ¬ (lenPrefixed ns).length < 4 := by
    cases ns with
    | nil => exact absurd rfl hne
    | cons n rest =>
      have := nonempty_len (hnz n (by simp))
      rw [lenPrefixed_length_cons]; omega
  unfold nalusFromSample
  simp only [h4, if_false]
  exact nfs_go (lenPrefixed ns) ns [] _ [] rfl hlt hnz hfuel

/-- (D2) all types -/
theorem naluTypes_lenPrefixed (c : Codec) (ns : List Bytes) (h : NalusOK ns) :
    naluTypes c false (lenPrefixed ns) = ns.map (fun n => c.typeOf (n.headD 0)) := by
  obtain ⟨hb, hlt⟩ := h
  have hnz : ∀ m ∈ ns, m ≠ [] := fun m hm => (hb m hm).1
  have hfuel : ns.length + 1 ≤ (lenPrefixed ns).length + 1 := by
    have := length_le_lenPrefixed ns; omega
  cases ns with
  | nil => simp [naluTypes, lenPrefixed]
  | cons n rest =>
    have h4 : ¬ (lenPrefixed (n :: rest)).length < 4 := by
      have := nonempty_len (hnz n (by simp))
      rw [lenPrefixed_length_cons]; omega
    unfold naluTypes
    simp only [h4, if_false]
    exact nt_go_all c (lenPrefixed (n :: rest)) (n :: rest) [] _ [] rfl hlt hnz hfuel

/-- types up to and including the first video unit -/
def typesUpTo (c : Codec) : List Bytes → List Nat
  | [] => []
  | n :: rest => let t := c.typeOf (n.headD 0); if c.isVideo t then [t] else t :: typesUpTo c rest

theorem nt_go_upto (c : Codec) (s : Bytes) : ∀ (rest : List Bytes) (pre : Bytes) (fuel : Nat) (acc : List Nat),
    s = pre ++ lenPrefixed rest → s.length < U32 → (∀ n ∈ rest, n ≠ []) → rest.length + 1 ≤ fuel →
    naluTypes.go c true s fuel pre.length acc = acc ++ typesUpTo c rest := by
  intro rest
  induction rest with
  | nil =>
    intro pre fuel acc hs hlt _ hf
    obtain ⟨f, rfl⟩ : ∃ f, fuel = f + 1 := ⟨fuel - 1, by omega⟩
    simp [naluTypes.go, (end_facts s pre hs hlt).1, typesUpTo]
  | cons n rest ih =>
    intro pre fuel acc hs hlt hne hf
    obtain ⟨f, rfl⟩ : ∃ f, fuel = f + 1 := ⟨fuel - 1, by omega⟩
    obtain ⟨hg, _, hbe, hp1, hsl, hb, hs', hl', hle⟩ := step_facts s pre n rest hs hlt (hne n (by simp))
    rw [naluTypes.go]
    simp only [hg, if_true, hbe, hp1, if_false, hb, typesUpTo, true_and]
    by_cases hv : c.isVideo (c.typeOf (n.headD 0)) = true
    · simp only [hv, if_true]
    · have := ih (pre ++ put32 n.length ++ n) f (acc ++ [c.typeOf (n.headD 0)]) hs' hlt
        (fun m hm => hne m (by simp [hm])) (by simp at hf; omega)
      rw [hl'] at this
      simp only [hv]
      rw [this]; simp


/-- (D3) -/
theorem naluTypesUpTo_lenPrefixed (c : Codec) (ns : List Bytes) (h : NalusOK ns) :
    naluTypes c true (lenPrefixed ns) = typesUpTo c ns := by
  obtain ⟨hb, hlt⟩ := h
  have hnz : ∀ m ∈ ns, m ≠ [] := fun m hm => (hb m hm).1
  have hfuel : ns.length + 1 ≤ (lenPrefixed ns).length + 1 := by
    have := length_le_lenPrefixed ns; omega
  cases ns with
  | nil => simp [naluTypes, lenPrefixed, typesUpTo]
  | cons n rest =>
    have h4 : ¬ (lenPrefixed (n :: rest)).length < 4 := by
      have := nonempty_len (hnz n (by simp))
      rw [lenPrefixed_length_cons]; omega
    unfold naluTypes
    simp only [h4, if_false]
    exact nt_go_upto c (lenPrefixed (n :: rest)) (n :: rest) [] _ [] rfl hlt hnz hfuel

/-- (D4) -/
theorem containsType_lenPrefixed (c : Codec) (ns : List Bytes) (h : NalusOK ns) (t : Nat) :
    containsType c (lenPrefixed ns) t = (ns.map (fun n => c.typeOf (n.headD 0))).contains t := by
  obtain ⟨hb, hlt⟩ := h
  have hnz : ∀ m ∈ ns, m ≠ [] := fun m hm => (hb m hm).1
  have hfuel : ns.length + 1 ≤ (lenPrefixed ns).length + 1 := by
    have := length_le_lenPrefixed ns; omega
  cases ns with
  | nil => simp [containsType, containsType.go, lenPrefixed]
  | cons n rest =>
    unfold containsType
    exact ct_go c t (lenPrefixed (n :: rest)) (n :: rest) [] _ rfl hlt hnz hfuel

/-- parameter sets before the first video unit -/
def psSpec (c : Codec) (isPS : Nat → Bool) : List Bytes → List (Nat × Bytes)
  | [] => []
  | n :: rest =>
    let t := c.typeOf (n.headD 0)
    if isPS t then (t, n) :: psSpec c isPS rest
    else if c.isVideo t then [] else psSpec c isPS rest

theorem ps_go (c : Codec) (isPS : Nat → Bool) (s : Bytes) : ∀ (rest : List Bytes) (pre : Bytes) (fuel : Nat)
    (acc : List (Nat × Bytes)),
    s = pre ++ lenPrefixed rest → s.length < U32 → (∀ n ∈ rest, n ≠ []) → rest.length + 1 ≤ fuel →
    paramSets.go c isPS s fuel pre.length acc = acc ++ psSpec c isPS rest := by
  intro rest
  induction rest with
  | nil =>
    intro pre fuel acc hs hlt _ hf
    obtain ⟨f, rfl⟩ : ∃ f, fuel = f + 1 := ⟨fuel - 1, by omega⟩
    simp [paramSets.go, (end_facts s pre hs hlt).1, psSpec]
  | cons n rest ih =>
    intro pre fuel acc hs hlt hne hf
    obtain ⟨f, rfl⟩ : ∃ f, fuel = f + 1 := ⟨fuel - 1, by omega⟩
    obtain ⟨hg, _, hbe, hp1, hsl, hb, hs', hl', hle⟩ := step_facts s pre n rest hs hlt (hne n (by simp))
    rw [paramSets.go]
    simp only [hg, if_true, hbe, hp1, if_false, hb, hsl, psSpec]
    have ih' := fun acc' => ih (pre ++ put32 n.length ++ n) f acc' hs' hlt
      (fun m hm => hne m (by simp [hm])) (by simp at hf; omega)
    rw [hl'] at ih'
    by_cases hp : isPS (c.typeOf (n.headD 0)) = true
    · simp only [hp, if_true, ih']; simp
    · by_cases hv : c.isVideo (c.typeOf (n.headD 0)) = true
      · simp only [hp, hv]; simp
      · simp only [hp, hv, ih']; simp


/-- (D5) -/
theorem paramSets_lenPrefixed (c : Codec) (isPS : Nat → Bool) (ns : List Bytes) (h : NalusOK ns) :
    paramSets c isPS (lenPrefixed ns) = psSpec c isPS ns := by
  obtain ⟨hb, hlt⟩ := h
  have hnz : ∀ m ∈ ns, m ≠ [] := fun m hm => (hb m hm).1
  have hfuel : ns.length + 1 ≤ (lenPrefixed ns).length + 1 := by
    have := length_le_lenPrefixed ns; omega
  unfold paramSets
  exact ps_go c isPS (lenPrefixed ns) ns [] _ [] rfl hlt hnz hfuel

/-- (D6) length prefixes become 4-byte start codes, units unchanged -/
theorem toByteStream_lenPrefixed (ns : List Bytes) (h : NalusOK ns) :
    toByteStream ((lenPrefixed ns).length + 1) (lenPrefixed ns) 0 = annexB (ns.map fun n => (4, n)) := by
  obtain ⟨hb, hlt⟩ := h
  have hnz : ∀ m ∈ ns, m ≠ [] := fun m hm => (hb m hm).1
  have hfuel : ns.length + 1 ≤ (lenPrefixed ns).length + 1 := by
    have := length_le_lenPrefixed ns; omega
  exact tbs_go ns [] _ hlt hnz hfuel

end Mp4ff.Nalu
