import Mp4ff.Lemmas.C16Names
/-! facts about traces of the AVC SPS syntax needed for the picture-size statement (C16) -/
namespace Mp4ff.BitSyn
theorem ops_get_stable (x : String) {f : Nat} {L : List Syn} {acc src : Trace} {os acc' src'}
    (h : ops f L acc src = some (os, acc', src')) (hm : mentionsL x L = false) :
    Trace.get acc' x = Trace.get acc x := by
  obtain ⟨u, _, rfl, hu⟩ := ops_not_mention x f L acc src os acc' src' h hm
  exact Trace.get_append_not_mem acc u x hu

theorem ops_fuel_pos {f : Nat} {L acc src r} (h : ops f L acc src = some r) : ∃ f', f = f' + 1 := by
  cases f with
  | zero => simp [ops] at h
  | succ f => exact ⟨f, rfl⟩
end Mp4ff.BitSyn

namespace Mp4ff.AvcSps
open Mp4ff.BitSyn Mp4ff.Bits

/-- in a trace of the SPS syntax the colour-plane flag is only coded (hence only 1) for chroma_format_idc 3 in a
    high profile -/
theorem sps_trace_sep (so : Bool) (f : Nat) (tr : Trace) (os : List Op) (a : Trace)
    (h : ops f (sps so) [] tr = some (os, a, [])) :
    a.get "separate_colour_plane_flag" = 1 → chromaFormat a = 3 := by
  simp only [sps] at h
  obtain ⟨f, rfl⟩ := ops_fuel_pos h
  obtain ⟨v0, s0, o0, rfl, _, h0, _⟩ := ops_fld_inv h
  clear h
  obtain ⟨f, rfl⟩ := ops_fuel_pos h0
  obtain ⟨v1, s1, o1, rfl, _, h1, _⟩ := ops_fld_inv h0
  clear h0
  obtain ⟨f, rfl⟩ := ops_fuel_pos h1
  obtain ⟨v2, s2, o2, rfl, _, h2, _⟩ := ops_fld_inv h1
  clear h1
  obtain ⟨f, rfl⟩ := ops_fuel_pos h2
  obtain ⟨v3, s3, o3, rfl, _, h3, _⟩ := ops_fld_inv h2
  clear h2
  obtain ⟨f, rfl⟩ := ops_fuel_pos h3
  obtain ⟨v4, s4, o4, rfl, _, h4, _⟩ := ops_ue_inv h3
  clear h3
  obtain ⟨f, rfl⟩ := ops_fuel_pos h4
  simp only [List.nil_append, List.cons_append] at h4
  rcases ops_cond_inv h4 with ⟨hp, o1', a1, s1', o2', hb, hr, _⟩ | ⟨hp, hr⟩
  · clear h4
    have e1 : a.get "separate_colour_plane_flag" = a1.get "separate_colour_plane_flag" :=
      ops_get_stable _ hr (by cases so <;> decide)
    have e2 : a.get "chroma_format_idc" = a1.get "chroma_format_idc" :=
      ops_get_stable _ hr (by cases so <;> decide)
    have e3 : a.get "profile_idc" = a1.get "profile_idc" :=
      ops_get_stable _ hr (by cases so <;> decide)
    have e4 := ops_get_stable "profile_idc" hb (by decide)
    clear hr
    obtain ⟨f, rfl⟩ := ops_fuel_pos hb
    obtain ⟨c, s5, o5, rfl, _, hb1, _⟩ := ops_ue_inv hb
    clear hb
    obtain ⟨f, rfl⟩ := ops_fuel_pos hb1
    have hprof : highProfiles.contains (a.nat "profile_idc") = true := by
      unfold Trace.nat; rw [e3, e4]; exact hp
    rcases ops_cond_inv hb1 with ⟨hp2, o6, a2, s6, o7, hc1, hc2, _⟩ | ⟨hp2, hc2⟩
    · have e5 := ops_get_stable "chroma_format_idc" hc2 (by decide)
      have e6 := ops_get_stable "chroma_format_idc" hc1 (by decide)
      rw [Trace.get_snoc_same] at e6
      unfold Trace.nat at hp2
      rw [Trace.get_snoc_same] at hp2
      have hc : c.toNat % 256 = 3 := by simpa using hp2
      intro _
      unfold chromaFormat
      rw [hprof, if_pos rfl]
      unfold Trace.nat
      rw [e2, e5, e6]; exact hc
    · have e5 := ops_get_stable "separate_colour_plane_flag" hc2 (by decide)
      rw [Trace.get_snoc_ne _ _ _ _ (by decide)] at e5
      intro h1
      rw [e1, e5] at h1
      simp [Trace.get] at h1
  · have e1 : a.get "separate_colour_plane_flag" = _ :=
      ops_get_stable "separate_colour_plane_flag" hr (by cases so <;> decide)
    intro h1
    rw [e1] at h1
    simp [Trace.get] at h1

theorem sps_trace_fmo (so : Bool) (f : Nat) (tr : Trace) (os : List Op) (a : Trace)
    (h : ops f (sps so) [] tr = some (os, a, [])) : a.nat "frame_mbs_only_flag" ≤ 1 := by
  obtain ⟨u, _, ha, hu⟩ := ops_flagOnly "frame_mbs_only_flag" f _ _ _ _ _ _ h (by cases so <;> decide)
  rw [List.nil_append] at ha
  subst ha
  unfold Trace.nat
  rcases Trace.get_flag a "frame_mbs_only_flag" hu with h | h <;> rw [h] <;> decide

end Mp4ff.AvcSps
