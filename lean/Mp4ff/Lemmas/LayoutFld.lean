import Mp4ff.Model.Boxes
/-! Per-field lemmas for the layout DSL: big-endian codec, zero-terminated strings, decFld/encFld. -/
namespace Mp4ff

theorem beVal_foldl (l : Bytes) : ∀ init : Nat,
    l.foldl (fun acc b => acc * 256 + b) init
      = init * 256 ^ l.length + l.foldl (fun acc b => acc * 256 + b) 0 := by
  induction l with
  | nil => intro init; simp
  | cons x xs ih =>
    intro init
    simp only [List.foldl_cons, List.length_cons]
    rw [ih (init * 256 + x), ih (0 * 256 + x)]
    simp only [Nat.zero_mul, Nat.zero_add, Nat.pow_succ, Nat.add_mul]
    rw [Nat.mul_assoc, Nat.mul_comm 256 (256 ^ xs.length), Nat.add_assoc]

theorem beVal_cons (x : Nat) (l : Bytes) : beVal (x :: l) = x * 256 ^ l.length + beVal l := by
  simp only [beVal, List.foldl_cons]
  rw [beVal_foldl]; simp

theorem beVal_nil : beVal [] = 0 := rfl

theorem beBytes_length (w x : Nat) : (beBytes w x).length = w := by
  induction w with
  | zero => simp [beBytes]
  | succ w ih => simp [beBytes, ih]

theorem beVal_beBytes_mod (w : Nat) : ∀ x, beVal (beBytes w x) = x % 256 ^ w := by
  induction w with
  | zero => intro x; simp [beBytes, beVal, Nat.mod_one]
  | succ w ih =>
    intro x
    simp only [beBytes]
    rw [beVal_cons, beBytes_length, ih, Nat.mod_pow_succ]
    rw [Nat.mul_comm, Nat.add_comm]

theorem beVal_beBytes (w x : Nat) (h : x < 256 ^ w) : beVal (beBytes w x) = x := by
  rw [beVal_beBytes_mod, Nat.mod_eq_of_lt h]

theorem isBytes_beBytes (w x : Nat) : IsBytes (beBytes w x) := by
  induction w with
  | zero => intro b hb; simp [beBytes] at hb
  | succ w ih =>
    intro b hb
    simp only [beBytes, List.mem_cons] at hb
    rcases hb with rfl | hb
    · exact Nat.mod_lt _ (by decide)
    · exact ih b hb

theorem beVal_lt (l : Bytes) (h : IsBytes l) : beVal l < 256 ^ l.length := by
  induction l with
  | nil => simp [beVal]
  | cons x xs ih =>
    rw [beVal_cons]
    have hx : x < 256 := h x (by simp)
    have hxs := ih (fun b hb => h b (by simp [hb]))
    simp only [List.length_cons, Nat.pow_succ]
    have : x * 256 ^ xs.length ≤ 255 * 256 ^ xs.length := Nat.mul_le_mul_right _ (by omega)
    omega

theorem beBytes_add_mul (w : Nat) : ∀ a b, beBytes w (a * 256 ^ w + b) = beBytes w b := by
  induction w with
  | zero => intro a b; simp [beBytes]
  | succ w ih =>
    intro a b
    simp only [beBytes]
    have hpos : 0 < 256 ^ w := Nat.pow_pos (by decide)
    have e : a * 256 ^ (w + 1) + b = (a * 256) * 256 ^ w + b := by
      rw [Nat.pow_succ, Nat.mul_assoc, Nat.mul_comm (256 ^ w) 256]
    rw [e, ih (a * 256) b]
    congr 1
    rw [Nat.add_comm, Nat.add_mul_div_right _ _ hpos, Nat.add_mul_mod_self_right]

theorem beBytes_beVal (l : Bytes) (h : IsBytes l) : beBytes l.length (beVal l) = l := by
  induction l with
  | nil => simp [beBytes]
  | cons x xs ih =>
    have hx : x < 256 := h x (by simp)
    have hI : IsBytes xs := fun b hb => h b (by simp [hb])
    have hlt := beVal_lt xs hI
    have hpos : 0 < 256 ^ xs.length := Nat.pow_pos (by decide)
    simp only [List.length_cons, beBytes]
    rw [beVal_cons, beBytes_add_mul, ih hI]
    congr 1
    rw [Nat.add_comm, Nat.add_mul_div_right _ _ hpos, Nat.div_eq_of_lt hlt, Nat.zero_add,
      Nat.mod_eq_of_lt hx]

theorem IsBytes.take {l : Bytes} (h : IsBytes l) (n : Nat) : IsBytes (l.take n) :=
  fun b hb => h b (List.mem_of_mem_take hb)

theorem IsBytes.drop {l : Bytes} (h : IsBytes l) (n : Nat) : IsBytes (l.drop n) :=
  fun b hb => h b (List.mem_of_mem_drop hb)

theorem IsBytes.append {a b : Bytes} (ha : IsBytes a) (hb : IsBytes b) : IsBytes (a ++ b) := by
  intro x hx
  rcases List.mem_append.mp hx with h | h
  · exact ha x h
  · exact hb x h

namespace Layout

theorem splitZero_append (a t : Bytes) (h : 0 ∉ a) : splitZero (a ++ 0 :: t) = some (a, t) := by
  induction a with
  | nil => simp [splitZero]
  | cons x xs ih =>
    have hx : x ≠ 0 := fun e => h (by simp [e])
    have hxs : 0 ∉ xs := fun e => h (by simp [e])
    simp [splitZero, hx, ih hxs]

theorem splitZero_some : ∀ (bs a r : Bytes), splitZero bs = some (a, r) → bs = a ++ 0 :: r ∧ 0 ∉ a := by
  intro bs
  induction bs with
  | nil => intro a r h; simp [splitZero] at h
  | cons x xs ih =>
    intro a r h
    simp only [splitZero] at h
    by_cases hx : x = 0
    · simp [hx] at h
      obtain ⟨rfl, rfl⟩ := h
      simp [hx]
    · simp only [hx, if_false, Option.map_eq_some_iff] at h
      obtain ⟨⟨a', r'⟩, h1, h2⟩ := h
      simp at h2
      obtain ⟨rfl, rfl⟩ := h2
      obtain ⟨e, hn⟩ := ih a' r' h1
      refine ⟨by rw [e]; simp, ?_⟩
      intro hm
      simp only [List.mem_cons] at hm
      rcases hm with hm | hm
      · exact hx hm.symm
      · exact hn hm

end Layout
end Mp4ff
