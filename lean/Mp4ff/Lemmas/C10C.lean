import Mp4ff.Lemmas.C10A
/-!
C10 helpers, part C: interleaving layout.
-/
namespace Mp4ff.Crop
open Mp4ff.Stbl

/-! ### pickMin -/
theorem pickMin_go_some (l : List (List KChunk)) : ∀ (i : Nat) (best : Option (Nat × Nat)) (k o : Nat),
    pickMin.go l i best = some (k, o) →
    best = some (k, o) ∨ (i ≤ k ∧ ∃ c rest, l[k - i]? = some (c :: rest)) := by
  induction l with
  | nil => intro i best k o h; left; simpa [pickMin.go] using h
  | cons t l ih =>
    intro i best k o h
    have lift : (i + 1 ≤ k ∧ ∃ c rest, l[k - (i + 1)]? = some (c :: rest)) →
        (i ≤ k ∧ ∃ c rest, (t :: l)[k - i]? = some (c :: rest)) := by
      rintro ⟨h1, c, rest, h2⟩
      refine ⟨by omega, c, rest, ?_⟩
      rw [show k - i = (k - (i + 1)) + 1 by omega, List.getElem?_cons_succ]; exact h2
    cases t with
    | nil =>
      simp only [pickMin.go] at h
      rcases ih _ _ _ _ h with h' | h'
      · left; exact h'
      · right; exact lift h'
    | cons c rest =>
      have here : ∀ o', some (i, o') = some (k, o) → (i ≤ k ∧ ∃ c' rest', ((c :: rest) :: l)[k - i]? = some (c' :: rest')) := by
        intro o' he
        simp only [Option.some.injEq, Prod.mk.injEq] at he
        obtain ⟨rfl, _⟩ := he
        exact ⟨Nat.le_refl _, c, rest, by simp⟩
      cases best with
      | none =>
        simp only [pickMin.go] at h
        split at h
        · rcases ih _ _ _ _ h with h' | h'
          · right; exact here _ h'
          · right; exact lift h'
        · rcases ih _ _ _ _ h with h' | h'
          · left; exact h'
          · right; exact lift h'
      | some b =>
        obtain ⟨bi, bo⟩ := b
        simp only [pickMin.go] at h
        split at h
        · rcases ih _ _ _ _ h with h' | h'
          · right; exact here _ h'
          · right; exact lift h'
        · rcases ih _ _ _ _ h with h' | h'
          · left; exact h'
          · right; exact lift h'

theorem pickMin_go_none (l : List (List KChunk)) : ∀ (i : Nat) (best : Option (Nat × Nat)),
    pickMin.go l i best = none →
    best = none ∧ ∀ t ∈ l, ∀ c rest, t = c :: rest → 2 ^ 62 ≤ c.off := by
  induction l with
  | nil => intro i best h; exact ⟨by simpa [pickMin.go] using h, by simp⟩
  | cons t l ih =>
    intro i best h
    cases t with
    | nil =>
      simp only [pickMin.go] at h
      obtain ⟨h1, h2⟩ := ih _ _ h
      refine ⟨h1, ?_⟩
      intro t ht c rest e
      rcases List.mem_cons.mp ht with rfl | ht
      · cases e
      · exact h2 t ht c rest e
    | cons c rest =>
      cases best with
      | none =>
        simp only [pickMin.go] at h
        split at h
        · exact absurd (ih _ _ h).1 (by simp)
        · rename_i hge
          obtain ⟨_, h2⟩ := ih _ _ h
          refine ⟨rfl, ?_⟩
          intro t ht c' rest' e
          rcases List.mem_cons.mp ht with rfl | ht
          · cases e; omega
          · exact h2 t ht c' rest' e
      | some b =>
        obtain ⟨bi, bo⟩ := b
        simp only [pickMin.go] at h
        split at h
        · exact absurd (ih _ _ h).1 (by simp)
        · exact absurd (ih _ _ h).1 (by simp)

theorem pickMin_some (p : Pending) (i : Nat) (h : pickMin p = some i) : ∃ c rest, p[i]? = some (c :: rest) := by
  unfold pickMin at h
  simp only [Option.map_eq_some_iff] at h
  obtain ⟨⟨k, o⟩, h1, h2⟩ := h
  simp only at h2
  subst h2
  rcases pickMin_go_some p 0 none k o h1 with h' | ⟨_, c, rest, h'⟩
  · cases h'
  · exact ⟨c, rest, by simpa using h'⟩

theorem pickMin_none (p : Pending) (h : pickMin p = none) (hoff : ∀ t ∈ p, ∀ c ∈ t, c.off < 2 ^ 62) :
    ∀ t ∈ p, t = [] := by
  unfold pickMin at h
  simp only [Option.map_eq_none_iff] at h
  obtain ⟨_, h2⟩ := pickMin_go_none p 0 none h
  intro t ht
  cases t with
  | nil => rfl
  | cons c rest =>
    have := h2 _ ht c rest rfl
    have := hoff _ ht c (by simp)
    omega

/-! ### sums over `set` -/
theorem tot_set (p : Pending) : ∀ (i : Nat) (c : KChunk) (rest : List KChunk), p[i]? = some (c :: rest) →
    (p.map List.length).sum = ((p.set i rest).map List.length).sum + 1 := by
  induction p with
  | nil => intro i c rest h; simp at h
  | cons t p ih =>
    intro i c rest h
    cases i with
    | zero =>
      simp only [List.getElem?_cons_zero, Option.some.injEq] at h
      subst h
      simp only [List.set_cons_zero, List.map_cons, List.sum_cons, List.length_cons]; omega
    | succ i =>
      simp only [List.getElem?_cons_succ] at h
      simp only [List.set_cons_succ, List.map_cons, List.sum_cons, ih i c rest h]; omega

theorem bytes_set (p : Pending) : ∀ (i : Nat) (c : KChunk) (rest : List KChunk), p[i]? = some (c :: rest) →
    ((p.flatten).map (·.size)).sum = (((p.set i rest).flatten).map (·.size)).sum + c.size := by
  induction p with
  | nil => intro i c rest h; simp at h
  | cons t p ih =>
    intro i c rest h
    cases i with
    | zero =>
      simp only [List.getElem?_cons_zero, Option.some.injEq] at h
      subst h
      simp only [List.set_cons_zero, List.flatten_cons, List.map_append, List.sum_append, List.map_cons, List.sum_cons]
      omega
    | succ i =>
      simp only [List.getElem?_cons_succ] at h
      simp only [List.set_cons_succ, List.flatten_cons, List.map_append, List.sum_append, ih i c rest h]; omega

theorem getD_set_eq {α} (l : List α) (i : Nat) (x d : α) (h : i < l.length) : (l.set i x).getD i d = x := by
  simp [List.getD_eq_getElem?_getD, h]

theorem getD_set_ne {α} (l : List α) (i k : Nat) (x d : α) (h : i ≠ k) : (l.set i x).getD k d = l.getD k d := by
  simp [List.getD_eq_getElem?_getD, h]

/-! ### the per-chunk property -/
def Good (file Y : Bytes) (base o : Nat) (c : KChunk) : Prop :=
  base ≤ o ∧ (Y.drop (o - base)).take c.size = (file.drop c.off).take c.size

theorem good_shift (file P Y : Bytes) (base o : Nat) (c : KChunk) (h : Good file Y (base + P.length) o c) :
    Good file (P ++ Y) base o c := by
  obtain ⟨h1, h2⟩ := h
  refine ⟨by omega, ?_⟩
  rw [List.drop_append, List.drop_eq_nil_of_le (by omega), List.nil_append,
    show o - base - P.length = o - (base + P.length) by omega]
  exact h2

theorem good_head (file Y : Bytes) (base : Nat) (c : KChunk) (hc : c.off + c.size ≤ file.length) :
    Good file ((file.drop c.off).take c.size ++ Y) base base c := by
  refine ⟨Nat.le_refl _, ?_⟩
  rw [Nat.sub_self, List.drop_zero, List.take_append]
  have : ((file.drop c.off).take c.size).length = c.size := by
    rw [List.length_take, List.length_drop]; omega
  rw [this, Nat.sub_self, List.take_zero, List.append_nil, List.take_take, Nat.min_self]

/-! ### the layout loop -/
theorem layout_spec (file : Bytes) : ∀ (fuel : Nat) (p : Pending) (cur : Nat) (outs : List (List Nat)) (pieces : List KChunk),
    (∀ t ∈ p, ∀ c ∈ t, c.off + c.size ≤ file.length ∧ c.off < 2 ^ 62) →
    (p.map List.length).sum < fuel → outs.length = p.length →
    ∃ ext outs', layout fuel p cur outs pieces = (outs', pieces ++ ext) ∧
      (copied file ext).length = ((p.flatten).map (·.size)).sum ∧ outs'.length = p.length ∧
      ∀ i, i < p.length → ∃ new, outs'.getD i [] = outs.getD i [] ++ new ∧ new.length = (p.getD i []).length ∧
        ∀ j, j < new.length → Good file (copied file ext) cur (new.getD j 0) ((p.getD i []).getD j ⟨0, 0⟩) := by
  intro fuel
  induction fuel with
  | zero => intro p cur outs pieces _ h; omega
  | succ fuel ih =>
    intro p cur outs pieces hin hfuel hlen
    unfold layout
    cases hpm : pickMin p with
    | none =>
      have hall := pickMin_none p hpm (fun t ht c hc => (hin t ht c hc).2)
      refine ⟨[], outs, by simp, ?_, hlen, ?_⟩
      · have : p.flatten = [] := by
          rw [List.flatten_eq_nil_iff]; exact hall
        rw [this]; rfl
      · intro i hi
        have : p.getD i [] = [] := by
          rw [List.getD_eq_getElem?_getD, List.getElem?_eq_getElem hi]
          exact hall _ (List.getElem_mem hi)
        refine ⟨[], by simp, by rw [this]; rfl, ?_⟩
        intro j hj; simp at hj
    | some i0 =>
      obtain ⟨c, rest, hget⟩ := pickMin_some p i0 hpm
      have hi0 : i0 < p.length := by
        apply Nat.lt_of_not_le; intro hle
        rw [List.getElem?_eq_none hle] at hget; cases hget
      have hgetD : p.getD i0 [] = c :: rest := by
        rw [List.getD_eq_getElem?_getD, hget]; rfl
      simp only [hgetD]
      have hmem : c :: rest ∈ p := List.mem_of_getElem? hget
      have hcin := hin _ hmem c (by simp)
      have hin' : ∀ t ∈ p.set i0 rest, ∀ c ∈ t, c.off + c.size ≤ file.length ∧ c.off < 2 ^ 62 := by
        intro t ht c' hc'
        rcases List.mem_or_eq_of_mem_set ht with ht | rfl
        · exact hin t ht c' hc'
        · exact hin _ hmem c' (List.mem_cons_of_mem _ hc')
      have htot := tot_set p i0 c rest hget
      have hbytes := bytes_set p i0 c rest hget
      obtain ⟨ext', outs', e1, e2, e3, e4⟩ := ih (p.set i0 rest) (cur + c.size)
        (outs.set i0 (outs.getD i0 [] ++ [cur])) (pieces ++ [c]) hin' (by omega) (by simp [hlen])
      have hP : ((file.drop c.off).take c.size).length = c.size := by
        rw [List.length_take, List.length_drop]; omega
      refine ⟨c :: ext', outs', ?_, ?_, ?_, ?_⟩
      · rw [e1]; simp
      · rw [copied_cons, List.length_append, hP, e2, hbytes]; omega
      · rw [e3]; simp
      · intro i hi
        obtain ⟨new', n1, n2, n3⟩ := e4 i (by simpa using hi)
        by_cases hii : i = i0
        · subst hii
          rw [getD_set_eq _ _ _ _ (by omega)] at n1
          rw [getD_set_eq _ _ _ _ hi] at n2 n3
          refine ⟨cur :: new', by rw [n1]; simp, by rw [hgetD]; simp [n2], ?_⟩
          intro j hj
          rw [hgetD, copied_cons]
          cases j with
          | zero => exact good_head file _ cur c hcin.1
          | succ j =>
            simp only [List.getD_cons_succ]
            apply good_shift
            rw [hP]
            exact n3 j (by simpa using hj)
        · rw [getD_set_ne _ _ _ _ _ (Ne.symm hii)] at n1
          rw [getD_set_ne _ _ _ _ _ (Ne.symm hii)] at n2 n3
          refine ⟨new', n1, n2, ?_⟩
          intro j hj
          rw [copied_cons]
          apply good_shift
          rw [hP]
          exact n3 j hj

end Mp4ff.Crop
