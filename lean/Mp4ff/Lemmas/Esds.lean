import Mp4ff.Model.Esds
import Mp4ff.Model.Aac
import Mp4ff.Lemmas.LayoutFld
import Mp4ff.Lemmas.C18Proofs
/-!
Proofs about the esds / MPEG-4 descriptor model (`Model/Esds.lean`), restated in `Props/C18b.lean`.

1. `encodeDesc_length`, `encodeES_length`, `encodeEsdsBox_length`: bytes written = `Size()`.
2. `decodeEsds_encodeEsds`: decode ∘ encode = id on well-formed trees (`Esds.WF`).
3. `esds_asc_roundtrip`: the end-to-end clause of C18 (configuration → ASC bytes → esds → bytes → esds → ASC).
4. `encodeEsds_decodeEsds`: every accepted payload is `encodeEsds (decoded) ++ dropped trailing bytes`.
5. `decodeEsds_total`: the fuel `input length + 1` is never exhausted; `decodeEsds_weight`: the decoded tree is
   no bigger than the input.
-/
namespace Mp4ff.Esds
open Mp4ff

/-! ## integer conversions -/

theorem wrapI64_eq (x : Int) : wrapI64 x = (x + 2 ^ 63) % 2 ^ 64 - 2 ^ 63 := by
  unfold wrapI64
  cases x with
  | ofNat k => simp only [Int.ofNat_eq_natCast]; split <;> omega
  | negSucc k => simp only [Int.negSucc_eq]; split <;> omega

theorem toU64_eq (x : Int) : toU64 x = (x % 2 ^ 64).toNat := by
  unfold toU64
  cases x with
  | ofNat k => simp only [Int.ofNat_eq_natCast]; omega
  | negSucc k => simp only [Int.negSucc_eq]; omega

theorem wrapI64_of_range {x : Int} (h1 : -2 ^ 63 ≤ x) (h2 : x < 2 ^ 63) : wrapI64 x = x := by
  rw [wrapI64_eq]; omega

theorem toI64_small {n : Nat} (h : n < 2 ^ 63) : toI64 n = (n : Int) := by
  unfold toI64; apply wrapI64_of_range <;> omega

theorem toU64_small {x : Int} (h1 : 0 ≤ x) (h2 : x < 2 ^ 64) : toU64 x = x.toNat := by
  rw [toU64_eq, Int.emod_eq_of_lt h1 h2]

/-! ## reader primitives on `prefix ++ tail` -/

theorem readN_append (a t : Bytes) (p : Nat) :
    readN a.length ⟨a ++ t, p, none⟩ = (a, ⟨t, p + a.length, none⟩) := by
  simp [readN]

theorem readN_append' (n : Nat) (a t : Bytes) (p : Nat) (h : a.length = n) :
    readN n ⟨a ++ t, p, none⟩ = (a, ⟨t, p + n, none⟩) := by
  subst h; exact readN_append a t p

theorem readBE_append (n v : Nat) (t : Bytes) (p : Nat) (h : v < 256 ^ n) :
    readBE n ⟨beBytes n v ++ t, p, none⟩ = (v, ⟨t, p + n, none⟩) := by
  unfold readBE
  rw [readN_append' n _ _ _ (beBytes_length n v)]
  simp [beVal_beBytes n v h]

theorem readBytes_append (a t : Bytes) (p : Nat) :
    readBytes (a.length : Int) ⟨a ++ t, p, none⟩ = (a, ⟨t, p + a.length, none⟩) := by
  unfold readBytes
  simp [readN_append]

/-! ## the size field -/

theorem writeSize_length (size f : Nat) : (writeSize size f).length = f + 1 := by
  induction f with
  | zero => simp [writeSize]
  | succ f ih => simp [writeSize, ih]

/-- well-formed size field: length fits the byte counter, value fits the field and 64 bits -/
def SzOK (f size : Nat) : Prop := f < 256 ∧ size < 2 ^ (7 * (f + 1)) ∧ size < 2 ^ 64


theorem pow7_succ (p : Nat) : 2 ^ (7 * (p + 1 + 1)) = 2 ^ (7 * (p + 1)) * 128 := by
  have : 7 * (p + 1 + 1) = 7 * (p + 1) + 7 := by omega
  rw [this, Nat.pow_add]

theorem sizeLoop_write (L : Int) (size : Nat) (t : Bytes) : ∀ (p acc sfs nr pos : Nat),
    sfs + p + 1 < 256 → ((nr + p : Nat) : Int) < L →
    acc * 2 ^ (7 * (p + 1)) + size % 2 ^ (7 * (p + 1)) < 2 ^ 64 →
    sizeLoop L acc sfs nr (writeSize size p ++ t) pos
      = (sfs + p + 1, acc * 2 ^ (7 * (p + 1)) + size % 2 ^ (7 * (p + 1)), ⟨t, pos + p + 1, none⟩, none) := by
  intro p
  induction p with
  | zero =>
    intro acc sfs nr pos h1 h2 h3
    have e : (2 : Nat) ^ (7 * (0 + 1)) = 128 := by decide
    rw [e] at h3 ⊢
    have hacc : acc / 2 ^ 57 = 0 := by apply Nat.div_eq_of_lt; omega
    have hL : ¬ ((nr : Int) ≥ L) := by omega
    have hs : ¬ (sfs = 255) := by omega
    have hb : ¬ (size % 128 ≥ 128) := by omega
    simp only [writeSize, List.cons_append, List.nil_append, sizeLoop, hL, hacc, hs, hb, W64]
    simp
    omega
  | succ p ih =>
    intro acc sfs nr pos h1 h2 h3
    have hP : 0 < 2 ^ (7 * (p + 1)) := Nat.two_pow_pos _
    generalize hPd : 2 ^ (7 * (p + 1)) = P at *
    rw [pow7_succ, hPd] at h3 ⊢
    have hmod : size % (P * 128) = size % P + P * (size / P % 128) := Nat.mod_mul
    have hacc : acc / 2 ^ 57 = 0 := by
      apply Nat.div_eq_of_lt
      have : acc * (P * 128) ≥ acc * 128 := by
        rw [Nat.mul_comm P 128, ← Nat.mul_assoc]; exact Nat.le_mul_of_pos_right _ hP
      omega
    have hL : ¬ ((nr : Int) ≥ L) := by omega
    have hs : ¬ (sfs = 255) := by omega
    have hb : size / P % 128 + 128 ≥ 128 := by omega
    have hg : (size / P % 128 + 128) % 128 = size / P % 128 := by omega
    have hlt : acc * 128 + size / P % 128 < 2 ^ 64 := by
      have h4 : (acc * 128 + size / P % 128) * P ≤ acc * (P * 128) + size % (P * 128) := by
        rw [hmod, Nat.add_mul, Nat.mul_comm (size / P % 128) P, Nat.mul_comm P 128, Nat.mul_assoc]; omega
      have h5 : acc * 128 + size / P % 128 ≤ (acc * 128 + size / P % 128) * P := Nat.le_mul_of_pos_right _ hP
      omega
    have ih' := ih (acc * 128 + size / P % 128) (sfs + 1) (nr + 1) (pos + 1) (by omega) (by omega)
      (by rw [hmod] at h3
          have : (acc * 128 + size / P % 128) * P = acc * (P * 128) + P * (size / P % 128) := by
            rw [Nat.add_mul, Nat.mul_comm (size / P % 128) P, Nat.mul_comm P 128, Nat.mul_assoc]
          omega)
    simp only [writeSize, List.cons_append, sizeLoop, hPd, hL, hacc, hs, W64]
    have hs2 : (sfs + 1) % 256 = sfs + 1 := by omega
    rw [if_neg (by simp), if_neg (by simp), if_pos hb, hg, Nat.mod_eq_of_lt hlt, hs2, ih']
    have e1 : (acc * 128 + size / P % 128) * P + size % P = acc * (P * 128) + size % (P * 128) := by
      rw [hmod, Nat.add_mul, Nat.mul_comm (size / P % 128) P, Nat.mul_comm P 128, Nat.mul_assoc]; omega
    rw [e1]
    have e2 : sfs + 1 + p + 1 = sfs + (p + 1) + 1 := by omega
    have e3 : pos + 1 + p + 1 = pos + (p + 1) + 1 := by omega
    rw [e2, e3]

theorem readSizeSize_write (L : Int) (size f : Nat) (t : Bytes) (p : Nat) (h : SzOK f size) (hL : (f : Int) < L) :
    readSizeSize L ⟨writeSize size f ++ t, p, none⟩ = (f, size, ⟨t, p + (f + 1), none⟩, none) := by
  obtain ⟨h1, h2, h3⟩ := h
  cases f with
  | zero =>
    have e : (2 : Nat) ^ (7 * (0 + 1)) = 128 := by decide
    rw [e] at h2
    have hb : ¬ (size % 128 ≥ 128) := by omega
    have hm : size % 128 = size := by omega
    simp only [readSizeSize, writeSize, List.cons_append, List.nil_append, Option.isSome_none, hm]
    simp
    intro h; omega
  | succ k =>
    have hP : 0 < 2 ^ (7 * (k + 1)) := Nat.two_pow_pos _
    rw [pow7_succ] at h2
    have hdiv : size / 2 ^ (7 * (k + 1)) < 128 := by
      apply (Nat.div_lt_iff_lt_mul hP).2; rw [Nat.mul_comm]; exact h2
    have hb : size / 2 ^ (7 * (k + 1)) % 128 + 128 ≥ 128 := by omega
    have hg' : ∀ x, x < 128 → (x % 128 + 128) % 128 = x := by intro x hx; omega
    have hg := hg' _ hdiv
    have hval : size / 2 ^ (7 * (k + 1)) * 2 ^ (7 * (k + 1)) + size % 2 ^ (7 * (k + 1)) = size :=
      Nat.div_add_mod' _ _
    have := sizeLoop_write L size t k (size / 2 ^ (7 * (k + 1))) 0 1 (p + 1) (by omega) (by omega) (by omega)
    simp only [readSizeSize, writeSize, List.cons_append, Option.isSome_none, hg]
    rw [hval] at this
    simp only [Bool.false_eq_true, ↓reduceIte, hb, this]
    simp
    omega

/-! ## bytes written = Size() -/

theorem encodeDsi_length (d : Option (Nat × Bytes)) : (encodeDsi d).length = dsiSizeSize d := by
  cases d with
  | none => rfl
  | some x => obtain ⟨f, x⟩ := x; simp [encodeDsi, dsiSizeSize, writeSize_length]; omega

mutual
theorem encodeDesc_length : ∀ d : Desc, (encodeDesc d).length = d.sizeSize
  | .dc h others => by
    have := encodeDescs_length others
    simp [encodeDesc, Desc.sizeSize, Desc.sfsOf, Desc.size, writeSize_length, beBytes_length, encodeDsi_length, this]
    omega
  | .dsi f data => by simp [encodeDesc, Desc.sizeSize, Desc.sfsOf, Desc.size, writeSize_length]; omega
  | .sl f c m => by simp [encodeDesc, Desc.sizeSize, Desc.sfsOf, Desc.size, writeSize_length, beBytes_length]; omega
  | .raw t f data => by simp [encodeDesc, Desc.sizeSize, Desc.sfsOf, Desc.size, writeSize_length]; omega
theorem encodeDescs_length : ∀ l : List Desc, (encodeDescs l).length = sizeSizes l
  | [] => rfl
  | d :: ds => by
    have h1 := encodeDesc_length d
    have h2 := encodeDescs_length ds
    simp [encodeDescs, sizeSizes, h1, h2, Desc.sizeSize]
end

theorem encodeSl_length (d : Option (Nat × Nat × Bytes)) : (encodeSl d).length = slSizeSize d := by
  cases d with
  | none => rfl
  | some x =>
    obtain ⟨f, c, m⟩ := x
    simp [encodeSl, slSizeSize, encodeDesc_length, Desc.sizeSize, Desc.sfsOf, Desc.size]

theorem encodeES_length (e : ES) : (encodeES e).length = e.sizeSize := by
  simp only [encodeES, ES.sizeSize, ES.size, List.length_cons, List.length_append, writeSize_length, beBytes_length,
    encodeDesc_length, encodeSl_length, encodeDescs_length]
  split <;> split <;> split <;> simp [beBytes_length] <;> omega

/-- payload length -/
theorem encodeEsds_length (e : Esds) : (encodeEsds e).length = 4 + e.es.sizeSize := by
  simp [encodeEsds, beBytes_length, encodeES_length]

/-- the whole box: bytes written = `Size()` -/
theorem encodeEsdsBox_length (e : Esds) : (encodeEsdsBox e).length = sizeEsds e := by
  simp [encodeEsdsBox, beBytes_length, encodeEsds_length, sizeEsds]; omega

/-! ## well-formed trees (what the encoder can emit and the decoder maps back to the same tree) -/

/-- `UnknownData` the decoder reproduces: nothing, a single byte, or bytes starting with the ES tag (3) — the
    simple syntactic cases in which the descriptor probe on these bytes fails -/
def UnkOK (u : Bytes) : Prop := u = [] ∨ u.length = 1 ∨ u.head? = some 3

def Desc.isDsi : Desc → Bool
  | .dsi .. => true
  | _ => false
def Desc.isSl : Desc → Bool
  | .sl .. => true
  | _ => false
/-- the first element (if any) is not of the given kind -/
def headNot (p : Desc → Bool) : List Desc → Prop
  | [] => True
  | d :: _ => p d = false

def DsiWF : Option (Nat × Bytes) → Prop
  | none => True
  | some (f, x) => SzOK f x.length

mutual
def Desc.WF : Desc → Prop
  | .dc h others =>
      SzOK h.sfs (Desc.dc h others).size ∧ h.objType < 256 ∧ h.streamType < 256 ∧ h.bufSize < 2 ^ 24
      ∧ h.maxBr < 2 ^ 32 ∧ h.avgBr < 2 ^ 32 ∧ DsiWF h.dsi ∧ WFs others
      ∧ (h.dsi = none → headNot Desc.isDsi others) ∧ UnkOK h.unk
      ∧ (h.unk ≠ [] → h.dsi ≠ none ∨ others ≠ [])
  | .dsi f data => SzOK f data.length
  | .sl f cfg more => SzOK f (1 + more.length) ∧ cfg < 256
  | .raw tag f data => tag < 256 ∧ tag ≠ 3 ∧ tag ≠ 4 ∧ tag ≠ 5 ∧ tag ≠ 6 ∧ SzOK f data.length
def WFs : List Desc → Prop
  | [] => True
  | d :: ds => d.WF ∧ WFs ds
end

def SlWF : Option (Nat × Nat × Bytes) → Prop
  | none => True
  | some (f, c, m) => SzOK f (1 + m.length) ∧ c < 256

structure ES.WF (e : ES) : Prop where
  sz : SzOK e.sfs e.size
  esId : e.esId < 2 ^ 16
  flags : e.flags < 256
  dep : if flagDep e.flags then e.dependsOn < 2 ^ 16 else e.dependsOn = 0
  url : if flagUrl e.flags then e.url.length < 256 else e.url = []
  ocr : if flagOcr e.flags then e.ocr < 2 ^ 16 else e.ocr = 0
  dc : (Desc.dc e.dc e.dcOthers).WF
  sl : SlWF e.sl
  others : WFs e.others
  slFirst : e.sl = none → headNot Desc.isSl e.others
  unk : UnkOK e.unk

structure Esds.WF (e : Esds) : Prop where
  version : e.version < 256
  flags : e.flags < 2 ^ 24
  es : e.es.WF
  /-- the box fits a 32-bit size field -/
  size : sizeEsds e < 2 ^ 32

/-! ## decode ∘ encode, leaf descriptors -/

theorem exceeds_false (f size : Nat) (mx : Int) (h1 : ((1 + f + 1 + size : Nat) : Int) ≤ mx) (h2 : mx < 2 ^ 62) :
    exceeds f size mx = false := by
  unfold exceeds
  rw [decide_eq_false_iff_not]
  have h0 : (0 : Int) ≤ mx := by omega
  rw [toU64_small h0 (by omega)]
  have e1 : (1 + f + 1 + size) % W64 = 1 + f + 1 + size := Nat.mod_eq_of_lt (by unfold W64; omega)
  rw [e1]; omega

theorem decodeDSI_enc (f : Nat) (data t : Bytes) (p : Nat) (mx : Int) (h : SzOK f data.length)
    (hmx : ((1 + f + 1 + data.length : Nat) : Int) ≤ mx) (hmx2 : mx < 2 ^ 62) :
    decodeDSI ⟨writeSize data.length f ++ (data ++ t), p, none⟩ mx
      = (.ok (.dsi f data), ⟨t, p + (f + 1) + data.length, none⟩) := by
  unfold decodeDSI
  rw [readSizeSize_write _ _ _ _ _ h (by omega)]
  have hI : toI64 data.length = (data.length : Int) := toI64_small (by omega)
  simp only [Option.isSome_none, exceeds_false f data.length mx hmx hmx2, hI, readBytes_append]
  simp

theorem decodeRaw_enc (tag f : Nat) (data t : Bytes) (p : Nat) (mx : Int) (h : SzOK f data.length)
    (hmx : ((1 + f + 1 + data.length : Nat) : Int) ≤ mx) (hmx2 : mx < 2 ^ 62) :
    decodeRaw tag ⟨writeSize data.length f ++ (data ++ t), p, none⟩ mx
      = (.ok (.raw tag f data), ⟨t, p + (f + 1) + data.length, none⟩) := by
  unfold decodeRaw
  rw [readSizeSize_write _ _ _ _ _ h (by omega)]
  have hI : toI64 data.length = (data.length : Int) := toI64_small (by omega)
  simp only [Option.isSome_none, exceeds_false f data.length mx hmx hmx2, hI, readBytes_append]
  simp

theorem decodeSL_enc (f cfg : Nat) (more t : Bytes) (p : Nat) (mx : Int) (h : SzOK f (1 + more.length))
    (hc : cfg < 256) (hmx : ((1 + f + 1 + (1 + more.length) : Nat) : Int) ≤ mx) (hmx2 : mx < 2 ^ 62) :
    decodeSL ⟨writeSize (1 + more.length) f ++ (beBytes 1 cfg ++ (more ++ t)), p, none⟩ mx
      = (.ok (.sl f cfg more), ⟨t, p + (f + 1) + 1 + more.length, none⟩) := by
  unfold decodeSL
  rw [readSizeSize_write _ _ _ _ _ h (by omega)]
  have hI : toI64 (1 + more.length - 1) = (more.length : Int) := by
    rw [Nat.add_sub_cancel_left]; exact toI64_small (by omega)
  have hz : ¬ (1 + more.length = 0) := by omega
  simp only [Option.isSome_none, exceeds_false f (1 + more.length) mx hmx hmx2, hI, hz,
    readBE_append 1 cfg _ _ (by simpa using hc)]
  cases more with
  | nil => simp
  | cons b bs =>
    have : 1 + (b :: bs).length > 1 := by simp
    simp only [this, ↓reduceIte, readBytes_append]
    simp

theorem readBE1_cons (b : Nat) (t : Bytes) (p : Nat) :
    readBE 1 ⟨b :: t, p, none⟩ = (b, ⟨t, p + 1, none⟩) := by
  simp [readBE, readN, beVal]

theorem stbuf (st buf : Nat) (h1 : st < 256) (h2 : buf < 2 ^ 24) :
    (st % 256) <<< 24 ||| buf = st * 2 ^ 24 + buf := by
  rw [Nat.mod_eq_of_lt h1, ← Nat.shiftLeft_add_eq_or_of_lt h2, Nat.shiftLeft_eq]

theorem sizeSizes_ge : ∀ l : List Desc, 2 * l.length ≤ sizeSizes l
  | [] => by simp [sizeSizes]
  | d :: ds => by have := sizeSizes_ge ds; simp [sizeSizes]; omega

theorem sizeSize_ge (d : Desc) : 2 ≤ d.sizeSize := by unfold Desc.sizeSize; omega

/-- the probe on `UnknownData` fails without touching the reader's error -/
theorem probe_fail (n : Nat) (u t : Bytes) (p : Nat) (h : UnkOK u) :
    ∃ e s', decodeDescriptor (n + 1) ⟨u ++ t, p, none⟩ (u.length : Int) = (.error e, s')
      ∧ e.isFuel = false ∧ s'.err = none := by
  rcases h with h | h | h
  · subst h
    exact ⟨.tooSmall, ⟨[] ++ t, p, none⟩, by simp [decodeDescriptor], rfl, rfl⟩
  · refine ⟨.tooSmall, ⟨u ++ t, p, none⟩, ?_, rfl, rfl⟩
    simp [decodeDescriptor, h]
  · cases u with
    | nil => simp at h
    | cons b r =>
      simp at h; subst h
      cases r with
      | nil => exact ⟨.tooSmall, ⟨[3] ++ t, p, none⟩, by simp [decodeDescriptor], rfl, rfl⟩
      | cons c r =>
        refine ⟨.useES, ⟨c :: r ++ t, p + 1, none⟩, ?_, rfl, rfl⟩
        have : ¬ (((3 :: c :: r).length : Int) < 2) := by simp; omega
        simp only [decodeDescriptor, this, ↓reduceIte, List.cons_append, readBE1_cons]
        simp

theorem DcHdr.with_unk_nil (h : DcHdr) (hu : h.unk = []) : { h with unk := [] } = h := by
  cases h; simp at hu; subst hu; rfl

/-- the induction hypothesis on fuel used by the loop lemmas -/
def DecIH (n : Nat) : Prop :=
  ∀ (d : Desc) (t : Bytes) (p : Nat) (mx : Int), d.WF → d.sizeSize ≤ n → (d.sizeSize : Int) ≤ mx → mx < 2 ^ 62 →
    decodeDescriptor n ⟨encodeDesc d ++ t, p, none⟩ mx = (.ok d, ⟨t, p + d.sizeSize, none⟩)

theorem dcLoop_enc (n : Nat) (hn : 1 ≤ n) (IH : DecIH n)
    (size dataStart : Nat) (h : DcHdr) (hu : h.unk = []) (unk t : Bytes) (hunk : UnkOK unk) (hsz : size < 2 ^ 62) :
    ∀ (rem : List Desc) (m p : Nat) (acc : List Desc), WFs rem → sizeSizes rem ≤ n → rem.length + 1 ≤ m →
      dataStart ≤ p → p - dataStart + sizeSizes rem + unk.length = size →
      dcLoop (decodeDescriptor n) (size : Int) dataStart h m ⟨encodeDescs rem ++ (unk ++ t), p, none⟩ acc
        = (.ok (.dc { h with unk := unk } (acc ++ rem)), ⟨t, p + sizeSizes rem + unk.length, none⟩) := by
  intro rem
  induction rem with
  | nil =>
    intro m p acc _ _ hm hp hsize
    obtain ⟨m, rfl⟩ : ∃ m', m = m' + 1 := ⟨m - 1, by omega⟩
    simp only [sizeSizes, Nat.add_zero] at hsize
    have hleft : wrapI64 ((size : Int) - ((p - dataStart : Nat) : Int)) = (unk.length : Int) := by
      rw [wrapI64_of_range] <;> omega
    simp only [dcLoop, encodeDescs, List.nil_append, hleft, sizeSizes, Nat.add_zero, List.append_nil]
    cases unk with
    | nil => simp [DcHdr.with_unk_nil h hu]
    | cons b r =>
      obtain ⟨n, rfl⟩ : ∃ n', n = n' + 1 := ⟨n - 1, by omega⟩
      obtain ⟨e, s', he, hf, hs'⟩ := probe_fail n (b :: r) t p hunk
      have h1 : ¬ (((b :: r).length : Int) = 0) := by simp; omega
      have h2 : ¬ (((b :: r).length : Int) < 0) := by omega
      rw [if_neg h1, if_neg h2, he]
      simp only [hf, Bool.false_eq_true, ↓reduceIte, setPos, hs', readBytes_append]
  | cons d ds ih =>
    intro m p acc hwf hss hm hp hsize
    obtain ⟨m, rfl⟩ : ∃ m', m = m' + 1 := ⟨m - 1, by omega⟩
    obtain ⟨hd, hds⟩ : d.WF ∧ WFs ds := by simpa [WFs] using hwf
    have h2 := sizeSize_ge d
    have hss' : d.sizeSize + sizeSizes ds ≤ n := by simpa [sizeSizes, Desc.sizeSize] using hss
    have hsize' : p - dataStart + (d.sizeSize + sizeSizes ds) + unk.length = size := by
      simpa [sizeSizes, Desc.sizeSize] using hsize
    have hleft : wrapI64 ((size : Int) - ((p - dataStart : Nat) : Int))
        = ((d.sizeSize + sizeSizes ds + unk.length : Nat) : Int) := by
      rw [wrapI64_of_range] <;> omega
    have h1 : ¬ (((d.sizeSize + sizeSizes ds + unk.length : Nat) : Int) = 0) := by omega
    have h3 : ¬ (((d.sizeSize + sizeSizes ds + unk.length : Nat) : Int) < 0) := by omega
    have hdec := IH d (encodeDescs ds ++ (unk ++ t)) p _ hd (by omega)
      (show (d.sizeSize : Int) ≤ ((d.sizeSize + sizeSizes ds + unk.length : Nat) : Int) by omega) (by omega)
    simp only [dcLoop, encodeDescs, List.append_assoc, hleft]
    rw [if_neg h1, if_neg h3, hdec]
    simp only []
    rw [ih m (p + d.sizeSize) (acc ++ [d]) hds (by omega) (by simp at hm; omega) (by omega) (by omega)]
    simp [sizeSizes, Desc.sizeSize, List.append_assoc]
    omega

theorem decodeDC_enc (n : Nat) (hn : 1 ≤ n) (IH : DecIH n) (h : DcHdr) (others : List Desc) (t : Bytes) (p : Nat)
    (mx : Int) (hwf : (Desc.dc h others).WF) (hsz : (Desc.dc h others).sizeSize ≤ n + 1)
    (hmx : ((Desc.dc h others).sizeSize : Int) ≤ mx) (hmx2 : mx < 2 ^ 62) :
    decodeDC (decodeDescriptor n) n
      ⟨writeSize (Desc.dc h others).size h.sfs ++ (beBytes 1 h.objType
        ++ (beBytes 4 ((h.streamType % 256) <<< 24 ||| h.bufSize) ++ (beBytes 4 h.maxBr ++ (beBytes 4 h.avgBr
        ++ (encodeDsi h.dsi ++ (encodeDescs others ++ (h.unk ++ t))))))), p, none⟩ mx
      = (.ok (.dc h others), ⟨t, p + (h.sfs + 1) + (Desc.dc h others).size, none⟩) := by
  obtain ⟨sfs, ot, st, buf, mb, ab, dsi, unk⟩ := h
  simp only [Desc.WF] at hwf
  obtain ⟨w1, w2, w3, w4, w5, w6, w7, w8, w9, w10, w11⟩ := hwf
  simp only [Desc.sizeSize, Desc.sfsOf] at hsz hmx
  generalize hS : (Desc.dc ⟨sfs, ot, st, buf, mb, ab, dsi, unk⟩ others).size = S at *
  have hSv : S = 13 + dsiSizeSize dsi + sizeSizes others + unk.length := by rw [← hS]; simp [Desc.size]
  unfold decodeDC
  rw [readSizeSize_write _ _ _ _ _ w1 (by omega)]
  have hex := exceeds_false sfs S mx (by omega) hmx2
  have h13 : ¬ (S < 13) := by omega
  rw [stbuf st buf w3 w4]
  have hw : st * 2 ^ 24 + buf < 256 ^ 4 := by omega
  have hdiv : (st * 2 ^ 24 + buf) / 2 ^ 24 = st := by omega
  have hmod : (st * 2 ^ 24 + buf) % 2 ^ 24 = buf := by omega
  simp only [Option.isSome_none, hex, h13, readBE_append 1 ot _ _ (by simpa using w2), readBE_append 4 _ _ _ hw,
    readBE_append 4 mb _ _ (by simpa using w5), readBE_append 4 ab _ _ (by simpa using w6), hdiv, hmod]
  have hleft : wrapI64 ((S : Int) - ((p + (sfs + 1) + 1 + 4 + 4 + 4 - (p + (sfs + 1)) : Nat) : Int))
      = ((dsiSizeSize dsi + sizeSizes others + unk.length : Nat) : Int) := by
    rw [wrapI64_of_range] <;> omega
  have hI : toI64 S = (S : Int) := toI64_small (by omega)
  simp only [Bool.false_eq_true, ↓reduceIte, hleft, hI]
  have hlen := sizeSizes_ge others
  cases dsi with
  | some fx =>
    obtain ⟨f, x⟩ := fx
    have hk : dsiSizeSize (some (f, x)) = 1 + f + 1 + x.length := rfl
    have hd := IH (.dsi f x) (encodeDescs others ++ (unk ++ t)) (p + (sfs + 1) + 1 + 4 + 4 + 4)
      ((dsiSizeSize (some (f, x)) + sizeSizes others + unk.length : Nat) : Int) (by simpa [Desc.WF, DsiWF] using w7)
      (by simp [Desc.sizeSize, Desc.sfsOf, Desc.size, dsiSizeSize] at *; omega)
      (by simp [Desc.sizeSize, Desc.sfsOf, Desc.size, dsiSizeSize]; omega) (by omega)
    simp only [encodeDesc, List.cons_append, List.append_assoc] at hd
    have h0 : ¬ (((dsiSizeSize (some (f, x)) + sizeSizes others + unk.length : Nat) : Int) = 0) := by
      simp [dsiSizeSize]; omega
    simp only [encodeDsi, List.cons_append, List.append_assoc]
    rw [if_neg h0, hd]
    simp only []
    rw [dcLoop_enc n hn IH S (p + (sfs + 1)) _ rfl unk t w10 (by omega) others n _ [] w8 (by omega) (by omega)
      (by omega) (by simp [Desc.sizeSize, Desc.sfsOf, Desc.size, dsiSizeSize] at *; omega)]
    simp only [Desc.sizeSize, Desc.sfsOf, Desc.size, List.nil_append, Prod.mk.injEq, Rd.mk.injEq, true_and, and_true]
    omega
  | none =>
    have hk : dsiSizeSize (none : Option (Nat × Bytes)) = 0 := rfl
    cases others with
    | nil =>
      have hunk : unk = [] := by
        cases unk with
        | nil => rfl
        | cons b r => exact absurd (w11 (by simp)) (by simp)
      subst hunk
      simp only [dsiSizeSize, sizeSizes, List.length_nil, Nat.add_zero, Int.natCast_zero, ↓reduceIte, encodeDsi,
        encodeDescs, List.nil_append, Prod.mk.injEq, Rd.mk.injEq, true_and, and_true]
      simp only [sizeSizes, List.length_nil] at hSv
      omega
    | cons d ds =>
      have hnd : d.isDsi = false := by simpa [headNot] using w9 rfl
      obtain ⟨hdw, hdsw⟩ : d.WF ∧ WFs ds := by simpa [WFs] using w8
      have h2 := sizeSize_ge d
      have hss : sizeSizes (d :: ds) = d.sizeSize + sizeSizes ds := by simp [sizeSizes, Desc.sizeSize]
      have hlen' := sizeSizes_ge ds
      have hd := IH d (encodeDescs ds ++ (unk ++ t)) (p + (sfs + 1) + 1 + 4 + 4 + 4)
        ((dsiSizeSize none + sizeSizes (d :: ds) + unk.length : Nat) : Int) hdw (by omega) (by omega) (by omega)
      have h0 : ¬ (((dsiSizeSize none + sizeSizes (d :: ds) + unk.length : Nat) : Int) = 0) := by omega
      simp only [encodeDsi, encodeDescs, List.nil_append, List.append_assoc]
      rw [if_neg h0, hd]
      have hloop := dcLoop_enc n hn IH S (p + (sfs + 1))
        ⟨sfs, ot, st, buf, mb, ab, none, []⟩ rfl unk t w10 (by omega) ds n
        (p + (sfs + 1) + 1 + 4 + 4 + 4 + d.sizeSize) [d] hdsw (by omega) (by simp at hlen; omega)
        (by omega) (by omega)
      cases d with
      | dsi f x => simp [Desc.isDsi] at hnd
      | dc h o =>
        simp only []
        rw [hloop]
        simp only [List.cons_append, List.nil_append, Prod.mk.injEq, Rd.mk.injEq, true_and, and_true]
        omega
      | sl f c m =>
        simp only []
        rw [hloop]
        simp only [List.cons_append, List.nil_append, Prod.mk.injEq, Rd.mk.injEq, true_and, and_true]
        omega
      | raw tg f x =>
        simp only []
        rw [hloop]
        simp only [List.cons_append, List.nil_append, Prod.mk.injEq, Rd.mk.injEq, true_and, and_true]
        omega

/-- **decode ∘ encode** for descriptors: fuel `≥ SizeSize()` suffices -/
theorem decodeDescriptor_enc : ∀ n, DecIH n
  | 0 => by intro d t p mx _ h; have := sizeSize_ge d; omega
  | n + 1 => by
    intro d t p mx hwf hsz hmx hmx2
    have IH := decodeDescriptor_enc n
    have h2 := sizeSize_ge d
    have hm : ¬ (mx < 2) := by omega
    cases d with
    | dc h others =>
      have hn : 1 ≤ n := by simp [Desc.sizeSize, Desc.size] at hsz; omega
      simp only [encodeDesc, List.cons_append, List.append_assoc, decodeDescriptor, hm, ↓reduceIte, readBE1_cons]
      simp only [Option.isSome_none, Bool.false_eq_true, ↓reduceIte, Nat.reduceEqDiff]
      rw [decodeDC_enc n hn IH h others t (p + 1) mx hwf hsz hmx hmx2]
      simp only [Desc.sizeSize, Desc.sfsOf, Prod.mk.injEq, Rd.mk.injEq, true_and, and_true]
      omega
    | dsi f x =>
      simp only [Desc.WF] at hwf
      simp only [Desc.sizeSize, Desc.sfsOf, Desc.size] at hmx ⊢
      simp only [encodeDesc, List.cons_append, List.append_assoc, decodeDescriptor, hm, ↓reduceIte, readBE1_cons]
      simp only [Option.isSome_none, Bool.false_eq_true, ↓reduceIte, Nat.reduceEqDiff]
      rw [decodeDSI_enc f x t (p + 1) mx hwf hmx hmx2]
      simp only [Prod.mk.injEq, Rd.mk.injEq, true_and, and_true]
      omega
    | sl f c m =>
      simp only [Desc.WF] at hwf
      simp only [Desc.sizeSize, Desc.sfsOf, Desc.size] at hmx ⊢
      simp only [encodeDesc, List.cons_append, List.append_assoc, decodeDescriptor, hm, ↓reduceIte, readBE1_cons]
      simp only [Option.isSome_none, Bool.false_eq_true, ↓reduceIte, Nat.reduceEqDiff]
      rw [decodeSL_enc f c m t (p + 1) mx hwf.1 hwf.2 hmx hmx2]
      simp only [Prod.mk.injEq, Rd.mk.injEq, true_and, and_true]
      omega
    | raw tg f x =>
      simp only [Desc.WF] at hwf
      obtain ⟨w1, w3, w4, w5, w6, w7⟩ := hwf
      simp only [Desc.sizeSize, Desc.sfsOf, Desc.size] at hmx ⊢
      simp only [encodeDesc, List.cons_append, List.append_assoc, decodeDescriptor, hm, ↓reduceIte, readBE1_cons,
        Nat.mod_eq_of_lt w1]
      simp only [Option.isSome_none, Bool.false_eq_true, ↓reduceIte, w3, w4, w5, w6]
      rw [decodeRaw_enc tg f x t (p + 1) mx w7 hmx hmx2]
      simp only [Prod.mk.injEq, Rd.mk.injEq, true_and, and_true]
      omega

theorem esLoop_enc (n : Nat) (hn : 1 ≤ n) (IH : DecIH n)
    (size dataStart : Nat) (e : ES) (hu : e.unk = []) (unk t : Bytes) (hunk : UnkOK unk) (hsz : size < 2 ^ 62) :
    ∀ (rem : List Desc) (m p : Nat) (acc : List Desc), WFs rem → sizeSizes rem ≤ n → rem.length + 1 ≤ m →
      dataStart ≤ p → p - dataStart + sizeSizes rem + unk.length = size →
      size = ({ e with others := acc ++ rem, unk := unk } : ES).size →
      esLoop (decodeDescriptor n) size dataStart e m ⟨encodeDescs rem ++ (unk ++ t), p, none⟩ acc
        = (.ok { e with others := acc ++ rem, unk := unk }, ⟨t, p + sizeSizes rem + unk.length, none⟩) := by
  intro rem
  induction rem with
  | nil =>
    intro m p acc _ _ hm hp hsize hES
    obtain ⟨m, rfl⟩ : ∃ m', m = m' + 1 := ⟨m - 1, by omega⟩
    simp only [sizeSizes, Nat.add_zero] at hsize
    have hleft : wrapI64 (toI64 size - ((p - dataStart : Nat) : Int)) = (unk.length : Int) := by
      rw [toI64_small (by omega), wrapI64_of_range] <;> omega
    simp only [esLoop, encodeDescs, List.nil_append, hleft, sizeSizes, Nat.add_zero, List.append_nil] at hES ⊢
    cases unk with
    | nil =>
      have he : ({ e with others := acc, unk := [] } : ES) = { e with others := acc } := by
        cases e; simp at hu; subst hu; rfl
      rw [he] at hES ⊢
      have hmod : ({ e with others := acc } : ES).size % W64 = size := by
        rw [← hES]; exact Nat.mod_eq_of_lt (by unfold W64; omega)
      simp [hmod]
    | cons b r =>
      obtain ⟨n, rfl⟩ : ∃ n', n = n' + 1 := ⟨n - 1, by omega⟩
      obtain ⟨er, s', he, hf, hs'⟩ := probe_fail n (b :: r) t p hunk
      have h1 : ¬ (((b :: r).length : Int) = 0) := by simp; omega
      have h2 : ¬ (((b :: r).length : Int) < 0) := by omega
      rw [if_neg h1, if_neg h2, he]
      simp only [hf, Bool.false_eq_true, ↓reduceIte, setPos, hs', readBytes_append]
  | cons d ds ih =>
    intro m p acc hwf hss hm hp hsize hES
    obtain ⟨m, rfl⟩ : ∃ m', m = m' + 1 := ⟨m - 1, by omega⟩
    obtain ⟨hd, hds⟩ : d.WF ∧ WFs ds := by simpa [WFs] using hwf
    have h2 := sizeSize_ge d
    have hss' : d.sizeSize + sizeSizes ds ≤ n := by simpa [sizeSizes, Desc.sizeSize] using hss
    have hsize' : p - dataStart + (d.sizeSize + sizeSizes ds) + unk.length = size := by
      simpa [sizeSizes, Desc.sizeSize] using hsize
    have hleft : wrapI64 (toI64 size - ((p - dataStart : Nat) : Int))
        = ((d.sizeSize + sizeSizes ds + unk.length : Nat) : Int) := by
      rw [toI64_small (by omega), wrapI64_of_range] <;> omega
    have h1 : ¬ (((d.sizeSize + sizeSizes ds + unk.length : Nat) : Int) = 0) := by omega
    have h3 : ¬ (((d.sizeSize + sizeSizes ds + unk.length : Nat) : Int) < 0) := by omega
    have hdec := IH d (encodeDescs ds ++ (unk ++ t)) p _ hd (by omega)
      (show (d.sizeSize : Int) ≤ ((d.sizeSize + sizeSizes ds + unk.length : Nat) : Int) by omega) (by omega)
    simp only [esLoop, encodeDescs, List.append_assoc, hleft]
    rw [if_neg h1, if_neg h3, hdec]
    simp only []
    rw [ih m (p + d.sizeSize) (acc ++ [d]) hds (by omega) (by simp at hm; omega) (by omega) (by omega)
      (by simpa [List.append_assoc] using hES)]
    simp [sizeSizes, Desc.sizeSize, List.append_assoc]
    omega

theorem decodeESBody_enc (n : Nat) (hn : 1 ≤ n) (IH : DecIH n)
    (sfs esId fl dep : Nat) (url : Bytes) (ocr : Nat) (dc : DcHdr) (dcO : List Desc)
    (sl : Option (Nat × Nat × Bytes)) (others : List Desc) (unk t : Bytes) (S ds q : Nat)
    (wdc : (Desc.dc dc dcO).WF) (wsl : SlWF sl) (woth : WFs others)
    (wslf : sl = none → headNot Desc.isSl others) (wunk : UnkOK unk)
    (hq : ds ≤ q) (hfuel : S ≤ n) (hbound : S < 2 ^ 32)
    (hSv : S = (q - ds) + (Desc.dc dc dcO).sizeSize + slSizeSize sl + sizeSizes others + unk.length)
    (hES : S = (ES.mk sfs esId fl dep url ocr dc dcO sl others unk).size) :
    decodeESBody (decodeDescriptor n) n sfs S ds esId fl dep url ocr
      ⟨encodeDesc (.dc dc dcO) ++ (encodeSl sl ++ (encodeDescs others ++ (unk ++ t))), q, none⟩
      = (.ok (ES.mk sfs esId fl dep url ocr dc dcO sl others unk),
         ⟨t, q + (Desc.dc dc dcO).sizeSize + slSizeSize sl + sizeSizes others + unk.length, none⟩) := by
  have hdcge := sizeSize_ge (.dc dc dcO)
  have hlen := sizeSizes_ge others
  unfold decodeESBody
  have hI : toI64 S = (S : Int) := toI64_small (by omega)
  have hleft : wrapI64 ((S : Int) - ((q - ds : Nat) : Int))
      = (((Desc.dc dc dcO).sizeSize + slSizeSize sl + sizeSizes others + unk.length : Nat) : Int) := by
    rw [wrapI64_of_range] <;> omega
  have hd := IH (.dc dc dcO) (encodeSl sl ++ (encodeDescs others ++ (unk ++ t))) q _ wdc (by omega)
    (show ((Desc.dc dc dcO).sizeSize : Int)
      ≤ (((Desc.dc dc dcO).sizeSize + slSizeSize sl + sizeSizes others + unk.length : Nat) : Int) by omega) (by omega)
  simp only [hI, hleft, hd]
  generalize hD : (Desc.dc dc dcO).sizeSize = D at *
  have hleft2 : wrapI64 ((S : Int) - ((q + D - ds : Nat) : Int))
      = ((slSizeSize sl + sizeSizes others + unk.length : Nat) : Int) := by
    rw [wrapI64_of_range] <;> omega
  simp only [hleft2]
  cases sl with
  | some fcm =>
    obtain ⟨f, c, m⟩ := fcm
    have hk : slSizeSize (some (f, c, m)) = 1 + f + 1 + (1 + m.length) := rfl
    have hd2 := IH (.sl f c m) (encodeDescs others ++ (unk ++ t)) (q + D)
      ((slSizeSize (some (f, c, m)) + sizeSizes others + unk.length : Nat) : Int) (by simpa [Desc.WF, SlWF] using wsl)
      (by simp [Desc.sizeSize, Desc.sfsOf, Desc.size]; omega)
      (by simp [Desc.sizeSize, Desc.sfsOf, Desc.size]; omega) (by omega)
    simp only [encodeSl, hd2]
    rw [esLoop_enc n hn IH S ds _ rfl unk t wunk (by omega) others n _ [] woth (by omega) (by omega) (by omega)
      (by simp [Desc.sizeSize, Desc.sfsOf, Desc.size]; omega) (by simpa using hES)]
    simp only [Desc.sizeSize, Desc.sfsOf, Desc.size, List.nil_append, Prod.mk.injEq, Rd.mk.injEq, true_and, and_true]
    omega
  | none =>
    have hk : slSizeSize (none : Option (Nat × Nat × Bytes)) = 0 := rfl
    simp only [encodeSl, List.nil_append]
    cases others with
    | nil =>
      obtain ⟨n, rfl⟩ : ∃ n', n = n' + 1 := ⟨n - 1, by omega⟩
      obtain ⟨er, s', he, hf, hs'⟩ := probe_fail n unk t (q + D) wunk
      have hl : ((slSizeSize none + sizeSizes [] + unk.length : Nat) : Int) = (unk.length : Int) := by
        simp [sizeSizes, slSizeSize]
      simp only [encodeDescs, List.nil_append, sizeSizes, slSizeSize, Nat.add_zero, Nat.zero_add]
      simp only [he, hf, Bool.false_eq_true, ↓reduceIte, setPos, hs', readBytes_append]
    | cons d ds' =>
      have hnd : d.isSl = false := by simpa [headNot] using wslf rfl
      obtain ⟨hdw, hdsw⟩ : d.WF ∧ WFs ds' := by simpa [WFs] using woth
      have h2 := sizeSize_ge d
      have hss : sizeSizes (d :: ds') = d.sizeSize + sizeSizes ds' := by simp [sizeSizes, Desc.sizeSize]
      have hlen' := sizeSizes_ge ds'
      have hd2 := IH d (encodeDescs ds' ++ (unk ++ t)) (q + D)
        ((slSizeSize none + sizeSizes (d :: ds') + unk.length : Nat) : Int) hdw (by omega) (by omega) (by omega)
      simp only [encodeDescs, List.append_assoc, hd2]
      have hloop := esLoop_enc n hn IH S ds
        (ES.mk sfs esId fl dep url ocr dc dcO none [] []) rfl unk t wunk (by omega) ds' n
        (q + D + d.sizeSize) [d] hdsw (by omega) (by simp at hlen; omega)
        (by omega) (by omega) (by simpa using hES)
      cases d with
      | sl f c m => simp [Desc.isSl] at hnd
      | dc h o =>
        simp only []
        rw [hloop]
        simp only [List.cons_append, List.nil_append, Prod.mk.injEq, Rd.mk.injEq, true_and, and_true]
        omega
      | dsi f x =>
        simp only []
        rw [hloop]
        simp only [List.cons_append, List.nil_append, Prod.mk.injEq, Rd.mk.injEq, true_and, and_true]
        omega
      | raw tg f x =>
        simp only []
        rw [hloop]
        simp only [List.cons_append, List.nil_append, Prod.mk.injEq, Rd.mk.injEq, true_and, and_true]
        omega

theorem decodeES_enc (n : Nat) (IH : DecIH n) (E : ES) (hwf : E.WF) (hfuel : E.sizeSize ≤ n)
    (hbound : E.sizeSize < 2 ^ 32) (t : Bytes) (p : Nat) (descSize : Nat) (hds1 : E.sizeSize ≤ descSize)
    (hds2 : descSize < 2 ^ 62) :
    decodeES (decodeDescriptor n) n descSize ⟨encodeES E ++ t, p, none⟩ = (.ok E, ⟨t, p + E.sizeSize, none⟩) := by
  obtain ⟨sfs, esId, fl, dep, url, ocr, dc, dcO, sl, others, unk⟩ := E
  obtain ⟨wsz, wid, wfl, wdep, wurl, wocr, wdc, wsl, woth, wslf, wunk⟩ := hwf
  simp only [] at wsz wid wfl wdep wurl wocr wdc wsl woth wslf wunk
  simp only [ES.sizeSize] at hfuel hbound hds1 ⊢
  generalize hS : (ES.mk sfs esId fl dep url ocr dc dcO sl others unk).size = S at *
  have hex := exceeds_false sfs S (descSize : Int) (by omega) (by omega)
  have hdcge := sizeSize_ge (.dc dc dcO)
  have hSv : S = 3 + (if flagDep fl then 2 else 0) + (if flagUrl fl then 1 + url.length else 0)
      + (if flagOcr fl then 2 else 0) + (Desc.dc dc dcO).sizeSize + slSizeSize sl + sizeSizes others + unk.length := by
    rw [← hS]; simp [ES.size]
  have hn : 1 ≤ n := by omega
  cases hd : flagDep fl <;> cases hu : flagUrl fl <;> cases ho : flagOcr fl
  all_goals
    simp only [hd, hu, ho, Bool.false_eq_true, ↓reduceIte] at wdep wurl wocr hSv
    try subst wdep
    try subst wurl
    try subst wocr
    unfold decodeES readESOpt
    simp only [encodeES, List.cons_append, List.append_assoc, readBE1_cons, hd, hu, ho, Bool.false_eq_true, ↓reduceIte,
      List.nil_append]
    rw [hS, readSizeSize_write _ _ _ _ _ wsz (by unfold maxInt; omega)]
    simp only [ne_eq, not_true_eq_false, ↓reduceIte, Option.isSome_none, Bool.false_eq_true, hd, hu, ho, hex,
      readBE_append 2 esId _ _ (by simpa using wid), readBE_append 1 fl _ _ (by simpa using wfl)]
    try simp only [readBE_append 2 dep _ _ (by simpa using wdep)]
    try simp only [readBE_append 1 url.length _ _ (by simpa using wurl), readN_append]
    try simp only [readBE_append 2 ocr _ _ (by simpa using wocr)]
    rw [decodeESBody_enc n hn IH sfs esId fl _ _ _ dc dcO sl others unk t S _ _ wdc wsl woth wslf wunk
      (by omega) (by omega) (by omega) (by omega) hS.symm]
    simp only [Prod.mk.injEq, Rd.mk.injEq, true_and, and_true]
    omega

/-- **decode ∘ encode = id** on every well-formed esds tree (payload level), with any bytes `t` after the ES
    descriptor (the decoder ignores them) -/
theorem decodeEsds_encodeEsds_tail (e : Esds) (h : e.WF) (t : Bytes) (ht : 8 + (encodeEsds e ++ t).length < 2 ^ 32) :
    decodeEsds (encodeEsds e ++ t) = .ok e := by
  obtain ⟨v, fl, es⟩ := e
  obtain ⟨hv, hf, hes, hsz⟩ := h
  simp only [] at hv hf hes hsz
  simp only [sizeEsds] at hsz
  unfold decodeEsds decodeEsdsFuel
  have hlen : (encodeEsds ⟨v, fl, es⟩ ++ t).length = 4 + es.sizeSize + t.length := by
    rw [List.length_append, encodeEsds_length]
  rw [hlen] at ht ⊢
  have hds : (if 4 + es.sizeSize + t.length ≥ 4 then (4 + es.sizeSize + t.length - 4) % 2 ^ 32 else 0)
      = es.sizeSize + t.length := by
    rw [if_pos (by omega)]; omega
  simp only [encodeEsds, Nat.mod_eq_of_lt hv, List.append_assoc, hds]
  rw [readBE_append 4 _ _ _ (by omega)]
  rw [decodeES_enc (4 + es.sizeSize + t.length + 1) (decodeDescriptor_enc _) es hes (by omega) (by omega) t (0 + 4)
    (es.sizeSize + t.length) (by omega) (by omega)]
  have hdiv : (v * 2 ^ 24 + fl) / 2 ^ 24 = v := by omega
  have hmod : (v * 2 ^ 24 + fl) % 2 ^ 24 = fl := by omega
  simp [hdiv, hmod]

/-- **decode ∘ encode = id** on every well-formed esds tree (payload level) -/
theorem decodeEsds_encodeEsds (e : Esds) (h : e.WF) : decodeEsds (encodeEsds e) = .ok e := by
  have := decodeEsds_encodeEsds_tail e h [] (by
    rw [List.append_nil, encodeEsds_length]; have := h.size; simp only [sizeEsds] at this; omega)
  rwa [List.append_nil] at this

end Mp4ff.Esds

namespace Mp4ff.Aac
open Mp4ff.Bits

theorem freqBits_length (f : Nat) : (freqBits f).length ≤ 28 := by
  unfold freqBits; split <;> simp

/-- an encoded AudioSpecificConfig has at most 10 bytes -/
theorem encodeASC_length (a : ASC) (bs : Bytes) (h : encodeASC a = some bs) : bs.length ≤ 10 := by
  unfold encodeASC at h
  split at h
  · injection h with h
    subst h
    have w1 := BW.write_spec {} a.objectType 5 BW.init_inv (by omega)
    have w2 := writeFreq_spec _ a.samplingFrequency w1.1
    have w3 := BW.write_spec _ a.channelConfiguration 4 w2.1 (by omega)
    have f1 := freqBits_length a.samplingFrequency
    have f2 := freqBits_length a.extensionFrequency
    split
    · have w4 := writeFreq_spec _ a.extensionFrequency w3.1
      have w5 := BW.write_spec _ 2 5 w4.1 (by omega)
      have w6 := BW.write_spec _ 0 3 w5.1 (by omega)
      have w7 := (BW.flush_spec _ w6.1).1
      rw [w6.2, w5.2, w4.2, w3.2, w2.2, w1.2] at w7
      have := congrArg List.length w7
      simp [BW.abs] at this
      omega
    · have w6 := BW.write_spec _ 0 3 w3.1 (by omega)
      have w7 := (BW.flush_spec _ w6.1).1
      rw [w6.2, w3.2, w2.2, w1.2] at w7
      have := congrArg List.length w7
      simp [BW.abs] at this
      omega
  · simp at h
end Mp4ff.Aac

namespace Mp4ff.Esds

/-- what `CreateEsdsBox` builds is well-formed as long as the one-byte size fields can carry the sizes
    (`decConfig` of at most 104 bytes; beyond that the Go encoder silently truncates the size fields) -/
theorem createEsds_WF (x : Bytes) (h : x.length ≤ 104) : (createEsds x).WF := by
  refine ⟨by simp [createEsds], by simp [createEsds], ?_, ?_⟩
  · refine ⟨?_, by simp [createEsds, createES], by simp [createEsds, createES], by simp [createEsds, createES, flagDep], by simp [createEsds, createES, flagUrl], by simp [createEsds, createES, flagOcr], ?_, ?_, ?_, ?_, ?_⟩
    · simp [createEsds, createES, ES.size, SzOK, flagDep, flagUrl, flagOcr, Desc.sizeSize, Desc.sfsOf, Desc.size,
        dsiSizeSize, slSizeSize, sizeSizes]
      omega
    · simp [createEsds, createES, Desc.WF, SzOK, Desc.size, dsiSizeSize, sizeSizes, DsiWF, WFs, UnkOK]
      omega
    · simp [createEsds, createES, SlWF, SzOK]
    · simp [createEsds, createES, WFs]
    · simp [createEsds, createES]
    · simp [createEsds, createES, UnkOK]
  · simp [createEsds, createES, sizeEsds, ES.sizeSize, ES.size, flagDep, flagUrl, flagOcr, Desc.sizeSize, Desc.sfsOf,
      Desc.size, dsiSizeSize, slSizeSize, sizeSizes]
    omega

open Mp4ff.Aac in
/-- **C18, last clause**: for every configuration of the domain, the esds box `CreateEsdsBox` builds from the encoded
    AudioSpecificConfig decodes (from its written bytes) to a box whose DecSpecificInfo holds exactly those bytes,
    and these decode back to the configuration -/
theorem esds_asc_roundtrip (a : ASC) (h : AscDom a) :
    ∃ asc e, encodeASC a = some asc ∧ decodeEsds (encodeEsds (createEsds asc)) = .ok e
      ∧ e.es.dc.dsi = some (0, asc) ∧ decodeASC asc = .ok a := by
  obtain ⟨asc, h1, h2⟩ := asc_roundtrip a h
  have hl := encodeASC_length a asc h1
  exact ⟨asc, createEsds asc, h1, decodeEsds_encodeEsds _ (createEsds_WF asc (by omega)), rfl, h2⟩
/-! ## totality (fuel) and size of the decoded tree -/

mutual
/-- bytes a decoded descriptor holds: 2 per descriptor node (tag + at least one size byte) + all variable-length
    content -/
def Desc.weight : Desc → Nat
  | .dc h others =>
      2 + (match h.dsi with | none => 0 | some (_, x) => 2 + x.length) + weights others + h.unk.length
  | .dsi _ x => 2 + x.length
  | .sl _ _ m => 2 + m.length
  | .raw _ _ x => 2 + x.length
def weights : List Desc → Nat
  | [] => 0
  | d :: ds => d.weight + weights ds
end

def ES.weight (e : ES) : Nat :=
  2 + e.url.length + (Desc.dc e.dc e.dcOthers).weight + (match e.sl with | none => 0 | some (_, _, m) => 2 + m.length)
    + weights e.others + e.unk.length

theorem weight_ge (d : Desc) : 2 ≤ d.weight := by
  cases d <;> simp [Desc.weight] <;> omega

theorem weights_append (a b : List Desc) : weights (a ++ b) = weights a + weights b := by
  induction a with
  | nil => simp [weights]
  | cons d ds ih => simp [weights, ih]; omega

theorem readN_len (n : Nat) (s : Rd) : (readN n s).1.length + (readN n s).2.rest.length = s.rest.length := by
  unfold readN
  split
  · simp
  · split
    · simp
    · simp; omega

theorem readN_le (n : Nat) (s : Rd) : (readN n s).2.rest.length ≤ s.rest.length := by
  have := readN_len n s; omega

theorem readBE_snd (n : Nat) (s : Rd) : (readBE n s).2 = (readN n s).2 := rfl

theorem readBE_le (n : Nat) (s : Rd) : (readBE n s).2.rest.length ≤ s.rest.length := by
  rw [readBE_snd]; exact readN_le n s

theorem readN_progress (n : Nat) (s : Rd) (h : (readN n s).2.err = none) :
    (readN n s).2.rest.length + n = s.rest.length := by
  unfold readN at h ⊢
  by_cases h0 : s.err.isSome = true
  · simp [h0] at h; simp [h] at h0
  · by_cases h1 : s.rest.length < n
    · simp [h0, h1] at h
    · simp [h0, h1]; omega

theorem readBE1_progress (s : Rd) (h : (readBE 1 s).2.err = none) : (readBE 1 s).2.rest.length + 1 = s.rest.length := by
  rw [readBE_snd] at h ⊢; exact readN_progress 1 s h

theorem readBytes_len (i : Int) (s : Rd) :
    (readBytes i s).1.length + (readBytes i s).2.rest.length = s.rest.length := by
  unfold readBytes
  split
  · simp
  · exact readN_len _ s

theorem sizeLoop_le (L : Int) : ∀ (rest : Bytes) (acc sfs nr pos : Nat),
    (sizeLoop L acc sfs nr rest pos).2.2.1.rest.length ≤ rest.length
      ∧ ((sizeLoop L acc sfs nr rest pos).2.2.2 = none → (sizeLoop L acc sfs nr rest pos).2.2.1.err = none →
          (sizeLoop L acc sfs nr rest pos).2.2.1.rest.length + 1 ≤ rest.length) := by
  intro rest
  induction rest with
  | nil =>
    intro acc sfs nr pos
    simp only [sizeLoop]
    by_cases h1 : (nr : Int) ≥ L
    · rw [if_pos h1]; simp
    · by_cases h2 : sfs = 255 ∨ acc / 2 ^ 57 ≠ 0
      · rw [if_neg h1, if_pos h2]; simp
      · rw [if_neg h1, if_neg h2]; simp
  | cons b r ih =>
    intro acc sfs nr pos
    simp only [sizeLoop]
    split
    · simp
    · split
      · simp
      · split
        · have := ih ((acc * 128 + b % 128) % W64) ((sfs + 1) % 256) (nr + 1) (pos + 1)
          simp only [List.length_cons]
          omega
        · simp

theorem readSizeSize_le (L : Int) (s : Rd) :
    (readSizeSize L s).2.2.1.rest.length ≤ s.rest.length
      ∧ (s.err = none → (readSizeSize L s).2.2.2 = none → (readSizeSize L s).2.2.1.err = none →
          (readSizeSize L s).2.2.1.rest.length + 1 ≤ s.rest.length) := by
  unfold readSizeSize
  split
  · rename_i h0; simp; intro h; simp [h] at h0
  · split
    · simp
    · rename_i b r hr
      split
      · have := sizeLoop_le L r (b % 128) 0 1 (s.pos + 1)
        simp only [hr, List.length_cons]
        omega
      · simp [hr]

/-- what every leaf decoder (entered after the tag byte, reader without error) guarantees -/
def LeafOK (s : Rd) (r : Except Err Desc) (s' : Rd) : Prop :=
  s'.rest.length ≤ s.rest.length ∧ (∀ d, r = .ok d → s'.rest.length + d.weight ≤ s.rest.length + 1)
    ∧ r ≠ .error .fuel

theorem accErr_ne_fuel (s : Rd) : accErr s ≠ Err.fuel := by
  unfold accErr; split <;> simp

theorem decodeDSI_bound (s : Rd) (mx : Int) (h0 : s.err = none) :
    LeafOK s (decodeDSI s mx).1 (decodeDSI s mx).2 := by
  unfold decodeDSI
  rcases hrs : readSizeSize (mx - 1) s with ⟨sfs, size, s1, ex⟩
  have hle := readSizeSize_le (mx - 1) s
  rw [hrs] at hle
  simp only [] at hle
  obtain ⟨hle1, hle2⟩ := hle
  have hle2 := hle2 h0
  simp only []
  cases ex with
  | some e => simp [LeafOK, hle1]
  | none =>
    simp only []
    split
    · simp [LeafOK, hle1, accErr_ne_fuel]
    · rename_i herr
      have hle3 := hle2 rfl (by simpa using herr)
      split
      · simp [LeafOK, hle1]
      · have hb := readBytes_len (toI64 size) s1
        rcases hrb : readBytes (toI64 size) s1 with ⟨data, s2⟩
        rw [hrb] at hb
        simp only [] at hb ⊢
        split
        · simp [LeafOK]; omega
        · split
          · simp [LeafOK, accErr_ne_fuel]; omega
          · simp [LeafOK, Desc.weight]; omega

theorem decodeRaw_bound (tag : Nat) (s : Rd) (mx : Int) (h0 : s.err = none) :
    LeafOK s (decodeRaw tag s mx).1 (decodeRaw tag s mx).2 := by
  unfold decodeRaw
  rcases hrs : readSizeSize (mx - 1) s with ⟨sfs, size, s1, ex⟩
  have hle := readSizeSize_le (mx - 1) s
  rw [hrs] at hle
  simp only [] at hle
  obtain ⟨hle1, hle2⟩ := hle
  have hle2 := hle2 h0
  simp only []
  cases ex with
  | some e => simp [LeafOK, hle1]
  | none =>
    simp only []
    split
    · simp [LeafOK, hle1, accErr_ne_fuel]
    · rename_i herr
      have hle3 := hle2 rfl (by simpa using herr)
      split
      · simp [LeafOK, hle1]
      · have hb := readBytes_len (toI64 size) s1
        rcases hrb : readBytes (toI64 size) s1 with ⟨data, s2⟩
        rw [hrb] at hb
        simp only [] at hb ⊢
        split
        · simp [LeafOK, accErr_ne_fuel]; omega
        · simp [LeafOK, Desc.weight]; omega

theorem decodeSL_bound (s : Rd) (mx : Int) (h0 : s.err = none) :
    LeafOK s (decodeSL s mx).1 (decodeSL s mx).2 := by
  unfold decodeSL
  rcases hrs : readSizeSize (mx - 1) s with ⟨sfs, size, s1, ex⟩
  have hle := readSizeSize_le (mx - 1) s
  rw [hrs] at hle
  simp only [] at hle
  obtain ⟨hle1, hle2⟩ := hle
  have hle2 := hle2 h0
  simp only []
  cases ex with
  | some e => simp [LeafOK, hle1]
  | none =>
    simp only []
    split
    · simp [LeafOK, hle1, accErr_ne_fuel]
    · rename_i herr
      have hle3 := hle2 rfl (by simpa using herr)
      split
      · simp [LeafOK, hle1]
      · split
        · simp [LeafOK, hle1]
        · have hc := readBE_le 1 s1
          rcases hrc : readBE 1 s1 with ⟨cfg, s2⟩
          rw [hrc] at hc
          simp only [] at hc ⊢
          split
          · have hb := readBytes_len (toI64 (size - 1)) s2
            rcases hrb : readBytes (toI64 (size - 1)) s2 with ⟨more, s3⟩
            rw [hrb] at hb
            simp only [] at hb ⊢
            split
            · simp [LeafOK, accErr_ne_fuel]; omega
            · simp [LeafOK, Desc.weight]; omega
          · simp only []
            split
            · simp [LeafOK, accErr_ne_fuel]; omega
            · simp [LeafOK, Desc.weight]; omega

theorem isFuel_eq_true {e : Err} (h : e.isFuel = true) : e = .fuel := by
  cases e <;> simp [Err.isFuel] at h ⊢

/-- `dec` behaves on every reader state with fewer than `k` bytes left: never out of fuel, never gives bytes
    back, and a decoded descriptor weighs no more than the bytes it consumed -/
def Good (dec : Rd → Int → Res Desc) (k : Nat) : Prop :=
  ∀ s mx, s.rest.length < k →
    (dec s mx).2.rest.length ≤ s.rest.length
    ∧ (∀ d, (dec s mx).1 = .ok d → (dec s mx).2.rest.length + d.weight ≤ s.rest.length)
    ∧ (dec s mx).1 ≠ .error .fuel

theorem dcLoop_bound (dec : Rd → Int → Res Desc) (k : Nat) (hg : Good dec k) (sizeI : Int) (ds : Nat) (h : DcHdr) :
    ∀ (m : Nat) (s : Rd) (others : List Desc), s.rest.length < m → m ≤ k →
      (dcLoop dec sizeI ds h m s others).2.rest.length ≤ s.rest.length
      ∧ (∀ d, (dcLoop dec sizeI ds h m s others).1 = .ok d → ∃ h' o', d = .dc h' o' ∧ h'.dsi = h.dsi
          ∧ (dcLoop dec sizeI ds h m s others).2.rest.length + weights o' + h'.unk.length
              ≤ s.rest.length + weights others + h.unk.length)
      ∧ (dcLoop dec sizeI ds h m s others).1 ≠ .error .fuel := by
  intro m
  induction m with
  | zero => intro s others h1; omega
  | succ m ih =>
    intro s others h1 h2
    simp only [dcLoop]
    split
    · exact ⟨Nat.le_refl _, fun d hd => ⟨h, others, by simpa using hd.symm, rfl, Nat.le_refl _⟩, by simp⟩
    · split
      · simp
      · rcases hdec : dec s (wrapI64 (sizeI - ((s.pos - ds : Nat) : Int))) with ⟨r1, s1⟩
        have hg' := hg s (wrapI64 (sizeI - ((s.pos - ds : Nat) : Int))) (by omega)
        rw [hdec] at hg'
        simp only [] at hg' ⊢
        obtain ⟨g1, g2, g3⟩ := hg'
        cases r1 with
        | error e =>
          simp only []
          split
          · rename_i hf; exact absurd (by rw [isFuel_eq_true hf]) g3
          · have hb := readBytes_len (wrapI64 (sizeI - ((s.pos - ds : Nat) : Int))) (setPos s s1)
            rcases hrb : readBytes (wrapI64 (sizeI - ((s.pos - ds : Nat) : Int))) (setPos s s1) with ⟨unk, s2⟩
            rw [hrb] at hb
            simp only [setPos] at hb ⊢
            refine ⟨by omega, fun d hd => ⟨{ h with unk := unk }, others, by simpa using hd.symm, rfl, ?_⟩, by simp⟩
            simp only []; omega
        | ok d =>
          simp only []
          have hw := weight_ge d
          have g2' := g2 d rfl
          obtain ⟨i1, i2, i3⟩ := ih s1 (others ++ [d]) (by omega) (by omega)
          refine ⟨by omega, ?_, i3⟩
          intro d' hd'
          obtain ⟨h', o', e1, e2, e3⟩ := i2 d' hd'
          refine ⟨h', o', e1, e2, ?_⟩
          rw [weights_append] at e3
          simp only [weights] at e3
          omega

theorem decodeDC_bound (dec : Rd → Int → Res Desc) (n : Nat) (hg : Good dec n) (s : Rd) (mx : Int)
    (h0 : s.err = none) (hlt : s.rest.length < n) :
    LeafOK s (decodeDC dec n s mx).1 (decodeDC dec n s mx).2 := by
  unfold decodeDC
  rcases hrs : readSizeSize (mx - 1) s with ⟨sfs, size, s1, ex⟩
  have hle := readSizeSize_le (mx - 1) s
  rw [hrs] at hle
  simp only [] at hle
  obtain ⟨hle1, hle2⟩ := hle
  have hle2 := hle2 h0
  simp only []
  cases ex with
  | some e => simp [LeafOK, hle1]
  | none =>
    simp only []
    split
    · simp [LeafOK, hle1, accErr_ne_fuel]
    · rename_i herr
      have hle3 := hle2 rfl (by simpa using herr)
      split
      · simp [LeafOK, hle1]
      · split
        · simp [LeafOK, hle1]
        · have c1 := readBE_le 1 s1
          rcases hr1 : readBE 1 s1 with ⟨ot, s2⟩
          rw [hr1] at c1
          have c2 := readBE_le 4 s2
          rcases hr2 : readBE 4 s2 with ⟨w, s3⟩
          rw [hr2] at c2
          have c3 := readBE_le 4 s3
          rcases hr3 : readBE 4 s3 with ⟨mb, s4⟩
          rw [hr3] at c3
          have c4 := readBE_le 4 s4
          rcases hr4 : readBE 4 s4 with ⟨ab, s5⟩
          rw [hr4] at c4
          simp only [] at c1 c2 c3 c4 ⊢
          split
          · simp [LeafOK, Desc.weight, weights]; omega
          · generalize wrapI64 (toI64 size - ((s5.pos - s1.pos : Nat) : Int)) = left
            rcases hdec : dec s5 left with ⟨r1, s6⟩
            have hg' := hg s5 left (by omega)
            rw [hdec] at hg'
            simp only [] at hg' ⊢
            obtain ⟨g1, g2, g3⟩ := hg'
            cases r1 with
            | error e =>
              simp only []
              refine ⟨by omega, by simp, ?_⟩
              cases hf : e.isFuel with
              | true => exact absurd (by rw [isFuel_eq_true hf]) g3
              | false => simp
            | ok d =>
              have g2' := g2 d rfl
              cases d with
              | dsi f x =>
                simp only []
                obtain ⟨i1, i2, i3⟩ := dcLoop_bound dec n hg (toI64 size) s1.pos
                  ⟨sfs, ot, w / 2 ^ 24, w % 2 ^ 24, mb, ab, some (f, x), []⟩ n s6 [] (by omega) (Nat.le_refl _)
                refine ⟨by omega, ?_, i3⟩
                intro d' hd'
                obtain ⟨h', o', e1, e2, e3⟩ := i2 d' hd'
                subst e1
                simp only [Desc.weight, e2, weights, List.length_nil] at e3 g2' ⊢
                omega
              | dc hh oo =>
                simp only []
                obtain ⟨i1, i2, i3⟩ := dcLoop_bound dec n hg (toI64 size) s1.pos
                  ⟨sfs, ot, w / 2 ^ 24, w % 2 ^ 24, mb, ab, none, []⟩ n s6 [.dc hh oo] (by omega) (Nat.le_refl _)
                refine ⟨by omega, ?_, i3⟩
                intro d' hd'
                obtain ⟨h', o', e1, e2, e3⟩ := i2 d' hd'
                subst e1
                simp only [Desc.weight, e2, weights, List.length_nil] at e3 g2' ⊢
                omega
              | sl ff cc mm =>
                simp only []
                obtain ⟨i1, i2, i3⟩ := dcLoop_bound dec n hg (toI64 size) s1.pos
                  ⟨sfs, ot, w / 2 ^ 24, w % 2 ^ 24, mb, ab, none, []⟩ n s6 [.sl ff cc mm] (by omega) (Nat.le_refl _)
                refine ⟨by omega, ?_, i3⟩
                intro d' hd'
                obtain ⟨h', o', e1, e2, e3⟩ := i2 d' hd'
                subst e1
                simp only [Desc.weight, e2, weights, List.length_nil] at e3 g2' ⊢
                omega
              | raw tt ff xx =>
                simp only []
                obtain ⟨i1, i2, i3⟩ := dcLoop_bound dec n hg (toI64 size) s1.pos
                  ⟨sfs, ot, w / 2 ^ 24, w % 2 ^ 24, mb, ab, none, []⟩ n s6 [.raw tt ff xx] (by omega) (Nat.le_refl _)
                refine ⟨by omega, ?_, i3⟩
                intro d' hd'
                obtain ⟨h', o', e1, e2, e3⟩ := i2 d' hd'
                subst e1
                simp only [Desc.weight, e2, weights, List.length_nil] at e3 g2' ⊢
                omega

theorem LeafOK.lift {s s1 : Rd} {r : Except Err Desc} {s' : Rd} (h : LeafOK s1 r s')
    (h1 : s1.rest.length + 1 = s.rest.length) :
    s'.rest.length ≤ s.rest.length ∧ (∀ d, r = .ok d → s'.rest.length + d.weight ≤ s.rest.length)
      ∧ r ≠ .error .fuel := by
  obtain ⟨a, b, c⟩ := h
  exact ⟨by omega, fun d hd => by have := b d hd; omega, c⟩

/-- `DecodeDescriptor` with fuel `n` is `Good` on every reader with fewer than `n` bytes left -/
theorem good : ∀ n, Good (decodeDescriptor n) n
  | 0 => by intro s mx h; omega
  | n + 1 => by
    intro s mx hlt
    have ih := good n
    simp only [decodeDescriptor]
    split
    · simp
    · have c1 := readBE_le 1 s
      have c2 := readBE1_progress s
      rcases hr : readBE 1 s with ⟨tag, s1⟩
      rw [hr] at c1 c2
      simp only [] at c1 c2 ⊢
      split
      · simp [accErr_ne_fuel, c1]
      · rename_i herr
        have he : s1.err = none := by simpa using herr
        have c3 := c2 he
        split
        · simp [c1]
        · split
          · exact (decodeDC_bound (decodeDescriptor n) n ih s1 mx he (by omega)).lift c3
          · split
            · exact (decodeDSI_bound s1 mx he).lift c3
            · split
              · exact (decodeSL_bound s1 mx he).lift c3
              · exact (decodeRaw_bound tag s1 mx he).lift c3

def slWeight : Option (Nat × Nat × Bytes) → Nat
  | none => 0
  | some (_, _, m) => 2 + m.length

theorem esLoop_bound (dec : Rd → Int → Res Desc) (k : Nat) (hg : Good dec k) (size ds : Nat) (e : ES) :
    ∀ (m : Nat) (s : Rd) (others : List Desc), s.rest.length < m → m ≤ k →
      (∀ E, (esLoop dec size ds e m s others).1 = .ok E → ∃ o' u', E = { e with others := o', unk := u' }
          ∧ (esLoop dec size ds e m s others).2.rest.length + weights o' + u'.length
              ≤ s.rest.length + weights others + e.unk.length)
      ∧ (esLoop dec size ds e m s others).1 ≠ .error .fuel := by
  intro m
  induction m with
  | zero => intro s others h1; omega
  | succ m ih =>
    intro s others h1 h2
    simp only [esLoop]
    split
    · split
      · simp
      · split
        · simp [accErr_ne_fuel]
        · refine ⟨fun E hE => ⟨others, e.unk, by simpa using hE.symm, Nat.le_refl _⟩, by simp⟩
    · split
      · simp
      · generalize wrapI64 (toI64 size - ((s.pos - ds : Nat) : Int)) = left
        rcases hdec : dec s left with ⟨r1, s1⟩
        have hg' := hg s left (by omega)
        rw [hdec] at hg'
        simp only [] at hg' ⊢
        obtain ⟨g1, g2, g3⟩ := hg'
        cases r1 with
        | error er =>
          simp only []
          split
          · rename_i hf; exact absurd (by rw [isFuel_eq_true hf]) g3
          · have hb := readBytes_len left (setPos s s1)
            rcases hrb : readBytes left (setPos s s1) with ⟨unk, s2⟩
            rw [hrb] at hb
            simp only [setPos] at hb ⊢
            refine ⟨fun E hE => ⟨others, unk, by simpa using hE.symm, ?_⟩, by simp⟩
            omega
        | ok d =>
          simp only []
          have hw := weight_ge d
          have g2' := g2 d rfl
          obtain ⟨i2, i3⟩ := ih s1 (others ++ [d]) (by omega) (by omega)
          refine ⟨?_, i3⟩
          intro E hE
          obtain ⟨o', u', e1, e3⟩ := i2 E hE
          refine ⟨o', u', e1, ?_⟩
          rw [weights_append] at e3
          simp only [weights] at e3
          omega

theorem decodeESBody_bound (dec : Rd → Int → Res Desc) (n : Nat) (hg : Good dec n)
    (sfs size ds esId fl dep : Nat) (url : Bytes) (ocr : Nat) (s : Rd) (hlt : s.rest.length < n) :
    (∀ E, (decodeESBody dec n sfs size ds esId fl dep url ocr s).1 = .ok E → E.url = url
        ∧ (decodeESBody dec n sfs size ds esId fl dep url ocr s).2.rest.length + (Desc.dc E.dc E.dcOthers).weight
            + slWeight E.sl + weights E.others + E.unk.length ≤ s.rest.length)
      ∧ (decodeESBody dec n sfs size ds esId fl dep url ocr s).1 ≠ .error .fuel := by
  unfold decodeESBody
  generalize wrapI64 (toI64 size - ((s.pos - ds : Nat) : Int)) = left
  simp only []
  rcases hdec : dec s left with ⟨r1, s1⟩
  have hg' := hg s left hlt
  rw [hdec] at hg'
  simp only [] at hg' ⊢
  obtain ⟨g1, g2, g3⟩ := hg'
  cases r1 with
  | error e => exact ⟨by simp, by simpa using g3⟩
  | ok d =>
    have g2' := g2 d rfl
    cases d with
    | dsi f x => simp
    | sl f c m => simp
    | raw tg f x => simp
    | dc h o =>
      simp only []
      generalize wrapI64 (toI64 size - ((s1.pos - ds : Nat) : Int)) = left2
      rcases hdec2 : dec s1 left2 with ⟨r2, s2⟩
      have hg2 := hg s1 left2 (by omega)
      rw [hdec2] at hg2
      simp only [] at hg2 ⊢
      obtain ⟨k1, k2, k3⟩ := hg2
      cases r2 with
      | error er =>
        simp only []
        split
        · rename_i hf; exact absurd (by rw [isFuel_eq_true hf]) k3
        · have hb := readBytes_len left2 (setPos s1 s2)
          rcases hrb : readBytes left2 (setPos s1 s2) with ⟨unk, s3⟩
          rw [hrb] at hb
          simp only [setPos] at hb ⊢
          refine ⟨?_, by simp⟩
          intro E hE
          have hE' : E = ⟨sfs, esId, fl, dep, url, ocr, h, o, none, [], unk⟩ := by simpa using hE.symm
          subst hE'
          simp only [slWeight, weights, true_and]
          omega
      | ok d2 =>
        have k2' := k2 d2 rfl
        have hw := weight_ge d2
        cases d2 with
        | sl f c m =>
          simp only []
          obtain ⟨i2, i3⟩ := esLoop_bound dec n hg size ds
            ⟨sfs, esId, fl, dep, url, ocr, h, o, some (f, c, m), [], []⟩ n s2 [] (by omega) (Nat.le_refl _)
          refine ⟨?_, i3⟩
          intro E hE
          obtain ⟨o', u', e1, e3⟩ := i2 E hE
          subst e1
          have hslw : (Desc.sl f c m).weight = 2 + m.length := by simp [Desc.weight]
          simp only [slWeight, weights, List.length_nil, true_and] at e3 k2' ⊢
          omega
        | dc hh oo =>
          simp only []
          obtain ⟨i2, i3⟩ := esLoop_bound dec n hg size ds
            ⟨sfs, esId, fl, dep, url, ocr, h, o, none, [], []⟩ n s2 [.dc hh oo] (by omega) (Nat.le_refl _)
          refine ⟨?_, i3⟩
          intro E hE
          obtain ⟨o', u', e1, e3⟩ := i2 E hE
          subst e1
          simp only [slWeight, weights, List.length_nil, true_and] at e3 k2' ⊢
          omega
        | dsi ff xx =>
          simp only []
          obtain ⟨i2, i3⟩ := esLoop_bound dec n hg size ds
            ⟨sfs, esId, fl, dep, url, ocr, h, o, none, [], []⟩ n s2 [.dsi ff xx] (by omega) (Nat.le_refl _)
          refine ⟨?_, i3⟩
          intro E hE
          obtain ⟨o', u', e1, e3⟩ := i2 E hE
          subst e1
          simp only [slWeight, weights, List.length_nil, true_and] at e3 k2' ⊢
          omega
        | raw tt ff xx =>
          simp only []
          obtain ⟨i2, i3⟩ := esLoop_bound dec n hg size ds
            ⟨sfs, esId, fl, dep, url, ocr, h, o, none, [], []⟩ n s2 [.raw tt ff xx] (by omega) (Nat.le_refl _)
          refine ⟨?_, i3⟩
          intro E hE
          obtain ⟨o', u', e1, e3⟩ := i2 E hE
          subst e1
          simp only [slWeight, weights, List.length_nil, true_and] at e3 k2' ⊢
          omega

theorem ES.weight_eq (e : ES) : e.weight
    = 2 + e.url.length + (Desc.dc e.dc e.dcOthers).weight + slWeight e.sl + weights e.others + e.unk.length := by
  unfold ES.weight slWeight; rfl

/-- a successful one-byte read that returns a non-zero value really consumed a byte -/
theorem readBE1_nonzero (s : Rd) (h : (readBE 1 s).1 ≠ 0) : (readBE 1 s).2.rest.length + 1 = s.rest.length := by
  apply readBE1_progress
  unfold readBE readN at h ⊢
  by_cases h0 : s.err.isSome = true
  · simp [h0, beVal] at h
  · by_cases h1 : s.rest.length < 1
    · simp [h0, h1, beVal] at h
    · simp [h0, h1]

theorem readESOpt_len (fl : Nat) (s : Rd) :
    (readESOpt fl s).2.1.length + (readESOpt fl s).2.2.2.rest.length ≤ s.rest.length := by
  unfold readESOpt
  have a1 : ∀ (c : Bool) (s : Rd), (if c = true then readBE 2 s else (0, s)).2.rest.length ≤ s.rest.length := by
    intro c s; cases c
    · simp
    · simpa using readBE_le 2 s
  have h1 := a1 (flagDep fl) s
  rcases hx1 : (if flagDep fl = true then readBE 2 s else (0, s)) with ⟨dep, s1⟩
  rw [hx1] at h1
  simp only [] at h1 ⊢
  have h2 : (if flagUrl fl = true then readN (readBE 1 s1).1 (readBE 1 s1).2 else (([] : Bytes), s1)).1.length
      + (if flagUrl fl = true then readN (readBE 1 s1).1 (readBE 1 s1).2 else (([] : Bytes), s1)).2.rest.length
      ≤ s1.rest.length := by
    split
    · have b1 := readBE_le 1 s1
      have b2 := readN_len (readBE 1 s1).1 (readBE 1 s1).2
      omega
    · simp
  rcases hx2 : (if flagUrl fl = true then readN (readBE 1 s1).1 (readBE 1 s1).2 else (([] : Bytes), s1))
    with ⟨url, s2⟩
  rw [hx2] at h2
  simp only [] at h2 ⊢
  have h3 := a1 (flagOcr fl) s2
  rcases hx3 : (if flagOcr fl = true then readBE 2 s2 else (0, s2)) with ⟨ocr, s3⟩
  rw [hx3] at h3
  simp only [] at h3 ⊢
  omega

theorem decodeES_bound (dec : Rd → Int → Res Desc) (n : Nat) (hg : Good dec n) (dsz : Nat) (s : Rd)
    (hlt : s.rest.length < n) :
    (∀ E, (decodeES dec n dsz s).1 = .ok E → (decodeES dec n dsz s).2.rest.length + E.weight ≤ s.rest.length)
      ∧ (decodeES dec n dsz s).1 ≠ .error .fuel := by
  unfold decodeES
  have c0 := readBE1_nonzero s
  rcases hr : readBE 1 s with ⟨tag, s1⟩
  rw [hr] at c0
  simp only [] at c0 ⊢
  split
  · simp
  · rename_i htag
    have htag' : tag = 3 := by simpa using htag
    have c0' := c0 (by omega)
    have herr1 : s1.err = none := by
      have := readBE1_progress s
      rw [hr] at this
      by_cases he : s1.err = none
      · exact he
      · exfalso
        -- a failed read leaves the reader where it was
        have hle := readBE_le 1 s
        unfold readBE readN at hr
        by_cases h0 : s.err.isSome = true
        · simp [h0, beVal] at hr; omega
        · by_cases h1 : s.rest.length < 1
          · simp [h0, h1, beVal] at hr; omega
          · simp [h0, h1] at hr; exact he (by rw [← hr.2])
    rcases hrs : readSizeSize maxInt s1 with ⟨sfs, size, s2, ex⟩
    have hle := readSizeSize_le maxInt s1
    rw [hrs] at hle
    simp only [] at hle
    obtain ⟨hle1, hle2⟩ := hle
    have hle2 := hle2 herr1
    simp only []
    cases ex with
    | some e => simp
    | none =>
      simp only []
      split
      · simp [accErr_ne_fuel]
      · rename_i herr
        have hle3 := hle2 rfl (by simpa using herr)
        split
        · simp
        have d1 := readBE_le 2 s2
        rcases hr1 : readBE 2 s2 with ⟨esId, s3⟩
        rw [hr1] at d1
        have d2 := readBE_le 1 s3
        rcases hr2 : readBE 1 s3 with ⟨fl, s4⟩
        rw [hr2] at d2
        simp only [] at d1 d2 ⊢
        have d3 := readESOpt_len fl s4
        rcases hr3 : readESOpt fl s4 with ⟨dep, url, ocr, s8⟩
        rw [hr3] at d3
        simp only [] at d3 ⊢
        obtain ⟨b1, b2⟩ := decodeESBody_bound dec n hg sfs size s2.pos esId fl dep url ocr s8 (by omega)
        refine ⟨?_, b2⟩
        intro E hE
        obtain ⟨u1, u2⟩ := b1 E hE
        rw [ES.weight_eq, u1]
        omega

theorem decodeEsdsFuel_bound (n : Nat) (bs : Bytes) (h : bs.length < n) :
    decodeEsdsFuel n bs ≠ .error .fuel ∧ ∀ e, decodeEsdsFuel n bs = .ok e → e.es.weight ≤ bs.length := by
  unfold decodeEsdsFuel
  have c1 := readBE_le 4 ⟨bs, 0, none⟩
  rcases hr : readBE 4 ⟨bs, 0, none⟩ with ⟨vf, s⟩
  rw [hr] at c1
  simp only [] at c1 ⊢
  generalize (if bs.length ≥ 4 then (bs.length - 4) % 2 ^ 32 else 0) = dsz
  obtain ⟨b1, b2⟩ := decodeES_bound (decodeDescriptor n) n (good n) dsz s (by omega)
  rcases hd : decodeES (decodeDescriptor n) n dsz s with ⟨r, s'⟩
  rw [hd] at b1 b2
  simp only [] at b1 b2 ⊢
  cases r with
  | error e => simp only []; exact ⟨by simpa using b2, by simp⟩
  | ok es =>
    simp only []
    split
    · exact ⟨by simp [accErr_ne_fuel], by simp⟩
    · refine ⟨by simp, ?_⟩
      intro e he
      have := b1 es rfl
      have he' : e = ⟨vf / 2 ^ 24, vf % 2 ^ 24, es⟩ := by simpa using he.symm
      subst he'
      simp only []
      omega

/-- **totality**: with fuel `input length + 1` the decoder never runs out of fuel — on every byte string it returns
    a tree or one of the Go decoder's errors -/
theorem decodeEsds_total (bs : Bytes) : decodeEsds bs ≠ .error .fuel :=
  (decodeEsdsFuel_bound (bs.length + 1) bs (Nat.lt_succ_self _)).1

/-- **linear size**: two bytes per decoded descriptor plus all variable-length content (DecSpecificInfo, SLConfig
    extra data, raw descriptor payloads, UnknownData, URL string) never exceed the input length -/
theorem decodeEsds_weight (bs : Bytes) (e : Esds) (h : decodeEsds bs = .ok e) : e.es.weight ≤ bs.length :=
  (decodeEsdsFuel_bound (bs.length + 1) bs (Nat.lt_succ_self _)).2 e h

/-- more fuel changes nothing: every fuel above the input length gives a non-fuel answer -/
theorem decodeEsdsFuel_total (n : Nat) (bs : Bytes) (h : bs.length < n) : decodeEsdsFuel n bs ≠ .error .fuel :=
  (decodeEsdsFuel_bound n bs h).1

/-! ## encode ∘ decode: every accepted payload starts with the re-encoding of what was decoded -/

/-- reader `s'` is reader `s` after consuming exactly the bytes `b` -/
def Cons (s s' : Rd) (b : Bytes) : Prop := s.rest = b ++ s'.rest ∧ s'.pos = s.pos + b.length

theorem Cons.refl (s : Rd) : Cons s s [] := ⟨by simp, by simp⟩

theorem Cons.trans {s1 s2 s3 : Rd} {a b : Bytes} (h1 : Cons s1 s2 a) (h2 : Cons s2 s3 b) : Cons s1 s3 (a ++ b) := by
  obtain ⟨a1, a2⟩ := h1
  obtain ⟨b1, b2⟩ := h2
  exact ⟨by rw [a1, b1, List.append_assoc], by rw [b2, a2, List.length_append]; omega⟩

theorem Cons.isBytes {s s' : Rd} {b : Bytes} (h : Cons s s' b) (hb : IsBytes s.rest) : IsBytes b ∧ IsBytes s'.rest := by
  obtain ⟨h1, _⟩ := h
  rw [h1] at hb
  exact ⟨fun x hx => hb x (by simp [hx]), fun x hx => hb x (by simp [hx])⟩

theorem Cons.total {s s' : Rd} {b : Bytes} (h : Cons s s' b) : s'.pos + s'.rest.length = s.pos + s.rest.length := by
  obtain ⟨h1, h2⟩ := h
  rw [h1, h2, List.length_append]; omega

theorem readN_inv (n : Nat) (s : Rd) (a : Bytes) (s' : Rd) (h : readN n s = (a, s')) (he : s'.err = none) :
    Cons s s' a ∧ a.length = n ∧ s.err = none := by
  unfold readN at h
  by_cases h0 : s.err.isSome = true
  · simp [h0] at h; rw [← h.2] at he; simp [he] at h0
  · by_cases h1 : s.rest.length < n
    · simp [h0, h1] at h; rw [← h.2] at he; simp at he
    · simp only [h0, h1, Bool.false_eq_true, ↓reduceIte, Prod.mk.injEq] at h
      obtain ⟨ha, hs⟩ := h
      subst ha hs
      refine ⟨⟨by simp, by simp; omega⟩, by simp; omega, by simpa using h0⟩

theorem readN_sticky (n : Nat) (s : Rd) (h : s.err ≠ none) : (readN n s).2.err ≠ none := by
  unfold readN
  have : s.err.isSome = true := by cases hs : s.err <;> simp_all
  simp [this, h]

theorem readBE_inv (n : Nat) (s : Rd) (v : Nat) (s' : Rd) (h : readBE n s = (v, s')) (he : s'.err = none)
    (hb : IsBytes s.rest) : Cons s s' (beBytes n v) ∧ v < 256 ^ n ∧ s.err = none := by
  unfold readBE at h
  rcases hr : readN n s with ⟨a, s1⟩
  rw [hr] at h
  simp only [Prod.mk.injEq] at h
  obtain ⟨hv, hs⟩ := h
  subst hs
  obtain ⟨c, hl, e0⟩ := readN_inv n s a s1 hr he
  have ha := (c.isBytes hb).1
  subst hv
  rw [← hl, beBytes_beVal a ha]
  exact ⟨c, beVal_lt a ha, e0⟩

theorem readBE_sticky (n : Nat) (s : Rd) (h : s.err ≠ none) : (readBE n s).2.err ≠ none := by
  rw [readBE_snd]; exact readN_sticky n s h

theorem readBytes_inv (i : Int) (s : Rd) (a : Bytes) (s' : Rd) (h : readBytes i s = (a, s')) (he : s'.err = none) :
    Cons s s' a ∧ (a.length : Int) = i ∧ s.err = none := by
  unfold readBytes at h
  by_cases h0 : i < 0
  · simp [h0] at h; rw [← h.2] at he; simp at he
  · simp only [h0, ↓reduceIte] at h
    obtain ⟨c, hl, e0⟩ := readN_inv _ s a s' h he
    exact ⟨c, by omega, e0⟩

theorem readBytes_sticky (i : Int) (s : Rd) (h : s.err ≠ none) : (readBytes i s).2.err ≠ none := by
  unfold readBytes
  split
  · simp
  · exact readN_sticky _ s h

theorem pow7_succ' (p : Nat) : 2 ^ (7 * (p + 1)) = 2 ^ (7 * p) * 128 := by
  have : 7 * (p + 1) = 7 * p + 7 := by omega
  rw [this, Nat.pow_add]

/-- the groups above the field do not influence the bytes written -/
theorem writeSize_add_mul : ∀ (p a r : Nat), writeSize (a * 2 ^ (7 * (p + 1)) + r) p = writeSize r p := by
  intro p
  induction p with
  | zero =>
    intro a r
    have e : (2 : Nat) ^ (7 * (0 + 1)) = 128 := by decide
    simp only [writeSize, e]
    congr 1
    omega
  | succ p ih =>
    intro a r
    simp only [writeSize]
    have hP : 0 < 2 ^ (7 * (p + 1)) := Nat.two_pow_pos _
    have e1 : a * 2 ^ (7 * (p + 1 + 1)) + r = (a * 128) * 2 ^ (7 * (p + 1)) + r := by
      rw [pow7_succ, Nat.mul_assoc, Nat.mul_comm 128]
    rw [e1, ih (a * 128) r]
    congr 1
    have hdiv : (a * 128 * 2 ^ (7 * (p + 1)) + r) / 2 ^ (7 * (p + 1)) = a * 128 + r / 2 ^ (7 * (p + 1)) := by
      rw [Nat.add_comm, Nat.add_mul_div_right _ _ hP, Nat.add_comm]
    rw [hdiv]
    omega

theorem sizeLoop_inv (L : Int) : ∀ (rest : Bytes) (acc sfs nr pos f size : Nat) (s' : Rd),
    sizeLoop L acc sfs nr rest pos = (f, size, s', none) → s'.err = none → IsBytes rest → sfs < 256 →
    ∃ k, f = sfs + k + 1 ∧ rest = writeSize size k ++ s'.rest ∧ s'.pos = pos + (k + 1)
      ∧ size = acc * 2 ^ (7 * (k + 1)) + size % 2 ^ (7 * (k + 1)) ∧ size < 2 ^ 64 ∧ f < 256 := by
  intro rest
  induction rest with
  | nil =>
    intro acc sfs nr pos f size s' h he _ _
    simp only [sizeLoop] at h
    split at h
    · simp at h
    · split at h
      · simp at h
      · simp only [Prod.mk.injEq] at h
        rw [← h.2.2.1] at he; simp at he
  | cons b r ih =>
    intro acc sfs nr pos f size s' h he hb hs256
    have hb256 : b < 256 := hb b (by simp)
    have hbr : IsBytes r := fun x hx => hb x (by simp [hx])
    simp only [sizeLoop] at h
    split at h
    · simp at h
    · split at h
      · simp at h
      · rename_i hL hov
        have hsfs : sfs ≠ 255 := fun hh => hov (Or.inl hh)
        have hacc : acc < 2 ^ 57 := by
          have : acc / 2 ^ 57 = 0 := by
            cases Nat.eq_zero_or_pos (acc / 2 ^ 57) with
            | inl h0 => exact h0
            | inr h1 => exact absurd (Or.inr (by omega)) hov
          exact (Nat.div_eq_zero_iff.mp this).resolve_left (by decide)
        have hacc' : (acc * 128 + b % 128) % W64 = acc * 128 + b % 128 := Nat.mod_eq_of_lt (by unfold W64; omega)
        rw [hacc'] at h
        split at h
        · rename_i hge
          obtain ⟨k, e1, e2, e3, e4, e5, e6⟩ := ih _ _ _ _ _ _ _ h he hbr (Nat.mod_lt _ (by decide))
          have hP : 0 < 2 ^ (7 * (k + 1)) := Nat.two_pow_pos _
          have hs1 : (sfs + 1) % 256 = sfs + 1 := by omega
          rw [hs1] at e1
          have hlt : size % 2 ^ (7 * (k + 1)) < 2 ^ (7 * (k + 1)) := Nat.mod_lt _ hP
          have hdiv : size / 2 ^ (7 * (k + 1)) = acc * 128 + b % 128 := by
            conv => lhs; rw [e4]
            rw [Nat.add_comm, Nat.add_mul_div_right _ _ hP, Nat.div_eq_of_lt hlt]; omega
          have hQ : size / 2 ^ (7 * (k + 1)) % 128 = b % 128 := by rw [hdiv]; omega
          refine ⟨k + 1, by omega, ?_, by omega, ?_, e5, e6⟩
          · simp only [writeSize, List.cons_append, hQ]
            rw [← e2]; congr 1; omega
          · rw [pow7_succ]
            generalize hPd : 2 ^ (7 * (k + 1)) = P at *
            have hmod : size % (P * 128) = size % P + P * (size / P % 128) := Nat.mod_mul
            rw [hmod, hQ]
            have : (acc * 128 + b % 128) * P = acc * (P * 128) + P * (b % 128) := by
              rw [Nat.add_mul, Nat.mul_comm (b % 128) P, Nat.mul_comm P 128, Nat.mul_assoc]
            omega
        · rename_i hlt
          simp only [Prod.mk.injEq] at h
          obtain ⟨h1, h2, h3, _⟩ := h
          subst h3
          refine ⟨0, ?_, ?_, by simp, ?_, ?_, by omega⟩
          · omega
          · simp only [writeSize, List.cons_append, List.nil_append]
            rw [← h2]; congr 1; omega
          · have e : (2 : Nat) ^ (7 * (0 + 1)) = 128 := by decide
            rw [e, ← h2]; omega
          · omega

theorem readSizeSize_inv (L : Int) (s : Rd) (f size : Nat) (s' : Rd)
    (h : readSizeSize L s = (f, size, s', none)) (h0 : s.err = none) (he : s'.err = none) (hb : IsBytes s.rest) :
    Cons s s' (writeSize size f) ∧ size < 2 ^ 64 ∧ f < 256 := by
  unfold readSizeSize at h
  simp only [h0, Option.isSome_none, Bool.false_eq_true, ↓reduceIte] at h
  split at h
  · simp only [Prod.mk.injEq] at h; rw [← h.2.2.1] at he; simp at he
  · rename_i b r hr
    have hb256 : b < 256 := hb b (by simp [hr])
    have hbr : IsBytes r := fun x hx => hb x (by simp [hr, hx])
    split at h
    · rename_i hge
      obtain ⟨k, e1, e2, e3, e4, e5, e6⟩ := sizeLoop_inv L r _ _ _ _ _ _ _ h he hbr (by decide)
      have hP : 0 < 2 ^ (7 * (k + 1)) := Nat.two_pow_pos _
      have hlt : size % 2 ^ (7 * (k + 1)) < 2 ^ (7 * (k + 1)) := Nat.mod_lt _ hP
      have hdiv : size / 2 ^ (7 * (k + 1)) = b % 128 := by
        conv => lhs; rw [e4]
        rw [Nat.add_comm, Nat.add_mul_div_right _ _ hP, Nat.div_eq_of_lt hlt]; omega
      have hf : f = k + 1 := by omega
      subst hf
      refine ⟨⟨?_, ?_⟩, e5, by omega⟩
      · rw [hr]
        simp only [writeSize, List.cons_append, hdiv]
        rw [← e2]; congr 1; omega
      · rw [e3, writeSize_length]; omega
    · rename_i hlt
      simp only [Prod.mk.injEq] at h
      obtain ⟨h1, h2, h3, _⟩ := h
      subst h1 h2 h3
      refine ⟨⟨?_, by simp [writeSize]⟩, by omega, by decide⟩
      rw [hr]; simp only [writeSize, List.cons_append, List.nil_append]
      congr 1; omega

theorem readSizeSize_sticky (L : Int) (s : Rd) (h : s.err ≠ none) : (readSizeSize L s).2.2.1.err ≠ none := by
  unfold readSizeSize
  have : s.err.isSome = true := by cases hs : s.err <;> simp_all
  simp [this, h]

theorem toI64_eq_len {size : Nat} {k : Nat} (hs : size < 2 ^ 64) (h : (k : Int) = toI64 size) : size = k := by
  unfold toI64 at h; rw [wrapI64_eq] at h; omega

/-- result of a leaf decoder entered after the tag byte `tag` -/
def LeafInv (tag : Nat) (s : Rd) (r : Except Err Desc) (s' : Rd) : Prop :=
  (s.err ≠ none → s'.err ≠ none)
  ∧ ∀ d, r = .ok d → s'.err = none → IsBytes s.rest → ∃ b, Cons s s' b ∧ encodeDesc d = tag % 256 :: b

theorem decodeDSI_inv (s : Rd) (mx : Int) : LeafInv 5 s (decodeDSI s mx).1 (decodeDSI s mx).2 := by
  unfold decodeDSI
  have st := readSizeSize_sticky (mx - 1) s
  have inv := readSizeSize_inv (mx - 1) s
  rcases hrs : readSizeSize (mx - 1) s with ⟨sfs, size, s1, ex⟩
  rw [hrs] at st inv
  simp only [] at st inv ⊢
  cases ex with
  | some e => exact ⟨st, by simp⟩
  | none =>
    simp only []
    split
    · exact ⟨st, by simp⟩
    · rename_i herr
      have he1 : s1.err = none := by simpa using herr
      have h0 : s.err = none := by
        cases hs : s.err with
        | none => rfl
        | some e => exact absurd he1 (st (by simp [hs]))
      split
      · exact ⟨fun h => absurd h0 h, by simp⟩
      · have st2 := readBytes_sticky (toI64 size) s1
        have inv2 := readBytes_inv (toI64 size) s1
        rcases hrb : readBytes (toI64 size) s1 with ⟨data, s2⟩
        rw [hrb] at st2 inv2
        simp only [] at st2 inv2 ⊢
        split
        · exact ⟨fun h => absurd h0 h, by simp⟩
        · split
          · exact ⟨fun h => absurd h0 h, by simp⟩
          · refine ⟨fun h => absurd h0 h, ?_⟩
            intro d hd he2 hb
            have hd' : d = .dsi sfs data := by simpa using hd.symm
            subst hd'
            obtain ⟨c1, hs64, hf⟩ := inv _ _ _ rfl h0 he1 hb
            obtain ⟨c2, hl, _⟩ := inv2 _ _ rfl he2
            have hsz := toI64_eq_len hs64 hl
            subst hsz
            exact ⟨_, c1.trans c2, by simp [encodeDesc]⟩

theorem decodeRaw_inv (tag : Nat) (s : Rd) (mx : Int) :
    LeafInv tag s (decodeRaw tag s mx).1 (decodeRaw tag s mx).2 := by
  unfold decodeRaw
  have st := readSizeSize_sticky (mx - 1) s
  have inv := readSizeSize_inv (mx - 1) s
  rcases hrs : readSizeSize (mx - 1) s with ⟨sfs, size, s1, ex⟩
  rw [hrs] at st inv
  simp only [] at st inv ⊢
  cases ex with
  | some e => exact ⟨st, by simp⟩
  | none =>
    simp only []
    split
    · exact ⟨st, by simp⟩
    · rename_i herr
      have he1 : s1.err = none := by simpa using herr
      have h0 : s.err = none := by
        cases hs : s.err with
        | none => rfl
        | some e => exact absurd he1 (st (by simp [hs]))
      split
      · exact ⟨fun h => absurd h0 h, by simp⟩
      · have inv2 := readBytes_inv (toI64 size) s1
        rcases hrb : readBytes (toI64 size) s1 with ⟨data, s2⟩
        rw [hrb] at inv2
        simp only [] at inv2 ⊢
        split
        · exact ⟨fun h => absurd h0 h, by simp⟩
        · refine ⟨fun h => absurd h0 h, ?_⟩
          intro d hd he2 hb
          have hd' : d = .raw tag sfs data := by simpa using hd.symm
          subst hd'
          obtain ⟨c1, hs64, hf⟩ := inv _ _ _ rfl h0 he1 hb
          obtain ⟨c2, hl, _⟩ := inv2 _ _ rfl he2
          have hsz := toI64_eq_len hs64 hl
          subst hsz
          exact ⟨_, c1.trans c2, by simp [encodeDesc]⟩

theorem decodeSL_inv (s : Rd) (mx : Int) : LeafInv 6 s (decodeSL s mx).1 (decodeSL s mx).2 := by
  unfold decodeSL
  have st := readSizeSize_sticky (mx - 1) s
  have inv := readSizeSize_inv (mx - 1) s
  rcases hrs : readSizeSize (mx - 1) s with ⟨sfs, size, s1, ex⟩
  rw [hrs] at st inv
  simp only [] at st inv ⊢
  cases ex with
  | some e => exact ⟨st, by simp⟩
  | none =>
    simp only []
    split
    · exact ⟨st, by simp⟩
    · rename_i herr
      have he1 : s1.err = none := by simpa using herr
      have h0 : s.err = none := by
        cases hs : s.err with
        | none => rfl
        | some e => exact absurd he1 (st (by simp [hs]))
      split
      · exact ⟨fun h => absurd h0 h, by simp⟩
      · split
        · exact ⟨fun h => absurd h0 h, by simp⟩
        · rename_i hz
          have inv1 := readBE_inv 1 s1
          have st1 := readBE_sticky 1 s1
          rcases hrc : readBE 1 s1 with ⟨cfg, s2⟩
          rw [hrc] at inv1 st1
          simp only [] at inv1 st1 ⊢
          split
          · rename_i hgt
            have inv2 := readBytes_inv (toI64 (size - 1)) s2
            rcases hrb : readBytes (toI64 (size - 1)) s2 with ⟨more, s3⟩
            rw [hrb] at inv2
            simp only [] at inv2 ⊢
            split
            · exact ⟨fun h => absurd h0 h, by simp⟩
            · refine ⟨fun h => absurd h0 h, ?_⟩
              intro d hd he3 hb
              have hd' : d = .sl sfs cfg more := by simpa using hd.symm
              subst hd'
              obtain ⟨c1, hs64, hf⟩ := inv _ _ _ rfl h0 he1 hb
              obtain ⟨c3, hl, he2⟩ := inv2 _ _ rfl he3
              obtain ⟨c2, hc, _⟩ := inv1 _ _ rfl he2 (c1.isBytes hb).2
              have hsz := toI64_eq_len (size := size - 1) (by omega) hl
              have hsz' : size = 1 + more.length := by omega
              subst hsz'
              exact ⟨_, c1.trans (c2.trans c3), by simp [encodeDesc]⟩
          · rename_i hgt
            simp only []
            split
            · exact ⟨fun h => absurd h0 h, by simp⟩
            · rename_i herr2
              refine ⟨fun h => absurd h0 h, ?_⟩
              intro d hd he3 hb
              have hd' : d = .sl sfs cfg [] := by simpa using hd.symm
              subst hd'
              obtain ⟨c1, hs64, hf⟩ := inv _ _ _ rfl h0 he1 hb
              obtain ⟨c2, hc, _⟩ := inv1 _ _ rfl he3 (c1.isBytes hb).2
              have hsz' : size = 1 + ([] : Bytes).length := by simp; omega
              subst hsz'
              exact ⟨_, c1.trans c2, by simp [encodeDesc]⟩

theorem wrapI64_range (x : Int) : -2 ^ 63 ≤ wrapI64 x ∧ wrapI64 x < 2 ^ 63 := by
  rw [wrapI64_eq]; omega

/-- `dec` (= `DecodeDescriptor`) keeps the reader's error sticky and, when it succeeds without reader error, has
    consumed exactly the encoding of what it returns -/
def Inv (dec : Rd → Int → Res Desc) : Prop :=
  ∀ s mx, (s.err ≠ none → (dec s mx).2.err ≠ none)
    ∧ (∀ d, (dec s mx).1 = .ok d → (dec s mx).2.err = none → IsBytes s.rest → s.pos + s.rest.length < 2 ^ 63 →
        Cons s (dec s mx).2 (encodeDesc d))

theorem setPos_cons {s s1 s2 : Rd} {b : Bytes} (h : Cons (setPos s s1) s2 b) : Cons s s2 b := h

theorem dcLoop_inv (dec : Rd → Int → Res Desc) (hi : Inv dec) (sizeI : Int) (ds : Nat) (h : DcHdr) (hu : h.unk = [])
    (hs1 : -2 ^ 63 ≤ sizeI) (hs2 : sizeI < 2 ^ 63) :
    ∀ (m : Nat) (s : Rd) (acc : List Desc),
      (s.err ≠ none → (dcLoop dec sizeI ds h m s acc).2.err ≠ none)
      ∧ (∀ d, (dcLoop dec sizeI ds h m s acc).1 = .ok d → (dcLoop dec sizeI ds h m s acc).2.err = none →
          IsBytes s.rest → s.pos + s.rest.length < 2 ^ 63 → ds ≤ s.pos →
          ∃ rem u, d = .dc { h with unk := u } (acc ++ rem)
            ∧ Cons s (dcLoop dec sizeI ds h m s acc).2 (encodeDescs rem ++ u)
            ∧ sizeI = (((dcLoop dec sizeI ds h m s acc).2.pos - ds : Nat) : Int)) := by
  intro m
  induction m with
  | zero => intro s acc; simp [dcLoop]
  | succ m ih =>
    intro s acc
    simp only [dcLoop]
    split
    · rename_i hl
      refine ⟨fun h => h, ?_⟩
      intro d hd he hb ht hds
      refine ⟨[], [], ?_, by simpa [encodeDescs] using Cons.refl s, ?_⟩
      · have : d = .dc h acc := by simpa using hd.symm
        rw [this, DcHdr.with_unk_nil h hu, List.append_nil]
      · rw [wrapI64_eq] at hl; simp only []; omega
    · split
      · exact ⟨fun h => h, by simp⟩
      · rename_i hl0 hlneg
        have hI := hi s (wrapI64 (sizeI - ((s.pos - ds : Nat) : Int)))
        rcases hdec : dec s (wrapI64 (sizeI - ((s.pos - ds : Nat) : Int))) with ⟨r1, s1⟩
        rw [hdec] at hI
        simp only [] at hI ⊢
        obtain ⟨st, iv⟩ := hI
        cases r1 with
        | error e =>
          simp only []
          split
          · exact ⟨st, by simp⟩
          · have st2 := readBytes_sticky (wrapI64 (sizeI - ((s.pos - ds : Nat) : Int))) (setPos s s1)
            have inv2 := readBytes_inv (wrapI64 (sizeI - ((s.pos - ds : Nat) : Int))) (setPos s s1)
            rcases hrb : readBytes (wrapI64 (sizeI - ((s.pos - ds : Nat) : Int))) (setPos s s1) with ⟨unk, s2⟩
            rw [hrb] at st2 inv2
            simp only [] at st2 inv2 ⊢
            refine ⟨fun h => st2 (by simpa [setPos] using st h), ?_⟩
            intro d hd he hb ht hds
            obtain ⟨c, hl, _⟩ := inv2 _ _ rfl he
            have c' : Cons s s2 unk := setPos_cons c
            refine ⟨[], unk, ?_, by simpa [encodeDescs] using c', ?_⟩
            · have : d = .dc { h with unk := unk } acc := by simpa using hd.symm
              rw [this, List.append_nil]
            · have hp := c'.2
              have hr := c'.1
              have hlen : unk.length ≤ s.rest.length := by rw [hr]; simp
              rw [wrapI64_eq] at hl
              omega
        | ok d1 =>
          simp only []
          obtain ⟨ist, iinv⟩ := ih s1 (acc ++ [d1])
          refine ⟨fun h => ist (st h), ?_⟩
          intro d hd he hb ht hds
          have he1 : s1.err = none := by
            cases hs : s1.err with
            | none => rfl
            | some e => exact absurd he (ist (by simp [hs]))
          have c1 := iv d1 rfl he1 hb ht
          have hb1 := (c1.isBytes hb).2
          have ht1 := c1.total
          obtain ⟨rem, u, e1, c2, e3⟩ := iinv d hd he hb1 (by omega) (by have := c1.2; omega)
          refine ⟨d1 :: rem, u, by rw [e1, List.append_assoc]; rfl, ?_, e3⟩
          have := c1.trans c2
          simpa [encodeDescs, List.append_assoc] using this

theorem stbuf_w (w : Nat) (hw : w < 256 ^ 4) : (w / 2 ^ 24 % 256) <<< 24 ||| w % 2 ^ 24 = w := by
  have h1 : w / 2 ^ 24 < 256 := by omega
  rw [stbuf (w / 2 ^ 24) (w % 2 ^ 24) h1 (Nat.mod_lt _ (by decide))]
  omega

theorem toI64_range (n : Nat) : -2 ^ 63 ≤ toI64 n ∧ toI64 n < 2 ^ 63 := wrapI64_range _

theorem err_none_of_sticky {s s' : Rd} (st : s.err ≠ none → s'.err ≠ none) (h : s'.err = none) : s.err = none := by
  cases hs : s.err with
  | none => rfl
  | some e => exact absurd h (st (by simp [hs]))

/-- final assembly of the DecoderConfig inversion -/
theorem dc_finish {s s5 s7 : Rd} {s1pos size sfs ot w mb ab : Nat} {dsi : Option (Nat × Bytes)} {others : List Desc}
    {u mid : Bytes}
    (c1 : Cons s s5 (writeSize size sfs ++ (beBytes 1 ot ++ (beBytes 4 w ++ (beBytes 4 mb ++ beBytes 4 ab)))))
    (hp5 : s5.pos = s1pos + 13) (c2 : Cons s5 s7 (mid ++ u)) (hmid : encodeDsi dsi ++ encodeDescs others = mid)
    (hsz : toI64 size = ((s7.pos - s1pos : Nat) : Int)) (hs64 : size < 2 ^ 64) (hw : w < 256 ^ 4) :
    ∃ b, Cons s s7 b ∧ encodeDesc (.dc ⟨sfs, ot, w / 2 ^ 24, w % 2 ^ 24, mb, ab, dsi, u⟩ others) = 4 :: b := by
  refine ⟨_, c1.trans c2, ?_⟩
  have hlen : mid.length = dsiSizeSize dsi + sizeSizes others := by
    rw [← hmid, List.length_append, encodeDsi_length, encodeDescs_length]
  have hp7 := c2.2
  rw [List.length_append] at hp7
  have hsize : (Desc.dc ⟨sfs, ot, w / 2 ^ 24, w % 2 ^ 24, mb, ab, dsi, u⟩ others).size = size := by
    simp only [Desc.size]
    unfold toI64 at hsz; rw [wrapI64_eq] at hsz
    omega
  simp only [encodeDesc, hsize, stbuf_w w hw, beBytes, List.append_assoc, ← hmid]
  simp

theorem decodeDC_inv (dec : Rd → Int → Res Desc) (hi : Inv dec) (n : Nat) (s : Rd) (mx : Int) :
    (s.err ≠ none → (decodeDC dec n s mx).2.err ≠ none)
    ∧ ∀ d, (decodeDC dec n s mx).1 = .ok d → (decodeDC dec n s mx).2.err = none → IsBytes s.rest →
        s.pos + s.rest.length < 2 ^ 63 → ∃ b, Cons s (decodeDC dec n s mx).2 b ∧ encodeDesc d = 4 :: b := by
  unfold decodeDC
  have st := readSizeSize_sticky (mx - 1) s
  have inv := readSizeSize_inv (mx - 1) s
  rcases hrs : readSizeSize (mx - 1) s with ⟨sfs, size, s1, ex⟩
  rw [hrs] at st inv
  simp only [] at st inv ⊢
  cases ex with
  | some e => exact ⟨st, by simp⟩
  | none =>
    simp only []
    split
    · exact ⟨st, by simp⟩
    · rename_i herr
      have he1 : s1.err = none := by simpa using herr
      have h0 : s.err = none := err_none_of_sticky st he1
      split
      · exact ⟨fun h => absurd h0 h, by simp⟩
      · split
        · exact ⟨fun h => absurd h0 h, by simp⟩
        · rename_i h13
          have i1 := readBE_inv 1 s1
          have t1 := readBE_sticky 1 s1
          rcases hr1 : readBE 1 s1 with ⟨ot, s2⟩
          rw [hr1] at i1 t1
          have i2 := readBE_inv 4 s2
          have t2 := readBE_sticky 4 s2
          rcases hr2 : readBE 4 s2 with ⟨w, s3⟩
          rw [hr2] at i2 t2
          have i3 := readBE_inv 4 s3
          have t3 := readBE_sticky 4 s3
          rcases hr3 : readBE 4 s3 with ⟨mb, s4⟩
          rw [hr3] at i3 t3
          have i4 := readBE_inv 4 s4
          have t4 := readBE_sticky 4 s4
          rcases hr4 : readBE 4 s4 with ⟨ab, s5⟩
          rw [hr4] at i4 t4
          simp only [] at i1 i2 i3 i4 t1 t2 t3 t4 ⊢
          refine ⟨fun h => absurd h0 h, ?_⟩
          -- everything read so far, given that the reader after the fixed fields has no error
          have hdr : s5.err = none → IsBytes s.rest →
              Cons s s5 (writeSize size sfs ++ (beBytes 1 ot ++ (beBytes 4 w ++ (beBytes 4 mb ++ beBytes 4 ab))))
              ∧ w < 256 ^ 4 ∧ size < 2 ^ 64 ∧ IsBytes s5.rest ∧ s5.pos = s1.pos + 13 := by
            intro e5 hb
            have e4 := err_none_of_sticky t4 e5
            have e3 := err_none_of_sticky t3 e4
            have e2 := err_none_of_sticky t2 e3
            obtain ⟨c0, hs64, _⟩ := inv _ _ _ rfl h0 he1 hb
            have b1 := (c0.isBytes hb).2
            obtain ⟨c1, _, _⟩ := i1 _ _ rfl e2 b1
            have b2 := (c1.isBytes b1).2
            obtain ⟨c2, hw, _⟩ := i2 _ _ rfl e3 b2
            have b3 := (c2.isBytes b2).2
            obtain ⟨c3, _, _⟩ := i3 _ _ rfl e4 b3
            have b4 := (c3.isBytes b3).2
            obtain ⟨c4, _, _⟩ := i4 _ _ rfl e5 b4
            refine ⟨c0.trans (c1.trans (c2.trans (c3.trans c4))), hw, hs64, (c4.isBytes b4).2, ?_⟩
            have := c1.2; have := c2.2; have := c3.2; have := c4.2
            simp only [beBytes_length] at *
            omega
          split
          · rename_i hl
            intro d hd he hb ht
            obtain ⟨ch, hw, hs64, b5, hp5⟩ := hdr he hb
            have hd' : d = .dc ⟨sfs, ot, w / 2 ^ 24, w % 2 ^ 24, mb, ab, none, []⟩ [] := by simpa using hd.symm
            subst hd'
            refine dc_finish (mid := []) ch hp5 (by simpa using Cons.refl s5) (by simp [encodeDsi, encodeDescs]) ?_ hs64 hw
            have hr := toI64_range size
            rw [wrapI64_eq] at hl
            show toI64 size = ((s5.pos - s1.pos : Nat) : Int)
            omega
          · rename_i hl
            have hI := hi s5 (wrapI64 (toI64 size - ((s5.pos - s1.pos : Nat) : Int)))
            rcases hdec : dec s5 (wrapI64 (toI64 size - ((s5.pos - s1.pos : Nat) : Int))) with ⟨r1, s6⟩
            rw [hdec] at hI
            simp only [] at hI ⊢
            obtain ⟨st6, iv6⟩ := hI
            cases r1 with
            | error e => simp
            | ok d1 =>
              have hr := toI64_range size
              cases d1 with
              | dsi f x =>
                simp only []
                obtain ⟨lst, linv⟩ := dcLoop_inv dec hi (toI64 size) s1.pos
                  ⟨sfs, ot, w / 2 ^ 24, w % 2 ^ 24, mb, ab, some (f, x), []⟩ rfl hr.1 hr.2 n s6 []
                intro d hd he hb ht
                have e6 := err_none_of_sticky lst he
                have e5 := err_none_of_sticky st6 e6
                obtain ⟨ch, hw, hs64, b5, hp5⟩ := hdr e5 hb
                have c56 := iv6 _ rfl e6 b5 (by have := ch.total; omega)
                have b6 := (c56.isBytes b5).2
                obtain ⟨rem, u, e1, c67, e3⟩ := linv d hd he b6 (by have := ch.total; have := c56.total; omega)
                  (by have := c56.2; omega)
                subst e1
                have c57 := c56.trans c67
                rw [← List.append_assoc] at c57
                exact dc_finish ch hp5 c57 (by simp [encodeDsi, encodeDesc]) e3 hs64 hw
              | dc hh oo =>
                simp only []
                obtain ⟨lst, linv⟩ := dcLoop_inv dec hi (toI64 size) s1.pos
                  ⟨sfs, ot, w / 2 ^ 24, w % 2 ^ 24, mb, ab, none, []⟩ rfl hr.1 hr.2 n s6 [.dc hh oo]
                intro d hd he hb ht
                have e6 := err_none_of_sticky lst he
                have e5 := err_none_of_sticky st6 e6
                obtain ⟨ch, hw, hs64, b5, hp5⟩ := hdr e5 hb
                have c56 := iv6 _ rfl e6 b5 (by have := ch.total; omega)
                have b6 := (c56.isBytes b5).2
                obtain ⟨rem, u, e1, c67, e3⟩ := linv d hd he b6 (by have := ch.total; have := c56.total; omega)
                  (by have := c56.2; omega)
                subst e1
                have c57 := c56.trans c67
                rw [← List.append_assoc] at c57
                exact dc_finish ch hp5 c57 (by simp [encodeDsi, encodeDescs]) e3 hs64 hw
              | sl ff cc mm =>
                simp only []
                obtain ⟨lst, linv⟩ := dcLoop_inv dec hi (toI64 size) s1.pos
                  ⟨sfs, ot, w / 2 ^ 24, w % 2 ^ 24, mb, ab, none, []⟩ rfl hr.1 hr.2 n s6 [.sl ff cc mm]
                intro d hd he hb ht
                have e6 := err_none_of_sticky lst he
                have e5 := err_none_of_sticky st6 e6
                obtain ⟨ch, hw, hs64, b5, hp5⟩ := hdr e5 hb
                have c56 := iv6 _ rfl e6 b5 (by have := ch.total; omega)
                have b6 := (c56.isBytes b5).2
                obtain ⟨rem, u, e1, c67, e3⟩ := linv d hd he b6 (by have := ch.total; have := c56.total; omega)
                  (by have := c56.2; omega)
                subst e1
                have c57 := c56.trans c67
                rw [← List.append_assoc] at c57
                exact dc_finish ch hp5 c57 (by simp [encodeDsi, encodeDescs]) e3 hs64 hw
              | raw tt ff xx =>
                simp only []
                obtain ⟨lst, linv⟩ := dcLoop_inv dec hi (toI64 size) s1.pos
                  ⟨sfs, ot, w / 2 ^ 24, w % 2 ^ 24, mb, ab, none, []⟩ rfl hr.1 hr.2 n s6 [.raw tt ff xx]
                intro d hd he hb ht
                have e6 := err_none_of_sticky lst he
                have e5 := err_none_of_sticky st6 e6
                obtain ⟨ch, hw, hs64, b5, hp5⟩ := hdr e5 hb
                have c56 := iv6 _ rfl e6 b5 (by have := ch.total; omega)
                have b6 := (c56.isBytes b5).2
                obtain ⟨rem, u, e1, c67, e3⟩ := linv d hd he b6 (by have := ch.total; have := c56.total; omega)
                  (by have := c56.2; omega)
                subst e1
                have c57 := c56.trans c67
                rw [← List.append_assoc] at c57
                exact dc_finish ch hp5 c57 (by simp [encodeDsi, encodeDescs]) e3 hs64 hw

theorem beBytes1 (v : Nat) : beBytes 1 v = [v % 256] := by simp [beBytes]

theorem LeafInv.lift {tag : Nat} {s s1 : Rd} {r : Except Err Desc} {s' : Rd} (h : LeafInv tag s1 r s')
    (c : IsBytes s.rest → Cons s s1 [tag % 256]) (h0 : s.err = none) :
    (s.err ≠ none → s'.err ≠ none)
    ∧ (∀ d, r = .ok d → s'.err = none → IsBytes s.rest → s.pos + s.rest.length < 2 ^ 63 → Cons s s' (encodeDesc d)) := by
  refine ⟨fun h => absurd h0 h, ?_⟩
  intro d hd he hb _
  have c1 := c hb
  obtain ⟨b, c2, e⟩ := h.2 d hd he (c1.isBytes hb).2
  rw [e]
  exact c1.trans c2

/-- every fuel: `DecodeDescriptor` is sticky and consumes exactly the encoding of what it returns -/
theorem inv_all : ∀ n, Inv (decodeDescriptor n)
  | 0 => by intro s mx; simp [decodeDescriptor]
  | n + 1 => by
    intro s mx
    have ih := inv_all n
    simp only [decodeDescriptor]
    split
    · exact ⟨fun h => h, by simp⟩
    · have i1 := readBE_inv 1 s
      have t1 := readBE_sticky 1 s
      rcases hr : readBE 1 s with ⟨tag, s1⟩
      rw [hr] at i1 t1
      simp only [] at i1 t1 ⊢
      split
      · exact ⟨t1, by simp⟩
      · rename_i herr
        have e1 : s1.err = none := by simpa using herr
        have h0 := err_none_of_sticky t1 e1
        have c : IsBytes s.rest → Cons s s1 [tag % 256] := by
          intro hb
          obtain ⟨c, _, _⟩ := i1 _ _ rfl e1 hb
          rwa [beBytes1] at c
        split
        · exact ⟨fun h => absurd h0 h, by simp⟩
        · split
          · rename_i h4
            subst h4
            obtain ⟨st, iv⟩ := decodeDC_inv (decodeDescriptor n) ih n s1 mx
            refine ⟨fun h => absurd h0 h, ?_⟩
            intro d hd he hb ht
            have c1 := c hb
            obtain ⟨b, c2, e⟩ := iv d hd he (c1.isBytes hb).2 (by have := c1.total; omega)
            rw [e]
            exact c1.trans c2
          · split
            · rename_i h5; subst h5
              exact (decodeDSI_inv s1 mx).lift c h0
            · split
              · rename_i h6; subst h6
                exact (decodeSL_inv s1 mx).lift c h0
              · exact (decodeRaw_inv tag s1 mx).lift c h0

theorem esLoop_inv (dec : Rd → Int → Res Desc) (hi : Inv dec) (size ds : Nat) (e : ES) (hu : e.unk = []) :
    ∀ (m : Nat) (s : Rd) (acc : List Desc),
      (s.err ≠ none → (esLoop dec size ds e m s acc).2.err ≠ none)
      ∧ (∀ E, (esLoop dec size ds e m s acc).1 = .ok E → (esLoop dec size ds e m s acc).2.err = none →
          IsBytes s.rest → s.pos + s.rest.length < 2 ^ 63 → ds ≤ s.pos →
          ∃ rem u, E = { e with others := acc ++ rem, unk := u }
            ∧ Cons s (esLoop dec size ds e m s acc).2 (encodeDescs rem ++ u)
            ∧ toI64 size = (((esLoop dec size ds e m s acc).2.pos - ds : Nat) : Int)) := by
  intro m
  induction m with
  | zero => intro s acc; simp [esLoop]
  | succ m ih =>
    intro s acc
    have hr := toI64_range size
    simp only [esLoop]
    split
    · rename_i hl
      split
      · exact ⟨fun h => h, by simp⟩
      · split
        · exact ⟨fun h => h, by simp⟩
        · refine ⟨fun h => h, ?_⟩
          intro E hE he hb ht hds
          refine ⟨[], [], ?_, by simpa [encodeDescs] using Cons.refl s, ?_⟩
          · have : E = { e with others := acc } := by simpa using hE.symm
            rw [this, List.append_nil]
            cases e; simp at hu; subst hu; rfl
          · rw [wrapI64_eq] at hl; simp only []; omega
    · split
      · exact ⟨fun h => h, by simp⟩
      · rename_i hl0 hlneg
        have hI := hi s (wrapI64 (toI64 size - ((s.pos - ds : Nat) : Int)))
        rcases hdec : dec s (wrapI64 (toI64 size - ((s.pos - ds : Nat) : Int))) with ⟨r1, s1⟩
        rw [hdec] at hI
        simp only [] at hI ⊢
        obtain ⟨st, iv⟩ := hI
        cases r1 with
        | error er =>
          simp only []
          split
          · exact ⟨st, by simp⟩
          · have st2 := readBytes_sticky (wrapI64 (toI64 size - ((s.pos - ds : Nat) : Int))) (setPos s s1)
            have inv2 := readBytes_inv (wrapI64 (toI64 size - ((s.pos - ds : Nat) : Int))) (setPos s s1)
            rcases hrb : readBytes (wrapI64 (toI64 size - ((s.pos - ds : Nat) : Int))) (setPos s s1) with ⟨unk, s2⟩
            rw [hrb] at st2 inv2
            simp only [] at st2 inv2 ⊢
            refine ⟨fun h => st2 (by simpa [setPos] using st h), ?_⟩
            intro E hE he hb ht hds
            obtain ⟨c, hl, _⟩ := inv2 _ _ rfl he
            have c' : Cons s s2 unk := setPos_cons c
            refine ⟨[], unk, ?_, by simpa [encodeDescs] using c', ?_⟩
            · have : E = { e with others := acc, unk := unk } := by simpa using hE.symm
              rw [this, List.append_nil]
            · have hp := c'.2
              have hr' := c'.1
              have hlen : unk.length ≤ s.rest.length := by rw [hr']; simp
              rw [wrapI64_eq] at hl
              omega
        | ok d1 =>
          simp only []
          obtain ⟨ist, iinv⟩ := ih s1 (acc ++ [d1])
          refine ⟨fun h => ist (st h), ?_⟩
          intro E hE he hb ht hds
          have he1 : s1.err = none := err_none_of_sticky ist he
          have c1 := iv d1 rfl he1 hb ht
          have hb1 := (c1.isBytes hb).2
          have ht1 := c1.total
          obtain ⟨rem, u, e1, c2, e3⟩ := iinv E hE he hb1 (by omega) (by have := c1.2; omega)
          refine ⟨d1 :: rem, u, by rw [e1, List.append_assoc]; rfl, ?_, e3⟩
          have := c1.trans c2
          simpa [encodeDescs, List.append_assoc] using this

theorem optBE2_inv (c : Bool) (s : Rd) :
    (s.err ≠ none → (if c = true then readBE 2 s else (0, s)).2.err ≠ none)
    ∧ ((if c = true then readBE 2 s else (0, s)).2.err = none → IsBytes s.rest →
        Cons s (if c = true then readBE 2 s else (0, s)).2
          (if c = true then beBytes 2 (if c = true then readBE 2 s else (0, s)).1 else [])) := by
  cases c with
  | false => exact ⟨fun h => h, fun _ _ => by simpa using Cons.refl s⟩
  | true =>
    simp only [↓reduceIte]
    refine ⟨readBE_sticky 2 s, fun he hb => ?_⟩
    exact (readBE_inv 2 s _ _ rfl he hb).1

theorem readESOpt_inv (fl : Nat) (s : Rd) :
    (s.err ≠ none → (readESOpt fl s).2.2.2.err ≠ none)
    ∧ ((readESOpt fl s).2.2.2.err = none → IsBytes s.rest →
        Cons s (readESOpt fl s).2.2.2
          ((if flagDep fl then beBytes 2 (readESOpt fl s).1 else [])
            ++ ((if flagUrl fl then beBytes 1 (readESOpt fl s).2.1.length ++ (readESOpt fl s).2.1 else [])
            ++ (if flagOcr fl then beBytes 2 (readESOpt fl s).2.2.1 else [])))) := by
  unfold readESOpt
  obtain ⟨t1, i1⟩ := optBE2_inv (flagDep fl) s
  rcases hx1 : (if flagDep fl = true then readBE 2 s else (0, s)) with ⟨dep, s1⟩
  rw [hx1] at t1 i1
  simp only [] at t1 i1 ⊢
  -- url
  have hurl : (s1.err ≠ none →
        (if flagUrl fl = true then readN (readBE 1 s1).1 (readBE 1 s1).2 else (([] : Bytes), s1)).2.err ≠ none)
      ∧ ((if flagUrl fl = true then readN (readBE 1 s1).1 (readBE 1 s1).2 else (([] : Bytes), s1)).2.err = none →
          IsBytes s1.rest →
          Cons s1 (if flagUrl fl = true then readN (readBE 1 s1).1 (readBE 1 s1).2 else (([] : Bytes), s1)).2
            (if flagUrl fl = true then
              beBytes 1 (if flagUrl fl = true then readN (readBE 1 s1).1 (readBE 1 s1).2 else (([] : Bytes), s1)).1.length
              ++ (if flagUrl fl = true then readN (readBE 1 s1).1 (readBE 1 s1).2 else (([] : Bytes), s1)).1
             else [])) := by
    cases flagUrl fl with
    | false => exact ⟨fun h => h, fun _ _ => by simpa using Cons.refl s1⟩
    | true =>
      simp only [↓reduceIte]
      refine ⟨fun h => readN_sticky _ _ (readBE_sticky 1 s1 h), ?_⟩
      have iq := readBE_inv 1 s1
      rcases hq : readBE 1 s1 with ⟨l, s6⟩
      rw [hq] at iq
      have inn := readN_inv l s6
      rcases hn : readN l s6 with ⟨u, s7⟩
      rw [hn] at inn
      simp only [] at iq inn ⊢
      intro he hb
      obtain ⟨c2, hl, e2⟩ := inn _ _ rfl he
      obtain ⟨c1, _, _⟩ := iq _ _ rfl e2 hb
      rw [hl]
      exact c1.trans c2
  obtain ⟨t2, i2⟩ := hurl
  rcases hx2 : (if flagUrl fl = true then readN (readBE 1 s1).1 (readBE 1 s1).2 else (([] : Bytes), s1)) with ⟨url, s2⟩
  rw [hx2] at t2 i2
  simp only [] at t2 i2 ⊢
  obtain ⟨t3, i3⟩ := optBE2_inv (flagOcr fl) s2
  rcases hx3 : (if flagOcr fl = true then readBE 2 s2 else (0, s2)) with ⟨ocr, s3⟩
  rw [hx3] at t3 i3
  simp only [] at t3 i3 ⊢
  refine ⟨fun h => t3 (t2 (t1 h)), fun he hb => ?_⟩
  have e2 := err_none_of_sticky t3 he
  have e1 := err_none_of_sticky t2 e2
  have c1 := i1 e1 hb
  have b1 := (c1.isBytes hb).2
  have c2 := i2 e2 b1
  have b2 := (c2.isBytes b1).2
  have c3 := i3 he b2
  exact c1.trans (c2.trans c3)

/-- what the second half of `DecodeESDescriptor` guarantees for a result `E` reached in reader `s'` -/
def BodyOK (sfs size ds esId fl dep : Nat) (url : Bytes) (ocr : Nat) (s s' : Rd) (E : ES) : Prop :=
  E.sfs = sfs ∧ E.esId = esId ∧ E.flags = fl ∧ E.dependsOn = dep ∧ E.url = url ∧ E.ocr = ocr
  ∧ Cons s s' (encodeDesc (.dc E.dc E.dcOthers) ++ (encodeSl E.sl ++ (encodeDescs E.others ++ E.unk)))
  ∧ toI64 size = ((s'.pos - ds : Nat) : Int)

theorem decodeESBody_inv (dec : Rd → Int → Res Desc) (hi : Inv dec) (n sfs size ds esId fl dep : Nat) (url : Bytes)
    (ocr : Nat) (s : Rd) :
    (s.err ≠ none → (decodeESBody dec n sfs size ds esId fl dep url ocr s).2.err ≠ none)
    ∧ (∀ E, (decodeESBody dec n sfs size ds esId fl dep url ocr s).1 = .ok E →
        (decodeESBody dec n sfs size ds esId fl dep url ocr s).2.err = none → IsBytes s.rest →
        s.pos + s.rest.length < 2 ^ 63 → ds ≤ s.pos →
        BodyOK sfs size ds esId fl dep url ocr s (decodeESBody dec n sfs size ds esId fl dep url ocr s).2 E) := by
  unfold decodeESBody
  have hr := toI64_range size
  simp only []
  have hI := hi s (wrapI64 (toI64 size - ((s.pos - ds : Nat) : Int)))
  rcases hdec : dec s (wrapI64 (toI64 size - ((s.pos - ds : Nat) : Int))) with ⟨r1, s1⟩
  rw [hdec] at hI
  simp only [] at hI ⊢
  obtain ⟨st1, iv1⟩ := hI
  cases r1 with
  | error e => exact ⟨st1, by simp⟩
  | ok d =>
    cases d with
    | dsi f x => exact ⟨st1, by simp⟩
    | sl f c m => exact ⟨st1, by simp⟩
    | raw tg f x => exact ⟨st1, by simp⟩
    | dc h o =>
      simp only []
      have hI2 := hi s1 (wrapI64 (toI64 size - ((s1.pos - ds : Nat) : Int)))
      rcases hdec2 : dec s1 (wrapI64 (toI64 size - ((s1.pos - ds : Nat) : Int))) with ⟨r2, s2⟩
      rw [hdec2] at hI2
      simp only [] at hI2 ⊢
      obtain ⟨st2, iv2⟩ := hI2
      cases r2 with
      | error er =>
        simp only []
        split
        · exact ⟨fun h => st2 (st1 h), by simp⟩
        · have st3 := readBytes_sticky (wrapI64 (toI64 size - ((s1.pos - ds : Nat) : Int))) (setPos s1 s2)
          have inv3 := readBytes_inv (wrapI64 (toI64 size - ((s1.pos - ds : Nat) : Int))) (setPos s1 s2)
          rcases hrb : readBytes (wrapI64 (toI64 size - ((s1.pos - ds : Nat) : Int))) (setPos s1 s2) with ⟨unk, s3⟩
          rw [hrb] at st3 inv3
          simp only [] at st3 inv3 ⊢
          refine ⟨fun h => st3 (by simpa [setPos] using st2 (st1 h)), ?_⟩
          intro E hE he hb ht hds
          obtain ⟨c, hl, e2⟩ := inv3 _ _ rfl he
          have e2' : s2.err = none := by simpa [setPos] using e2
          have e1 := err_none_of_sticky st2 e2'
          have c13 : Cons s1 s3 unk := setPos_cons c
          have c01 := iv1 _ rfl e1 hb ht
          have hE' : E = ⟨sfs, esId, fl, dep, url, ocr, h, o, none, [], unk⟩ := by simpa using hE.symm
          subst hE'
          refine ⟨rfl, rfl, rfl, rfl, rfl, rfl, ?_, ?_⟩
          · simpa [encodeSl, encodeDescs] using c01.trans c13
          · have hp := c13.2
            have hr' := c13.1
            have ht1 := c01.total
            have hp1 := c01.2
            have hlen : unk.length ≤ s1.rest.length := by rw [hr']; simp
            rw [wrapI64_eq] at hl
            omega
      | ok d2 =>
        cases d2 with
        | sl f c m =>
          simp only []
          obtain ⟨lst, linv⟩ := esLoop_inv dec hi size ds
            ⟨sfs, esId, fl, dep, url, ocr, h, o, some (f, c, m), [], []⟩ rfl n s2 []
          refine ⟨fun h => lst (st2 (st1 h)), ?_⟩
          intro E hE he hb ht hds
          have e2 := err_none_of_sticky lst he
          have e1 := err_none_of_sticky st2 e2
          have c01 := iv1 _ rfl e1 hb ht
          have b1 := (c01.isBytes hb).2
          have c12 := iv2 _ rfl e2 b1 (by have := c01.total; omega)
          have b2 := (c12.isBytes b1).2
          obtain ⟨rem, u, e1', c23, e3⟩ := linv E hE he b2 (by have := c01.total; have := c12.total; omega)
            (by have := c01.2; have := c12.2; omega)
          subst e1'
          refine ⟨rfl, rfl, rfl, rfl, rfl, rfl, ?_, e3⟩
          simpa [encodeSl, List.append_assoc] using c01.trans (c12.trans c23)
        | dc hh oo =>
          simp only []
          obtain ⟨lst, linv⟩ := esLoop_inv dec hi size ds
            ⟨sfs, esId, fl, dep, url, ocr, h, o, none, [], []⟩ rfl n s2 [.dc hh oo]
          refine ⟨fun h => lst (st2 (st1 h)), ?_⟩
          intro E hE he hb ht hds
          have e2 := err_none_of_sticky lst he
          have e1 := err_none_of_sticky st2 e2
          have c01 := iv1 _ rfl e1 hb ht
          have b1 := (c01.isBytes hb).2
          have c12 := iv2 _ rfl e2 b1 (by have := c01.total; omega)
          have b2 := (c12.isBytes b1).2
          obtain ⟨rem, u, e1', c23, e3⟩ := linv E hE he b2 (by have := c01.total; have := c12.total; omega)
            (by have := c01.2; have := c12.2; omega)
          subst e1'
          refine ⟨rfl, rfl, rfl, rfl, rfl, rfl, ?_, e3⟩
          simpa [encodeSl, encodeDescs, List.append_assoc] using c01.trans (c12.trans c23)
        | dsi ff xx =>
          simp only []
          obtain ⟨lst, linv⟩ := esLoop_inv dec hi size ds
            ⟨sfs, esId, fl, dep, url, ocr, h, o, none, [], []⟩ rfl n s2 [.dsi ff xx]
          refine ⟨fun h => lst (st2 (st1 h)), ?_⟩
          intro E hE he hb ht hds
          have e2 := err_none_of_sticky lst he
          have e1 := err_none_of_sticky st2 e2
          have c01 := iv1 _ rfl e1 hb ht
          have b1 := (c01.isBytes hb).2
          have c12 := iv2 _ rfl e2 b1 (by have := c01.total; omega)
          have b2 := (c12.isBytes b1).2
          obtain ⟨rem, u, e1', c23, e3⟩ := linv E hE he b2 (by have := c01.total; have := c12.total; omega)
            (by have := c01.2; have := c12.2; omega)
          subst e1'
          refine ⟨rfl, rfl, rfl, rfl, rfl, rfl, ?_, e3⟩
          simpa [encodeSl, encodeDescs, List.append_assoc] using c01.trans (c12.trans c23)
        | raw tt ff xx =>
          simp only []
          obtain ⟨lst, linv⟩ := esLoop_inv dec hi size ds
            ⟨sfs, esId, fl, dep, url, ocr, h, o, none, [], []⟩ rfl n s2 [.raw tt ff xx]
          refine ⟨fun h => lst (st2 (st1 h)), ?_⟩
          intro E hE he hb ht hds
          have e2 := err_none_of_sticky lst he
          have e1 := err_none_of_sticky st2 e2
          have c01 := iv1 _ rfl e1 hb ht
          have b1 := (c01.isBytes hb).2
          have c12 := iv2 _ rfl e2 b1 (by have := c01.total; omega)
          have b2 := (c12.isBytes b1).2
          obtain ⟨rem, u, e1', c23, e3⟩ := linv E hE he b2 (by have := c01.total; have := c12.total; omega)
            (by have := c01.2; have := c12.2; omega)
          subst e1'
          refine ⟨rfl, rfl, rfl, rfl, rfl, rfl, ?_, e3⟩
          simpa [encodeSl, encodeDescs, List.append_assoc] using c01.trans (c12.trans c23)

theorem decodeES_inv (dec : Rd → Int → Res Desc) (hi : Inv dec) (n dsz : Nat) (s : Rd) (E : ES) (s' : Rd)
    (h : decodeES dec n dsz s = (.ok E, s')) (he : s'.err = none) (hb : IsBytes s.rest)
    (ht : s.pos + s.rest.length < 2 ^ 63) : Cons s s' (encodeES E) ∧ s.err = none := by
  unfold decodeES at h
  have i1 := readBE_inv 1 s
  have t1 := readBE_sticky 1 s
  rcases hr1 : readBE 1 s with ⟨tag, s1⟩
  rw [hr1] at i1 t1 h
  simp only [] at i1 t1 h
  split at h
  · simp at h
  · rename_i htag
    have htag' : tag = 3 := by simpa using htag
    subst htag'
    have st := readSizeSize_sticky maxInt s1
    have inv := readSizeSize_inv maxInt s1
    rcases hrs : readSizeSize maxInt s1 with ⟨sfs, size, s2, ex⟩
    rw [hrs] at st inv h
    simp only [] at st inv h
    cases ex with
    | some e => simp at h
    | none =>
      simp only [] at h
      split at h
      · simp at h
      · rename_i herr
        have e2 : s2.err = none := by simpa using herr
        have e1 := err_none_of_sticky st e2
        have e0 := err_none_of_sticky t1 e1
        split at h
        · simp at h
        have i3 := readBE_inv 2 s2
        have t3 := readBE_sticky 2 s2
        rcases hr3 : readBE 2 s2 with ⟨esId, s3⟩
        rw [hr3] at i3 t3 h
        have i4 := readBE_inv 1 s3
        have t4 := readBE_sticky 1 s3
        rcases hr4 : readBE 1 s3 with ⟨fl, s4⟩
        rw [hr4] at i4 t4 h
        simp only [] at i3 t3 i4 t4 h
        obtain ⟨t5, i5⟩ := readESOpt_inv fl s4
        rcases hr5 : readESOpt fl s4 with ⟨dep, url, ocr, s5⟩
        rw [hr5] at t5 i5 h
        simp only [] at t5 i5 h
        obtain ⟨bst, binv⟩ := decodeESBody_inv dec hi n sfs size s2.pos esId fl dep url ocr s5
        rw [h] at bst binv
        simp only [] at bst binv
        have e5 := err_none_of_sticky bst he
        have e4 := err_none_of_sticky t5 e5
        have e3 := err_none_of_sticky t4 e4
        obtain ⟨c01, _, _⟩ := i1 _ _ rfl e1 hb
        have b1 := (c01.isBytes hb).2
        obtain ⟨c12, hs64, hf⟩ := inv _ _ _ rfl e1 e2 b1
        have b2 := (c12.isBytes b1).2
        obtain ⟨c23, _, _⟩ := i3 _ _ rfl e3 b2
        have b3 := (c23.isBytes b2).2
        obtain ⟨c34, _, _⟩ := i4 _ _ rfl e4 b3
        have b4 := (c34.isBytes b3).2
        have c45 := i5 e5 b4
        have b5 := (c45.isBytes b4).2
        have tot5 : s5.pos + s5.rest.length = s.pos + s.rest.length := by
          have := c01.total; have := c12.total; have := c23.total; have := c34.total; have := c45.total; omega
        have hds : s2.pos ≤ s5.pos := by have := c23.2; have := c34.2; have := c45.2; omega
        obtain ⟨q1, q2, q3, q4, q5, q6, c5', hsz⟩ := binv E rfl he b5 (by omega) hds
        obtain ⟨sfs', esId', fl', dep', url', ocr', dc, dcO, sl, others, unk⟩ := E
        simp only [] at q1 q2 q3 q4 q5 q6 c5' hsz
        subst q1 q2 q3 q4 q5 q6
        have call := c01.trans (c12.trans (c23.trans (c34.trans (c45.trans c5'))))
        -- the size field
        have hpos : s'.pos = s2.pos + (2 + (1 + ((if flagDep fl' = true then beBytes 2 dep' else []) ++
            ((if flagUrl fl' = true then beBytes 1 url'.length ++ url' else []) ++
              if flagOcr fl' = true then beBytes 2 ocr' else [])).length
            + (encodeDesc (Desc.dc dc dcO) ++ (encodeSl sl ++ (encodeDescs others ++ unk))).length)) := by
          have := c23.2; have := c34.2; have := c45.2; have := c5'.2
          simp only [beBytes_length] at *
          omega
        have hsize : (ES.mk sfs' esId' fl' dep' url' ocr' dc dcO sl others unk).size = size := by
          unfold toI64 at hsz; rw [wrapI64_eq] at hsz
          simp only [ES.size]
          simp only [List.length_append, encodeDesc_length, encodeSl_length, encodeDescs_length] at hpos
          have hA : (if flagDep fl' = true then beBytes 2 dep' else []).length = if flagDep fl' = true then 2 else 0 := by
            split <;> simp [beBytes_length]
          have hB : (if flagUrl fl' = true then beBytes 1 url'.length ++ url' else []).length
              = if flagUrl fl' = true then 1 + url'.length else 0 := by
            split <;> simp [beBytes_length]
          have hC : (if flagOcr fl' = true then beBytes 2 ocr' else []).length = if flagOcr fl' = true then 2 else 0 := by
            split <;> simp [beBytes_length]
          rw [hA, hB, hC] at hpos
          omega
        refine ⟨?_, e0⟩
        simp only [encodeES, hsize]
        simpa [beBytes1, List.append_assoc] using call

/-- **encode ∘ decode**: every payload the decoder accepts starts with the re-encoding of the decoded box; what
    follows (`t`) is exactly what the Go encoder drops — bytes after the ES descriptor.  No other normalisation. -/
theorem encodeEsds_decodeEsds (bs : Bytes) (hb : IsBytes bs) (hl : bs.length < 2 ^ 63) (e : Esds)
    (h : decodeEsds bs = .ok e) : ∃ t, bs = encodeEsds e ++ t := by
  unfold decodeEsds decodeEsdsFuel at h
  have i1 := readBE_inv 4 ⟨bs, 0, none⟩
  rcases hr1 : readBE 4 ⟨bs, 0, none⟩ with ⟨vf, s⟩
  rw [hr1] at i1 h
  simp only [] at i1 h
  generalize (if bs.length ≥ 4 then (bs.length - 4) % 2 ^ 32 else 0) = dsz at h
  rcases hd : decodeES (decodeDescriptor (bs.length + 1)) (bs.length + 1) dsz s with ⟨r, s'⟩
  rw [hd] at h
  cases r with
  | error er => simp at h
  | ok es =>
    simp only [] at h
    split at h
    · simp at h
    · rename_i herr
      have he : s'.err = none := by simpa using herr
      have he' : e = ⟨vf / 2 ^ 24, vf % 2 ^ 24, es⟩ := by simpa using h.symm
      subst he'
      have hlen := readBE_le 4 ⟨bs, 0, none⟩
      rw [hr1] at hlen
      simp only [] at hlen
      -- the reader after version/flags: error-free, bytes, bounded
      by_cases e0 : s.err = none
      · obtain ⟨c0, hvf, _⟩ := i1 _ _ rfl e0 hb
        have b1 := (c0.isBytes hb).2
        have ht : s.pos + s.rest.length < 2 ^ 63 := by have := c0.total; simp at this; omega
        obtain ⟨c1, _⟩ := decodeES_inv _ (inv_all _) _ _ s es s' hd he b1 ht
        refine ⟨s'.rest, ?_⟩
        have hv : (vf / 2 ^ 24 % 256) * 2 ^ 24 + vf % 2 ^ 24 = vf := by omega
        have := (c0.trans c1).1
        simp only [encodeEsds, hv]
        simpa [List.append_assoc] using this
      · -- a failed read leaves `s` with an error and the same rest; then decodeES cannot end error-free
        exfalso
        have ht : s.pos + s.rest.length < 2 ^ 63 := by
          unfold readBE readN at hr1
          by_cases h1 : bs.length < 4
          · simp [h1] at hr1; rw [← hr1.2]; simp; omega
          · simp [h1] at hr1; rw [← hr1.2] at e0; simp at e0
        have hbs : IsBytes s.rest := by
          unfold readBE readN at hr1
          by_cases h1 : bs.length < 4
          · simp [h1] at hr1; rw [← hr1.2]; exact hb
          · simp [h1] at hr1; rw [← hr1.2] at e0; simp at e0
        exact e0 (decodeES_inv _ (inv_all _) _ _ s es s' hd he hbs ht).2

end Mp4ff.Esds
