import Mp4ff.Model.Mdat
namespace Mp4ff.Mdat
open Mp4ff.Stbl

theorem readAt_length (F : Bytes) (off len : Nat) (h : off + len ≤ F.length) :
    (readAt F off len).length = len := by
  simp [readAt]; omega

theorem readAt_zero (F : Bytes) (off : Nat) : readAt F off 0 = [] := by
  simp [readAt]

theorem readAt_split (F : Bytes) (pos a b : Nat) :
    readAt F pos (a + b) = readAt F pos a ++ readAt F (pos + a) b := by
  simp only [readAt]
  rw [List.take_add, List.drop_drop]

theorem readAt_append_right (A B : Bytes) (off len : Nat) (h : A.length ≤ off) :
    readAt (A ++ B) off len = readAt B (off - A.length) len := by
  simp only [readAt]
  rw [List.drop_append, List.drop_of_length_le h, List.nil_append]

theorem readAt_append_left (A B : Bytes) (off len : Nat) (h : off + len ≤ A.length) :
    readAt (A ++ B) off len = readAt A off len := by
  simp only [readAt]
  rw [List.drop_append_of_le_length (by omega), List.take_append_of_le_length (by simp; omega)]

theorem readAt_full (A : Bytes) : readAt A 0 A.length = A := by
  simp [readAt]

theorem fillLoop_ok (F : Bytes) (workLen : Nat) (hw : 0 < workLen) :
    ∀ fuel nrLeft pos work out, pos + nrLeft ≤ F.length → work.length ≤ workLen →
      2 * nrLeft + (if work.length = workLen then 1 else 0) < fuel →
      ∃ work' out', fillLoop F workLen fuel nrLeft pos work out = some (work', out') ∧
        out' ++ work' = out ++ work ++ readAt F pos nrLeft ∧ work'.length ≤ workLen := by
  intro fuel
  induction fuel with
  | zero => intro nrLeft pos work out _ _ h; omega
  | succ fuel ih =>
    intro nrLeft pos work out hp hwl hf
    have hreq : min workLen (work.length + nrLeft) - work.length ≤ nrLeft := by omega
    generalize hr : min workLen (work.length + nrLeft) - work.length = req at hreq
    have hgl : (readAt F pos req).length = req := readAt_length F pos req (by omega)
    unfold fillLoop
    simp only [hr, hgl]
    have hsplit : readAt F pos nrLeft = readAt F pos req ++ readAt F (pos + req) (nrLeft - req) := by
      rw [← readAt_split]; congr 1; omega
    split
    · omega
    · split
      · refine ⟨_, _, rfl, ?_, ?_⟩
        · have : req = nrLeft := by omega
          subst this; simp
        · simp [hgl]; omega
      · split
        · rename_i h1 h2 h3
          simp only [List.length_append, hgl] at h3
          obtain ⟨w', o', he, hcat, hlen⟩ := ih (nrLeft - req) (pos + req) [] (out ++ (work ++ readAt F pos req))
            (by omega) (by simp) (by
              simp only [List.length_nil]
              split at hf <;> split <;> omega)
          refine ⟨w', o', he, ?_, hlen⟩
          rw [hcat, hsplit]; simp
        · rename_i h1 h2 h3
          simp only [List.length_append, hgl] at h3
          omega

theorem go_lazy (m : MdatBox) (F : Bytes) (workLen : Nat) (hm : m.lazyDataSize > 0) :
    ∀ (rs : List (Nat × Nat)) (work out : Bytes), (∀ r ∈ rs, r.1 + r.2 ≤ F.length) → work.length ≤ workLen →
      ∃ w' o', copyRanges.go m F workLen rs work out = some (w', o') ∧
        o' ++ w' = out ++ work ++ rs.flatMap (fun r => readAt F r.1 r.2) ∧ w'.length ≤ workLen := by
  intro rs
  induction rs with
  | nil => intro work out _ hw; exact ⟨work, out, rfl, by simp, hw⟩
  | cons r rest ih =>
    intro work out hr hw
    obtain ⟨off, size⟩ := r
    have h0 := hr (off, size) (by simp)
    simp only at h0
    have hrest : ∀ r ∈ rest, r.1 + r.2 ≤ F.length := fun r hx => hr r (by simp [hx])
    unfold copyRanges.go
    rw [if_pos hm, if_neg (by omega)]
    by_cases hz : workLen = 0
    · rw [if_pos hz, if_pos h0]
      have hwn : work = [] := by
        apply List.eq_nil_of_length_eq_zero; omega
      obtain ⟨w', o', he, hcat, hl⟩ := ih work (out ++ readAt F off size) hrest hw
      refine ⟨w', o', he, ?_, hl⟩
      rw [hcat, hwn]; simp
    · rw [if_neg hz]
      obtain ⟨w1, o1, he1, hcat1, hl1⟩ := fillLoop_ok F workLen (by omega) (2 * size + 2) size off work out h0 hw
        (by split <;> omega)
      rw [he1]
      simp only
      obtain ⟨w', o', he, hcat, hl⟩ := ih w1 o1 hrest hl1
      refine ⟨w', o', he, ?_, hl⟩
      rw [hcat, hcat1]; simp

theorem go_eager (m : MdatBox) (F : Bytes) (workLen : Nat) (hm : m.lazyDataSize = 0) :
    ∀ (rs : List (Nat × Nat)) (work out : Bytes),
      (∀ r ∈ rs, m.payloadStart ≤ r.1 ∧ r.1 - m.payloadStart + r.2 ≤ m.data.length) →
      copyRanges.go m F workLen rs work out =
        some (work, out ++ rs.flatMap (fun r => readAt m.data (r.1 - m.payloadStart) r.2)) := by
  intro rs
  induction rs with
  | nil => intro work out _; simp [copyRanges.go]
  | cons r rest ih =>
    intro work out hr
    obtain ⟨off, size⟩ := r
    have h0 := hr (off, size) (by simp)
    simp only at h0
    have hrest : ∀ r ∈ rest, m.payloadStart ≤ r.1 ∧ r.1 - m.payloadStart + r.2 ≤ m.data.length :=
      fun r hx => hr r (by simp [hx])
    unfold copyRanges.go
    rw [if_neg (by omega), if_neg (by omega)]
    simp only
    rw [if_pos h0.2, ih _ _ hrest]
    simp

theorem flatMap_congr' {α β : Type} (l : List α) (f g : α → List β) (h : ∀ a ∈ l, f a = g a) :
    l.flatMap f = l.flatMap g := by
  induction l with
  | nil => rfl
  | cons a t ih =>
    simp only [List.flatMap_cons]
    rw [h a (by simp), ih (fun x hx => h x (by simp [hx]))]
end Mp4ff.Mdat
