import Mp4ff.Model.Crop
import Mp4ff.Lemmas.C09A
import Mp4ff.Lemmas.C09B
import Mp4ff.Lemmas.C10A
import Mp4ff.Lemmas.C10B
import Mp4ff.Lemmas.C10C
/-!
Proofs for C10 (cropping a progressive file yields exactly a prefix of every track); restated in Props/C10.lean.
-/
namespace Mp4ff.Crop
open Mp4ff.Stbl

/-- per-entry sample counts of a ctts box from its cumulative ends -/
def diffs : List Nat → List Nat
  | a :: b :: rest => (b - a) :: diffs (b :: rest)
  | _ => []

/-- one composition offset per sample -/
def Ctts.expand (c : Ctts) : List Int := expandRuns (diffs c.endSampleNr) c.offset

theorem diffs_psums (cs : List Nat) : ∀ s, diffs (s :: psums s cs) = cs := by
  induction cs with
  | nil => intro s; rfl
  | cons c cs ih =>
    intro s
    simp only [psums, diffs, ih]
    congr 1; omega

theorem diffs_set_take (cs : List Nat) : ∀ (s j last : Nat), j < cs.length →
    diffs (((s :: psums s cs).set (j + 1) last).take (j + 2)) =
      (cs.set j (last - (s + (cs.take j).sum))).take (j + 1) := by
  induction cs with
  | nil => intro s j last h; simp at h
  | cons c cs ih =>
    intro s j last h
    cases j with
    | zero => simp [psums, diffs]
    | succ j =>
      have hd : ∀ a b rest, diffs (a :: b :: rest) = (b - a) :: diffs (b :: rest) := fun _ _ _ => rfl
      have := ih (s + c) j last (by simpa using h)
      simp only [psums, List.set_cons_succ, List.take_succ_cons, List.sum_cons] at this ⊢
      rw [hd, this, Nat.add_sub_cancel_left, Nat.add_assoc]

/-- **stts**: the cropped table expands to exactly the first `last` durations -/
theorem cropStts_spec (b : Stts) (hl : b.count.length = b.delta.length) (hs : b.count.sum < U32)
    (last : Nat) (hlast : last ≤ b.count.sum) :
    ∃ b', cropStts b last = some b' ∧ b'.durations = b.durations.take last ∧ b'.count.length = b'.delta.length := by
  exact cropStts_spec' b hl hs last hlast

/-- **stss**: exactly the sync samples among the first `last` samples remain, in order -/
theorem cropStss_spec (nums : List Nat) (h : nums.Pairwise (· < ·)) (last : Nat) :
    cropStss nums last = nums.filter (· ≤ last) ∧
    (cropStss nums last).Pairwise (· < ·) ∧ ∀ n, n ∈ cropStss nums last ↔ (n ∈ nums ∧ n ≤ last) := by
  have e : cropStss nums last = nums.filter (· ≤ last) := takeWhile_eq_filter_of_sorted nums h last
  refine ⟨e, ?_, ?_⟩
  · rw [e]; exact h.filter _
  · intro n; rw [e, List.mem_filter]; simp

/-- **ctts**: the cropped table expands to exactly the first `last` composition offsets -/
theorem cropCtts_spec (counts : List Nat) (offs : List Int) (hl : counts.length = offs.length)
    (hs : counts.sum < U32) (last : Nat) (hlast : last ≤ counts.sum) :
    ∃ c', cropCtts (Ctts.ofCounts counts offs) last = some c' ∧
      Ctts.expand c' = (expandRuns counts offs).take last := by
  rcases cropCtts_eval counts offs hl hs last hlast with ⟨rfl, h0⟩ | ⟨j, j1, j2, j3, j4⟩
  · exact ⟨_, h0, by simp [Ctts.expand, diffs, expandRuns]⟩
  · refine ⟨_, j4, ?_⟩
    unfold Ctts.expand
    simp only []
    rw [diffs_set_take counts 0 j last j1, Nat.zero_add]
    exact expandRuns_prefix counts offs j last hl j1 (by omega) j3

/-- the uncropped table expands to all composition offsets (sanity of `Ctts.expand`) -/
theorem ctts_expand_ofCounts (counts : List Nat) (offs : List Int) (hl : counts.length = offs.length)
    (hs : counts.sum < U32) : Ctts.expand (Ctts.ofCounts counts offs) = expandRuns counts offs := by
  unfold Ctts.expand
  rw [ofCounts_ends counts offs hs, diffs_psums]
  rfl

/-- **stsz**: sizes of the first `last` samples are unchanged, the count is `last` -/
theorem cropStsz_spec (b : Stsz) (h : b.OK) (last : Nat) (hlast : last ≤ b.sampleNumber) :
    ∃ b', cropStsz b last = some b' ∧ b'.sampleNumber = last ∧ ∀ n, 1 ≤ n → n ≤ last → b'.sizeOf n = b.sizeOf n := by
  obtain ⟨ha, hb, _⟩ := h
  unfold cropStsz
  by_cases hu : b.uniform = 0
  · have hlen := ha hu
    rw [if_pos hu, if_neg (by omega)]
    refine ⟨_, rfl, rfl, ?_⟩
    intro n h1 hn
    unfold Stsz.sizeOf
    simp only [hu]
    rw [if_neg (by simp), if_neg (by simp), List.getD_eq_getElem?_getD, List.getD_eq_getElem?_getD,
      List.getElem?_take, if_pos (by omega)]
  · rw [if_neg hu]
    refine ⟨_, rfl, rfl, ?_⟩
    intro n _ _
    rfl

/-- **the cut point of a track**: `k` = the number of samples that start before the end time -/
theorem trackEnd_spec (b : Stts) (h : b.OK) (hpos : ∀ d ∈ b.delta, 0 < d) (hc : ∀ c ∈ b.count, 0 < c)
    (hN : b.durations.length + 1 < U32) (ts te : Nat) (hts : 0 < ts) (hts32 : ts < U32) (hte : te < b.durations.sum) :
    ∃ k, trackEnd b ts te ts = some k ∧ k ≤ b.durations.length ∧
      (∀ j, 1 ≤ j → j ≤ k → startTime b.durations j < te) ∧ te ≤ startTime b.durations (k + 1) := by
  obtain ⟨k, g1, g2, g3, g4, g5⟩ := (getSampleNrAtTime_spec b h hpos hc hN te).1 hte
  refine ⟨k - 1, ?_, by omega, ?_, ?_⟩
  · unfold trackEnd
    rw [if_neg (by omega), Nat.mod_eq_of_lt hts32]
    have e : (k + U32 - 1) % U32 = k - 1 := by rw [U32_eq] at *; omega
    simp only [ne_eq, not_true_eq_false, if_false, g1, Option.bind_eq_bind, Option.bind_some, e]
  · intro j hj1 hj2; exact g5 j hj1 (by omega)
  · rw [show k - 1 + 1 = k by omega]; exact g4

/-- all pending chunks lie inside the file and below the 2^62 sentinel -/
def InFile (file : Bytes) (p : Pending) : Prop := ∀ t ∈ p, ∀ c ∈ t, c.off + c.size ≤ file.length ∧ c.off < 2 ^ 62

/-- **the new mdat holds exactly the kept chunks and every new chunk offset points at its chunk's bytes** -/
theorem place_spec (file : Bytes) (p : Pending) (h : InFile file p) (start : Nat) :
    let r := place p start
    (copied file r.2).length = ((p.flatten).map (·.size)).sum ∧
    r.1.length = p.length ∧
    ∀ i, i < p.length → (r.1.getD i []).length = (p.getD i []).length ∧
      ∀ j, j < (p.getD i []).length →
        let c := (p.getD i []).getD j ⟨0, 0⟩
        start ≤ (r.1.getD i []).getD j 0 ∧
        ((copied file r.2).drop ((r.1.getD i []).getD j 0 - start)).take c.size = (file.drop c.off).take c.size := by
  intro r
  have hlen : (p.map fun _ => ([] : List Nat)).length = p.length := by simp
  obtain ⟨ext, outs', e1, e2, e3, e4⟩ := layout_spec file ((p.map List.length).sum + 1) p start
    (p.map fun _ => []) [] h (by omega) hlen
  have hr : r = (outs', ext) := by
    show place p start = _
    unfold place; rw [e1]; rfl
  rw [hr]
  refine ⟨e2, e3, ?_⟩
  intro i hi
  obtain ⟨new, n1, n2, n3⟩ := e4 i hi
  have hnil : (p.map fun _ => ([] : List Nat)).getD i [] = [] := by
    simp [List.getD_eq_getElem?_getD, hi]
  rw [hnil, List.nil_append] at n1
  simp only [n1]
  refine ⟨n2, ?_⟩
  intro j hj
  exact n3 j (by omega)

/-- merging adjacent byte ranges does not change what is copied -/
theorem mergeRanges_copied (file : Bytes) (pieces : List KChunk) (h : ∀ c ∈ pieces, c.off + c.size ≤ file.length) :
    copied file (mergeRanges pieces) = copied file pieces := by
  exact mergeRanges_copied' file pieces


end Mp4ff.Crop
