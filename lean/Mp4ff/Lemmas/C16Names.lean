import Mp4ff.Lemmas.C16Inv
/-! static name analysis of a `BitSyn` syntax: which names a serialised trace can contain (C16, picture size) -/
namespace Mp4ff.BitSyn
open Mp4ff.Bits

mutual
/-- the element can produce an entry named `x` -/
def Syn.mentions (x : String) : Syn → Bool
  | .fld nm _ => nm == x
  | .flag nm => nm == x
  | .ue nm => nm == x
  | .se nm => nm == x
  | .cond _ body => mentionsL x body
  | .rep _ _ body => mentionsL x body
  | .seterr _ => false
  | .abort _ => false
def mentionsL (x : String) : List Syn → Bool
  | [] => false
  | s :: r => s.mentions x || mentionsL x r
end

mutual
/-- every entry named `x` the element can produce is a flag -/
def Syn.flagOnly (x : String) : Syn → Bool
  | .fld nm _ => nm != x
  | .flag _ => true
  | .ue nm => nm != x
  | .se nm => nm != x
  | .cond _ body => flagOnlyL x body
  | .rep _ _ body => flagOnlyL x body
  | .seterr _ => true
  | .abort _ => true
def flagOnlyL (x : String) : List Syn → Bool
  | [] => true
  | s :: r => s.flagOnly x && flagOnlyL x r
end

theorem ops_not_mention (x : String) (f : Nat) : ∀ (L : List Syn) (acc src : Trace) (os : List Op) (acc' src' : Trace),
    ops f L acc src = some (os, acc', src') → mentionsL x L = false →
    ∃ used, src = used ++ src' ∧ acc' = acc ++ used ∧ ∀ en ∈ used, en.1 ≠ x := by
  induction f with
  | zero => intro L acc src os acc' src' h; simp [ops] at h
  | succ f ih =>
    intro L acc src os acc' src' h hm
    match L with
    | [] => obtain ⟨_, rfl, rfl⟩ := ops_nil_inv h; exact ⟨[], by simp, by simp, by simp⟩
    | .fld nm k :: rest =>
      simp only [mentionsL, Syn.mentions, Bool.or_eq_false_iff, beq_eq_false_iff_ne] at hm
      obtain ⟨v, s0, o, rfl, _, hr, _⟩ := ops_fld_inv h
      obtain ⟨u, rfl, rfl, hu⟩ := ih _ _ _ _ _ _ hr hm.2
      refine ⟨(nm, v) :: u, by simp, by simp, ?_⟩
      intro en hen; simp at hen; rcases hen with rfl | hen
      · exact hm.1
      · exact hu en hen
    | .flag nm :: rest =>
      simp only [mentionsL, Syn.mentions, Bool.or_eq_false_iff, beq_eq_false_iff_ne] at hm
      obtain ⟨v, s0, o, rfl, _, hr, _⟩ := ops_flag_inv h
      obtain ⟨u, rfl, rfl, hu⟩ := ih _ _ _ _ _ _ hr hm.2
      refine ⟨(nm, v) :: u, by simp, by simp, ?_⟩
      intro en hen; simp at hen; rcases hen with rfl | hen
      · exact hm.1
      · exact hu en hen
    | .ue nm :: rest =>
      simp only [mentionsL, Syn.mentions, Bool.or_eq_false_iff, beq_eq_false_iff_ne] at hm
      obtain ⟨v, s0, o, rfl, _, hr, _⟩ := ops_ue_inv h
      obtain ⟨u, rfl, rfl, hu⟩ := ih _ _ _ _ _ _ hr hm.2
      refine ⟨(nm, v) :: u, by simp, by simp, ?_⟩
      intro en hen; simp at hen; rcases hen with rfl | hen
      · exact hm.1
      · exact hu en hen
    | .se nm :: rest =>
      simp only [mentionsL, Syn.mentions, Bool.or_eq_false_iff, beq_eq_false_iff_ne] at hm
      obtain ⟨v, s0, o, rfl, hr, _⟩ := ops_se_inv h
      obtain ⟨u, rfl, rfl, hu⟩ := ih _ _ _ _ _ _ hr hm.2
      refine ⟨(nm, v) :: u, by simp, by simp, ?_⟩
      intro en hen; simp at hen; rcases hen with rfl | hen
      · exact hm.1
      · exact hu en hen
    | .cond p body :: rest =>
      simp only [mentionsL, Syn.mentions, Bool.or_eq_false_iff] at hm
      rcases ops_cond_inv h with ⟨_, o1, a1, s1, o2, h1, h2, _⟩ | ⟨_, h2⟩
      · obtain ⟨u1, rfl, rfl, hu1⟩ := ih _ _ _ _ _ _ h1 hm.1
        obtain ⟨u2, rfl, rfl, hu2⟩ := ih _ _ _ _ _ _ h2 hm.2
        refine ⟨u1 ++ u2, by simp, by simp, ?_⟩
        intro en hen; simp at hen; rcases hen with hen | hen
        · exact hu1 en hen
        · exact hu2 en hen
      · exact ih _ _ _ _ _ _ h2 hm.2
    | .rep cap n body :: rest =>
      simp only [mentionsL, Syn.mentions, Bool.or_eq_false_iff] at hm
      rcases ops_rep_inv h with ⟨_, h2⟩ | ⟨k, o1, a1, s1, o2, _, h1, h2, _⟩
      · exact ih _ _ _ _ _ _ h2 hm.2
      · obtain ⟨u1, rfl, rfl, hu1⟩ := ih _ _ _ _ _ _ h1 hm.1
        obtain ⟨u2, rfl, rfl, hu2⟩ := ih _ _ _ _ _ _ h2
          (by simp only [mentionsL, Syn.mentions, Bool.or_eq_false_iff]; exact hm)
        refine ⟨u1 ++ u2, by simp, by simp, ?_⟩
        intro en hen; simp at hen; rcases hen with hen | hen
        · exact hu1 en hen
        · exact hu2 en hen
    | .seterr p :: rest =>
      simp only [mentionsL, Syn.mentions, Bool.false_or] at hm
      exact ih _ _ _ _ _ _ (ops_seterr_inv h).2 hm
    | .abort p :: rest =>
      simp only [mentionsL, Syn.mentions, Bool.false_or] at hm
      exact ih _ _ _ _ _ _ (ops_abort_inv h).2 hm

theorem ops_flagOnly (x : String) (f : Nat) : ∀ (L : List Syn) (acc src : Trace) (os : List Op) (acc' src' : Trace),
    ops f L acc src = some (os, acc', src') → flagOnlyL x L = true →
    ∃ used, src = used ++ src' ∧ acc' = acc ++ used ∧ ∀ en ∈ used, en.1 = x → en.2 = 0 ∨ en.2 = 1 := by
  induction f with
  | zero => intro L acc src os acc' src' h; simp [ops] at h
  | succ f ih =>
    intro L acc src os acc' src' h hm
    match L with
    | [] => obtain ⟨_, rfl, rfl⟩ := ops_nil_inv h; exact ⟨[], by simp, by simp, by simp⟩
    | .fld nm k :: rest =>
      simp only [flagOnlyL, Syn.flagOnly, Bool.and_eq_true, bne_iff_ne] at hm
      obtain ⟨v, s0, o, rfl, _, hr, _⟩ := ops_fld_inv h
      obtain ⟨u, rfl, rfl, hu⟩ := ih _ _ _ _ _ _ hr hm.2
      refine ⟨(nm, v) :: u, by simp, by simp, ?_⟩
      intro en hen; simp at hen; rcases hen with rfl | hen
      · intro hx; exact absurd hx hm.1
      · exact hu en hen
    | .flag nm :: rest =>
      simp only [flagOnlyL, Syn.flagOnly, Bool.and_eq_true, true_and] at hm
      obtain ⟨v, s0, o, rfl, hv, hr, _⟩ := ops_flag_inv h
      obtain ⟨u, rfl, rfl, hu⟩ := ih _ _ _ _ _ _ hr hm
      refine ⟨(nm, v) :: u, by simp, by simp, ?_⟩
      intro en hen; simp at hen; rcases hen with rfl | hen
      · intro _; exact hv
      · exact hu en hen
    | .ue nm :: rest =>
      simp only [flagOnlyL, Syn.flagOnly, Bool.and_eq_true, bne_iff_ne] at hm
      obtain ⟨v, s0, o, rfl, _, hr, _⟩ := ops_ue_inv h
      obtain ⟨u, rfl, rfl, hu⟩ := ih _ _ _ _ _ _ hr hm.2
      refine ⟨(nm, v) :: u, by simp, by simp, ?_⟩
      intro en hen; simp at hen; rcases hen with rfl | hen
      · intro hx; exact absurd hx hm.1
      · exact hu en hen
    | .se nm :: rest =>
      simp only [flagOnlyL, Syn.flagOnly, Bool.and_eq_true, bne_iff_ne] at hm
      obtain ⟨v, s0, o, rfl, hr, _⟩ := ops_se_inv h
      obtain ⟨u, rfl, rfl, hu⟩ := ih _ _ _ _ _ _ hr hm.2
      refine ⟨(nm, v) :: u, by simp, by simp, ?_⟩
      intro en hen; simp at hen; rcases hen with rfl | hen
      · intro hx; exact absurd hx hm.1
      · exact hu en hen
    | .cond p body :: rest =>
      simp only [flagOnlyL, Syn.flagOnly, Bool.and_eq_true] at hm
      rcases ops_cond_inv h with ⟨_, o1, a1, s1, o2, h1, h2, _⟩ | ⟨_, h2⟩
      · obtain ⟨u1, rfl, rfl, hu1⟩ := ih _ _ _ _ _ _ h1 hm.1
        obtain ⟨u2, rfl, rfl, hu2⟩ := ih _ _ _ _ _ _ h2 hm.2
        refine ⟨u1 ++ u2, by simp, by simp, ?_⟩
        intro en hen; simp at hen; rcases hen with hen | hen
        · exact hu1 en hen
        · exact hu2 en hen
      · exact ih _ _ _ _ _ _ h2 hm.2
    | .rep cap n body :: rest =>
      simp only [flagOnlyL, Syn.flagOnly, Bool.and_eq_true] at hm
      rcases ops_rep_inv h with ⟨_, h2⟩ | ⟨k, o1, a1, s1, o2, _, h1, h2, _⟩
      · exact ih _ _ _ _ _ _ h2 hm.2
      · obtain ⟨u1, rfl, rfl, hu1⟩ := ih _ _ _ _ _ _ h1 hm.1
        obtain ⟨u2, rfl, rfl, hu2⟩ := ih _ _ _ _ _ _ h2
          (by simp only [flagOnlyL, Syn.flagOnly, Bool.and_eq_true]; exact hm)
        refine ⟨u1 ++ u2, by simp, by simp, ?_⟩
        intro en hen; simp at hen; rcases hen with hen | hen
        · exact hu1 en hen
        · exact hu2 en hen
    | .seterr p :: rest =>
      simp only [flagOnlyL, Syn.flagOnly, Bool.true_and] at hm
      exact ih _ _ _ _ _ _ (ops_seterr_inv h).2 hm
    | .abort p :: rest =>
      simp only [flagOnlyL, Syn.flagOnly, Bool.true_and] at hm
      exact ih _ _ _ _ _ _ (ops_abort_inv h).2 hm

/-! `Trace.get` -/

theorem Trace.get_append_not_mem (acc u : Trace) (x : String) (hu : ∀ en ∈ u, en.1 ≠ x) :
    Trace.get (acc ++ u) x = Trace.get acc x := by
  unfold Trace.get
  rw [List.reverse_append, List.find?_append]
  have : u.reverse.find? (·.1 == x) = none := by
    rw [List.find?_eq_none]
    intro en hen
    simp at hen
    simpa using hu en hen
  rw [this]; rfl

theorem Trace.get_snoc_same (acc : Trace) (x : String) (v : Int) : Trace.get (acc ++ [(x, v)]) x = v := by
  simp [Trace.get]

theorem Trace.get_snoc_ne (acc : Trace) (x y : String) (v : Int) (h : y ≠ x) :
    Trace.get (acc ++ [(y, v)]) x = Trace.get acc x :=
  Trace.get_append_not_mem acc [(y, v)] x (by simpa using h)

theorem Trace.get_nil (x : String) : Trace.get [] x = 0 := rfl

theorem Trace.get_flag (t : Trace) (x : String) (h : ∀ en ∈ t, en.1 = x → en.2 = 0 ∨ en.2 = 1) :
    Trace.get t x = 0 ∨ Trace.get t x = 1 := by
  unfold Trace.get
  cases hf : t.reverse.find? (·.1 == x) with
  | none => left; rfl
  | some en =>
    have hm := List.mem_of_find?_eq_some hf
    have hp := List.find?_some hf
    simp at hm hp
    exact h en hm hp

end Mp4ff.BitSyn
