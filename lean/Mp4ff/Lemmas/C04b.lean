import Mp4ff.Lemmas.C04a
namespace Mp4ff.Walk

theorem decodeFile_bound (bs : Bytes) (f : Nat) : ∀ (pos : Nat) (ns : List Node), pos ≤ bs.length →
    decodeFile f bs pos = some ns → countAll ns * 8 ≤ bs.length - pos := by
  induction f with
  | zero => intro pos ns _ h; simp [decodeFile] at h
  | succ f ih =>
    intro pos ns hp h
    simp only [decodeFile] at h
    split at h
    · simp only [Option.some.injEq] at h
      subst h
      rw [countAll_nil]; omega
    · split at h
      · simp at h
      · rename_i n pos' hb
        have ⟨b1, b2, b3⟩ := (bound_both _).1 _ _ _ _ hb
        split at h
        · rename_i ns' hf
          simp only [Option.some.injEq] at h
          subst h
          have := ih _ _ b2 hf
          rw [countAll_cons]
          omega
        · simp at h

theorem mono_both (f : Nat) : ∀ g, f ≤ g →
    (∀ (bs : Bytes) (pos : Nat) (r : Node × Nat), decodeBox f bs pos = some r → decodeBox g bs pos = some r) ∧
    (∀ (bs : Bytes) (rpos left : Nat) (r : List Node × Nat),
      decodeChildren f bs rpos left = some r → decodeChildren g bs rpos left = some r) := by
  induction f with
  | zero => intro g _; constructor <;> intros <;> simp_all [decodeBox, decodeChildren]
  | succ f ih =>
    intro g hg
    cases g with
    | zero => omega
    | succ g =>
    obtain ⟨ihB, ihC⟩ := ih g (by omega)
    constructor
    · intro bs pos r h
      simp only [decodeBox] at h ⊢
      split at h
      · simp at h
      · rename_i ty size hl hh
        split at h
        · simp at h
        · rename_i hc1
          rw [if_neg hc1]
          split at h
          · rename_i hc2
            rw [if_pos hc2]
            split at h
            · rename_i kids p' hc
              rw [ihC _ _ _ _ hc]
              exact h
            · simp at h
          · rename_i hc2
            rw [if_neg hc2]
            exact h
    · intro bs rpos left r h
      simp only [decodeChildren] at h ⊢
      split at h
      · rename_i hl0
        rw [if_pos hl0]; exact h
      · rename_i hl0
        rw [if_neg hl0]
        split at h
        · simp at h
        · rename_i n rpos' hb
          rw [ihB _ _ _ hb]; simp only []
          split at h
          · simp at h
          · rename_i hc1
            rw [if_neg hc1]
            split at h
            · simp at h
            · rename_i hc2
              rw [if_neg hc2]
              split at h
              · rename_i ns' p' hc
                rw [ihC _ _ _ _ hc]
                exact h
              · simp at h

end Mp4ff.Walk
