import Mp4ff.Model.Mdat
import Mp4ff.Lemmas.MdatLemmas
/-!
C08: layout definitions and proofs (used by Props/C08.lean).
-/
namespace Mp4ff.Mdat
open Mp4ff.Stbl

/-- a file laid out as `pre ++ header(hl bytes) ++ P ++ post`, mdat box at `pre.length` -/
structure Layout where
  pre : Bytes
  hdr : Bytes
  P : Bytes
  post : Bytes

def Layout.F (l : Layout) : Bytes := l.pre ++ l.hdr ++ l.P ++ l.post
def Layout.ms (l : Layout) : Nat := l.pre.length
def Layout.hl (l : Layout) : Nat := l.hdr.length
def Layout.sz (l : Layout) : Nat := l.hdr.length + l.P.length
def Layout.lazy (l : Layout) : MdatBox := decodeLazy l.ms l.hl l.sz
def Layout.eager (l : Layout) : MdatBox := decodeEager l.F l.ms l.hl l.sz
def Layout.OK (l : Layout) : Prop := (l.hl = 8 ∨ l.hl = 16) ∧ 0 < l.P.length

/-- the in-memory decoder holds exactly the payload -/
theorem layout_readAt (l : Layout) (start size : Nat)
    (h1 : l.ms + l.hl ≤ start) (h2 : start + size ≤ l.ms + l.sz) :
    readAt l.F start size = readAt l.P (start - (l.ms + l.hl)) size := by
  simp only [Layout.ms, Layout.hl, Layout.sz, Layout.F] at *
  rw [readAt_append_left _ _ _ _ (by simp; omega)]
  rw [readAt_append_right _ _ _ _ (by simp; omega)]
  simp

theorem Layout.F_length (l : Layout) : l.F.length = l.ms + l.sz + l.post.length := by
  simp [Layout.ms, Layout.sz, Layout.F]; omega

theorem eager_data (l : Layout) : l.eager.data = l.P := by
  show readAt l.F (l.ms + l.hl) (l.sz - l.hl) = l.P
  rw [layout_readAt l _ _ (Nat.le_refl _) (by simp [Layout.sz, Layout.hl]; omega)]
  simp [Layout.sz, Layout.hl, readAt]

theorem eager_payloadStart (l : Layout) (h : l.OK) : l.eager.payloadStart = l.ms + l.hl := by
  rcases h.1 with h8 | h16
  · simp [Layout.eager, decodeEager, MdatBox.payloadStart, MdatBox.headerSize, h8]
  · simp [Layout.eager, decodeEager, MdatBox.payloadStart, MdatBox.headerSize, h16]

theorem lazy_payloadStart (l : Layout) (h : l.OK) : l.lazy.payloadStart = l.ms + l.hl := by
  rcases h.1 with h8 | h16
  · simp [Layout.lazy, decodeLazy, MdatBox.payloadStart, MdatBox.headerSize, h8]
  · simp [Layout.lazy, decodeLazy, MdatBox.payloadStart, MdatBox.headerSize, h16]

/-- **byte ranges**: every range inside the payload — including ranges that end at the last payload byte and
    empty ranges — reads the same bytes in both modes, namely the file's bytes -/
theorem readData_lazy_eq_eager (l : Layout) (h : l.OK) (start size : Nat)
    (h1 : l.ms + l.hl ≤ start) (h2 : start + size ≤ l.ms + l.sz) :
    l.lazy.readData l.F start size = some (readAt l.F start size) ∧
    l.eager.readData l.F start size = some (readAt l.F start size) := by
  have hF := l.F_length
  constructor
  · have hz : l.lazy.lazyDataSize = l.P.length := by
      simp [Layout.lazy, decodeLazy, Layout.sz, Layout.hl]
    have hpos := h.2
    unfold MdatBox.readData
    rw [if_pos (by omega), if_pos (by omega)]
  · have hps := eager_payloadStart l h
    have hd := eager_data l
    have hz : l.eager.lazyDataSize = 0 := rfl
    unfold MdatBox.readData
    rw [if_neg (by omega), if_neg (by omega), hps, hd]
    have e1 : l.sz = l.hdr.length + l.P.length := rfl
    have e2 : l.hl = l.hdr.length := rfl
    simp only []
    rw [if_neg (by omega), layout_readAt l start size h1 h2]

/-- **lazy encode writes exactly the header**: header ++ payload = what the in-memory box encodes to, and the two
    modes report the same size and payload position -/
theorem lazy_encode (l : Layout) (h : l.OK) :
    l.lazy.encode ++ l.P = l.eager.encode ∧ l.lazy.size = l.eager.size ∧ l.lazy.size = (if l.hl = 16 ∨ l.P.length > 2 ^ 32 - 1 - 8 then 16 else 8) + l.P.length ∧
    l.lazy.payloadStart = l.eager.payloadStart := by
  have hE : l.eager = ⟨l.ms, decide (l.hl > 8), l.P, 0⟩ := by
    have := eager_data l
    simp only [Layout.eager, decodeEager] at this ⊢
    rw [this]
  have hL : l.lazy = ⟨l.ms, decide (l.hl > 8), [], l.P.length⟩ := by
    simp [Layout.lazy, decodeLazy, Layout.sz, Layout.hl]
  have hpos := h.2
  refine ⟨?_, ?_, ?_, ?_⟩
  · rw [hE, hL]
    simp [MdatBox.encode, MdatBox.size, hpos]
  · rw [hE, hL]
    simp [MdatBox.size, hpos]
  · rw [hL]
    rcases h.1 with h8 | h16
    · simp [MdatBox.size, hpos, h8]; split <;> omega
    · simp [MdatBox.size, hpos, h16]; omega
  · rw [lazy_payloadStart l h, eager_payloadStart l h]

/-- ranges inside the payload -/
def RangesIn (l : Layout) (rs : List (Nat × Nat)) : Prop :=
  ∀ r ∈ rs, l.ms + l.hl ≤ r.1 ∧ r.1 + r.2 ≤ l.ms + l.sz

/-- **chunk copies**: for every work-buffer length (0 = unbuffered, 1, anything) the lazy copy loop writes
    exactly the concatenation of the ranges, as the in-memory path does -/
theorem copyRanges_lazy_eq_eager (l : Layout) (h : l.OK) (rs : List (Nat × Nat)) (hr : RangesIn l rs) (workLen : Nat) :
    copyRanges l.lazy l.F workLen rs = some (rs.flatMap fun r => readAt l.F r.1 r.2) ∧
    copyRanges l.eager l.F workLen rs = some (rs.flatMap fun r => readAt l.F r.1 r.2) := by
  have hF := l.F_length
  have e1 : l.sz = l.hdr.length + l.P.length := rfl
  have e2 : l.hl = l.hdr.length := rfl
  constructor
  · have hz : l.lazy.lazyDataSize > 0 := by
      have := h.2
      simp [Layout.lazy, decodeLazy, Layout.sz, Layout.hl]; omega
    obtain ⟨w', o', he, hcat, _⟩ := go_lazy l.lazy l.F workLen hz rs [] []
      (fun r hx => by have := hr r hx; omega) (by simp)
    unfold copyRanges
    rw [he]
    simp only [hcat]
    simp
  · have hps := eager_payloadStart l h
    have hd := eager_data l
    have hgo := go_eager l.eager l.F workLen rfl rs [] []
      (fun r hx => by have := hr r hx; rw [hps, hd]; omega)
    unfold copyRanges
    rw [hgo]
    simp only [List.nil_append, List.append_nil]
    congr 1
    apply flatMap_congr'
    intro r hx
    have := hr r hx
    rw [hps, hd, layout_readAt l r.1 r.2 this.1 this.2]

/-- **sample copies**: whenever the interval's chunk ranges lie inside the payload, `CopySampleData` gives the same
    bytes in both modes for every work-buffer length -/
theorem copySampleData_lazy_eq_eager (l : Layout) (h : l.OK) (t : Tables) (a b : Nat) (rs : List (Nat × Nat))
    (hrs : t.getRanges a b = some rs) (hr : RangesIn l rs) (workLen : Nat) :
    copySampleData t l.lazy l.F workLen a b = copySampleData t l.eager l.F 0 a b ∧
    copySampleData t l.lazy l.F workLen a b = some (rs.flatMap fun r => readAt l.F r.1 r.2) := by
  have h1 := (copyRanges_lazy_eq_eager l h rs hr workLen).1
  have h2 := (copyRanges_lazy_eq_eager l h rs hr 0).2
  simp [copySampleData, hrs, h1, h2]

end Mp4ff.Mdat

