import Mp4ff.Model.Nalu
namespace Mp4ff.Nalu
set_option linter.unusedVariables false

theorem hz_case0 (x : Nat) (hx : x < 2^64) (h0 : x % 256 = 0) :
    ((x + 2^64 - 0x0101010101010101) % 2^64) / 2^7 % 2 = 1 ∧ x / 2^7 % 2 = 0 := by omega
theorem hz_case1 (x : Nat) (hx : x < 2^64) (h0 : x % 256 ≠ 0) (h1 : x / 2^8 % 256 = 0) :
    ((x + 2^64 - 0x0101010101010101) % 2^64) / 2^15 % 2 = 1 ∧ x / 2^15 % 2 = 0 := by omega
theorem hz_case2 (x : Nat) (hx : x < 2^64) (h0 : x % 256 ≠ 0) (h1 : x / 2^8 % 256 ≠ 0)
    (h2 : x / 2^16 % 256 = 0) :
    ((x + 2^64 - 0x0101010101010101) % 2^64) / 2^23 % 2 = 1 ∧ x / 2^23 % 2 = 0 := by omega
theorem hz_case3 (x : Nat) (hx : x < 2^64) (h0 : x % 256 ≠ 0) (h1 : x / 2^8 % 256 ≠ 0)
    (h2 : x / 2^16 % 256 ≠ 0) (h3 : x / 2^24 % 256 = 0) :
    ((x + 2^64 - 0x0101010101010101) % 2^64) / 2^31 % 2 = 1 ∧ x / 2^31 % 2 = 0 := by omega
theorem hz_case4 (x : Nat) (hx : x < 2^64) (h0 : x % 256 ≠ 0) (h1 : x / 2^8 % 256 ≠ 0)
    (h2 : x / 2^16 % 256 ≠ 0) (h3 : x / 2^24 % 256 ≠ 0) (h4 : x / 2^32 % 256 = 0) :
    ((x + 2^64 - 0x0101010101010101) % 2^64) / 2^39 % 2 = 1 ∧ x / 2^39 % 2 = 0 := by omega
theorem hz_case5 (x : Nat) (hx : x < 2^64) (h0 : x % 256 ≠ 0) (h1 : x / 2^8 % 256 ≠ 0)
    (h2 : x / 2^16 % 256 ≠ 0) (h3 : x / 2^24 % 256 ≠ 0) (h4 : x / 2^32 % 256 ≠ 0)
    (h5 : x / 2^40 % 256 = 0) :
    ((x + 2^64 - 0x0101010101010101) % 2^64) / 2^47 % 2 = 1 ∧ x / 2^47 % 2 = 0 := by omega
theorem hz_case6 (x : Nat) (hx : x < 2^64) (h0 : x % 256 ≠ 0) (h1 : x / 2^8 % 256 ≠ 0)
    (h2 : x / 2^16 % 256 ≠ 0) (h3 : x / 2^24 % 256 ≠ 0) (h4 : x / 2^32 % 256 ≠ 0)
    (h5 : x / 2^40 % 256 ≠ 0) (h6 : x / 2^48 % 256 = 0) :
    ((x + 2^64 - 0x0101010101010101) % 2^64) / 2^55 % 2 = 1 ∧ x / 2^55 % 2 = 0 := by omega
theorem hz_case7 (x : Nat) (hx : x < 2^64) (h0 : x % 256 ≠ 0) (h1 : x / 2^8 % 256 ≠ 0)
    (h2 : x / 2^16 % 256 ≠ 0) (h3 : x / 2^24 % 256 ≠ 0) (h4 : x / 2^32 % 256 ≠ 0)
    (h5 : x / 2^40 % 256 ≠ 0) (h6 : x / 2^48 % 256 ≠ 0) (h7 : x / 2^56 % 256 = 0) :
    ((x + 2^64 - 0x0101010101010101) % 2^64) / 2^63 % 2 = 1 ∧ x / 2^63 % 2 = 0 := by omega

/-- bit `b` witnesses non-zero -/
theorem hz_bit (x : BitVec 64) (b : Nat) (hb : b < 64) (hm : magicRight.getLsbD b = true)
    (h1 : ((x.toNat + 2^64 - 0x0101010101010101) % 2^64) / 2^b % 2 = 1) (h2 : x.toNat / 2^b % 2 = 0) :
    hasZeroByte x = true := by
  unfold hasZeroByte
  rw [bne_iff_ne]
  intro h
  have := congrArg (fun v => v.getLsbD b) h
  simp only [BitVec.getLsbD_and, BitVec.getLsbD_not, hm, BitVec.getLsbD_zero, hb, decide_true, Bool.true_and, Bool.and_true] at this
  have e1 : (x - magicLeft).getLsbD b = true := by
    rw [BitVec.getLsbD, BitVec.toNat_sub, Nat.testBit_eq_decide_div_mod_eq]
    simp only [magicLeft, BitVec.toNat_ofNat]
    have : (2 ^ 64 - 72340172838076673 % 2 ^ 64 + x.toNat) = (x.toNat + 2^64 - 0x0101010101010101) := by omega
    rw [this, h1]; rfl
  have e2 : x.getLsbD b = false := by
    rw [BitVec.getLsbD, Nat.testBit_eq_decide_div_mod_eq, h2]; rfl
  rw [e1, e2] at this
  simp at this


theorem hz_lane (x : BitVec 64) (k : Nat) (hk : k < 8) (hz : x.toNat / 2^(8*k) % 256 = 0) :
    hasZeroByte x = true := by
  have hx : x.toNat < 2^64 := x.isLt
  by_cases h0 : x.toNat % 256 = 0
  · exact hz_bit x 7 (by omega) (by decide) (hz_case0 _ hx h0).1 (hz_case0 _ hx h0).2
  by_cases h1 : x.toNat / 2^8 % 256 = 0
  · exact hz_bit x 15 (by omega) (by decide) (hz_case1 _ hx h0 h1).1 (hz_case1 _ hx h0 h1).2
  by_cases h2 : x.toNat / 2^16 % 256 = 0
  · exact hz_bit x 23 (by omega) (by decide) (hz_case2 _ hx h0 h1 h2).1 (hz_case2 _ hx h0 h1 h2).2
  by_cases h3 : x.toNat / 2^24 % 256 = 0
  · exact hz_bit x 31 (by omega) (by decide) (hz_case3 _ hx h0 h1 h2 h3).1 (hz_case3 _ hx h0 h1 h2 h3).2
  by_cases h4 : x.toNat / 2^32 % 256 = 0
  · exact hz_bit x 39 (by omega) (by decide) (hz_case4 _ hx h0 h1 h2 h3 h4).1 (hz_case4 _ hx h0 h1 h2 h3 h4).2
  by_cases h5 : x.toNat / 2^40 % 256 = 0
  · exact hz_bit x 47 (by omega) (by decide) (hz_case5 _ hx h0 h1 h2 h3 h4 h5).1 (hz_case5 _ hx h0 h1 h2 h3 h4 h5).2
  by_cases h6 : x.toNat / 2^48 % 256 = 0
  · exact hz_bit x 55 (by omega) (by decide) (hz_case6 _ hx h0 h1 h2 h3 h4 h5 h6).1 (hz_case6 _ hx h0 h1 h2 h3 h4 h5 h6).2
  by_cases h7 : x.toNat / 2^56 % 256 = 0
  · exact hz_bit x 63 (by omega) (by decide) (hz_case7 _ hx h0 h1 h2 h3 h4 h5 h6 h7).1 (hz_case7 _ hx h0 h1 h2 h3 h4 h5 h6 h7).2
  exfalso
  have : k = 0 ∨ k = 1 ∨ k = 2 ∨ k = 3 ∨ k = 4 ∨ k = 5 ∨ k = 6 ∨ k = 7 := by omega
  rcases this with rfl | rfl | rfl | rfl | rfl | rfl | rfl | rfl <;> simp at hz <;> omega

theorem byteAt_lt (s : Bytes) (hs : IsBytes s) (i : Nat) : byteAt s i < 256 := by
  unfold byteAt
  rw [List.getD_eq_getElem?_getD]
  cases h : s[i]? with
  | none => simp
  | some v => simp; exact hs v (List.mem_of_getElem? h)

theorem word_toNat (s : Bytes) (i : Nat) :
    (word s i).toNat = (((((((byteAt s (i+7) * 256 + byteAt s (i+6)) * 256 + byteAt s (i+5)) * 256
      + byteAt s (i+4)) * 256 + byteAt s (i+3)) * 256 + byteAt s (i+2)) * 256 + byteAt s (i+1)) * 256
      + byteAt s i) % 2^64 := by
  simp [word, List.range, List.range.loop]

theorem lanes (a0 a1 a2 a3 a4 a5 a6 a7 : Nat) (b0 : a0 < 256) (b1 : a1 < 256) (b2 : a2 < 256)
    (b3 : a3 < 256) (b4 : a4 < 256) (b5 : a5 < 256) (b6 : a6 < 256) (b7 : a7 < 256) (X : Nat)
    (hX : X = (((((((a7 * 256 + a6) * 256 + a5) * 256 + a4) * 256 + a3) * 256 + a2) * 256 + a1) * 256 + a0) % 2^64) :
    X % 256 = a0 ∧ X / 2^8 % 256 = a1 ∧ X / 2^16 % 256 = a2 ∧ X / 2^24 % 256 = a3 ∧
    X / 2^32 % 256 = a4 ∧ X / 2^40 % 256 = a5 ∧ X / 2^48 % 256 = a6 ∧ X / 2^56 % 256 = a7 := by
  subst hX
  refine ⟨?_, ?_, ?_, ?_, ?_, ?_, ?_, ?_⟩ <;> omega

theorem hasZeroByte_word (s : Bytes) (hs : IsBytes s) (i k : Nat) (hk : k < 8)
    (hz : byteAt s (i + k) = 0) : hasZeroByte (word s i) = true := by
  apply hz_lane _ k hk
  have L := lanes _ _ _ _ _ _ _ _ (byteAt_lt s hs i) (byteAt_lt s hs (i+1)) (byteAt_lt s hs (i+2))
    (byteAt_lt s hs (i+3)) (byteAt_lt s hs (i+4)) (byteAt_lt s hs (i+5)) (byteAt_lt s hs (i+6))
    (byteAt_lt s hs (i+7)) _ (word_toNat s i)
  obtain ⟨l0, l1, l2, l3, l4, l5, l6, l7⟩ := L
  have : k = 0 ∨ k = 1 ∨ k = 2 ∨ k = 3 ∨ k = 4 ∨ k = 5 ∨ k = 6 ∨ k = 7 := by omega
  rcases this with rfl | rfl | rfl | rfl | rfl | rfl | rfl | rfl
  · simpa using l0.trans hz
  · exact l1.trans hz
  · exact l2.trans hz
  · exact l3.trans hz
  · exact l4.trans hz
  · exact l5.trans hz
  · exact l6.trans hz
  · exact l7.trans hz

end Mp4ff.Nalu
