import Mp4ff.Model.Sei
import Mp4ff.Lemmas.C13Seq
/-!
C17 (typed SEI messages): serialise → decode round trips and `Size()` for SEI 144 (content light level),
SEI 137 (mastering display colour volume), SEI 136 (time code) and SEI 1 (AVC picture timing).
Lemmas used: Mp4ff/Lemmas/BitsWriter.lean (`BW.write_spec`, `BW.writeAll_spec`, `BW.flush_spec`),
BitsReader.lean (`BR.read_spec`), BitsBasic.lean (`eq_of_lowBits_eq`, …).
-/
namespace Mp4ff.Sei
open Mp4ff.Bits

/-! ## generic helpers -/

theorem read_field {r : BR} {k v : Nat} {tail : List Bool} (hr : r.Inv)
    (habs : r.abs = lowBits k v ++ tail) (hv : v < 2 ^ k) (hk : k ≤ 56) :
    ∃ r', r.read k = (r', v) ∧ r'.Inv ∧ r'.abs = tail := by
  obtain ⟨h1, h2, h3, h4, _⟩ := BR.read_spec r k hr hk (by rw [habs]; simp)
  rw [habs] at h2 h3
  simp at h2 h3
  exact ⟨(r.read k).1, by rw [← eq_of_lowBits_eq h4 hv h3], h1, h2⟩

theorem readFlag_field {r : BR} {b : Bool} {tail : List Bool} (hr : r.Inv)
    (habs : r.abs = lowBits 1 (flagBit b) ++ tail) :
    ∃ r', readFlagBR r = (r', b) ∧ r'.Inv ∧ r'.abs = tail := by
  obtain ⟨r', e, i, a⟩ := read_field hr habs (by cases b <;> decide) (by decide)
  refine ⟨r', ?_, i, a⟩
  simp only [readFlagBR, e, i.2.2.2]
  cases b <;> simp [flagBit]

macro "rstep" : tactic => `(tactic| (first
  | (obtain ⟨_, e, _, _⟩ := readFlag_field ‹BR.Inv _› ‹BR.abs _ = _›
     simp only [e, ↓reduceIte, Bool.false_eq_true])
  | (obtain ⟨_, e, _, _⟩ := read_field ‹BR.Inv _› ‹BR.abs _ = _› (by omega) (by omega)
     simp only [e])))

macro "rdone" : tactic => `(tactic| (
  refine ⟨_, congrArg (Prod.mk _) ?_, ‹BR.Inv _›, ‹BR.abs _ = _›⟩))

theorem fieldBits_length (l : List (Nat × Nat)) : (fieldBits l).length = (l.map (·.1)).sum := by
  induction l with
  | nil => rfl
  | cons kv l ih => obtain ⟨k, v⟩ := kv; simp [fieldBits, ih]

theorem bitsOfBytes_take (n : Nat) (l : Bytes) : bitsOfBytes (l.take n) = (bitsOfBytes l).take (8 * n) := by
  induction l generalizing n with
  | nil => simp [bitsOfBytes]
  | cons b l ih =>
    cases n with
    | zero => simp [bitsOfBytes]
    | succ n =>
      simp only [List.take_succ_cons, bitsOfBytes, ih]
      have : 8 * (n + 1) = (lowBits 8 b).length + 8 * n := by simp; omega
      rw [this, List.take_length_add_append]

theorem isBytes_take {l : Bytes} (n : Nat) (h : IsBytes l) : IsBytes (l.take n) :=
  fun b hb => h b (List.mem_of_mem_take hb)

theorem br_init (pl : Bytes) (h : IsBytes pl) : ({ rest := pl } : BR).Inv ∧ ({ rest := pl } : BR).abs = bitsOfBytes pl :=
  ⟨⟨by show (0:Nat) < 8; decide, by show (0:Nat) < 2 ^ 0; decide, h, rfl⟩, by simp [BR.abs, lowBits]⟩

/-! ## SEI 144 / SEI 137 -/

/-- SEI 144 -/
theorem cll_roundtrip (a b : Nat) (ha : a < 65536) (hb : b < 65536) :
    decodeCLL (cllPayload a b) = some (a, b) ∧ (cllPayload a b).length = 4 := by
  simp [decodeCLL, cllPayload, beBytes, u16at, beVal]
  omega

def MDCV.OK (m : MDCV) : Prop :=
  m.px.length = 3 ∧ m.py.length = 3 ∧ (∀ x ∈ m.px, x < 65536) ∧ (∀ y ∈ m.py, y < 65536) ∧
  m.wx < 65536 ∧ m.wy < 65536 ∧ m.maxLum < 2 ^ 32 ∧ m.minLum < 2 ^ 32

/-- SEI 137 -/
theorem mdcv_roundtrip (m : MDCV) (h : m.OK) :
    decodeMDCV (mdcvPayload m) = some m ∧ (mdcvPayload m).length = 24 := by
  obtain ⟨px, py, wx, wy, mx, mn⟩ := m
  obtain ⟨h1, h2, h3, h4, h5, h6, h7, h8⟩ := h
  simp only at h1 h2 h3 h4 h5 h6 h7 h8
  match px, h1 with
  | [x0, x1, x2], _ =>
  match py, h2 with
  | [y0, y1, y2], _ =>
  simp at h3 h4
  simp [decodeMDCV, mdcvPayload, beBytes, u16at, u32at, beVal, List.range, List.range.loop]
  omega

/-! ## SEI 136 time code -/

/-- canonical clock values: exactly the values `DecodeClockTS` can produce (unused fields are zero) -/
def ClockTS.Canon (c : ClockTS) : Prop :=
  if c.clockTimeStampFlag then
    c.countingType < 32 ∧ c.nFrames < 512 ∧ c.timeOffsetLength < 32 ∧
    c.timeOffsetValue < 2 ^ c.timeOffsetLength ∧
    (if c.fullTimeStampFlag then
       c.seconds < 64 ∧ c.minutes < 64 ∧ c.hours < 32 ∧
       c.secondsFlag = false ∧ c.minutesFlag = false ∧ c.hoursFlag = false
     else
       c.seconds < 64 ∧ c.minutes < 64 ∧ c.hours < 32 ∧
       (c.secondsFlag = false → c.seconds = 0 ∧ c.minutesFlag = false) ∧
       (c.minutesFlag = false → c.minutes = 0 ∧ c.hoursFlag = false) ∧
       (c.hoursFlag = false → c.hours = 0))
  else c = {}

theorem decodeClockTS_spec (c : ClockTS) (hc : c.Canon) (r : BR) (tail : List Bool) (hr : r.Inv)
    (habs : r.abs = fieldBits c.fields ++ tail) :
    ∃ r', decodeClockTS r = (r', c) ∧ r'.Inv ∧ r'.abs = tail := by
  obtain ⟨tov, nf, h, m, s, ctf, ufb, full, sf, mf, hf, disc, cnt, ct, tol⟩ := c
  unfold ClockTS.Canon at hc
  simp only at hc
  cases ctf
  · simp at hc
    simp only [ClockTS.fields, fieldBits, Bool.false_eq_true, ↓reduceIte, List.append_nil] at habs
    simp only [decodeClockTS]
    rstep
    rdone
    simp [hc]
  · simp only [↓reduceIte] at hc
    obtain ⟨h1, h2, h3, h4, h5⟩ := hc
    have htm : tol % 256 = tol := Nat.mod_eq_of_lt (by omega)
    have htv : tov % 2 ^ 32 = tov :=
      Nat.mod_eq_of_lt (Nat.lt_of_lt_of_le h4 (Nat.pow_le_pow_right (by decide) (by omega)))
    have ht0 : tol = 0 ∨ tol > 0 := by omega
    have htov0 : tol = 0 → tov = 0 := by intro h0; subst h0; simpa using h4
    cases full
    · simp only [Bool.false_eq_true, ↓reduceIte] at h5
      obtain ⟨k1, k2, k3, k4, k5, k6⟩ := h5
      cases sf <;> cases mf <;> cases hf <;> simp at k4 k5 k6 <;>
      rcases ht0 with ht | ht <;>
      simp only [ClockTS.fields, fieldBits, Bool.false_eq_true, ↓reduceIte, List.append_nil, List.append_assoc,
          List.cons_append, List.nil_append, ht, Nat.lt_irrefl] at habs <;>
      simp only [decodeClockTS] <;>
      (repeat rstep) <;>
      simp only [htm, ht, ↓reduceIte, Nat.zero_mod, Nat.lt_irrefl] <;>
      (repeat rstep) <;>
      rdone <;>
      simp only [ClockTS.mk.injEq, htv, and_true, true_and] <;>
      omega
    · simp only [↓reduceIte] at h5
      obtain ⟨k1, k2, k3, k4, k5, k6⟩ := h5
      subst k4 k5 k6
      rcases ht0 with ht | ht <;>
      simp only [ClockTS.fields, fieldBits, ↓reduceIte, List.append_nil, List.append_assoc,
          List.cons_append, List.nil_append, ht, Nat.lt_irrefl] at habs <;>
      simp only [decodeClockTS] <;>
      (repeat rstep) <;>
      simp only [htm, ht, ↓reduceIte, Nat.zero_mod, Nat.lt_irrefl] <;>
      (repeat rstep) <;>
      rdone <;>
      simp only [ClockTS.mk.injEq, htv, and_true, true_and] <;>
      omega

theorem ClockTS.fields_width (c : ClockTS) : (c.fields.map (·.1)).sum = c.nrBits := by
  unfold ClockTS.fields ClockTS.nrBits
  (repeat' split) <;> simp <;> omega

theorem ClockTS.fields_le (c : ClockTS) (hc : c.Canon) : ∀ kv ∈ c.fields, kv.1 ≤ 56 := by
  unfold ClockTS.Canon at hc
  unfold ClockTS.fields
  split at hc
  · have := hc.2.2.1
    (repeat' split) <;> simp <;> omega
  · simp [*]

def tsBits : List ClockTS → List Bool
  | [] => []
  | c :: cs => fieldBits c.fields ++ tsBits cs

theorem tsBits_length (cs : List ClockTS) : (tsBits cs).length = (cs.map ClockTS.nrBits).sum := by
  induction cs with
  | nil => rfl
  | cons c cs ih => simp [tsBits, ih, fieldBits_length, ClockTS.fields_width]

theorem foldl_ts_spec (cs : List ClockTS) : ∀ (w : BW), w.Inv → (∀ c ∈ cs, c.Canon) →
    (cs.foldl (fun w c => w.writeAll c.fields) w).Inv ∧
    (cs.foldl (fun w c => w.writeAll c.fields) w).abs = w.abs ++ tsBits cs := by
  induction cs with
  | nil => intro w hw _; simp [tsBits, hw]
  | cons c cs ih =>
    intro w hw hc
    have h1 := BW.writeAll_spec c.fields w hw (c.fields_le (hc c (by simp)))
    have h2 := ih (w.writeAll c.fields) h1.1 (fun c h => hc c (by simp [h]))
    simp only [List.foldl_cons, tsBits]
    exact ⟨h2.1, by rw [h2.2, h1.2, List.append_assoc]⟩

theorem go_ts_spec (cs : List ClockTS) : ∀ (r : BR) (acc : List ClockTS) (tail : List Bool), r.Inv →
    r.abs = tsBits cs ++ tail → (∀ c ∈ cs, c.Canon) →
    ∃ r', decodeTimeCode.go cs.length r acc = (r', acc ++ cs) ∧ r'.Inv ∧ r'.abs = tail := by
  induction cs with
  | nil => intro r acc tail hr habs _; exact ⟨r, by simp [decodeTimeCode.go], hr, by simpa [tsBits] using habs⟩
  | cons c cs ih =>
    intro r acc tail hr habs hc
    simp only [tsBits, List.append_assoc] at habs
    obtain ⟨r1, e1, i1, a1⟩ := decodeClockTS_spec c (hc c (by simp)) r _ hr habs
    obtain ⟨r2, e2, i2, a2⟩ := ih r1 (acc ++ [c]) tail i1 a1 (fun c h => hc c (by simp [h]))
    refine ⟨r2, ?_, i2, a2⟩
    simp only [List.length_cons, decodeTimeCode.go, e1, e2, List.append_assoc, List.singleton_append]

/-- SEI 136 time code: serialise → decode is the identity and `Size()` is the serialised length,
    for 0..3 clocks with any flag combination and time-offset lengths 0..31 -/
theorem timeCode_roundtrip (clocks : List ClockTS) (hn : clocks.length ≤ 3) (hc : ∀ c ∈ clocks, c.Canon) :
    decodeTimeCode (timeCodePayload clocks) = (clocks, false) ∧
    (timeCodePayload clocks).length = timeCodeSize clocks := by
  have w0 := BW.write_spec {} clocks.length 2 BW.init_inv (by decide)
  have w1 := foldl_ts_spec clocks _ w0.1 hc
  have w2 := BW.write_spec _ 1 1 w1.1 (by decide)
  have fl := BW.flush_spec _ w2.1
  have habs0 : ({} : BW).abs = [] := rfl
  rw [w2.2, w1.2, w0.2, habs0, List.nil_append] at fl
  generalize hw : ((List.foldl (fun w c => w.writeAll c.fields) (({} : BW).write clocks.length 2) clocks).write 1 1) = w at fl
  have hpl : timeCodePayload clocks = w.flush.take (timeCodeSize clocks) := by
    simp only [timeCodePayload, sliceWriterBytes, hw]
  have hlen8 := congrArg List.length fl.1
  simp [tsBits_length, lowBits] at hlen8
  have hpad : (8 - w.n) % 8 < 8 := Nat.mod_lt _ (by decide)
  have hsz : timeCodeSize clocks ≤ w.flush.length := by unfold timeCodeSize; omega
  have hbits : bitsOfBytes (timeCodePayload clocks) =
      lowBits 2 clocks.length ++ (tsBits clocks ++
        (lowBits 1 1 ++ List.replicate ((8 - w.n) % 8) false).take (8 * timeCodeSize clocks - (2 + (clocks.map ClockTS.nrBits).sum))) := by
    rw [hpl, bitsOfBytes_take, fl.1]
    simp only [List.append_assoc]
    have hN : (lowBits 2 clocks.length ++ tsBits clocks).length = 2 + (clocks.map ClockTS.nrBits).sum := by
      simp [tsBits_length]
    have h8 : 8 * timeCodeSize clocks = (lowBits 2 clocks.length ++ tsBits clocks).length +
        (8 * timeCodeSize clocks - (2 + (clocks.map ClockTS.nrBits).sum)) := by
      rw [hN]; unfold timeCodeSize; omega
    conv => lhs; rw [h8]
    rw [← List.append_assoc, List.take_length_add_append, List.append_assoc]
  refine ⟨?_, by rw [hpl, List.length_take]; omega⟩
  obtain ⟨i0, a0⟩ := br_init _ (isBytes_take (timeCodeSize clocks) fl.2)
  rw [← hpl, hbits] at a0
  rw [← hpl] at i0
  obtain ⟨r1, e1, i1, a1⟩ := read_field i0 a0 (by omega) (by decide)
  obtain ⟨r2, e2, i2, a2⟩ := go_ts_spec clocks r1 [] _ i1 a1 hc
  simp only [decodeTimeCode, e1, e2, i2.2.2.2, List.nil_append]

/-! ## SEI 1 AVC picture timing -/

theorem toUnsigned_spec (x : Int) (n : Nat) (hn : 0 < n)
    (h1 : -(2 ^ (n - 1) : Int) ≤ x) (h2 : x < 2 ^ (n - 1)) :
    toUnsigned x n < 2 ^ n ∧
    (if toUnsigned x n >>> (n - 1) = 1 then (toUnsigned x n : Int) - 2 ^ n else (toUnsigned x n : Int)) = x := by
  obtain ⟨m, rfl⟩ : ∃ m, n = m + 1 := ⟨n - 1, by omega⟩
  simp only [Nat.add_sub_cancel] at *
  unfold toUnsigned
  have hP : (2:Int) ^ (m + 1) = 2 * 2 ^ m := by rw [Int.pow_succ]; omega
  have hPn : (2:Nat) ^ (m + 1) = 2 * 2 ^ m := by rw [Nat.pow_succ]; omega
  have hcast : ((2 ^ m : Nat) : Int) = (2:Int) ^ m := by simp
  generalize hPd : (2:Nat) ^ m = P at *
  have hPpos : 0 < P := by rw [← hPd]; exact Nat.two_pow_pos m
  rw [hP, hPn, ← hcast]
  rw [← hcast] at h1 h2
  rw [Nat.shiftRight_eq_div_pow, hPd]
  by_cases hx : 0 ≤ x
  · have e : x % (2 * (P:Int)) = x := Int.emod_eq_of_lt hx (by omega)
    rw [e]
    have hv : x.toNat < P := by omega
    have hd : x.toNat / P = 0 := Nat.div_eq_of_lt hv
    refine ⟨by omega, ?_⟩
    rw [hd]; simp; omega
  · have e : x % (2 * (P:Int)) = x + 2 * P := by
      rw [← Int.add_mul_emod_self_left x (2 * (P:Int)) 1, Int.mul_one]
      exact Int.emod_eq_of_lt (by omega) (by omega)
    rw [e]
    have hd : (x + 2 * (P:Int)).toNat / P = 1 := Nat.div_eq_of_lt_le (by omega) (by omega)
    refine ⟨by omega, ?_⟩
    rw [hd]; simp; omega

theorem readSigned_field {r : BR} {n : Nat} {x : Int} {tail : List Bool} (hr : r.Inv)
    (habs : r.abs = lowBits n (toUnsigned x n) ++ tail) (hn : 0 < n) (hk : n ≤ 56)
    (h1 : -(2 ^ (n - 1) : Int) ≤ x) (h2 : x < 2 ^ (n - 1)) :
    ∃ r', readSigned r n = (r', x) ∧ r'.Inv ∧ r'.abs = tail := by
  have hs := toUnsigned_spec x n hn h1 h2
  obtain ⟨r', e, i, a⟩ := read_field hr habs hs.1 hk
  exact ⟨r', by simp only [readSigned, e, hs.2], i, a⟩

/-- canonical AVC clock for a given externally signalled time offset length `tol` -/
def ClockAvc.Canon (tol : Nat) (c : ClockAvc) : Prop :=
  c.timeOffsetLength = tol ∧
  if c.clockTimeStampFlag then
    c.ctType < 4 ∧ c.countingType < 32 ∧ c.nFrames < 256 ∧
    (if tol = 0 then c.timeOffsetValue = 0
     else -(2 ^ (tol - 1) : Int) ≤ c.timeOffsetValue ∧ c.timeOffsetValue < 2 ^ (tol - 1)) ∧
    (if c.fullTimeStampFlag then
       c.seconds < 64 ∧ c.minutes < 64 ∧ c.hours < 32 ∧
       c.secondsFlag = false ∧ c.minutesFlag = false ∧ c.hoursFlag = false
     else
       c.seconds < 64 ∧ c.minutes < 64 ∧ c.hours < 32 ∧
       (c.secondsFlag = false → c.seconds = 0 ∧ c.minutesFlag = false) ∧
       (c.minutesFlag = false → c.minutes = 0 ∧ c.hoursFlag = false) ∧
       (c.hoursFlag = false → c.hours = 0))
  else c = { timeOffsetLength := tol }

theorem decodeClockAvc_spec (tol : Nat) (htol : tol < 32) (c : ClockAvc) (hc : c.Canon tol) (r : BR)
    (tail : List Bool) (hr : r.Inv) (habs : r.abs = fieldBits c.fields ++ tail) :
    ∃ r', decodeClockAvc r tol = (r', c) ∧ r'.Inv ∧ r'.abs = tail := by
  obtain ⟨ctt, nfb, ct, nf, h, m, s, ctf, full, sf, mf, hf, disc, cnt, tol', tov⟩ := c
  unfold ClockAvc.Canon at hc
  simp only at hc
  obtain ⟨rfl, hc⟩ := hc
  cases ctf
  · simp at hc
    simp only [ClockAvc.fields, fieldBits, Bool.false_eq_true, ↓reduceIte, List.append_nil] at habs
    simp only [decodeClockAvc]
    rstep
    rdone
    simp [hc]
  · simp only [↓reduceIte] at hc
    obtain ⟨h0, h1, h2, h4, h5⟩ := hc
    have ht0 : tol' = 0 ∨ tol' > 0 := by omega
    rcases ht0 with ht | ht
    · subst ht
      simp only [↓reduceIte] at h4
      subst h4
      cases full
      · simp only [Bool.false_eq_true, ↓reduceIte] at h5
        obtain ⟨k1, k2, k3, k4, k5, k6⟩ := h5
        cases sf <;> cases mf <;> cases hf <;> simp at k4 k5 k6 <;>
        simp only [ClockAvc.fields, fieldBits, Bool.false_eq_true, ↓reduceIte, List.append_nil, List.append_assoc,
            List.cons_append, List.nil_append, Nat.lt_irrefl, gt_iff_lt] at habs <;>
        simp only [decodeClockAvc] <;>
        (repeat rstep) <;>
        simp only [↓reduceIte, Nat.lt_irrefl, gt_iff_lt] <;>
        rdone <;>
        simp only [ClockAvc.mk.injEq, and_true, true_and] <;>
        omega
      · simp only [↓reduceIte] at h5
        obtain ⟨k1, k2, k3, k4, k5, k6⟩ := h5
        subst k4 k5 k6
        simp only [ClockAvc.fields, fieldBits, ↓reduceIte, List.append_nil, List.append_assoc,
            List.cons_append, List.nil_append, Nat.lt_irrefl, gt_iff_lt] at habs
        simp only [decodeClockAvc]
        repeat rstep
        simp only [↓reduceIte, Nat.lt_irrefl, gt_iff_lt]
        rdone
        simp only [ClockAvc.mk.injEq, and_true, true_and]
        omega
    · have ht' : tol' ≠ 0 := by omega
      simp only [ht', ↓reduceIte] at h4
      cases full
      · simp only [Bool.false_eq_true, ↓reduceIte] at h5
        obtain ⟨k1, k2, k3, k4, k5, k6⟩ := h5
        cases sf <;> cases mf <;> cases hf <;> simp at k4 k5 k6 <;>
        simp only [ClockAvc.fields, fieldBits, Bool.false_eq_true, ↓reduceIte, List.append_nil, List.append_assoc,
            List.cons_append, List.nil_append, ht] at habs <;>
        simp only [decodeClockAvc] <;>
        (repeat rstep) <;>
        simp only [ht, ↓reduceIte] <;>
        (obtain ⟨_, e, _, _⟩ := readSigned_field ‹BR.Inv _› ‹BR.abs _ = _› ht (by omega) h4.1 h4.2) <;>
        simp only [e] <;>
        rdone <;>
        simp only [ClockAvc.mk.injEq, and_true, true_and] <;>
        omega
      · simp only [↓reduceIte] at h5
        obtain ⟨k1, k2, k3, k4, k5, k6⟩ := h5
        subst k4 k5 k6
        simp only [ClockAvc.fields, fieldBits, ↓reduceIte, List.append_nil, List.append_assoc,
          List.cons_append, List.nil_append, ht] at habs
        simp only [decodeClockAvc]
        repeat rstep
        simp only [ht, ↓reduceIte]
        obtain ⟨_, e, _, _⟩ := readSigned_field ‹BR.Inv _› ‹BR.abs _ = _› ht (by omega) h4.1 h4.2
        simp only [e]
        rdone
        simp only [ClockAvc.mk.injEq, and_true, true_and]
        omega

theorem ClockAvc.fields_width (c : ClockAvc) : (c.fields.map (·.1)).sum = c.nrBits := by
  unfold ClockAvc.fields ClockAvc.nrBits
  (repeat' split) <;> simp <;> omega

theorem ClockAvc.fields_le (tol : Nat) (htol : tol < 32) (c : ClockAvc) (hc : c.Canon tol) :
    ∀ kv ∈ c.fields, kv.1 ≤ 56 := by
  have := hc.1
  unfold ClockAvc.fields
  (repeat' split) <;> simp <;> omega

def avcBits : List ClockAvc → List Bool
  | [] => []
  | c :: cs => fieldBits c.fields ++ avcBits cs

theorem avcBits_length (cs : List ClockAvc) : (avcBits cs).length = (cs.map ClockAvc.nrBits).sum := by
  induction cs with
  | nil => rfl
  | cons c cs ih => simp [avcBits, ih, fieldBits_length, ClockAvc.fields_width]

theorem foldl_avc_spec (tol : Nat) (htol : tol < 32) (cs : List ClockAvc) : ∀ (w : BW), w.Inv →
    (∀ c ∈ cs, c.Canon tol) →
    (cs.foldl (fun w c => w.writeAll c.fields) w).Inv ∧
    (cs.foldl (fun w c => w.writeAll c.fields) w).abs = w.abs ++ avcBits cs := by
  induction cs with
  | nil => intro w hw _; simp [avcBits, hw]
  | cons c cs ih =>
    intro w hw hc
    have h1 := BW.writeAll_spec c.fields w hw (c.fields_le tol htol (hc c (by simp)))
    have h2 := ih (w.writeAll c.fields) h1.1 (fun c h => hc c (by simp [h]))
    simp only [List.foldl_cons, avcBits]
    exact ⟨h2.1, by rw [h2.2, h1.2, List.append_assoc]⟩

theorem go_avc_spec (tol : Nat) (htol : tol < 32) (cs : List ClockAvc) :
    ∀ (r : BR) (acc : List ClockAvc) (tail : List Bool), r.Inv →
    r.abs = avcBits cs ++ tail → (∀ c ∈ cs, c.Canon tol) →
    ∃ r', decodePicTimingAvc.go tol cs.length r acc = (r', acc ++ cs) ∧ r'.Inv ∧ r'.abs = tail := by
  induction cs with
  | nil => intro r acc tail hr habs _; exact ⟨r, by simp [decodePicTimingAvc.go], hr, by simpa [avcBits] using habs⟩
  | cons c cs ih =>
    intro r acc tail hr habs hc
    simp only [avcBits, List.append_assoc] at habs
    obtain ⟨r1, e1, i1, a1⟩ := decodeClockAvc_spec tol htol c (hc c (by simp)) r _ hr habs
    obtain ⟨r2, e2, i2, a2⟩ := ih r1 (acc ++ [c]) tail i1 a1 (fun c h => hc c (by simp [h]))
    refine ⟨r2, ?_, i2, a2⟩
    simp only [List.length_cons, decodePicTimingAvc.go, e1, e2, List.append_assoc, List.singleton_append]

def PicTimingAvc.OK (tol : Nat) (p : PicTimingAvc) : Prop :=
  tol < 32 ∧ p.pictStruct ≤ 8 ∧
  p.clocks.length = (if p.pictStruct ≤ 2 then 1 else if p.pictStruct ≤ 4 then 2 else 3) ∧
  (∀ c ∈ p.clocks, c.Canon tol) ∧
  (match p.hrd with
   | some (cpb, dpb, a, b) => a < 32 ∧ b < 32 ∧ cpb < 2 ^ (a + 1) ∧ dpb < 2 ^ (b + 1)
   | none => True)

/-- SEI 1 (AVC picture timing): serialise → decode (with the same HRD lengths and time offset length, which
    are signalled in the SPS) is the identity, and `Size()` is the serialised length -/
theorem picTiming_roundtrip (tol : Nat) (p : PicTimingAvc) (h : p.OK tol) :
    decodePicTimingAvc (picTimingPayload p) (p.hrd.map fun x => (x.2.2.1, x.2.2.2)) tol = some (p, false) ∧
    (picTimingPayload p).length = picTimingSize p := by
  obtain ⟨hrd, ps, cs⟩ := p
  obtain ⟨htol, hps, hlen, hc, hh⟩ := h
  simp only at hps hlen hc hh
  cases hrd with
  | none =>
    have w0 := BW.write_spec {} ps 4 BW.init_inv (by decide)
    have w1 := foldl_avc_spec tol htol cs _ w0.1 hc
    have fl := BW.flush_spec _ w1.1
    have habs0 : ({} : BW).abs = [] := rfl
    rw [w1.2, w0.2, habs0, List.nil_append] at fl
    generalize hw : (List.foldl (fun w c => w.writeAll c.fields) (({} : BW).write ps 4) cs) = w at fl
    have hlen8 := congrArg List.length fl.1
    simp [avcBits_length] at hlen8
    have hpad : (8 - w.n) % 8 < 8 := Nat.mod_lt _ (by decide)
    have hsz : w.flush.length = picTimingSize ⟨none, ps, cs⟩ := by simp only [picTimingSize]; omega
    have hpl : picTimingPayload ⟨none, ps, cs⟩ = w.flush := by
      simp only [picTimingPayload, sliceWriterBytes, hw, ← hsz, List.take_length]
    refine ⟨?_, by rw [hpl, hsz]⟩
    obtain ⟨i0, a0⟩ := br_init _ fl.2
    rw [fl.1, List.append_assoc] at a0
    rw [hpl]
    obtain ⟨r1, e1, i1, a1⟩ := read_field i0 a0 (by omega) (by decide)
    obtain ⟨r2, e2, i2, a2⟩ := go_avc_spec tol htol cs r1 [] _ i1 a1 hc
    rw [hlen] at e2
    have hm : ps % 256 = ps := Nat.mod_eq_of_lt (by omega)
    have hng : ¬ ps > 8 := by omega
    simp only [decodePicTimingAvc, Option.map_none, e1, hm, hng, ↓reduceIte, e2, i2.2.2.2, List.nil_append]
  | some x =>
    obtain ⟨cpb, dpb, a, b⟩ := x
    simp only at hh
    obtain ⟨ha, hb, hcpb, hdpb⟩ := hh
    have wa := BW.write_spec {} cpb (a + 1) BW.init_inv (by omega)
    have wb := BW.write_spec _ dpb (b + 1) wa.1 (by omega)
    have w0 := BW.write_spec _ ps 4 wb.1 (by decide)
    have w1 := foldl_avc_spec tol htol cs _ w0.1 hc
    have fl := BW.flush_spec _ w1.1
    have habs0 : ({} : BW).abs = [] := rfl
    rw [w1.2, w0.2, wb.2, wa.2, habs0, List.nil_append] at fl
    generalize hw : (List.foldl (fun w c => w.writeAll c.fields)
      (((({} : BW).write cpb (a + 1)).write dpb (b + 1)).write ps 4) cs) = w at fl
    have hlen8 := congrArg List.length fl.1
    simp [avcBits_length] at hlen8
    have hpad : (8 - w.n) % 8 < 8 := Nat.mod_lt _ (by decide)
    have hsz : w.flush.length = picTimingSize ⟨some (cpb, dpb, a, b), ps, cs⟩ := by
      simp only [picTimingSize]; omega
    have hpl : picTimingPayload ⟨some (cpb, dpb, a, b), ps, cs⟩ = w.flush := by
      simp only [picTimingPayload, sliceWriterBytes, hw, ← hsz, List.take_length]
    refine ⟨?_, by rw [hpl, hsz]⟩
    obtain ⟨i0, a0⟩ := br_init _ fl.2
    rw [fl.1] at a0
    simp only [List.append_assoc] at a0
    rw [hpl]
    obtain ⟨ra, ea, ia, aa⟩ := read_field i0 a0 hcpb (by omega)
    obtain ⟨rb, eb, ib, ab⟩ := read_field ia aa hdpb (by omega)
    obtain ⟨r1, e1, i1, a1⟩ := read_field ib ab (by omega) (by decide)
    obtain ⟨r2, e2, i2, a2⟩ := go_avc_spec tol htol cs r1 [] _ i1 a1 hc
    rw [hlen] at e2
    have hm : ps % 256 = ps := Nat.mod_eq_of_lt (by omega)
    have hng : ¬ ps > 8 := by omega
    simp only [decodePicTimingAvc, Option.map_some, ea, eb, e1, hm, hng, ↓reduceIte, e2, i2.2.2.2, List.nil_append]

end Mp4ff.Sei
