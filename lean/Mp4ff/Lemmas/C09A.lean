import Mp4ff.Model.SampleTables
/-!
C09 batch A: specification definitions and proofs (used by Props/C09.lean).
-/
namespace Mp4ff.Stbl

/-! ### helper lemmas -/
set_option linter.unusedVariables false

theorem le_foldl_max (l : List Nat) : ∀ (m : Nat), m ≤ l.foldl max m ∧ ∀ x ∈ l, x ≤ l.foldl max m := by
  induction l with
  | nil => intro m; simp
  | cons a l ih =>
    intro m
    simp only [List.foldl_cons, List.mem_cons]
    have := ih (max m a)
    refine ⟨by omega, ?_⟩
    intro x hx
    rcases hx with rfl | hx
    · omega
    · exact this.2 x hx

theorem sum_map_le_of_le (f : Nat → Nat) (M : Nat) (l : List Nat) (h : ∀ x ∈ l, f x ≤ M) :
    (l.map f).sum ≤ l.length * M := by
  induction l with
  | nil => simp
  | cons a l ih =>
    simp only [List.map_cons, List.sum_cons, List.length_cons]
    have h1 := h a (by simp)
    have h2 := ih (fun x hx => h x (by simp [hx]))
    rw [Nat.add_mul]; omega

theorem sum_map_const (u : Nat) (l : List Nat) : (l.map (fun _ => u)).sum = l.length * u := by
  induction l with
  | nil => simp
  | cons a l ih => simp only [List.map_cons, List.sum_cons, List.length_cons, ih, Nat.add_mul]; omega

theorem expandRuns_cons {α} (c : Nat) (cs : List Nat) (d : α) (ds : List α) :
    expandRuns (c :: cs) (d :: ds) = List.replicate c d ++ expandRuns cs ds := by
  simp [expandRuns]

theorem expandRuns_nil_left {α} (ds : List α) : expandRuns [] ds = [] := by
  simp [expandRuns]

theorem expandRuns_nil_right {α} (cs : List Nat) : expandRuns cs ([] : List α) = [] := by
  simp [expandRuns]

theorem sum_replicate_nat (c d : Nat) : (List.replicate c d).sum = c * d := by
  induction c with
  | zero => simp
  | succ n ih => rw [List.replicate_succ, List.sum_cons, ih, Nat.add_mul]; omega

theorem getDur_go_spec (cs : List Nat) : ∀ (ds : List Nat) (nr dur : Nat),
    nr < (expandRuns cs ds).length →
    Stts.getDur.go cs ds nr dur = (expandRuns cs ds).getD nr 0 := by
  induction cs with
  | nil => intro ds nr dur h; simp [expandRuns_nil_left] at h
  | cons c cs ih =>
    intro ds nr dur h
    cases ds with
    | nil => simp [expandRuns_nil_right] at h
    | cons d ds =>
      rw [expandRuns_cons] at h ⊢
      rw [List.length_append, List.length_replicate] at h
      unfold Stts.getDur.go
      rw [List.getD_eq_getElem?_getD, List.getElem?_append, List.length_replicate]
      by_cases hc : nr ≥ c
      · rw [if_pos hc, if_neg (by omega), ih ds (nr - c) d (by omega), List.getD_eq_getElem?_getD]
      · rw [if_neg hc, if_pos (by omega), List.getElem?_replicate, if_pos (by omega)]
        rfl

theorem getDecodeTime_go_spec (cs : List Nat) : ∀ (ds : List Nat) (rem dec : Nat),
    rem < (expandRuns cs ds).length → dec + (expandRuns cs ds).sum < U64 →
    Stts.getDecodeTime.go cs ds rem dec =
      some (dec + ((expandRuns cs ds).take rem).sum, (expandRuns cs ds).getD rem 0) := by
  induction cs with
  | nil => intro ds nr dur h; simp [expandRuns_nil_left] at h
  | cons c cs ih =>
    intro ds rem dec h hs
    cases ds with
    | nil => simp [expandRuns_nil_right] at h
    | cons d ds =>
      rw [expandRuns_cons] at h hs ⊢
      rw [List.length_append, List.length_replicate] at h
      rw [List.sum_append, sum_replicate_nat] at hs
      unfold Stts.getDecodeTime.go
      rw [List.getD_eq_getElem?_getD, List.getElem?_append, List.length_replicate,
        List.take_append, List.sum_append, List.take_replicate, sum_replicate_nat, List.length_replicate]
      by_cases hc : rem ≥ c
      · rw [if_pos hc, if_neg (by omega), Nat.mod_eq_of_lt (by omega),
          ih ds (rem - c) (dec + c * d) (by omega) (by omega), List.getD_eq_getElem?_getD,
          Nat.min_eq_right hc]
        simp only [Nat.add_assoc]
      · rw [if_neg hc, if_pos (show rem < c by omega), List.getElem?_replicate, if_pos (show rem < c by omega)]
        have hm : min rem c = rem := Nat.min_eq_left (by omega)
        have e0 : rem - c = 0 := by omega
        rw [hm, e0, List.take_zero, List.sum_nil, Nat.add_zero]
        have : rem * d ≤ c * d := Nat.mul_le_mul_right _ (by omega)
        by_cases hr : rem > 0
        · rw [if_pos hr, Nat.mod_eq_of_lt (by omega)]; rfl
        · rw [if_neg hr]
          have : rem = 0 := by omega
          subst this; simp

def MonoD (a : List Nat) : Prop := ∀ p q, p ≤ q → q < a.length → a.getD p 0 ≤ a.getD q 0

theorem bsearchGE_spec (a : List Nat) (x : Nat) (hm : MonoD a) : ∀ (fuel i j : Nat),
    i ≤ j → j ≤ a.length → j - i < fuel →
    (∀ p, p < i → a.getD p 0 < x) → (∀ p, j ≤ p → p < a.length → x ≤ a.getD p 0) →
    i ≤ bsearchGE a x fuel i j ∧ bsearchGE a x fuel i j ≤ j ∧
    (∀ p, p < bsearchGE a x fuel i j → a.getD p 0 < x) ∧
    (∀ p, bsearchGE a x fuel i j ≤ p → p < a.length → x ≤ a.getD p 0) := by
  intro fuel
  induction fuel with
  | zero => intro i j _ _ h; omega
  | succ fuel ih =>
    intro i j hij hj hf hlo hhi
    unfold bsearchGE
    by_cases hlt : i < j
    · rw [if_pos hlt]
      simp only []
      have hh1 : i ≤ (i + j) / 2 := by omega
      have hh2 : (i + j) / 2 < j := by omega
      by_cases hc : a.getD ((i + j) / 2) 0 < x
      · rw [if_pos hc]
        have := ih ((i + j) / 2 + 1) j (by omega) hj (by omega)
          (by intro p hp
              have := hm p ((i + j) / 2) (by omega) (by omega)
              omega) hhi
        exact ⟨by omega, by omega, this.2.2.1, this.2.2.2⟩
      · rw [if_neg hc]
        have := ih i ((i + j) / 2) (by omega) (by omega) (by omega) hlo
          (by intro p hp hpl
              have := hm ((i + j) / 2) p (by omega) (by omega)
              omega)
        exact ⟨by omega, by omega, this.2.2.1, this.2.2.2⟩
    · rw [if_neg hlt]
      have : i = j := by omega
      subst this
      exact ⟨Nat.le_refl _, Nat.le_refl _, hlo, hhi⟩

theorem monoD_of_pairwise_lt (l : List Nat) (h : l.Pairwise (· < ·)) : MonoD l := by
  intro p q hpq hq
  rw [List.pairwise_iff_getElem] at h
  rw [List.getD_eq_getElem?_getD, List.getD_eq_getElem?_getD,
    List.getElem?_eq_getElem hq, List.getElem?_eq_getElem (show p < l.length by omega)]
  simp only [Option.getD_some]
  by_cases e : p = q
  · subst e; exact Nat.le_refl _
  · exact Nat.le_of_lt (h p q (by omega) hq (by omega))

def psums (s : Nat) : List Nat → List Nat
  | [] => []
  | c :: cs => (s + c) :: psums (s + c) cs

theorem ofCounts_foldl (cs : List Nat) : ∀ (acc : List Nat) (s : Nat), s + cs.sum < U32 →
    (cs.foldl (fun (acc : List Nat × Nat) c => let e := (acc.2 + c) % U32; (acc.1 ++ [e], e)) (acc, s)).1
      = acc ++ psums s cs := by
  induction cs with
  | nil => intro acc s _; simp [psums]
  | cons c cs ih =>
    intro acc s h
    rw [List.sum_cons] at h
    rw [List.foldl_cons]
    simp only []
    rw [Nat.mod_eq_of_lt (by omega), ih _ _ (by omega)]
    simp [psums]

theorem psums_length (cs : List Nat) : ∀ s, (psums s cs).length = cs.length := by
  induction cs with
  | nil => intro s; rfl
  | cons c cs ih => intro s; simp [psums, ih]

theorem psums_getD (cs : List Nat) : ∀ s i, i < cs.length →
    (psums s cs).getD i 0 = s + (cs.take (i + 1)).sum := by
  induction cs with
  | nil => intro s i h; simp at h
  | cons c cs ih =>
    intro s i h
    cases i with
    | zero => simp [psums]
    | succ i =>
      simp only [psums, List.getD_cons_succ, List.take_succ_cons, List.sum_cons]
      rw [ih (s + c) i (by simpa using h)]
      omega

theorem ends_getD (cs : List Nat) (i : Nat) (h : i ≤ cs.length) :
    (0 :: psums 0 cs).getD i 0 = (cs.take i).sum := by
  cases i with
  | zero => simp
  | succ i => rw [List.getD_cons_succ, psums_getD cs 0 i (by omega)]; omega

theorem sum_take_mono (l : List Nat) : ∀ p q, p ≤ q → (l.take p).sum ≤ (l.take q).sum := by
  induction l with
  | nil => intro p q _; simp
  | cons a l ih =>
    intro p q h
    cases p with
    | zero => simp
    | succ p =>
      cases q with
      | zero => omega
      | succ q =>
        simp only [List.take_succ_cons, List.sum_cons]
        have := ih p q (by omega); omega

theorem expandRuns_getElem? {α} (cs : List Nat) : ∀ (ds : List α) (i m : Nat),
    cs.length = ds.length → i < cs.length →
    (cs.take i).sum ≤ m → m < (cs.take (i + 1)).sum →
    (expandRuns cs ds)[m]? = ds[i]? := by
  induction cs with
  | nil => intro ds i m _ h; simp at h
  | cons c cs ih =>
    intro ds i m hl hi h1 h2
    cases ds with
    | nil => simp at hl
    | cons d ds =>
      rw [expandRuns_cons, List.getElem?_append, List.length_replicate]
      cases i with
      | zero =>
        simp only [List.take_succ_cons, List.take_zero, List.sum_cons, List.sum_nil] at h2
        rw [if_pos (by omega), List.getElem?_replicate, if_pos (by omega)]
        simp
      | succ i =>
        simp only [List.take_succ_cons, List.sum_cons] at h1 h2
        rw [if_neg (by omega), List.getElem?_cons_succ]
        exact ih ds i (m - c) (by simpa using hl) (by simpa using hi) (by omega) (by omega)

theorem sum_take_replicate_append (c d : Nat) (E : List Nat) (i : Nat) :
    ((List.replicate c d ++ E).take i).sum = (min i c) * d + (E.take (i - c)).sum := by
  rw [List.take_append, List.sum_append, List.take_replicate, sum_replicate_nat, List.length_replicate]

theorem ceil_facts (rel d c : Nat) (hd : 0 < d) (h : rel < c * d) :
    let k := if rel % d ≠ 0 then rel / d + 1 else rel / d
    k ≤ c ∧ rel ≤ k * d ∧ ∀ i, i < k → i * d < rel := by
  intro k
  have hdm := Nat.div_add_mod rel d
  have hml := Nat.mod_lt rel hd
  have hk0 : rel / d < c := Nat.div_lt_of_lt_mul (by rw [Nat.mul_comm]; exact h)
  have hcomm : d * (rel / d) = rel / d * d := Nat.mul_comm _ _
  by_cases hr : rel % d ≠ 0
  · have hk : k = rel / d + 1 := if_pos hr
    rw [hk]
    refine ⟨by omega, by rw [Nat.add_mul]; omega, ?_⟩
    intro i hi
    have : i * d ≤ rel / d * d := Nat.mul_le_mul_right _ (by omega)
    omega
  · have hk : k = rel / d := if_neg hr
    rw [hk]
    refine ⟨by omega, by omega, ?_⟩
    intro i hi
    have : (i + 1) * d ≤ rel / d * d := Nat.mul_le_mul_right _ (by omega)
    rw [Nat.add_mul] at this
    omega

theorem sampleNr_go_spec (b : Stts) (t : Nat) (hb : b.delta.getLast? ≠ some 0) (cs : List Nat) :
    ∀ (ds : List Nat) (accTime accNr : Nat),
    cs.length = ds.length → (∀ d ∈ ds, 0 < d) → accTime ≤ t →
    accTime + (expandRuns cs ds).sum < U64 → accNr + (expandRuns cs ds).length + 1 < U32 →
    (t < accTime + (expandRuns cs ds).sum →
      ∃ j, Stts.getSampleNrAtTime.go b t cs ds accTime accNr = some (accNr + j + 1) ∧
        j ≤ (expandRuns cs ds).length ∧ t ≤ accTime + ((expandRuns cs ds).take j).sum ∧
        ∀ i, i < j → accTime + ((expandRuns cs ds).take i).sum < t) ∧
    (accTime + (expandRuns cs ds).sum ≤ t → Stts.getSampleNrAtTime.go b t cs ds accTime accNr = none) := by
  induction cs with
  | nil =>
    intro ds accTime accNr hl _ hat _ _
    rw [expandRuns_nil_left]
    refine ⟨by intro h; simp at h; omega, ?_⟩
    intro _
    unfold Stts.getSampleNrAtTime.go
    split
    · rename_i h1 _; exact absurd h1 hb
    · rfl
  | cons c cs ih =>
    intro ds accTime accNr hl hpos hat hsum hnr
    cases ds with
    | nil => simp at hl
    | cons d ds =>
      have hd : 0 < d := hpos d (by simp)
      rw [expandRuns_cons] at hsum hnr ⊢
      rw [List.sum_append, sum_replicate_nat] at hsum ⊢
      rw [List.length_append, List.length_replicate] at hnr ⊢
      unfold Stts.getSampleNrAtTime.go
      have hcomm : d * c = c * d := Nat.mul_comm _ _
      rw [hcomm, Nat.mod_eq_of_lt (show c * d < U64 by omega),
        Nat.mod_eq_of_lt (show accTime + c * d < U64 by omega)]
      by_cases hlt : t < accTime + c * d
      · rw [if_pos hlt]
        have hrel : (t + U64 - accTime) % U64 = t - accTime := by
          have : t + U64 - accTime = (t - accTime) + U64 := by omega
          rw [this, Nat.add_mod_right, Nat.mod_eq_of_lt (by omega)]
        simp only [hrel]
        obtain ⟨k1, k2, k3⟩ := ceil_facts (t - accTime) d c hd (by omega)
        generalize (if (t - accTime) % d ≠ 0 then (t - accTime) / d + 1 else (t - accTime) / d) = k at *
        refine ⟨?_, by intro h; omega⟩
        intro _
        refine ⟨k, ?_, by omega, ?_, ?_⟩
        · rw [Nat.mod_eq_of_lt (show k < U32 by omega), Nat.mod_eq_of_lt (by omega)]
        · rw [sum_take_replicate_append, Nat.min_eq_left k1]; omega
        · intro i hi
          rw [sum_take_replicate_append, Nat.min_eq_left (by omega)]
          have e0 : i - c = 0 := by omega
          rw [e0, List.take_zero, List.sum_nil]
          have := k3 i hi
          omega
      · rw [if_neg hlt, Nat.mod_eq_of_lt (show accNr + c < U32 by omega)]
        obtain ⟨ih1, ih2⟩ := ih ds (accTime + c * d) (accNr + c) (by simpa using hl)
          (fun x hx => hpos x (by simp [hx])) (by omega) (by omega) (by omega)
        refine ⟨?_, by intro h; exact ih2 (by omega)⟩
        intro h
        obtain ⟨j, g1, g2, g3, g4⟩ := ih1 (by omega)
        refine ⟨c + j, ?_, by omega, ?_, ?_⟩
        · rw [g1]; congr 1; omega
        · rw [sum_take_replicate_append, Nat.min_eq_right (by omega)]
          have e0 : c + j - c = j := by omega
          rw [e0]; omega
        · intro i hi
          rw [sum_take_replicate_append]
          by_cases hic : i < c
          · have e0 : i - c = 0 := by omega
            rw [e0, List.take_zero, List.sum_nil, Nat.min_eq_left (by omega)]
            have : (i + 1) * d ≤ c * d := Nat.mul_le_mul_right _ (by omega)
            rw [Nat.add_mul] at this
            omega
          · rw [Nat.min_eq_right (by omega)]
            have := g4 (i - c) (by omega)
            omega

/-! ### stts -/
def Stts.OK (b : Stts) : Prop := b.count.length = b.delta.length ∧ b.durations.sum < U64

/-- decode time and duration of every sample 1..N -/
theorem getDecodeTime_spec (b : Stts) (h : b.OK) (n : Nat) (h1 : 1 ≤ n) (hn : n ≤ b.durations.length) :
    b.getDecodeTime n = some (naiveDecodeTime b.durations n, b.durations.getD (n - 1) 0) := by
  unfold Stts.getDecodeTime
  rw [if_neg (by omega)]
  unfold Stts.durations at *
  have := getDecodeTime_go_spec b.count b.delta (n - 1) 0 (by omega) (by have := h.2; unfold Stts.durations at this; omega)
  simp only [this, naiveDecodeTime, Nat.zero_add]

theorem getDur_spec (b : Stts) (h : b.OK) (n : Nat) (h1 : 1 ≤ n) (hn : n ≤ b.durations.length) :
    b.getDur n = some (b.durations.getD (n - 1) 0) := by
  unfold Stts.getDur
  rw [if_neg (by omega)]
  unfold Stts.durations at *
  simp only [getDur_go_spec b.count b.delta (n - 1) 0 (by omega)]

/-- start time of sample k (1-based); sample N+1 is the virtual sample starting at the end of the track -/
def startTime (durs : List Nat) (k : Nat) : Nat := (durs.take (k - 1)).sum

/-- sample at a time (all durations positive): the least k in 1..N+1 whose start time is ≥ t, for every t
    before the end of the track; from the end on, an error -/
theorem getSampleNrAtTime_spec (b : Stts) (h : b.OK) (hpos : ∀ d ∈ b.delta, 0 < d) (hc : ∀ c ∈ b.count, 0 < c)
    (hN : b.durations.length + 1 < U32) (t : Nat) :
    (t < b.durations.sum →
      ∃ k, b.getSampleNrAtTime t = some k ∧ 1 ≤ k ∧ k ≤ b.durations.length + 1 ∧
        t ≤ startTime b.durations k ∧ ∀ j, 1 ≤ j → j < k → startTime b.durations j < t) ∧
    (b.durations.sum ≤ t → b.getSampleNrAtTime t = none) := by
  obtain ⟨hl, hs⟩ := h
  unfold Stts.durations at *
  have hb : b.delta.getLast? ≠ some 0 := by
    intro e
    have := hpos 0 (List.mem_of_getLast? e)
    omega
  obtain ⟨p1, p2⟩ := sampleNr_go_spec b t hb b.count b.delta 0 0 hl hpos (Nat.zero_le _) (by omega) (by omega)
  unfold Stts.getSampleNrAtTime
  refine ⟨?_, by intro h; exact p2 (by omega)⟩
  intro h
  obtain ⟨j, g1, g2, g3, g4⟩ := p1 (by omega)
  refine ⟨j + 1, by rw [g1]; congr 1; omega, by omega, by omega, ?_, ?_⟩
  · unfold startTime; simpa using g3
  · intro i hi1 hi2
    unfold startTime
    have := g4 (i - 1) (by omega)
    omega

/-! ### ctts -/
/-- composition offset of every sample (zero-count entries allowed) -/
theorem getCto_spec (counts : List Nat) (offs : List Int) (hl : counts.length = offs.length)
    (hs : counts.sum < U32) (n : Nat) (h1 : 1 ≤ n) (hn : n ≤ counts.sum) :
    (Ctts.ofCounts counts offs).getCto n = (expandRuns counts offs)[n - 1]? := by
  have hE : (Ctts.ofCounts counts offs).endSampleNr = 0 :: psums 0 counts := by
    unfold Ctts.ofCounts
    simp only []
    rw [ofCounts_foldl counts [0] 0 (by omega)]; rfl
  have hO : (Ctts.ofCounts counts offs).offset = offs := rfl
  unfold Ctts.getCto
  rw [if_neg (by omega), hE, hO]
  simp only []
  have hlen : (0 :: psums 0 counts).length = counts.length + 1 := by simp [psums_length]
  have hm : MonoD (0 :: psums 0 counts) := by
    intro p q hpq hq
    rw [hlen] at hq
    rw [ends_getD counts p (by omega), ends_getD counts q (by omega)]
    exact sum_take_mono counts p q hpq
  obtain ⟨_, h2, h3, h4⟩ := bsearchGE_spec (0 :: psums 0 counts) n hm ((0 :: psums 0 counts).length + 1) 0
    (0 :: psums 0 counts).length (by omega) (by omega) (by omega)
    (by intro p hp; omega) (by intro p hp hp'; omega)
  generalize bsearchGE (0 :: psums 0 counts) n ((0 :: psums 0 counts).length + 1) 0
    (0 :: psums 0 counts).length = r at *
  rw [hlen] at h2 h4
  have hr0 : r ≠ 0 := by
    intro e
    have := h4 0 (by omega) (by omega)
    simp at this; omega
  have hrl : r ≤ counts.length := by
    by_cases e : r ≤ counts.length
    · exact e
    · have := h3 counts.length (by omega)
      rw [ends_getD counts _ (Nat.le_refl _), List.take_length] at this
      omega
  rw [if_neg hr0]
  have a1 := h3 (r - 1) (by omega)
  rw [ends_getD counts _ (by omega)] at a1
  have a2 := h4 r (Nat.le_refl _) (by omega)
  rw [ends_getD counts _ hrl] at a2
  have e : r - 1 + 1 = r := by omega
  exact (expandRuns_getElem? counts offs (r - 1) (n - 1) hl (by omega) (by omega) (by rw [e]; omega)).symm

/-! ### stss -/
theorem isSyncSample_spec (nums : List Nat) (hs : nums.Pairwise (· < ·)) (n : Nat) :
    isSyncSample nums n = decide (n ∈ nums) := by
  have hm := monoD_of_pairwise_lt nums hs
  obtain ⟨_, h2, h3, h4⟩ := bsearchGE_spec nums n hm (nums.length + 1) 0 nums.length (by omega) (by omega) (by omega)
    (by intro p hp; omega) (by intro p hp hp'; omega)
  unfold isSyncSample
  simp only []
  generalize bsearchGE nums n (nums.length + 1) 0 nums.length = r at *
  rw [decide_eq_decide]
  constructor
  · rintro ⟨hr, he⟩
    rw [List.getD_eq_getElem?_getD, List.getElem?_eq_getElem hr] at he
    simp only [Option.getD_some] at he
    rw [← he]; exact List.getElem_mem hr
  · intro hmem
    obtain ⟨p, hp, rfl⟩ := List.getElem_of_mem hmem
    have hg : nums.getD p 0 = nums[p] := by
      rw [List.getD_eq_getElem?_getD, List.getElem?_eq_getElem hp]; rfl
    by_cases hpr : p < r
    · have := h3 p hpr; omega
    · have a1 := h4 r (by omega) (by omega)
      have a2 := hm r p (by omega) hp
      exact ⟨by omega, by omega⟩

/-! ### stsz -/
def Stsz.OK (b : Stsz) : Prop :=
  (b.uniform = 0 → b.sizes.length = b.sampleNumber) ∧ (b.uniform ≠ 0 → b.sizes = []) ∧
  b.sampleNumber * (if b.uniform ≠ 0 then b.uniform else (b.sizes.foldl max 0)) < U64

def Stsz.sizeOf (b : Stsz) (n : Nat) : Nat := if b.uniform ≠ 0 then b.uniform else b.sizes.getD (n - 1) 0

theorem getSampleSize_spec (b : Stsz) (h : b.OK) (n : Nat) (h1 : 1 ≤ n) (hn : n ≤ b.sampleNumber) :
    b.getSampleSize n = some (b.sizeOf n) := by
  obtain ⟨ha, hb, _⟩ := h
  unfold Stsz.getSampleSize Stsz.sizeOf
  by_cases hu : b.uniform = 0
  · have hl := ha hu
    rw [if_neg (by omega), if_neg (by omega), if_neg (by simp [hu])]
    rw [List.getD_eq_getElem?_getD, List.getElem?_eq_getElem (by omega)]
    simp
  · have hl := hb hu
    rw [if_pos (by simp [hl]; omega), if_pos hu]

theorem getTotalSampleSize_spec (b : Stsz) (h : b.OK) (a c : Nat) (h1 : 1 ≤ a) (hac : a ≤ c + 1) (hn : c ≤ b.sampleNumber) :
    b.getTotalSampleSize a c = some (((List.range' a (c + 1 - a)).map b.sizeOf).sum) := by
  obtain ⟨ha, hb, hc⟩ := h
  unfold Stsz.getTotalSampleSize
  rw [if_neg (by omega)]
  by_cases hlt : c < a
  · rw [if_pos hlt]
    have : c + 1 - a = 0 := by omega
    rw [this]; simp
  · rw [if_neg hlt]
    by_cases hu : b.uniform = 0
    · rw [if_neg (by simp [hu])]
      have hf : b.sizeOf = fun nr => b.sizes.getD (nr - 1) 0 := by
        funext nr; unfold Stsz.sizeOf; rw [if_neg (by simp [hu])]
      rw [hf]
      congr 1
      apply Nat.mod_eq_of_lt
      rw [if_neg (by simp [hu])] at hc
      have hle := sum_map_le_of_le (fun nr => b.sizes.getD (nr - 1) 0) (b.sizes.foldl max 0)
        (List.range' a (c + 1 - a)) (by
          intro x _
          show b.sizes.getD (x - 1) 0 ≤ _
          rw [List.getD_eq_getElem?_getD]
          by_cases hx : x - 1 < b.sizes.length
          · rw [List.getElem?_eq_getElem hx]
            exact (le_foldl_max b.sizes 0).2 _ (List.getElem_mem hx)
          · rw [List.getElem?_eq_none (by omega)]; simp)
      rw [List.length_range'] at hle
      have : (c + 1 - a) * (b.sizes.foldl max 0) ≤ b.sampleNumber * (b.sizes.foldl max 0) :=
        Nat.mul_le_mul_right _ (by omega)
      omega
    · rw [if_pos hu]
      have hf : b.sizeOf = fun _ => b.uniform := by
        funext nr; unfold Stsz.sizeOf; rw [if_pos hu]
      rw [hf, sum_map_const, List.length_range']
      rw [if_pos hu] at hc
      have : (c + 1 - a) * b.uniform ≤ b.sampleNumber * b.uniform :=
        Nat.mul_le_mul_right _ (by omega)
      have e : c - a + 1 = c + 1 - a := by omega
      rw [e, Nat.mod_eq_of_lt (by omega)]

/-! ### stco / co64 -/
theorem getOffset_spec (offs : List Nat) (c : Nat) :
    getOffset offs c = if 1 ≤ c ∧ c ≤ offs.length then offs[c - 1]? else none := by
  unfold getOffset
  by_cases h : c = 0 ∨ c > offs.length
  · rw [if_pos h, if_neg (by omega)]
  · rw [if_neg h, if_pos (by omega)]

end Mp4ff.Stbl
