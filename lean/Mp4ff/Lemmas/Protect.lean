import Mp4ff.Model.Protect
/-!
Proofs about the box bookkeeping of Common Encryption (`Mp4ff.Model.Protect`): auxiliary boxes built by the
per-sample loop, structure and sizes of an encrypted fragment, saio offset = position of the first senc entry,
what `DecryptFragment` removes and how it shifts the data offsets, decrypt ∘ write ∘ encrypt, sample entries.
-/
set_option linter.unusedSimpArgs false

namespace Mp4ff.Protect

/-! ## sizes -/

@[simp] theorem sizes_nil : sizes [] = 0 := rfl
@[simp] theorem sizes_cons (c : TrafChild) (l : List TrafChild) : sizes (c :: l) = c.size + sizes l := by
  simp [sizes]
@[simp] theorem sizes_append (a b : List TrafChild) : sizes (a ++ b) = sizes a + sizes b := by
  simp [sizes]
@[simp] theorem msizes_nil : msizes [] = 0 := rfl
@[simp] theorem msizes_cons (c : MoofChild) (l : List MoofChild) : msizes (c :: l) = c.size + msizes l := by
  simp [msizes]
@[simp] theorem msizes_append (a b : List MoofChild) : msizes (a ++ b) = msizes a + msizes b := by
  simp [msizes]

theorem saio_one_size (o : Int) : Saio.size { offsets := [o] } = 20 := by
  simp [Saio.size]

theorem senc_size_ge (s : Senc) : 16 ≤ s.calcSize := by
  unfold Senc.calcSize; omega

/-! ## the per-sample loop: saiz and senc in closed form -/

/-- the Go loop of `SencBox.calcSize`: `n` samples left, `subs` = remaining `SubSamples` entries; `none` = index out of range -/
def sencLoop (ivSize : Nat) (flag : Bool) : Nat → List Nat → Option Nat
  | 0, _ => some 0
  | n + 1, subs =>
    if flag then
      match subs with
      | [] => none
      | k :: rest => (sencLoop ivSize flag n rest).map (· + (ivSize + (2 + 6 * k)))
    else (sencLoop ivSize flag n subs).map (· + ivSize)

/-- the closed form used by the model is what the Go loop computes when there is one `SubSamples` entry per sample
    (or the flag is not set) -/
theorem sencLoop_eq (s : Senc) (h : s.subFlag = true → s.subs.length = s.sampleCount) :
    (sencLoop s.ivSize s.subFlag s.sampleCount s.subs).map (16 + ·) = some s.calcSize := by
  unfold Senc.calcSize
  cases hf : s.subFlag with
  | false =>
    have : ∀ n l, sencLoop s.ivSize false n l = some (n * s.ivSize) := by
      intro n; induction n with
      | zero => intro l; simp [sencLoop]
      | succ n ih => intro l; simp [sencLoop, ih, Nat.succ_mul]
    simp [this]
  | true =>
    have hl := h hf
    have : ∀ n (l : List Nat), l.length = n →
        sencLoop s.ivSize true n l = some (n * s.ivSize + (l.map fun k => 2 + 6 * k).sum) := by
      intro n; induction n with
      | zero => intro l hl; simp [sencLoop]; cases l <;> simp_all
      | succ n ih =>
        intro l hl
        cases l with
        | nil => simp at hl
        | cons k rest =>
          simp at hl
          simp [sencLoop, ih rest hl, Nat.succ_mul]; omega
    simp [this _ _ hl]; omega

theorem sampleInfoSize_zero (iv : Nat) : sampleInfoSize iv 0 = iv := by simp [sampleInfoSize]
theorem sampleInfoSize_pos (iv n : Nat) (h : n > 0) : sampleInfoSize iv n = iv + 2 + 6 * n := by
  simp [sampleInfoSize, h]; omega

/-- all samples have sub-sample entries: saiz gets one table entry per sample, senc one count list per sample -/
theorem buildAux_pos (iv : Nat) : ∀ (subs : List Nat) (a : Saiz) (s : Senc),
    (∀ n ∈ subs, n > 0 ∧ sampleInfoSize iv n ≤ 255) →
    (iv ≠ 0 → s.sampleCount ≠ 0 → s.ivSize = iv) →
    buildAux iv subs a s = some
      ({ a with info := a.info ++ subs.map (sampleInfoSize iv), sampleCount := a.sampleCount + subs.length },
       { s with ivSize := if iv ≠ 0 ∧ s.sampleCount = 0 ∧ subs ≠ [] then iv else s.ivSize,
                subs := s.subs ++ subs, subFlag := s.subFlag || !subs.isEmpty,
                sampleCount := s.sampleCount + subs.length }) := by
  intro subs
  induction subs with
  | nil => intro a s _ _; simp [buildAux]
  | cons n rest ih =>
    intro a s h hinv
    have hn := h n (by simp)
    have hpos : sampleInfoSize iv n > 0 := by unfold sampleInfoSize; simp [hn.1]; omega
    have hmod : sampleInfoSize iv n % 256 = sampleInfoSize iv n := Nat.mod_eq_of_lt (by omega)
    have hadd : a.addSampleInfo iv n = some { a with info := a.info ++ [sampleInfoSize iv n], sampleCount := a.sampleCount + 1 } := by
      simp [Saiz.addSampleInfo, hn.1, hpos, hmod]
    simp only [buildAux, hadd]
    have hrest : ∀ m ∈ rest, m > 0 ∧ sampleInfoSize iv m ≤ 255 := fun m hm => h m (by simp [hm])
    by_cases hiv : iv = 0
    · subst hiv
      have hs : s.addSample 0 n = { s with subs := s.subs ++ [n], subFlag := true, sampleCount := s.sampleCount + 1 } := by
        simp [Senc.addSample, hn.1]
      rw [hs, ih _ _ hrest (by simp)]
      simp [Nat.add_assoc, Nat.add_comm 1]
    · by_cases hc : s.sampleCount = 0
      · have hs : s.addSample iv n = { s with ivSize := iv, subs := s.subs ++ [n], subFlag := true, sampleCount := s.sampleCount + 1 } := by
          simp [Senc.addSample, hn.1, hiv, hc]
        rw [hs, ih _ _ hrest (by simp)]
        simp [hiv, hc, Nat.add_assoc, Nat.add_comm 1]
      · have hi := hinv hiv hc
        have hs : s.addSample iv n = { s with subs := s.subs ++ [n], subFlag := true, sampleCount := s.sampleCount + 1 } := by
          simp [Senc.addSample, hn.1, hiv, hc, hi]
        rw [hs, ih _ _ hrest (by simp; intro _; exact hi)]
        simp [hiv, hc, Nat.add_assoc, Nat.add_comm 1]


/-- no sample has sub-sample entries: saiz gets the IV size as default (nothing at all without per-sample IVs) -/
theorem buildAux_zero (iv : Nat) (hiv255 : iv ≤ 255) : ∀ (subs : List Nat) (a : Saiz) (s : Senc),
    (∀ n ∈ subs, n = 0) →
    (a.defaultSize = 0 ∨ a.defaultSize = iv) →
    (iv ≠ 0 → s.sampleCount ≠ 0 → s.ivSize = iv) →
    buildAux iv subs a s = some
      ({ a with defaultSize := if iv ≠ 0 ∧ subs ≠ [] then iv else a.defaultSize,
                sampleCount := a.sampleCount + (if iv ≠ 0 then subs.length else 0) },
       { s with ivSize := if iv ≠ 0 ∧ s.sampleCount = 0 ∧ subs ≠ [] then iv else s.ivSize,
                sampleCount := s.sampleCount + subs.length }) := by
  intro subs
  induction subs with
  | nil => intro a s _ _ _; simp [buildAux]
  | cons n rest ih =>
    intro a s h ha hinv
    have hn : n = 0 := h n (by simp)
    subst hn
    have hrest : ∀ m ∈ rest, m = 0 := fun m hm => h m (by simp [hm])
    by_cases hiv : iv = 0
    · subst hiv
      have hadd : a.addSampleInfo 0 0 = some a := by simp [Saiz.addSampleInfo, sampleInfoSize]
      have hs : s.addSample 0 0 = { s with sampleCount := s.sampleCount + 1 } := by simp [Senc.addSample]
      simp only [buildAux, hadd, hs]
      rw [ih _ _ hrest ha (by simp)]
      simp [Nat.add_assoc, Nat.add_comm 1]
    · have hmod : iv % 256 = iv := Nat.mod_eq_of_lt (by omega)
      have hpos : iv > 0 := Nat.pos_of_ne_zero hiv
      have hadd : a.addSampleInfo iv 0 = some { a with defaultSize := iv, sampleCount := a.sampleCount + 1 } := by
        rcases ha with ha | ha
        · simp [Saiz.addSampleInfo, sampleInfoSize, hpos, ha, hmod]
        · simp [Saiz.addSampleInfo, sampleInfoSize, hpos, ha, hmod, hiv]
      simp only [buildAux, hadd]
      by_cases hc : s.sampleCount = 0
      · have hs : s.addSample iv 0 = { s with ivSize := iv, sampleCount := s.sampleCount + 1 } := by
          simp [Senc.addSample, hiv, hc]
        rw [hs, ih _ _ hrest (by simp) (by simp)]
        simp [hiv, hc, Nat.add_assoc, Nat.add_comm 1]
      · have hi := hinv hiv hc
        have hs : s.addSample iv 0 = { s with sampleCount := s.sampleCount + 1 } := by
          simp [Senc.addSample, hiv, hc, hi]
        rw [hs, ih _ _ hrest (by simp) (by simp; intro _; exact hi)]
        simp [hiv, hc, Nat.add_assoc, Nat.add_comm 1]

/-- how a reader finds the auxiliary information size of sample `i` in a saiz box -/
def Saiz.entry (a : Saiz) (i : Nat) : Nat := if a.defaultSize ≠ 0 then a.defaultSize else a.info.getD i 0

theorem subsOk_cases {iv : Nat} {subs : List Nat} (h : subsOk iv subs = true) :
    (∀ n ∈ subs, sampleInfoSize iv n ≤ 255) ∧ ((∀ n ∈ subs, n > 0) ∨ (∀ n ∈ subs, n = 0)) := by
  simp [subsOk] at h
  exact ⟨h.1, h.2⟩

theorem sum_map_const_add (l : List Nat) (c : Nat) (g : Nat → Nat) :
    (l.map fun n => c + g n).sum = l.length * c + (l.map g).sum := by
  induction l with
  | nil => simp
  | cons x xs ih => simp [ih, Nat.succ_mul]; omega

theorem sum_map_const (l : List Nat) (c : Nat) : (l.map fun _ => c).sum = l.length * c := by
  induction l with
  | nil => simp
  | cons x xs ih => simp [ih, Nat.succ_mul]; omega

theorem sum_info_pos (iv : Nat) (subs : List Nat) (hpos : ∀ n ∈ subs, n > 0) :
    (subs.map (sampleInfoSize iv)).sum = subs.length * iv + (subs.map fun n => 2 + 6 * n).sum := by
  have : (subs.map (sampleInfoSize iv)) = subs.map (fun n => iv + (2 + 6 * n)) := by
    apply List.map_congr_left
    intro n hn
    rw [sampleInfoSize_pos _ _ (hpos n hn)]; omega
  rw [this, sum_map_const_add]

theorem sum_info_zero (iv : Nat) (subs : List Nat) (hzero : ∀ n ∈ subs, n = 0) :
    (subs.map (sampleInfoSize iv)).sum = subs.length * iv := by
  have : subs.map (sampleInfoSize iv) = subs.map (fun _ => iv) := by
    apply List.map_congr_left
    intro n hn
    rw [hzero n hn, sampleInfoSize_zero]
  rw [this, sum_map_const]

/-- **the auxiliary boxes `EncryptFragment` builds** (whenever it builds them): senc holds one entry per sample and its
    size is header + the sum of the per-sample auxiliary information sizes; saiz describes exactly these sizes: entry `i`
    (default or table) = IV size + (2 + 6·sub-samples when sub-samples are used), its sample count is the number of
    samples unless no sample has any auxiliary information (constant IV, no sub-samples: count 0, nothing in senc) -/
theorem auxBoxes_spec {sc : Scheme} {subs : List Nat} {a : Saiz} {s : Senc} (h : auxBoxes sc subs = some (a, s)) :
    s.sampleCount = subs.length ∧
    s.size = 16 + (subs.map (sampleInfoSize sc.ivLen)).sum ∧
    s.readSize = 0 ∧ s.parsed = true ∧
    (s.subFlag = true → s.subs = subs) ∧
    (subs ≠ [] → s.ivSize = sc.ivLen) ∧
    (∀ i, (hi : i < subs.length) → a.entry i = sampleInfoSize sc.ivLen subs[i]) ∧
    (∀ n ∈ subs, sampleInfoSize sc.ivLen n ≤ 255) ∧
    a.sampleCount = (if sc.ivLen = 0 ∧ (∀ n ∈ subs, n = 0) then 0 else subs.length) ∧
    a.auxType = false ∧ (a.defaultSize = 0 → a.info.length = a.sampleCount) := by
  unfold auxBoxes at h
  split at h
  · rename_i hok
    obtain ⟨h255, hcase⟩ := subsOk_cases hok
    have hiv255 : sc.ivLen ≤ 255 := by cases sc <;> simp [Scheme.ivLen]
    by_cases hnil : subs = []
    · subst hnil
      simp [buildAux] at h
      obtain ⟨rfl, rfl⟩ := h
      simp [Senc.size, Senc.calcSize]
    rcases hcase with hpos | hzero
    · rw [buildAux_pos sc.ivLen subs {} {} (fun n hn => ⟨hpos n hn, h255 n hn⟩) (by simp)] at h
      simp at h
      obtain ⟨rfl, rfl⟩ := h
      have hne : subs.isEmpty = false := by cases subs <;> simp_all
      refine ⟨by simp, ?_, rfl, rfl, by simp, ?_, ?_, h255, ?_, rfl, by simp⟩
      · rw [sum_info_pos _ _ hpos]
        by_cases h0 : sc.ivLen = 0 <;> simp [Senc.size, Senc.calcSize, hne, h0, hnil] <;> omega
      · intro _; by_cases h0 : sc.ivLen = 0 <;> simp [h0, hnil]
      · intro i hi
        simp [Saiz.entry, hi]
      · have : ¬ (∀ n ∈ subs, n = 0) := by
          intro hz
          cases subs with
          | nil => exact hnil rfl
          | cons x xs => have := hpos x (by simp); have := hz x (by simp); omega
        simp [this]
    · rw [buildAux_zero sc.ivLen hiv255 subs {} {} hzero (by simp) (by simp)] at h
      simp at h
      obtain ⟨rfl, rfl⟩ := h
      refine ⟨by simp, ?_, rfl, rfl, by simp, ?_, ?_, h255, ?_, rfl, ?_⟩
      · rw [sum_info_zero _ _ hzero]
        by_cases h0 : sc.ivLen = 0 <;> simp [Senc.size, Senc.calcSize, h0, hnil]
      · intro _; by_cases h0 : sc.ivLen = 0 <;> simp [h0, hnil]
      · intro i hi
        have : subs[i] = 0 := hzero _ (List.getElem_mem hi)
        rw [this, sampleInfoSize_zero]
        by_cases h0 : sc.ivLen = 0 <;> simp [Saiz.entry, h0, hnil]
      · by_cases h0 : sc.ivLen = 0
        · simp [h0]
          intro x hx hne
          exact absurd (hzero x hx) hne
        · simp [h0]
      · by_cases h0 : sc.ivLen = 0 <;> simp [h0, hnil]
  · simp at h


/-! ## clear children, appended protection boxes -/

theorem clearT_cons (c : TrafChild) (l : List TrafChild) : clearT (c :: l) = (!c.isProt && clearT l) := by
  simp [clearT]

theorem removeProt_clear : ∀ l, clearT l = true → removeProt l = l
  | [], _ => rfl
  | c :: l, h => by
    rw [clearT_cons] at h
    simp at h
    have ih := removeProt_clear l h.2
    unfold removeProt at ih ⊢
    rw [List.filter_cons, if_pos (by simp [h.1]), ih]

theorem removedBytes_clear : ∀ l, clearT l = true → removedBytes l = 0
  | [], _ => rfl
  | c :: l, h => by
    rw [clearT_cons] at h
    simp at h
    have := removedBytes_clear l h.2
    simp [removedBytes, h.1] at this ⊢
    exact this

theorem removeProt_append (a b : List TrafChild) : removeProt (a ++ b) = removeProt a ++ removeProt b := by
  simp [removeProt]

theorem removedBytes_append (a b : List TrafChild) : removedBytes (a ++ b) = removedBytes a + removedBytes b := by
  simp [removedBytes]

/-- bytes removed + bytes remaining = bytes before -/
theorem removed_add_remaining : ∀ l, removedBytes l + sizes (removeProt l) = sizes l
  | [] => rfl
  | c :: l => by
    have ih := removed_add_remaining l
    cases hc : c.isProt <;> simp [removedBytes, removeProt, hc] at ih ⊢ <;> omega

theorem placeTrafChildren_clear : ∀ l pos, clearT l = true → placeTrafChildren l pos = l
  | [], _, _ => rfl
  | c :: l, pos, h => by
    rw [clearT_cons] at h
    have ih := placeTrafChildren_clear l (pos + c.size) (by simp at h; exact h.2)
    cases c <;> simp_all [TrafChild.isProt, placeTrafChildren]

theorem placeTrafChildren_append : ∀ a b pos,
    placeTrafChildren (a ++ b) pos = placeTrafChildren a pos ++ placeTrafChildren b (pos + sizes a)
  | [], b, pos => by simp [placeTrafChildren]
  | c :: a, b, pos => by
    simp [placeTrafChildren, placeTrafChildren_append a b, Nat.add_assoc]

theorem sizes_placeTrafChildren : ∀ l pos, sizes (placeTrafChildren l pos) = sizes l
  | [], _ => rfl
  | c :: l, pos => by
    simp [placeTrafChildren, sizes_placeTrafChildren l]
    cases c <;> simp [TrafChild.size, Saiz.size, Senc.size]
    rename_i s
    have := senc_size_ge s
    split <;> simp_all <;> omega

theorem containsSenc_clear_append : ∀ a b, clearT a = true → containsSenc (a ++ b) = containsSenc b
  | [], _, _ => rfl
  | c :: a, b, h => by
    rw [clearT_cons] at h
    simp at h
    have ih := containsSenc_clear_append a b h.2
    cases c <;> simp_all [TrafChild.isProt, containsSenc]

theorem containsSenc_clear : ∀ a, clearT a = true → containsSenc a = none := by
  intro a h
  have := containsSenc_clear_append a [] h
  simpa [containsSenc] using this

theorem lastSenc_append_senc (a : List TrafChild) (x y : TrafChild) (s : Senc) :
    lastSenc (a ++ [x, y, .senc s]) = some s := by
  induction a with
  | nil => simp [lastSenc]
  | cons c a ih => simp [lastSenc, ih]

theorem lastSaio_append_saio (a : List TrafChild) (x : TrafChild) (o : Saio) (s : Senc) :
    lastSaio (a ++ [x, .saio o, .senc s]) = some o := by
  induction a with
  | nil => simp [lastSaio]
  | cons c a ih => simp [lastSaio, ih]

theorem markSenc_append_senc (a : List TrafChild) (x y : TrafChild) (s : Senc) :
    markSenc (a ++ [x, y, .senc s]) = (a ++ [x, y, .senc { s with parsed := true }], true) := by
  induction a with
  | nil => simp [markSenc]
  | cons c a ih => simp [markSenc, ih]

theorem markParsed_append_senc (a : List TrafChild) (x y : TrafChild) (s : Senc) :
    markParsed (a ++ [x, y, .senc s]) = a ++ [x, y, .senc { s with parsed := true }] := by
  simp [markParsed, markSenc_append_senc]

theorem placeChildren_clear : ∀ l pos, clearM l = true → placeChildren l pos = l
  | [], _, _ => rfl
  | c :: l, pos, h => by
    cases c with
    | other k n => simp [clearM] at h; simp [placeChildren, placeChildren_clear l _ h]
    | pssh n => simp [clearM] at h
    | traf t =>
      simp [clearM] at h
      simp [placeChildren, placeChildren_clear l _ h.2, placeTrafChildren_clear _ _ h.1]

theorem decodeTrafs_clear (ms : Nat) : ∀ l, clearM l = true → decodeTrafs ms l = some l
  | [], _ => rfl
  | c :: l, h => by
    cases c with
    | other k n => simp [clearM] at h; simp [decodeTrafs, decodeTrafs_clear ms l h]
    | pssh n => simp [clearM] at h
    | traf t =>
      simp [clearM] at h
      simp [decodeTrafs, containsSenc_clear _ h.1, decodeTrafs_clear ms l h.2]

/-! ## one traf through encrypt, write + decode, decrypt -/

/-- the children of an encrypted traf after writing and decoding: the clear children, then saiz, saio, and the senc
    (same sizes, senc parsed); in particular the decoder's saio check passes -/
theorem decode_encrypted_traf (t : Traf) (a : Saiz) (s : Senc) (ms off : Nat)
    (hclear : clearT t.children = true) (hs : s.readSize = 0) :
    let o : Int := ((off + 8 + sizes t.children + a.size + 20 + 16 : Nat) : Int)
    let placed := placeTrafChildren (addProt a o s t).children (ms + off + 8)
    ∃ a' s', a'.size = a.size ∧ s'.size = s.size ∧ s'.parsed = true ∧
      (match containsSenc placed with
        | some false => if parseReadSencOk placed ms then some (markParsed placed) else none
        | _ => some placed) = some (t.children ++ [.saiz a', .saio { offsets := [o] }, .senc s']) := by
  intro o placed
  have hcalc : s.size = s.calcSize := by simp [Senc.size, hs]
  have hge := senc_size_ge s
  let a' : Saiz := { a with info := if a.defaultSize = 0 then a.info else [] }
  let s1 : Senc := { s with startPos := ms + off + 8 + sizes t.children + a.size + 20, readSize := s.size,
                            parsed := decide (s.sampleCount = 0 ∨ s.size = 16) }
  have ha' : a'.size = a.size := rfl
  have hsz : s.size ≥ 16 := by rw [hcalc]; exact hge
  have hs1 : s1.size = s.size := by
    show (if s.size > 0 then s.size else _) = s.size
    rw [if_pos (by omega)]
  have hplaced : placed = t.children ++ [.saiz a', .saio { offsets := [o] }, .senc s1] := by
    simp only [placed, addProt]
    rw [placeTrafChildren_append, placeTrafChildren_clear _ _ hclear]
    simp [placeTrafChildren, TrafChild.size, saio_one_size, a', s1]
  clear_value placed
  subst hplaced
  have hcs : containsSenc (t.children ++ [.saiz a', .saio { offsets := [o] }, .senc s1]) = some s1.parsed := by
    rw [containsSenc_clear_append _ _ hclear]; rfl
  rw [hcs]
  cases hp : s1.parsed with
  | true => exact ⟨a', s1, ha', hs1, hp, rfl⟩
  | false =>
    have hok : parseReadSencOk (t.children ++ [.saiz a', .saio { offsets := [o] }, .senc s1]) ms = true := by
      simp only [parseReadSencOk, lastSenc_append_senc, saioOk, lastSaio_append_saio, hp]
      simp [s1, o]
      omega
    refine ⟨a', { s1 with parsed := true }, ha', ?_, rfl, ?_⟩
    · rw [← hs1]; simp [Senc.size, Senc.calcSize]
    · simp [hok, markParsed_append_senc]


theorem removeProt_three (a : Saiz) (o : Saio) (s : Senc) : removeProt [.saiz a, .saio o, .senc s] = [] := rfl
theorem removedBytes_three (a : Saiz) (o : Saio) (s : Senc) :
    removedBytes [.saiz a, .saio o, .senc s] = a.size + o.size + s.size := by
  show sizes [.saiz a, .saio o, .senc s] = _
  simp [TrafChild.size]; omega

/-- the decrypt info knows every protected track (scheme cenc or cbcs) and knows the other tracks as clear or not at all -/
def CoversAt (di : DecInfo) (ps : Nat → Option (Scheme × List Nat)) (id : Nat) : Prop :=
  match ps id with
  | some _ => ∃ s iv, findTrack di id = some (s, iv) ∧ (s = "cenc" ∨ s = "cbcs")
  | none => findTrack di id = none

/-- ... for every traf of the moof -/
def Covers (di : DecInfo) (ps : Nat → Option (Scheme × List Nat)) (l : List MoofChild) : Prop :=
  ∀ t ∈ trafsOf l, CoversAt di ps t.trackID

/-- what `DecodeFile` does to the children of one traf -/
def decodeOne (ms : Nat) (l : List TrafChild) : Option (List TrafChild) :=
  match containsSenc l with
  | some false => if parseReadSencOk l ms then some (markParsed l) else none
  | _ => some l

theorem decodeTrafs_cons_traf (ms : Nat) (t : Traf) (rest : List MoofChild) :
    decodeTrafs ms (.traf t :: rest) =
      match decodeOne ms t.children with
      | none => none
      | some ch => (decodeTrafs ms rest).map (.traf { t with children := ch } :: ·) := by
  unfold decodeOne
  rw [decodeTrafs]
  cases containsSenc t.children with
  | none => cases t; simp
  | some b =>
    cases b with
    | true => cases t; simp
    | false => by_cases h : parseReadSencOk t.children ms = true <;> simp [h]

theorem map_eq_some_cons {α : Type} {o : Option (List α)} {c : α} {l' : List α}
    (h : o.map (c :: ·) = some l') : ∃ r, o = some r ∧ l' = c :: r := by
  cases o with
  | none => simp at h
  | some r => simp at h; exact ⟨r, rfl, h.symm⟩

theorem traf_eta (t : Traf) : ({ t with children := t.children } : Traf) = t := by cases t; rfl

/-- **children level round trip**: clear children, protected per traf, written and decoded (the decoder's saio checks
    pass), then decrypted: exactly the clear children again, and the bytes removed are exactly the bytes added -/
theorem roundtrip_children (ps : Nat → Option (Scheme × List Nat)) (di : DecInfo) (ms : Nat) :
    ∀ (l : List MoofChild) (off : Nat) (l' : List MoofChild), clearM l = true → Covers di ps l → encChildren ps l off = some l' →
      ∃ L n, decodeTrafs ms (placeChildren l' (ms + off)) = some L ∧
             decryptTrafs di ms L = some (l, n) ∧ n + msizes l = msizes l' := by
  intro l
  induction l with
  | nil =>
    intro off l' _ _ h
    simp [encChildren] at h
    subst h
    exact ⟨[], 0, rfl, rfl, rfl⟩
  | cons c rest ih =>
    intro off l' hclear hcov h
    cases c with
    | pssh n => simp [clearM] at hclear
    | other k sz =>
      simp only [clearM] at hclear
      simp only [encChildren] at h
      obtain ⟨r', hr', rfl⟩ := map_eq_some_cons h
      obtain ⟨L, n, hL, hD, hn⟩ := ih (off + (MoofChild.other k sz).size) r' hclear (by simpa [Covers, trafsOf] using hcov) hr'
      refine ⟨.other k sz :: L, n, ?_, ?_, ?_⟩
      · simp only [placeChildren, decodeTrafs]
        rw [Nat.add_assoc, hL]; rfl
      · simp [decryptTrafs, hD]
      · simp; omega
    | traf t =>
      obtain ⟨tid, tch⟩ := t
      simp only [clearM, Bool.and_eq_true] at hclear
      obtain ⟨hct, hcr⟩ := hclear
      have hc : CoversAt di ps tid := hcov ⟨tid, tch⟩ (by simp [trafsOf])
      have hcovr : Covers di ps rest := fun t' ht' => hcov t' (by simp [trafsOf, ht'])
      unfold CoversAt at hc
      simp only [encChildren] at h
      cases hps : ps tid with
      | none =>
        rw [hps] at h hc
        dsimp only at h hc
        obtain ⟨r', hr', rfl⟩ := map_eq_some_cons h
        obtain ⟨L, n, hL, hD, hn⟩ := ih (off + (Traf.mk tid tch).size) r' hcr hcovr hr'
        refine ⟨.traf ⟨tid, tch⟩ :: L, n, ?_, ?_, ?_⟩
        · simp only [placeChildren]
          rw [placeTrafChildren_clear _ _ hct, decodeTrafs_cons_traf]
          simp only [decodeOne, containsSenc_clear _ hct]
          rw [Nat.add_assoc, hL]; rfl
        · simp only [decryptTrafs, decryptTraf]
          simp only [hc, hD, Nat.zero_add]
        · simp; omega
      | some p =>
        obtain ⟨sc, subs⟩ := p
        rw [hps] at h hc
        dsimp only at h hc
        obtain ⟨sn, iv, hft, hsn⟩ := hc
        split at h
        · rename_i r htr
          split at h
          · simp at h
          · split at h
            · simp at h
            · rename_i a s haux
              obtain ⟨r', hr', rfl⟩ := map_eq_some_cons h
              have hspec := auxBoxes_spec haux
              obtain ⟨a', s', ha', hs', hp', hdec⟩ := decode_encrypted_traf ⟨tid, tch⟩ a s ms off hct hspec.2.2.1
              simp only at hdec
              have hsz : (addProt a ((off + 8 + sizes tch + a.size + 20 + 16 : Nat) : Int) s ⟨tid, tch⟩).size
                  = (Traf.mk tid tch).size + a.size + 20 + s.size := by
                simp [addProt, Traf.size, TrafChild.size, saio_one_size]; omega
              obtain ⟨L, n, hL, hD, hn⟩ := ih _ r' hcr hcovr hr'
              refine ⟨.traf { trackID := tid, children := tch ++ [.saiz a', .saio { offsets := [((off + 8 + sizes tch + a.size + 20 + 16 : Nat) : Int)] }, .senc s'] } :: L,
                      (a.size + 20 + s.size) + n, ?_, ?_, ?_⟩
              · simp only [placeChildren]
                rw [decodeTrafs_cons_traf]
                simp only [decodeOne]
                rw [Nat.add_assoc ms off 8] at hdec ⊢
                rw [← Nat.add_assoc ms off 8] at hdec ⊢
                rw [hdec]
                simp only []
                rw [Nat.add_assoc ms off, hL]
                simp [addProt]
              · simp only [decryptTrafs, decryptTraf, hft]
                have hcs : containsSenc (tch ++ [TrafChild.saiz a', .saio { offsets := [((off + 8 + sizes tch + a.size + 20 + 16 : Nat) : Int)] }, .senc s']) = some true := by
                  rw [containsSenc_clear_append _ _ hct]; simp [containsSenc, hp']
                have hne : ¬ (sn ≠ "cenc" ∧ sn ≠ "cbcs") := by
                  rcases hsn with h | h <;> simp [h]
                simp only [hcs, if_neg hne]
                simp only [Bool.not_true, Bool.false_and, Bool.false_eq_true, if_false, hD]
                rw [removeProt_append, removedBytes_append, removeProt_clear _ hct, removedBytes_clear _ hct,
                  removeProt_three, removedBytes_three]
                simp only [List.append_nil, Nat.zero_add, saio_one_size, ha', hs']
              · rw [msizes_cons, msizes_cons]
                simp only [MoofChild.size, hsz]
                omega
        · simp at h


@[simp] theorem isProt_other (k : String) (n : Nat) : (TrafChild.other k n).isProt = false := rfl
@[simp] theorem isProt_trun (r : Trun) : (TrafChild.trun r).isProt = false := rfl
@[simp] theorem isProt_saiz (b : Saiz) : (TrafChild.saiz b).isProt = true := rfl
@[simp] theorem isProt_saio (b : Saio) : (TrafChild.saio b).isProt = true := rfl
@[simp] theorem isProt_senc (b : Senc) : (TrafChild.senc b).isProt = true := rfl
@[simp] theorem isProt_uuidSenc (n : Nat) (p : Bool) (sp : Nat) : (TrafChild.uuidSenc n p sp).isProt = true := rfl

/-! ## trun maps commute with everything that does not look at truns -/

theorem size_mapTrunsC (h : Trun → Trun) (hs : ∀ r, (h r).size = r.size) : ∀ l, sizes (mapTrunsC h l) = sizes l
  | [] => rfl
  | c :: l => by
    have ih := size_mapTrunsC h hs l
    cases c <;> simp [mapTrunsC, ih, TrafChild.size, hs]

theorem containsSenc_mapTrunsC (h : Trun → Trun) : ∀ l, containsSenc (mapTrunsC h l) = containsSenc l
  | [] => rfl
  | c :: l => by
    have ih := containsSenc_mapTrunsC h l
    cases c <;> simp [mapTrunsC, containsSenc, ih]

theorem lastSenc_mapTrunsC (h : Trun → Trun) : ∀ l, lastSenc (mapTrunsC h l) = lastSenc l
  | [] => rfl
  | c :: l => by
    have ih := lastSenc_mapTrunsC h l
    cases c <;> simp [mapTrunsC, lastSenc, ih]

theorem lastUuidSenc_mapTrunsC (h : Trun → Trun) : ∀ l, lastUuidSenc (mapTrunsC h l) = lastUuidSenc l
  | [] => rfl
  | c :: l => by
    have ih := lastUuidSenc_mapTrunsC h l
    cases c <;> simp [mapTrunsC, lastUuidSenc, ih]

theorem lastSaio_mapTrunsC (h : Trun → Trun) : ∀ l, lastSaio (mapTrunsC h l) = lastSaio l
  | [] => rfl
  | c :: l => by
    have ih := lastSaio_mapTrunsC h l
    cases c <;> simp [mapTrunsC, lastSaio, ih]

theorem parseReadSencOk_mapTrunsC (h : Trun → Trun) (l : List TrafChild) (ms : Nat) :
    parseReadSencOk (mapTrunsC h l) ms = parseReadSencOk l ms := by
  simp [parseReadSencOk, saioOk, lastSenc_mapTrunsC, lastUuidSenc_mapTrunsC, lastSaio_mapTrunsC]

theorem removeProt_mapTrunsC (h : Trun → Trun) : ∀ l, removeProt (mapTrunsC h l) = mapTrunsC h (removeProt l)
  | [] => rfl
  | c :: l => by
    have ih := removeProt_mapTrunsC h l
    unfold removeProt at ih ⊢
    cases c <;> simp [mapTrunsC, List.filter_cons, ih]

theorem removedBytes_mapTrunsC (h : Trun → Trun) : ∀ l, removedBytes (mapTrunsC h l) = removedBytes l
  | [] => rfl
  | c :: l => by
    have ih := removedBytes_mapTrunsC h l
    unfold removedBytes at ih ⊢
    cases c <;> simp [mapTrunsC, List.filter_cons, ih, TrafChild.size]

theorem decryptTrafs_mapTruns (di : DecInfo) (ms : Nat) (h : Trun → Trun) :
    ∀ l l' n, decryptTrafs di ms l = some (l', n) → decryptTrafs di ms (mapTruns h l) = some (mapTruns h l', n) := by
  intro l
  induction l with
  | nil => intro l' n hd; simp [decryptTrafs] at hd; obtain ⟨rfl, rfl⟩ := hd; rfl
  | cons c rest ih =>
    intro l' n hd
    cases c with
    | other k sz =>
      simp only [decryptTrafs] at hd
      split at hd
      · simp at hd
      · rename_i r m hr
        simp at hd
        obtain ⟨rfl, rfl⟩ := hd
        simp [mapTruns, mapTrafs, decryptTrafs]
        have := ih r m hr
        simp [mapTruns] at this
        simp [this]
    | pssh sz =>
      simp only [decryptTrafs] at hd
      split at hd
      · simp at hd
      · rename_i r m hr
        simp at hd
        obtain ⟨rfl, rfl⟩ := hd
        simp [mapTruns, mapTrafs, decryptTrafs]
        have := ih r m hr
        simp [mapTruns] at this
        simp [this]
    | traf t =>
      simp only [decryptTrafs] at hd
      split at hd
      · simp at hd
      · rename_i t' k ht
        split at hd
        · simp at hd
        · rename_i r m hr
          simp at hd
          obtain ⟨rfl, rfl⟩ := hd
          have hrest := ih r m hr
          simp only [mapTruns] at hrest
          have ht' : decryptTraf di ms { t with children := mapTrunsC h t.children }
              = some ({ t' with children := mapTrunsC h t'.children }, k) := by
            cases hf : findTrack di t.trackID with
            | none =>
              simp only [decryptTraf, hf] at ht ⊢
              simp at ht
              obtain ⟨rfl, rfl⟩ := ht
              rfl
            | some p =>
              obtain ⟨sn, iv⟩ := p
              simp only [decryptTraf, hf] at ht ⊢
              rw [containsSenc_mapTrunsC, parseReadSencOk_mapTrunsC]
              split at ht
              · simp at ht
              · rename_i hsn
                rw [if_neg hsn]
                cases hcs : containsSenc t.children with
                | none => rw [hcs] at ht; simp at ht
                | some b =>
                  rw [hcs] at ht
                  simp only at ht ⊢
                  split at ht
                  · simp at ht
                  · rename_i hchk
                    rw [if_neg hchk]
                    simp at ht
                    obtain ⟨rfl, rfl⟩ := ht
                    simp [removeProt_mapTrunsC, removedBytes_mapTrunsC]
          simp only [mapTruns, mapTrafs, decryptTrafs, ht', hrest]

theorem mapTrunsC_comp (g h : Trun → Trun) : ∀ l, mapTrunsC g (mapTrunsC h l) = mapTrunsC (fun r => g (h r)) l
  | [] => rfl
  | c :: l => by
    have ih := mapTrunsC_comp g h l
    cases c <;> simp [mapTrunsC, ih]

theorem mapTruns_comp (g h : Trun → Trun) : ∀ l, mapTruns g (mapTruns h l) = mapTruns (fun r => g (h r)) l
  | [] => rfl
  | c :: l => by
    have ih := mapTruns_comp g h l
    simp only [mapTruns] at ih ⊢
    cases c <;> simp [mapTrafs, ih, mapTrunsC_comp]

theorem mapTrunsC_congr (g h : Trun → Trun) (hgh : ∀ r, g r = h r) (l : List TrafChild) : mapTrunsC g l = mapTrunsC h l := by
  have : g = h := funext hgh
  rw [this]

theorem mapTruns_congr (g h : Trun → Trun) (hgh : ∀ r, g r = h r) (l : List MoofChild) : mapTruns g l = mapTruns h l := by
  have : g = h := funext hgh
  rw [this]

theorem clearM_no_pssh (h : Trun → Trun) : ∀ l, clearM l = true → ∀ c ∈ mapTruns h l, c.isPssh = false
  | [], _ => by simp [mapTruns, mapTrafs]
  | c :: l, hc => by
    cases c with
    | pssh n => simp [clearM] at hc
    | other k n =>
      simp only [clearM] at hc
      have ih := clearM_no_pssh h l hc
      simp only [mapTruns] at ih ⊢
      intro c hmem
      simp only [mapTrafs, List.mem_cons] at hmem
      rcases hmem with rfl | hmem
      · rfl
      · exact ih c hmem
    | traf t =>
      simp only [clearM, Bool.and_eq_true] at hc
      have ih := clearM_no_pssh h l hc.2
      simp only [mapTruns] at ih ⊢
      intro c hmem
      simp only [mapTrafs, List.mem_cons] at hmem
      rcases hmem with rfl | hmem
      · rfl
      · exact ih c hmem

theorem clearM_mapTruns (h : Trun → Trun) (l : List MoofChild) (hc : clearM l = true) :
    (mapTruns h l).filter (fun c => !c.isPssh) = mapTruns h l ∧ msizes ((mapTruns h l).filter MoofChild.isPssh) = 0 := by
  have hno := clearM_no_pssh h l hc
  constructor
  · apply List.filter_eq_self.2
    intro c hmem
    simp [hno c hmem]
  · have : (mapTruns h l).filter MoofChild.isPssh = [] := by
      apply List.filter_eq_nil_iff.2
      intro c hmem
      simp [hno c hmem]
    rw [this]; rfl

/-! ## truns are untouched by encryption -/

theorem trunsOf_append : ∀ a b, trunsOf (a ++ b) = trunsOf a ++ trunsOf b
  | [], _ => rfl
  | c :: a, b => by
    have ih := trunsOf_append a b
    cases c <;> simp [trunsOf, ih]

theorem truns_addProt (a : Saiz) (o : Int) (s : Senc) (t : Traf) : (addProt a o s t).truns = t.truns := by
  simp [Traf.truns, addProt, trunsOf_append, trunsOf]

theorem allTruns_encChildren (ps : Nat → Option (Scheme × List Nat)) :
    ∀ l off l', encChildren ps l off = some l' → allTrunsOf l' = allTrunsOf l := by
  intro l
  induction l with
  | nil => intro off l' h; simp [encChildren] at h; subst h; rfl
  | cons c rest ih =>
    intro off l' h
    cases c with
    | other k sz =>
      simp only [encChildren] at h
      obtain ⟨r', hr', rfl⟩ := map_eq_some_cons h
      simp [allTrunsOf, trafsOf] at ih ⊢
      exact ih _ _ hr'
    | pssh sz =>
      simp only [encChildren] at h
      obtain ⟨r', hr', rfl⟩ := map_eq_some_cons h
      simp [allTrunsOf, trafsOf] at ih ⊢
      exact ih _ _ hr'
    | traf t =>
      simp only [encChildren] at h
      split at h
      · obtain ⟨r', hr', rfl⟩ := map_eq_some_cons h
        have := ih _ _ hr'
        simp [allTrunsOf, trafsOf] at this ⊢
        rw [this]
      · split at h
        · split at h
          · simp at h
          · split at h
            · simp at h
            · obtain ⟨r', hr', rfl⟩ := map_eq_some_cons h
              have := ih _ _ hr'
              simp [allTrunsOf, trafsOf] at this ⊢
              rw [this, truns_addProt]
        · simp at h


/-! ## fragment level -/

/-- a clear fragment after writing and decoding: only the truns change (data offsets set, write order gone), the mdat
    follows the moof -/
def clearLayout (f : Frag) : Frag :=
  { f with children := mapTruns (trunLayout f.moofSize f.mdatHdr f.allTruns) f.children
           mdatStart := f.moofStart + f.moofSize }

theorem layout_clear (f : Frag) (h : f.Clear) : layout f = some (clearLayout f) := by
  unfold layout clearLayout
  rw [placeChildren_clear _ _ h, decodeTrafs_clear _ _ h]
  rfl

theorem encryptAll_some {ps : Nat → Option (Scheme × List Nat)} {f g : Frag} (h : encryptAll ps f = some g) :
    ∃ l', encChildren ps f.children 8 = some l' ∧ g = { f with children := l' } := by
  unfold encryptAll at h
  cases he : encChildren ps f.children 8 with
  | none => simp [he] at h
  | some l' => simp [he] at h; exact ⟨l', rfl, h.symm⟩

/-- **decrypt ∘ write ∘ encrypt = write** for every clear fragment (any number of trafs, samples, sub-samples, other
    boxes): the written encrypted fragment decodes (saio checks pass), and decrypting it gives exactly the written clear
    fragment: same boxes in the same order with the same sizes, every trun data offset and the mdat position as in the
    clear fragment -/
theorem roundtrip (ps : Nat → Option (Scheme × List Nat)) (di : DecInfo) (f g : Frag)
    (hclear : f.Clear) (hcov : Covers di ps f.children) (henc : encryptAll ps f = some g)
    (hman : offsetsUnmanaged f.allTruns = false) (hfit : f.moofStart + g.moofSize < 2 ^ 64) :
    ∃ gl, layout g = some gl ∧ decryptFrag di gl = some (clearLayout f) := by
  obtain ⟨l', henc', rfl⟩ := encryptAll_some henc
  obtain ⟨L, n, hL, hD, hn⟩ := roundtrip_children ps di f.moofStart f.children 8 l' hclear hcov henc'
  have htr : allTrunsOf l' = f.allTruns := allTruns_encChildren ps _ _ _ henc'
  refine ⟨{ moofStart := f.moofStart
            children := mapTruns (trunLayout (8 + msizes l') f.mdatHdr (allTrunsOf l')) L
            mdatStart := f.moofStart + (8 + msizes l')
            mdatHdr := f.mdatHdr }, ?_, ?_⟩
  · unfold layout
    simp only [hL, Option.map_some]
    rfl
  · have hD' := decryptTrafs_mapTruns di f.moofStart (trunLayout (8 + msizes l') f.mdatHdr (allTrunsOf l')) _ _ _ hD
    unfold decryptFrag
    simp only [hD']
    obtain ⟨hfilt, hps⟩ := clearM_mapTruns (trunLayout (8 + msizes l') f.mdatHdr (allTrunsOf l')) f.children hclear
    rw [hfilt, hps, mapTruns_comp]
    unfold clearLayout
    congr 1
    congr 1
    · apply mapTruns_congr
      intro r
      simp only [shiftTrun, trunLayout, htr, hman, Frag.moofSize]
      simp
      omega
    · simp only [Frag.moofSize] at hfit ⊢
      have h1 : f.moofStart + (8 + msizes l') > f.moofStart := by omega
      rw [if_pos h1]
      omega


/-! ## the library function is the one-traf case of `encryptAll` -/

theorem sencWalk_append : ∀ a b off acc, sencWalk (a ++ b) off acc = sencWalk b (off + sizes a) (sencWalk a off acc)
  | [], b, off, acc => by simp [sencWalk]
  | c :: a, b, off, acc => by
    simp only [List.cons_append, sencWalk, sizes_cons]
    rw [sencWalk_append a b]
    congr 1
    omega

theorem sencWalk_addProt (a : Saiz) (x : Int) (s : Senc) (t : Traf) (off : Nat) :
    sencWalk (addProt a x s t).children off 0 = off + sizes t.children + a.size + 20 + 16 := by
  simp only [addProt]
  rw [sencWalk_append]
  simp [sencWalk, TrafChild.size, saio_one_size]

theorem encChildren_noTraf (ps : Nat → Option (Scheme × List Nat)) :
    ∀ l off, trafsOf l = [] → encChildren ps l off = some l
  | [], _, _ => rfl
  | c :: l, off, h => by
    cases c with
    | traf t => simp [trafsOf] at h
    | other k n => simp only [trafsOf] at h; simp [encChildren, encChildren_noTraf ps l _ h]
    | pssh n => simp only [trafsOf] at h; simp [encChildren, encChildren_noTraf ps l _ h]

theorem mapTrafs_noTraf (g : Traf → Traf) : ∀ l, trafsOf l = [] → mapTrafs g l = l
  | [], _ => rfl
  | c :: l, h => by
    cases c with
    | traf t => simp [trafsOf] at h
    | other k n => simp only [trafsOf] at h; simp [mapTrafs, mapTrafs_noTraf g l h]
    | pssh n => simp only [trafsOf] at h; simp [mapTrafs, mapTrafs_noTraf g l h]

/-- the offset walk of `EncryptFragment` finds the position the general formula uses -/
theorem encChildren_one (sc : Scheme) (subs : List Nat) (t : Traf) (r : Trun) (a : Saiz) (s : Senc) (x : Int)
    (htr : t.truns = [r]) (hlen : subs.length = r.sampleSizes.length) (haux : auxBoxes sc subs = some (a, s)) :
    ∀ l off, trafsOf l = [t] →
      encChildren (fun _ => some (sc, subs)) l off =
        some (mapTrafs (addProt a ((sencDataOffset (mapTrafs (addProt a x s) l) off : Nat) : Int) s) l) := by
  intro l
  induction l with
  | nil => intro off h; simp [trafsOf] at h
  | cons c rest ih =>
    intro off h
    cases c with
    | other k n =>
      simp only [trafsOf] at h
      simp only [encChildren, ih _ h, mapTrafs, sencDataOffset, Option.map_some]
    | pssh n =>
      simp only [trafsOf] at h
      simp only [encChildren, ih _ h, mapTrafs, sencDataOffset, Option.map_some]
    | traf t0 =>
      simp only [trafsOf, List.cons.injEq] at h
      obtain ⟨rfl, hrest⟩ := h
      simp only [encChildren, htr, hlen, haux, mapTrafs, sencDataOffset]
      rw [encChildren_noTraf _ _ _ hrest, mapTrafs_noTraf _ _ hrest, sencWalk_addProt]
      simp

theorem encryptFrag_eq_encryptAll (sc : Scheme) (subs : List Nat) (f : Frag) (t : Traf) (h : f.trafs = [t]) :
    encryptFrag sc subs f = encryptAll (fun _ => some (sc, subs)) f := by
  unfold encryptFrag encryptAll
  rw [h]
  simp only []
  have hone : ∀ l off, trafsOf l = [t] → (¬ ∃ r, t.truns = [r]) → encChildren (fun _ => some (sc, subs)) l off = none := by
    intro l
    induction l with
    | nil => intro off h; simp [trafsOf] at h
    | cons c rest ih =>
      intro off h hn
      cases c with
      | other k n => simp only [trafsOf] at h; simp [encChildren, ih _ h hn]
      | pssh n => simp only [trafsOf] at h; simp [encChildren, ih _ h hn]
      | traf t0 =>
        simp only [trafsOf, List.cons.injEq] at h
        obtain ⟨rfl, _⟩ := h
        simp only [encChildren]
        split
        · rename_i r htr; exact absurd ⟨r, htr⟩ hn
        · rfl
  have hbad : ∀ l off r, trafsOf l = [t] → t.truns = [r] →
      (subs.length ≠ r.sampleSizes.length ∨ auxBoxes sc subs = none) → encChildren (fun _ => some (sc, subs)) l off = none := by
    intro l
    induction l with
    | nil => intro off r h; simp [trafsOf] at h
    | cons c rest ih =>
      intro off r h htr hb
      cases c with
      | other k n => simp only [trafsOf] at h; simp [encChildren, ih _ r h htr hb]
      | pssh n => simp only [trafsOf] at h; simp [encChildren, ih _ r h htr hb]
      | traf t0 =>
        simp only [trafsOf, List.cons.injEq] at h
        obtain ⟨rfl, _⟩ := h
        simp only [encChildren, htr]
        rcases hb with hb | hb
        · simp [hb]
        · simp [hb]
  split
  · rename_i r htr
    split
    · rename_i hlen
      rw [hbad _ _ r h htr (Or.inl hlen)]; rfl
    · rename_i hlen
      simp only [Decidable.not_not] at hlen
      split
      · rename_i haux
        rw [hbad _ _ r h htr (Or.inr haux)]; rfl
      · rename_i a s haux
        rw [encChildren_one sc subs t r a s (-1) htr hlen haux _ _ h]
        rfl
  · rename_i hn
    rw [hone _ _ h (by intro ⟨r, hr⟩; exact hn r hr)]; rfl

theorem encryptFrag_trafs {sc : Scheme} {subs : List Nat} {f g : Frag} (h : encryptFrag sc subs f = some g) :
    ∃ t r, f.trafs = [t] ∧ t.truns = [r] := by
  unfold encryptFrag at h
  split at h
  · rename_i t ht
    split at h
    · rename_i r hr; exact ⟨t, r, ht, hr⟩
    · simp at h
  · simp at h


/-! ## structure of the encrypted fragment -/

/-- everything that is not protection signalling: pssh boxes dropped, saiz / saio / senc dropped from every traf -/
def stripM : List MoofChild → List MoofChild
  | [] => []
  | .pssh _ :: rest => stripM rest
  | .traf t :: rest => .traf { t with children := removeProt t.children } :: stripM rest
  | c :: rest => c :: stripM rest

/-- the trafs of a moof with their byte offsets from the start of the moof box (`off` = offset of the first child) -/
def trafsAt : List MoofChild → Nat → List (Nat × Traf)
  | [], _ => []
  | .traf t :: rest, off => (off, t) :: trafsAt rest (off + t.size)
  | c :: rest, off => trafsAt rest (off + c.size)

/-- the children of a traf with their byte offsets (`off` = offset of the first child) -/
def childOffsets : List TrafChild → Nat → List (Nat × TrafChild)
  | [], _ => []
  | c :: rest, off => (off, c) :: childOffsets rest (off + c.size)

theorem stripM_clear : ∀ l, clearM l = true → stripM l = l
  | [], _ => rfl
  | c :: l, h => by
    cases c with
    | pssh n => simp [clearM] at h
    | other k n => simp only [clearM] at h; simp [stripM, stripM_clear l h]
    | traf t =>
      simp only [clearM, Bool.and_eq_true] at h
      simp [stripM, stripM_clear l h.2, removeProt_clear _ h.1]

theorem removeProt_addProt (a : Saiz) (o : Int) (s : Senc) (t : Traf) :
    removeProt (addProt a o s t).children = removeProt t.children := by
  simp only [addProt]
  rw [removeProt_append, removeProt_three]
  simp

/-- **encryption keeps every box that is not protection signalling**, in order and unchanged (truns included: the
    in-memory data offsets are not touched; the writer sets them) -/
theorem stripM_encChildren (ps : Nat → Option (Scheme × List Nat)) :
    ∀ l off l', encChildren ps l off = some l' → stripM l' = stripM l := by
  intro l
  induction l with
  | nil => intro off l' h; simp [encChildren] at h; subst h; rfl
  | cons c rest ih =>
    intro off l' h
    cases c with
    | other k sz =>
      simp only [encChildren] at h
      obtain ⟨r', hr', rfl⟩ := map_eq_some_cons h
      simp [stripM, ih _ _ hr']
    | pssh sz =>
      simp only [encChildren] at h
      obtain ⟨r', hr', rfl⟩ := map_eq_some_cons h
      simp [stripM, ih _ _ hr']
    | traf t =>
      simp only [encChildren] at h
      split at h
      · obtain ⟨r', hr', rfl⟩ := map_eq_some_cons h
        simp [stripM, ih _ _ hr']
      · split at h
        · split at h
          · simp at h
          · split at h
            · simp at h
            · obtain ⟨r', hr', rfl⟩ := map_eq_some_cons h
              simp only [stripM, ih _ _ hr', removeProt_addProt]
              rfl
        · simp at h

/-- element-wise relation between two lists of the same length -/
inductive AllTwo {α β : Type} (R : α → β → Prop) : List α → List β → Prop
  | nil : AllTwo R [] []
  | cons {a b l l'} : R a b → AllTwo R l l' → AllTwo R (a :: l) (b :: l')

/-- what `encryptAll` does to one traf that starts `p` bytes into the moof: nothing without parameters; else the traf has
    one trun, one sub-sample count per sample, and gets saiz, saio, senc appended, the saio offset being 16 bytes into the
    senc box (which starts after the traf header, the old children, the saiz and the 20-byte saio) -/
def EncTraf (ps : Nat → Option (Scheme × List Nat)) (p : Nat) (t t' : Traf) : Prop :=
  match ps t.trackID with
  | none => t' = t
  | some (sc, subs) => ∃ r a s, t.truns = [r] ∧ subs.length = r.sampleSizes.length ∧ auxBoxes sc subs = some (a, s) ∧
      t' = addProt a ((p + 8 + sizes t.children + a.size + 20 + 16 : Nat) : Int) s t

theorem encChildren_trafs (ps : Nat → Option (Scheme × List Nat)) :
    ∀ l off l', encChildren ps l off = some l' →
      AllTwo (fun t (pt : Nat × Traf) => EncTraf ps pt.1 t pt.2) (trafsOf l) (trafsAt l' off) := by
  intro l
  induction l with
  | nil => intro off l' h; simp [encChildren] at h; subst h; exact AllTwo.nil
  | cons c rest ih =>
    intro off l' h
    cases c with
    | other k sz =>
      simp only [encChildren] at h
      obtain ⟨r', hr', rfl⟩ := map_eq_some_cons h
      simp only [trafsOf, trafsAt]
      exact ih _ _ hr'
    | pssh sz =>
      simp only [encChildren] at h
      obtain ⟨r', hr', rfl⟩ := map_eq_some_cons h
      simp only [trafsOf, trafsAt]
      exact ih _ _ hr'
    | traf t =>
      simp only [encChildren] at h
      split at h
      · rename_i hps
        obtain ⟨r', hr', rfl⟩ := map_eq_some_cons h
        simp only [trafsOf, trafsAt]
        refine AllTwo.cons ?_ (ih _ _ hr')
        simp [EncTraf, hps]
      · rename_i sc subs hps
        split at h
        · rename_i r htr
          split at h
          · simp at h
          · rename_i hlen
            simp only [Decidable.not_not] at hlen
            split at h
            · simp at h
            · rename_i a s haux
              obtain ⟨r', hr', rfl⟩ := map_eq_some_cons h
              simp only [trafsOf, trafsAt]
              refine AllTwo.cons ?_ (ih _ _ hr')
              simp only [EncTraf, hps]
              exact ⟨r, a, s, htr, hlen, haux, rfl⟩
        · simp at h

theorem childOffsets_append : ∀ a b off, childOffsets (a ++ b) off = childOffsets a off ++ childOffsets b (off + sizes a)
  | [], b, off => by simp [childOffsets]
  | c :: a, b, off => by
    simp [childOffsets, childOffsets_append a b, Nat.add_assoc]

/-- in a traf that starts at `p`, the appended senc starts where the saio offset minus 16 says -/
theorem senc_position (a : Saiz) (o : Int) (s : Senc) (t : Traf) (p : Nat) :
    (p + 8 + sizes t.children + a.size + 20, TrafChild.senc s) ∈ childOffsets (addProt a o s t).children (p + 8) := by
  simp only [addProt]
  rw [childOffsets_append]
  simp [childOffsets, TrafChild.size, saio_one_size]

/-- the moof does not shrink -/
theorem msizes_encChildren_le (ps : Nat → Option (Scheme × List Nat)) :
    ∀ l off l', encChildren ps l off = some l' → msizes l ≤ msizes l' := by
  intro l
  induction l with
  | nil => intro off l' h; simp [encChildren] at h; subst h; exact Nat.le_refl _
  | cons c rest ih =>
    intro off l' h
    cases c with
    | other k sz =>
      simp only [encChildren] at h
      obtain ⟨r', hr', rfl⟩ := map_eq_some_cons h
      have := ih _ _ hr'
      simp; omega
    | pssh sz =>
      simp only [encChildren] at h
      obtain ⟨r', hr', rfl⟩ := map_eq_some_cons h
      have := ih _ _ hr'
      simp; omega
    | traf t =>
      simp only [encChildren] at h
      split at h
      · obtain ⟨r', hr', rfl⟩ := map_eq_some_cons h
        have := ih _ _ hr'
        simp; omega
      · split at h
        · split at h
          · simp at h
          · split at h
            · simp at h
            · obtain ⟨r', hr', rfl⟩ := map_eq_some_cons h
              have := ih _ _ hr'
              simp [MoofChild.size, Traf.size, addProt]; omega
        · simp at h


/-! ## DecryptFragment on any fragment -/

theorem removeProt_idem : ∀ l, removeProt (removeProt l) = removeProt l := by
  intro l; simp [removeProt]

theorem trunsOf_removeProt : ∀ l, trunsOf (removeProt l) = trunsOf l
  | [] => rfl
  | c :: l => by
    have ih := trunsOf_removeProt l
    unfold removeProt at ih ⊢
    cases c <;> simp [List.filter_cons, trunsOf, ih]

theorem decryptTraf_spec {di : DecInfo} {ms : Nat} {t t' : Traf} {n : Nat} (h : decryptTraf di ms t = some (t', n)) :
    n + t'.size = t.size ∧ t'.truns = t.truns ∧ removeProt t'.children = removeProt t.children ∧ t'.trackID = t.trackID := by
  unfold decryptTraf at h
  split at h
  · simp at h; obtain ⟨rfl, rfl⟩ := h; simp
  · split at h
    · simp at h
    · split at h
      · simp at h
      · split at h
        · simp at h
        · simp at h
          obtain ⟨rfl, rfl⟩ := h
          refine ⟨?_, ?_, ?_, rfl⟩
          · have := removed_add_remaining t.children
            simp only [Traf.size]; omega
          · simp [Traf.truns, trunsOf_removeProt]
          · simp [removeProt_idem]

/-- **what the per-traf part of `DecryptFragment` does, for any moof** (any number of trafs, protected or not): the bytes
    removed account exactly for the size difference, no trun is touched, and everything that is not protection
    signalling stays in place, in order, unchanged -/
theorem decryptTrafs_spec (di : DecInfo) (ms : Nat) :
    ∀ l l' n, decryptTrafs di ms l = some (l', n) →
      n + msizes l' = msizes l ∧ allTrunsOf l' = allTrunsOf l ∧ stripM l' = stripM l := by
  intro l
  induction l with
  | nil => intro l' n h; simp [decryptTrafs] at h; obtain ⟨rfl, rfl⟩ := h; simp
  | cons c rest ih =>
    intro l' n h
    cases c with
    | other k sz =>
      simp only [decryptTrafs] at h
      split at h
      · simp at h
      · rename_i r m hr
        simp at h; obtain ⟨rfl, rfl⟩ := h
        obtain ⟨h1, h2, h3⟩ := ih _ _ hr
        refine ⟨by simp; omega, ?_, by simp [stripM, h3]⟩
        simpa [allTrunsOf, trafsOf] using h2
    | pssh sz =>
      simp only [decryptTrafs] at h
      split at h
      · simp at h
      · rename_i r m hr
        simp at h; obtain ⟨rfl, rfl⟩ := h
        obtain ⟨h1, h2, h3⟩ := ih _ _ hr
        refine ⟨by simp; omega, ?_, by simp [stripM, h3]⟩
        simpa [allTrunsOf, trafsOf] using h2
    | traf t =>
      simp only [decryptTrafs] at h
      split at h
      · simp at h
      · rename_i t' k ht
        split at h
        · simp at h
        · rename_i r m hr
          simp at h; obtain ⟨rfl, rfl⟩ := h
          obtain ⟨h1, h2, h3⟩ := ih _ _ hr
          obtain ⟨g1, g2, g3, g4⟩ := decryptTraf_spec ht
          refine ⟨by simp [MoofChild.size]; omega, ?_, ?_⟩
          · simp [allTrunsOf, trafsOf] at h2 ⊢
            rw [h2, g2]
          · simp [stripM, h3, g3, g4]

theorem size_shiftTrun (n : Nat) (r : Trun) : (shiftTrun n r).size = r.size := rfl

theorem msizes_mapTruns (h : Trun → Trun) (hs : ∀ r, (h r).size = r.size) : ∀ l, msizes (mapTruns h l) = msizes l
  | [] => rfl
  | c :: l => by
    have ih := msizes_mapTruns h hs l
    simp only [mapTruns] at ih ⊢
    cases c <;> simp [mapTrafs, ih, MoofChild.size, Traf.size, size_mapTrunsC h hs]

theorem trunsOf_mapTrunsC (h : Trun → Trun) : ∀ l, trunsOf (mapTrunsC h l) = (trunsOf l).map h
  | [] => rfl
  | c :: l => by
    have ih := trunsOf_mapTrunsC h l
    cases c <;> simp [mapTrunsC, trunsOf, ih]

theorem allTrunsOf_mapTruns (h : Trun → Trun) : ∀ l, allTrunsOf (mapTruns h l) = (allTrunsOf l).map h
  | [] => rfl
  | c :: l => by
    have ih := allTrunsOf_mapTruns h l
    simp only [mapTruns, allTrunsOf] at ih ⊢
    cases c <;> simp [mapTrafs, trafsOf, ih, Traf.truns, trunsOf_mapTrunsC]

theorem stripM_mapTruns (h : Trun → Trun) : ∀ l, stripM (mapTruns h l) = mapTruns h (stripM l)
  | [] => rfl
  | c :: l => by
    have ih := stripM_mapTruns h l
    simp only [mapTruns] at ih ⊢
    cases c <;> simp [mapTrafs, stripM, ih, removeProt_mapTrunsC]

@[simp] theorem isPssh_other (k : String) (n : Nat) : (MoofChild.other k n).isPssh = false := rfl
@[simp] theorem isPssh_pssh (n : Nat) : (MoofChild.pssh n).isPssh = true := rfl
@[simp] theorem isPssh_traf (t : Traf) : (MoofChild.traf t).isPssh = false := rfl

theorem filter_pssh_spec : ∀ l : List MoofChild,
    msizes (l.filter fun c => !c.isPssh) + msizes (l.filter MoofChild.isPssh) = msizes l ∧
    allTrunsOf (l.filter fun c => !c.isPssh) = allTrunsOf l ∧
    stripM (l.filter fun c => !c.isPssh) = stripM l
  | [] => ⟨rfl, rfl, rfl⟩
  | c :: l => by
    obtain ⟨h1, h2, h3⟩ := filter_pssh_spec l
    cases c with
    | other k n =>
      refine ⟨by simp [List.filter_cons]; omega, ?_, by simp [List.filter_cons, stripM, h3]⟩
      simpa [List.filter_cons, allTrunsOf, trafsOf] using h2
    | pssh n =>
      refine ⟨by simp [List.filter_cons]; omega, ?_, by simp [List.filter_cons, stripM, h3]⟩
      simpa [List.filter_cons, allTrunsOf, trafsOf] using h2
    | traf t =>
      refine ⟨by simp [List.filter_cons]; omega, ?_, by simp [List.filter_cons, stripM, h3]⟩
      simp [List.filter_cons, allTrunsOf, trafsOf] at h2 ⊢
      rw [h2]

/-- **`DecryptFragment` on any fragment it accepts**: with `removed` = the bytes by which the moof shrinks,
    every box that is not protection signalling is still there, in order and unchanged, except that every trun data
    offset is smaller by exactly `removed`; the mdat position moves by the same amount -/
theorem decryptFrag_spec {di : DecInfo} {f g : Frag} (h : decryptFrag di f = some g) :
    ∃ removed, removed + g.moofSize = f.moofSize ∧
      stripM g.children = mapTruns (shiftTrun removed) (stripM f.children) ∧
      g.allTruns = f.allTruns.map (shiftTrun removed) ∧
      g.moofStart = f.moofStart ∧ g.mdatHdr = f.mdatHdr ∧
      g.mdatStart = (if f.mdatStart > f.moofStart then (f.mdatStart + 2 ^ 64 - removed % 2 ^ 64) % 2 ^ 64 else f.mdatStart) := by
  unfold decryptFrag at h
  split at h
  · simp at h
  · rename_i ch n hd
    simp at h
    subst h
    obtain ⟨h1, h2, h3⟩ := decryptTrafs_spec di _ _ _ _ hd
    obtain ⟨p1, p2, p3⟩ := filter_pssh_spec ch
    refine ⟨n + msizes (ch.filter MoofChild.isPssh), ?_, ?_, ?_, rfl, rfl, rfl⟩
    · simp only [Frag.moofSize, msizes_mapTruns _ (size_shiftTrun _)]
      omega
    · simp only [stripM_mapTruns, p3, h3]
    · simp only [Frag.allTruns, allTrunsOf_mapTruns, p2, h2]

/-- the data offsets still address the same payload bytes: the mdat moved by what the moof lost -/
theorem decryptFrag_payload {di : DecInfo} {f g : Frag} (h : decryptFrag di f = some g)
    (hpos : f.mdatStart > f.moofStart) (hend : f.moofStart + f.moofSize ≤ f.mdatStart) (hfit : f.mdatStart < 2 ^ 64) :
    ∃ removed, removed + g.moofSize = f.moofSize ∧ g.allTruns = f.allTruns.map (shiftTrun removed) ∧
      ∀ r, g.payloadPos (shiftTrun removed r) = f.payloadPos r := by
  obtain ⟨removed, h1, _, h3, h4, h5, h6⟩ := decryptFrag_spec h
  refine ⟨removed, h1, h3, ?_⟩
  intro r
  rw [if_pos hpos] at h6
  have hle : removed ≤ f.mdatStart := by omega
  have : g.mdatStart = f.mdatStart - removed := by omega
  simp only [Frag.payloadPos, shiftTrun, h4, h5, this]
  omega

/-! ## data offsets after writing: samples are laid out in write order -/

theorem trunsOf_placeTrafChildren : ∀ l pos, trunsOf (placeTrafChildren l pos) = trunsOf l
  | [], _ => rfl
  | c :: l, pos => by
    have ih := trunsOf_placeTrafChildren l (pos + c.size)
    cases c <;> simp [placeTrafChildren, trunsOf, ih]

theorem allTrunsOf_placeChildren : ∀ l pos, allTrunsOf (placeChildren l pos) = allTrunsOf l
  | [], _ => rfl
  | c :: l, pos => by
    cases c with
    | other k n => simpa [placeChildren, allTrunsOf, trafsOf] using allTrunsOf_placeChildren l _
    | pssh n => simpa [placeChildren, allTrunsOf, trafsOf] using allTrunsOf_placeChildren l _
    | traf t =>
      have ih := allTrunsOf_placeChildren l (pos + t.size)
      simp [placeChildren, allTrunsOf, trafsOf, Traf.truns, trunsOf_placeTrafChildren] at ih ⊢
      rw [ih]

theorem trunsOf_markSenc : ∀ l, trunsOf (markSenc l).1 = trunsOf l
  | [] => rfl
  | c :: l => by
    have ih := trunsOf_markSenc l
    simp only [markSenc]
    cases hm : markSenc l with
    | mk r b =>
      rw [hm] at ih
      cases b <;> cases c <;> simp_all [trunsOf]

theorem trunsOf_markUuidSenc : ∀ l, trunsOf (markUuidSenc l).1 = trunsOf l
  | [] => rfl
  | c :: l => by
    have ih := trunsOf_markUuidSenc l
    simp only [markUuidSenc]
    cases hm : markUuidSenc l with
    | mk r b =>
      rw [hm] at ih
      cases b <;> cases c <;> simp_all [trunsOf]

theorem trunsOf_markParsed (l : List TrafChild) : trunsOf (markParsed l) = trunsOf l := by
  unfold markParsed
  have h1 := trunsOf_markSenc l
  have h2 := trunsOf_markUuidSenc l
  cases hm : markSenc l with
  | mk r b => rw [hm] at h1; cases b <;> simp_all

theorem allTrunsOf_decodeTrafs (ms : Nat) : ∀ l l', decodeTrafs ms l = some l' → allTrunsOf l' = allTrunsOf l := by
  intro l
  induction l with
  | nil => intro l' h; simp [decodeTrafs] at h; subst h; rfl
  | cons c rest ih =>
    intro l' h
    cases c with
    | other k n =>
      simp only [decodeTrafs] at h
      obtain ⟨r', hr', rfl⟩ := map_eq_some_cons h
      simpa [allTrunsOf, trafsOf] using ih _ hr'
    | pssh n =>
      simp only [decodeTrafs] at h
      obtain ⟨r', hr', rfl⟩ := map_eq_some_cons h
      simpa [allTrunsOf, trafsOf] using ih _ hr'
    | traf t =>
      rw [decodeTrafs_cons_traf] at h
      cases hd : decodeOne ms t.children with
      | none => simp [hd] at h
      | some ch =>
        simp only [hd] at h
        obtain ⟨r', hr', rfl⟩ := map_eq_some_cons h
        have := ih _ hr'
        have hch : trunsOf ch = trunsOf t.children := by
          unfold decodeOne at hd
          split at hd
          · split at hd
            · simp at hd; subst hd; exact trunsOf_markParsed _
            · simp at hd
          · simp at hd; subst hd; rfl
        simp [allTrunsOf, trafsOf, Traf.truns, hch] at this ⊢
        rw [this]

/-- bytes of the truns written before `r` -/
def rankBytes (ts : List Trun) (r : Trun) : Nat :=
  ((ts.filter fun u => decide (u.writeOrder < r.writeOrder)).map Trun.dataSize).sum

/-- **after writing, a trun's data offset addresses the payload byte right after the data of the truns written before
    it** (whatever the size of the moof) -/
theorem layout_payload {f fl : Frag} (h : layout f = some fl) (hman : offsetsUnmanaged f.allTruns = false) :
    fl.allTruns = f.allTruns.map (trunLayout f.moofSize f.mdatHdr f.allTruns) ∧
    fl.moofStart = f.moofStart ∧ fl.mdatHdr = f.mdatHdr ∧ fl.mdatStart = f.moofStart + f.moofSize ∧
    ∀ r, fl.payloadPos (trunLayout f.moofSize f.mdatHdr f.allTruns r) = (rankBytes f.allTruns r : Int) ∧
         (trunLayout f.moofSize f.mdatHdr f.allTruns r).dataOffset = ((f.moofSize + f.mdatHdr + rankBytes f.allTruns r : Nat) : Int) := by
  unfold layout at h
  cases hd : decodeTrafs f.moofStart (placeChildren f.children (f.moofStart + 8)) with
  | none => simp [hd] at h
  | some ch =>
    simp [hd] at h
    subst h
    have h1 := allTrunsOf_decodeTrafs _ _ _ hd
    rw [allTrunsOf_placeChildren] at h1
    refine ⟨?_, rfl, rfl, rfl, ?_⟩
    · simp only [Frag.allTruns, allTrunsOf_mapTruns, h1]
    · intro r
      simp only [Frag.payloadPos, trunLayout, hman, rankBytes]
      simp
      omega


/-! ## sample entries and the moov -/

/-- no sinf among the children of a (clear) sample entry -/
def noSinf : List EntryChild → Bool
  | [] => true
  | .sinf _ :: _ => false
  | _ :: rest => noSinf rest

theorem lastSinf_append (l : List EntryChild) (s : Sinf) : lastSinf (l ++ [.sinf s]) = some s := by
  induction l with
  | nil => simp [lastSinf]
  | cons c l ih => simp [lastSinf, ih]

theorem dropFirstSinf_append : ∀ (l : List EntryChild) (s : Sinf), noSinf l = true → dropFirstSinf (l ++ [.sinf s]) = l
  | [], _, _ => rfl
  | c :: l, s, h => by
    cases c with
    | sinf x => simp [noSinf] at h
    | other k n =>
      simp only [noSinf] at h
      simp [dropFirstSinf, dropFirstSinf_append l s h]

theorem schemeSinf_frma (sc : Scheme) (k : String) : (schemeSinf sc k).frma = k := by cases sc <;> rfl
theorem schemeSinf_scheme (sc : Scheme) (k : String) : (schemeSinf sc k).scheme = sc.name := by cases sc <;> rfl
theorem schemeSinf_ivSize (sc : Scheme) (k : String) : (schemeSinf sc k).ivSize = sc.ivLen := by cases sc <;> rfl
theorem schemeSinf_size (sc : Scheme) (k : String) :
    (schemeSinf sc k).size = match sc with | .cenc => 80 | .cbcs => 97 := by cases sc <;> rfl

/-- **the protected sample entry**: type encv / enca by class, the old children in order followed by one sinf whose frma
    carries the original type; the entry grows by the sinf (80 bytes for cenc, 97 for cbcs with its 16-byte constant IV) -/
theorem protectEntry_spec {sc : Scheme} {e e' : SampleEntry} (h : protectEntry sc e = some e') :
    e'.cls = e.cls ∧
    ((e.cls = .visual ∧ e'.kind = "encv") ∨ (e.cls = .audio ∧ e'.kind = "enca")) ∧
    e'.children = e.children ++ [.sinf (schemeSinf sc e.kind)] ∧
    (schemeSinf sc e.kind).frma = e.kind ∧
    e'.size = e.size + (schemeSinf sc e.kind).size := by
  unfold protectEntry at h
  cases hc : e.cls with
  | visual =>
    rw [hc] at h
    simp only at h
    split at h
    · simp at h; subst h
      simp [hc, schemeSinf_frma, SampleEntry.size, EntryChild.size]
      omega
    · simp at h
  | audio =>
    rw [hc] at h
    simp at h; subst h
    simp [hc, schemeSinf_frma, SampleEntry.size, EntryChild.size]
    omega
  | other => rw [hc] at h; simp at h

/-- **`RemoveEncryption` undoes the sample entry part of `InitProtect`**: original type back (from frma), the children as
    before in the same order -/
theorem unprotect_protect {sc : Scheme} {e e' : SampleEntry} (hn : noSinf e.children = true)
    (h : protectEntry sc e = some e') : unprotectEntry e' = some (e, schemeSinf sc e.kind) := by
  obtain ⟨h1, h2, h3, h4, _⟩ := protectEntry_spec h
  unfold unprotectEntry
  have hcond : (e'.cls = .visual ∧ e'.kind = "encv") ∨ (e'.cls = .audio ∧ e'.kind = "enca") := by
    rcases h2 with ⟨a, b⟩ | ⟨a, b⟩
    · exact Or.inl ⟨by rw [h1, a], b⟩
    · exact Or.inr ⟨by rw [h1, a], b⟩
  rw [if_pos hcond, h3, lastSinf_append, dropFirstSinf_append _ _ hn]
  simp only [h4]
  cases e; cases e'; simp_all

def noPsshMoov : List MoovChild → Bool
  | [] => true
  | .pssh _ :: _ => false
  | _ :: rest => noPsshMoov rest

theorem mapTraks_noTrak (g : Trak → Trak) : ∀ l, traksOf l = [] → mapTraks g l = l
  | [], _ => rfl
  | c :: l, h => by
    cases c with
    | trak t => simp [traksOf] at h
    | other k n => simp only [traksOf] at h; simp [mapTraks, mapTraks_noTrak g l h]
    | pssh n => simp only [traksOf] at h; simp [mapTraks, mapTraks_noTrak g l h]

theorem decryptTraks_noTrak : ∀ l, traksOf l = [] → decryptTraks l = some (l, [])
  | [], _ => rfl
  | c :: l, h => by
    cases c with
    | trak t => simp [traksOf] at h
    | other k n => simp only [traksOf] at h; simp [decryptTraks, decryptTraks_noTrak l h]
    | pssh n => simp only [traksOf] at h; simp [decryptTraks, decryptTraks_noTrak l h]

theorem traksOf_append_pssh (l : List MoovChild) (ps : List Nat) : traksOf (l ++ ps.map MoovChild.pssh) = traksOf l := by
  induction l with
  | nil =>
    induction ps with
    | nil => rfl
    | cons p ps ih => simpa [traksOf] using ih
  | cons c l ih => cases c <;> simp [traksOf, ih]

@[simp] theorem moov_isPssh_other (k : String) (n : Nat) : (MoovChild.other k n).isPssh = false := rfl
@[simp] theorem moov_isPssh_pssh (n : Nat) : (MoovChild.pssh n).isPssh = true := rfl
@[simp] theorem moov_isPssh_trak (t : Trak) : (MoovChild.trak t).isPssh = false := rfl

theorem filter_append_pssh (l : List MoovChild) (ps : List Nat) (h : noPsshMoov l = true) :
    (l ++ ps.map MoovChild.pssh).filter (fun c => !c.isPssh) = l := by
  induction l with
  | nil =>
    induction ps with
    | nil => rfl
    | cons p ps ih => simp
  | cons c l ih =>
    cases c with
    | pssh n => simp [noPsshMoov] at h
    | other k n => simp only [noPsshMoov] at h; have := ih h; simp [List.filter_cons] at this ⊢; exact this
    | trak t => simp only [noPsshMoov] at h; have := ih h; simp [List.filter_cons] at this ⊢; exact this

/-- decrypting a moov with exactly one trak whose only entry was protected -/
theorem decryptTraks_one (sc : Scheme) (t : Trak) (e e' : SampleEntry) (hn : noSinf e.children = true)
    (hp : protectEntry sc e = some e') (hte : t.entries = [e]) :
    ∀ l, traksOf l = [t] →
      decryptTraks (mapTraks (fun t => { t with entries := [e'] }) l) = some (l, [(t.trackID, some (sc.name, sc.ivLen))]) := by
  intro l
  induction l with
  | nil => intro h; simp [traksOf] at h
  | cons c rest ih =>
    intro h
    cases c with
    | other k n => simp only [traksOf] at h; simp [mapTraks, decryptTraks, ih h]
    | pssh n => simp only [traksOf] at h; simp [mapTraks, decryptTraks, ih h]
    | trak t0 =>
      simp only [traksOf, List.cons.injEq] at h
      obtain ⟨rfl, hrest⟩ := h
      obtain ⟨h1, h2, _, _, _⟩ := protectEntry_spec hp
      have hk : e'.kind = "encv" ∨ e'.kind = "enca" := by
        rcases h2 with ⟨_, b⟩ | ⟨_, b⟩
        · exact Or.inl b
        · exact Or.inr b
      have hde : decryptEntries [e'] = some ([e], [(sc.name, sc.ivLen)]) := by
        simp only [decryptEntries, if_pos hk, unprotect_protect hn hp, schemeSinf_scheme, schemeSinf_ivSize]
      simp only [mapTraks, decryptTraks, hde, mapTraks_noTrak _ _ hrest, decryptTraks_noTrak _ hrest]
      cases t0 with
      | mk tid tes =>
        cases sc <;> simp [Scheme.name, Scheme.ivLen] <;> simp_all

/-- **`DecryptInit` undoes `InitProtect`** on a moov with one trak and one clear sample entry of a supported type and no
    pssh of its own: the moov is as before (sample entry type restored, every child in place, the added pssh boxes gone),
    and the decrypt info names the track with its scheme and per-sample IV size -/
theorem decryptInit_initProtect (sc : Scheme) (psshs : List Nat) (moov m' : List MoovChild) (t : Trak) (e : SampleEntry)
    (ht : traksOf moov = [t]) (hte : t.entries = [e]) (hn : noSinf e.children = true) (hp : noPsshMoov moov = true)
    (h : initProtect sc psshs moov = some m') :
    decryptInit m' = some (moov, [(t.trackID, some (sc.name, sc.ivLen))]) := by
  unfold initProtect at h
  rw [ht] at h
  simp only [hte] at h
  cases hpe : protectEntry sc e with
  | none => simp [hpe] at h
  | some e' =>
    simp only [hpe] at h
    simp at h
    subst h
    unfold decryptInit
    have hno : ∀ l : List MoovChild, ∀ (ps : List Nat) (r : List MoovChild) (di : DecInfo), decryptTraks l = some (r, di) →
        decryptTraks (l ++ ps.map MoovChild.pssh) = some (r ++ ps.map MoovChild.pssh, di) := by
      intro l
      induction l with
      | nil =>
        intro ps r di hd
        simp [decryptTraks] at hd
        obtain ⟨rfl, rfl⟩ := hd
        induction ps with
        | nil => rfl
        | cons p ps ih => simp [decryptTraks] at ih ⊢; simp [ih]
      | cons c l ih =>
        intro ps r di hd
        cases c with
        | other k n =>
          simp only [decryptTraks] at hd
          split at hd
          · simp at hd
          · rename_i r0 d0 h0
            simp at hd; obtain ⟨rfl, rfl⟩ := hd
            simp [decryptTraks, ih ps _ _ h0]
        | pssh n =>
          simp only [decryptTraks] at hd
          split at hd
          · simp at hd
          · rename_i r0 d0 h0
            simp at hd; obtain ⟨rfl, rfl⟩ := hd
            simp [decryptTraks, ih ps _ _ h0]
        | trak t0 =>
          simp only [decryptTraks] at hd
          split at hd
          · simp at hd
          · rename_i es infos he
            split at hd
            · simp at hd
            · rename_i hlast
              split at hd
              · simp at hd
              · rename_i r0 d0 h0
                simp at hd; obtain ⟨rfl, rfl⟩ := hd
                simp only [List.cons_append, decryptTraks, he, if_neg hlast, ih ps _ _ h0, List.append_assoc]
    rw [hno _ psshs _ _ (decryptTraks_one sc t e e' hn hpe hte moov ht)]
    simp only [filter_append_pssh _ _ hp]


/-! ## the library function `EncryptFragment` -/

theorem encChildren_congr (ps ps' : Nat → Option (Scheme × List Nat)) :
    ∀ l off, (∀ t ∈ trafsOf l, ps t.trackID = ps' t.trackID) → encChildren ps l off = encChildren ps' l off := by
  intro l
  induction l with
  | nil => intro off _; rfl
  | cons c rest ih =>
    intro off h
    cases c with
    | other k n => simp only [encChildren]; rw [ih _ (by simpa [trafsOf] using h)]
    | pssh n => simp only [encChildren]; rw [ih _ (by simpa [trafsOf] using h)]
    | traf t =>
      have ht : ps t.trackID = ps' t.trackID := h t (by simp [trafsOf])
      have hr : ∀ t' ∈ trafsOf rest, ps t'.trackID = ps' t'.trackID := fun t' ht' => h t' (by simp [trafsOf, ht'])
      simp only [encChildren, ht]
      cases ps' t.trackID with
      | none => simp only []; rw [ih _ hr]
      | some p =>
        obtain ⟨sc, subs⟩ := p
        simp only []
        split
        · split
          · rfl
          · split
            · rfl
            · rw [ih _ hr]
        · rfl

/-- one trun: the writer always sets its data offset -/
theorem managed_of_one (ts : List Trun) (h : ts.length ≤ 1) : offsetsUnmanaged ts = false := by
  unfold offsetsUnmanaged
  have : ¬ ts.length > 1 := by omega
  simp [this]

theorem allTruns_one {l : List MoofChild} {t : Traf} {r : Trun} (h : trafsOf l = [t]) (hr : t.truns = [r]) :
    allTrunsOf l = [r] := by
  simp [allTrunsOf, h, hr]

/-- **decrypt ∘ write ∘ `EncryptFragment` = write**, for every clear fragment the library function accepts -/
theorem roundtrip_lib (sc : Scheme) (subs : List Nat) (di : DecInfo) (f g : Frag)
    (hclear : f.Clear) (henc : encryptFrag sc subs f = some g)
    (hdi : ∀ t ∈ f.trafs, ∃ s iv, findTrack di t.trackID = some (s, iv) ∧ (s = "cenc" ∨ s = "cbcs"))
    (hfit : f.moofStart + g.moofSize < 2 ^ 64) :
    ∃ gl, layout g = some gl ∧ decryptFrag di gl = some (clearLayout f) := by
  obtain ⟨t, r, ht, hr⟩ := encryptFrag_trafs henc
  rw [encryptFrag_eq_encryptAll sc subs f t ht] at henc
  refine roundtrip (fun _ => some (sc, subs)) di f g hclear ?_ henc ?_ hfit
  · intro t' ht'
    exact hdi t' ht'
  · have : f.allTruns = [r] := allTruns_one ht hr
    rw [this]; exact managed_of_one _ (by simp)

/-- a fragment that is already laid out as written (decoded from a file) is a fixed point of `clearLayout` -/
def AsWritten (f : Frag) : Prop := clearLayout f = f

/-- **CENC well-formedness of what `EncryptFragment` produces.**  The one traf (at byte `p` of the moof) keeps its
    children and gets saiz, saio, senc appended in this order; the saio holds one offset, and 16 bytes before it the senc
    box starts (so it is the offset of the first IV / first entry); senc sample count = trun sample count = number of
    sub-sample maps; the saiz entries (table or default) are the per-sample auxiliary information sizes
    IV + (2 + 6·n when sub-samples are used), each ≤ 255; the senc box is 16 bytes of header plus exactly these sizes. -/
theorem encryptFrag_wellformed {sc : Scheme} {subs : List Nat} {f g : Frag} (h : encryptFrag sc subs f = some g) :
    ∃ t r a s p q,
      f.trafs = [t] ∧ t.truns = [r] ∧ auxBoxes sc subs = some (a, s) ∧
      trafsAt g.children 8 = [(p, addProt a ((q + 16 : Nat) : Int) s t)] ∧
      (q, TrafChild.senc s) ∈ childOffsets (addProt a ((q + 16 : Nat) : Int) s t).children (p + 8) ∧
      s.sampleCount = r.sampleSizes.length ∧ subs.length = r.sampleSizes.length ∧
      s.size = 16 + (subs.map (sampleInfoSize sc.ivLen)).sum ∧
      (∀ i, (hi : i < subs.length) → a.entry i = sampleInfoSize sc.ivLen subs[i] ∧ sampleInfoSize sc.ivLen subs[i] ≤ 255) ∧
      a.sampleCount = (if sc.ivLen = 0 ∧ (∀ n ∈ subs, n = 0) then 0 else r.sampleSizes.length) := by
  obtain ⟨t, r, ht, hr⟩ := encryptFrag_trafs h
  rw [encryptFrag_eq_encryptAll sc subs f t ht] at h
  obtain ⟨l', henc', rfl⟩ := encryptAll_some h
  have hall := encChildren_trafs _ _ _ _ henc'
  have ht' : trafsOf f.children = [t] := ht
  rw [ht'] at hall
  generalize htl : trafsAt l' 8 = tl at hall
  cases hall with
  | cons hR hrest =>
    cases hrest
    rename_i pt
    simp only [EncTraf] at hR
    obtain ⟨r', a, s, hr', hlen, haux, hpt⟩ := hR
    rw [hr] at hr'
    simp only [List.cons.injEq, and_true] at hr'
    subst hr'
    obtain ⟨p, t'⟩ := pt
    simp only at hpt
    subst hpt
    have hspec := auxBoxes_spec haux
    refine ⟨t, r, a, s, p, p + 8 + sizes t.children + a.size + 20, ht, hr, haux, ?_, ?_, ?_, hlen, hspec.2.1, ?_, ?_⟩
    · rfl
    · exact senc_position a _ s t p
    · rw [hspec.1, hlen]
    · intro i hi
      exact ⟨hspec.2.2.2.2.2.2.1 i hi, hspec.2.2.2.2.2.2.2.1 _ (List.getElem_mem hi)⟩
    · rw [hspec.2.2.2.2.2.2.2.2.1, hlen]

/-- **after writing, every trun data offset of the encrypted fragment is the clear one plus the growth of the moof, and
    addresses the same byte of the mdat payload** (for `encryptAll`, hence for `EncryptFragment`) -/
theorem layout_offsets_grow (ps : Nat → Option (Scheme × List Nat)) (f g fl gl : Frag)
    (henc : encryptAll ps f = some g) (hman : offsetsUnmanaged f.allTruns = false)
    (hfl : layout f = some fl) (hgl : layout g = some gl) :
    f.moofSize ≤ g.moofSize ∧
    fl.allTruns = f.allTruns.map (trunLayout f.moofSize f.mdatHdr f.allTruns) ∧
    gl.allTruns = f.allTruns.map (trunLayout g.moofSize f.mdatHdr f.allTruns) ∧
    ∀ r, (trunLayout g.moofSize f.mdatHdr f.allTruns r).dataOffset
            = (trunLayout f.moofSize f.mdatHdr f.allTruns r).dataOffset + ((g.moofSize - f.moofSize : Nat) : Int) ∧
         gl.payloadPos (trunLayout g.moofSize f.mdatHdr f.allTruns r)
            = fl.payloadPos (trunLayout f.moofSize f.mdatHdr f.allTruns r) := by
  obtain ⟨l', henc', rfl⟩ := encryptAll_some henc
  have htr : allTrunsOf l' = f.allTruns := allTruns_encChildren ps _ _ _ henc'
  have hle := msizes_encChildren_le ps _ _ _ henc'
  have htr' : Frag.allTruns { f with children := l' } = f.allTruns := htr
  have hman' : offsetsUnmanaged (Frag.allTruns { f with children := l' }) = false := by
    rw [htr']; exact hman
  obtain ⟨a1, a2, a3, a4, a5⟩ := layout_payload hfl hman
  obtain ⟨b1, b2, b3, b4, b5⟩ := layout_payload hgl hman'
  rw [htr'] at b1 b5
  refine ⟨by simp only [Frag.moofSize]; omega, a1, b1, ?_⟩
  intro r
  obtain ⟨c1, c2⟩ := a5 r
  obtain ⟨d1, d2⟩ := b5 r
  refine ⟨?_, ?_⟩
  · rw [c2]
    have d2' : (trunLayout (Frag.moofSize { f with children := l' }) f.mdatHdr f.allTruns r).dataOffset
        = ((Frag.moofSize { f with children := l' } + f.mdatHdr + rankBytes f.allTruns r : Nat) : Int) := d2
    rw [d2']
    simp only [Frag.moofSize]
    omega
  · rw [c1]; exact d1

end Mp4ff.Protect
