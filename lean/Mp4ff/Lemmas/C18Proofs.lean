import Mp4ff.Model.Aac
import Mp4ff.Lemmas.C13Seq
/-!
C18 (audio configuration codecs): domain definitions and proofs, used by Props/C18.lean.
Useful existing lemmas (Mp4ff/Lemmas/BitsWriter.lean, BitsReader.lean, C13Seq.lean):
`BW.write_spec`, `BW.writeAll_spec`, `BW.flush_spec`, `BW.init_inv`, `BR.read_spec`, `BR.readAll_spec`,
`eq_of_lowBits_eq`, `lowBits_append`, `bitsOfBytes_append`.
-/
namespace Mp4ff.Aac
open Mp4ff.Bits

/-- the two frequency tables of aac/aac.go are mutually inverse -/
theorem freq_tables_inverse : ∀ p ∈ freqTable, indexOfFreq p.2 = some p.1 ∧ freqOfIndex p.1 = some p.2 := by
  decide

/-! ## helpers for the AudioSpecificConfig round trip -/

theorem BR.read_lowBits (r : BR) (k v : Nat) (tail : List Bool) (hr : r.Inv) (hk : k ≤ 56)
    (hv : v < 2 ^ k) (habs : r.abs = lowBits k v ++ tail) :
    ∃ r', r.read k = (r', v) ∧ r'.Inv ∧ r'.abs = tail := by
  obtain ⟨h1, h2, h3, h4, _⟩ := BR.read_spec r k hr hk (by rw [habs]; simp)
  rw [habs] at h2 h3
  simp at h2 h3
  have hval := eq_of_lowBits_eq h4 hv h3
  exact ⟨(r.read k).1, by rw [← hval], h1, h2⟩

def freqBits (f : Nat) : List Bool :=
  match indexOfFreq f with
  | some i => lowBits 4 i
  | none => lowBits 4 15 ++ lowBits 24 f

theorem writeFreq_spec (w : BW) (f : Nat) (hw : w.Inv) :
    (writeFreq w f).Inv ∧ (writeFreq w f).abs = w.abs ++ freqBits f := by
  unfold writeFreq freqBits
  cases h : indexOfFreq f with
  | some i => exact BW.write_spec w _ 4 hw (by omega)
  | none =>
    have h1 := BW.write_spec w 15 4 hw (by omega)
    have h2 := BW.write_spec (w.write 15 4) f 24 h1.1 (by omega)
    exact ⟨h2.1, by rw [h2.2, h1.2, List.append_assoc]⟩

theorem freqTable_aux : ∀ p ∈ freqTable, p.1 < 13 ∧ freqOfIndex p.1 = some p.2 := by decide

theorem indexOfFreq_some {f i : Nat} (h : indexOfFreq f = some i) : i < 13 ∧ freqOfIndex i = some f := by
  unfold indexOfFreq at h
  simp only [Option.map_eq_some_iff] at h
  obtain ⟨p, hp, rfl⟩ := h
  have hmem := List.mem_of_find?_eq_some hp
  have hpf := List.find?_some hp
  simp at hpf
  subst hpf
  exact freqTable_aux p hmem

theorem getFrequency_spec (r : BR) (f : Nat) (tail : List Bool) (hr : r.Inv) (hf : f < 2 ^ 24)
    (habs : r.abs = freqBits f ++ tail) :
    ∃ r', getFrequency r = (r', some f) ∧ r'.Inv ∧ r'.abs = tail := by
  unfold freqBits at habs
  unfold getFrequency
  cases h : indexOfFreq f with
  | some i =>
    rw [h] at habs
    obtain ⟨hi, hfi⟩ := indexOfFreq_some h
    obtain ⟨r1, e1, i1, a1⟩ := BR.read_lowBits r 4 i tail hr (by omega) (by omega) habs
    rw [e1]
    have : i ≠ 15 := by omega
    have hm : i % 256 = i := by omega
    simp [this, i1.2.2.2, hm, hfi]
    exact ⟨i1, a1⟩
  | none =>
    rw [h] at habs
    simp only [List.append_assoc] at habs
    obtain ⟨r1, e1, i1, a1⟩ := BR.read_lowBits r 4 15 _ hr (by omega) (by omega) habs
    obtain ⟨r2, e2, i2, a2⟩ := BR.read_lowBits r1 24 f _ i1 (by omega) hf a1
    rw [e1]
    simp [e2, i2.2.2.2]
    exact ⟨i2, a2⟩


theorem BR.init_inv (bs : Bytes) (h : IsBytes bs) : ({ rest := bs } : BR).Inv ∧ ({ rest := bs } : BR).abs = bitsOfBytes bs := by
  refine ⟨⟨by simp, by simp, h, rfl⟩, ?_⟩
  simp [BR.abs, lowBits]


/-- the whole domain the library supports -/
def AscDom (a : ASC) : Prop :=
  (a.objectType = 2 ∨ a.objectType = 5 ∨ a.objectType = 29) ∧ a.channelConfiguration < 16 ∧
  a.samplingFrequency < 2 ^ 24 ∧ a.extensionFrequency < 2 ^ 24 ∧
  (a.objectType = 2 → a.extensionFrequency = 0) ∧
  a.sbrPresent = decide (a.objectType = 5 ∨ a.objectType = 29) ∧ a.psPresent = decide (a.objectType = 29)

/-- every supported configuration (table or explicit 24-bit frequencies, all 16 channel configurations,
    object types 2/5/29) survives encode → decode -/
theorem asc_roundtrip (a : ASC) (h : AscDom a) :
    ∃ bs, encodeASC a = some bs ∧ decodeASC bs = .ok a := by
  obtain ⟨ot, ch, sf, ef, sbr, ps⟩ := a
  obtain ⟨hot, hch, hsf, hef, h2, hsbr, hps⟩ := h
  simp only at hot hch hsf hef h2 hsbr hps
  have hot32 : ot < 2 ^ 5 := by omega
  unfold encodeASC
  simp only [hot, if_true]
  refine ⟨_, rfl, ?_⟩
  have w1 := BW.write_spec {} ot 5 BW.init_inv (by omega)
  have w2 := writeFreq_spec _ sf w1.1
  have w3 := BW.write_spec _ ch 4 w2.1 (by omega)
  by_cases h5 : ot = 5 ∨ ot = 29
  · simp only [h5, if_true]
    have w4 := writeFreq_spec _ ef w3.1
    have w5 := BW.write_spec _ 2 5 w4.1 (by omega)
    have w6 := BW.write_spec _ 0 3 w5.1 (by omega)
    have w7 := BW.flush_spec _ w6.1
    rw [w6.2, w5.2, w4.2, w3.2, w2.2, w1.2] at w7
    simp only [BW.abs, bitsOfBytes, lowBits, List.nil_append, List.append_assoc] at w7
    obtain ⟨i0, a0⟩ := BR.init_inv _ w7.2
    rw [w7.1] at a0
    obtain ⟨r1, e1, i1, a1⟩ := BR.read_lowBits _ 5 ot _ i0 (by omega) hot32 a0
    obtain ⟨r2, e2, i2, a2⟩ := getFrequency_spec r1 sf _ i1 hsf a1
    obtain ⟨r3, e3, i3, a3⟩ := BR.read_lowBits _ 4 ch _ i2 (by omega) hch a2
    obtain ⟨r4, e4, i4, a4⟩ := getFrequency_spec r3 ef _ i3 hef a3
    obtain ⟨r5, e5, i5, a5⟩ := BR.read_lowBits _ 5 2 _ i4 (by omega) (by omega) a4
    unfold decodeASC
    simp only [e1]
    have hm : ot % 256 = ot := by omega
    have hc : ch % 256 = ch := by omega
    simp only [hm, h5, if_true, e2, e3, e4, e5, hc]
    simp [hsbr, hps, h5]
  · simp only [h5, if_false]
    have hot2 : ot = 2 := by omega
    have w6 := BW.write_spec _ 0 3 w3.1 (by omega)
    have w7 := BW.flush_spec _ w6.1
    rw [w6.2, w3.2, w2.2, w1.2] at w7
    simp only [BW.abs, bitsOfBytes, lowBits, List.nil_append, List.append_assoc] at w7
    obtain ⟨i0, a0⟩ := BR.init_inv _ w7.2
    rw [w7.1] at a0
    obtain ⟨r1, e1, i1, a1⟩ := BR.read_lowBits _ 5 ot _ i0 (by omega) hot32 a0
    obtain ⟨r2, e2, i2, a2⟩ := getFrequency_spec r1 sf _ i1 hsf a1
    obtain ⟨r3, e3, i3, a3⟩ := BR.read_lowBits _ 4 ch _ i2 (by omega) hch a2
    unfold decodeASC
    simp only [e1]
    have hm : ot % 256 = ot := by omega
    have hc : ch % 256 = ch := by omega
    simp only [hm, h5, if_false, e2, e3, hc]
    simp [hsbr, hps, h5, h2 hot2]
    omega

def AdtsDom (a : ADTS) : Prop :=
  a.id = 0 ∧ 1 ≤ a.objectType ∧ a.objectType ≤ 4 ∧ a.samplingFrequencyIndex < 16 ∧ a.channelConfig < 8 ∧
  a.headerLength = 7 ∧ a.payloadLength ≤ 8184 ∧ a.bufferFullness < 2048

/-- no byte pair inside the junk looks like a sync word (ff, then fx with layer bits 00) -/
def NoFalseSync : Bytes → Prop
  | a :: b :: rest => ¬ (a = 0xff ∧ b / 16 = 0xf ∧ (b / 2) % 4 = 0) ∧ NoFalseSync (b :: rest)
  | _ => True

/-! ## helpers for the ADTS round trip -/

def mkR (k : Nat) (rest : Bytes) : BR := { n := 0, v := 0, nread := k, rest := rest, err := false }

theorem read_byte (k b : Nat) (rest : Bytes) :
    BR.read (mkR k (b :: rest)) 8 = (mkR (k + 1) rest, b) := by
  simp [mkR, BR.read, BR.fill, mask, W64]

def afterFF (n : Nat) (r1 : BR) (off1 : Int) : SyncState :=
  let (r2, b2) := r1.read 8
  let sync2 := b2 % 256
  let startPattern := sync2 / 16
  let mpegID := (sync2 / 8) % 2
  let layer := (sync2 / 2) % 4
  let pa := sync2 % 2
  if startPattern = 0xf ∧ layer = 0 then
    { r := r2, sync2 := sync2, offset := off1, mpegID := mpegID, layer := layer,
      protectionAbsent := pa, found := true }
  else
    syncSearch n { r := r2, sync2 := sync2, offset := off1 + 2, mpegID := mpegID, layer := layer,
                   protectionAbsent := pa, found := false }

theorem syncSearch_succ_ff (n : Nat) (st : SyncState) (h : st.sync2 = 0xff) :
    syncSearch (n + 1) st = afterFF n st.r (st.offset - 1) := by
  simp [syncSearch, afterFF, h]

theorem syncSearch_succ_nff (n : Nat) (st : SyncState) (h : st.sync2 ≠ 0xff) :
    syncSearch (n + 1) st =
      if (st.r.read 8).2 % 256 = 0xff then afterFF n (st.r.read 8).1 st.offset
      else syncSearch n { st with r := (st.r.read 8).1, offset := st.offset + 1 } := by
  simp [syncSearch, afterFF, h]

def finalSt (k : Nat) (hdr : Bytes) (off : Int) : SyncState :=
  { r := mkR k hdr, sync2 := 0xf1, offset := off, mpegID := 0, layer := 0, protectionAbsent := 1, found := true }

/-- the state/stream relation of the sync search: `junk` is what is still in front of the sync word,
    seen through the pending byte `sync2` -/
def SyncRel (hdr : Bytes) (st : SyncState) (junk : Bytes) (voff : Int) : Prop :=
  (st.sync2 ≠ 0xff ∧ ∃ k, st.r = mkR k (junk ++ 0xff :: 0xf1 :: hdr) ∧ st.offset = voff) ∨
  (st.sync2 = 0xff ∧ ∃ k rest, st.r = mkR k rest ∧ 0xff :: rest = junk ++ 0xff :: 0xf1 :: hdr ∧
    st.offset - 1 = voff)

def SyncP (hdr : Bytes) (n : Nat) : Prop :=
  ∀ (junk : Bytes) (st : SyncState) (voff : Int), IsBytes junk → NoFalseSync junk → junk.length + 1 ≤ n →
    SyncRel hdr st junk voff → ∃ k', syncSearch n st = finalSt k' hdr (voff + junk.length)

theorem NoFalseSync_tail {b : Nat} {junk : Bytes} (h : NoFalseSync (b :: junk)) : NoFalseSync junk := by
  cases junk with
  | nil => trivial
  | cons c rest => exact h.2

theorem afterFF_spec (hdr : Bytes) (n : Nat) (ih : SyncP hdr n) (junk rest : Bytes) (k : Nat) (voff : Int)
    (hj : IsBytes junk) (hns : NoFalseSync junk) (hl : junk.length ≤ n)
    (hrest : 0xff :: rest = junk ++ 0xff :: 0xf1 :: hdr) :
    ∃ k', afterFF n (mkR k rest) voff = finalSt k' hdr (voff + junk.length) := by
  match junk, hj, hns, hl, hrest with
  | [], _, _, _, hrest =>
    simp at hrest
    subst hrest
    refine ⟨k + 1, ?_⟩
    simp [afterFF, read_byte, finalSt]
  | [b], _, _, hl, hrest =>
    simp at hrest
    obtain ⟨hb, hrest⟩ := hrest
    subst hrest
    simp only [afterFF, read_byte]
    have hlen : voff + ↑([b].length) = (voff + 1) + ↑(([] : Bytes).length) := by simp
    rw [hlen]
    refine ih [] _ _ (by intro x hx; simp at hx) trivial (by simpa using hl) ?_
    exact Or.inr ⟨rfl, k + 1, 0xf1 :: hdr, rfl, rfl, by simp; omega⟩
  | b :: c :: junk', hj, hns, hl, hrest =>
    simp at hrest
    obtain ⟨hb, hrest⟩ := hrest
    subst hrest
    subst hb
    have hc : c < 256 := hj c (by simp)
    have hcm : c % 256 = c := by omega
    have hnot : ¬ (c / 16 = 15 ∧ c / 2 % 4 = 0) := by
      have := hns.1
      simpa using this
    simp only [afterFF, read_byte, hcm]
    simp only [hnot, if_false]
    have hj' : IsBytes (c :: junk') := fun x hx => hj x (by simp [hx])
    have hj'' : IsBytes junk' := fun x hx => hj x (by simp [hx])
    simp only [List.length_cons] at hl
    by_cases hcf : c = 0xff
    · have hlen : voff + ↑((255 :: c :: junk').length) = (voff + 1) + ↑((c :: junk').length) := by
        simp; omega
      rw [hlen]
      refine ih (c :: junk') _ _ hj' hns.2 (by simp; omega) ?_
      exact Or.inr ⟨hcf, k + 1, junk' ++ 0xff :: 0xf1 :: hdr, rfl, by simp [hcf], by simp; omega⟩
    · have hlen : voff + ↑((255 :: c :: junk').length) = (voff + 2) + ↑(junk'.length) := by
        simp; omega
      rw [hlen]
      refine ih junk' _ _ hj'' (NoFalseSync_tail hns.2) (by omega) ?_
      exact Or.inl ⟨hcf, k + 1, rfl, rfl⟩

theorem sync_spec (hdr : Bytes) : ∀ n, SyncP hdr n := by
  intro n
  induction n with
  | zero => intro junk st voff _ _ hl; omega
  | succ n ih =>
    intro junk st voff hj hns hl hrel
    rcases hrel with ⟨h2, k, hr, hoff⟩ | ⟨h2, k, rest, hr, hrest, hoff⟩
    · rw [syncSearch_succ_nff n st h2, hr]
      cases junk with
      | nil =>
        simp only [List.nil_append, read_byte]
        simp only [if_true]
        rw [hoff]
        exact afterFF_spec hdr n ih [] (0xf1 :: hdr) (k + 1) voff hj hns (by simp) rfl
      | cons b junk' =>
        have hb : b < 256 := hj b (by simp)
        have hbm : b % 256 = b := by omega
        have hj' : IsBytes junk' := fun x hx => hj x (by simp [hx])
        simp only [List.cons_append, read_byte, hbm]
        simp only [List.length_cons] at hl
        by_cases hbf : b = 0xff
        · subst hbf
          simp only [if_true]
          rw [hoff]
          exact afterFF_spec hdr n ih (255 :: junk') (junk' ++ 0xff :: 0xf1 :: hdr) (k + 1)
            voff hj hns (by simp; omega) (by simp)
        · simp only [hbf, if_false]
          have hlen : voff + ↑((b :: junk').length) = (voff + 1) + ↑(junk'.length) := by
            simp; omega
          rw [hlen]
          refine ih junk' _ _ hj' (NoFalseSync_tail hns) (by omega) ?_
          exact Or.inl ⟨h2, k + 1, rfl, by simp [hoff]⟩
    · rw [syncSearch_succ_ff n st h2, hr, hoff]
      exact afterFF_spec hdr n ih junk rest k voff hj hns (by omega) hrest

theorem w0 : ((({} : BW).write 0xfff 12).write 1 4) = { n := 0, v := 0xf1, out := [0xff, 0xf1] } := by
  simp [BW.write, BW.drain, mask, W64]

theorem BW.write_out_prefix (w : BW) (bits k : Nat) : w.out <+: (w.write bits k).out := by
  unfold BW.write
  obtain ⟨bs, hd, _, _⟩ := BW.drain_spec (((w.v <<< k) % W64) ||| (bits &&& mask k)) (w.n + k) w.out
  simp only [hd]
  exact List.prefix_append _ _

theorem BW.flush_out_prefix (w : BW) : w.out <+: w.flush := by
  unfold BW.flush
  split
  · exact List.prefix_append _ _
  · exact List.prefix_refl _

/-- writer state summary: invariant, a fixed prefix of the output, the abstract bits -/
def WS (w : BW) (pre : Bytes) (bits : List Bool) : Prop := w.Inv ∧ pre <+: w.out ∧ w.abs = bits

theorem WS.write {w : BW} {pre : Bytes} {bits : List Bool} (h : WS w pre bits) (v k : Nat) (hk : k ≤ 56) :
    WS (w.write v k) pre (bits ++ lowBits k v) := by
  obtain ⟨h1, h2, h3⟩ := h
  have := BW.write_spec w v k h1 hk
  exact ⟨this.1, h2.trans (BW.write_out_prefix w v k), by rw [this.2, h3]⟩

theorem WS.flush {w : BW} {pre : Bytes} {bits : List Bool} (h : WS w pre (bitsOfBytes pre ++ bits)) :
    ∃ bs pad, w.flush = pre ++ bs ∧ IsBytes bs ∧ bitsOfBytes bs = bits ++ pad := by
  obtain ⟨i8, p8, a8⟩ := h
  have wf := BW.flush_spec _ i8
  obtain ⟨bs, hbs⟩ := p8.trans (BW.flush_out_prefix _)
  rw [← hbs] at wf
  have h1 := wf.1
  rw [a8, bitsOfBytes_append, List.append_assoc] at h1
  exact ⟨bs, List.replicate ((8 - w.n) % 8) false, hbs.symm, fun x hx => wf.2 x (by simp [hx]),
    List.append_cancel_left h1⟩

/-- the seven field values after the sync word -/
def adtsTailBits (a : ADTS) : List Bool :=
  lowBits 2 (a.objectType - 1) ++ (lowBits 4 a.samplingFrequencyIndex ++ (lowBits 1 0 ++
    (lowBits 3 a.channelConfig ++ (lowBits 4 0 ++ (lowBits 13 (a.payloadLength + 7) ++
      (lowBits 11 a.bufferFullness ++ lowBits 2 0))))))

theorem encodeADTS_shape (a : ADTS) (h : AdtsDom a) :
    ∃ bs pad, encodeADTS a = 0xff :: 0xf1 :: bs ∧ IsBytes bs ∧ bitsOfBytes bs = adtsTailBits a ++ pad := by
  obtain ⟨hid, ho1, ho4, hsfi, hch, hhl, hpl, hbf⟩ := h
  unfold encodeADTS
  rw [w0]
  have e1 : (a.objectType + W64 - 1) % W64 = a.objectType - 1 := by unfold W64; omega
  have e2 : (a.payloadLength + 7) % 65536 = a.payloadLength + 7 := by omega
  rw [e1, e2]
  have s0 : WS { n := 0, v := 0xf1, out := [0xff, 0xf1] } [0xff, 0xf1] (bitsOfBytes [0xff, 0xf1]) :=
    ⟨⟨by simp, by simp, by intro x hx; simp at hx; omega⟩, List.prefix_refl _, by simp [BW.abs, lowBits]⟩
  have s8 := (((((((s0.write (a.objectType - 1) 2 (by omega)).write a.samplingFrequencyIndex 4 (by omega)).write
    0 1 (by omega)).write a.channelConfig 3 (by omega)).write 0 4 (by omega)).write
    (a.payloadLength + 7) 13 (by omega)).write a.bufferFullness 11 (by omega)).write 0 2 (by omega)
  simp only [List.append_assoc] at s8
  exact s8.flush

theorem mkR_inv (k : Nat) (bs : Bytes) (h : IsBytes bs) : (mkR k bs).Inv ∧ (mkR k bs).abs = bitsOfBytes bs := by
  refine ⟨⟨by simp [mkR], by simp [mkR], h, rfl⟩, ?_⟩
  simp [BR.abs, lowBits, mkR]


/-- every ADTS header (all indices, channel configs, payload lengths representable in 13 bits) survives
    encode → decode, and with up to 187 junk bytes in front the decoder reports the offset of the sync word -/
theorem adts_roundtrip (a : ADTS) (h : AdtsDom a) (junk tail : Bytes) (hj : IsBytes junk) (ht : IsBytes tail)
    (hl : junk.length ≤ 187) (hns : NoFalseSync junk) :
    decodeADTS (junk ++ encodeADTS a ++ tail) = .ok (a, (junk.length : Int)) := by
  obtain ⟨bs, pad, henc, hbs, hbits⟩ := encodeADTS_shape a h
  obtain ⟨hid, ho1, ho4, hsfi, hch, hhl, hpl, hbf⟩ := h
  obtain ⟨k', e⟩ := sync_spec (bs ++ tail) 188 junk { r := { rest := junk ++ encodeADTS a ++ tail } } 0 hj hns
    (by omega) (Or.inl ⟨by simp, 0, by simp [mkR, henc], rfl⟩)
  have hbt : IsBytes (bs ++ tail) := by
    intro x hx
    rcases List.mem_append.1 hx with h | h
    · exact hbs x h
    · exact ht x h
  obtain ⟨i0, a0⟩ := mkR_inv k' (bs ++ tail) hbt
  rw [bitsOfBytes_append, hbits] at a0
  simp only [adtsTailBits, List.append_assoc] at a0
  obtain ⟨r1, e1, i1, a1⟩ := BR.read_lowBits _ 2 _ _ i0 (by omega) (by omega) a0
  obtain ⟨r2, e2, i2, a2⟩ := BR.read_lowBits _ 4 _ _ i1 (by omega) hsfi a1
  obtain ⟨r3, e3, i3, a3⟩ := BR.read_lowBits _ 1 _ _ i2 (by omega) (by omega) a2
  obtain ⟨r4, e4, i4, a4⟩ := BR.read_lowBits _ 3 _ _ i3 (by omega) hch a3
  obtain ⟨r5, e5, i5, a5⟩ := BR.read_lowBits _ 4 _ _ i4 (by omega) (by omega) a4
  obtain ⟨r6, e6, i6, a6⟩ := BR.read_lowBits _ 13 _ _ i5 (by omega) (by omega) a5
  obtain ⟨r7, e7, i7, a7⟩ := BR.read_lowBits _ 11 _ _ i6 (by omega) hbf a6
  obtain ⟨r8, e8, i8, a8⟩ := BR.read_lowBits _ 2 _ _ i7 (by omega) (by omega) a7
  unfold decodeADTS
  simp only [e, finalSt]
  simp only [e1, e2, e3, e4, e5, e6, e7, e8]
  have herr0 : (mkR k' (bs ++ tail)).err = false := rfl
  simp only [herr0, show ¬ ((1:Nat) ≠ 1) by decide, if_false, i8.2.2.2]
  obtain ⟨id, ot, sfi, ch, hl', pl, bf⟩ := a
  simp only at hid ho1 ho4 hsfi hch hhl hpl hbf
  simp
  omega

/-! ## the search window is exactly 188 bytes -/

theorem syncSearch_no_ff : ∀ (n : Nat) (junk rest : Bytes) (st : SyncState) (k : Nat),
    st.sync2 ≠ 0xff → st.found = false → st.r = mkR k (junk ++ rest) → junk.length = n →
    (∀ b ∈ junk, b < 255) →
    ∃ k', (syncSearch n st).r = mkR k' rest ∧ (syncSearch n st).found = false := by
  intro n
  induction n with
  | zero =>
    intro junk rest st k _ hf hr hl _
    have hj : junk = [] := List.eq_nil_of_length_eq_zero hl
    subst hj
    exact ⟨k, by simpa [syncSearch] using hr, by simpa [syncSearch] using hf⟩
  | succ n ih =>
    intro junk rest st k h2 hf hr hl hb
    match junk, hl, hb with
    | b :: junk', hl, hb =>
      have hb0 : b < 255 := hb b (by simp)
      have hbm : b % 256 = b := by omega
      have hne : ¬ b = 0xff := by omega
      rw [syncSearch_succ_nff n st h2, hr]
      simp only [List.cons_append, read_byte, hbm, hne, if_false]
      exact ih junk' rest _ (k + 1) h2 hf rfl (by simpa using hl) (fun x hx => hb x (by simp [hx]))

/-- 188 junk bytes without 0xff in front: no sync word is found whatever follows (the 0..187 window is tight) -/
theorem adts_beyond_window (junk rest : Bytes) (hl : junk.length = 188) (hb : ∀ b ∈ junk, b < 255) :
    decodeADTS (junk ++ rest) = .error .noSync := by
  obtain ⟨k', hr, hf⟩ := syncSearch_no_ff 188 junk rest { r := { rest := junk ++ rest } } 0 (by simp) rfl
    (by simp [mkR]) hl hb
  unfold decodeADTS
  simp [hr, hf, mkR]

end Mp4ff.Aac
