import Mp4ff.Model.HevcPps
import Mp4ff.Lemmas.C15b
/-!
C15/C16, second part: the HEVC PPS instances (round trip, totality with a fuel bound linear in the NAL unit length).
-/
namespace Mp4ff.HevcPps
open Mp4ff.BitSyn Mp4ff.Bits Mp4ff.HevcSps

/-! ### depth bounds, bottom-up -/

theorem depthL_varFldT (nm : String) (w : Trace → Nat) : ∀ (f lo hi : Nat), depthL (varFldT nm w f lo hi) ≤ 2 * f + 3
  | 0, lo, hi => by simp only [varFldT, depthL, bodyDepth, repCount]; omega
  | f + 1, lo, hi => by
    unfold varFldT
    split
    · simp only [depthL, bodyDepth, repCount]; omega
    · have h1 := depthL_varFldT nm w f lo ((lo + hi) / 2)
      have h2 := depthL_varFldT nm w f ((lo + hi) / 2 + 1) hi
      simp only [depthL, bodyDepth, repCount]
      omega

theorem depthL_scalingListData : depthL scalingListData = 128 := by decide +kernel

theorem depthL_octLeaf (cap : Nat) : depthL (octLeaf cap) ≤ 160 := by
  have := depthL_varFldT "res_coeff_r" resLsBits 64 0 cap
  simp only [octLeaf, varFldCap, List.cons_append, List.nil_append, depthL, bodyDepth, repCount]
  omega

theorem depthL_octSplit (cap d : Nat) (child : List Syn) (k : Nat) (hc : depthL child ≤ k) (hk : 160 ≤ k) :
    depthL (octSplit cap d child) ≤ k + 12 := by
  have := depthL_octLeaf cap
  simp only [octSplit, eight, depthL, bodyDepth, repCount]
  omega

theorem depthL_octNode0 (cap : Nat) : depthL (octNode0 cap) ≤ 196 :=
  depthL_octSplit cap 0 _ 184 (depthL_octSplit cap 1 _ 172 (depthL_octSplit cap 2 _ 160 (depthL_octLeaf cap)
    (Nat.le_refl _)) (by omega)) (by omega)

theorem depthL_colourMappingTable (cap : Nat) : depthL (colourMappingTable cap) ≤ 280 := by
  have := depthL_octNode0 cap
  have h := depthL_append_le [
    Syn.ue "num_cm_ref_layers_minus1",
    .abort (fun t => t.nat "num_cm_ref_layers_minus1" > 61),
    .rep 62 (fun t => t.nat "num_cm_ref_layers_minus1" + 1) [.fld "cm_ref_layer_id" 6],
    .fld "cm_octant_depth" 2, .fld "cm_y_part_num_log2" 2,
    .ue "luma_bit_depth_cm_input_minus8", .ue "chroma_bit_depth_cm_input_minus8",
    .ue "luma_bit_depth_cm_output_minus8", .ue "chroma_bit_depth_cm_output_minus8",
    .fld "cm_res_quant_bits" 2, .fld "cm_delta_flc_bits_minus1" 2,
    .cond (fun t => octDepth t = 1) [.se "cm_adapt_threshold_u_delta", .se "cm_adapt_threshold_v_delta"]] (octNode0 cap)
  simp only [depthL, bodyDepth, repCount] at h
  unfold colourMappingTable
  omega

theorem depthL_multilayerExt (cap : Nat) : depthL (multilayerExt cap) ≤ 360 := by
  have := depthL_colourMappingTable cap
  simp only [multilayerExt, depthL, bodyDepth, repCount]
  omega

theorem depthL_deltaDlt (cap : Nat) : depthL (deltaDlt cap) ≤ cap + 110 := by
  simp only [deltaDlt, List.cons_append, List.nil_append, depthL_varFld_append, depthL_varFld,
    depthL, bodyDepth, repCount]
  omega

theorem depthL_ext3d (cap : Nat) : depthL (ext3d cap) ≤ cap + 190 := by
  have := depthL_deltaDlt cap
  simp only [ext3d, depthL, bodyDepth, repCount]
  omega

theorem depthL_sccExt (cap : Nat) : depthL (sccExt cap) ≤ 3 * cap + 50 := by
  simp only [sccExt, depthL_varFld, depthL, bodyDepth, repCount]
  omega

theorem depthL_ppsHead (spsIds : List Nat) (cap : Nat) : depthL (ppsHead spsIds cap) ≤ 2 * cap + 170 := by
  simp only [ppsHead, HevcPps.rangeExt, depthL_scalingListData, depthL, bodyDepth, repCount]
  omega

theorem depthL_pps (spsIds : List Nat) (cap : Nat) : depthL (pps spsIds cap) ≤ 5 * cap + 800 := by
  have h1 := depthL_ppsHead spsIds cap
  have h2 := depthL_multilayerExt cap
  have h3 := depthL_ext3d cap
  have h4 := depthL_sccExt cap
  have h := depthL_append_le (ppsHead spsIds cap) [
    .cond (fun t => t.get "pps_multilayer_extension_flag" = 1) (multilayerExt cap),
    .cond (fun t => t.get "pps_3d_extension_flag" = 1) (ext3d cap),
    .cond (fun t => t.get "pps_scc_extension_flag" = 1) (sccExt cap)]
  simp only [depthL, bodyDepth, repCount] at h
  unfold pps
  omega

/-! ### totality -/

/-- **the HEVC PPS parser terminates on every byte string** (C16), whatever the SPS map -/
theorem pps_total (spsIds : List Nat) (nalu : Bytes) (f : Nat) (hf : 5 * capOf nalu + 800 ≤ f) :
    parsePps f spsIds nalu ≠ .fuel := by
  obtain ⟨t, e, hp, _⟩ := parse_total_depth f (pps spsIds (capOf nalu)) [] { rest := nalu }
    (by have := depthL_pps spsIds (capOf nalu); omega)
  unfold parsePps
  simp only [hp]
  by_cases h1 : stopped t = true ∨ e.err = true
  · simp only [h1, if_true]; simp
  · simp only [h1, if_false]
    generalize (if t.nat "pps_extension_4bits" > 0 then extFlags (e.bitsLeft + 1) e [] else (e, [])) = r
    by_cases hc : (Sei.readTrailing r.1).2 ≠ .none ∨ (Sei.readTrailing r.1).1.err = true
    · simp only [hc, if_true]; simp
    · simp only [hc, if_false]; simp

/-- the driver fuel `HevcPps.fuel` is always enough -/
theorem pps_total_driver (spsIds : List Nat) (nalu : Bytes) : parsePps (fuel nalu) spsIds nalu ≠ .fuel :=
  pps_total spsIds nalu (fuel nalu) (by simp only [capOf, fuel]; omega)

/-! ### round trip -/

/-- **HEVC PPS round trip** (C15): the NAL unit an independent serialiser writes for a valid value assignment of the
    PPS syntax (tiles, scaling list data, range / multilayer with colour mapping octants / 3D with depth look-up tables /
    SCC extensions) parses back through the complete `ParsePPSNALUnit` model to exactly those values -/
theorem pps_roundtrip (f : Nat) (spsIds : List Nat) (tr : Trace) (nalu : Bytes)
    (h : TraceOK f (pps spsIds (capOf nalu)) tr)
    (hs : serialize f (pps spsIds (capOf nalu)) tr = some nalu) : parsePps f spsIds nalu = .ok tr [] := by
  obtain ⟨⟨os, a, hops, hok⟩, hst⟩ := h
  have ha : a = tr := by simpa using AvcPps.ops_acc_eq hops
  subst ha
  simp only [serialize, hops, Option.some.injEq] at hs
  obtain ⟨P, m, hinv, habs⟩ := AvcPps.init_reader os hok
  rw [hs] at hinv habs
  obtain ⟨e1, P1, p1, i1, a1, _⟩ := parse_ops f (pps spsIds (capOf nalu)) [] a os a [] _ P _ hops hst hok hinv
    (by simpa using habs)
  have herr : e1.err = false := i1.2.2.2.1
  obtain ⟨ht1, ht2⟩ := Sei.readTrailing_spec e1 P1 m i1 a1
  have hx := extFlags_at_trailing e1 P1 m i1 a1 e1.bitsLeft
  unfold parsePps
  simp only [p1, hst, herr, hx, Bool.false_eq_true, or_self, if_false, ite_self, ht1, ht2, ne_eq,
    not_true_eq_false]

end Mp4ff.HevcPps
