import Mp4ff.Model.Crop
import Mp4ff.Lemmas.C09A
import Mp4ff.Lemmas.C09B
/-!
C10 helpers, part A: stss / stsz / mergeRanges / stts walk / run-length prefix lemmas.
-/
namespace Mp4ff.Crop
open Mp4ff.Stbl

/-! ### stss -/
theorem takeWhile_eq_filter_of_sorted (nums : List Nat) (h : nums.Pairwise (· < ·)) (last : Nat) :
    nums.takeWhile (· ≤ last) = nums.filter (· ≤ last) := by
  induction nums with
  | nil => rfl
  | cons a l ih =>
    rw [List.pairwise_cons] at h
    obtain ⟨h1, h2⟩ := h
    by_cases ha : a ≤ last
    · rw [List.takeWhile_cons_of_pos (by simpa using ha), List.filter_cons_of_pos (by simpa using ha), ih h2]
    · rw [List.takeWhile_cons_of_neg (by simpa using ha), List.filter_cons_of_neg (by simpa using ha)]
      symm
      rw [List.filter_eq_nil_iff]
      intro x hx
      have := h1 x hx
      simp; omega

/-! ### mergeRanges -/
theorem copied_cons (file : Bytes) (c : KChunk) (rest : List KChunk) :
    copied file (c :: rest) = (file.drop c.off).take c.size ++ copied file rest := by
  simp [copied]

theorem copied_nil (file : Bytes) : copied file [] = [] := rfl

theorem copied_append (file : Bytes) (a b : List KChunk) :
    copied file (a ++ b) = copied file a ++ copied file b := by
  simp [copied]

theorem mergeRanges_copied' (file : Bytes) (pieces : List KChunk) :
    copied file (mergeRanges pieces) = copied file pieces := by
  induction pieces with
  | nil => rfl
  | cons c rest ih =>
    unfold mergeRanges
    split
    · rename_i hm
      rw [hm] at ih
      rw [copied_cons, copied_cons, ← ih]
    · rename_i d ds hm
      rw [hm] at ih
      split
      · rename_i he
        rw [copied_cons, copied_cons file c, ← ih, copied_cons, ← he]
        simp only []
        rw [List.take_add, List.drop_drop, List.append_assoc]
      · rw [copied_cons, copied_cons file c, ← ih]

/-! ### run-length prefixes -/
theorem expandRuns_prefix {α} (cs : List Nat) : ∀ (ds : List α) (i last : Nat),
    cs.length = ds.length → i < cs.length → (cs.take i).sum ≤ last → last ≤ (cs.take (i + 1)).sum →
    expandRuns ((cs.set i (last - (cs.take i).sum)).take (i + 1)) (ds.take (i + 1)) = (expandRuns cs ds).take last := by
  induction cs with
  | nil => intro ds i last _ h; simp at h
  | cons c cs ih =>
    intro ds i last hl hi h1 h2
    cases ds with
    | nil => simp at hl
    | cons d ds =>
      cases i with
      | zero =>
        simp only [List.take_succ_cons, List.take_zero, List.sum_cons, List.sum_nil, Nat.add_zero] at h2
        simp only [List.take_zero, List.sum_nil, Nat.sub_zero, List.set_cons_zero, Nat.zero_add,
          List.take_succ_cons, expandRuns_cons, expandRuns_nil_left, List.append_nil]
        rw [List.take_append, List.take_replicate, List.length_replicate, Nat.min_eq_left h2,
          show last - c = 0 by omega, List.take_zero, List.append_nil]
      | succ i =>
        simp only [List.take_succ_cons, List.sum_cons] at h1 h2
        simp only [List.take_succ_cons, List.sum_cons, List.set_cons_succ, expandRuns_cons]
        rw [List.take_append, List.take_replicate, List.length_replicate, Nat.min_eq_right (by omega)]
        congr 1
        have := ih ds i (last - c) (by simpa using hl) (by simpa using hi) (by omega) (by omega)
        rw [← this, show last - c - (cs.take i).sum = last - (c + (cs.take i).sum) by omega]

/-! ### stts walk -/
theorem sttsWalk_spec (last : Nat) (cs : List Nat) : ∀ (counted e : Nat),
    counted < last → last ≤ counted + cs.sum → counted + cs.sum < U32 →
    ∃ i, i < cs.length ∧ sttsWalk cs last counted e = (counted + (cs.take i).sum, e + i + 1) ∧
      counted + (cs.take i).sum < last ∧ last ≤ counted + (cs.take (i + 1)).sum := by
  induction cs with
  | nil => intro counted e h1 h2 _; simp at h2; omega
  | cons c cs ih =>
    intro counted e h1 h2 h3
    rw [List.sum_cons] at h2 h3
    unfold sttsWalk
    simp only [h1, if_true]
    rw [Nat.mod_eq_of_lt (by omega)]
    by_cases hb : counted + c ≥ last
    · rw [if_pos hb]
      exact ⟨0, by simp, by simp, by simpa using h1, by simpa using hb⟩
    · rw [if_neg hb]
      obtain ⟨i, g1, g2, g3, g4⟩ := ih (counted + c) (e + 1) (by omega) (by omega) (by omega)
      refine ⟨i + 1, by simpa using g1, ?_, ?_, ?_⟩
      · rw [g2]; simp only [List.take_succ_cons, List.sum_cons]; congr 1 <;> omega
      · simp only [List.take_succ_cons, List.sum_cons]; omega
      · simp only [List.take_succ_cons, List.sum_cons]; omega

theorem cropStts_spec' (b : Stts) (hl : b.count.length = b.delta.length) (hs : b.count.sum < U32)
    (last : Nat) (hlast : last ≤ b.count.sum) :
    ∃ b', cropStts b last = some b' ∧ b'.durations = b.durations.take last ∧ b'.count.length = b'.delta.length := by
  by_cases h0 : last = 0
  · subst h0
    have hw : sttsWalk b.count 0 0 0 = (0, 0) := by
      unfold sttsWalk
      cases b.count with
      | nil => rfl
      | cons c cs => simp
    refine ⟨⟨[], []⟩, ?_, ?_, rfl⟩
    · unfold cropStts
      rw [hw]
      simp
    · simp [Stts.durations, expandRuns]
  · obtain ⟨i, g1, g2, g3, g4⟩ := sttsWalk_spec last b.count 0 0 (by omega) (by omega) (by omega)
    simp only [Nat.zero_add] at g2 g3 g4
    refine ⟨⟨(b.count.set i (last - (b.count.take i).sum)).take (i + 1), b.delta.take (i + 1)⟩, ?_, ?_, ?_⟩
    · unfold cropStts
      rw [g2]
      simp only []
      have hr : (last + U32 - (b.count.take i).sum) % U32 = last - (b.count.take i).sum := by
        rw [U32_eq] at *; omega
      rw [hr, if_pos (by omega), if_neg (by omega)]
      simp
    · unfold Stts.durations
      simp only []
      exact expandRuns_prefix b.count b.delta i last hl g1 (by omega) g4
    · simp only [List.length_take, List.length_set]; omega

end Mp4ff.Crop
