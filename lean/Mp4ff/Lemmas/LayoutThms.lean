import Mp4ff.Model.Boxes
import Mp4ff.Lemmas.LayoutFld
/-!
Generic layout DSL theorems (serve C01, C02, C03): well-formedness definitions and proofs.
-/
namespace Mp4ff.Layout

/-- a value fits a primitive field (given the values before it) -/
def FldOK (f : Fld) (acc : Trace) (v : Val) : Prop :=
  match f, v with
  | .u w, .n x => x < 256 ^ w
  | .raw n, .b bs => bs.length = n ∧ IsBytes bs
  | .rsv _, .n x => x = 0
  | .cstr, .b bs => IsBytes bs ∧ 0 ∉ bs
  | .rest, .b bs => IsBytes bs
  | .udyn w, .n x => x < 256 ^ (w acc)
  | .rawdyn n, .b bs => bs.length = n acc ∧ IsBytes bs
  | _, _ => False

/-- `.rest` may only be decoded against an empty tail -/
def FldTailOK (f : Fld) (tail : Bytes) : Prop :=
  match f with
  | .rest => tail = []
  | _ => True

/-- every value consumed by `encode` fits its field; `tail` is what follows the encoding when it is decoded -/
def Fits : Nat → List Syn → Trace → Trace → Bytes → Prop
  | 0, _, _, _, _ => False
  | _ + 1, [], _, _, _ => True
  | f + 1, .fld nm fl :: rest, acc, src, tail =>
    match src with
    | [] => False
    | (nm', v) :: src' =>
      nm' = nm ∧ FldOK fl acc v ∧ Fits f rest (acc ++ [(nm, v)]) src' tail ∧
      (match encode f rest (acc ++ [(nm, v)]) src' with
       | some (bs, _, _) => FldTailOK fl (bs ++ tail)
       | none => False)
  | f + 1, .cond p body :: rest, acc, src, tail =>
    if p acc then
      (match encode f body acc src with
       | some (_, a1, s1) =>
         Fits f rest a1 s1 tail ∧
         (match encode f rest a1 s1 with
          | some (b2, _, _) => Fits f body acc src (b2 ++ tail)
          | none => False)
       | none => False)
    else Fits f rest acc src tail
  | f + 1, .rep cnt body :: rest, acc, src, tail =>
    match cnt acc with
    | 0 => Fits f rest acc src tail
    | n + 1 =>
      (match encode f body acc src with
       | some (_, a1, s1) =>
         Fits f (.rep (fun _ => n) body :: rest) a1 s1 tail ∧
         (match encode f (.rep (fun _ => n) body :: rest) a1 s1 with
          | some (b2, _, _) => Fits f body acc src (b2 ++ tail)
          | none => False)
       | none => False)

/-! ### per-field lemmas -/

theorem decFld_encFld (fl : Fld) (acc : Trace) (v : Val) (b tail : Bytes)
    (he : encFld fl acc v = some b) (hok : FldOK fl acc v) (ht : FldTailOK fl tail) :
    decFld fl acc (b ++ tail) = some (v, tail) := by
  cases fl with
  | u w =>
    cases v with
    | n x =>
      simp only [encFld, Option.some.injEq] at he; subst he
      simp only [FldOK] at hok
      simp [decFld, beBytes_length, beVal_beBytes w x hok]
    | b bs => simp [encFld] at he
  | raw n =>
    cases v with
    | n x => simp [encFld] at he
    | b bs =>
      simp only [FldOK] at hok
      simp only [encFld, hok.1, if_true, Option.some.injEq] at he; subst he
      simp [decFld, hok.1]
  | rsv fill =>
    cases v with
    | n x =>
      simp only [FldOK] at hok; subst hok
      simp only [encFld, Option.some.injEq] at he; subst he
      simp [decFld]
    | b bs => simp [FldOK] at hok
  | cstr =>
    cases v with
    | n x => simp [encFld] at he
    | b bs =>
      simp only [FldOK] at hok
      simp only [encFld, Option.some.injEq] at he; subst he
      simp only [decFld, List.append_assoc, List.singleton_append]
      rw [splitZero_append _ _ hok.2]; rfl
  | rest =>
    cases v with
    | n x => simp [encFld] at he
    | b bs =>
      simp only [FldTailOK] at ht; subst ht
      simp only [encFld, Option.some.injEq] at he; subst he
      simp [decFld]
  | udyn w =>
    cases v with
    | n x =>
      simp only [encFld, Option.some.injEq] at he; subst he
      simp only [FldOK] at hok
      simp [decFld, beBytes_length, beVal_beBytes (w acc) x hok]
    | b bs => simp [encFld] at he
  | rawdyn n =>
    cases v with
    | n x => simp [encFld] at he
    | b bs =>
      simp only [FldOK] at hok
      simp only [encFld, hok.1, if_true, Option.some.injEq] at he; subst he
      simp [decFld, hok.1]

/-- **decode ∘ encode = id**: what the encoder writes, the decoder reads back as the same trace, leaving the tail -/
theorem decode_encode (f : Nat) : ∀ (L : List Syn) (acc src : Trace) (tail : Bytes),
    Fits f L acc src tail →
    ∀ bs a s, encode f L acc src = some (bs, a, s) →
      decode f L acc (bs ++ tail) = some (a, tail) := by
  induction f with
  | zero => intro L acc src tail h; simp [Fits] at h
  | succ f ih =>
    intro L acc src tail hfit bs a s hw
    match L with
    | [] => simp [encode] at hw; obtain ⟨rfl, rfl, rfl⟩ := hw; simp [decode]
    | .fld nm fl :: rest =>
      match src with
      | [] => simp [encode] at hw
      | (nm', v) :: src' =>
        simp only [Fits] at hfit
        obtain ⟨hn, hok, hrest, htl⟩ := hfit
        subst hn
        simp only [encode, if_true] at hw
        split at hw
        · rename_i b bs' a' s' hb hw'
          simp at hw; obtain ⟨rfl, rfl, rfl⟩ := hw
          rw [hw'] at htl
          simp only [decode, List.append_assoc]
          rw [decFld_encFld fl acc v b _ hb hok htl]
          exact ih rest _ _ tail hrest _ _ _ hw'
        · simp at hw
    | .cond p body :: rest =>
      simp only [Fits] at hfit
      simp only [encode] at hw
      simp only [decode]
      by_cases hp : p acc
      · simp only [hp, if_true] at hfit hw ⊢
        split at hw
        · rename_i b1 a1 s1 hw1
          rw [hw1] at hfit
          obtain ⟨hr, hb⟩ := hfit
          split at hw
          · rename_i b2 a2 s2 hw2
            rw [hw2] at hb
            simp at hw; obtain ⟨rfl, rfl, rfl⟩ := hw
            have h1 := ih body acc src (b2 ++ tail) hb _ _ _ hw1
            simp only [List.append_assoc, h1]
            exact ih rest _ _ tail hr _ _ _ hw2
          · simp at hw
        · simp at hw
      · simp only [hp] at hfit hw ⊢
        exact ih rest _ _ tail hfit _ _ _ hw
    | .rep cnt body :: rest =>
      simp only [Fits] at hfit
      simp only [encode] at hw
      simp only [decode]
      cases hc : cnt acc with
      | zero =>
        simp only [hc] at hfit hw
        exact ih rest _ _ tail hfit _ _ _ hw
      | succ n =>
        simp only [hc] at hfit hw
        split at hw
        · rename_i b1 a1 s1 hw1
          rw [hw1] at hfit
          obtain ⟨hr, hb⟩ := hfit
          split at hw
          · rename_i b2 a2 s2 hw2
            rw [hw2] at hb
            simp at hw; obtain ⟨rfl, rfl, rfl⟩ := hw
            have h1 := ih body acc src (b2 ++ tail) hb _ _ _ hw1
            simp only [List.append_assoc, h1]
            exact ih _ _ _ tail hr _ _ _ hw2
          · simp at hw
        · simp at hw

/-- don't-care positions of a single field that produced `n` bytes (relative to the field start) -/
def hereOf (fl : Fld) (n : Nat) : List Nat :=
  match fl with
  | .rsv _ => List.range' 0 n
  | _ => []

theorem range'_shift (pos n : Nat) : (List.range' 0 n).map (· + pos) = List.range' pos n := by
  rw [List.range'_eq_map_range, List.range'_eq_map_range]
  simp [Nat.add_comm]

theorem here_eq (fl : Fld) (pos n : Nat) :
    (match fl with
      | .rsv _ => List.range' pos n
      | _ => []) = (hereOf fl n).map (· + pos) := by
  cases fl <;> simp [hereOf]
  rw [List.range'_eq_map_range, List.range'_eq_map_range]
  simp [Nat.add_comm]

theorem agree_of_take (b bs : Bytes) (h : b = bs.take b.length) :
    ∀ i, i < b.length → b[i]? = bs[i]? := by
  intro i hi
  have e : (bs.take b.length)[i]? = bs[i]? := by rw [List.getElem?_take]; simp [hi]
  rw [← h] at e; exact e

theorem agree_seq (o1 o2 bs bs1 : Bytes) (dc1 dc2 : List Nat) (hdrop : bs1 = bs.drop o1.length)
    (h1 : ∀ i, i < o1.length → i ∉ dc1 → o1[i]? = bs[i]?)
    (h2 : ∀ i, i < o2.length → i ∉ dc2 → o2[i]? = bs1[i]?) :
    ∀ i, i < (o1 ++ o2).length → i ∉ dc1 ++ dc2.map (· + o1.length) → (o1 ++ o2)[i]? = bs[i]? := by
  intro i hi hn
  simp only [List.mem_append, List.mem_map, not_or] at hn
  by_cases hlt : i < o1.length
  · rw [List.getElem?_append_left hlt]; exact h1 i hlt hn.1
  · have hge : o1.length ≤ i := by omega
    rw [List.getElem?_append_right hge]
    have := h2 (i - o1.length) (by simp at hi; omega) (fun hm => hn.2 ⟨_, hm, by omega⟩)
    rw [this, hdrop, List.getElem?_drop]; congr 1; omega

theorem encFld_decFld (fl : Fld) (acc : Trace) (bs : Bytes) (v : Val) (bs' : Bytes)
    (hI : IsBytes bs) (hd : decFld fl acc bs = some (v, bs')) :
    ∃ b, encFld fl acc v = some b ∧ FldOK fl acc v ∧
      (∀ tail, (bs' = [] → tail = []) → FldTailOK fl tail) ∧
      b.length + bs'.length = bs.length ∧ bs' = bs.drop b.length ∧
      (∀ i, i < b.length → i ∉ hereOf fl b.length → b[i]? = bs[i]?) := by
  have hU : ∀ w, ¬ bs.length < w →
      beBytes w (beVal (bs.take w)) = bs.take w ∧ beVal (bs.take w) < 256 ^ w := by
    intro w hw
    have hl : (bs.take w).length = w := by simp; omega
    have h1 := beBytes_beVal (bs.take w) (hI.take w)
    have h2 := beVal_lt (bs.take w) (hI.take w)
    rw [hl] at h1 h2
    exact ⟨h1, h2⟩
  cases fl with
  | u w =>
    simp only [decFld] at hd
    split at hd
    · simp at hd
    · rename_i hw
      simp at hd; obtain ⟨rfl, rfl⟩ := hd
      obtain ⟨e1, e2⟩ := hU w (by omega)
      refine ⟨bs.take w, by simp [encFld, e1], e2, fun _ _ => trivial, ?_, ?_, ?_⟩
      · simp; omega
      · simp
      · intro i hi _; exact agree_of_take _ _ (by simp) i hi
  | udyn w =>
    simp only [decFld] at hd
    split at hd
    · simp at hd
    · rename_i hw
      simp at hd; obtain ⟨rfl, rfl⟩ := hd
      obtain ⟨e1, e2⟩ := hU (w acc) (by omega)
      refine ⟨bs.take (w acc), by simp [encFld, e1], e2, fun _ _ => trivial, ?_, ?_, ?_⟩
      · simp; omega
      · simp
      · intro i hi _; exact agree_of_take _ _ (by simp) i hi
  | raw n =>
    simp only [decFld] at hd
    split at hd
    · simp at hd
    · rename_i hw
      simp at hd; obtain ⟨rfl, rfl⟩ := hd
      have hl : (bs.take n).length = n := by simp; omega
      refine ⟨bs.take n, by simp [encFld]; omega, ⟨hl, hI.take n⟩, fun _ _ => trivial, ?_, ?_, ?_⟩
      · simp; omega
      · simp
      · intro i hi _; exact agree_of_take _ _ (by simp) i hi
  | rawdyn n =>
    simp only [decFld] at hd
    split at hd
    · simp at hd
    · rename_i hw
      simp at hd; obtain ⟨rfl, rfl⟩ := hd
      have hl : (bs.take (n acc)).length = n acc := by simp; omega
      refine ⟨bs.take (n acc), by simp [encFld]; omega, ⟨hl, hI.take _⟩, fun _ _ => trivial, ?_, ?_, ?_⟩
      · simp; omega
      · simp
      · intro i hi _; exact agree_of_take _ _ (by simp) i hi
  | rsv fill =>
    simp only [decFld] at hd
    split at hd
    · simp at hd
    · rename_i hw
      simp at hd; obtain ⟨rfl, rfl⟩ := hd
      refine ⟨fill, by simp [encFld], rfl, fun _ _ => trivial, ?_, rfl, ?_⟩
      · simp; omega
      · intro i hi hn; exfalso; apply hn; simp [hereOf]; exact hi
  | cstr =>
    simp only [decFld, Option.map_eq_some_iff] at hd
    obtain ⟨⟨a, r⟩, h1, h2⟩ := hd
    simp at h2; obtain ⟨rfl, rfl⟩ := h2
    obtain ⟨e, hn⟩ := splitZero_some _ _ _ h1
    have hIa : IsBytes a := fun x hx => hI x (by rw [e]; simp [hx])
    refine ⟨a ++ [0], by simp [encFld], ⟨hIa, hn⟩, fun _ _ => trivial, ?_, ?_, ?_⟩
    · rw [e]; simp; omega
    · rw [e]; simp
    · intro i hi _; refine agree_of_take _ _ ?_ i hi
      rw [e]; simp [List.take_append]
      exact (List.take_of_length_le (by omega)).symm
  | rest =>
    simp only [decFld] at hd
    simp at hd; obtain ⟨rfl, rfl⟩ := hd
    refine ⟨bs, by simp [encFld], hI, fun tail h => h rfl, by simp, by simp, fun i _ _ => rfl⟩

theorem map_add_seq (dc1 dc2 : List Nat) (n pos : Nat) :
    (dc1 ++ dc2.map (· + n)).map (· + pos) = dc1.map (· + pos) ++ dc2.map (· + (pos + n)) := by
  simp only [List.map_append, List.map_map]
  congr 1
  apply List.map_congr_left
  intro x _
  simp only [Function.comp_def]; omega

theorem encode_decode_gen (f : Nat) : ∀ (L : List Syn) (acc : Trace) (bs : Bytes) (a : Trace) (rest : Bytes),
    IsBytes bs → decode f L acc bs = some (a, rest) →
    ∃ (ext : Trace) (out : Bytes) (dc : List Nat), a = acc ++ ext ∧
      (∀ more, encode f L acc (ext ++ more) = some (out, a, more)) ∧
      (∀ pos, dontCare f L acc bs pos = some (dc.map (· + pos), a, rest, pos + out.length)) ∧
      out.length + rest.length = bs.length ∧ rest = bs.drop out.length ∧
      (∀ i, i < out.length → i ∉ dc → out[i]? = bs[i]?) ∧
      (∀ tail, (rest = [] → tail = []) → decode f L acc (out ++ tail) = some (a, tail)) := by
  induction f with
  | zero => intro L acc bs a rest _ h; simp [decode] at h
  | succ f ih =>
    intro L acc bs a rst hI hd
    match L with
    | [] =>
      simp only [decode, Option.some.injEq, Prod.mk.injEq] at hd
      obtain ⟨rfl, rfl⟩ := hd
      exact ⟨[], [], [], by simp, by simp [encode], by simp [dontCare], by simp, by simp,
        by simp, by simp [decode]⟩
    | .fld nm fl :: rest =>
      simp only [decode] at hd
      split at hd
      · rename_i v bs' hv
        obtain ⟨b, hb, hok, htl, hlen, hdrop, hag⟩ := encFld_decFld fl acc bs v bs' hI hv
        have hI' : IsBytes bs' := by rw [hdrop]; exact hI.drop _
        obtain ⟨ext2, o2, dc2, ha, henc, hdc, hlen2, hdrop2, hag2, hdec2⟩ := ih rest _ bs' a rst hI' hd
        refine ⟨(nm, v) :: ext2, b ++ o2, hereOf fl b.length ++ dc2.map (· + b.length), ?_, ?_, ?_, ?_, ?_, ?_, ?_⟩
        · rw [ha]; simp
        · intro more
          simp only [encode, List.cons_append, if_true, hb, henc more]
        · intro pos
          have hused : bs.length - bs'.length = b.length := by omega
          simp only [dontCare, hv, hused, hdc (pos + b.length), Option.map_some, map_add_seq,
            List.length_append, Nat.add_assoc]
          cases fl <;> simp only [hereOf, List.map_nil, range'_shift]
        · simp only [List.length_append]; omega
        · rw [hdrop2, hdrop, List.drop_drop, List.length_append]
        · exact agree_seq b o2 bs bs' _ _ hdrop hag hag2
        · intro tail ht
          have ht2 : bs' = [] → o2 ++ tail = [] := by
            intro e
            have : o2.length = 0 ∧ rst.length = 0 := by have e0 := congrArg List.length e; simp only [List.length_nil] at e0; omega
            have h1 : o2 = [] := List.eq_nil_of_length_eq_zero this.1
            have h2 : rst = [] := List.eq_nil_of_length_eq_zero this.2
            rw [h1, ht h2]; rfl
          simp only [decode, List.append_assoc]
          rw [decFld_encFld fl acc v b _ hb hok (htl _ ht2)]
          exact hdec2 tail ht
      · simp at hd
    | .cond p body :: rest =>
      simp only [decode] at hd
      by_cases hp : p acc
      · simp only [hp, if_true] at hd
        split at hd
        · rename_i a1 bs1 h1
          obtain ⟨ext1, o1, dc1, ha1, henc1, hdc1, hlen1, hdrop1, hag1, hdec1⟩ := ih body acc bs a1 bs1 hI h1
          have hI' : IsBytes bs1 := by rw [hdrop1]; exact hI.drop _
          obtain ⟨ext2, o2, dc2, ha, henc, hdc, hlen2, hdrop2, hag2, hdec2⟩ := ih rest a1 bs1 a rst hI' hd
          refine ⟨ext1 ++ ext2, o1 ++ o2, dc1 ++ dc2.map (· + o1.length), ?_, ?_, ?_, ?_, ?_, ?_, ?_⟩
          · rw [ha, ha1]; simp
          · intro more
            simp only [encode, hp, if_true, List.append_assoc, henc1 (ext2 ++ more), henc more]
          · intro pos
            simp only [dontCare, hp, if_true, hdc1 pos, hdc (pos + o1.length), Option.map_some, map_add_seq,
              List.length_append, Nat.add_assoc]
          · simp only [List.length_append]; omega
          · rw [hdrop2, hdrop1, List.drop_drop, List.length_append]
          · exact agree_seq o1 o2 bs bs1 _ _ hdrop1 hag1 hag2
          · intro tail ht
            have ht2 : bs1 = [] → o2 ++ tail = [] := by
              intro e
              have : o2.length = 0 ∧ rst.length = 0 := by have e0 := congrArg List.length e; simp only [List.length_nil] at e0; omega
              have h1 : o2 = [] := List.eq_nil_of_length_eq_zero this.1
              have h2 : rst = [] := List.eq_nil_of_length_eq_zero this.2
              rw [h1, ht h2]; rfl
            simp only [decode, hp, if_true, List.append_assoc, hdec1 _ ht2]
            exact hdec2 tail ht
        · simp at hd
      · simp only [hp] at hd
        obtain ⟨ext2, o2, dc2, ha, henc, hdc, hlen2, hdrop2, hag2, hdec2⟩ := ih rest acc bs a rst hI hd
        refine ⟨ext2, o2, dc2, ha, ?_, ?_, hlen2, hdrop2, hag2, ?_⟩
        · intro more; simp only [encode, hp]; exact henc more
        · intro pos; simp only [dontCare, hp]; exact hdc pos
        · intro tail ht; simp only [decode, hp]; exact hdec2 tail ht
    | .rep cnt body :: rest =>
      simp only [decode] at hd
      cases hc : cnt acc with
      | zero =>
        simp only [hc] at hd
        obtain ⟨ext2, o2, dc2, ha, henc, hdc, hlen2, hdrop2, hag2, hdec2⟩ := ih rest acc bs a rst hI hd
        refine ⟨ext2, o2, dc2, ha, ?_, ?_, hlen2, hdrop2, hag2, ?_⟩
        · intro more; simp only [encode, hc]; exact henc more
        · intro pos; simp only [dontCare, hc]; exact hdc pos
        · intro tail ht; simp only [decode, hc]; exact hdec2 tail ht
      | succ n =>
        simp only [hc] at hd
        split at hd
        · rename_i a1 bs1 h1
          obtain ⟨ext1, o1, dc1, ha1, henc1, hdc1, hlen1, hdrop1, hag1, hdec1⟩ := ih body acc bs a1 bs1 hI h1
          have hI' : IsBytes bs1 := by rw [hdrop1]; exact hI.drop _
          obtain ⟨ext2, o2, dc2, ha, henc, hdc, hlen2, hdrop2, hag2, hdec2⟩ := ih _ a1 bs1 a rst hI' hd
          refine ⟨ext1 ++ ext2, o1 ++ o2, dc1 ++ dc2.map (· + o1.length), ?_, ?_, ?_, ?_, ?_, ?_, ?_⟩
          · rw [ha, ha1]; simp
          · intro more
            simp only [encode, hc, List.append_assoc, henc1 (ext2 ++ more), henc more]
          · intro pos
            simp only [dontCare, hc, hdc1 pos, hdc (pos + o1.length), Option.map_some, map_add_seq,
              List.length_append, Nat.add_assoc]
          · simp only [List.length_append]; omega
          · rw [hdrop2, hdrop1, List.drop_drop, List.length_append]
          · exact agree_seq o1 o2 bs bs1 _ _ hdrop1 hag1 hag2
          · intro tail ht
            have ht2 : bs1 = [] → o2 ++ tail = [] := by
              intro e
              have : o2.length = 0 ∧ rst.length = 0 := by have e0 := congrArg List.length e; simp only [List.length_nil] at e0; omega
              have h1 : o2 = [] := List.eq_nil_of_length_eq_zero this.1
              have h2 : rst = [] := List.eq_nil_of_length_eq_zero this.2
              rw [h1, ht h2]; rfl
            simp only [decode, hc, List.append_assoc, hdec1 _ ht2]
            exact hdec2 tail ht
        · simp at hd

/-- **encode ∘ decode = id outside the don't-care positions**: if the decoder accepts `bs` (bytes) leaving `rest`,
    then encoding the decoded values writes exactly as many bytes as were consumed, equal to the consumed bytes at
    every position that `dontCare` does not list, and the result decodes to the same trace again (fixed point).
    `a.drop acc.length` are the values decoded by this layout (the trace grows by appending). -/
theorem encode_decode (f : Nat) : ∀ (L : List Syn) (acc : Trace) (bs : Bytes) (a : Trace) (rest : Bytes),
    IsBytes bs → decode f L acc bs = some (a, rest) →
    ∃ out dc p, encode f L acc (a.drop acc.length) = some (out, a, []) ∧
      dontCare f L acc bs 0 = some (dc, a, rest, p) ∧ p = out.length ∧
      out.length + rest.length = bs.length ∧
      (∀ i, i < out.length → i ∉ dc → out[i]? = bs[i]?) ∧
      decode f L acc (out ++ rest) = some (a, rest) := by
  intro L acc bs a rest hI hd
  obtain ⟨ext, out, dc, ha, henc, hdc, hlen, _, hag, hdec⟩ := encode_decode_gen f L acc bs a rest hI hd
  refine ⟨out, dc, out.length, ?_, ?_, rfl, hlen, hag, hdec rest id⟩
  · have := henc []
    rw [List.append_nil] at this
    rw [ha, List.drop_left]; rw [ha] at this; exact this
  · have := hdc 0
    simpa using this

/-- more fuel never changes a successful decode -/
theorem decode_fuel_mono (f g : Nat) (h : f ≤ g) : ∀ (L : List Syn) (acc : Trace) (bs : Bytes) r,
    decode f L acc bs = some r → decode g L acc bs = some r := by
  induction f generalizing g with
  | zero => intro L acc bs r h; simp [decode] at h
  | succ f ih =>
    intro L acc bs r hd
    obtain ⟨g, rfl⟩ : ∃ g', g = g' + 1 := ⟨g - 1, by omega⟩
    have hfg : f ≤ g := by omega
    match L with
    | [] => simpa [decode] using hd
    | .fld nm fl :: rest =>
      simp only [decode] at hd ⊢
      split at hd
      · rename_i v bs' hv
        exact ih g hfg _ _ _ _ hd
      · simp at hd
    | .cond p body :: rest =>
      simp only [decode] at hd ⊢
      by_cases hp : p acc
      · simp only [hp, if_true] at hd ⊢
        split at hd
        · rename_i a1 bs1 h1
          rw [ih g hfg _ _ _ _ h1]
          exact ih g hfg _ _ _ _ hd
        · simp at hd
      · simp only [hp] at hd ⊢
        exact ih g hfg _ _ _ _ hd
    | .rep cnt body :: rest =>
      simp only [decode] at hd ⊢
      cases hc : cnt acc with
      | zero =>
        simp only [hc] at hd
        exact ih g hfg _ _ _ _ hd
      | succ n =>
        simp only [hc] at hd
        split at hd
        · rename_i a1 bs1 h1
          simp only [ih g hfg _ _ _ _ h1]
          exact ih g hfg _ _ _ _ hd
        · simp at hd

end Mp4ff.Layout

namespace Mp4ff.Boxes
open Mp4ff.Layout

theorem parseHeader_8 (bs : Bytes) (h8 : beVal (bs.take 4) ≠ 1) (ty : String) (hl sz : Nat)
    (h : parseHeader bs = some (ty, hl, sz)) :
    8 ≤ bs.length ∧ hl = 8 ∧ sz = beVal (bs.take 4) ∧ 8 ≤ sz ∧
      ty = String.ofList (((bs.drop 4).take 4).map fun b => Char.ofNat b) := by
  simp only [parseHeader] at h
  by_cases hlen : bs.length < 8
  · simp [hlen] at h
  · by_cases h0 : beVal (bs.take 4) = 0
    · simp [hlen, h0] at h
    · by_cases h7 : beVal (bs.take 4) < 8
      · simp [hlen, h8, h0, h7] at h
      · simp only [hlen, h8, h0, h7, if_false, Option.some.injEq, Prod.mk.injEq] at h
        obtain ⟨rfl, rfl, rfl⟩ := h
        exact ⟨by omega, rfl, rfl, by omega, rfl⟩

theorem parseHeader_of (bs : Bytes) (h : 8 ≤ bs.length) (hs : 8 ≤ beVal (bs.take 4)) :
    parseHeader bs = some (String.ofList (((bs.drop 4).take 4).map fun b => Char.ofNat b), 8, beVal (bs.take 4)) := by
  simp only [parseHeader]
  rw [if_neg (by omega), if_neg (by omega), if_neg (by omega), if_neg (by omega)]

theorem hdr_facts (n : Nat) (t out : Bytes) (ht : t.length = 4) :
    (beBytes 4 n ++ t ++ out).length = 8 + out.length ∧ (beBytes 4 n ++ t ++ out).take 4 = beBytes 4 n ∧
      ((beBytes 4 n ++ t ++ out).drop 4).take 4 = t ∧ (beBytes 4 n ++ t ++ out).drop 8 = out := by
  have hl := beBytes_length 4 n
  refine ⟨by simp [hl, ht]; omega, ?_, ?_, ?_⟩
  · rw [List.append_assoc, List.take_left' hl]
  · rw [List.append_assoc, List.drop_left' hl, List.take_left' ht]
  · have : (beBytes 4 n ++ t).length = 8 := by simp [hl, ht]
    rw [List.drop_left' this]

theorem roundTrip_fix (enc out : Bytes) (ty : String) (sp : Spec) (tr : Trace)
    (hsp : specOf ty = some sp)
    (hty : ty = String.ofList (((enc.drop 4).take 4).map fun b => Char.ofNat b))
    (e1 : enc.length = 8 + out.length) (e2 : beVal (enc.take 4) = 8 + out.length) (e4 : enc.drop 8 = out)
    (hdec : decode (fuelFor sp.layout out.length) sp.layout [] out = some (tr, []))
    (henc : encode (fuelFor sp.layout out.length) sp.layout [] tr = some (out, tr, []))
    (hv : sp.valid tr = true) (he : sp.encOK tr = true)
    (heq : beBytes 4 (8 + out.length) ++ (enc.drop 4).take 4 ++ out = enc) :
    ∃ dc', roundTrip enc = .ok (8 + out.length) enc dc' := by
  have hph := parseHeader_of enc (by omega) (by omega)
  rw [e2, ← hty] at hph
  simp only [roundTrip, hph, e1, hsp, e4, hdec, henc, hv, he, heq]
  simp

/-- **single-box round trip (C01/C02 at the box level)**: whenever the model of `DecodeBox` + `Encode` produces
    output for an input with a normal 8-byte header, (i) the number of bytes written is the reported size and the
    written header size field equals it (C02), (ii) the box type is unchanged, (iii) the output is no longer than the
    input and equals the input at every position the don't-care list does not name, up to the output's length (C01:
    trailing payload bytes the decoder ignores are dropped), (iv) when nothing was dropped the output is a fixed point: feeding it back
    gives the same output (C01). -/
theorem roundTrip_spec (bs : Bytes) (hb : IsBytes bs) (size : Nat) (enc : Bytes) (dc : List Nat)
    (h8 : beVal (bs.take 4) ≠ 1) (hsz : bs.length < 2 ^ 32) (h : roundTrip bs = .ok size enc dc) :
    enc.length = size ∧ beVal (enc.take 4) = size ∧ (enc.drop 4).take 4 = (bs.drop 4).take 4 ∧
    enc.length ≤ bs.length ∧
    (∀ i, 8 ≤ i → i < enc.length → i ∉ dc → enc[i]? = bs[i]?) ∧
    (enc.length = bs.length → ∃ dc', roundTrip enc = .ok size enc dc') := by
  simp only [roundTrip] at h
  split at h
  · simp at h
  · rename_i ty hl sz hph
    obtain ⟨hlen8, rfl, rfl, hsz8, hty⟩ := parseHeader_8 bs h8 ty hl sz hph
    split at h
    · simp at h
    · rename_i hszeq
      split at h
      · simp at h
      · rename_i sp hsp
        split at h
        · simp at h
        · rename_i tr rest hdec
          have hszeq' : beVal (bs.take 4) = bs.length := Decidable.not_not.mp hszeq
          have hpl : (bs.drop 8).length = bs.length - 8 := List.length_drop
          obtain ⟨out, dc0, p, henc, hdc0, hp, hlen, hag, hdec2⟩ :=
            Layout.encode_decode _ sp.layout [] (bs.drop 8) tr rest (hb.drop 8) hdec
          simp only [List.length_nil, List.drop_zero] at henc
          by_cases c1 : sp.strict = true ∧ (rest ≠ [] ∨ 8 ≠ 8)
          · rw [if_pos c1] at h; cases h
          rw [if_neg c1] at h
          by_cases c2 : sp.exact = true ∧ rest ≠ []
          · rw [if_pos c2] at h; cases h
          rw [if_neg c2] at h
          by_cases c3 : ¬ sp.valid tr = true
          · rw [if_pos c3] at h; cases h
          rw [if_neg c3] at h
          by_cases c4 : ¬ sp.encOK tr = true
          · rw [if_pos c4] at h; cases h
          rw [if_neg c4] at h
          rw [henc, hdc0] at h
          simp only [RT.ok.injEq] at h
          obtain ⟨rfl, henc_eq, rfl⟩ := h
          have ht4 : ((bs.drop 4).take 4).length = 4 := by simp; omega
          obtain ⟨e1, e2, e3, e4⟩ := hdr_facts (8 + out.length) ((bs.drop 4).take 4) out ht4
          rw [henc_eq] at e1 e2 e3 e4
          have hlt : 8 + out.length < 256 ^ 4 := by
            have : (256 : Nat) ^ 4 = 2 ^ 32 := by decide
            omega
          have e2' : beVal (enc.take 4) = 8 + out.length := by rw [e2, beVal_beBytes _ _ hlt]
          refine ⟨e1, e2', e3, by omega, ?_, ?_⟩
          · intro i h8i hi hn
            have hn' : i - 8 ∉ dc0 := fun hm => hn (List.mem_map.2 ⟨i - 8, hm, by omega⟩)
            have := hag (i - 8) (by omega) hn'
            rw [List.getElem?_drop] at this
            rw [← henc_eq, List.getElem?_append_right (by simp [beBytes_length, ht4]; omega)]
            simp only [List.length_append, beBytes_length, ht4]
            rw [this]; congr 1; omega
          · intro heq
            have hr : rest = [] := List.eq_nil_of_length_eq_zero (by omega)
            subst hr
            have hol : out.length = (bs.drop 8).length := by omega
            rw [← hol] at hdec2 henc
            rw [List.append_nil] at hdec2
            refine roundTrip_fix enc out ty sp tr hsp (by rw [e3]; exact hty) e1 e2' e4 hdec2 henc
              (Decidable.not_not.mp c3) (Decidable.not_not.mp c4) (by rw [e3]; exact henc_eq)

end Mp4ff.Boxes

