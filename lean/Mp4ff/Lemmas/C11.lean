import Mp4ff.Model.Segmenter
import Mp4ff.Lemmas.C09A
import Mp4ff.Lemmas.C11R
/-!
C11 (segmenting, resegmenting and fragmenting conserve every sample): proofs.
`fragmentify_durations` is false as stated (zero-duration samples); see the counterexample and the `_partial` / `_pos`
variants below.
-/
namespace Mp4ff.Segmenter
open Mp4ff.Stbl


theorem fstep_out (duration : Nat) (st : FSt) (s : Sample) :
    (fstep duration st s).out.flatten = st.out.flatten ++ [s] ∧
    ((∀ g ∈ st.out, g ≠ []) → ∀ g ∈ (fstep duration st s).out, g ≠ []) := by
  simp only [fstep]
  split
  · refine ⟨by simp, ?_⟩
    intro h g hg
    simp only [List.mem_append, List.mem_singleton] at hg
    rcases hg with hg | rfl
    · exact h g hg
    · simp
  · rcases List.eq_nil_or_concat st.out with e | ⟨init, l, e⟩
    · simp [e]
    · simp only [e, List.concat_eq_append, List.getLast?_append, List.getLast?_singleton, Option.some_or,
        List.dropLast_concat, List.flatten_append, List.flatten_cons, List.flatten_nil, List.append_nil,
        List.append_assoc, true_and]
      intro h g hg
      simp only [List.mem_append, List.mem_singleton] at hg h
      rcases hg with hg | rfl
      · exact h g (Or.inl hg)
      · simp

theorem ffold_out (duration : Nat) (samples : List Sample) : ∀ st : FSt,
    (samples.foldl (fstep duration) st).out.flatten = st.out.flatten ++ samples ∧
    ((∀ g ∈ st.out, g ≠ []) → ∀ g ∈ (samples.foldl (fstep duration) st).out, g ≠ []) := by
  induction samples with
  | nil => intro st; simp
  | cons s ss ih =>
    intro st
    simp only [List.foldl_cons]
    obtain ⟨a1, a2⟩ := ih (fstep duration st s)
    obtain ⟨b1, b2⟩ := fstep_out duration st s
    refine ⟨by rw [a1, b1]; simp, fun h => a2 (b2 h)⟩

theorem fragmentify_conserves (duration : Nat) (frags : List (List Sample)) :
    (fragmentify duration frags).flatten = frags.flatten ∧ ∀ g ∈ fragmentify duration frags, g ≠ [] := by
  unfold fragmentify
  obtain ⟨a1, a2⟩ := ffold_out duration frags.flatten {}
  exact ⟨by simpa using a1, a2 (by simp)⟩


/-- a fragment that reached the requested duration exactly with its last sample -/
def Complete (duration : Nat) (g : List Sample) : Prop :=
  duration ≤ (g.map (·.dur)).sum ∧ ((g.dropLast).map (·.dur)).sum < duration

/-- what `Fragmentify` really guarantees for a closed fragment -/
def FragOK (duration : Nat) (g : List Sample) : Prop :=
  Complete duration g ∨ ∃ s, g = [s] ∧ s.dur = 0

def FInv (duration : Nat) (st : FSt) : Prop :=
  (st.cum = 0 ∧ ∀ g ∈ st.out, FragOK duration g) ∨
  (∃ init l, st.out = init ++ [l] ∧ (∀ g ∈ init, FragOK duration g) ∧ st.cum = (l.map (·.dur)).sum ∧
    0 < st.cum ∧ st.cum < duration)

theorem fstep_inv (duration : Nat) (hd : 0 < duration) (st : FSt) (s : Sample) (h : FInv duration st)
    (hb : st.cum + s.dur < U32) : FInv duration (fstep duration st s) := by
  simp only [fstep, Nat.mod_eq_of_lt hb]
  rcases h with ⟨h0, hall⟩ | ⟨init, l, e, hall, hcum, hpos, hlt⟩
  · rw [if_pos h0, h0, Nat.zero_add]
    by_cases hge : s.dur ≥ duration
    · rw [if_pos hge]
      left
      refine ⟨rfl, ?_⟩
      intro g hg
      simp only [List.mem_append, List.mem_singleton] at hg
      rcases hg with hg | rfl
      · exact hall g hg
      · left; exact ⟨by simpa using hge, by simp; omega⟩
    · rw [if_neg hge]
      by_cases hz : s.dur = 0
      · left
        refine ⟨hz, ?_⟩
        intro g hg
        simp only [List.mem_append, List.mem_singleton] at hg
        rcases hg with hg | rfl
        · exact hall g hg
        · right; exact ⟨s, rfl, hz⟩
      · right
        exact ⟨st.out, [s], rfl, hall, by simp, by simp only; omega, by simp only; omega⟩
  · rw [if_neg (by omega), e]
    simp only [List.getLast?_append, List.getLast?_singleton, Option.some_or, List.dropLast_concat]
    by_cases hge : st.cum + s.dur ≥ duration
    · rw [if_pos hge]
      left
      refine ⟨rfl, ?_⟩
      intro g hg
      simp only [List.mem_append, List.mem_singleton] at hg
      rcases hg with hg | rfl
      · exact hall g hg
      · left
        refine ⟨by simp; omega, ?_⟩
        rw [List.dropLast_concat]; omega
    · rw [if_neg hge]
      right
      exact ⟨init, l ++ [s], rfl, hall, by simp; omega, by simp only; omega, by simp only; omega⟩

theorem ffold_inv (duration : Nat) (hd : 0 < duration) (samples : List Sample) : ∀ st : FSt, FInv duration st →
    st.cum + (samples.map (·.dur)).sum < U32 → FInv duration (samples.foldl (fstep duration) st) := by
  induction samples with
  | nil => intro st h _; exact h
  | cons s ss ih =>
    intro st h hb
    simp only [List.map_cons, List.sum_cons] at hb
    simp only [List.foldl_cons]
    refine ih _ (fstep_inv duration hd st s h (by omega)) ?_
    have : (fstep duration st s).cum ≤ st.cum + s.dur := by
      simp only [fstep, Nat.mod_eq_of_lt (show st.cum + s.dur < U32 by omega)]
      split <;> omega
    omega

/- ORIGINAL (false: a zero-duration sample arriving when `cumDur = 0` is put in a fragment of its own that is closed
   immediately; counterexample `fragmentify 10 [[⟨0,0,true,1⟩, ⟨5,0,true,2⟩, ⟨5,0,true,3⟩]]`
   = `[[s1], [s2, s3]]`, and `[s1]` has total duration 0 < 10):
theorem fragmentify_durations (duration : Nat) (hd : 0 < duration) (frags : List (List Sample))
    (hs : ((frags.flatten).map (·.dur)).sum < U32) :
    ∀ g ∈ (fragmentify duration frags).dropLast,
      duration ≤ (g.map (·.dur)).sum ∧ ((g.dropLast).map (·.dur)).sum < duration
-/
example : ∃ g ∈ (fragmentify 10 [[⟨0,0,true,1⟩, ⟨5,0,true,2⟩, ⟨5,0,true,3⟩]]).dropLast,
    ¬ (10 ≤ (g.map (·.dur)).sum) := by decide

/-- strongest true variant: every fragment but the last either is complete (reaches the duration exactly with its last
    sample) or is a lone zero-duration sample -/
theorem fragmentify_durations_partial (duration : Nat) (hd : 0 < duration) (frags : List (List Sample))
    (hs : ((frags.flatten).map (·.dur)).sum < U32) :
    ∀ g ∈ (fragmentify duration frags).dropLast,
      (duration ≤ (g.map (·.dur)).sum ∧ ((g.dropLast).map (·.dur)).sum < duration) ∨
      ∃ s, g = [s] ∧ s.dur = 0 := by
  unfold fragmentify
  have := ffold_inv duration hd frags.flatten {} (Or.inl ⟨rfl, by simp⟩) (by simpa using hs)
  intro g hg
  rcases this with ⟨_, hall⟩ | ⟨init, l, e, hall, _⟩
  · exact hall g (List.dropLast_subset _ hg)
  · rw [e, List.dropLast_concat] at hg
    exact hall g hg

/-- the original statement holds when every sample has a positive duration -/
theorem fragmentify_durations_pos (duration : Nat) (hd : 0 < duration) (frags : List (List Sample))
    (hs : ((frags.flatten).map (·.dur)).sum < U32) (hp : ∀ s ∈ frags.flatten, 0 < s.dur) :
    ∀ g ∈ (fragmentify duration frags).dropLast,
      duration ≤ (g.map (·.dur)).sum ∧ ((g.dropLast).map (·.dur)).sum < duration := by
  intro g hg
  rcases fragmentify_durations_partial duration hd frags hs g hg with h | ⟨s, rfl, hz⟩
  · exact h
  · exfalso
    have hmem : s ∈ (fragmentify duration frags).flatten :=
      List.mem_flatten.2 ⟨[s], List.dropLast_subset _ hg, by simp⟩
    rw [(fragmentify_conserves duration frags).1] at hmem
    have := hp s hmem
    omega


/-- the sample numbers of an inclusive interval -/
def span (iv : Nat × Nat) : List Nat := List.range' iv.1 (iv.2 + 1 - iv.1)

/-- the answers `GetSampleNrAtTime` gives for the 2nd, 3rd, … sync point -/
def cutPoints (nrAt : Nat → Option Nat) (conv : Nat → Nat) (pts : List SyncPoint) : List (Option Nat) :=
  pts.tail.map fun p => nrAt (conv p.decodeTime)

theorem segmentIntervals_spec (total : Nat) (nrAt : Nat → Option Nat) (conv : Nat → Nat) (htot : total + 1 < U32) :
    ∀ (pts : List SyncPoint) (start next : Nat) (cuts : List Nat) (s : Nat), pts ≠ [] →
      s = (if next ≠ 0 then next else start) →
      cutPoints nrAt conv pts = cuts.map some → cuts.Pairwise (· ≤ ·) →
      (∀ n ∈ cuts, s ≤ n ∧ n ≤ total + 1) → 1 ≤ s → s ≤ total + 1 →
      ∃ ivs, segmentIntervals total nrAt conv pts start next = some ivs ∧ ivs.length = pts.length ∧
        ivs.flatMap span = List.range' s (total + 1 - s) ∧ ivs.map (·.1) = s :: cuts := by
  intro pts
  induction pts with
  | nil => intro _ _ _ _ h; exact absurd rfl h
  | cons p1 rest ih =>
    intro start next cuts s _ hs hc hsorted hrange h1 h2
    cases rest with
    | nil =>
      cases cuts with
      | nil =>
        refine ⟨[(s, total)], ?_, rfl, by simp [span], rfl⟩
        simp only [segmentIntervals, hs]
      | cons _ _ => simp [cutPoints] at hc
    | cons p2 rest =>
      cases cuts with
      | nil => simp [cutPoints] at hc
      | cons n cuts =>
        simp only [cutPoints, List.tail_cons, List.map_cons, List.cons.injEq] at hc
        obtain ⟨hn, hc'⟩ := hc
        have hr := hrange n (by simp)
        rw [List.pairwise_cons] at hsorted
        obtain ⟨ivs, e1, e2, e3, e4⟩ := ih s n cuts n (by simp) (by rw [if_pos (by omega)])
          (by simpa [cutPoints] using hc') hsorted.2
          (fun m hm => ⟨hsorted.1 m hm, (hrange m (by simp [hm])).2⟩) (by omega) hr.2
        have hsp : span (s, n - 1) = List.range' s (n - s) := by
          simp only [span]; congr 1; omega
        have happ : List.range' s (n - s) ++ List.range' n (total + 1 - n) = List.range' s (total + 1 - s) := by
          have := @List.range'_append s (n - s) (total + 1 - n) 1
          rw [show s + 1 * (n - s) = n by omega, show n - s + (total + 1 - n) = total + 1 - s by omega] at this
          exact this
        have hmod : (n + U32 - 1) % U32 = n - 1 := by
          rw [show n + U32 - 1 = (n - 1) + U32 by omega, Nat.add_mod_right, Nat.mod_eq_of_lt (by omega)]
        refine ⟨(s, n - 1) :: ivs, ?_, by simp [e2], ?_, by simp [e4]⟩
        · simp [segmentIntervals, ← hs, hn, e1, hmod]
        · rw [List.flatMap_cons, e3, hsp, happ]

theorem intervals_partition (total : Nat) (nrAt : Nat → Option Nat) (conv : Nat → Nat) (pts : List SyncPoint)
    (hne : pts ≠ []) (cuts : List Nat) (hc : cutPoints nrAt conv pts = cuts.map some)
    (hsorted : cuts.Pairwise (· ≤ ·)) (hrange : ∀ n ∈ cuts, 1 ≤ n ∧ n ≤ total + 1) (htot : total + 1 < U32) :
    ∃ ivs, intervals total nrAt conv pts = some ivs ∧ ivs.length = pts.length ∧
      ivs.flatMap span = List.range' 1 total ∧
      ivs.map (·.1) = 1 :: cuts := by
  have := segmentIntervals_spec total nrAt conv htot pts 1 0 cuts 1 hne (by simp) hc hsorted hrange
    (Nat.le_refl _) (by omega)
  simpa [intervals] using this

theorem mem_expandRuns {α} (cs : List Nat) : ∀ (ds : List α) (x : α), x ∈ expandRuns cs ds → x ∈ ds := by
  induction cs with
  | nil => intro ds x h; simp [expandRuns_nil_left] at h
  | cons c cs ih =>
    intro ds x h
    cases ds with
    | nil => simp [expandRuns_nil_right] at h
    | cons d ds =>
      rw [expandRuns_cons, List.mem_append] at h
      rcases h with h | h
      · rw [List.mem_replicate] at h; simp [h.2]
      · simp [ih ds x h]

theorem sum_take_strictMono (l : List Nat) (hpos : ∀ d ∈ l, 0 < d) :
    ∀ p q, p < q → q ≤ l.length → (l.take p).sum < (l.take q).sum := by
  induction l with
  | nil => intro p q h1 h2; simp at h2; omega
  | cons a l ih =>
    intro p q h1 h2
    have ha := hpos a (by simp)
    cases q with
    | zero => omega
    | succ q =>
      cases p with
      | zero => simp; omega
      | succ p =>
        simp only [List.take_succ_cons, List.sum_cons]
        have := ih (fun d hd => hpos d (by simp [hd])) p q (by omega) (by simpa using h2)
        omega

theorem startTime_strictMono (durs : List Nat) (hpos : ∀ d ∈ durs, 0 < d) (j k : Nat)
    (h1 : 1 ≤ j) (h2 : j < k) (h3 : k ≤ durs.length + 1) : startTime durs j < startTime durs k := by
  unfold startTime
  exact sum_take_strictMono durs hpos (j - 1) (k - 1) (by omega) (by omega)

theorem nrAt_mono (b : Stts) (h : b.OK) (hpos : ∀ d ∈ b.delta, 0 < d) (hc : ∀ c ∈ b.count, 0 < c)
    (hN : b.durations.length + 1 < U32) (t1 t2 : Nat) (h12 : t1 ≤ t2) (ht : t2 < b.durations.sum) :
    ∃ k1 k2, b.getSampleNrAtTime t1 = some k1 ∧ b.getSampleNrAtTime t2 = some k2 ∧ k1 ≤ k2 ∧ 1 ≤ k1 ∧
      k2 ≤ b.durations.length + 1 := by
  obtain ⟨k1, a1, a2, a3, a4, a5⟩ := (getSampleNrAtTime_spec b h hpos hc hN t1).1 (by omega)
  obtain ⟨k2, b1, b2, b3, b4, b5⟩ := (getSampleNrAtTime_spec b h hpos hc hN t2).1 ht
  refine ⟨k1, k2, a1, b1, ?_, a2, b3⟩
  apply Nat.le_of_not_lt
  intro hlt
  have := a5 k2 b2 hlt
  omega

theorem nrAt_of_start (b : Stts) (h : b.OK) (hpos : ∀ d ∈ b.delta, 0 < d) (hc : ∀ c ∈ b.count, 0 < c)
    (hN : b.durations.length + 1 < U32) (n : Nat) (h1 : 1 ≤ n) (hn : n ≤ b.durations.length) :
    b.getSampleNrAtTime (startTime b.durations n) = some n := by
  have hp : ∀ d ∈ b.durations, 0 < d := fun d hd => hpos d (mem_expandRuns _ _ d hd)
  have hlt : startTime b.durations n < b.durations.sum := by
    have := startTime_strictMono b.durations hp n (b.durations.length + 1) h1 (by omega) (Nat.le_refl _)
    simpa [startTime] using this
  obtain ⟨k, a1, a2, a3, a4, a5⟩ := (getSampleNrAtTime_spec b h hpos hc hN _).1 hlt
  rw [a1]
  congr 1
  rcases Nat.lt_trichotomy k n with hk | hk | hk
  · have := startTime_strictMono b.durations hp k n a2 hk (by omega)
    omega
  · exact hk
  · have := a5 n h1 hk
    omega

end Mp4ff.Segmenter

