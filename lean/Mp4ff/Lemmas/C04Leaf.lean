import Mp4ff.Model.Boxes
/-!
C04: memory bound of the modelled leaf-box decoders: decoded values <= consumed payload bytes + a layout constant.
-/
namespace Mp4ff.Layout

/-- a field that always consumes at least one byte -/
def fldPos : Fld → Bool
  | .u w => decide (0 < w)
  | .raw n => decide (0 < n)
  | .rsv fill => !fill.isEmpty
  | .cstr => true
  | .rest => false
  | .udyn _ => false
  | .rawdyn _ => false

mutual
/-- every field inside a repeated group consumes at least one byte (so a count field cannot make the decoder produce
    more values than there are bytes) -/
def Syn.repOK (inRep : Bool) : Syn → Bool
  | .fld _ f => if inRep then fldPos f else true
  | .cond _ body => listRepOK inRep body
  | .rep _ body => listRepOK true body
def listRepOK (inRep : Bool) : List Syn → Bool
  | [] => true
  | s :: rest => s.repOK inRep && listRepOK inRep rest
end

mutual
/-- number of fields outside repeated groups -/
def Syn.topFlds : Syn → Nat
  | .fld _ _ => 1
  | .cond _ body => listTopFlds body
  | .rep _ _ => 0
def listTopFlds : List Syn → Nat
  | [] => 0
  | s :: rest => s.topFlds + listTopFlds rest
end


theorem splitZero_len : ∀ (bs a r : Bytes), splitZero bs = some (a, r) → r.length < bs.length := by
  intro bs
  induction bs with
  | nil => intro a r h; simp [splitZero] at h
  | cons b bs ih =>
    intro a r h
    simp only [splitZero] at h
    split at h
    · simp at h; obtain ⟨_, rfl⟩ := h; simp
    · cases hs : splitZero bs with
      | none => simp [hs] at h
      | some pr =>
        obtain ⟨a', r'⟩ := pr
        simp [hs] at h
        obtain ⟨_, rfl⟩ := h
        have := ih a' r' hs
        simp; omega

theorem decFld_len (fl : Fld) (acc : Trace) (bs : Bytes) (v : Val) (bs' : Bytes)
    (h : decFld fl acc bs = some (v, bs')) :
    bs'.length ≤ bs.length ∧ (fldPos fl = true → bs'.length < bs.length) := by
  cases fl with
  | u w =>
    simp only [decFld] at h
    split at h
    · simp at h
    · simp at h; obtain ⟨_, rfl⟩ := h; simp [fldPos]; omega
  | raw n =>
    simp only [decFld] at h
    split at h
    · simp at h
    · simp at h; obtain ⟨_, rfl⟩ := h; simp [fldPos]; omega
  | rsv fill =>
    simp only [decFld] at h
    split at h
    · simp at h
    · simp at h; obtain ⟨_, rfl⟩ := h
      simp [fldPos]
      intro hne
      have : 0 < fill.length := by cases fill <;> simp_all
      omega
  | cstr =>
    simp only [decFld] at h
    cases hs : splitZero bs with
    | none => simp [hs] at h
    | some pr =>
      obtain ⟨a, r⟩ := pr
      simp [hs] at h
      obtain ⟨_, rfl⟩ := h
      have := splitZero_len bs a r hs
      simp [fldPos]; omega
  | rest =>
    simp [decFld] at h; obtain ⟨_, rfl⟩ := h; simp [fldPos]
  | udyn w =>
    simp only [decFld] at h
    split at h
    · simp at h
    · simp at h; obtain ⟨_, rfl⟩ := h; simp [fldPos]
  | rawdyn n =>
    simp only [decFld] at h
    split at h
    · simp at h
    · simp at h; obtain ⟨_, rfl⟩ := h; simp [fldPos]

theorem decode_alloc_gen (f : Nat) : ∀ (L : List Syn) (inRep : Bool), listRepOK inRep L = true → ∀ (acc : Trace)
    (bs : Bytes) (tr : Trace) (rest : Bytes), decode f L acc bs = some (tr, rest) →
    rest.length ≤ bs.length ∧
      tr.length ≤ acc.length + (bs.length - rest.length) + (if inRep then 0 else listTopFlds L) := by
  induction f with
  | zero => intro L inRep hL acc bs tr rest h; simp [decode] at h
  | succ f ih =>
    intro L inRep hL acc bs tr rest h
    match L with
    | [] =>
      simp [decode] at h
      obtain ⟨rfl, rfl⟩ := h
      simp
    | .fld nm fl :: L' =>
      simp only [decode] at h
      cases hd : decFld fl acc bs with
      | none => simp [hd] at h
      | some pr =>
        obtain ⟨v, bs'⟩ := pr
        simp only [hd] at h
        simp only [listRepOK, Syn.repOK, Bool.and_eq_true] at hL
        obtain ⟨h1, h2⟩ := hL
        have hlen := decFld_len fl acc bs v bs' hd
        have := ih L' inRep h2 _ _ _ _ h
        simp only [List.length_append, List.length_singleton] at this
        cases inRep with
        | true =>
          simp at h1
          have := hlen.2 h1
          simp at *; omega
        | false =>
          simp [listTopFlds, Syn.topFlds] at *; omega
    | .cond p body :: L' =>
      simp only [decode] at h
      simp only [listRepOK, Syn.repOK, Bool.and_eq_true] at hL
      obtain ⟨h1, h2⟩ := hL
      split at h
      · cases hb : decode f body acc bs with
        | none => simp [hb] at h
        | some pr =>
          obtain ⟨a1, bs1⟩ := pr
          simp only [hb] at h
          have e1 := ih body inRep h1 _ _ _ _ hb
          have e2 := ih L' inRep h2 _ _ _ _ h
          cases inRep with
          | true => simp at *; omega
          | false => simp [listTopFlds, Syn.topFlds] at *; omega
      · have e2 := ih L' inRep h2 _ _ _ _ h
        cases inRep with
        | true => simp at *; omega
        | false => simp [listTopFlds, Syn.topFlds] at *; omega
    | .rep cnt body :: L' =>
      simp only [decode] at h
      simp only [listRepOK, Syn.repOK, Bool.and_eq_true] at hL
      obtain ⟨h1, h2⟩ := hL
      split at h
      · have e2 := ih L' inRep h2 _ _ _ _ h
        cases inRep with
        | true => simp at *; omega
        | false => simp [listTopFlds, Syn.topFlds] at *; omega
      · rename_i n hn
        cases hb : decode f body acc bs with
        | none => simp [hb] at h
        | some pr =>
          obtain ⟨a1, bs1⟩ := pr
          simp only [hb] at h
          have e1 := ih body true h1 _ _ _ _ hb
          have hL2 : listRepOK inRep (.rep (fun _ => n) body :: L') = true := by
            simp only [listRepOK, Syn.repOK, Bool.and_eq_true]; exact ⟨h1, h2⟩
          have e2 := ih _ inRep hL2 _ _ _ _ h
          cases inRep with
          | true => simp at *; omega
          | false => simp [listTopFlds, Syn.topFlds] at *; omega

/-- **decoded values ≤ consumed bytes + a layout constant**, for every payload (any count fields, any lengths) -/
theorem decode_alloc_bound (f : Nat) (L : List Syn) (hL : listRepOK false L = true) (acc : Trace) (bs : Bytes)
    (tr : Trace) (rest : Bytes) (h : decode f L acc bs = some (tr, rest)) :
    rest.length ≤ bs.length ∧ tr.length ≤ acc.length + (bs.length - rest.length) + listTopFlds L := by
  have := decode_alloc_gen f L false hL acc bs tr rest h
  simpa using this

end Mp4ff.Layout

namespace Mp4ff.Boxes
open Mp4ff.Layout

/-- every modelled box layout satisfies the condition -/
theorem specs_repOK : specs.all (fun p => listRepOK false p.2.layout) = true := by
  decide

theorem specs_topFlds : specs.all (fun p => decide (listTopFlds p.2.layout ≤ 40)) = true := by
  decide

/-- **every modelled leaf decoder returns at most |payload| + 40 values** whatever the payload says -/
theorem modelled_decoders_linear (ty : String) (sp : Spec) (hsp : (ty, sp) ∈ specs) (f : Nat) (payload : Bytes)
    (tr : Trace) (rest : Bytes) (h : decode f sp.layout [] payload = some (tr, rest)) :
    tr.length ≤ payload.length + 40 := by
  have h1 := List.all_eq_true.mp specs_repOK _ hsp
  have h2 := List.all_eq_true.mp specs_topFlds _ hsp
  simp only [decide_eq_true_eq] at h1 h2
  have := decode_alloc_bound f sp.layout h1 [] payload tr rest h
  simp only [List.length_nil] at this
  omega

end Mp4ff.Boxes

