import Mp4ff.Model.Nalu
import Mp4ff.Lemmas.NaluLenPrefixed
/-! helper lemmas for start-code scanning / NAL unit extraction on Annex B streams (C14 C-theorems):
list-recursive forms `scanL`, `extL` of the index loops and their behaviour on start codes and well-formed units -/
namespace Mp4ff.Nalu

theorem byteAt_append_left (pre t : Bytes) (j : Nat) (h : j < pre.length) :
    byteAt (pre ++ t) j = byteAt pre j := by
  simp [byteAt, List.getD_eq_getElem?_getD, List.getElem?_append_left h]

/-- window test on a list: `a :: t` starts with 00 00 01 and has at least 4 bytes -/
def sc3 (a : Nat) (t : Bytes) : Bool :=
  a == 0 && byteAt t 0 == 0 && byteAt t 1 == 1 && decide (3 ≤ t.length)

def prevZero (pre : Bytes) : Bool := decide (pre.length ≥ 1 ∧ byteAt pre (pre.length - 1) = 0)

theorem prevZero_snoc (pre : Bytes) (a : Nat) : prevZero (pre ++ [a]) = (a == 0) := by
  have := byteAt_append_right pre [a] 0
  simp only [Nat.add_zero] at this
  simp [prevZero]
  by_cases h : a = 0 <;> simp [h]

theorem isSC_at (s pre t : Bytes) (a : Nat) (hs : s = pre ++ a :: t) :
    (decide (pre.length + 3 < s.length) && isSC s pre.length) = sc3 a t := by
  have h0 := byteAt_append_right pre (a :: t) 0
  have h1 := byteAt_append_right pre (a :: t) 1
  have h2 := byteAt_append_right pre (a :: t) 2
  simp only [Nat.add_zero] at h0
  have hl : s.length = pre.length + t.length + 1 := by simp [hs]; omega
  subst hs
  unfold isSC sc3
  rw [h0, h1, h2]
  have : decide (pre.length + 3 < (pre ++ a :: t).length) = decide (3 ≤ t.length) := by
    rw [hl]; apply decide_eq_decide.mpr; omega
  rw [this]
  simp [byteAt]
  cases decide (3 ≤ t.length) <;> simp

/-- list-recursive form of `scanFrom` -/
def scanL : Bool → Nat → Bytes → List SC
  | _, _, [] => []
  | p, off, a :: t => (if sc3 a t then [⟨if p then 4 else 3, off + 3⟩] else []) ++ scanL (a == 0) (off + 1) t

theorem scanFrom_step (s : Bytes) (i0 : Nat) :
    scanFrom s i0 = (if (decide (i0 + 3 < s.length) && isSC s i0) then
        [⟨if i0 ≥ 1 ∧ byteAt s (i0 - 1) = 0 then 4 else 3, i0 + 3⟩] else []) ++ scanFrom s (i0 + 1) := by
  unfold scanFrom
  by_cases h : i0 + 3 < s.length
  · have : s.length - 3 - i0 = (s.length - 3 - (i0 + 1)) + 1 := by omega
    rw [this, List.range'_succ, List.filterMap_cons]
    cases hsc : isSC s i0 <;> simp [h]
  · have h1 : s.length - 3 - i0 = 0 := by omega
    have h2 : s.length - 3 - (i0 + 1) = 0 := by omega
    simp [h1, h2, h]

theorem scanFrom_eq_scanL : ∀ (t pre s : Bytes), s = pre ++ t →
    scanFrom s pre.length = scanL (prevZero pre) pre.length t := by
  intro t
  induction t with
  | nil =>
    intro pre s hs
    have : s.length - 3 - pre.length = 0 := by simp [hs]
    simp [scanFrom, scanL, this]
  | cons a t ih =>
    intro pre s hs
    rw [scanFrom_step, isSC_at s pre t a hs, scanL]
    have hih := ih (pre ++ [a]) s (by simp [hs])
    rw [prevZero_snoc] at hih
    simp only [List.length_append, List.length_singleton] at hih
    rw [hih]
    congr 1
    have : (pre.length ≥ 1 ∧ byteAt s (pre.length - 1) = 0) ↔ prevZero pre = true := by
      unfold prevZero
      rw [decide_eq_true_iff]
      constructor
      · rintro ⟨h1, h2⟩
        rw [hs, byteAt_append_left _ _ _ (by omega)] at h2
        exact ⟨h1, h2⟩
      · rintro ⟨h1, h2⟩
        rw [hs, byteAt_append_left _ _ _ (by omega)]
        exact ⟨h1, h2⟩
    simp only [this]

theorem sc3_unit_false (a : Nat) (n' tail : Bytes) (hef : EmulationFree (a :: n'))
    (hl : (a :: n').getLast? ≠ some 0) : sc3 a (n' ++ tail) = false := by
  cases n' with
  | nil =>
    have : a ≠ 0 := by simpa using hl
    simp [sc3, this]
  | cons b m =>
    cases m with
    | nil =>
      have : b ≠ 0 := by simpa using hl
      simp [sc3, byteAt, this]
    | cons c m' =>
      have := hef.1
      simp only [sc3, byteAt]
      simp
      intro ha hb hc
      exact absurd ⟨ha, hb, by omega⟩ this

theorem EmulationFree_tail {a : Nat} {n : Bytes} (h : EmulationFree (a :: n)) : EmulationFree n := by
  cases n with
  | nil => simp [EmulationFree]
  | cons b m =>
    cases m with
    | nil => simp [EmulationFree]
    | cons c m' => exact h.2

theorem scanL_unit : ∀ (n : Bytes), n ≠ [] → EmulationFree n → n.getLast? ≠ some 0 →
    ∀ (tail : Bytes) (p : Bool) (off : Nat),
    scanL p off (n ++ tail) = scanL false (off + n.length) tail := by
  intro n
  induction n with
  | nil => intro h; exact absurd rfl h
  | cons a n' ih =>
    intro _ hef hl tail p off
    have hsc := sc3_unit_false a n' tail hef hl
    rw [List.cons_append, scanL, hsc]
    cases n' with
    | nil =>
      have : a ≠ 0 := by simpa using hl
      have h0 : (a == 0) = false := by simp [this]
      simp [h0]
    | cons b m =>
      have := ih (by simp) (EmulationFree_tail hef) (by simpa using hl) tail (a == 0) (off + 1)
      rw [this]
      simp only [List.length_cons]
      simp; congr 1; omega

theorem scanL_sc3 (p : Bool) (off : Nat) (m R : Bytes) (hm : m ≠ []) :
    scanL p off (0 :: 0 :: 1 :: (m ++ R)) = ⟨if p then 4 else 3, off + 3⟩ :: scanL false (off + 3) (m ++ R) := by
  cases m with
  | nil => exact absurd rfl hm
  | cons x m' => simp [scanL, sc3, byteAt]

theorem scanL_sc4 (p : Bool) (off : Nat) (m R : Bytes) (hm : m ≠ []) :
    scanL p off (0 :: 0 :: 0 :: 1 :: (m ++ R)) = ⟨4, off + 4⟩ :: scanL false (off + 4) (m ++ R) := by
  cases m with
  | nil => exact absurd rfl hm
  | cons x m' => simp [scanL, sc3, byteAt]

theorem startCode3 : startCode 3 = [0, 0, 1] := by simp [startCode]
theorem startCode4 : startCode 4 = [0, 0, 0, 1] := by simp [startCode]

/-- list-recursive form of `extractLoop` -/
def extL (s : Bytes) : Nat → Nat → List (Nat × Nat) → Bytes → List (Nat × Nat) × Nat
  | _, cur, acc, [] => (acc, cur)
  | off, cur, acc, a :: t =>
    if sc3 a t then
      extL s (off + 1) (off + 3) (if cur > 0 then acc ++ [(cur, trimEnd s cur off)] else acc) t
    else extL s (off + 1) cur acc t

theorem extL_short (s : Bytes) : ∀ (t : Bytes) (off cur : Nat) (acc : List (Nat × Nat)),
    t.length < 3 → extL s off cur acc t = (acc, cur) := by
  intro t
  induction t with
  | nil => intros; simp [extL]
  | cons a t ih =>
    intro off cur acc h
    have : sc3 a t = false := by
      have : ¬ (3 ≤ t.length) := by simp at h; omega
      simp [sc3, this]
    rw [extL, this]
    simp only [Bool.false_eq_true, if_false]
    exact ih _ _ _ (by simp at h; omega)

theorem extractLoop_eq_extL (s : Bytes) : ∀ (t pre : Bytes) (fuel cur : Nat) (acc : List (Nat × Nat)),
    s = pre ++ t → t.length + 1 ≤ fuel →
    extractLoop s (s.length - 3) fuel pre.length cur acc = extL s pre.length cur acc t := by
  intro t
  induction t with
  | nil =>
    intro pre fuel cur acc hs hf
    obtain ⟨f, rfl⟩ : ∃ f, fuel = f + 1 := ⟨fuel - 1, by omega⟩
    have hl : s.length = pre.length := by simp [hs]
    have : ¬ (pre.length < s.length - 3) := by omega
    simp [extractLoop, extL, this]
  | cons a t ih =>
    intro pre fuel cur acc hs hf
    obtain ⟨f, rfl⟩ : ∃ f, fuel = f + 1 := ⟨fuel - 1, by omega⟩
    have hsc := isSC_at s pre t a hs
    have hl : s.length = pre.length + t.length + 1 := by simp [hs]; omega
    have hih := fun cur acc => ih (pre ++ [a]) f cur acc (by simp [hs]) (by simp at hf; omega)
    simp only [List.length_append, List.length_singleton] at hih
    rw [extractLoop, extL, ← hsc]
    by_cases hb : pre.length < s.length - 3
    · have hb' : pre.length + 3 < s.length := by omega
      simp only [hb, hb', if_true, decide_true, Bool.true_and]
      cases hi : isSC s pre.length
      · simp [hih]
      · simp [hih]
    · have hb' : ¬ (pre.length + 3 < s.length) := by omega
      simp only [hb, hb', if_false, decide_false, Bool.false_and]
      simp only [Bool.false_eq_true, if_false]
      rw [extL_short]; omega

theorem extL_unit (s : Bytes) : ∀ (n : Bytes), n ≠ [] → EmulationFree n → n.getLast? ≠ some 0 →
    ∀ (tail : Bytes) (off cur : Nat) (acc : List (Nat × Nat)),
    extL s off cur acc (n ++ tail) = extL s (off + n.length) cur acc tail := by
  intro n
  induction n with
  | nil => intro h; exact absurd rfl h
  | cons a n' ih =>
    intro _ hef hl tail off cur acc
    have hsc := sc3_unit_false a n' tail hef hl
    rw [List.cons_append, extL, hsc]
    cases n' with
    | nil => simp
    | cons b m =>
      have := ih (by simp) (EmulationFree_tail hef) (by simpa using hl) tail (off + 1) cur acc
      simp only [Bool.false_eq_true, if_false]
      rw [this]
      simp only [List.length_cons]
      congr 1; omega

theorem extL_sc3 (s : Bytes) (off cur : Nat) (acc : List (Nat × Nat)) (m R : Bytes) (hm : m ≠ []) :
    extL s off cur acc (0 :: 0 :: 1 :: (m ++ R)) =
      extL s (off + 3) (off + 3) (if cur > 0 then acc ++ [(cur, trimEnd s cur off)] else acc) (m ++ R) := by
  cases m with
  | nil => exact absurd rfl hm
  | cons x m' => simp [extL, sc3, byteAt]

theorem extL_sc4 (s : Bytes) (off cur : Nat) (acc : List (Nat × Nat)) (m R : Bytes) (hm : m ≠ []) :
    extL s off cur acc (0 :: 0 :: 0 :: 1 :: (m ++ R)) =
      extL s (off + 4) (off + 4) (if cur > 0 then acc ++ [(cur, trimEnd s cur (off + 1))] else acc) (m ++ R) := by
  cases m with
  | nil => exact absurd rfl hm
  | cons x m' => simp [extL, sc3, byteAt]

theorem byteAt_last (n : Bytes) (hne : n ≠ []) (hl : n.getLast? ≠ some 0) : byteAt n (n.length - 1) ≠ 0 := by
  rw [List.getLast?_eq_getElem?] at hl
  have hlen := nonempty_len hne
  have hlt : n.length - 1 < n.length := by omega
  rw [List.getElem?_eq_getElem hlt] at hl
  simp only [byteAt, List.getD_eq_getElem?_getD, List.getElem?_eq_getElem hlt, Option.getD_some]
  intro h; exact hl (by rw [h])

/-- trimming from the start code back to the previous unit end (3-byte start code) -/
theorem trimEnd_unit (s pre0 nprev R : Bytes) (hs : s = pre0 ++ (nprev ++ R)) (hne : nprev ≠ [])
    (hl : nprev.getLast? ≠ some 0) :
    trimEnd s pre0.length (pre0.length + nprev.length) = pre0.length + nprev.length := by
  have hlen := nonempty_len hne
  have hb : byteAt s (pre0.length + (nprev.length - 1)) ≠ 0 := by
    rw [hs, byteAt_append_right, byteAt_append_left _ _ _ (by omega)]
    exact byteAt_last nprev hne hl
  have : pre0.length + nprev.length = (pre0.length + (nprev.length - 1)) + 1 := by omega
  rw [this, trimEnd, if_neg]
  intro h; exact hb h.2

theorem trimEnd_unit4 (s pre0 nprev R : Bytes) (hs : s = pre0 ++ (nprev ++ 0 :: R)) (hne : nprev ≠ [])
    (hl : nprev.getLast? ≠ some 0) :
    trimEnd s pre0.length (pre0.length + nprev.length + 1) = pre0.length + nprev.length := by
  have hlen := nonempty_len hne
  have hb : byteAt s (pre0.length + nprev.length) = 0 := by
    have := byteAt_append_right (pre0 ++ nprev) (0 :: R) 0
    simp only [List.length_append, Nat.add_zero, List.append_assoc] at this
    rw [hs, this]; simp [byteAt]
  rw [trimEnd]
  have : pre0.length + nprev.length > pre0.length := by omega
  simp only [this, hb, and_self, if_true]
  exact trimEnd_unit s pre0 nprev (0 :: R) hs hne hl

def finish (s : Bytes) (r : List (Nat × Nat) × Nat) : List Bytes :=
  if r.2 = 0 then [] else (r.1 ++ [(r.2, s.length)]).map fun (a, b) => slice s a b

theorem extractNalus_eq (s : Bytes) :
    extractNalus s = finish s (extractLoop s (s.length - 3) (s.length + 1) 0 0 []) := by
  unfold extractNalus finish
  rfl

theorem slice_mid (s pre0 n R : Bytes) (hs : s = pre0 ++ (n ++ R)) :
    slice s pre0.length (pre0.length + n.length) = n := by
  rw [hs]; exact slice_at pre0 n R

theorem slice_end (s pre0 n : Bytes) (hs : s = pre0 ++ n) :
    slice s pre0.length s.length = n := by
  have := slice_at pre0 n []
  simp only [List.append_nil] at this
  rw [hs]; simpa using this


end Mp4ff.Nalu
