import Mp4ff.Lemmas.ScanEq
import Mp4ff.Lemmas.C14Conv
import Mp4ff.Lemmas.C14Loops
/-!
C14, second batch: (C3) toSample, (C4) paramSetsFromByteStream, (C5) extractOfType, (C6) firstVideoNalu on
Annex B streams.  Helper lemmas: Lemmas/C14Loops.lean (unit-level view of the index loops) and the
sections below.  (C4) is FALSE as originally stated for arbitrary `c`/`isPS` (see the comment there);
it is proved in general against `psSpecV` and, with disjoint parameter-set/video types, against `psSpecU`.
-/
namespace Mp4ff.Nalu

def UnitsBytes (units : List (Nat × Bytes)) : Prop := ∀ u ∈ units, IsBytes u.2

/-! ### (C3) helpers -/

/-- NALU length from an entry and its successor (if any); `L` = stream length -/
def lenOf (L : Nat) (c : SC) (nx : Option SC) (inPlace : Bool) : Nat :=
  match nx with
  | some nx => nx.pos - c.pos - (if inPlace then 4 else nx.len)
  | none => L - c.pos

theorem naluLenAt_eq (s : Bytes) (scs : List SC) (i : Nat) (inPlace : Bool) (c : SC) (h : scs[i]? = some c) :
    naluLenAt s scs i inPlace = lenOf s.length c scs[i + 1]? inPlace := by
  unfold naluLenAt lenOf
  rw [h]
  cases scs[i + 1]? <;> rfl

def foldPairs {β : Type} (g : β → SC → Option SC → β) : β → List SC → β
  | st, [] => st
  | st, c :: rest => foldPairs g (g st c rest.head?) rest

theorem foldl_range_pairs {β : Type} (g : β → SC → Option SC → β) (l : List SC) :
    ∀ (t pre : List SC) (init : β), l = pre ++ t →
    (List.range' pre.length t.length).foldl
      (fun st i => match l[i]? with | some c => g st c l[i + 1]? | none => st) init = foldPairs g init t := by
  intro t
  induction t with
  | nil => intro pre init _; simp [foldPairs]
  | cons c t ih =>
    intro pre init hl
    have h0 : l[pre.length]? = some c := by rw [hl]; simp
    have h1 : l[pre.length + 1]? = t.head? := by
      rw [hl, List.getElem?_append_right (by omega)]
      cases t <;> simp
    have := ih (pre ++ [c]) (g init c t.head?) (by simp [hl])
    simp only [List.length_append, List.length_singleton] at this
    simp only [List.length_cons, List.range'_succ, List.foldl_cons, h0, h1, foldPairs]
    exact this

theorem minSC_le : ∀ (l : List SC) (m : Nat),
    l.foldl (fun m sc => if sc.len < m then sc.len else m) m ≤ m ∧
    ∀ sc ∈ l, l.foldl (fun m sc => if sc.len < m then sc.len else m) m ≤ sc.len := by
  intro l
  induction l with
  | nil => intro m; simp
  | cons a l ih =>
    intro m
    simp only [List.foldl_cons, List.mem_cons]
    have h := ih (if a.len < m then a.len else m)
    by_cases hlt : a.len < m
    · simp only [hlt, if_true] at h ⊢
      refine ⟨by have := h.1; omega, ?_⟩
      intro sc hsc
      rcases hsc with rfl | hsc
      · exact h.1
      · exact h.2 sc hsc
    · simp only [hlt, if_false] at h ⊢
      refine ⟨h.1, ?_⟩
      intro sc hsc
      rcases hsc with rfl | hsc
      · have := h.1; omega
      · exact h.2 sc hsc

theorem expectedSCs_lens : ∀ (units : List (Nat × Bytes)) (off : Nat),
    (expectedSCs off units).map (·.len) = units.map (·.1)
  | [], _ => rfl
  | (k, m) :: rest, off => by simp [expectedSCs, expectedSCs_lens rest]

theorem all4_of_min (units : List (Nat × Bytes)) (h : UnitsOK units) (off : Nat)
    (hm : minSCLen (expectedSCs off units) = 4) : ∀ u ∈ units, u.1 = 4 := by
  intro u hu
  have h1 : u.1 ∈ (expectedSCs off units).map (·.len) := by
    rw [expectedSCs_lens]; exact List.mem_map_of_mem hu
  obtain ⟨sc, hsc, he⟩ := List.mem_map.mp h1
  have := (minSC_le (expectedSCs off units) 4).2 sc hsc
  unfold minSCLen at hm
  have hk := (h u hu).1
  omega

theorem lenOf_head (L off k k0 : Nat) (m : Bytes) (rest : List (Nat × Bytes)) (b : Bool)
    (hL : L = off + k + m.length + (annexB rest).length) (h4 : b = true → ∀ u ∈ rest, u.1 = 4) :
    lenOf L ⟨k0, off + k⟩ (expectedSCs (off + k + m.length) rest).head? b = m.length := by
  cases rest with
  | nil => simp [expectedSCs, lenOf, hL, annexB]
  | cons u rest' =>
    obtain ⟨k', m'⟩ := u
    simp only [expectedSCs, List.head?, lenOf]
    cases b with
    | false => simp only [Bool.false_eq_true, if_false]; omega
    | true =>
      have := h4 rfl (k', m') (by simp)
      simp only at this
      simp only [if_true]; omega

def gCopy (s : Bytes) (out : Bytes) (c : SC) (nx : Option SC) : Bytes :=
  out ++ put32 (lenOf s.length c nx false % U32) ++ slice s c.pos (c.pos + lenOf s.length c nx false)

def gPatch (L : Nat) (st : Bytes) (c : SC) (nx : Option SC) : Bytes :=
  patch4 st (c.pos - 4) (put32 (lenOf L c nx true % U32))

theorem copy_units (s : Bytes) (hlt : s.length < U32) : ∀ (units : List (Nat × Bytes)), UnitsOK units →
    ∀ (pre out : Bytes), s = pre ++ annexB units →
    foldPairs (gCopy s) out (expectedSCs pre.length units) = out ++ lenPrefixed (units.map (·.2)) := by
  intro units
  induction units with
  | nil => intro _ pre out _; simp [expectedSCs, foldPairs, lenPrefixed]
  | cons u rest ih =>
    intro h pre out hs
    obtain ⟨k, m⟩ := u
    obtain ⟨hk, hmne, _, hef, hml⟩ := h (k, m) (by simp)
    simp only at hk
    have hkl := startCode_length k hk
    have hs2 : s = (pre ++ startCode k) ++ (m ++ annexB rest) := by simp [hs, annexB]
    have hl2 : (pre ++ startCode k).length = pre.length + k := by simp [hkl]
    have hL : s.length = pre.length + k + m.length + (annexB rest).length := by
      rw [hs2]; simp [hkl]; omega
    have hlen := lenOf_head s.length pre.length k k m rest false hL (by simp)
    have hsl := slice_mid s (pre ++ startCode k) m (annexB rest) hs2
    rw [hl2] at hsl
    have hmod : m.length % U32 = m.length := Nat.mod_eq_of_lt (by omega)
    have hs3 : s = (pre ++ startCode k ++ m) ++ annexB rest := by simp [hs2]
    have hl3 : (pre ++ startCode k ++ m).length = pre.length + k + m.length := by simp [hkl]; omega
    have := ih (UnitsOK_tail h) (pre ++ startCode k ++ m)
      (out ++ put32 m.length ++ m) hs3
    rw [hl3] at this
    simp only [expectedSCs, foldPairs, gCopy, hlen, hmod, hsl]
    rw [this]
    simp [lenPrefixed]

theorem patch_units (L : Nat) (hlt : L < U32) : ∀ (units : List (Nat × Bytes)), UnitsOK units →
    (∀ u ∈ units, u.1 = 4) → ∀ (done : Bytes), L = done.length + (annexB units).length →
    foldPairs (gPatch L) (done ++ annexB units) (expectedSCs done.length units) =
      done ++ lenPrefixed (units.map (·.2)) := by
  intro units
  induction units with
  | nil => intro _ _ done _; simp [expectedSCs, foldPairs, lenPrefixed, annexB]
  | cons u rest ih =>
    intro h h4 done hL
    obtain ⟨k, m⟩ := u
    have hk4 : k = 4 := h4 (k, m) (by simp)
    subst hk4
    have hL' : L = done.length + 4 + m.length + (annexB rest).length := by
      rw [hL]; simp [annexB, startCode]; omega
    have hlen := lenOf_head L done.length 4 4 m rest true hL' (fun _ u hu => h4 u (by simp [hu]))
    have hmod : m.length % U32 = m.length := Nat.mod_eq_of_lt (by omega)
    have hp : patch4 (done ++ annexB ((4, m) :: rest)) done.length (put32 m.length) =
        (done ++ put32 m.length ++ m) ++ annexB rest := by
      simp [patch4, annexB, startCode]
    have hl3 : (done ++ put32 m.length ++ m).length = done.length + 4 + m.length := by simp; omega
    have := ih (UnitsOK_tail h) (fun u hu => h4 u (by simp [hu])) (done ++ put32 m.length ++ m)
      (by rw [hl3]; exact hL')
    rw [hl3] at this
    simp only [expectedSCs, foldPairs, gPatch, hlen, hmod, Nat.add_sub_cancel, hp]
    rw [this]
    simp [lenPrefixed]

theorem isBytes_annexB : ∀ (units : List (Nat × Bytes)), UnitsOK units → IsBytes (annexB units)
  | [], _ => by simp [annexB, IsBytes]
  | (k, m) :: rest, h => by
    have ih := isBytes_annexB rest (UnitsOK_tail h)
    obtain ⟨hk, _, hb, _, _⟩ := h (k, m) (by simp)
    simp only at hk hb
    intro b hb'
    simp only [annexB, List.mem_append] at hb'
    rcases hb' with (hb' | hb') | hb'
    · rcases hk with rfl | rfl <;> simp [startCode] at hb' <;> omega
    · exact hb b hb'
    · exact ih b hb'

set_option linter.unusedVariables false in
/-- (C3) `ConvertByteStreamToNaluSample`: any mix of 3/4-byte start codes (both the in-place branch,
    taken when every start code is 4 bytes, and the copying branch) yields the 4-byte length-prefixed units -/
theorem toSample_annexB (units : List (Nat × Bytes)) (h : UnitsOK units) (hb : UnitsBytes units)
    (hlen : (annexB units).length < U32) :
    toSample (annexB units) = lenPrefixed (units.map (·.2)) := by
  unfold toSample
  rw [scanWord_eq _ (isBytes_annexB units h), scanByte_annexB units h]
  simp only [List.range_eq_range']
  generalize hs : annexB units = s at hlen ⊢
  generalize hscs : expectedSCs 0 units = scs
  by_cases hm : minSCLen scs = 4
  · simp only [hm, if_true]
    have h4 := all4_of_min units h 0 (hscs ▸ hm)
    have := foldl_range_pairs (gPatch s.length) scs scs [] s rfl
    simp only [List.length_nil] at this
    refine Eq.trans ?_ (this.trans ?_)
    · congr 1
      funext st i
      cases hc : scs[i]? with
      | none => rfl
      | some c => simp only [gPatch]; rw [naluLenAt_eq s scs i true c hc]
    rw [← hscs]
    have := patch_units s.length hlen units h h4 [] (by simp [hs])
    simpa [hs] using this
  · simp only [hm, if_false]
    have := foldl_range_pairs (gCopy s) scs scs [] [] rfl
    simp only [List.length_nil] at this
    refine Eq.trans ?_ (this.trans ?_)
    · congr 1
      funext st i
      cases hc : scs[i]? with
      | none => rfl
      | some c => simp only [gCopy]; rw [naluLenAt_eq s scs i false c hc]
    rw [← hscs]
    have := copy_units s hlen units h [] [] (by simp [hs])
    simpa using this

/-- parameter sets before the first video unit, as (type, unit), stream order -/
def psSpecU (c : Codec) (isPS : Nat → Bool) (units : List (Nat × Bytes)) : List (Nat × Bytes) :=
  psSpec c isPS (units.map (·.2))

/-! ### (C4) helpers -/

/-- like `psSpec`, but the video test comes first (this is what the Go loop does) -/
def psSpecV (c : Codec) (isPS : Nat → Bool) : List Bytes → List (Nat × Bytes)
  | [] => []
  | n :: rest =>
    let t := c.typeOf (n.headD 0)
    if c.isVideo t then [] else (if isPS t then [(t, n)] else []) ++ psSpecV c isPS rest

theorem psSpecV_eq_psSpec (c : Codec) (isPS : Nat → Bool) (hd : ∀ t, isPS t = true → c.isVideo t = false) :
    ∀ ns, psSpecV c isPS ns = psSpec c isPS ns
  | [] => rfl
  | n :: rest => by
    have ih := psSpecV_eq_psSpec c isPS hd rest
    simp only [psSpecV, psSpec, ih]
    by_cases hp : isPS (c.typeOf (n.headD 0)) = true
    · simp only [hp, hd _ hp, if_true]; simp
    · by_cases hv : c.isVideo (c.typeOf (n.headD 0)) = true
      · simp only [hp, hv, if_true]; simp
      · simp only [hp, hv]; simp

def psAcc (c : Codec) (isPS : Nat → Bool) (s : Bytes) (acc : List (Nat × Bytes)) (cur i : Nat) : List (Nat × Bytes) :=
  if cur > 0 ∧ isPS (c.typeOf (byteAt s cur)) = true
  then acc ++ [(c.typeOf (byteAt s cur), slice s cur (trimEnd s cur i))] else acc

def psLoop (c : Codec) (isPS : Nat → Bool) (s : Bytes) : List (Nat × Bytes) → Nat → List Nat → List (Nat × Bytes) :=
  uLoop (fun _ _ i => c.isVideo (c.typeOf (byteAt s (i + 3))))
    (psAcc c isPS s) (psAcc c isPS s)
    (fun acc cur => if cur > 0 ∧ isPS (c.typeOf (byteAt s cur)) = true
      then acc ++ [(c.typeOf (byteAt s cur), slice s cur s.length)] else acc)

theorem ps_go_eq (c : Codec) (isPS : Nat → Bool) (s : Bytes) :
    ∀ (fuel i cur : Nat) (acc : List (Nat × Bytes)), s.length - 3 - i + 1 ≤ fuel →
    paramSetsFromByteStream.go c isPS s fuel i cur acc = psLoop c isPS s acc cur (scPositions s i) := by
  intro fuel
  induction fuel with
  | zero => intro i cur acc h; omega
  | succ f ih =>
    intro i cur acc h
    rw [paramSetsFromByteStream.go, scPositions_step]
    by_cases hb : i < s.length - 3
    · simp only [hb, if_true]
      cases hi : isSC s i
      · simp only [Bool.false_eq_true, if_false]
        exact ih _ _ _ (by omega)
      · simp only [if_true, psLoop, uLoop]
        rw [ih _ _ _ (by omega)]
        rfl
    · simp only [hb, if_false, psLoop, uLoop]

theorem ps_units (c : Codec) (isPS : Nat → Bool) (s : Bytes) : ∀ (rest : List (Nat × Bytes)), UnitsOK rest →
    ∀ (pre0 nprev : Bytes) (acc : List (Nat × Bytes)), s = pre0 ++ (nprev ++ annexB rest) → nprev ≠ [] →
    nprev.getLast? ≠ some 0 → pre0.length > 0 →
    psLoop c isPS s acc pre0.length (scPos (pre0.length + nprev.length) rest) =
      acc ++ (if isPS (c.typeOf (nprev.headD 0)) = true then [(c.typeOf (nprev.headD 0), nprev)] else []) ++
        psSpecV c isPS (rest.map (·.2)) := by
  intro rest
  induction rest with
  | nil =>
    intro _ pre0 nprev acc hs hne hl hpos
    simp only [annexB, List.append_nil] at hs
    have hb : byteAt s pre0.length = nprev.headD 0 := by
      have := byteAt_append_right pre0 nprev 0
      simp only [Nat.add_zero] at this
      have h2 := headD_byteAt nprev [] hne
      simp only [List.append_nil] at h2
      rw [hs, this, h2]
    simp only [scPos_nil, psLoop, uLoop, hpos, true_and, hb, slice_end s pre0 nprev hs, List.map_nil, psSpecV,
      List.append_nil]
    split <;> simp
  | cons u rest ih =>
    intro h pre0 nprev acc hs hne hl hpos
    obtain ⟨k, m⟩ := u
    obtain ⟨hk, hmne, _, hef, hml⟩ := h (k, m) (by simp)
    simp only at hk hmne hef hml
    obtain ⟨hsl, hb0, hb1, hlt, hs2, hl2, he⟩ := unit_facts s pre0 nprev m k rest hs hk hne hl hmne
    have hacc : psAcc c isPS s acc pre0.length (pre0.length + nprev.length + k - 3) =
        acc ++ (if isPS (c.typeOf (nprev.headD 0)) = true then [(c.typeOf (nprev.headD 0), nprev)] else []) := by
      simp only [psAcc, hpos, true_and, hb0, hsl]
      split <;> simp
    rw [scPos_cons, psLoop, uLoop]
    simp only [hb1, hacc, List.map_cons, psSpecV]
    by_cases hv : c.isVideo (c.typeOf (m.headD 0)) = true
    · rw [if_pos hv, if_pos hv]; simp
    · rw [if_neg hv, if_neg hv]
      have := ih (UnitsOK_tail h) (pre0 ++ nprev ++ startCode k) m
        (acc ++ (if isPS (c.typeOf (nprev.headD 0)) = true then [(c.typeOf (nprev.headD 0), nprev)] else []))
        hs2 hmne hml (by rw [hl2]; omega)
      rw [hl2, he] at this
      rw [he]
      unfold psLoop at this
      rw [this]
      simp only [List.append_assoc]

/- (C4) ORIGINAL STATEMENT — FALSE for arbitrary `c`, `isPS` (a type that is both a parameter set and video):

theorem paramSetsFromByteStream_annexB (c : Codec) (isPS : Nat → Bool) (units : List (Nat × Bytes))
    (h : UnitsOK units) :
    paramSetsFromByteStream c isPS (annexB units) = psSpecU c isPS units

counterexample: c = ⟨id, fun _ => true⟩, isPS = fun _ => true, units = [(3, [1])]:
  paramSetsFromByteStream … = []  but  psSpecU … = [(1, [1])]   (see `paramSetsFromByteStream_annexB_false`).
The Go loop tests "video" before keeping a unit, `psSpec` tests `isPS` first. -/

theorem paramSetsFromByteStream_annexB_false :
    ¬ ∀ (c : Codec) (isPS : Nat → Bool) (units : List (Nat × Bytes)), UnitsOK units →
      paramSetsFromByteStream c isPS (annexB units) = psSpecU c isPS units := by
  intro hall
  have hok : UnitsOK [(3, [1])] := by
    intro u hu
    simp only [List.mem_singleton] at hu
    subst hu
    simp [WFNalu, IsBytes, EmulationFree]
  have := hall ⟨fun h => h, fun _ => true⟩ (fun _ => true) [(3, [1])] hok
  revert this
  decide

/-- (C4), general form: `GetParameterSetsFromByteStream` against the video-first specification -/
theorem paramSetsFromByteStream_annexB_general (c : Codec) (isPS : Nat → Bool) (units : List (Nat × Bytes))
    (h : UnitsOK units) :
    paramSetsFromByteStream c isPS (annexB units) = psSpecV c isPS (units.map (·.2)) := by
  unfold paramSetsFromByteStream
  rw [ps_go_eq c isPS _ _ 0 0 [] (by omega), scPositions_annexB units h]
  cases units with
  | nil => simp [scPos_nil, psLoop, uLoop, psSpecV]
  | cons u rest =>
    obtain ⟨k, m⟩ := u
    obtain ⟨hk, hmne, _, hef, hml⟩ := h (k, m) (by simp)
    simp only at hk hmne hef hml
    generalize hs : annexB ((k, m) :: rest) = s
    obtain ⟨hb, hlt, he, hs2, hl2⟩ := first_facts s m k rest hs.symm hk hmne
    have hacc : psAcc c isPS s [] 0 (0 + k - 3) = [] := by simp [psAcc]
    rw [scPos_cons, psLoop, uLoop]
    simp only [Nat.zero_add, hb, List.map_cons, psSpecV] at hacc ⊢
    rw [hacc]
    by_cases hv : c.isVideo (c.typeOf (m.headD 0)) = true
    · rw [if_pos hv, if_pos hv]
    · rw [if_neg hv, if_neg hv]
      have := ps_units c isPS s rest (UnitsOK_tail h) (startCode k) m [] hs2 hmne hml (by rw [hl2]; omega)
      rw [hl2] at this
      unfold psLoop at this
      rw [he, this]
      simp

/-- (C4) as stated, under the hypothesis that no parameter-set type is a video type
    (true for avc/`avcIsPS` and hevc/`hevcIsPS`, instantiated below) -/
theorem paramSetsFromByteStream_annexB_partial (c : Codec) (isPS : Nat → Bool)
    (hd : ∀ t, isPS t = true → c.isVideo t = false) (units : List (Nat × Bytes)) (h : UnitsOK units) :
    paramSetsFromByteStream c isPS (annexB units) = psSpecU c isPS units := by
  rw [paramSetsFromByteStream_annexB_general c isPS units h, psSpecV_eq_psSpec c isPS hd]; rfl

theorem paramSetsFromByteStream_annexB_avc (units : List (Nat × Bytes)) (h : UnitsOK units) :
    paramSetsFromByteStream avc avcIsPS (annexB units) = psSpecU avc avcIsPS units :=
  paramSetsFromByteStream_annexB_partial avc avcIsPS
    (by intro t ht; simp [avc, avcIsPS] at *; omega) units h

theorem paramSetsFromByteStream_annexB_hevc (units : List (Nat × Bytes)) (h : UnitsOK units) :
    paramSetsFromByteStream hevc hevcIsPS (annexB units) = psSpecU hevc hevcIsPS units :=
  paramSetsFromByteStream_annexB_partial hevc hevcIsPS
    (by intro t ht; simp [hevc, hevcIsPS] at *; omega) units h

/-- units of type `t`; with `stop`, only those before the first video unit -/
def ofTypeSpec (c : Codec) (t : Nat) (stop : Bool) : List Bytes → List Bytes
  | [] => []
  | n :: rest =>
    let ty := c.typeOf (n.headD 0)
    if stop ∧ c.isVideo ty then []
    else if ty = t then n :: ofTypeSpec c t stop rest else ofTypeSpec c t stop rest

/-! ### (C5) helpers -/

def eotAcc (c : Codec) (s : Bytes) (t : Nat) (acc : List Bytes) (cur i : Nat) : List Bytes :=
  if cur > 0 ∧ c.typeOf (byteAt s cur) = t then acc ++ [slice s cur (trimEnd s cur i)] else acc

def eotLoop (c : Codec) (s : Bytes) (t : Nat) (stop : Bool) : List Bytes → Nat → List Nat → List Bytes :=
  uLoop (fun _ _ i => decide (i + 3 < s.length ∧ stop = true ∧ c.isVideo (c.typeOf (byteAt s (i + 3))) = true))
    (eotAcc c s t) (eotAcc c s t)
    (fun acc cur => if cur = 0 then [] else if c.typeOf (byteAt s cur) = t then acc ++ [slice s cur s.length] else acc)

theorem eot_go_eq (c : Codec) (s : Bytes) (t : Nat) (stop : Bool) :
    ∀ (fuel i cur : Nat) (acc : List Bytes), s.length - 3 - i + 1 ≤ fuel →
    extractOfType.go c s t stop fuel i cur acc = eotLoop c s t stop acc cur (scPositions s i) := by
  intro fuel
  induction fuel with
  | zero => intro i cur acc h; omega
  | succ f ih =>
    intro i cur acc h
    rw [extractOfType.go, scPositions_step]
    by_cases hb : i < s.length - 3
    · simp only [hb, if_true]
      cases hi : isSC s i
      · simp only [Bool.false_eq_true, if_false]
        exact ih _ _ _ (by omega)
      · simp only [if_true, eotLoop, uLoop, decide_eq_true_eq]
        rw [ih _ _ _ (by omega)]
        rfl
    · simp only [hb, if_false, eotLoop, uLoop]

theorem eot_units (c : Codec) (s : Bytes) (t : Nat) (stop : Bool) : ∀ (rest : List (Nat × Bytes)), UnitsOK rest →
    ∀ (pre0 nprev : Bytes) (acc : List Bytes), s = pre0 ++ (nprev ++ annexB rest) → nprev ≠ [] →
    nprev.getLast? ≠ some 0 → pre0.length > 0 →
    eotLoop c s t stop acc pre0.length (scPos (pre0.length + nprev.length) rest) =
      acc ++ (if c.typeOf (nprev.headD 0) = t then [nprev] else []) ++ ofTypeSpec c t stop (rest.map (·.2)) := by
  intro rest
  induction rest with
  | nil =>
    intro _ pre0 nprev acc hs hne hl hpos
    simp only [annexB, List.append_nil] at hs
    have hb : byteAt s pre0.length = nprev.headD 0 := by
      have := byteAt_append_right pre0 nprev 0
      simp only [Nat.add_zero] at this
      have h2 := headD_byteAt nprev [] hne
      simp only [List.append_nil] at h2
      rw [hs, this, h2]
    have hp : pre0.length ≠ 0 := by omega
    simp only [scPos_nil, eotLoop, uLoop, hp, if_false, hb, slice_end s pre0 nprev hs, List.map_nil, ofTypeSpec,
      List.append_nil]
    split <;> simp
  | cons u rest ih =>
    intro h pre0 nprev acc hs hne hl hpos
    obtain ⟨k, m⟩ := u
    obtain ⟨hk, hmne, _, hef, hml⟩ := h (k, m) (by simp)
    simp only at hk hmne hef hml
    obtain ⟨hsl, hb0, hb1, hlt, hs2, hl2, he⟩ := unit_facts s pre0 nprev m k rest hs hk hne hl hmne
    have hacc : eotAcc c s t acc pre0.length (pre0.length + nprev.length + k - 3) =
        acc ++ (if c.typeOf (nprev.headD 0) = t then [nprev] else []) := by
      simp only [eotAcc, hpos, true_and, hb0, hsl]
      split <;> simp
    rw [scPos_cons, eotLoop, uLoop]
    simp only [hlt, true_and, hb1, hacc, List.map_cons, ofTypeSpec]
    by_cases hv : stop = true ∧ c.isVideo (c.typeOf (m.headD 0)) = true
    · rw [decide_eq_true hv, if_pos rfl, if_pos hv]; simp
    · simp only [hv, decide_false, Bool.false_eq_true, if_false]
      have := ih (UnitsOK_tail h) (pre0 ++ nprev ++ startCode k) m
        (acc ++ (if c.typeOf (nprev.headD 0) = t then [nprev] else [])) hs2 hmne hml (by rw [hl2]; omega)
      rw [hl2, he] at this
      rw [he]
      unfold eotLoop at this
      rw [this]
      by_cases h1 : c.typeOf (nprev.headD 0) = t <;> by_cases h2 : c.typeOf (m.headD 0) = t <;>
        simp only [h1, h2, if_true, if_false] <;> simp

/-- (C5) `ExtractNalusOfTypeFromByteStream` -/
theorem extractOfType_annexB (c : Codec) (t : Nat) (stop : Bool) (units : List (Nat × Bytes))
    (h : UnitsOK units) :
    extractOfType c (annexB units) t stop = ofTypeSpec c t stop (units.map (·.2)) := by
  unfold extractOfType
  rw [eot_go_eq c _ t stop _ 0 0 [] (by omega), scPositions_annexB units h]
  cases units with
  | nil => simp [scPos_nil, eotLoop, uLoop, ofTypeSpec]
  | cons u rest =>
    obtain ⟨k, m⟩ := u
    obtain ⟨hk, hmne, _, hef, hml⟩ := h (k, m) (by simp)
    simp only at hk hmne hef hml
    generalize hs : annexB ((k, m) :: rest) = s
    obtain ⟨hb, hlt, he, hs2, hl2⟩ := first_facts s m k rest hs.symm hk hmne
    have hacc : eotAcc c s t [] 0 (0 + k - 3) = [] := by simp [eotAcc]
    rw [scPos_cons, eotLoop, uLoop]
    simp only [Nat.zero_add, hlt, hb, true_and, List.map_cons, ofTypeSpec] at hacc ⊢
    rw [hacc]
    by_cases hv : stop = true ∧ c.isVideo (c.typeOf (m.headD 0)) = true
    · rw [decide_eq_true hv, if_pos rfl, if_pos hv]
    · simp only [hv, decide_false, Bool.false_eq_true, if_false]
      have := eot_units c s t stop rest (UnitsOK_tail h) (startCode k) m [] hs2 hmne hml (by rw [hl2]; omega)
      rw [hl2] at this
      unfold eotLoop at this
      rw [he, this]
      by_cases h2 : c.typeOf (m.headD 0) = t <;> simp only [h2, if_true, if_false] <;> simp

/-! ### (C6) helpers -/

theorem fvn_go_eq (c : Codec) (s : Bytes) : ∀ (fuel i cur : Nat), s.length - 3 - i + 1 ≤ fuel →
    firstVideoNalu.go c s fuel i cur =
      uLoop (σ := Unit) (fun _ cur _ => decide (cur > 0 ∧ c.isVideo (c.typeOf (byteAt s cur)) = true))
        (fun _ cur i => some (slice s cur (trimEnd s cur i))) (fun _ _ _ => ())
        (fun _ cur => if cur > 0 ∧ c.isVideo (c.typeOf (byteAt s cur)) = true then some (slice s cur s.length) else none)
        () cur (scPositions s i) := by
  intro fuel
  induction fuel with
  | zero => intro i cur h; omega
  | succ f ih =>
    intro i cur h
    rw [firstVideoNalu.go, scPositions_step]
    by_cases hb : i < s.length - 3
    · simp only [hb, if_true]
      cases hi : isSC s i
      · simp only [Bool.false_eq_true, if_false]
        exact ih _ _ (by omega)
      · simp only [if_true, uLoop, decide_eq_true_eq]
        rw [ih _ _ (by omega)]
    · simp only [hb, if_false, uLoop]

theorem fvn_units (c : Codec) (s : Bytes) : ∀ (rest : List (Nat × Bytes)), UnitsOK rest →
    ∀ (pre0 nprev : Bytes), s = pre0 ++ (nprev ++ annexB rest) → nprev ≠ [] → nprev.getLast? ≠ some 0 →
    pre0.length > 0 →
    uLoop (σ := Unit) (fun _ cur _ => decide (cur > 0 ∧ c.isVideo (c.typeOf (byteAt s cur)) = true))
        (fun _ cur i => some (slice s cur (trimEnd s cur i))) (fun _ _ _ => ())
        (fun _ cur => if cur > 0 ∧ c.isVideo (c.typeOf (byteAt s cur)) = true then some (slice s cur s.length) else none)
        () pre0.length (scPos (pre0.length + nprev.length) rest) =
      (nprev :: rest.map (·.2)).find? (fun n => c.isVideo (c.typeOf (n.headD 0))) := by
  intro rest
  induction rest with
  | nil =>
    intro _ pre0 nprev hs hne hl hpos
    simp only [annexB, List.append_nil] at hs
    have hb : byteAt s pre0.length = nprev.headD 0 := by
      have := byteAt_append_right pre0 nprev 0
      simp only [Nat.add_zero] at this
      have h2 := headD_byteAt nprev [] hne
      simp only [List.append_nil] at h2
      rw [hs, this, h2]
    simp only [scPos_nil, uLoop, hpos, true_and, hb, slice_end s pre0 nprev hs, List.map_nil, List.find?]
    cases c.isVideo (c.typeOf (nprev.headD 0)) <;> simp
  | cons u rest ih =>
    intro h pre0 nprev hs hne hl hpos
    obtain ⟨k, m⟩ := u
    obtain ⟨hk, hmne, _, hef, hml⟩ := h (k, m) (by simp)
    simp only at hk hmne hef hml
    obtain ⟨hsl, hb0, hb1, hlt, hs2, hl2, he⟩ := unit_facts s pre0 nprev m k rest hs hk hne hl hmne
    rw [scPos_cons, uLoop]
    simp only [hpos, true_and, hb0, hsl, List.map_cons, List.find?]
    cases hv : c.isVideo (c.typeOf (nprev.headD 0))
    · simp only [decide_false, Bool.false_eq_true, if_false]
      have := ih (UnitsOK_tail h) (pre0 ++ nprev ++ startCode k) m hs2 hmne hml (by rw [hl2]; omega)
      rw [hl2, he] at this
      rw [he, this]
      simp [List.find?]
    · simp

/-- (C6) `GetFirstAVCVideoNALUFromByteStream` -/
theorem firstVideoNalu_annexB (c : Codec) (units : List (Nat × Bytes)) (h : UnitsOK units) :
    firstVideoNalu c (annexB units) = (units.map (·.2)).find? (fun n => c.isVideo (c.typeOf (n.headD 0))) := by
  unfold firstVideoNalu
  rw [fvn_go_eq c _ _ 0 0 (by omega), scPositions_annexB units h]
  cases units with
  | nil => simp [scPos_nil, uLoop]
  | cons u rest =>
    obtain ⟨k, m⟩ := u
    obtain ⟨hk, hmne, _, hef, hml⟩ := h (k, m) (by simp)
    simp only at hk hmne hef hml
    generalize hs : annexB ((k, m) :: rest) = s
    obtain ⟨hb, hlt, he, hs2, hl2⟩ := first_facts s m k rest hs.symm hk hmne
    rw [scPos_cons, uLoop]
    simp only [Nat.lt_irrefl, false_and, decide_false, Bool.false_eq_true, if_false, Nat.zero_add, gt_iff_lt]
    have := fvn_units c s rest (UnitsOK_tail h) (startCode k) m hs2 hmne hml (by rw [hl2]; omega)
    rw [hl2] at this
    simp only [gt_iff_lt] at this
    rw [he, this]
    simp

end Mp4ff.Nalu

