import Mp4ff.Lemmas.BitsBasic
namespace Mp4ff.Bits

/-- the drain loop hands out whole bytes and keeps the bit string unchanged -/
theorem BW.drain_spec (v : Nat) : ∀ (n : Nat) (out : Bytes),
    ∃ bs, BW.drain v n out = (n % 8, out ++ bs) ∧ IsBytes bs ∧
      bitsOfBytes bs ++ lowBits (n % 8) v = lowBits n v := by
  intro n
  induction n using Nat.strongRecOn with
  | _ n ih =>
    intro out
    unfold BW.drain
    by_cases h : n ≥ 8
    · simp only [h, dite_true]
      obtain ⟨bs, h1, h2, h3⟩ := ih (n - 8) (by omega) (out ++ [(v >>> (n - 8)) &&& mask 8])
      refine ⟨((v >>> (n - 8)) &&& mask 8) :: bs, ?_, ?_, ?_⟩
      · rw [h1]; simp; omega
      · intro b hb
        simp only [List.mem_cons] at hb
        rcases hb with hb | hb
        · subst hb; exact and_mask_lt _ 8
        · exact h2 b hb
      · have hmod : n % 8 = (n - 8) % 8 := by omega
        simp only [bitsOfBytes, List.append_assoc]
        rw [hmod, h3, lowBits_and_mask (Nat.le_refl 8)]
        have : n = 8 + (n - 8) := by omega
        conv => rhs; rw [this]
        exact (lowBits_append 8 (n - 8) v).symm
    · simp only [h, dite_false]
      refine ⟨[], ?_, ?_, ?_⟩
      · have : n % 8 = n := Nat.mod_eq_of_lt (by omega)
        simp [this]
      · intro b hb; simp at hb
      · have : n % 8 = n := Nat.mod_eq_of_lt (by omega)
        simp [bitsOfBytes, this]

/-- the accumulator update `v<<=k; v |= bits & Mask(k)` appends the field's bits -/
theorem acc_update {n v k bits : Nat} (hv : v < 256) (hk : k ≤ 56) :
    lowBits (n + k) (((v <<< k) % W64) ||| (bits &&& mask k)) = lowBits n v ++ lowBits k bits := by
  have hno : (v <<< k) % W64 = v <<< k := by
    apply Nat.mod_eq_of_lt
    rw [Nat.shiftLeft_eq]
    have h1 : v * 2 ^ k < 256 * 2 ^ k := Nat.mul_lt_mul_of_pos_right hv (Nat.two_pow_pos k)
    have h2 : 256 * 2 ^ k ≤ 2 ^ 8 * 2 ^ 56 := Nat.mul_le_mul (by decide) (Nat.pow_le_pow_right (by decide) hk)
    have : (2:Nat) ^ 8 * 2 ^ 56 = W64 := by unfold W64; decide
    omega
  rw [hno, lowBits_append]
  congr 1
  · apply lowBits_congr
    intro i _
    rw [Nat.testBit_shiftRight, Nat.testBit_or, Nat.testBit_shiftLeft, Nat.testBit_and, testBit_mask]
    have h1 : k + i ≥ k := by omega
    have h2 : ¬ (k + i < k) := by omega
    simp [h1, h2]
  · apply lowBits_congr
    intro i hi
    rw [Nat.testBit_or, Nat.testBit_shiftLeft, Nat.testBit_and, testBit_mask]
    have h1 : ¬ (i ≥ k) := by omega
    simp [h1, hi]

theorem BW.write_spec (w : BW) (bits k : Nat) (hw : w.Inv) (hk : k ≤ 56) :
    (w.write bits k).Inv ∧ (w.write bits k).abs = w.abs ++ lowBits k bits := by
  obtain ⟨hn, hv, ho⟩ := hw
  unfold BW.write
  obtain ⟨bs, hd, hb, hbits⟩ := BW.drain_spec (((w.v <<< k) % W64) ||| (bits &&& mask k)) (w.n + k) w.out
  simp only [hd]
  refine ⟨⟨Nat.mod_lt _ (by decide), and_mask_lt _ 8, ?_⟩, ?_⟩
  · intro b hb'
    simp only [List.mem_append] at hb'
    rcases hb' with h | h
    · exact ho b h
    · exact hb b h
  · simp only [BW.abs, bitsOfBytes_append, List.append_assoc]
    rw [lowBits_and_mask (by have := Nat.mod_lt (w.n + k) (show 8 > 0 by decide); omega), hbits,
      acc_update hv hk]

theorem BW.init_inv : ({} : BW).Inv := by
  refine ⟨by decide, by decide, ?_⟩
  intro b hb; simp at hb

theorem BW.writeAll_spec (ops : List (Nat × Nat)) : ∀ (w : BW), w.Inv → (∀ kv ∈ ops, kv.1 ≤ 56) →
    (w.writeAll ops).Inv ∧ (w.writeAll ops).abs = w.abs ++ fieldBits ops := by
  induction ops with
  | nil => intro w hw _; simp [BW.writeAll, fieldBits, hw]
  | cons kv rest ih =>
    intro w hw hk
    obtain ⟨k, v⟩ := kv
    have h1 := BW.write_spec w v k hw (hk (k, v) (by simp))
    have h2 := ih (w.write v k) h1.1 (fun kv h => hk kv (by simp [h]))
    simp only [BW.writeAll, fieldBits]
    refine ⟨h2.1, ?_⟩
    rw [h2.2, h1.2, List.append_assoc]

/-- `Flush` pads the pending bits with zeros to a whole byte -/
theorem BW.flush_spec (w : BW) (hw : w.Inv) :
    bitsOfBytes w.flush = w.abs ++ List.replicate ((8 - w.n) % 8) false ∧ IsBytes w.flush := by
  obtain ⟨hn, hv, ho⟩ := hw
  unfold BW.flush
  by_cases h0 : w.n = 0
  · simp [h0, BW.abs, lowBits, ho]
  · simp only [h0, ne_eq, not_false_eq_true, if_true]
    have hno : (w.v <<< (8 - w.n)) % W64 = w.v <<< (8 - w.n) := by
      apply Nat.mod_eq_of_lt
      rw [Nat.shiftLeft_eq]
      have h1 : w.v * 2 ^ (8 - w.n) < 256 * 2 ^ (8 - w.n) := Nat.mul_lt_mul_of_pos_right hv (Nat.two_pow_pos _)
      have h2 : 256 * 2 ^ (8 - w.n) ≤ 256 * 2 ^ 8 := Nat.mul_le_mul (Nat.le_refl _) (Nat.pow_le_pow_right (by decide) (by omega))
      unfold W64
      have : (256:Nat) * 2 ^ 8 < 2 ^ 64 := by decide
      omega
    refine ⟨?_, ?_⟩
    · rw [bitsOfBytes_append, BW.abs, List.append_assoc]
      congr 1
      simp only [bitsOfBytes, List.append_nil]
      rw [hno, lowBits_and_mask (Nat.le_refl 8)]
      have hm : (8 - w.n) % 8 = 8 - w.n := Nat.mod_eq_of_lt (by omega)
      rw [hm]
      generalize hmm : 8 - w.n = m
      have h8 : lowBits 8 (w.v <<< m) = lowBits (w.n + m) (w.v <<< m) := by
        congr 1; omega
      rw [h8, lowBits_append]
      congr 1
      · apply lowBits_congr
        intro i _
        rw [Nat.testBit_shiftRight, Nat.testBit_shiftLeft]
        have : m + i ≥ m := by omega
        simp [this]
      · have : ∀ j, j ≤ m → lowBits j (w.v <<< m) = List.replicate j false := by
          intro j
          induction j with
          | zero => intro _; rfl
          | succ j ih =>
            intro hj
            simp only [lowBits, List.replicate_succ]
            rw [ih (by omega), Nat.testBit_shiftLeft]
            have : ¬ (j ≥ m) := by omega
            simp [this]
        exact this m (Nat.le_refl m)
    · intro b hb
      simp only [List.mem_append, List.mem_singleton] at hb
      rcases hb with h | h
      · exact ho b h
      · subst h; exact and_mask_lt _ 8

end Mp4ff.Bits
