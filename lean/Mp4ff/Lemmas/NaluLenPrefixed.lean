import Mp4ff.Model.Nalu
/-! helper lemmas for the length-prefixed walkers (C14 D-theorems) -/
namespace Mp4ff.Nalu

theorem U32_eq : U32 = 4294967296 := by decide

theorem put32_eq (k : Nat) : put32 k = [k / 16777216 % 256, k / 65536 % 256, k / 256 % 256, k % 256] := by
  simp [put32, beBytes]

@[simp] theorem put32_length (k : Nat) : (put32 k).length = 4 := by simp [put32_eq]

theorem byteAt_append_right (pre t : Bytes) (j : Nat) : byteAt (pre ++ t) (pre.length + j) = byteAt t j := by
  simp [byteAt, List.getD_eq_getElem?_getD, List.getElem?_append_right]

theorem be32_at (pre tail : Bytes) (k : Nat) (hk : k < U32) :
    be32 (pre ++ (put32 k ++ tail)) pre.length = k := by
  have h0 := byteAt_append_right pre (put32 k ++ tail) 0
  have h1 := byteAt_append_right pre (put32 k ++ tail) 1
  have h2 := byteAt_append_right pre (put32 k ++ tail) 2
  have h3 := byteAt_append_right pre (put32 k ++ tail) 3
  simp only [Nat.add_zero] at h0
  unfold be32
  rw [h0, h1, h2, h3]
  rw [U32_eq] at hk
  simp [put32_eq, byteAt]
  omega

theorem slice_at (pre n tail : Bytes) :
    slice (pre ++ (n ++ tail)) pre.length (pre.length + n.length) = n := by
  simp [slice]

theorem lenPrefixed_cons (n : Bytes) (rest : List Bytes) :
    lenPrefixed (n :: rest) = put32 n.length ++ (n ++ lenPrefixed rest) := by
  simp [lenPrefixed]

theorem lenPrefixed_length_cons (n : Bytes) (rest : List Bytes) :
    (lenPrefixed (n :: rest)).length = 4 + n.length + (lenPrefixed rest).length := by
  simp [lenPrefixed_cons]; omega


theorem nonempty_len {n : Bytes} (h : n ≠ []) : n.length ≥ 1 := by
  cases n with
  | nil => exact absurd rfl h
  | cons _ _ => simp

theorem length_le_lenPrefixed : ∀ ns : List Bytes, ns.length ≤ (lenPrefixed ns).length
  | [] => by simp
  | n :: rest => by
    have := length_le_lenPrefixed rest
    rw [lenPrefixed_length_cons]; simp; omega

theorem end_facts (s pre : Bytes) (hs : s = pre ++ lenPrefixed []) (_hlt : s.length < U32) :
    ¬ (pre.length + 4 < s.length) ∧ ¬ (pre.length + 4 ≤ s.length) := by
  have hl : s.length = pre.length := by simp [hs, lenPrefixed]
  constructor <;> omega

theorem step_facts (s pre n : Bytes) (rest : List Bytes) (hs : s = pre ++ lenPrefixed (n :: rest))
    (hlt : s.length < U32) (hne : n ≠ []) :
    pre.length + 4 < s.length ∧ pre.length + 4 ≤ s.length ∧
    be32 s pre.length = n.length ∧ ¬ (n.length > s.length - (pre.length + 4)) ∧
    slice s (pre.length + 4) (pre.length + 4 + n.length) = n ∧
    byteAt s (pre.length + 4) = n.headD 0 ∧
    s = (pre ++ put32 n.length ++ n) ++ lenPrefixed rest ∧
    (pre ++ put32 n.length ++ n).length = pre.length + 4 + n.length ∧
    pre.length + 4 + n.length ≤ s.length := by
  have hn := nonempty_len hne
  rw [lenPrefixed_cons] at hs
  have hl : s.length = pre.length + 4 + n.length + (lenPrefixed rest).length := by
    simp [hs]; omega
  have hlt' := hlt
  rw [U32_eq] at hlt'
  refine ⟨?_, ?_, ?_, ?_, ?_, ?_, ?_, ?_, ?_⟩
  · omega
  · omega
  · rw [hs]; exact be32_at _ _ _ (by rw [U32_eq]; omega)
  · omega
  · have := slice_at (pre ++ put32 n.length) n (lenPrefixed rest)
    simp only [List.length_append, put32_length, List.append_assoc] at this
    rw [hs]; exact this
  · have := byteAt_append_right (pre ++ put32 n.length) (n ++ lenPrefixed rest) 0
    simp only [List.length_append, put32_length, List.append_assoc, Nat.add_zero] at this
    rw [hs, this]
    cases n with
    | nil => exact absurd rfl hne
    | cons a t => simp [byteAt]
  · simp [hs]
  · simp; omega
  · omega

theorem nfs_go (s : Bytes) : ∀ (rest : List Bytes) (pre : Bytes) (fuel : Nat) (acc : List Bytes),
    s = pre ++ lenPrefixed rest → s.length < U32 → (∀ n ∈ rest, n ≠ []) → rest.length + 1 ≤ fuel →
    nalusFromSample.go s fuel pre.length acc = some (acc ++ rest) := by
  intro rest
  induction rest with
  | nil =>
    intro pre fuel acc hs hlt _ hf
    obtain ⟨f, rfl⟩ : ∃ f, fuel = f + 1 := ⟨fuel - 1, by omega⟩
    simp [nalusFromSample.go, (end_facts s pre hs hlt).1]
  | cons n rest ih =>
    intro pre fuel acc hs hlt hne hf
    obtain ⟨f, rfl⟩ : ∃ f, fuel = f + 1 := ⟨fuel - 1, by omega⟩
    obtain ⟨hg, _, hbe, hp1, hsl, _, hs', hl', hle⟩ := step_facts s pre n rest hs hlt (hne n (by simp))
    rw [nalusFromSample.go]
    simp only [hg, if_true, hbe, hp1, if_false, hsl]
    have := ih (pre ++ put32 n.length ++ n) f (acc ++ [n]) hs' hlt
      (fun m hm => hne m (by simp [hm])) (by simp at hf; omega)
    rw [hl'] at this
    rw [this]; simp

theorem nt_go_all (c : Codec) (s : Bytes) : ∀ (rest : List Bytes) (pre : Bytes) (fuel : Nat) (acc : List Nat),
    s = pre ++ lenPrefixed rest → s.length < U32 → (∀ n ∈ rest, n ≠ []) → rest.length + 1 ≤ fuel →
    naluTypes.go c false s fuel pre.length acc = acc ++ rest.map (fun n => c.typeOf (n.headD 0)) := by
  intro rest
  induction rest with
  | nil =>
    intro pre fuel acc hs hlt _ hf
    obtain ⟨f, rfl⟩ : ∃ f, fuel = f + 1 := ⟨fuel - 1, by omega⟩
    simp [naluTypes.go, (end_facts s pre hs hlt).1]
  | cons n rest ih =>
    intro pre fuel acc hs hlt hne hf
    obtain ⟨f, rfl⟩ : ∃ f, fuel = f + 1 := ⟨fuel - 1, by omega⟩
    obtain ⟨hg, _, hbe, hp1, hsl, hb, hs', hl', hle⟩ := step_facts s pre n rest hs hlt (hne n (by simp))
    rw [naluTypes.go]
    simp only [hg, if_true, hbe, hp1, hb, Bool.false_eq_true, false_and, if_false]
    have := ih (pre ++ put32 n.length ++ n) f (acc ++ [c.typeOf (n.headD 0)]) hs' hlt
      (fun m hm => hne m (by simp [hm])) (by simp at hf; omega)
    rw [hl'] at this
    rw [this]; simp

theorem ct_go (c : Codec) (t0 : Nat) (s : Bytes) : ∀ (rest : List Bytes) (pre : Bytes) (fuel : Nat),
    s = pre ++ lenPrefixed rest → s.length < U32 → (∀ n ∈ rest, n ≠ []) → rest.length + 1 ≤ fuel →
    containsType.go c s t0 fuel pre.length = (rest.map (fun n => c.typeOf (n.headD 0))).contains t0 := by
  intro rest
  induction rest with
  | nil =>
    intro pre fuel hs hlt _ hf
    obtain ⟨f, rfl⟩ : ∃ f, fuel = f + 1 := ⟨fuel - 1, by omega⟩
    simp [containsType.go, (end_facts s pre hs hlt).1]
  | cons n rest ih =>
    intro pre fuel hs hlt hne hf
    obtain ⟨f, rfl⟩ : ∃ f, fuel = f + 1 := ⟨fuel - 1, by omega⟩
    obtain ⟨hg, _, hbe, hp1, hsl, hb, hs', hl', hle⟩ := step_facts s pre n rest hs hlt (hne n (by simp))
    rw [containsType.go]
    simp only [hg, if_true, hbe, hp1, if_false, hb]
    have := ih (pre ++ put32 n.length ++ n) f hs' hlt
      (fun m hm => hne m (by simp [hm])) (by simp at hf; omega)
    rw [hl'] at this
    rw [this]
    by_cases hv : c.typeOf (n.headD 0) = t0
    · simp only [hv, if_true, List.map_cons, List.contains_cons, beq_self_eq_true, Bool.true_or]
    · have hv' : (t0 == c.typeOf (n.headD 0)) = false := beq_eq_false_iff_ne.mpr (fun h => hv h.symm)
      simp only [hv, if_false, List.map_cons, List.contains_cons, hv', Bool.false_or]

theorem tbs_go : ∀ (rest : List Bytes) (pre : Bytes) (fuel : Nat),
    (pre ++ lenPrefixed rest).length < U32 → (∀ n ∈ rest, n ≠ []) → rest.length + 1 ≤ fuel →
    toByteStream fuel (pre ++ lenPrefixed rest) pre.length = pre ++ annexB (rest.map fun n => (4, n)) := by
  intro rest
  induction rest with
  | nil =>
    intro pre fuel hlt _ hf
    obtain ⟨f, rfl⟩ : ∃ f, fuel = f + 1 := ⟨fuel - 1, by omega⟩
    have h := (end_facts _ pre rfl hlt).2
    rw [toByteStream]
    simp only [h, if_false]
    simp [lenPrefixed, annexB]
  | cons n rest ih =>
    intro pre fuel hlt hne hf
    obtain ⟨f, rfl⟩ : ∃ f, fuel = f + 1 := ⟨fuel - 1, by omega⟩
    obtain ⟨_, hg, hbe, hp1, hsl, hb, hs', hl', hle⟩ := step_facts _ pre n rest rfl hlt (hne n (by simp))
    rw [toByteStream]
    simp only [hg, if_true, hbe, hp1, if_false]
    have hpatch : patch4 (pre ++ lenPrefixed (n :: rest)) pre.length [0, 0, 0, 1]
        = (pre ++ [0, 0, 0, 1] ++ n) ++ lenPrefixed rest := by
      simp [patch4, lenPrefixed_cons, put32_eq]
    rw [hpatch]
    have := ih (pre ++ [0, 0, 0, 1] ++ n) f (by
        have : (pre ++ [0, 0, 0, 1] ++ n ++ lenPrefixed rest).length = (pre ++ lenPrefixed (n :: rest)).length := by
          simp [lenPrefixed_cons]; omega
        rw [this]; exact hlt)
      (fun m hm => hne m (by simp [hm])) (by simp at hf; omega)
    have hl2 : (pre ++ [0, 0, 0, 1] ++ n).length = pre.length + 4 + n.length := by simp; omega
    rw [hl2] at this
    rw [this]
    simp [annexB, startCode]


end Mp4ff.Nalu
