import Mp4ff.Model.AvcSlice
import Mp4ff.Lemmas.C15b
/-!
C15/C16, second part: the AVC slice header instances (round trip incl. the reported header size, totality).
-/
namespace Mp4ff.AvcSlice
open Mp4ff.BitSyn Mp4ff.Bits Mp4ff.HevcSps

theorem depthL_slice (sm : List SpsInfo) (pm : List PpsInfo) (cap : Nat) :
    depthL (slice sm pm cap) ≤ 3 * cap + 200 := by
  simp only [slice, modLoop, mmcoLoop, predWeightList, depthL_varFld, depthL, bodyDepth, repCount,
    Bool.false_eq_true, if_false, if_true]
  omega

/-- **the AVC slice header parser terminates on every byte string** (C16), whatever the parameter-set maps: the
    three `for { … }` loops (ref_pic_list_modification ×2, dec_ref_pic_marking) end with their end code or with the input -/
theorem slice_total (sm : List SpsInfo) (pm : List PpsInfo) (nalu : Bytes) (f : Nat)
    (hf : 3 * capOf nalu + 200 ≤ f) : parseSlice f sm pm nalu ≠ .fuel := by
  obtain ⟨t, e, hp, _⟩ := parse_total_depth f (slice sm pm (capOf nalu)) [] { rest := nalu }
    (by have := depthL_slice sm pm (capOf nalu); omega)
  unfold parseSlice
  simp only [hp]
  cases stopped t <;> cases e.err <;> simp

/-- the driver fuel `AvcSlice.fuel` is always enough -/
theorem slice_total_driver (sm : List SpsInfo) (pm : List PpsInfo) (nalu : Bytes) :
    parseSlice (fuel nalu) sm pm nalu ≠ .fuel :=
  slice_total sm pm nalu (fuel nalu) (by simp only [capOf, fuel]; omega)

/-- **AVC slice header round trip on the bit level** (C15): whatever follows the header in the NAL unit (`tail`: the
    slice data), reading the bits an independent serialiser wrote for a valid value assignment of the header syntax —
    the PPS resolved through the slice's pps id, the SPS through that PPS's sps id — gives back exactly those values,
    without error, and leaves the reader exactly at the first bit behind the header -/
theorem slice_roundtrip_bits (f : Nat) (sm : List SpsInfo) (pm : List PpsInfo) (cap : Nat) (tr : Trace)
    (os : List Op) (e : ER) (P : Bytes) (tail : List Bool)
    (hops : ops f (slice sm pm cap) [] tr = some (os, tr, [])) (hst : stopped tr = false) (hok : ∀ op ∈ os, op.OK)
    (he : e.Inv P) (habs : e.abs P = opsBits os ++ tail) :
    ∃ e' P', parse f (slice sm pm cap) [] e = some (tr, e') ∧ e'.Inv P' ∧ e'.abs P' = tail ∧ e'.err = false ∧
      e'.nread + e'.rest.length = e.nread + e.rest.length := by
  obtain ⟨e', P', h1, h2, h3, h4⟩ := parse_ops f (slice sm pm cap) [] tr os tr [] e P tail hops hst hok he habs
  exact ⟨e', P', h1, h2, h3, h2.2.2.2.1, h4⟩

/-- **AVC slice header round trip, NAL unit level**: a slice NAL unit consisting of the header and the trailing bits
    parses to the coded values, and the reported header size counts bytes of the unit (it cannot exceed its length) -/
theorem slice_roundtrip (f : Nat) (sm : List SpsInfo) (pm : List PpsInfo) (tr : Trace) (nalu : Bytes)
    (h : TraceOK f (slice sm pm (capOf nalu)) tr)
    (hs : serialize f (slice sm pm (capOf nalu)) tr = some nalu) :
    ∃ size, parseSlice f sm pm nalu = .ok tr size ∧ size ≤ nalu.length := by
  obtain ⟨nalu', e, h1, h2, h3, h4⟩ := serialize_parse f _ tr h
  rw [hs] at h1
  cases h1
  refine ⟨e.nread, ?_, by omega⟩
  unfold parseSlice
  unfold parseNalu at h2
  simp only [h2, h.2, h3, Bool.false_eq_true, if_false, ER.nrBytesRead]

end Mp4ff.AvcSlice
