import Mp4ff.Model.Segmenter
/-!
C11: the resegmenter loop (after the repair: the boundary test does not fire for the first sample): proofs.
-/
namespace Mp4ff.Segmenter

theorem rfold_flatten (chunkDur : Nat) (samples : List Sample) : ∀ st : RSt,
    ((samples.foldl (rstep chunkDur) st).done ++ [(samples.foldl (rstep chunkDur) st).cur]).flatten
      = (st.done ++ [st.cur]).flatten ++ samples := by
  induction samples with
  | nil => intro st; simp
  | cons s ss ih =>
    intro st
    simp only [List.foldl_cons]
    rw [ih (rstep chunkDur st s)]
    simp only [rstep]
    split <;> simp

def SyncStart (g : List Sample) : Prop := ∃ s rest, g = s :: rest ∧ s.sync = true

/-- loop invariant of the resegmenter -/
structure RInv (st : RSt) : Prop where
  init : st.first = true → st.done = [] ∧ st.cur = []
  curNe : st.first = false → st.cur ≠ []
  doneNe : ∀ g ∈ st.done, g ≠ []
  tailSync : ∀ g ∈ st.done.tail, SyncStart g
  curSync : st.done ≠ [] → SyncStart st.cur

theorem rstep_first (chunkDur : Nat) (st : RSt) (s : Sample) : (rstep chunkDur st s).first = false := by
  simp only [rstep]
  split <;> rfl

theorem rstep_inv (chunkDur : Nat) (st : RSt) (s : Sample) (h : RInv st) : RInv (rstep chunkDur st s) := by
  obtain ⟨h0, hc, hd, h1, h2⟩ := h
  simp only [rstep]
  split
  · rename_i hcond
    have hf : st.first = false := by
      cases hfe : st.first with
      | false => rfl
      | true => exact absurd hfe hcond.1
    refine ⟨by simp, by simp, ?_, ?_, fun _ => ⟨s, [], rfl, hcond.2.2⟩⟩
    · intro g hg
      simp only [List.mem_append, List.mem_singleton] at hg
      rcases hg with hg | rfl
      · exact hd g hg
      · exact hc hf
    · simp only
      intro g hg
      cases hdn : st.done with
      | nil => simp [hdn] at hg
      | cons a l =>
        rw [hdn] at hg h1
        simp only [List.cons_append, List.tail_cons, List.mem_append, List.mem_singleton] at hg h1
        rcases hg with hg | rfl
        · exact h1 g hg
        · exact h2 (by simp [hdn])
  · refine ⟨by simp, by simp, hd, h1, ?_⟩
    simp only
    intro hne
    obtain ⟨a, r, e, hs⟩ := h2 hne
    exact ⟨a, r ++ [s], by simp [e], hs⟩

theorem rfold_inv (chunkDur : Nat) (samples : List Sample) : ∀ st : RSt, RInv st →
    RInv (samples.foldl (rstep chunkDur) st) := by
  induction samples with
  | nil => intro st h; exact h
  | cons s ss ih => intro st h; exact ih _ (rstep_inv chunkDur st s h)

theorem rfold_first (chunkDur : Nat) (samples : List Sample) : ∀ st : RSt, st.first = false →
    (samples.foldl (rstep chunkDur) st).first = false := by
  induction samples with
  | nil => intro st h; exact h
  | cons s ss ih => intro st _; exact ih _ (rstep_first chunkDur st s)

theorem rinv_init (t0 : Nat) : RInv { time := t0 } :=
  ⟨fun _ => ⟨rfl, rfl⟩, fun h => by simp at h, by simp, by simp, by simp⟩

/-- **resegmenting conserves the sample sequence** for every input, every chunk duration, every start time -/
theorem resegment_conserves (chunkDur t0 : Nat) (samples : List Sample) :
    (resegment chunkDur t0 samples).flatten = samples := by
  unfold resegment
  have := rfold_flatten chunkDur samples { time := t0 }
  simpa using this

/-- **every segment after the first starts with a sync sample** -/
theorem resegment_starts_sync (chunkDur t0 : Nat) (samples : List Sample) :
    ∀ g ∈ (resegment chunkDur t0 samples).tail, ∃ s rest, g = s :: rest ∧ s.sync = true := by
  unfold resegment
  have := rfold_inv chunkDur samples { time := t0 } (rinv_init t0)
  obtain ⟨_, _, _, h1, h2⟩ := this
  intro g hg
  simp only at hg
  cases hd : (samples.foldl (rstep chunkDur) { time := t0 }).done with
  | nil => simp [hd] at hg
  | cons a l =>
    rw [hd] at hg h1
    simp only [List.cons_append, List.tail_cons, List.mem_append, List.mem_singleton] at hg h1
    rcases hg with hg | rfl
    · exact h1 g hg
    · exact h2 (by simp [hd])

/-- **no empty segment is written** when there is at least one sample (the first segment starts with the first
    sample, whatever its presentation time) -/
theorem resegment_nonempty (chunkDur t0 : Nat) (samples : List Sample) (h : samples ≠ []) :
    ∀ g ∈ resegment chunkDur t0 samples, g ≠ [] := by
  unfold resegment
  have hinv := rfold_inv chunkDur samples { time := t0 } (rinv_init t0)
  have hfirst : (samples.foldl (rstep chunkDur) { time := t0 }).first = false := by
    cases samples with
    | nil => exact absurd rfl h
    | cons s ss =>
      simp only [List.foldl_cons]
      exact rfold_first chunkDur ss _ (rstep_first chunkDur _ s)
  intro g hg
  simp only [List.mem_append, List.mem_singleton] at hg
  rcases hg with hg | rfl
  · exact hinv.doneNe g hg
  · exact hinv.curNe hfirst

end Mp4ff.Segmenter

