import Mp4ff.Lemmas.HasZero
namespace Mp4ff.Nalu

/-- the body of the byte loop -/
def step (s : Bytes) (i : Nat) : Option SC :=
  if isSC s i then some ⟨if i ≥ 1 ∧ byteAt s (i - 1) = 0 then 4 else 3, i + 3⟩ else none

theorem scanFrom_eq (s : Bytes) (i0 : Nat) :
    scanFrom s i0 = (List.range' i0 (s.length - 3 - i0)).filterMap (step s) := rfl

theorem isSC_iff (s : Bytes) (i : Nat) :
    isSC s i = true ↔ byteAt s i = 0 ∧ byteAt s (i + 1) = 0 ∧ byteAt s (i + 2) = 1 := by
  simp [isSC, and_assoc]

/-- one probe covers two byte positions -/
theorem probe_pair (s : Bytes) (p : Nat) :
    (probe s (p + 1)).toList = (step s p).toList ++ (step s (p + 1)).toList := by
  have e1 := isSC_iff s p
  have e2 := isSC_iff s (p + 1)
  unfold probe step
  simp only [Nat.add_sub_cancel, show p + 1 + 1 = p + 2 from rfl, show p + 1 + 2 = p + 3 from rfl,
    show p + 1 - 2 = p - 1 by omega, show p + 1 + 3 = p + 4 from rfl] at *
  by_cases a0 : byteAt s p = 0 <;> by_cases a1 : byteAt s (p + 1) = 0 <;>
    by_cases a2 : byteAt s (p + 2) = 1 <;> by_cases a2' : byteAt s (p + 2) = 0 <;>
    by_cases a3 : byteAt s (p + 3) = 1 <;>
    by_cases c1 : isSC s p = true <;> by_cases c2 : isSC s (p + 1) = true <;>
    simp_all <;> omega


theorem filterMap_toList {α β} (f : α → Option β) (l : List α) :
    l.filterMap f = l.flatMap (fun a => (f a).toList) := by
  induction l with
  | nil => rfl
  | cons a l ih => cases h : f a <;> simp [h, ih]

/-- ungated word step = byte steps over the 8 positions of the word -/
theorem word_ungated (s : Bytes) (i : Nat) :
    [i + 1, i + 3, i + 5, i + 7].filterMap (probe s) = (List.range' i 8).filterMap (step s) := by
  rw [filterMap_toList, filterMap_toList]
  have h1 := probe_pair s i
  have h3 := probe_pair s (i + 2)
  have h5 := probe_pair s (i + 4)
  have h7 := probe_pair s (i + 6)
  simp only [List.range', List.flatMap_cons, List.flatMap_nil, List.append_nil] at *
  rw [h1, h3, h5, h7]
  simp [List.append_assoc]

theorem probe_none (s : Bytes) (j : Nat) (h : byteAt s j ≠ 0) : probe s j = none := by
  unfold probe; rw [if_neg h]

/-- the gate can be dropped -/
theorem word_gated (s : Bytes) (hs : IsBytes s) (i : Nat) :
    (if hasZeroByte (word s i) then [i + 1, i + 3, i + 5, i + 7].filterMap (probe s) else [])
      = (List.range' i 8).filterMap (step s) := by
  rw [← word_ungated]
  split
  · rfl
  · rename_i hg
    have nz : ∀ k, k < 8 → byteAt s (i + k) ≠ 0 := fun k hk hz =>
      hg (hasZeroByte_word s hs i k hk hz)
    simp [probe_none s _ (nz 1 (by omega)), probe_none s _ (nz 3 (by omega)),
      probe_none s _ (nz 5 (by omega)), probe_none s _ (nz 7 (by omega))]

theorem flatMap_words (s : Bytes) (W : Nat) :
    (List.range W).flatMap (fun w => (List.range' (8 * w) 8).filterMap (step s))
      = (List.range' 0 (8 * W)).filterMap (step s) := by
  induction W with
  | zero => rfl
  | succ W ih =>
    rw [List.range_succ, List.flatMap_append, ih]
    have : 8 * (W + 1) = 8 * W + 8 := by omega
    rw [this, ← List.range'_append_1 (s := 0) (m := 8 * W) (n := 8)]
    simp

theorem scanWords_eq (s : Bytes) (hs : IsBytes s) :
    scanWords s = (List.range' 0 (wordLim s)).filterMap (step s) := by
  unfold scanWords
  have e : wordLim s = 8 * (wordLim s / 8) := by unfold wordLim; omega
  conv => rhs; rw [e]
  rw [← flatMap_words]
  congr 1
  funext w
  exact word_gated s hs (8 * w)

theorem scanWord_eq (s : Bytes) (hs : IsBytes s) : scanWord s = scanByte s := by
  unfold scanWord scanByte
  rw [scanWords_eq s hs, scanFrom_eq, scanFrom_eq, ← List.filterMap_append]
  have hL : wordLim s ≤ s.length - 3 := by unfold wordLim; omega
  have := List.range'_append_1 (s := 0) (m := wordLim s) (n := s.length - 3 - wordLim s)
  simp only [Nat.zero_add] at this
  rw [this]
  congr 2
  omega

end Mp4ff.Nalu
