import Mp4ff.Model.Protect
/-!
The trex loop of `DecryptInit` (`Mp4ff.Protect.pairTrexs`): every track info gets the trex box of its own track ID,
whatever the order of the trex boxes in mvex.
-/
namespace Mp4ff.Protect

theorem assignTrex_ids (tid tag : Nat) (l : List (Nat × Option Nat)) :
    (assignTrex tid tag l).map (·.1) = l.map (·.1) := by
  induction l with
  | nil => rfl
  | cons h t ih =>
    obtain ⟨id, x⟩ := h
    simp only [assignTrex]
    split
    · simp
    · simp [ih]

theorem foldl_assign_ids (trexs : List (Nat × Nat)) (acc : List (Nat × Option Nat)) :
    (trexs.foldl (fun acc t => assignTrex t.1 t.2 acc) acc).map (·.1) = acc.map (·.1) := by
  induction trexs generalizing acc with
  | nil => rfl
  | cons t r ih => simp only [List.foldl_cons]; rw [ih, assignTrex_ids]

/-- the loop neither adds, drops nor reorders track infos -/
theorem pairTrexs_ids (ids : List Nat) (trexs : List (Nat × Nat)) : (pairTrexs ids trexs).map (·.1) = ids := by
  unfold pairTrexs
  rw [foldl_assign_ids]
  simp [List.map_map, Function.comp_def]

theorem assignTrex_mem (tid tag : Nat) (l : List (Nat × Option Nat)) (p : Nat × Option Nat)
    (h : p ∈ assignTrex tid tag l) : p ∈ l ∨ p = (tid, some tag) := by
  induction l with
  | nil => simp [assignTrex] at h
  | cons a r ih =>
    obtain ⟨id, x⟩ := a
    simp only [assignTrex] at h
    split at h
    · next e =>
      rcases List.mem_cons.mp h with h | h
      · right; rw [h, e]
      · left; exact List.mem_cons_of_mem _ h
    · rcases List.mem_cons.mp h with h | h
      · left; rw [h]; exact List.mem_cons_self
      · rcases ih h with h | h
        · left; exact List.mem_cons_of_mem _ h
        · right; exact h

theorem foldl_assign_mem (trexs : List (Nat × Nat)) (acc : List (Nat × Option Nat)) (p : Nat × Option Nat)
    (h : p ∈ trexs.foldl (fun acc t => assignTrex t.1 t.2 acc) acc) :
    p ∈ acc ∨ ∃ t ∈ trexs, p = (t.1, some t.2) := by
  induction trexs generalizing acc with
  | nil => left; exact h
  | cons t r ih =>
    simp only [List.foldl_cons] at h
    rcases ih _ h with h | ⟨u, hu, e⟩
    · rcases assignTrex_mem _ _ _ _ h with h | h
      · left; exact h
      · right; exact ⟨t, List.mem_cons_self, h⟩
    · right; exact ⟨u, List.mem_cons_of_mem _ hu, e⟩

/-- **the pairing is by track ID** (any track IDs, any trex boxes, any order): a track info only ever gets a trex box
    that carries its own track ID -/
theorem pairTrexs_byID (ids : List Nat) (trexs : List (Nat × Nat)) (id tag : Nat)
    (h : (id, some tag) ∈ pairTrexs ids trexs) : (id, tag) ∈ trexs := by
  rcases foldl_assign_mem _ _ _ h with h | ⟨t, ht, e⟩
  · simp at h
  · obtain ⟨a, b⟩ := t
    simp only [Prod.mk.injEq, Option.some.injEq] at e
    rw [e.1, e.2]; exact ht

theorem assignTrex_map (tid tag : Nat) (f : Nat → Option Nat) (ids : List Nat) (h : ids.Nodup) :
    assignTrex tid tag (ids.map fun id => (id, f id))
      = ids.map fun id => (id, if id = tid then some tag else f id) := by
  induction ids with
  | nil => rfl
  | cons a r ih =>
    have hn := List.nodup_cons.mp h
    simp only [List.map_cons, assignTrex]
    by_cases ha : a = tid
    · subst ha
      simp only [if_true]
      congr 1
      apply List.map_congr_left
      intro b hb
      have hne : b ≠ a := fun e => hn.1 (e ▸ hb)
      simp [hne]
    · simp only [ha, if_false]
      rw [ih hn.2]

/-- one trex box on a lookup function -/
def updTrex (f : Nat → Option Nat) (t : Nat × Nat) : Nat → Option Nat := fun id => if id = t.1 then some t.2 else f id

theorem foldl_assign_map (trexs : List (Nat × Nat)) (f : Nat → Option Nat) (ids : List Nat) (h : ids.Nodup) :
    trexs.foldl (fun acc t => assignTrex t.1 t.2 acc) (ids.map fun id => (id, f id))
      = ids.map fun id => (id, trexs.foldl updTrex f id) := by
  induction trexs generalizing f with
  | nil => rfl
  | cons t r ih =>
    simp only [List.foldl_cons]
    rw [assignTrex_map _ _ _ _ h]
    exact ih (updTrex f t)

theorem foldl_updTrex (trexs : List (Nat × Nat)) (f : Nat → Option Nat) (id : Nat) :
    trexs.foldl updTrex f id = match trexOf trexs id with | some t => some t | none => f id := by
  induction trexs generalizing f with
  | nil => rfl
  | cons t r ih =>
    obtain ⟨tid, tag⟩ := t
    simp only [List.foldl_cons]
    rw [ih]
    simp only [trexOf]
    cases trexOf r id with
    | some t => rfl
    | none =>
      simp only [updTrex]
      by_cases e : id = tid <;> simp [e]

/-- **for distinct track IDs the loop is the lookup by track ID**: each track info gets the (last) trex box with its
    own track ID, or none when mvex has no such box -/
theorem pairTrexs_spec (ids : List Nat) (trexs : List (Nat × Nat)) (h : ids.Nodup) :
    pairTrexs ids trexs = ids.map fun id => (id, trexOf trexs id) := by
  unfold pairTrexs
  rw [foldl_assign_map trexs (fun _ => none) ids h]
  apply List.map_congr_left
  intro id _
  rw [foldl_updTrex]
  cases trexOf trexs id <;> rfl

theorem trexOf_some_mem (trexs : List (Nat × Nat)) (id tag : Nat) (h : trexOf trexs id = some tag) :
    (id, tag) ∈ trexs := by
  induction trexs with
  | nil => simp [trexOf] at h
  | cons t r ih =>
    obtain ⟨a, b⟩ := t
    simp only [trexOf] at h
    cases hr : trexOf r id with
    | some u =>
      rw [hr] at h
      simp only [Option.some.injEq] at h
      subst h
      exact List.mem_cons_of_mem _ (ih hr)
    | none =>
      rw [hr] at h
      by_cases e : id = a
      · simp only [e, if_true, Option.some.injEq] at h
        rw [e, ← h]; exact List.mem_cons_self
      · simp [e] at h

theorem trexOf_none (trexs : List (Nat × Nat)) (id : Nat) :
    trexOf trexs id = none ↔ id ∉ trexs.map (·.1) := by
  induction trexs with
  | nil => simp [trexOf]
  | cons t r ih =>
    obtain ⟨a, b⟩ := t
    have hm : id ∈ ((a, b) :: r).map (·.1) ↔ id = a ∨ id ∈ r.map (·.1) := by
      simp only [List.map_cons, List.mem_cons]
    rw [hm]
    simp only [trexOf]
    cases hr : trexOf r id with
    | some u =>
      have hin : id ∈ r.map (·.1) := Classical.byContradiction fun hn => by rw [ih.mpr hn] at hr; cases hr
      constructor
      · intro h; cases h
      · intro h; exact absurd (Or.inr hin) h
    | none =>
      have hn := ih.mp hr
      by_cases e : id = a
      · constructor
        · intro h; simp [e] at h
        · intro h; exact absurd (Or.inl e) h
      · constructor
        · intro _ h
          rcases h with h | h
          · exact e h
          · exact hn h
        · intro _; simp [e]

theorem trexOf_of_mem (trexs : List (Nat × Nat)) (id tag : Nat) (hn : (trexs.map (·.1)).Nodup)
    (h : (id, tag) ∈ trexs) : trexOf trexs id = some tag := by
  induction trexs with
  | nil => cases h
  | cons t r ih =>
    obtain ⟨a, b⟩ := t
    simp only [List.map_cons] at hn
    have hn' := List.nodup_cons.mp hn
    simp only [trexOf]
    rcases List.mem_cons.mp h with h | h
    · simp only [Prod.mk.injEq] at h
      have : trexOf r id = none := (trexOf_none r id).mpr (by rw [h.1]; exact hn'.1)
      rw [this]; simp [h.1, h.2]
    · rw [ih hn'.2 h]

/-- the lookup does not depend on the order of the trex boxes (one box per track ID) -/
theorem trexOf_perm (trexs trexs' : List (Nat × Nat)) (id : Nat) (hn : (trexs.map (·.1)).Nodup)
    (hp : trexs.Perm trexs') : trexOf trexs id = trexOf trexs' id := by
  have hn' : (trexs'.map (·.1)).Nodup := (hp.map (·.1)).nodup_iff.mp hn
  cases h : trexOf trexs id with
  | none =>
    have h1 := (trexOf_none trexs id).mp h
    have h2 : id ∉ trexs'.map (·.1) := fun hm => h1 ((hp.map (·.1)).mem_iff.mpr hm)
    exact ((trexOf_none trexs' id).mpr h2).symm
  | some tag =>
    have h1 := trexOf_some_mem trexs id tag h
    exact (trexOf_of_mem trexs' id tag hn' (hp.mem_iff.mp h1)).symm

/-- **every permutation of the trex boxes gives the same pairing** (distinct track IDs, one trex box per track ID) -/
theorem pairTrexs_perm (ids : List Nat) (trexs trexs' : List (Nat × Nat)) (h : ids.Nodup)
    (hn : (trexs.map (·.1)).Nodup) (hp : trexs.Perm trexs') : pairTrexs ids trexs = pairTrexs ids trexs' := by
  rw [pairTrexs_spec ids trexs h, pairTrexs_spec ids trexs' h]
  apply List.map_congr_left
  intro id _
  rw [trexOf_perm trexs trexs' id hn hp]

/-- every track whose trex box is in mvex gets exactly that box -/
theorem pairTrexs_complete (ids : List Nat) (trexs : List (Nat × Nat)) (id tag : Nat) (h : ids.Nodup)
    (hn : (trexs.map (·.1)).Nodup) (hid : id ∈ ids) (ht : (id, tag) ∈ trexs) :
    (id, some tag) ∈ pairTrexs ids trexs := by
  rw [pairTrexs_spec ids trexs h]
  exact List.mem_map.mpr ⟨id, hid, by rw [trexOf_of_mem trexs id tag hn ht]⟩

end Mp4ff.Protect
