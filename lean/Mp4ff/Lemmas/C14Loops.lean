import Mp4ff.Lemmas.ScanEq
import Mp4ff.Lemmas.C14Conv
/-! unit-level view of the Annex B index loops (C14 C4..C6): the loops only act at start-code positions -/
namespace Mp4ff.Nalu

/-- positions `i` (of the 00 00 01 window) visited by the loops from index `i0` -/
def scPositions (s : Bytes) (i0 : Nat) : List Nat := (List.range' i0 (s.length - 3 - i0)).filter (isSC s)

theorem scPositions_step (s : Bytes) (i : Nat) :
    scPositions s i = if i < s.length - 3 then
      (if isSC s i then i :: scPositions s (i + 1) else scPositions s (i + 1)) else [] := by
  unfold scPositions
  by_cases h : i < s.length - 3
  · have : s.length - 3 - i = (s.length - 3 - (i + 1)) + 1 := by omega
    rw [this, List.range'_succ, List.filter_cons]
    simp [h]
  · have h1 : s.length - 3 - i = 0 := by omega
    simp [h1, h]

theorem scPositions_eq_scanFrom (s : Bytes) (i0 : Nat) :
    scPositions s i0 = (scanFrom s i0).map (fun sc => sc.pos - 3) := by
  unfold scPositions scanFrom
  rw [List.map_filterMap, ← List.filterMap_eq_filter]
  congr 1
  funext i
  cases h : isSC s i <;> simp [Option.guard, h]

/-- generic unit-level loop: at each start code either exit or update the state -/
def uLoop {σ ρ : Type} (stopP : σ → Nat → Nat → Bool) (exit : σ → Nat → Nat → ρ) (next : σ → Nat → Nat → σ)
    (fin : σ → Nat → ρ) : σ → Nat → List Nat → ρ
  | st, cur, [] => fin st cur
  | st, cur, i :: is => if stopP st cur i then exit st cur i else uLoop stopP exit next fin (next st cur i) (i + 3) is

def scPos (off : Nat) (units : List (Nat × Bytes)) : List Nat := (expectedSCs off units).map (fun sc => sc.pos - 3)

theorem scPos_nil (off : Nat) : scPos off [] = [] := rfl

theorem scPos_cons (off k : Nat) (m : Bytes) (rest : List (Nat × Bytes)) :
    scPos off ((k, m) :: rest) = (off + k - 3) :: scPos (off + k + m.length) rest := by
  simp [scPos, expectedSCs]

theorem scPositions_annexB (units : List (Nat × Bytes)) (h : UnitsOK units) :
    scPositions (annexB units) 0 = scPos 0 units := by
  rw [scPositions_eq_scanFrom]
  have := scanByte_annexB units h
  unfold scanByte at this
  rw [this]; rfl

theorem headD_byteAt (m R : Bytes) (hm : m ≠ []) : byteAt (m ++ R) 0 = m.headD 0 := by
  cases m with
  | nil => exact absurd rfl hm
  | cons a m' => simp [byteAt]

theorem startCode_length (k : Nat) (hk : k = 3 ∨ k = 4) : (startCode k).length = k := by
  rcases hk with rfl | rfl <;> simp [startCode]

/-- facts at the start code that follows unit `nprev` (which starts at `pre0.length`) -/
theorem unit_facts (s pre0 nprev m : Bytes) (k : Nat) (rest : List (Nat × Bytes))
    (hs : s = pre0 ++ (nprev ++ annexB ((k, m) :: rest))) (hk : k = 3 ∨ k = 4)
    (hne : nprev ≠ []) (hl : nprev.getLast? ≠ some 0) (hm : m ≠ []) :
    slice s pre0.length (trimEnd s pre0.length (pre0.length + nprev.length + k - 3)) = nprev ∧
    byteAt s pre0.length = nprev.headD 0 ∧
    byteAt s (pre0.length + nprev.length + k - 3 + 3) = m.headD 0 ∧
    pre0.length + nprev.length + k - 3 + 3 < s.length ∧
    s = (pre0 ++ nprev ++ startCode k) ++ (m ++ annexB rest) ∧
    (pre0 ++ nprev ++ startCode k).length = pre0.length + nprev.length + k - 3 + 3 ∧
    pre0.length + nprev.length + k - 3 + 3 = pre0.length + nprev.length + k := by
  have hmn := nonempty_len hm
  have hs2 : s = (pre0 ++ nprev ++ startCode k) ++ (m ++ annexB rest) := by simp [hs, annexB]
  have hl2 : (pre0 ++ nprev ++ startCode k).length = pre0.length + nprev.length + k - 3 + 3 := by
    simp [startCode_length k hk]; omega
  have hb0 : byteAt s pre0.length = nprev.headD 0 := by
    have := byteAt_append_right pre0 (nprev ++ annexB ((k, m) :: rest)) 0
    simp only [Nat.add_zero] at this
    rw [hs, this, headD_byteAt _ _ hne]
  have hb1 : byteAt s (pre0.length + nprev.length + k - 3 + 3) = m.headD 0 := by
    have := byteAt_append_right (pre0 ++ nprev ++ startCode k) (m ++ annexB rest) 0
    rw [hl2] at this
    simp only [Nat.add_zero] at this
    rw [hs2, this, headD_byteAt _ _ hm]
  have hlen : pre0.length + nprev.length + k - 3 + 3 < s.length := by
    rw [hs2, List.length_append, hl2]; simp; omega
  refine ⟨?_, hb0, hb1, hlen, hs2, hl2, by omega⟩
  rcases hk with rfl | rfl
  · have e : pre0.length + nprev.length + 3 - 3 = pre0.length + nprev.length := by omega
    rw [e, trimEnd_unit s pre0 nprev _ hs hne hl]
    exact slice_mid s pre0 nprev _ hs
  · have e : pre0.length + nprev.length + 4 - 3 = pre0.length + nprev.length + 1 := by omega
    have hs' : s = pre0 ++ (nprev ++ 0 :: ([0, 0, 1] ++ m ++ annexB rest)) := by simp [hs, annexB, startCode]
    rw [e, trimEnd_unit4 s pre0 nprev _ hs' hne hl]
    exact slice_mid s pre0 nprev _ hs

/-- facts at the first start code -/
theorem first_facts (s m : Bytes) (k : Nat) (rest : List (Nat × Bytes))
    (hs : s = annexB ((k, m) :: rest)) (hk : k = 3 ∨ k = 4) (hm : m ≠ []) :
    byteAt s (k - 3 + 3) = m.headD 0 ∧ k - 3 + 3 < s.length ∧ k - 3 + 3 = k ∧
    s = startCode k ++ (m ++ annexB rest) ∧ (startCode k).length = k := by
  have hmn := nonempty_len hm
  have hs2 : s = startCode k ++ (m ++ annexB rest) := by simp [hs, annexB]
  have hl2 := startCode_length k hk
  have e : k - 3 + 3 = k := by omega
  refine ⟨?_, ?_, e, hs2, hl2⟩
  · have := byteAt_append_right (startCode k) (m ++ annexB rest) 0
    rw [hl2] at this
    simp only [Nat.add_zero] at this
    rw [e, hs2, this, headD_byteAt _ _ hm]
  · rw [hs2, List.length_append, hl2]; simp; omega

theorem UnitsOK_tail {u : Nat × Bytes} {rest : List (Nat × Bytes)} (h : UnitsOK (u :: rest)) : UnitsOK rest :=
  fun v hv => h v (by simp [hv])

end Mp4ff.Nalu
