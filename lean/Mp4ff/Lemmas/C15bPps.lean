import Mp4ff.Model.AvcPps
import Mp4ff.Lemmas.C15
import Mp4ff.Lemmas.SeiReader
/-!
C15/C16 for the AVC picture parameter set (`AvcPps.parsePps`): bit-level specifications of the `more_rbsp_data()`
look-ahead and of `rbsp_trailing_bits`, totality of the PPS parser on every byte string with a fuel bound linear in
the input length, and the serialise/parse round trip (with and without the optional tail).
-/
namespace Mp4ff.Sei
open Mp4ff.Bits

/-- `MoreRbspData` on the bit level: the reader is restored; with first bit 0 there is more data, with first bit 1
    there is more data exactly when another 1 bit follows -/
theorem moreRbspData_spec (r : ER) (P : Bytes) (b : Bool) (L : List Bool) (h : r.Inv P) (habs : r.abs P = b :: L) :
    moreRbspData r = (r, if b then L.any id else true) := by
  obtain ⟨P', h1, h2, h3⟩ := read1_cons r P b L h habs
  have herr : (r.read 1).1.err = false := h1.2.2.2.1
  have hs := scanForOne_spec L ((r.read 1).1.bitsLeft + 1) _ P' h1 h2
    (by have := ER.Inv.abs_length_le h1; rw [h2] at this; omega)
  cases b with
  | true => simp only [moreRbspData, herr, h3, if_true, hs]; simp
  | false => simp [moreRbspData, herr, h3]

theorem readTrailing_go_zeros : ∀ (m fuel : Nat) (r : ER) (P : Bytes),
    r.Inv P → r.abs P = List.replicate m false → m + 1 ≤ fuel →
    (readTrailing.go fuel r).2 = .none ∧ (readTrailing.go fuel r).1.err = false := by
  intro m
  induction m with
  | zero =>
    intro fuel r P h habs hf
    obtain ⟨f, rfl⟩ : ∃ f, fuel = f + 1 := ⟨fuel - 1, by omega⟩
    have hlen := congrArg List.length habs
    simp only [ER.abs, List.length_append, lowBits_length, bitsOfBytes_length, List.replicate_zero,
      List.length_nil] at hlen
    have hn : r.n = 0 := by omega
    have hP : P = [] := by
      cases P with
      | nil => rfl
      | cons x xs => simp at hlen
    subst hP
    have := read1_nil r h hn
    simp [readTrailing.go, this]
  | succ m ih =>
    intro fuel r P h habs hf
    obtain ⟨f, rfl⟩ : ∃ f, fuel = f + 1 := ⟨fuel - 1, by omega⟩
    rw [List.replicate_succ] at habs
    obtain ⟨P', h1, h2, h3⟩ := read1_cons r P false _ h habs
    have herr : (r.read 1).1.err = false := h1.2.2.2.1
    have := ih f (r.read 1).1 P' h1 h2 (by omega)
    simp [readTrailing.go, herr, h3, this]

/-- `ReadRbspTrailingBits` on a stop bit followed by zero bits only: no error -/
theorem readTrailing_spec (r : ER) (P : Bytes) (m : Nat) (h : r.Inv P)
    (habs : r.abs P = true :: List.replicate m false) :
    (readTrailing r).2 = .none ∧ (readTrailing r).1.err = false := by
  obtain ⟨P', h1, h2, h3⟩ := read1_cons r P true _ h habs
  have herr : (r.read 1).1.err = false := h1.2.2.2.1
  have herr0 : r.err = false := h.2.2.2.1
  have hg := readTrailing_go_zeros m ((r.read 1).1.bitsLeft + 1) (r.read 1).1 P' h1 h2
    (by have := ER.Inv.abs_length_le h1; rw [h2] at this; simp at this; omega)
  simp only [readTrailing, herr0, herr, h3, if_true]
  simpa using hg

end Mp4ff.Sei

/-! ### a sharper fuel bound: `parse` spends its fuel as recursion *depth*, not as a step count -/
namespace Mp4ff.BitSyn
open Mp4ff.Bits

/-- iterations of a repetition (0 for the other elements) -/
def repCount : Syn → Nat
  | .rep cap _ _ => cap
  | _ => 0

mutual
/-- depth needed inside an element -/
def bodyDepth : Syn → Nat
  | .fld _ _ | .flag _ | .ue _ | .se _ | .seterr _ | .abort _ => 0
  | .cond _ body => depthL body
  | .rep _ _ body => depthL body
/-- recursion depth of `parse` on a syntax -/
def depthL : List Syn → Nat
  | [] => 1
  | s :: rest => 1 + repCount s + max (bodyDepth s) (depthL rest)
end

theorem depthL_pos (L : List Syn) : 1 ≤ depthL L := by
  cases L with
  | nil => simp [depthL]
  | cons s r => simp only [depthL]; omega

/-- **totality with the depth bound**: `depthL L` fuel is enough on every reader state -/
theorem parse_total_depth : ∀ (f : Nat) (L : List Syn) (acc : Trace) (e : ER), depthL L ≤ f →
    ∃ acc' e', parse f L acc e = some (acc', e') ∧ acc'.length ≤ acc.length + maxEntriesL L := by
  intro f
  induction f with
  | zero => intro L acc e h; have := depthL_pos L; omega
  | succ f ih =>
    intro L acc e hf
    cases hs : stopped acc with
    | true => exact ⟨acc, e, parse_stopped _ _ _ _ hs, by omega⟩
    | false =>
    match L with
    | [] => exact ⟨acc, e, rfl, by omega⟩
    | .fld nm k :: rest =>
      simp only [depthL, bodyDepth, repCount, maxEntriesL, maxEntries] at hf ⊢
      obtain ⟨a, e', h1, h2⟩ := ih rest (acc ++ [(nm, ((e.read k).2 : Int))]) (e.read k).1 (by omega)
      exact ⟨a, e', by rw [parse_fld _ _ _ _ _ _ hs]; exact h1, by simp at h2; omega⟩
    | .flag nm :: rest =>
      simp only [depthL, bodyDepth, repCount, maxEntriesL, maxEntries] at hf ⊢
      obtain ⟨a, e', h1, h2⟩ := ih rest (acc ++ [(nm, if e.readFlag.2 then 1 else 0)]) e.readFlag.1 (by omega)
      exact ⟨a, e', by rw [parse_flag _ _ _ _ _ hs]; exact h1, by simp at h2; omega⟩
    | .ue nm :: rest =>
      simp only [depthL, bodyDepth, repCount, maxEntriesL, maxEntries] at hf ⊢
      obtain ⟨a, e', h1, h2⟩ := ih rest (acc ++ [(nm, (e.readExpGolomb.2 : Int))]) e.readExpGolomb.1 (by omega)
      exact ⟨a, e', by rw [parse_ue _ _ _ _ _ hs]; exact h1, by simp at h2; omega⟩
    | .se nm :: rest =>
      simp only [depthL, bodyDepth, repCount, maxEntriesL, maxEntries] at hf ⊢
      obtain ⟨a, e', h1, h2⟩ := ih rest (acc ++ [(nm, e.readSignedGolomb.2)]) e.readSignedGolomb.1 (by omega)
      exact ⟨a, e', by rw [parse_se _ _ _ _ _ hs]; exact h1, by simp at h2; omega⟩
    | .seterr p :: rest =>
      simp only [depthL, bodyDepth, repCount, maxEntriesL, maxEntries] at hf ⊢
      obtain ⟨a, e', h1, h2⟩ := ih rest acc (if p acc then { e with err := true } else e) (by omega)
      exact ⟨a, e', by rw [parse_seterr _ _ _ _ _ hs]; exact h1, by omega⟩
    | .abort p :: rest =>
      simp only [depthL, bodyDepth, repCount, maxEntriesL, maxEntries] at hf ⊢
      cases hp : p acc with
      | true => exact ⟨_, _, parse_abort_true _ _ _ _ _ hs hp, by simp⟩
      | false =>
        obtain ⟨a, e', h1, h2⟩ := ih rest acc e (by omega)
        exact ⟨a, e', by rw [parse_abort_false _ _ _ _ _ hs hp]; exact h1, by omega⟩
    | .cond p body :: rest =>
      simp only [depthL, bodyDepth, repCount, maxEntriesL, maxEntries] at hf ⊢
      cases hp : p acc with
      | false =>
        obtain ⟨a, e', h1, h2⟩ := ih rest acc e (by omega)
        exact ⟨a, e', by rw [parse_cond_false _ _ _ _ _ _ hs hp]; exact h1, by omega⟩
      | true =>
        obtain ⟨a1, e1, b1, b2⟩ := ih body acc e (by omega)
        obtain ⟨a, e', h1, h2⟩ := ih rest a1 e1 (by omega)
        exact ⟨a, e', by rw [parse_cond_true _ _ _ _ _ _ hs hp b1]; exact h1, by omega⟩
    | .rep cap n body :: rest =>
      simp only [depthL, bodyDepth, repCount, maxEntriesL, maxEntries] at hf ⊢
      cases hn : min (n acc) cap with
      | zero =>
        obtain ⟨a, e', h1, h2⟩ := ih rest acc e (by omega)
        exact ⟨a, e', by rw [parse_rep_zero _ _ _ _ _ _ _ hs hn]; exact h1, by omega⟩
      | succ k =>
        have hk : k + 1 ≤ cap := by omega
        have m2 : (k + 1) * maxEntriesL body ≤ cap * maxEntriesL body := Nat.mul_le_mul_right _ hk
        rw [Nat.succ_mul] at m2
        obtain ⟨a1, e1, b1, b2⟩ := ih body acc e (by omega)
        obtain ⟨a, e', h1, h2⟩ := ih (.rep k (fun _ => k) body :: rest) a1 e1 (by
          simp only [depthL, bodyDepth, repCount]; omega)
        simp only [maxEntriesL, maxEntries] at h2
        exact ⟨a, e', by rw [parse_rep_succ _ _ _ _ _ _ _ hs hn b1]; exact h1, by omega⟩

end Mp4ff.BitSyn

namespace Mp4ff.AvcPps
open Mp4ff.BitSyn Mp4ff.Bits

theorem depthL_pre (cap : Nat) : depthL (pre cap) ≤ cap + 23 := by
  simp only [pre, depthL, bodyDepth, repCount]
  omega

theorem depthL_tail (chroma : Option Nat) : depthL (tail chroma) = 87 := by
  simp only [tail, depthL, bodyDepth, repCount]
  decide

end Mp4ff.AvcPps

namespace Mp4ff.AvcPps
open Mp4ff.BitSyn Mp4ff.Bits

theorem fuelNeedL_pre (cap : Nat) : fuelNeedL (pre cap) = 11 * cap + 88 := by
  simp only [pre, fuelNeedL, fuelNeed]
  omega

theorem fuelNeedL_tail (chroma : Option Nat) : fuelNeedL (tail chroma) = 3920 := by
  simp only [tail, fuelNeedL, fuelNeed]

theorem maxEntriesL_pre (cap : Nat) : maxEntriesL (pre cap) = 3 * cap + 44 := by
  simp only [pre, maxEntriesL, maxEntries]
  omega

theorem maxEntriesL_tail (chroma : Option Nat) : maxEntriesL (tail chroma) = 784 := by
  simp only [tail, maxEntriesL, maxEntries]

/-- the outcomes of `parsePps` once the fuel covers the recursion depth: an error or a bounded list of values -/
theorem parsePps_cases (f : Nat) (spsMap : List (Nat × Nat)) (nalu : Bytes) (hf : capOf nalu + 87 ≤ f) :
    parsePps f spsMap nalu = .err ∨
    ∃ t more, parsePps f spsMap nalu = .ok t more ∧ t.length ≤ 3 * capOf nalu + 828 := by
  obtain ⟨t1, e1, hp1, hl1⟩ := parse_total_depth f (pre (capOf nalu)) [] { rest := nalu }
    (by have := depthL_pre (capOf nalu); omega)
  rw [maxEntriesL_pre] at hl1
  simp only [List.length_nil, Nat.zero_add] at hl1
  unfold parsePps
  simp only [hp1]
  cases hst1 : stopped t1 with
  | true => left; simp
  | false =>
    simp only [Bool.false_eq_true, if_false]
    cases hm : (Sei.moreRbspData e1).2 with
    | false =>
      simp only [Bool.false_eq_true, if_false, hst1]
      by_cases hc : (Sei.readTrailing (Sei.moreRbspData e1).1).2 ≠ .none ∨
          (Sei.readTrailing (Sei.moreRbspData e1).1).1.err = true
      · left; simp only [hc, if_true]
      · right; exact ⟨t1, false, by simp only [hc, if_false], by omega⟩
    | true =>
      obtain ⟨t2, e3, hp2, hl2⟩ := parse_total_depth f (tail (lookupChroma spsMap t1)) t1 (Sei.moreRbspData e1).1
        (by rw [depthL_tail]; omega)
      rw [maxEntriesL_tail] at hl2
      simp only [if_true, hp2]
      cases hst2 : stopped t2 with
      | true => left; simp
      | false =>
        simp only [Bool.false_eq_true, if_false]
        by_cases hc : (Sei.readTrailing e3).2 ≠ .none ∨ (Sei.readTrailing e3).1.err = true
        · left; simp only [hc, if_true]
        · right; exact ⟨t2, true, by simp only [hc, if_false], by omega⟩

/-- **PPS totality on every byte string, sharp form** (C16): fuel = number of bits of the NAL unit + a constant -/
theorem pps_total_sharp (spsMap : List (Nat × Nat)) (nalu : Bytes) (f : Nat) (hf : capOf nalu + 87 ≤ f) :
    parsePps f spsMap nalu ≠ .fuel := by
  rcases parsePps_cases f spsMap nalu hf with h | ⟨t, more, h, _⟩ <;> rw [h] <;> simp

/-- **PPS totality on every byte string** (C16): with fuel linear in the input length the parser always returns -/
theorem pps_total (spsMap : List (Nat × Nat)) (nalu : Bytes) (f : Nat) (hf : 11 * capOf nalu + 2000 ≤ f) :
    parsePps f spsMap nalu ≠ .fuel :=
  pps_total_sharp spsMap nalu f (by omega)

/-- the driver fuel `AvcPps.fuel` is always enough -/
theorem pps_total_driver (spsMap : List (Nat × Nat)) (nalu : Bytes) :
    parsePps (fuel nalu) spsMap nalu ≠ .fuel :=
  pps_total_sharp spsMap nalu (fuel nalu) (by simp only [capOf, fuel]; omega)

/-- **bounded output**: the number of values returned is linear in the input length -/
theorem pps_total_length (spsMap : List (Nat × Nat)) (nalu : Bytes) (f : Nat) (hf : capOf nalu + 87 ≤ f) :
    ∀ t more, parsePps f spsMap nalu = .ok t more → t.length ≤ 3 * capOf nalu + 828 := by
  intro t more ht
  rcases parsePps_cases f spsMap nalu hf with h | ⟨t', more', h, hl⟩
  · rw [h] at ht; cases ht
  · rw [h] at ht; cases ht; exact hl

/-! ### round trip -/

/-- the reader at the start of a serialised NAL unit sees the operations' bits, then the stop bit and zero bits -/
theorem init_reader (os : List Op) (hok : ∀ op ∈ os, op.OK) :
    ∃ P m, ({ rest := ((os.foldl EW.writeOp {}).writeRbspTrailingBits).out } : ER).Inv P ∧
      ({ rest := ((os.foldl EW.writeOp {}).writeRbspTrailingBits).out } : ER).abs P =
        opsBits os ++ (true :: List.replicate m false) := by
  have hfold := EW.foldl_writeOp os hok {}
  have hrel0 := EW.writeAll_refines (allFields os) {} {} EWRel.init
  have hrel := EW.trailing_refines _ _ hrel0
  have hbw := BW.writeAll_spec (allFields os) {} BW.init_inv (allFields_ok os hok)
  obtain ⟨t1, t2, m, t3⟩ := BW.trailing_spec _ hbw.1
  have hw : (os.foldl EW.writeOp {}).writeRbspTrailingBits =
      (({} : EW).writeAll (allFields os)).writeRbspTrailingBits := by rw [hfold]
  have hout : ((os.foldl EW.writeOp {}).writeRbspTrailingBits).out =
      esc 0 ((({} : BW).writeAll (allFields os)).trailing.out) := by rw [hw, hrel.2.2.1]
  refine ⟨((({} : BW).writeAll (allFields os)).trailing.out), m, ?_, ?_⟩
  · exact ⟨by simp, by simp, t1.2.2, rfl, by simp, hout⟩
  · show lowBits 0 0 ++ bitsOfBytes _ = _
    have : (({} : BW).writeAll (allFields os)).trailing.abs =
        bitsOfBytes ((({} : BW).writeAll (allFields os)).trailing.out) := by
      simp [BW.abs, t2, lowBits]
    simp only [lowBits, List.nil_append]
    rw [← this, t3, hbw.2, fieldBits_allFields]
    simp [BW.abs, lowBits, bitsOfBytes]

/-- the tail syntax starts with a flag, so its serialisation has at least one bit -/
theorem tail_bits_ne_nil {f : Nat} {chroma : Option Nat} {acc src : Trace} {os a s}
    (h : ops f (tail chroma) acc src = some (os, a, s)) : ∃ b L, opsBits os = b :: L := by
  match f with
  | 0 => simp [ops] at h
  | f + 1 =>
    unfold tail at h
    obtain ⟨v, s0, o, _, _, _, rfl⟩ := ops_flag_inv h
    exact ⟨(if (v == 1) = true then 1 else 0 : Nat).testBit 0, opsBits o, by
      simp only [opsBits, Op.bits, Op.fields, fieldBits, lowBits, List.append_nil, List.cons_append,
        List.nil_append]⟩

theorem any_replicate_false (m : Nat) : (List.replicate m false).any id = false := by
  induction m with
  | zero => rfl
  | succ m ih => simp [List.replicate_succ, ih]

/-- the accumulated trace of a complete serialisation from the empty trace is the source trace -/
theorem ops_acc_eq {f : Nat} {L : List Syn} {acc tr : Trace} {os a}
    (h : ops f L acc tr = some (os, a, [])) : a = acc ++ tr := by
  obtain ⟨used, hu1, hu2⟩ := ops_trace f L acc tr os a [] h
  simp at hu1
  rw [hu2, hu1]

/-- **PPS round trip without the optional tail**: the parser finds no more data after the prefix -/
theorem pps_roundtrip_notail (f : Nat) (spsMap : List (Nat × Nat)) (tr1 : Trace) (nalu : Bytes)
    (h1 : TraceOK f (pre (capOf nalu)) tr1)
    (hs : serializePps f (capOf nalu) (lookupChroma spsMap tr1) tr1 none = some nalu) :
    parsePps f spsMap nalu = .ok tr1 false := by
  obtain ⟨⟨os1, a, hops1, hok1⟩, hst1⟩ := h1
  have ha : a = tr1 := by simpa using ops_acc_eq hops1
  subst ha
  simp only [serializePps, hops1, Option.some.injEq] at hs
  obtain ⟨P, m, hinv, habs⟩ := init_reader os1 hok1
  rw [hs] at hinv habs
  obtain ⟨e1, P1, p1, i1, a1, _⟩ := parse_ops f (pre (capOf nalu)) [] a os1 a [] _ P _ hops1 hst1 hok1 hinv habs
  have hm := Sei.moreRbspData_spec e1 P1 true _ i1 a1
  rw [if_pos rfl, any_replicate_false] at hm
  obtain ⟨ht1, ht2⟩ := Sei.readTrailing_spec e1 P1 m i1 a1
  unfold parsePps
  simp only [p1, hst1, hm, Bool.false_eq_true, if_false, ht1, ht2, ne_eq, not_true_eq_false, or_self]

def TailOK (f : Nat) (chroma : Option Nat) (tr1 tr2 : Trace) : Prop :=
  (∃ os a, ops f (tail chroma) tr1 tr2 = some (os, a, []) ∧ ∀ op ∈ os, op.OK) ∧ stopped (tr1 ++ tr2) = false

/-- **PPS round trip with the tail**: the parser finds more data, reads the tail and the trailing bits -/
theorem pps_roundtrip_tail (f : Nat) (spsMap : List (Nat × Nat)) (tr1 t2 : Trace) (nalu : Bytes)
    (h1 : TraceOK f (pre (capOf nalu)) tr1)
    (h2 : TailOK f (lookupChroma spsMap tr1) tr1 t2)
    (hs : serializePps f (capOf nalu) (lookupChroma spsMap tr1) tr1 (some t2) = some nalu) :
    parsePps f spsMap nalu = .ok (tr1 ++ t2) true := by
  obtain ⟨⟨os1, a, hops1, hok1⟩, hst1⟩ := h1
  have ha : a = tr1 := by simpa using ops_acc_eq hops1
  subst ha
  obtain ⟨⟨os2, a2, hops2, hok2⟩, hst2⟩ := h2
  have ha2 : a2 = a ++ t2 := ops_acc_eq hops2
  subst ha2
  simp only [serializePps, hops1, hops2, Option.some.injEq] at hs
  have hok : ∀ op ∈ os1 ++ os2, op.OK := by
    intro op hop
    rcases List.mem_append.mp hop with h | h
    · exact hok1 op h
    · exact hok2 op h
  obtain ⟨P, m, hinv, habs⟩ := init_reader (os1 ++ os2) hok
  rw [hs] at hinv habs
  rw [opsBits_append, List.append_assoc] at habs
  obtain ⟨e1, P1, p1, i1, a1, _⟩ := parse_ops f (pre (capOf nalu)) [] a os1 a [] _ P _ hops1 hst1 hok1 hinv habs
  obtain ⟨b, L, hb⟩ := tail_bits_ne_nil hops2
  have a1' : e1.abs P1 = b :: (L ++ true :: List.replicate m false) := by rw [a1, hb]; rfl
  have hm := Sei.moreRbspData_spec e1 P1 b _ i1 a1'
  have hmore : (if b then (L ++ true :: List.replicate m false).any id else true) = true := by
    cases b <;> simp
  rw [hmore] at hm
  obtain ⟨e3, P3, p3, i3, a3, _⟩ := parse_ops f (tail (lookupChroma spsMap a)) a t2 os2 (a ++ t2) [] e1 P1 _
    hops2 hst2 hok2 i1 a1
  obtain ⟨ht1, ht2⟩ := Sei.readTrailing_spec e3 P3 m i3 a3
  unfold parsePps
  simp only [p1, hst1, hm, Bool.false_eq_true, if_false, if_true, p3, hst2, ht1, ht2, ne_eq, not_true_eq_false,
    or_self]

/-- **PPS round trip** (C15): parsing the serialisation of a valid prefix trace and an optional valid tail trace
    gives back the values and tells whether the tail was present -/
theorem pps_roundtrip (f : Nat) (spsMap : List (Nat × Nat)) (tr1 : Trace) (tr2 : Option Trace) (nalu : Bytes)
    (h1 : TraceOK f (pre (capOf nalu)) tr1)
    (h2 : ∀ t2, tr2 = some t2 → TailOK f (lookupChroma spsMap tr1) tr1 t2)
    (hs : serializePps f (capOf nalu) (lookupChroma spsMap tr1) tr1 tr2 = some nalu) :
    parsePps f spsMap nalu = .ok (tr1 ++ tr2.getD []) tr2.isSome := by
  cases tr2 with
  | none => simpa using pps_roundtrip_notail f spsMap tr1 nalu h1 hs
  | some t2 => simpa using pps_roundtrip_tail f spsMap tr1 t2 nalu h1 (h2 t2 rfl) hs

end Mp4ff.AvcPps
