import Mp4ff.Model.AvcSps
import Mp4ff.Lemmas.C13Seq
/-! inversion lemmas for the serialiser `BitSyn.ops` and unfolding lemmas for `BitSyn.parse` (C15) -/
namespace Mp4ff.BitSyn
open Mp4ff.Bits

theorem ops_nil_inv {f : Nat} {acc src : Trace} {os a s}
    (h : ops (f + 1) [] acc src = some (os, a, s)) : os = [] ∧ a = acc ∧ s = src := by
  simp [ops] at h; obtain ⟨rfl, rfl, rfl⟩ := h; exact ⟨rfl, rfl, rfl⟩

theorem ops_fld_inv {f : Nat} {nm : String} {k : Nat} {rest : List Syn} {acc src : Trace} {os a s}
    (h : ops (f + 1) (.fld nm k :: rest) acc src = some (os, a, s)) :
    ∃ v src' o, src = (nm, v) :: src' ∧ 0 ≤ v ∧ ops f rest (acc ++ [(nm, v)]) src' = some (o, a, s) ∧
      os = Op.fld k v.toNat :: o := by
  match src with
  | [] => simp [ops] at h
  | (nm', v) :: src' =>
    simp only [ops] at h
    split at h
    · rename_i hc
      obtain ⟨rfl, hv⟩ := hc
      cases hr : ops f rest (acc ++ [(nm', v)]) src' with
      | none => simp [hr] at h
      | some r =>
        obtain ⟨o, a', s'⟩ := r
        simp [hr] at h
        obtain ⟨rfl, rfl, rfl⟩ := h
        exact ⟨v, src', o, rfl, hv, hr, rfl⟩
    · simp at h

theorem ops_flag_inv {f : Nat} {nm : String} {rest : List Syn} {acc src : Trace} {os a s}
    (h : ops (f + 1) (.flag nm :: rest) acc src = some (os, a, s)) :
    ∃ v src' o, src = (nm, v) :: src' ∧ (v = 0 ∨ v = 1) ∧ ops f rest (acc ++ [(nm, v)]) src' = some (o, a, s) ∧
      os = Op.flag (v == 1) :: o := by
  match src with
  | [] => simp [ops] at h
  | (nm', v) :: src' =>
    simp only [ops] at h
    split at h
    · rename_i hc
      obtain ⟨rfl, hv⟩ := hc
      cases hr : ops f rest (acc ++ [(nm', v)]) src' with
      | none => simp [hr] at h
      | some r =>
        obtain ⟨o, a', s'⟩ := r
        simp [hr] at h
        obtain ⟨rfl, rfl, rfl⟩ := h
        exact ⟨v, src', o, rfl, hv, hr, rfl⟩
    · simp at h

theorem ops_ue_inv {f : Nat} {nm : String} {rest : List Syn} {acc src : Trace} {os a s}
    (h : ops (f + 1) (.ue nm :: rest) acc src = some (os, a, s)) :
    ∃ v src' o, src = (nm, v) :: src' ∧ 0 ≤ v ∧ ops f rest (acc ++ [(nm, v)]) src' = some (o, a, s) ∧
      os = Op.ue v.toNat :: o := by
  match src with
  | [] => simp [ops] at h
  | (nm', v) :: src' =>
    simp only [ops] at h
    split at h
    · rename_i hc
      obtain ⟨rfl, hv⟩ := hc
      cases hr : ops f rest (acc ++ [(nm', v)]) src' with
      | none => simp [hr] at h
      | some r =>
        obtain ⟨o, a', s'⟩ := r
        simp [hr] at h
        obtain ⟨rfl, rfl, rfl⟩ := h
        exact ⟨v, src', o, rfl, hv, hr, rfl⟩
    · simp at h

theorem ops_se_inv {f : Nat} {nm : String} {rest : List Syn} {acc src : Trace} {os a s}
    (h : ops (f + 1) (.se nm :: rest) acc src = some (os, a, s)) :
    ∃ v src' o, src = (nm, v) :: src' ∧ ops f rest (acc ++ [(nm, v)]) src' = some (o, a, s) ∧
      os = Op.se v :: o := by
  match src with
  | [] => simp [ops] at h
  | (nm', v) :: src' =>
    simp only [ops] at h
    split at h
    · rename_i hc
      subst hc
      cases hr : ops f rest (acc ++ [(nm', v)]) src' with
      | none => simp [hr] at h
      | some r =>
        obtain ⟨o, a', s'⟩ := r
        simp [hr] at h
        obtain ⟨rfl, rfl, rfl⟩ := h
        exact ⟨v, src', o, rfl, hr, rfl⟩
    · simp at h

theorem ops_cond_inv {f : Nat} {p : Trace → Bool} {body rest : List Syn} {acc src : Trace} {os a s}
    (h : ops (f + 1) (.cond p body :: rest) acc src = some (os, a, s)) :
    (p acc = true ∧ ∃ o1 a1 s1 o2, ops f body acc src = some (o1, a1, s1) ∧ ops f rest a1 s1 = some (o2, a, s) ∧
        os = o1 ++ o2) ∨
    (p acc = false ∧ ops f rest acc src = some (os, a, s)) := by
  simp only [ops] at h
  by_cases hp : p acc = true
  · left
    refine ⟨hp, ?_⟩
    simp only [hp, if_true] at h
    cases h1 : ops f body acc src with
    | none => simp [h1] at h
    | some r1 =>
      obtain ⟨o1, a1, s1⟩ := r1
      simp only [h1] at h
      cases h2 : ops f rest a1 s1 with
      | none => simp [h2] at h
      | some r2 =>
        obtain ⟨o2, a2, s2⟩ := r2
        simp [h2] at h
        obtain ⟨rfl, rfl, rfl⟩ := h
        exact ⟨o1, a1, s1, o2, rfl, h2, rfl⟩
  · right
    simp only [hp] at h
    exact ⟨by simpa using hp, h⟩

theorem ops_rep_inv {f : Nat} {n : Trace → Nat} {body rest : List Syn} {acc src : Trace} {os a s}
    (h : ops (f + 1) (.rep n body :: rest) acc src = some (os, a, s)) :
    (n acc = 0 ∧ ops f rest acc src = some (os, a, s)) ∨
    (∃ k o1 a1 s1 o2, n acc = k + 1 ∧ ops f body acc src = some (o1, a1, s1) ∧
        ops f (.rep (fun _ => k) body :: rest) a1 s1 = some (o2, a, s) ∧ os = o1 ++ o2) := by
  simp only [ops] at h
  cases hn : n acc with
  | zero => left; simp only [hn] at h; exact ⟨rfl, h⟩
  | succ k =>
    right
    simp only [hn] at h
    cases h1 : ops f body acc src with
    | none => simp [h1] at h
    | some r1 =>
      obtain ⟨o1, a1, s1⟩ := r1
      simp only [h1] at h
      cases h2 : ops f (.rep (fun _ => k) body :: rest) a1 s1 with
      | none => simp [h2] at h
      | some r2 =>
        obtain ⟨o2, a2, s2⟩ := r2
        simp [h2] at h
        obtain ⟨rfl, rfl, rfl⟩ := h
        exact ⟨k, o1, a1, s1, o2, rfl, rfl, h2, rfl⟩

/-! unfolding of `parse` -/

theorem parse_nil (f : Nat) (acc : Trace) (e : ER) : parse (f + 1) [] acc e = some (acc, e) := rfl

theorem parse_fld (f : Nat) (nm : String) (k : Nat) (rest : List Syn) (acc : Trace) (e : ER) :
    parse (f + 1) (.fld nm k :: rest) acc e = parse f rest (acc ++ [(nm, ((e.read k).2 : Int))]) (e.read k).1 := rfl

theorem parse_flag (f : Nat) (nm : String) (rest : List Syn) (acc : Trace) (e : ER) :
    parse (f + 1) (.flag nm :: rest) acc e =
      parse f rest (acc ++ [(nm, if e.readFlag.2 then 1 else 0)]) e.readFlag.1 := rfl

theorem parse_ue (f : Nat) (nm : String) (rest : List Syn) (acc : Trace) (e : ER) :
    parse (f + 1) (.ue nm :: rest) acc e =
      parse f rest (acc ++ [(nm, (e.readExpGolomb.2 : Int))]) e.readExpGolomb.1 := rfl

theorem parse_se (f : Nat) (nm : String) (rest : List Syn) (acc : Trace) (e : ER) :
    parse (f + 1) (.se nm :: rest) acc e =
      parse f rest (acc ++ [(nm, e.readSignedGolomb.2)]) e.readSignedGolomb.1 := rfl

theorem parse_cond_true (f : Nat) (p : Trace → Bool) (body rest : List Syn) (acc : Trace) (e : ER)
    (hp : p acc = true) {a1 e1} (h1 : parse f body acc e = some (a1, e1)) :
    parse (f + 1) (.cond p body :: rest) acc e = parse f rest a1 e1 := by
  simp only [parse, hp, if_true, h1]

theorem parse_cond_false (f : Nat) (p : Trace → Bool) (body rest : List Syn) (acc : Trace) (e : ER)
    (hp : p acc = false) :
    parse (f + 1) (.cond p body :: rest) acc e = parse f rest acc e := by
  simp [parse, hp]

theorem parse_rep_zero (f : Nat) (n : Trace → Nat) (body rest : List Syn) (acc : Trace) (e : ER)
    (hn : n acc = 0) :
    parse (f + 1) (.rep n body :: rest) acc e = parse f rest acc e := by
  simp only [parse, hn]

theorem parse_rep_succ (f : Nat) (n : Trace → Nat) (body rest : List Syn) (acc : Trace) (e : ER) {k : Nat}
    (hn : n acc = k + 1) {a1 e1} (h1 : parse f body acc e = some (a1, e1)) :
    parse (f + 1) (.rep n body :: rest) acc e = parse f (.rep (fun _ => k) body :: rest) a1 e1 := by
  simp only [parse, hn, h1]

theorem opsBits_append (a b : List Op) : opsBits (a ++ b) = opsBits a ++ opsBits b := by
  induction a with
  | nil => rfl
  | cons op a ih => simp [opsBits, ih]

end Mp4ff.BitSyn
