import Mp4ff.Model.Sei
import Mp4ff.Lemmas.C13Seq
import Mp4ff.Lemmas.SeiReader
/-!
C17 SEI NAL payload framing: proof of the round trip (used by Props/C17.lean).
Available lemmas: Mp4ff/Lemmas/Ebsp.lean (`EW.write_refines`, `EWRel`, `ER.Inv`, `ER.abs`, `ER.read_spec`,
`ER.fill_spec`), Esc.lean (`esc_append`, `unesc_esc`, …), C13Seq.lean (`EW.trailing_refines`,
`BW.trailing_spec`, `BW.writeAll_spec`, …), BitsWriter/BitsReader.
-/
namespace Mp4ff.Sei
open Mp4ff.Bits

def MsgOK (m : Msg) : Prop := m.type < 2 ^ 32 ∧ m.payload.length < 2 ^ 32 ∧ IsBytes m.payload

theorem msgBytes_length (m : Msg) : 2 ≤ (msgBytes m).length := by
  simp [msgBytes, seiValueBytes]
  omega

theorem msgBytes_cons (m : Msg) : ∃ b Q, msgBytes m = b :: Q := by
  cases hl : msgBytes m with
  | nil => have := msgBytes_length m; simp [hl] at this
  | cons b Q => exact ⟨b, Q, rfl⟩

theorem msgsBytes_length (ms : List Msg) : 2 * ms.length ≤ (msgsBytes ms).length := by
  induction ms with
  | nil => simp [msgsBytes]
  | cons m ms ih =>
    have := msgBytes_length m
    simp only [msgsBytes, List.length_append, List.length_cons]
    omega

theorem msgsBytes_isBytes (ms : List Msg) (hok : ∀ m ∈ ms, MsgOK m) : IsBytes (msgsBytes ms) := by
  induction ms with
  | nil => intro b hb; simp [msgsBytes] at hb
  | cons m ms ih =>
    simp only [msgsBytes, msgBytes]
    exact IsBytes.append (IsBytes.append (seiValueBytes_isBytes _)
      (IsBytes.append (seiValueBytes_isBytes _) (hok m (by simp)).2.2)) (ih (fun x hx => hok x (by simp [hx])))

theorem extract_go_spec : ∀ (ms : List Msg) (m : Msg) (fuel : Nat) (r : ER) (acc : List Msg),
    (∀ x ∈ m :: ms, MsgOK x) → r.Aligned (msgsBytes (m :: ms) ++ [0x80]) → ms.length + 1 ≤ fuel →
    extractSEI.go fuel r acc = (acc ++ m :: ms, none) := by
  intro ms
  induction ms with
  | nil =>
    intro m fuel r acc hok hr hf
    obtain ⟨f, rfl⟩ : ∃ f, fuel = f + 1 := ⟨fuel - 1, by omega⟩
    obtain ⟨hty, hsz, hpl⟩ := hok m (by simp)
    simp only [msgsBytes, msgBytes, List.append_assoc, List.nil_append] at hr
    obtain ⟨r1, h1, a1⟩ := readFFValue_value W64 m.type
      (Nat.lt_trans hty (by unfold W64; decide)) _ r hr
    obtain ⟨r2, h2, a2⟩ := readFFValue_value (2 ^ 32) m.payload.length hsz _ r1 a1
    have e2 : r2.err = false := a2.1.2.2.2.1
    obtain ⟨r3, h3, a3⟩ := readBytes_spec _ m.payload r2 [] a2
    have e3 : r3.err = false := a3.1.2.2.2.1
    have h4 := moreRbspData_last r3 a3
    cases m with
    | mk ty pl =>
      simp only at h1 h2 h3
      simp [extractSEI.go, h1, h2, e2, h3, e3, h4]
  | cons m' ms ih =>
    intro m fuel r acc hok hr hf
    obtain ⟨f, rfl⟩ : ∃ f, fuel = f + 1 := ⟨fuel - 1, by omega⟩
    obtain ⟨hty, hsz, hpl⟩ := hok m (by simp)
    have hr' := hr
    rw [msgsBytes] at hr
    simp only [msgBytes, List.append_assoc] at hr
    obtain ⟨r1, h1, a1⟩ := readFFValue_value W64 m.type
      (Nat.lt_trans hty (by unfold W64; decide)) _ r hr
    obtain ⟨r2, h2, a2⟩ := readFFValue_value (2 ^ 32) m.payload.length hsz _ r1 a1
    have e2 : r2.err = false := a2.1.2.2.2.1
    obtain ⟨r3, h3, a3⟩ := readBytes_spec _ m.payload r2 [] a2
    have e3 : r3.err = false := a3.1.2.2.2.1
    have h4 : moreRbspData r3 = (r3, true) := by
      obtain ⟨b, Q, hbQ⟩ := msgBytes_cons m'
      apply moreRbspData_more r3 b (Q ++ msgsBytes ms)
      have : msgsBytes (m' :: ms) ++ [0x80] = b :: (Q ++ msgsBytes ms ++ [0x80]) := by
        rw [msgsBytes, hbQ]; simp
      rw [← this]; exact a3
    have hi := ih m' f r3 (acc ++ [m]) (fun x hx => hok x (by simp [hx])) a3
      (by simp only [List.length_cons] at hf; omega)
    cases m with
    | mk ty pl =>
      simp only at h1 h2 h3
      simp [extractSEI.go, h1, h2, e2, h3, e3, h4, hi]

/-- writing any non-empty list of SEI messages (any types incl. ≥ 255, any sizes incl. 0 and ≥ 255, any payload
    bytes incl. ones needing emulation prevention and payloads ending in 00) and extracting from the result
    returns the same list, with no error and no missing-trailing-bits condition -/
theorem sei_framing (msgs : List Msg) (hne : msgs ≠ []) (hok : ∀ m ∈ msgs, MsgOK m) :
    extractSEI (writeSEI msgs) = (msgs, none) := by
  rw [writeSEI_eq msgs (fun m hm => (hok m hm).2.2)]
  cases msgs with
  | nil => exact absurd rfl hne
  | cons m ms =>
    unfold extractSEI
    have hB : IsBytes (msgsBytes (m :: ms) ++ [0x80]) :=
      IsBytes.append (msgsBytes_isBytes _ hok) (by intro x hx; simp at hx; omega)
    have hr : ({ rest := esc 0 (msgsBytes (m :: ms) ++ [0x80]) } : ER).Aligned (msgsBytes (m :: ms) ++ [0x80]) :=
      ⟨⟨by show (0:Nat) < 8; decide, by show (0:Nat) < 2 ^ 0; decide, hB, rfl, by show (0:Nat) ≤ 2; decide, rfl⟩, rfl⟩
    have hlen : ms.length + 1 ≤ (esc 0 (msgsBytes (m :: ms) ++ [0x80])).length + 1 := by
      have := msgsBytes_length (m :: ms)
      rw [esc_length]
      simp only [List.length_append, List.length_cons] at this ⊢
      omega
    have := extract_go_spec ms m _ _ [] hok hr hlen
    simpa using this

end Mp4ff.Sei
