import Mp4ff.Lemmas.SeiWriter
/-!
Byte-level view of the EBSP reader for whole-byte reads, `readFFValue`, `readBytes`,
`scanForOne`, `moreRbspData` (SEI framing).
-/
namespace Mp4ff.Bits

/-- byte-aligned EBSP reader with un-escaped payload `P` still to come -/
def ER.Aligned (e : ER) (P : Bytes) : Prop := e.Inv P ∧ e.n = 0

theorem ER.Inv.rest_length {e : ER} {P : Bytes} (h : e.Inv P) : P.length ≤ e.rest.length := by
  rw [h.2.2.2.2.2, esc_length]
  omega

theorem ER.Aligned.read8 {e : ER} {b : Nat} {P : Bytes} (h : e.Aligned (b :: P)) :
    ∃ e', e.read 8 = (e', b) ∧ e'.Aligned P := by
  obtain ⟨hi, hn⟩ := h
  have hb : b < 2 ^ 8 := hi.2.2.1 b (by simp)
  have hP : IsBytes P := IsBytes.tail hi.2.2.1
  obtain ⟨P', h1, h2, h3, h4, _⟩ := ER.read_spec e (b :: P) 8 hi (by decide)
    (by simp [ER.abs, hn, lowBits, bitsOfBytes])
  have habs : e.abs (b :: P) = lowBits 8 b ++ bitsOfBytes P := by
    simp [ER.abs, hn, lowBits, bitsOfBytes]
  rw [habs, List.drop_left' (by simp)] at h2
  rw [habs, List.take_left' (by simp)] at h3
  have hval := eq_of_lowBits_eq h4 hb h3
  have hlen := congrArg List.length h2
  simp only [ER.abs, List.length_append, lowBits_length, bitsOfBytes_length] at hlen
  have hn' : (e.read 8).1.n = 0 := by
    have := h1.1
    omega
  simp only [ER.abs, hn', lowBits, List.nil_append] at h2
  have hPP : P' = P := bitsOfBytes_inj _ _ h1.2.2.1 hP h2
  subst hPP
  exact ⟨(e.read 8).1, by rw [← hval], h1, hn'⟩

end Mp4ff.Bits

namespace Mp4ff.Sei
open Mp4ff.Bits

theorem readFFValue_spec (wrap : Nat) (rest : Bytes) (c : Nat) (hc : c < 255) :
    ∀ (k fuel : Nat) (r : ER) (acc : Nat),
    r.Aligned (List.replicate k 0xff ++ c :: rest) → acc + 255 * k + c < wrap → k + 1 ≤ fuel →
    ∃ r', readFFValue wrap fuel r acc = (r', acc + 255 * k + c) ∧ r'.Aligned rest := by
  intro k
  induction k with
  | zero =>
    intro fuel r acc hr hw hf
    obtain ⟨f, rfl⟩ : ∃ f, fuel = f + 1 := ⟨fuel - 1, by omega⟩
    simp only [List.replicate_zero, List.nil_append] at hr
    obtain ⟨r', h1, h2⟩ := hr.read8
    refine ⟨r', ?_, h2⟩
    have hne : c ≠ 255 := by omega
    have hm : (acc + c) % wrap = acc + c := Nat.mod_eq_of_lt (by omega)
    simp [readFFValue, h1, hne, hm]
  | succ k ih =>
    intro fuel r acc hr hw hf
    obtain ⟨f, rfl⟩ : ∃ f, fuel = f + 1 := ⟨fuel - 1, by omega⟩
    simp only [List.replicate_succ, List.cons_append] at hr
    obtain ⟨r1, h1, h2⟩ := hr.read8
    have hm : (acc + 255) % wrap = acc + 255 := Nat.mod_eq_of_lt (by omega)
    obtain ⟨r', h3, h4⟩ := ih f r1 (acc + 255) h2 (by omega) (by omega)
    refine ⟨r', ?_, h4⟩
    simp only [readFFValue, h1, hm, ne_eq, not_true_eq_false, if_false]
    rw [h3]
    congr 1
    omega

theorem readFFValue_value (wrap v : Nat) (hv : v < wrap) (rest : Bytes) (r : ER)
    (hr : r.Aligned (seiValueBytes v ++ rest)) :
    ∃ r', readFFValue wrap (r.bitsLeft / 8 + 2) r 0 = (r', v) ∧ r'.Aligned rest := by
  unfold seiValueBytes at hr
  simp only [List.append_assoc, List.singleton_append] at hr
  have hlen := hr.1.rest_length
  simp only [List.length_append, List.length_replicate, List.length_cons] at hlen
  have hfuel : v / 255 + 1 ≤ r.bitsLeft / 8 + 2 := by
    unfold ER.bitsLeft
    rw [hr.2]
    omega
  obtain ⟨r', h1, h2⟩ := readFFValue_spec wrap rest (v % 255) (by omega) (v / 255) _ r 0 hr (by omega) hfuel
  refine ⟨r', ?_, h2⟩
  rw [h1]
  congr 1
  omega

theorem readBytes_spec (rest : Bytes) : ∀ (pl : Bytes) (r : ER) (acc : Bytes),
    r.Aligned (pl ++ rest) →
    ∃ r', ER.readBytes pl.length r acc = (r', acc ++ pl) ∧ r'.Aligned rest := by
  intro pl
  induction pl with
  | nil => intro r acc hr; exact ⟨r, by simp [ER.readBytes], by simpa using hr⟩
  | cons b pl ih =>
    intro r acc hr
    simp only [List.cons_append] at hr
    have hb : b < 256 := hr.1.2.2.1 b (by simp)
    obtain ⟨r1, h1, h2⟩ := hr.read8
    obtain ⟨r', h3, h4⟩ := ih r1 (acc ++ [b]) h2
    refine ⟨r', ?_, h4⟩
    have hm : b % 256 = b := Nat.mod_eq_of_lt hb
    simp only [List.length_cons, ER.readBytes, h1, hm]
    rw [h3]
    simp

/-! ### `scanForOne` / `moreRbspData` -/

theorem ER.Inv.abs_length_le {e : ER} {P : Bytes} (h : e.Inv P) : (e.abs P).length ≤ e.bitsLeft := by
  have := h.rest_length
  simp only [ER.abs, ER.bitsLeft, List.length_append, lowBits_length, bitsOfBytes_length]
  omega

theorem read1_nil (r : ER) (h : r.Inv []) (hn : r.n = 0) : (r.read 1).1.err = true := by
  obtain ⟨_, _, _, herr, _, hrest⟩ := h
  simp only [esc] at hrest
  simp [ER.read, herr, ER.fill, hn, hrest]

theorem read1_cons (r : ER) (P : Bytes) (b : Bool) (L : List Bool) (h : r.Inv P) (habs : r.abs P = b :: L) :
    ∃ P', (r.read 1).1.Inv P' ∧ (r.read 1).1.abs P' = L ∧ (r.read 1).2 = (if b then 1 else 0) := by
  obtain ⟨P', h1, h2, h3, h4, _⟩ := ER.read_spec r P 1 h (by decide) (by rw [habs]; simp)
  rw [habs] at h2 h3
  simp only [List.drop_succ_cons, List.drop_zero] at h2
  simp only [List.take_succ_cons, List.take_zero] at h3
  refine ⟨P', h1, h2, ?_⟩
  have hb : (if b then 1 else 0 : Nat) < 2 ^ 1 := by cases b <;> decide
  apply eq_of_lowBits_eq h4 hb
  rw [h3]
  cases b <;> rfl

theorem scanForOne_spec : ∀ (L : List Bool) (fuel : Nat) (r : ER) (P : Bytes),
    r.Inv P → r.abs P = L → L.length + 1 ≤ fuel → scanForOne fuel r = L.any id := by
  intro L
  induction L with
  | nil =>
    intro fuel r P h habs hf
    obtain ⟨f, rfl⟩ : ∃ f, fuel = f + 1 := ⟨fuel - 1, by omega⟩
    have hlen := congrArg List.length habs
    simp only [ER.abs, List.length_append, lowBits_length, bitsOfBytes_length, List.length_nil] at hlen
    have hn : r.n = 0 := by omega
    have hP : P = [] := by
      cases P with
      | nil => rfl
      | cons x xs => simp at hlen
    subst hP
    have := read1_nil r h hn
    simp [scanForOne, this]
  | cons b L ih =>
    intro fuel r P h habs hf
    obtain ⟨f, rfl⟩ : ∃ f, fuel = f + 1 := ⟨fuel - 1, by omega⟩
    obtain ⟨P', h1, h2, h3⟩ := read1_cons r P b L h habs
    have herr : (r.read 1).1.err = false := h1.2.2.2.1
    simp only [List.length_cons] at hf
    have := ih f (r.read 1).1 P' h1 h2 (by omega)
    cases b with
    | true => simp [scanForOne, herr, h3]
    | false => simp [scanForOne, herr, h3, this]

theorem lowBits8_ge128 (b : Nat) (hb : b < 256) : ∃ L, lowBits 8 b = decide (128 ≤ b) :: L := by
  refine ⟨lowBits 7 b, ?_⟩
  simp only [lowBits, List.cons.injEq, and_true]
  rw [Nat.testBit_eq_decide_div_mod_eq]
  by_cases h : 128 ≤ b
  · simp [h]; omega
  · simp [h]; omega

/-- at the final trailing byte: no more data, reader restored -/
theorem moreRbspData_last (r : ER) (hr : r.Aligned [0x80]) : moreRbspData r = (r, false) := by
  obtain ⟨hi, hn⟩ := hr
  have habs : r.abs [0x80] = true :: List.replicate 7 false := by
    simp only [ER.abs, hn, lowBits, bitsOfBytes]
    decide
  obtain ⟨P', h1, h2, h3⟩ := read1_cons r _ _ _ hi habs
  have herr : (r.read 1).1.err = false := h1.2.2.2.1
  have hs := scanForOne_spec _ ((r.read 1).1.bitsLeft + 1) _ P' h1 h2
    (by have := ER.Inv.abs_length_le h1; rw [h2] at this; omega)
  simp only [moreRbspData, herr, h3, if_true, hs]
  simp

/-- at a message boundary with more bytes before the trailing byte: more data, reader restored -/
theorem moreRbspData_more (r : ER) (b : Nat) (Q : Bytes) (hr : r.Aligned (b :: (Q ++ [0x80]))) :
    moreRbspData r = (r, true) := by
  obtain ⟨hi, hn⟩ := hr
  have hb : b < 256 := hi.2.2.1 b (by simp)
  obtain ⟨L, hL⟩ := lowBits8_ge128 b hb
  have habs : r.abs (b :: (Q ++ [0x80])) =
      decide (128 ≤ b) :: (L ++ (bitsOfBytes Q ++ true :: List.replicate 7 false)) := by
    simp only [ER.abs, hn, lowBits, List.nil_append, bitsOfBytes, bitsOfBytes_append, List.append_nil]
    have : lowBits 8 128 = true :: List.replicate 7 false := by decide
    simp only [lowBits] at hL this
    rw [hL, this]
    simp
  obtain ⟨P', h1, h2, h3⟩ := read1_cons r _ _ _ hi habs
  have herr : (r.read 1).1.err = false := h1.2.2.2.1
  have hs := scanForOne_spec _ ((r.read 1).1.bitsLeft + 1) _ P' h1 h2
    (by have := ER.Inv.abs_length_le h1; rw [h2] at this; omega)
  by_cases h128 : 128 ≤ b
  · simp only [moreRbspData, herr, h3, h128, decide_true, if_true, hs]
    simp
  · simp [moreRbspData, herr, h3, h128]

end Mp4ff.Sei
