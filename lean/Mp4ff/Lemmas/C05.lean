import Mp4ff.Model.Frag
/-!
C05: definitions and proofs (used by Props/C05.lean).
-/
namespace Mp4ff.Frag

/-- a run as the fragment builder creates it (`CreateTrun`: every per-sample field present, no first-sample-flags) -/
def Trun.Fresh (t : Trun) : Prop :=
  t.hasDur = true ∧ t.hasSize = true ∧ t.hasFlags = true ∧ t.hasCto = true ∧ t.firstFlags = none

theorem zipIdx_map_zipIdx_map {α β γ : Type} (f : α × Nat → β) (g : β × Nat → γ) (l : List α) (k : Nat) :
    (((l.zipIdx k).map f).zipIdx k).map g = (l.zipIdx k).map (fun p => g (f p, p.2)) := by
  induction l generalizing k with
  | nil => rfl
  | cons a l ih => simp [List.zipIdx_cons, ih]

theorem map_zipIdx_eq_self {α : Type} (f : α × Nat → α) (l : List α) (k : Nat)
    (h : ∀ p ∈ l.zipIdx k, f p = p.1) : (l.zipIdx k).map f = l := by
  rw [List.map_congr_left h, List.zipIdx_map_fst]

/-- composed per-element function of `readBack` -/
def rbElem (tfhd : Tfhd) (trex : Trex) (t : Trun) (p : Sample × Nat) : Sample :=
  { flags := if t.hasFlags then p.1.flags
             else if p.2 > 0 ∨ t.firstFlags.isNone then tfhd.defFlags.getD trex.defFlags
             else if p.2 = 0 then t.firstFlags.getD 0 else 0,
    dur := if t.hasDur then p.1.dur else tfhd.defDur.getD trex.defDur,
    size := if t.hasSize then p.1.size else tfhd.defSize.getD trex.defSize,
    cto := if t.hasCto then p.1.cto else 0 }

theorem readBack_eq (tfhd : Tfhd) (trex : Trex) (t : Trun) :
    readBack tfhd trex t = t.samples.zipIdx.map (rbElem tfhd trex t) := by
  unfold readBack resolve wire
  simp only []
  rw [zipIdx_map_zipIdx_map]
  apply List.map_congr_left
  rintro ⟨s, i⟩ _
  simp only [rbElem]
  cases t.hasFlags <;> cases t.hasDur <;> cases t.hasSize <;> cases t.hasCto <;> simp

/-- **without optimisation** a fresh run is read back exactly, whatever the tfhd and trex defaults are -/
theorem readBack_fresh (tfhd : Tfhd) (trex : Trex) (t : Trun) (h : t.Fresh) :
    readBack tfhd trex t = t.samples := by
  obtain ⟨h1, h2, h3, h4, h5⟩ := h
  rw [readBack_eq]
  apply map_zipIdx_eq_self
  rintro ⟨s, i⟩ _
  simp [rbElem, h1, h2, h3, h4]

theorem zipIdx_two_mem (s0 s1 : Sample) (rest : List Sample) (p : Sample × Nat)
    (hp : p ∈ (s0 :: s1 :: rest).zipIdx) :
    p.1 ∈ (s0 :: s1 :: rest) ∧ ((p.2 = 0 ∧ p.1 = s0) ∨ (p.2 > 0 ∧ p.1 ∈ s1 :: rest)) := by
  refine ⟨List.fst_mem_of_mem_zipIdx hp, ?_⟩
  rw [List.zipIdx_cons, List.mem_cons] at hp
  rcases hp with rfl | hp
  · left; simp
  · right
    obtain ⟨s, i⟩ := p
    exact ⟨by have := (List.mem_zipIdx hp).1; simp at this ⊢; omega, List.fst_mem_of_mem_zipIdx hp⟩

/-- **trun optimisation preserves what is read back**: after `OptimizeTfhdTrun` moved common values to tfhd (duration,
    size, flags with a first-sample exception, all-zero composition offsets) the run still resolves to exactly the
    samples that were added — for every sample list, every tfhd it started from, every trex -/
theorem optimize_preserves (tfhd : Tfhd) (trex : Trex) (t : Trun) (h : t.Fresh) (tfhd' : Tfhd) (t' : Trun)
    (ho : optimize tfhd t = some (tfhd', t')) :
    readBack tfhd' trex t' = t.samples := by
  obtain ⟨hd, hs, hf, hc, ff, samples⟩ := t
  obtain ⟨h1, h2, h3, h4, h5⟩ := h
  simp only at h1 h2 h3 h4 h5
  subst h1 h2 h3 h4 h5
  match samples with
  | [] => simp [optimize] at ho
  | [s] =>
    simp only [optimize, Option.some.injEq, Prod.mk.injEq] at ho
    obtain ⟨rfl, rfl⟩ := ho
    exact readBack_fresh _ _ _ ⟨rfl, rfl, rfl, rfl, rfl⟩
  | s0 :: s1 :: rest =>
    rw [readBack_eq]
    have key := zipIdx_two_mem s0 s1 rest
    simp only [optimize] at ho
    generalize hc1 : List.all (s0 :: s1 :: rest) (fun s => s.dur == s0.dur) = c1 at ho
    generalize hc2 : List.all (s0 :: s1 :: rest) (fun s => s.size == s0.size) = c2 at ho
    generalize hc3 : List.all (s1 :: rest) (fun s => s.flags == s1.flags) = c3 at ho
    generalize hc4 : List.all (s0 :: s1 :: rest) (fun s => s.cto == 0) = c4 at ho
    cases c1 <;> cases c2 <;> cases c3 <;> cases c4 <;>
    · simp at ho
      obtain ⟨rfl, rfl⟩ := ho
      apply map_zipIdx_eq_self
      rintro ⟨s, i⟩ hp
      obtain ⟨hm, hi⟩ := key _ hp
      try simp only [List.all_eq_true, beq_iff_eq] at hc1
      try simp only [List.all_eq_true, beq_iff_eq] at hc2
      try simp only [List.all_eq_true, beq_iff_eq] at hc3
      try simp only [List.all_eq_true, beq_iff_eq] at hc4
      simp only [rbElem]
      simp only [] at hm hi
      try replace hc1 := hc1 _ hm
      try replace hc2 := hc2 _ hm
      try replace hc4 := hc4 _ hm
      rcases hi with ⟨hi0, hs⟩ | ⟨hpos, hm'⟩
      · subst hi0 hs
        by_cases hf : s.flags = s1.flags <;> cases s <;> simp_all
      · try replace hc3 := hc3 _ hm'
        have : ¬ i = 0 := by omega
        cases s; simp_all

/-- optimising never changes the stored samples, and fails only for an empty run -/
theorem optimize_samples (tfhd : Tfhd) (t : Trun) :
    (t.samples = [] → optimize tfhd t = none) ∧
    (t.samples ≠ [] → ∃ tfhd' t', optimize tfhd t = some (tfhd', t') ∧ t'.samples = t.samples) := by
  constructor
  · intro h; simp [optimize, h]
  · intro h
    unfold optimize
    split
    · contradiction
    · exact ⟨_, _, rfl, rfl⟩
    · simp only []
      refine ⟨_, _, rfl, ?_⟩
      repeat' split
      all_goals simp_all

/-- **optimisation is idempotent**: a second `OptimizeTfhdTrun` pass over an already optimised run and tfhd changes
    nothing (in particular it keeps `first_sample_flags`) — for every run, fresh or not -/
theorem optimize_idem (tfhd : Tfhd) (t : Trun) (tfhd' : Tfhd) (t' : Trun)
    (ho : optimize tfhd t = some (tfhd', t')) : optimize tfhd' t' = some (tfhd', t') := by
  obtain ⟨hd, hs, hf, hc, ff, samples⟩ := t
  match samples with
  | [] => simp [optimize] at ho
  | [s] =>
    simp only [optimize, Option.some.injEq, Prod.mk.injEq] at ho
    obtain ⟨rfl, rfl⟩ := ho
    simp [optimize]
  | s0 :: s1 :: rest =>
    simp only [optimize] at ho
    generalize hc1 : List.all (s0 :: s1 :: rest) (fun s => s.dur == s0.dur) = c1 at ho
    generalize hc2 : List.all (s0 :: s1 :: rest) (fun s => s.size == s0.size) = c2 at ho
    generalize hc3 : List.all (s1 :: rest) (fun s => s.flags == s1.flags) = c3 at ho
    generalize hc4 : List.all (s0 :: s1 :: rest) (fun s => s.cto == 0) = c4 at ho
    cases hd <;> cases hs <;> cases hf <;> cases hc <;> cases c1 <;> cases c2 <;> cases c3 <;> cases c4 <;>
    · simp at ho
      obtain ⟨rfl, rfl⟩ := ho
      simp [optimize, hc1, hc2, hc3, hc4]

theorem optimizeN_fix (tfhd : Tfhd) (t : Trun) (h : optimize tfhd t = some (tfhd, t)) (n : Nat) :
    optimizeN n tfhd t = some (tfhd, t) := by
  induction n with
  | zero => rfl
  | succ n ih => simp [optimizeN, h, ih]

/-- any number n ≥ 1 of optimisation passes gives exactly the result of one pass -/
theorem optimizeN_eq_optimize (n : Nat) (tfhd : Tfhd) (t : Trun) : optimizeN (n + 1) tfhd t = optimize tfhd t := by
  simp only [optimizeN]
  cases h : optimize tfhd t with
  | none => rfl
  | some r =>
    obtain ⟨tfhd', t'⟩ := r
    exact optimizeN_fix tfhd' t' (optimize_idem tfhd t tfhd' t' h) n

/-- **optimised any number of times** (the same fragment encoded repeatedly, by either encoder, or optimised by the
    caller before encoding) a fresh run still resolves to exactly the samples added -/
theorem optimizeN_preserves (n : Nat) (tfhd : Tfhd) (trex : Trex) (t : Trun) (h : t.Fresh) (tfhd' : Tfhd) (t' : Trun)
    (ho : optimizeN n tfhd t = some (tfhd', t')) : readBack tfhd' trex t' = t.samples := by
  cases n with
  | zero =>
    simp only [optimizeN, Option.some.injEq, Prod.mk.injEq] at ho
    obtain ⟨rfl, rfl⟩ := ho
    exact readBack_fresh _ _ _ h
  | succ n =>
    rw [optimizeN_eq_optimize] at ho
    exact optimize_preserves tfhd trex t h tfhd' t' ho

/-- decode times read back are base + accumulated durations: the k-th is the base plus the durations before it -/
theorem decodeTimes_spec (base : Nat) (ss : List Sample) (k : Nat) (hk : k < ss.length) :
    (decodeTimes base ss)[k]? = some (base + ((ss.take k).map (·.dur)).sum) := by
  induction ss generalizing base k with
  | nil => simp at hk
  | cons s ss ih =>
    cases k with
    | zero => simp [decodeTimes]
    | succ k =>
      simp only [List.length_cons, Nat.add_lt_add_iff_right] at hk
      simp [decodeTimes, ih _ _ hk, Nat.add_assoc]

/-- a run with its sample payloads (ghost data): sizes agree with payload lengths -/
def RunOK (r : List (Sample × Bytes)) : Prop := ∀ p ∈ r, p.1.size = p.2.length

def runData (r : List (Sample × Bytes)) : Bytes := r.flatMap (·.2)

theorem sampleBytes_run (r : List (Sample × Bytes)) (hr : RunOK r) (mdat post : Bytes) (off : Nat)
    (h : mdat.drop off = runData r ++ post) :
    sampleBytes mdat off (r.map (·.1)) = r.map (·.2) := by
  induction r generalizing off with
  | nil => rfl
  | cons p r ih =>
    have hp : p.1.size = p.2.length := hr p (by simp)
    have hr' : RunOK r := fun q hq => hr q (by simp [hq])
    simp only [List.map_cons, sampleBytes]
    have h' : mdat.drop off = p.2 ++ (runData r ++ post) := by
      rw [h]; simp [runData]
    congr 1
    · rw [h', hp]; simp
    · apply ih hr'
      rw [← List.drop_drop, h', hp]; simp

theorem dataOffsets_getD (m h : Nat) (sizes : List Nat) (k : Nat) (hk : k < sizes.length) :
    (dataOffsets m h sizes).getD k 0 = m + h + (sizes.take k).sum := by
  induction sizes generalizing m k with
  | nil => simp at hk
  | cons sz sizes ih =>
    cases k with
    | zero => simp [dataOffsets]
    | succ k =>
      simp only [List.length_cons, Nat.add_lt_add_iff_right] at hk
      simp only [dataOffsets, List.getD_cons_succ, ih _ _ hk, List.take_succ_cons, List.sum_cons]
      omega

theorem flatMap_drop_run (runs : List (List (Sample × Bytes))) (k : Nat) (hk : k < runs.length) :
    (runs.flatMap runData).drop (((runs.map fun r => (runData r).length).take k).sum)
      = runData (runs.getD k []) ++ (runs.drop (k + 1)).flatMap runData := by
  induction runs generalizing k with
  | nil => simp at hk
  | cons r runs ih =>
    cases k with
    | zero => simp
    | succ k =>
      simp only [List.length_cons, Nat.add_lt_add_iff_right] at hk
      simp only [List.map_cons, List.take_succ_cons, List.sum_cons, List.flatMap_cons, List.getD_cons_succ,
        List.drop_succ_cons]
      rw [← ih k hk, List.drop_append]
      simp

/-- **data offsets**: if the mdat payload is the concatenation of the runs' data in write order and the offsets are
    those computed by `SetTrunDataOffsets`, then reading run k's samples at its offset (made relative to the mdat
    payload start, which lies `moofSize + mdatHdr` after the moof start) returns exactly that run's sample bytes -/
theorem dataOffsets_spec (moofSize mdatHdr : Nat) (runs : List (List (Sample × Bytes))) (hr : ∀ r ∈ runs, RunOK r)
    (k : Nat) (hk : k < runs.length) :
    let mdat := runs.flatMap runData
    let offs := dataOffsets moofSize mdatHdr (runs.map fun r => (runData r).length)
    sampleBytes mdat (offs.getD k 0 - (moofSize + mdatHdr)) ((runs.getD k []).map (·.1)) = (runs.getD k []).map (·.2) := by
  intro mdat offs
  have hmem : runs.getD k [] ∈ runs := by
    rw [List.getD_eq_getElem?_getD, List.getElem?_eq_getElem hk]; simp
  apply sampleBytes_run _ (hr _ hmem) mdat ((runs.drop (k + 1)).flatMap runData)
  have := dataOffsets_getD moofSize mdatHdr (runs.map fun r => (runData r).length) k (by simpa using hk)
  simp only [offs, this, Nat.add_sub_cancel_left]
  exact flatMap_drop_run runs k hk


end Mp4ff.Frag

