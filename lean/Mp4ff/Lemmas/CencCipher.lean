import Mp4ff.Model.Cenc
/-!
Helper lemmas for the cipher part of C06/C07 (Common Encryption): xor involution, CTR over sub-sample ranges,
CBC round trip, cbcs pattern round trip.  Core Lean only.
-/
namespace Mp4ff.Cenc
open Mp4ff.Nalu

/-! ## byte bookkeeping (local names, to avoid clashes with other Lemmas files) -/

theorem cc_isBytes_append {a b : Bytes} (ha : IsBytes a) (hb : IsBytes b) : IsBytes (a ++ b) := by
  intro x hx
  rcases List.mem_append.1 hx with h | h
  · exact ha x h
  · exact hb x h

theorem cc_isBytes_take {l : Bytes} (h : IsBytes l) (n : Nat) : IsBytes (l.take n) :=
  fun x hx => h x (List.mem_of_mem_take hx)

theorem cc_isBytes_drop {l : Bytes} (h : IsBytes l) (n : Nat) : IsBytes (l.drop n) :=
  fun x hx => h x (List.mem_of_mem_drop hx)

theorem cc_take_append_len {α : Type} (a b : List α) (n : Nat) (h : a.length = n) : (a ++ b).take n = a := by
  subst h; simp

theorem cc_drop_append_len {α : Type} (a b : List α) (n : Nat) (h : a.length = n) : (a ++ b).drop n = b := by
  subst h; simp

/-! ## xor -/

theorem xorBytes_length (a k : Bytes) : (xorBytes a k).length = min a.length k.length := by
  simp [xorBytes]

theorem xorBytes_nil_left (k : Bytes) : xorBytes [] k = [] := by simp [xorBytes]

theorem xorBytes_cons (x y : Nat) (a k : Bytes) : xorBytes (x :: a) (y :: k) = (x ^^^ y) :: xorBytes a k := by
  simp [xorBytes]

/-- xor twice with the same (long enough) key is the identity; no byte-range hypothesis needed -/
theorem xorBytes_xorBytes : ∀ (a k : Bytes), a.length ≤ k.length → xorBytes (xorBytes a k) k = a
  | [], k, _ => by simp [xorBytes]
  | x :: a, [], h => by simp at h
  | x :: a, y :: k, h => by
    have ih := xorBytes_xorBytes a k (by simpa using h)
    simp only [xorBytes_cons, ih]
    rw [Nat.xor_assoc, Nat.xor_self, Nat.xor_zero]

theorem xorBytes_isBytes : ∀ (a k : Bytes), IsBytes a → IsBytes k → IsBytes (xorBytes a k)
  | [], k, _, _ => by simp [xorBytes, IsBytes]
  | x :: a, [], _, _ => by simp [xorBytes, IsBytes]
  | x :: a, y :: k, ha, hk => by
    have ih := xorBytes_isBytes a k (fun b hb => ha b (by simp [hb])) (fun b hb => hk b (by simp [hb]))
    intro b hb
    rw [xorBytes_cons] at hb
    rcases List.mem_cons.1 hb with h | h
    · subst h
      have hx : x < 2 ^ 8 := ha x (by simp)
      have hy : y < 2 ^ 8 := hk y (by simp)
      exact Nat.xor_lt_two_pow hx hy
    · exact ih b h

theorem keystream_length (E : Block → Block) (iv : Bytes) (off n : Nat) : (keystream E iv off n).length = n := by
  simp [keystream]

/-! ## CTR over sub-sample ranges -/

/-- the sum of the entry sizes (this is what `RangesFit` bounds) -/
def rangesSize (rs : List SubSample) : Nat := (rs.map fun r => r.clear + r.prot).sum

/-- `go` does not look at the part of the sample before `pos` -/
theorem cryptCenc_go_shift (E : Block → Block) (iv : Bytes) :
    ∀ (rs : List SubSample) (p t : Bytes) (q koff : Nat),
      cryptCenc.go E iv rs (p.length + q) koff (p ++ t) = p ++ cryptCenc.go E iv rs q koff t
  | [], p, t, q, koff => by simp [cryptCenc.go]
  | r :: rest, p, t, q, koff => by
    simp only [cryptCenc.go]
    have h1 : List.take (p.length + q + r.clear) (p ++ t) = p ++ List.take (q + r.clear) t := by
      rw [List.take_append]; simp [Nat.add_assoc]
      rw [List.take_of_length_le (by omega)]
    have h2 : List.drop (p.length + q + r.clear) (p ++ t) = List.drop (q + r.clear) t := by
      rw [List.drop_append]; simp [Nat.add_assoc]
    have h3 : List.drop (p.length + q + r.clear + r.prot) (p ++ t) = List.drop (q + r.clear + r.prot) t := by
      rw [List.drop_append]; simp [Nat.add_assoc]
    rw [h1, h2, h3]
    have := cryptCenc_go_shift E iv rest p
      (List.take (q + r.clear) t ++
        xorBytes (List.take r.prot (List.drop (q + r.clear) t))
          (keystream E iv koff (List.take r.prot (List.drop (q + r.clear) t)).length) ++
        List.drop (q + r.clear + r.prot) t) (q + r.clear + r.prot) (koff + r.prot)
    simp only [List.append_assoc, Nat.add_assoc] at this ⊢
    exact this

/-- one step of `go` from position 0, on a sample split as clear part, protected part, rest -/
theorem cryptCenc_go_cons (E : Block → Block) (iv : Bytes) (r : SubSample) (rest : List SubSample)
    (A B C : Bytes) (koff : Nat) (hA : A.length = r.clear) (hB : B.length = r.prot) :
    cryptCenc.go E iv (r :: rest) 0 koff (A ++ B ++ C) =
      A ++ xorBytes B (keystream E iv koff r.prot) ++ cryptCenc.go E iv rest 0 (koff + r.prot) C := by
  simp only [cryptCenc.go, Nat.zero_add]
  have h1 : List.take r.clear (A ++ B ++ C) = A := by
    rw [List.append_assoc, ← hA]; simp
  have h2 : List.take r.prot (List.drop r.clear (A ++ B ++ C)) = B := by
    rw [List.append_assoc, ← hA, ← hB]; simp
  have h3 : List.drop (r.clear + r.prot) (A ++ B ++ C) = C := by
    rw [← hA, ← hB, ← List.length_append]; simp
  rw [h1, h2, h3, hB]
  have hl : (A ++ xorBytes B (keystream E iv koff r.prot)).length = r.clear + r.prot := by
    simp [xorBytes_length, keystream_length, hA, hB]
  have := cryptCenc_go_shift E iv rest (A ++ xorBytes B (keystream E iv koff r.prot)) C 0 (koff + r.prot)
  rw [hl, Nat.add_zero] at this
  rw [this]

/-- split a sample that fits one entry -/
theorem cc_split (s : Bytes) (a b : Nat) (h : a + b ≤ s.length) :
    ∃ A B C, s = A ++ B ++ C ∧ A.length = a ∧ B.length = b ∧ C.length = s.length - (a + b) := by
  refine ⟨s.take a, (s.drop a).take b, s.drop (a + b), ?_, ?_, ?_, ?_⟩
  · rw [List.append_assoc, ← List.drop_drop, List.take_append_drop, List.take_append_drop]
  · simp; omega
  · simp; omega
  · simp

theorem cryptCenc_go_involutive (E : Block → Block) (iv : Bytes) :
    ∀ (rs : List SubSample) (koff : Nat) (s : Bytes), rangesSize rs ≤ s.length →
      cryptCenc.go E iv rs 0 koff (cryptCenc.go E iv rs 0 koff s) = s
  | [], koff, s, _ => by simp [cryptCenc.go]
  | r :: rest, koff, s, h => by
    have h' : r.clear + r.prot + rangesSize rest ≤ s.length := by
      simpa [rangesSize] using h
    obtain ⟨A, B, C, rfl, hA, hB, hC⟩ := cc_split s r.clear r.prot (by omega)
    have hfit : rangesSize rest ≤ C.length := by omega
    rw [cryptCenc_go_cons E iv r rest A B C koff hA hB]
    rw [cryptCenc_go_cons E iv r rest A _ _ koff hA
      (by simp [xorBytes_length, keystream_length, hB])]
    rw [xorBytes_xorBytes _ _ (by simp [keystream_length, hB])]
    rw [cryptCenc_go_involutive E iv rest (koff + r.prot) C hfit]

theorem cryptCenc_go_clear (E : Block → Block) (iv : Bytes) :
    ∀ (rs : List SubSample) (koff : Nat) (s : Bytes), rangesSize rs ≤ s.length →
      (cryptCenc.go E iv rs 0 koff s).length = s.length ∧
      ∀ i, (maskOf rs).getD i false = false → (cryptCenc.go E iv rs 0 koff s)[i]? = s[i]?
  | [], koff, s, _ => by simp [cryptCenc.go]
  | r :: rest, koff, s, h => by
    have h' : r.clear + r.prot + rangesSize rest ≤ s.length := by
      simpa [rangesSize] using h
    obtain ⟨A, B, C, rfl, hA, hB, hC⟩ := cc_split s r.clear r.prot (by omega)
    have hfit : rangesSize rest ≤ C.length := by omega
    obtain ⟨ihl, ihm⟩ := cryptCenc_go_clear E iv rest (koff + r.prot) C hfit
    rw [cryptCenc_go_cons E iv r rest A B C koff hA hB]
    have hxl : (xorBytes B (keystream E iv koff r.prot)).length = r.prot := by
      simp [xorBytes_length, keystream_length, hB]
    refine ⟨by simp [hxl, hB, ihl], ?_⟩
    intro i hm
    simp only [maskOf] at hm
    rw [List.getD_eq_getElem?_getD] at hm
    by_cases h1 : i < r.clear
    · rw [List.append_assoc, List.append_assoc, List.getElem?_append_left (by omega),
        List.getElem?_append_left (by omega)]
    · by_cases h2 : i < r.clear + r.prot
      · exfalso
        rw [List.getElem?_append_left (by simp; omega), List.getElem?_append_right (by simp; omega)] at hm
        rw [List.getElem?_replicate] at hm
        simp only [List.length_replicate] at hm
        rw [if_pos (by omega)] at hm
        simp at hm
      · rw [List.getElem?_append_right (by simp; omega)] at hm
        simp only [List.length_append, List.length_replicate] at hm
        rw [List.getElem?_append_right (by simp [hxl, hA]; omega),
          List.getElem?_append_right (by simp [hB, hA]; omega)]
        simp only [List.length_append, hxl, hA, hB]
        exact ihm _ (by rw [List.getD_eq_getElem?_getD]; exact hm)

/-! ## CBC -/

theorem cbcEnc_short (E : Block → Block) (chain data : Bytes) (h : data.length < 16) :
    cbcEnc E chain data = ([], chain) := by
  rw [cbcEnc]; simp [h]

theorem cbcDec_short (D : Block → Block) (chain data : Bytes) (h : data.length < 16) :
    cbcDec D chain data = ([], chain) := by
  rw [cbcDec]; simp [h]

theorem cbcEnc_step (E : Block → Block) (chain data : Bytes) (h : 16 ≤ data.length) :
    cbcEnc E chain data =
      (E (xorBytes (data.take 16) chain) ++ (cbcEnc E (E (xorBytes (data.take 16) chain)) (data.drop 16)).1,
       (cbcEnc E (E (xorBytes (data.take 16) chain)) (data.drop 16)).2) := by
  rw [cbcEnc]; simp [Nat.not_lt.2 h]

theorem cbcDec_step (D : Block → Block) (chain data : Bytes) (h : 16 ≤ data.length) :
    cbcDec D chain data =
      (xorBytes (D (data.take 16)) chain ++ (cbcDec D (data.take 16) (data.drop 16)).1,
       (cbcDec D (data.take 16) (data.drop 16)).2) := by
  rw [cbcDec]; simp [Nat.not_lt.2 h]

/-- CBC encryption of whole blocks: same length, bytes, 16-byte chaining value; CBC decryption with the same incoming
    chaining value gives back the data and ends with the same chaining value -/
theorem cbc_roundtrip_aux (E D : Block → Block) (hED : ∀ b, b.length = 16 → IsBytes b → D (E b) = b)
    (hE : ∀ b, (E b).length = 16 ∧ IsBytes (E b)) :
    ∀ (n : Nat) (chain data : Bytes), chain.length = 16 → IsBytes chain → IsBytes data → data.length = 16 * n →
      (cbcEnc E chain data).1.length = data.length ∧ IsBytes (cbcEnc E chain data).1 ∧
      (cbcEnc E chain data).2.length = 16 ∧ IsBytes (cbcEnc E chain data).2 ∧
      cbcDec D chain (cbcEnc E chain data).1 = (data, (cbcEnc E chain data).2)
  | 0, chain, data, hc, hcb, hd, hl => by
    have : data = [] := List.eq_nil_of_length_eq_zero (by omega)
    subst this
    rw [cbcEnc_short E chain [] (by simp)]
    refine ⟨rfl, by simp [IsBytes], hc, hcb, ?_⟩
    rw [cbcDec_short D chain [] (by simp)]
  | n + 1, chain, data, hc, hcb, hd, hl => by
    have h16 : 16 ≤ data.length := by omega
    have hpl : (xorBytes (data.take 16) chain).length = 16 := by
      simp [xorBytes_length, hc]; omega
    have hpb : IsBytes (xorBytes (data.take 16) chain) := xorBytes_isBytes _ _ (cc_isBytes_take hd 16) hcb
    obtain ⟨hcl, hcbb⟩ := hE (xorBytes (data.take 16) chain)
    obtain ⟨i1, i2, i3, i4, i5⟩ := cbc_roundtrip_aux E D hED hE n (E (xorBytes (data.take 16) chain)) (data.drop 16)
      hcl hcbb (cc_isBytes_drop hd 16) (by simp; omega)
    rw [cbcEnc_step E chain data h16]
    refine ⟨?_, cc_isBytes_append hcbb i2, i3, i4, ?_⟩
    · simp only [List.length_append, hcl, i1, List.length_drop]; omega
    · simp only []
      rw [cbcDec_step D chain _ (by simp [hcl])]
      have t1 : List.take 16 (E (xorBytes (data.take 16) chain) ++
          (cbcEnc E (E (xorBytes (data.take 16) chain)) (data.drop 16)).1) = E (xorBytes (data.take 16) chain) :=
        cc_take_append_len _ _ 16 hcl
      have t2 : List.drop 16 (E (xorBytes (data.take 16) chain) ++
          (cbcEnc E (E (xorBytes (data.take 16) chain)) (data.drop 16)).1) =
          (cbcEnc E (E (xorBytes (data.take 16) chain)) (data.drop 16)).1 :=
        cc_drop_append_len _ _ 16 hcl
      rw [t1, t2, i5, hED _ hpl hpb, xorBytes_xorBytes _ _ (by simp [hc]; omega)]
      simp

/-! ## cbcs pattern cipher -/

/-- the skip = 0 case: everything up to the last whole block is one CBC run -/
theorem cbcsCrypt_skip0 (F : Bytes → Bytes → Bytes × Bytes) (data iv : Bytes) (crypt : Nat) :
    cbcsCrypt F data iv crypt 0 = (F iv (data.take (data.length / 16 * 16))).1 ++ data.drop (data.length / 16 * 16) := by
  simp [cbcsCrypt]

/-- the pattern cipher as a function of the remaining bytes only -/
def pat (F : Bytes → Bytes → Bytes × Bytes) (crypt skip : Nat) : Nat → Bytes → Bytes → Bytes
  | 0, _, _ => []
  | fuel + 1, chain, rest =>
    if rest.length ≥ crypt then
      if (rest.drop crypt).length < skip then (F chain (rest.take crypt)).1 ++ rest.drop crypt
      else (F chain (rest.take crypt)).1 ++ ((rest.drop crypt).take skip ++
        pat F crypt skip fuel (F chain (rest.take crypt)).2 ((rest.drop crypt).drop skip))
    else rest

theorem cbcsCrypt_go_eq_pat (F : Bytes → Bytes → Bytes × Bytes) (data : Bytes) (crypt skip : Nat) :
    ∀ (fuel pos : Nat) (chain acc : Bytes),
      cbcsCrypt.go F data crypt skip fuel pos chain acc = acc ++ pat F crypt skip fuel chain (data.drop pos)
  | 0, pos, chain, acc => by simp [cbcsCrypt.go, pat]
  | fuel + 1, pos, chain, acc => by
    simp only [cbcsCrypt.go, pat, List.length_drop, List.drop_drop, ge_iff_le]
    by_cases h1 : crypt ≤ data.length - pos
    · simp only [h1, if_true]
      by_cases h2 : data.length - (pos + crypt) < skip
      · simp [h2]
      · simp only [h2, if_false]
        rw [cbcsCrypt_go_eq_pat F data crypt skip fuel (pos + crypt + skip)]
        simp [List.append_assoc]
    · simp [h1]

theorem cbcsCrypt_eq_pat (F : Bytes → Bytes → Bytes × Bytes) (data iv : Bytes) (crypt skip : Nat) (hs : skip ≠ 0) :
    cbcsCrypt F data iv crypt skip = pat F crypt skip (data.length + 2) iv data := by
  simp only [cbcsCrypt, hs, if_false]
  rw [cbcsCrypt_go_eq_pat]; simp

theorem pat_roundtrip (E D : Block → Block) (hED : ∀ b, b.length = 16 → IsBytes b → D (E b) = b)
    (hE : ∀ b, (E b).length = 16 ∧ IsBytes (E b)) (crypt skip : Nat) (hc : crypt % 16 = 0) (hs : 16 ≤ skip) :
    ∀ (fuel : Nat) (chain rest : Bytes), chain.length = 16 → IsBytes chain → IsBytes rest → rest.length < 16 * fuel →
      (pat (cbcEnc E) crypt skip fuel chain rest).length = rest.length ∧
      pat (cbcDec D) crypt skip fuel chain (pat (cbcEnc E) crypt skip fuel chain rest) = rest
  | 0, chain, rest, _, _, _, hl => by omega
  | fuel + 1, chain, rest, hcl, hcb, hr, hl => by
    by_cases h1 : crypt ≤ rest.length
    · have htl : (rest.take crypt).length = 16 * (crypt / 16) := by simp; omega
      obtain ⟨e1, e2, e3, e4, e5⟩ := cbc_roundtrip_aux E D hED hE (crypt / 16) chain (rest.take crypt) hcl hcb
        (cc_isBytes_take hr crypt) htl
      have e1' : (cbcEnc E chain (rest.take crypt)).1.length = crypt := by rw [e1]; simp; omega
      by_cases h2 : (rest.drop crypt).length < skip
      · have hp : pat (cbcEnc E) crypt skip (fuel + 1) chain rest =
            (cbcEnc E chain (rest.take crypt)).1 ++ rest.drop crypt := by
          simp only [pat, ge_iff_le, h1, if_true, h2]
        rw [hp]
        refine ⟨by simp [e1']; omega, ?_⟩
        have t1 : List.take crypt ((cbcEnc E chain (rest.take crypt)).1 ++ rest.drop crypt) =
            (cbcEnc E chain (rest.take crypt)).1 :=
          cc_take_append_len _ _ crypt e1'
        have t2 : List.drop crypt ((cbcEnc E chain (rest.take crypt)).1 ++ rest.drop crypt) = rest.drop crypt :=
          cc_drop_append_len _ _ crypt e1'
        have hlen : crypt ≤ ((cbcEnc E chain (rest.take crypt)).1 ++ rest.drop crypt).length := by
          simp [e1']
        simp only [pat, ge_iff_le, hlen, if_true, t1, t2, h2, e5]
        exact List.take_append_drop crypt rest
      · obtain ⟨ihl, ihr⟩ := pat_roundtrip E D hED hE crypt skip hc hs fuel (cbcEnc E chain (rest.take crypt)).2
          ((rest.drop crypt).drop skip) e3 e4 (cc_isBytes_drop (cc_isBytes_drop hr crypt) skip)
          (by simp at h2 ⊢; omega)
        have hp : pat (cbcEnc E) crypt skip (fuel + 1) chain rest =
            (cbcEnc E chain (rest.take crypt)).1 ++ ((rest.drop crypt).take skip ++
              pat (cbcEnc E) crypt skip fuel (cbcEnc E chain (rest.take crypt)).2 ((rest.drop crypt).drop skip)) := by
          simp only [pat, ge_iff_le, h1, if_true, h2, if_false]
        rw [hp]
        have hsk : ((rest.drop crypt).take skip).length = skip := by
          simp at h2 ⊢; omega
        refine ⟨by simp only [List.length_append, e1', hsk, ihl]; simp; simp at h2; omega, ?_⟩
        generalize hX : pat (cbcEnc E) crypt skip fuel (cbcEnc E chain (rest.take crypt)).2
          ((rest.drop crypt).drop skip) = X at ihl ihr ⊢
        have t1 : List.take crypt ((cbcEnc E chain (rest.take crypt)).1 ++ ((rest.drop crypt).take skip ++ X)) =
            (cbcEnc E chain (rest.take crypt)).1 :=
          cc_take_append_len _ _ crypt e1'
        have t2 : List.drop crypt ((cbcEnc E chain (rest.take crypt)).1 ++ ((rest.drop crypt).take skip ++ X)) =
            (rest.drop crypt).take skip ++ X :=
          cc_drop_append_len _ _ crypt e1'
        have t3 : List.take skip ((rest.drop crypt).take skip ++ X) = (rest.drop crypt).take skip :=
          cc_take_append_len _ _ skip hsk
        have t4 : List.drop skip ((rest.drop crypt).take skip ++ X) = X :=
          cc_drop_append_len _ _ skip hsk
        have hlen : crypt ≤ ((cbcEnc E chain (rest.take crypt)).1 ++ ((rest.drop crypt).take skip ++ X)).length := by
          simp [e1']
        have hlen2 : ¬ ((rest.drop crypt).take skip ++ X).length < skip := by
          simp only [List.length_append, hsk]; omega
        simp only [pat, ge_iff_le, hlen, if_true, t1, t2, t3, t4, hlen2, if_false, e5, ihr]
        rw [List.take_append_drop, List.take_append_drop]
    · have hp : ∀ F, pat F crypt skip (fuel + 1) chain rest = rest := by
        intro F; simp only [pat, ge_iff_le, h1, if_false]
      rw [hp, hp]
      exact ⟨rfl, rfl⟩

end Mp4ff.Cenc
