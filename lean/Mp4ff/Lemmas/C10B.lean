import Mp4ff.Lemmas.C10A
/-!
C10 helpers, part B: ctts and stsc cropping.
-/
namespace Mp4ff.Crop
open Mp4ff.Stbl

/-! ### ctts -/
theorem ofCounts_ends (counts : List Nat) (offs : List Int) (hs : counts.sum < U32) :
    (Ctts.ofCounts counts offs).endSampleNr = 0 :: psums 0 counts := by
  unfold Ctts.ofCounts
  simp only []
  rw [ofCounts_foldl counts [0] 0 (by omega)]; rfl

theorem cropCtts_eval (counts : List Nat) (offs : List Int) (hl : counts.length = offs.length)
    (hs : counts.sum < U32) (last : Nat) (hlast : last ≤ counts.sum) :
    (last = 0 ∧ cropCtts (Ctts.ofCounts counts offs) last = some ⟨[0], []⟩) ∨
    (∃ j, j < counts.length ∧ (counts.take j).sum < last ∧ last ≤ (counts.take (j + 1)).sum ∧
      cropCtts (Ctts.ofCounts counts offs) last =
        some ⟨((0 :: psums 0 counts).set (j + 1) last).take (j + 2), offs.take (j + 1)⟩) := by
  have hE := ofCounts_ends counts offs hs
  have hO : (Ctts.ofCounts counts offs).offset = offs := rfl
  have hlen : (0 :: psums 0 counts).length = counts.length + 1 := by simp [psums_length]
  have hm : MonoD (0 :: psums 0 counts) := by
    intro p q hpq hq
    rw [hlen] at hq
    rw [ends_getD counts p (by omega), ends_getD counts q (by omega)]
    exact sum_take_mono counts p q hpq
  obtain ⟨_, h2, h3, h4⟩ := bsearchGE_spec (0 :: psums 0 counts) last hm ((0 :: psums 0 counts).length + 1) 0
    (0 :: psums 0 counts).length (by omega) (by omega) (by omega)
    (by intro p hp; omega) (by intro p hp hp'; omega)
  unfold cropCtts
  rw [hE, hO]
  simp only []
  generalize bsearchGE (0 :: psums 0 counts) last ((0 :: psums 0 counts).length + 1) 0
    (0 :: psums 0 counts).length = r at *
  rw [hlen] at h2 h4 ⊢
  have hrl : r ≤ counts.length := by
    by_cases e : r ≤ counts.length
    · exact e
    · have := h3 counts.length (by omega)
      rw [ends_getD counts _ (Nat.le_refl _), List.take_length] at this
      omega
  rw [if_neg (by omega), if_neg (by omega)]
  by_cases hr0 : r = 0
  · subst hr0
    left
    have := h4 0 (Nat.le_refl _) (by omega)
    simp at this
    subst this
    exact ⟨rfl, by simp⟩
  · right
    have a1 := h3 (r - 1) (by omega)
    rw [ends_getD counts _ (by omega)] at a1
    have a2 := h4 r (Nat.le_refl _) (by omega)
    rw [ends_getD counts _ hrl] at a2
    refine ⟨r - 1, by omega, a1, by rw [show r - 1 + 1 = r by omega]; exact a2, ?_⟩
    rw [show r - 1 + 1 = r by omega, show r - 1 + 2 = r + 1 by omega]

/-! ### stsc -/
theorem filter_take_of_inEntry {raw} (h : RawOK raw) {j c x} (hin : InEntry raw j c) (hx : x ≤ c) :
    (raw.take (j + 1)).filter (fun e => decide (e.1 ≤ x)) = raw.filter (fun e => decide (e.1 ≤ x)) := by
  have hj := hin.lt
  have e2 : (raw.drop (j + 1)).filter (fun e => decide (e.1 ≤ x)) = [] := by
    rw [List.filter_eq_nil_iff]
    intro a ha
    rw [List.mem_drop_iff_getElem] at ha
    obtain ⟨i, hi, rfl⟩ := ha
    have hi' : j + 1 + i < raw.length := by omega
    have := fcAt_le h (i := j + 1) (j := j + 1 + i) (by omega) hi'
    rw [fcAt_eq hi'] at this
    have := hin.hi (by omega)
    simp; omega
  conv => rhs; rw [← List.take_append_drop (j + 1) raw]
  rw [List.filter_append, e2, List.append_nil]

theorem spcOf_take {raw} (h : RawOK raw) {j c x} (hin : InEntry raw j c) (hx : x ≤ c) :
    spcOf (raw.take (j + 1)) x = spcOf raw x := by
  unfold spcOf; rw [filter_take_of_inEntry h hin hx]

theorem spcOf_take_append_lt {raw} (h : RawOK raw) {j c x} (hin : InEntry raw j c) (hx : x < c) (n s : Nat) :
    spcOf (raw.take (j + 1) ++ [(c, n, s)]) x = spcOf raw x := by
  unfold spcOf
  rw [List.filter_append, filter_take_of_inEntry h hin (by omega)]
  have : List.filter (fun e => decide (e.1 ≤ x)) [(c, n, s)] = [] := by
    simp; omega
  rw [this, List.append_nil]

theorem spcOf_append_self (l : List (Nat × Nat × Nat)) (c n s : Nat) :
    spcOf (l ++ [(c, n, s)]) c = n := by
  unfold spcOf
  rw [List.filter_append]
  have : List.filter (fun e => decide (e.1 ≤ c)) [(c, n, s)] = [(c, n, s)] := by simp
  rw [this, List.getLast?_concat]
  rfl

theorem firstSampleOf_congr (raw raw' : List (Nat × Nat × Nat)) : ∀ c,
    (∀ x, 1 ≤ x → x < c → spcOf raw' x = spcOf raw x) → firstSampleOf raw' c = firstSampleOf raw c := by
  intro c
  induction c with
  | zero => intro _; simp [firstSampleOf]
  | succ k ih =>
    intro hx
    by_cases hk : k = 0
    · subst hk; simp [firstSampleOf]
    · rw [firstSampleOf_succ raw (by omega), firstSampleOf_succ raw' (by omega),
        ih (fun x h1 h2 => hx x h1 (by omega)), hx k (by omega) (by omega)]

end Mp4ff.Crop
