import Mp4ff.Lemmas.BitsWriter
namespace Mp4ff.Bits

theorem shl_or_bits {n v k b : Nat} (hb : b < 2 ^ k) :
    lowBits (n + k) ((v <<< k) ||| b) = lowBits n v ++ lowBits k b := by
  rw [lowBits_append]
  congr 1
  · apply lowBits_congr
    intro i _
    rw [Nat.testBit_shiftRight, Nat.testBit_or, Nat.testBit_shiftLeft]
    have h1 : k + i ≥ k := by omega
    have h2 : b.testBit (k + i) = false :=
      Nat.testBit_lt_two_pow (Nat.lt_of_lt_of_le hb (Nat.pow_le_pow_right (by decide) (by omega)))
    simp [h1, h2]
  · apply lowBits_congr
    intro i hi
    rw [Nat.testBit_or, Nat.testBit_shiftLeft]
    have h1 : ¬ (i ≥ k) := by omega
    simp [h1]

theorem shl_lt {v n k : Nat} (hv : v < 2 ^ n) : v <<< k < 2 ^ (n + k) := by
  rw [Nat.shiftLeft_eq, Nat.pow_add]
  exact Nat.mul_lt_mul_of_pos_right hv (Nat.two_pow_pos k)

/-- refill loop: brings in whole bytes, keeps the remaining bit string, counts bytes -/
theorem BR.fill_spec (k : Nat) (hk : k ≤ 56) : ∀ (fuel n v nread : Nat) (rest : Bytes),
    v < 2 ^ n → n < k + 8 → IsBytes rest → k ≤ n + 8 * rest.length → k ≤ n + 8 * fuel →
    ∃ n' v' nread' rest', BR.fill k fuel n v nread rest = some (n', v', nread', rest') ∧
      k ≤ n' ∧ n' < k + 8 ∧ v' < 2 ^ n' ∧ IsBytes rest' ∧
      lowBits n' v' ++ bitsOfBytes rest' = lowBits n v ++ bitsOfBytes rest ∧
      nread' + rest'.length = nread + rest.length := by
  intro fuel
  induction fuel with
  | zero =>
    intro n v nread rest hv hn8 hr _ hf
    have : ¬ (n < k) := by omega
    exact ⟨n, v, nread, rest, by simp [BR.fill, this], by omega, hn8, hv, hr, rfl, rfl⟩
  | succ fuel ih =>
    intro n v nread rest hv hn8 hr hlen hf
    unfold BR.fill
    by_cases hnk : n < k
    · simp only [hnk, if_true]
      cases rest with
      | nil => simp at hlen; omega
      | cons b rest' =>
        simp only
        have hb : b < 256 := hr b (by simp)
        have hr' : IsBytes rest' := fun x hx => hr x (by simp [hx])
        have hno : (v <<< 8) % W64 = v <<< 8 := by
          apply Nat.mod_eq_of_lt
          have h1 := shl_lt (k := 8) hv
          have h2 : (2:Nat) ^ (n + 8) ≤ 2 ^ 64 := Nat.pow_le_pow_right (by decide) (by omega)
          unfold W64; omega
        rw [hno]
        have hv1 : (v <<< 8) ||| b < 2 ^ (n + 8) := by
          apply Nat.or_lt_two_pow (shl_lt hv)
          exact Nat.lt_of_lt_of_le hb (by
            have : (256:Nat) = 2 ^ 8 := by decide
            rw [this]; exact Nat.pow_le_pow_right (by decide) (by omega))
        have hlen' : k ≤ n + 8 + 8 * rest'.length := by simp at hlen; omega
        obtain ⟨n', v', nread', rest'', he, h1, h2, h3, h4, h5, h6⟩ :=
          ih (n + 8) ((v <<< 8) ||| b) (nread + 1) rest' hv1 (by omega) hr' hlen' (by omega)
        refine ⟨n', v', nread', rest'', he, h1, h2, h3, h4, ?_, ?_⟩
        · rw [h5, shl_or_bits (by simpa using hb)]
          simp [bitsOfBytes]
        · simp; omega
    · simp only [hnk, if_false]
      exact ⟨n, v, nread, rest, rfl, by omega, hn8, hv, hr, rfl, rfl⟩

/-- `Read(k)` returns the next `k` bits as a number and leaves the rest -/
theorem BR.read_spec (r : BR) (k : Nat) (hr : r.Inv) (hk : k ≤ 56) (havail : k ≤ r.abs.length) :
    (r.read k).1.Inv ∧ (r.read k).1.abs = r.abs.drop k ∧
      lowBits k (r.read k).2 = r.abs.take k ∧ (r.read k).2 < 2 ^ k ∧
      (r.read k).1.nread + (r.read k).1.rest.length = r.nread + r.rest.length := by
  obtain ⟨hn, hv, hrest, herr⟩ := hr
  have hlen : k ≤ r.n + 8 * r.rest.length := by simpa [BR.abs] using havail
  obtain ⟨n', v', nread', rest', he, h1, h2, h3, h4, h5, h6⟩ :=
    BR.fill_spec k hk (k / 8 + 1) r.n r.v r.nread r.rest hv (by omega) hrest hlen (by omega)
  unfold BR.read
  simp only [herr, Bool.false_eq_true, if_false, he]
  have hsplit : n' = k + (n' - k) := by omega
  have habs : r.abs = lowBits k (v' >>> (n' - k)) ++ (lowBits (n' - k) v' ++ bitsOfBytes rest') := by
    rw [BR.abs, ← h5, ← List.append_assoc]
    congr 1
    conv => lhs; rw [hsplit]
    exact lowBits_append k (n' - k) v'
  refine ⟨⟨show n' - k < 8 by omega, and_mask_lt _ _, h4, rfl⟩, ?_, ?_, ?_, h6⟩
  · simp only [BR.abs]
    rw [lowBits_and_mask (Nat.le_refl _)]
    have : (lowBits r.n r.v ++ bitsOfBytes r.rest) = r.abs := rfl
    rw [this, habs, List.drop_left' (by simp)]
  · rw [habs, List.take_left' (by simp)]
  · rw [Nat.shiftRight_eq_div_pow]
    apply Nat.div_lt_of_lt_mul
    rw [← Nat.pow_add]
    have : n' - k + k = n' := by omega
    rw [this]; exact h3

end Mp4ff.Bits
