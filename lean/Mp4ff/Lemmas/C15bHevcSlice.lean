import Mp4ff.Model.HevcSlice
import Mp4ff.Lemmas.C15bHevcPps
/-!
C15/C16, second part: the HEVC slice segment header instances (bit-level round trip, totality of the syntax part).
-/
namespace Mp4ff.HevcSlice
open Mp4ff.BitSyn Mp4ff.Bits Mp4ff.HevcSps Mp4ff.HevcPps

/-- **HEVC slice header round trip on the bit level** (C15): whatever follows the header bits (`tail`: the alignment
    bits and the slice data), reading the bits an independent serialiser wrote for a valid value assignment of the
    header syntax — PPS resolved through the slice's pps id, SPS through that PPS's sps id, reference picture set
    predicted from the SPS's sets — gives back exactly those values without error and leaves the reader exactly behind
    the header -/
theorem slice_roundtrip_bits (f : Nat) (sm pm : PsMap) (cap : Nat) (tr : Trace)
    (os : List Op) (e : ER) (P : Bytes) (tail : List Bool)
    (hops : ops f (slice sm pm cap) [] tr = some (os, tr, [])) (hst : stopped tr = false) (hok : ∀ op ∈ os, op.OK)
    (he : e.Inv P) (habs : e.abs P = opsBits os ++ tail) :
    ∃ e' P', parse f (slice sm pm cap) [] e = some (tr, e') ∧ e'.Inv P' ∧ e'.abs P' = tail ∧ e'.err = false ∧
      e'.nread + e'.rest.length = e.nread + e.rest.length := by
  obtain ⟨e', P', h1, h2, h3, h4⟩ := parse_ops f (slice sm pm cap) [] tr os tr [] e P tail hops hst hok he habs
  exact ⟨e', P', h1, h2, h3, h2.2.2.2.1, h4⟩

/-- the alignment loop is total by construction; the whole parser never runs out of fuel once the syntax part does not -/
theorem parseSlice_ne_fuel (f : Nat) (sm pm : PsMap) (nalu : Bytes)
    (h : (parse f (slice sm pm (capOf nalu)) [] { rest := nalu }).isSome) : parseSlice f sm pm nalu ≠ .fuel := by
  unfold parseSlice
  cases hp : parse f (slice sm pm (capOf nalu)) [] { rest := nalu } with
  | none => simp [hp] at h
  | some r =>
    obtain ⟨t, e⟩ := r
    simp only
    cases stopped t <;> simp <;> split <;> simp

/-- **the HEVC slice header parser terminates on every byte string** (C16), whatever the parameter sets: the generic
    depth bound of the syntax term is enough fuel -/
theorem slice_total (sm pm : PsMap) (nalu : Bytes) (f : Nat) (hf : depthL (slice sm pm (capOf nalu)) ≤ f) :
    parseSlice f sm pm nalu ≠ .fuel := by
  obtain ⟨t, e, hp, _⟩ := parse_total_depth f (slice sm pm (capOf nalu)) [] { rest := nalu } hf
  exact parseSlice_ne_fuel f sm pm nalu (by rw [hp]; rfl)

end Mp4ff.HevcSlice
