import Mp4ff.Model.Nalu
import Mp4ff.Props.C14
/-!
C16: the length-prefixed NAL-unit walkers (checked cursor) on arbitrary bytes: bounds and termination.
-/
namespace Mp4ff.Nalu

/-! ### helpers -/

theorem slice_length' (s : Bytes) (a b : Nat) : (slice s a b).length = min (b - a) (s.length - a) := by
  simp [slice]

theorem patch4_length (s : Bytes) (pos : Nat) (v : Bytes) (hv : v.length = 4) (h : pos + 4 ≤ s.length) :
    (patch4 s pos v).length = s.length := by
  simp [patch4, hv]; omega

theorem nfs_go_bounded (s : Bytes) : ∀ (f pos : Nat) (acc ns : List Bytes),
    nalusFromSample.go s f pos acc = some ns →
    (acc.map List.length).sum + 4 * acc.length ≤ pos → pos ≤ s.length →
    (∀ n ∈ acc, ∃ a, a + n.length ≤ s.length ∧ n = slice s a (a + n.length)) →
    (ns.map List.length).sum + 4 * ns.length ≤ s.length ∧
    ∀ n ∈ ns, ∃ a, a + n.length ≤ s.length ∧ n = slice s a (a + n.length) := by
  intro f
  induction f with
  | zero =>
    intro pos acc ns h h1 h2 h3
    simp only [nalusFromSample.go, Option.some.injEq] at h
    subst h
    exact ⟨by omega, h3⟩
  | succ f ih =>
    intro pos acc ns h h1 h2 h3
    rw [nalusFromSample.go] at h
    by_cases hg : pos + 4 < s.length
    · simp only [hg, if_true] at h
      by_cases hn : be32 s pos > s.length - (pos + 4)
      · simp [hn] at h
      · simp only [hn, if_false] at h
        have hl : (slice s (pos + 4) (pos + 4 + be32 s pos)).length = be32 s pos := by
          rw [slice_length']; omega
        refine ih _ _ _ h ?_ ?_ ?_
        · simp only [List.map_append, List.sum_append, List.length_append, List.map_cons, List.map_nil,
            List.sum_cons, List.sum_nil, List.length_cons, List.length_nil, hl]
          omega
        · omega
        · intro n hn'
          rcases List.mem_append.mp hn' with hm | hm
          · exact h3 n hm
          · simp only [List.mem_singleton] at hm
            refine ⟨pos + 4, ?_, ?_⟩
            · rw [hm, hl]; omega
            · rw [hm, hl]
    · simp only [hg, if_false, Option.some.injEq] at h
      subst h
      exact ⟨by omega, h3⟩

theorem nt_go_bounded (c : Codec) (stop : Bool) (s : Bytes) : ∀ (f pos : Nat) (acc : List Nat),
    acc.length * 4 ≤ pos → pos ≤ s.length → (naluTypes.go c stop s f pos acc).length * 4 ≤ s.length := by
  intro f
  induction f with
  | zero => intro pos acc h1 h2; simp only [naluTypes.go]; omega
  | succ f ih =>
    intro pos acc h1 h2
    rw [naluTypes.go]
    by_cases hg : pos + 4 < s.length
    · simp only [hg, if_true]
      split
      · simp only [List.length_append, List.length_cons, List.length_nil]; omega
      · split
        · simp only [List.length_append, List.length_cons, List.length_nil]; omega
        · apply ih
          · simp only [List.length_append, List.length_cons, List.length_nil]; omega
          · omega
    · simp only [hg, if_false]; omega

/-- size of a list of parameter sets, counting 4 bytes of length field each -/
def psSize (l : List (Nat × Bytes)) : Nat := (l.map (·.2.length)).sum + 4 * l.length

theorem psSize_snoc (l : List (Nat × Bytes)) (x : Nat × Bytes) : psSize (l ++ [x]) = psSize l + x.2.length + 4 := by
  simp only [psSize, List.map_append, List.sum_append, List.length_append, List.map_cons, List.map_nil,
    List.sum_cons, List.sum_nil, List.length_cons, List.length_nil]
  omega

theorem ps_go_bounded (c : Codec) (isPS : Nat → Bool) (s : Bytes) : ∀ (f pos : Nat) (acc : List (Nat × Bytes)),
    psSize acc ≤ pos → pos ≤ s.length → psSize (paramSets.go c isPS s f pos acc) ≤ s.length := by
  intro f
  induction f with
  | zero => intro pos acc h1 h2; simp only [paramSets.go]; omega
  | succ f ih =>
    intro pos acc h1 h2
    rw [paramSets.go]
    by_cases hg : pos + 4 < s.length
    · simp only [hg, if_true]
      split
      · omega
      · have hl : (slice s (pos + 4) (pos + 4 + be32 s pos)).length = be32 s pos := by
          rw [slice_length']; omega
        split
        · apply ih
          · rw [psSize_snoc]; simp only [hl]; omega
          · omega
        · split
          · omega
          · apply ih <;> omega
    · simp only [hg, if_false]; omega

theorem nfs_go_fuel (s : Bytes) : ∀ (f g pos : Nat) (acc : List Bytes),
    s.length - pos + 1 ≤ f → s.length - pos + 1 ≤ g →
    nalusFromSample.go s f pos acc = nalusFromSample.go s g pos acc := by
  intro f
  induction f with
  | zero => intro g pos acc hf; omega
  | succ f ih =>
    intro g pos acc hf hg
    obtain ⟨g, rfl⟩ : ∃ g', g = g' + 1 := ⟨g - 1, by omega⟩
    rw [nalusFromSample.go, nalusFromSample.go]
    by_cases hc : pos + 4 < s.length
    · simp only [hc, if_true]
      split
      · rfl
      · apply ih <;> omega
    · simp only [hc, if_false]

theorem nt_go_fuel (c : Codec) (stop : Bool) (s : Bytes) : ∀ (f g pos : Nat) (acc : List Nat),
    s.length - pos + 1 ≤ f → s.length - pos + 1 ≤ g →
    naluTypes.go c stop s f pos acc = naluTypes.go c stop s g pos acc := by
  intro f
  induction f with
  | zero => intro g pos acc hf; omega
  | succ f ih =>
    intro g pos acc hf hg
    obtain ⟨g, rfl⟩ : ∃ g', g = g' + 1 := ⟨g - 1, by omega⟩
    rw [naluTypes.go, naluTypes.go]
    by_cases hc : pos + 4 < s.length
    · simp only [hc, if_true]
      split
      · rfl
      · split
        · rfl
        · apply ih <;> omega
    · simp only [hc, if_false]

theorem ct_go_fuel (c : Codec) (s : Bytes) (t0 : Nat) : ∀ (f g pos : Nat),
    s.length - pos + 1 ≤ f → s.length - pos + 1 ≤ g →
    containsType.go c s t0 f pos = containsType.go c s t0 g pos := by
  intro f
  induction f with
  | zero => intro g pos hf; omega
  | succ f ih =>
    intro g pos hf hg
    obtain ⟨g, rfl⟩ : ∃ g', g = g' + 1 := ⟨g - 1, by omega⟩
    rw [containsType.go, containsType.go]
    by_cases hc : pos + 4 < s.length
    · simp only [hc, if_true]
      split
      · rfl
      · split
        · rfl
        · apply ih <;> omega
    · simp only [hc, if_false]

theorem ps_go_fuel (c : Codec) (isPS : Nat → Bool) (s : Bytes) : ∀ (f g pos : Nat) (acc : List (Nat × Bytes)),
    s.length - pos + 1 ≤ f → s.length - pos + 1 ≤ g →
    paramSets.go c isPS s f pos acc = paramSets.go c isPS s g pos acc := by
  intro f
  induction f with
  | zero => intro g pos acc hf; omega
  | succ f ih =>
    intro g pos acc hf hg
    obtain ⟨g, rfl⟩ : ∃ g', g = g' + 1 := ⟨g - 1, by omega⟩
    rw [paramSets.go, paramSets.go]
    by_cases hc : pos + 4 < s.length
    · simp only [hc, if_true]
      split
      · rfl
      · split
        · apply ih <;> omega
        · split
          · rfl
          · apply ih <;> omega
    · simp only [hc, if_false]

theorem tbs_fuel_gen : ∀ (f g : Nat) (s : Bytes) (pos : Nat),
    s.length - pos + 1 ≤ f → s.length - pos + 1 ≤ g → toByteStream f s pos = toByteStream g s pos := by
  intro f
  induction f with
  | zero => intro g s pos hf; omega
  | succ f ih =>
    intro g s pos hf hg
    obtain ⟨g, rfl⟩ : ∃ g', g = g' + 1 := ⟨g - 1, by omega⟩
    rw [toByteStream, toByteStream]
    by_cases hc : pos + 4 ≤ s.length
    · simp only [hc, if_true]
      split
      · rfl
      · have hl := patch4_length s pos [0, 0, 0, 1] rfl hc
        apply ih <;> (rw [hl]; omega)
    · simp only [hc, if_false]

/-- **GetNalusFromSample on any bytes**: what is returned fits inside the input (4 bytes of length field per unit),
    and every unit is a contiguous piece of the input -/
theorem nalusFromSample_bounded (s : Bytes) (ns : List Bytes) (h : nalusFromSample s = some ns) :
    (ns.map List.length).sum + 4 * ns.length ≤ s.length ∧
    ∀ n ∈ ns, ∃ a, a + n.length ≤ s.length ∧ n = slice s a (a + n.length) := by
  unfold nalusFromSample at h
  by_cases h4 : s.length < 4
  · simp [h4] at h
  · simp only [h4, if_false] at h
    exact nfs_go_bounded s _ 0 [] ns h (by simp) (by omega) (by simp)

/-- **FindNaluTypes / …UpToFirstVideoNALU on any bytes**: at most one type per 4 input bytes -/
theorem naluTypes_bounded (c : Codec) (stop : Bool) (s : Bytes) : (naluTypes c stop s).length * 4 ≤ s.length := by
  unfold naluTypes
  by_cases h4 : s.length < 4
  · simp [h4]
  · simp only [h4, if_false]
    exact nt_go_bounded c stop s _ 0 [] (by simp) (by omega)

/-- **GetParameterSets on any bytes**: the returned parameter sets fit inside the input -/
theorem paramSets_bounded (c : Codec) (isPS : Nat → Bool) (s : Bytes) :
    ((paramSets c isPS s).map (·.2.length)).sum + 4 * (paramSets c isPS s).length ≤ s.length := by
  have := ps_go_bounded c isPS s (s.length + 1) 0 [] (by simp [psSize]) (by omega)
  exact this

/-- **ConvertSampleToByteStream on any bytes** rewrites in place: the length never changes -/
theorem toByteStream_length (fuel : Nat) (s : Bytes) (pos : Nat) : (toByteStream fuel s pos).length = s.length := by
  induction fuel generalizing s pos with
  | zero => rfl
  | succ f ih =>
    rw [toByteStream]
    by_cases hc : pos + 4 ≤ s.length
    · simp only [hc, if_true]
      have hl := patch4_length s pos [0, 0, 0, 1] rfl hc
      split
      · exact hl
      · rw [ih, hl]
    · simp only [hc, if_false]

/-- **the walks terminate within |s| + 1 steps**: a larger fuel never changes the answer (every iteration advances the
    cursor by at least 4) -/
theorem nalusFromSample_fuel (s : Bytes) (f : Nat) (hf : s.length + 1 ≤ f) :
    nalusFromSample.go s f 0 [] = nalusFromSample.go s (s.length + 1) 0 [] := by
  exact nfs_go_fuel s _ _ 0 [] (by omega) (by omega)

theorem naluTypes_fuel (c : Codec) (stop : Bool) (s : Bytes) (f : Nat) (hf : s.length + 1 ≤ f) :
    naluTypes.go c stop s f 0 [] = naluTypes.go c stop s (s.length + 1) 0 [] := by
  exact nt_go_fuel c stop s _ _ 0 [] (by omega) (by omega)

theorem containsType_fuel (c : Codec) (s : Bytes) (t0 : Nat) (f : Nat) (hf : s.length + 1 ≤ f) :
    containsType.go c s t0 f 0 = containsType.go c s t0 (s.length + 1) 0 := by
  exact ct_go_fuel c s t0 _ _ 0 (by omega) (by omega)

theorem paramSets_fuel (c : Codec) (isPS : Nat → Bool) (s : Bytes) (f : Nat) (hf : s.length + 1 ≤ f) :
    paramSets.go c isPS s f 0 [] = paramSets.go c isPS s (s.length + 1) 0 [] := by
  exact ps_go_fuel c isPS s _ _ 0 [] (by omega) (by omega)

theorem toByteStream_fuel (s : Bytes) (f : Nat) (hf : s.length + 1 ≤ f) :
    toByteStream f s 0 = toByteStream (s.length + 1) s 0 := by
  exact tbs_fuel_gen _ _ s 0 (by omega) (by omega)

end Mp4ff.Nalu
