import Mp4ff.Model.Walk
namespace Mp4ff.Walk

theorem header_facts {bs : Bytes} {pos : Nat} {ty : String} {size hl : Nat}
    (h : header bs pos = some (ty, size, hl)) :
    pos + hl ≤ bs.length ∧ (hl = 8 ∨ hl = 16) ∧ hl ≤ size := by
  unfold header at h
  split at h
  · simp at h
  · simp only at h
    split at h
    · split at h
      · simp at h
      · split at h
        · simp at h
        · simp only [Option.some.injEq, Prod.mk.injEq] at h
          omega
    · split at h
      · simp at h
      · split at h
        · simp at h
        · simp only [Option.some.injEq, Prod.mk.injEq] at h
          omega

theorem count_mk (ty : String) (size : Nat) (kids : List Node) :
    (Node.mk ty size kids).count = 1 + countAll kids := by
  simp [Node.count]

theorem countAll_nil : countAll [] = 0 := by simp [countAll]
theorem countAll_cons (n : Node) (ns : List Node) : countAll (n :: ns) = n.count + countAll ns := by
  simp [countAll]

theorem bound_both (f : Nat) :
    (∀ (bs : Bytes) (pos : Nat) (n : Node) (p : Nat), decodeBox f bs pos = some (n, p) →
      pos + 8 ≤ p ∧ p ≤ bs.length ∧ n.count * 8 ≤ p - pos) ∧
    (∀ (bs : Bytes) (rpos left : Nat) (ns : List Node) (p : Nat), rpos ≤ bs.length →
      decodeChildren f bs rpos left = some (ns, p) →
      rpos ≤ p ∧ p ≤ bs.length ∧ countAll ns * 8 ≤ p - rpos) := by
  induction f with
  | zero => constructor <;> intros <;> simp_all [decodeBox, decodeChildren]
  | succ f ih =>
    obtain ⟨ihB, ihC⟩ := ih
    constructor
    · intro bs pos n p h
      simp only [decodeBox] at h
      split at h
      · simp at h
      · rename_i ty size hl hh
        have ⟨h1, h2, h3⟩ := header_facts hh
        split at h
        · simp at h
        · split at h
          · split at h
            · rename_i kids p' hc
              simp only [Option.some.injEq, Prod.mk.injEq] at h
              obtain ⟨rfl, rfl⟩ := h
              have ⟨c1, c2, c3⟩ := ihC _ _ _ _ _ h1 hc
              rw [count_mk]
              omega
            · simp at h
          · split at h
            · simp at h
            · simp only [Option.some.injEq, Prod.mk.injEq] at h
              obtain ⟨rfl, rfl⟩ := h
              rw [count_mk, countAll_nil]
              omega
    · intro bs rpos left ns p hr h
      simp only [decodeChildren] at h
      split at h
      · simp only [Option.some.injEq, Prod.mk.injEq] at h
        obtain ⟨rfl, rfl⟩ := h
        rw [countAll_nil]; omega
      · split at h
        · simp at h
        · rename_i n rpos' hb
          have ⟨b1, b2, b3⟩ := ihB _ _ _ _ hb
          split at h
          · simp at h
          · split at h
            · simp at h
            · split at h
              · rename_i ns' p' hc
                simp only [Option.some.injEq, Prod.mk.injEq] at h
                obtain ⟨rfl, rfl⟩ := h
                have ⟨c1, c2, c3⟩ := ihC _ _ _ _ _ b2 hc
                rw [countAll_cons]
                omega
              · simp at h

end Mp4ff.Walk
