import Mp4ff.Lemmas.CencRanges
/-! `protectRanges` for scheme cbcs: for every slice header size function, the sub-sample map has the standard's mask -/
namespace Mp4ff.Cenc
open Mp4ff.Nalu

def AccClearOK (acc : List SubSample) : Prop := ∀ r ∈ acc, r.clear ≤ 65535

theorem cbcsMask_cons (c : Codec) (hdr : Bytes → Option Nat) (n : Bytes) (rest : List Bytes) : cbcsMask c hdr (n :: rest) =
    List.replicate (4 + n.length - cbcsProt c hdr n) false ++ List.replicate (cbcsProt c hdr n) true ++ cbcsMask c hdr rest := by
  simp [cbcsMask]

theorem cbcs_arith (P L k cs : Nat) (h : P + 4 + L < U32) (hk : k ≤ L) (hcs : cs ≤ P) :
    (P + 4 + k) % U32 = P + 4 + k ∧ (L + U32 - k) % U32 = L - k ∧
    (P + 4 + k + U32 - cs) % U32 = P + 4 + k - cs ∧ (P + 4 + k + (L - k)) % U32 = P + 4 + L := by
  simp only [U32_eq] at *
  omega

theorem pr_go_cbcs (c : Codec) (hdr : Bytes → Option Nat) (s : Bytes) :
    ∀ (rest : List Bytes) (pre : Bytes) (fuel cs : Nat) (acc : List SubSample),
    s = pre ++ lenPrefixed rest → s.length < U32 → (∀ n ∈ rest, n ≠ []) → rest.length + 1 ≤ fuel →
    (∀ n ∈ rest, c.isVideo (c.typeOf (n.headD 0)) = true → ∃ k, hdr n = some k ∧ k ≤ n.length) →
    cs ≤ pre.length → AccClearOK acc →
    ∃ rs, protectRanges.go c (some hdr) s fuel pre.length cs pre.length acc = some rs ∧
      maskOf rs = maskOf acc ++ List.replicate (pre.length - cs) false ++ cbcsMask c hdr rest ∧ AccClearOK rs := by
  intro rest
  induction rest with
  | nil =>
    intro pre fuel cs acc hs hlt _ hf _ hcs hacc
    obtain ⟨f, rfl⟩ : ∃ f, fuel = f + 1 := ⟨fuel - 1, by omega⟩
    have hl : s.length = pre.length := by simp [hs, lenPrefixed]
    rw [protectRanges.go]
    simp only [(end_facts_u32 s pre hs hlt).1, if_false]
    have hm : (pre.length + U32 - cs) % U32 = pre.length - cs := by
      rw [U32_eq] at hlt ⊢; omega
    rw [hm]
    by_cases hgt : pre.length > cs
    · simp only [hgt, if_true]
      obtain ⟨ext, he, _, _, h3, _, h5⟩ := appendProtectRange_spec' 0 (pre.length - cs) acc
      refine ⟨_, rfl, ?_, ?_⟩
      · rw [he, maskOf_append', h5]; simp [cbcsMask]
      · rw [he]
        intro r hr
        rcases List.mem_append.mp hr with hr | hr
        · exact hacc r hr
        · exact h3 r hr
    · simp only [hgt, if_false]
      refine ⟨_, rfl, ?_, hacc⟩
      have : pre.length - cs = 0 := by omega
      simp [this, cbcsMask]
  | cons n rest ih =>
    intro pre fuel cs acc hs hlt hne hf hh hcs hacc
    obtain ⟨f, rfl⟩ : ∃ f, fuel = f + 1 := ⟨fuel - 1, by omega⟩
    obtain ⟨hg, _, hbe, hp1, hp2, hsl, hb, hs', hl', hle⟩ := step_facts_u32 s pre n rest hs hlt (hne n (by simp))
    rw [protectRanges.go]
    simp only [hg, if_true, hbe, hp1, hp2, hb, hsl]
    have hle' : ¬ (pre.length + 4 + n.length > s.length) := by omega
    simp only [hle', if_false]
    have hih := fun cs' acc' => ih (pre ++ put32 n.length ++ n) f cs' acc' hs' hlt
      (fun m hm => hne m (by simp [hm])) (by simp at hf; omega) (fun m hm => hh m (by simp [hm]))
    rw [hl'] at hih
    rw [cbcsMask_cons]
    have hlt' : pre.length + 4 + n.length < U32 := by omega
    -- the unit without protected bytes
    have hclear : cbcsProt c hdr n = 0 →
        ∃ rs, protectRanges.go c (some hdr) s f (pre.length + 4 + n.length) cs (pre.length + 4 + n.length) acc = some rs ∧
          maskOf rs = maskOf acc ++ List.replicate (pre.length - cs) false ++
            (List.replicate (4 + n.length - cbcsProt c hdr n) false ++ List.replicate (cbcsProt c hdr n) true ++
              cbcsMask c hdr rest) ∧ AccClearOK rs := by
      intro hq
      obtain ⟨rs, h1, h2, h3⟩ := hih cs acc (by omega) hacc
      refine ⟨rs, h1, ?_, h3⟩
      rw [h2, hq]
      have e : pre.length + 4 + n.length - cs = (pre.length - cs) + (4 + n.length) := by omega
      rw [e, rep_split (pre.length - cs)]
      simp only [List.append_assoc, Nat.sub_zero, List.replicate_zero, List.append_nil]
    cases hv : c.isVideo (c.typeOf (n.headD 0)) with
    | false =>
      simp only [Bool.false_eq_true, if_false, gt_iff_lt, Nat.lt_irrefl]
      exact hclear (by simp only [cbcsProt, hv]; simp)
    | true =>
      simp only [if_true]
      obtain ⟨k, hk, hkl⟩ := hh n (by simp) hv
      obtain ⟨a1, a2, a3, a4⟩ := cbcs_arith pre.length n.length k cs hlt' hkl hcs
      have hq : cbcsProt c hdr n = n.length - k := by simp only [cbcsProt, hv, hk]; simp
      simp only [hk, a1, a2]
      by_cases hp : n.length - k > 0
      · simp only [hp, if_true, a3, a4]
        rw [← hq] at hp a4 ⊢
        obtain ⟨ext, he, _, _, h3, _, h5⟩ := appendProtectRange_spec' (cbcsProt c hdr n) (pre.length + 4 + k - cs) acc
        rw [he]
        have hacc' : AccClearOK (acc ++ ext) := by
          intro r hr
          rcases List.mem_append.mp hr with hr | hr
          · exact hacc r hr
          · exact h3 r hr
        obtain ⟨rs, h1, h2, h3'⟩ := hih (pre.length + 4 + n.length) (acc ++ ext) (Nat.le_refl _) hacc'
        refine ⟨rs, h1, ?_, h3'⟩
        rw [h2, maskOf_append', h5]
        have e : pre.length + 4 + k - cs = (pre.length - cs) + (4 + n.length - cbcsProt c hdr n) := by omega
        rw [e, rep_split (pre.length - cs)]
        simp only [List.append_assoc, Nat.sub_self, List.replicate_zero, List.append_nil]
      · simp only [hp, if_false]
        have hkn : k = n.length := by omega
        subst hkn
        exact hclear (by rw [hq]; omega)

theorem protectRanges_cbcs' (c : Codec) (hdr : Bytes → Option Nat) (ns : List Bytes) (h : NalusOK ns) (hne : ns ≠ [])
    (hh : ∀ n ∈ ns, c.isVideo (c.typeOf (n.headD 0)) = true → ∃ k, hdr n = some k ∧ k ≤ n.length) :
    ∃ rs, protectRanges c (some hdr) (lenPrefixed ns) = some rs ∧ maskOf rs = cbcsMask c hdr ns ∧
      (∀ r ∈ rs, r.clear ≤ 65535) := by
  obtain ⟨hb, hlt⟩ := h
  have hnz : ∀ m ∈ ns, m ≠ [] := fun m hm => (hb m hm).1
  have hfuel : ns.length + 1 ≤ (lenPrefixed ns).length + 1 := by
    have := length_le_lenPrefixed ns; omega
  have h4 : ¬ (lenPrefixed ns).length < 4 := by
    cases ns with
    | nil => exact absurd rfl hne
    | cons n rest =>
      have := nonempty_len (hnz n (by simp))
      rw [lenPrefixed_length_cons]; omega
  unfold protectRanges
  simp only [h4, if_false]
  obtain ⟨rs, h1, h2, h3⟩ := pr_go_cbcs c hdr (lenPrefixed ns) ns [] _ 0 [] rfl hlt hnz hfuel hh (Nat.le_refl _)
    (fun r hr => absurd hr (by simp))
  refine ⟨rs, h1, ?_, h3⟩
  rw [h2]
  simp [maskOf]

end Mp4ff.Cenc
