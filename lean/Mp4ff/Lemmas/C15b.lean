import Mp4ff.Model.HevcSps
import Mp4ff.Lemmas.C15bPps
/-!
C15/C16, second part: the AVC PPS theorems are in `C15bPps.lean` (imported); here the HEVC SPS instances:
round trip (the generic theorem + the look-ahead/trailing-bits specs), totality with a fuel bound linear in the
NAL unit length, bounded output, picture size vs. the standard's formula.
-/
namespace Mp4ff.BitSyn
open Mp4ff.Bits

theorem depthL_append_le : ∀ (a b : List Syn), depthL (a ++ b) ≤ depthL a + depthL b
  | [], b => by simp only [List.nil_append, depthL]; omega
  | s :: a, b => by
    have := depthL_append_le a b
    simp only [List.cons_append, depthL]
    omega

theorem maxEntriesL_append : ∀ (a b : List Syn), maxEntriesL (a ++ b) = maxEntriesL a + maxEntriesL b
  | [], b => by simp [maxEntriesL]
  | s :: a, b => by
    have := maxEntriesL_append a b
    simp only [List.cons_append, maxEntriesL]
    omega

end Mp4ff.BitSyn

namespace Mp4ff.HevcSps
open Mp4ff.BitSyn Mp4ff.Bits

/-! ### fuel and output bounds -/

theorem depthL_varFld_append (nm : String) (w : Trace → Nat) : ∀ (k : Nat) (rest : List Syn),
    depthL (varFld nm w k ++ rest) = k + 1 + max 2 (depthL rest)
  | 0, rest => by
    simp only [varFld, List.cons_append, List.nil_append, depthL, bodyDepth, repCount]
    omega
  | k + 1, rest => by
    have := depthL_varFld_append nm w k (.cond (fun t => w t = k + 1) [.fld nm (k + 1)] :: rest)
    simp only [varFld, List.append_assoc, List.cons_append, List.nil_append]
    rw [this]
    simp only [depthL, bodyDepth, repCount]
    omega

theorem depthL_varFld (nm : String) (w : Trace → Nat) (k : Nat) : depthL (varFld nm w k) = k + 3 := by
  have := depthL_varFld_append nm w k []
  simp only [List.append_nil, depthL] at this
  omega

theorem maxEntriesL_varFld (nm : String) (w : Trace → Nat) : ∀ k, maxEntriesL (varFld nm w k) = k + 1
  | 0 => by simp [varFld, maxEntriesL, maxEntries]
  | k + 1 => by
    have := maxEntriesL_varFld nm w k
    simp only [varFld, maxEntriesL_append, this, maxEntriesL, maxEntries]

theorem depthL_spsHead : depthL spsHead = 819 := by decide +kernel

theorem maxEntriesL_spsHead : maxEntriesL spsHead = 96186 := by decide +kernel

theorem depthL_sccExt (cap : Nat) : depthL (sccExt cap) ≤ 3 * cap + 40 := by
  simp only [sccExt, depthL, bodyDepth, repCount, depthL_varFld]
  omega

theorem maxEntriesL_sccExt (cap : Nat) : maxEntriesL (sccExt cap) = 51 * cap + 8 := by
  simp only [sccExt, maxEntriesL, maxEntries, maxEntriesL_varFld]
  omega

theorem depthL_sps (cap : Nat) : depthL (sps cap) ≤ 3 * cap + 870 := by
  have h1 := depthL_append_le spsHead [.cond (fun t => t.get "sps_scc_extension_flag" = 1) (sccExt cap)]
  have h2 := depthL_sccExt cap
  rw [depthL_spsHead] at h1
  simp only [depthL, bodyDepth, repCount] at h1
  unfold sps
  omega

theorem maxEntriesL_sps (cap : Nat) : maxEntriesL (sps cap) = 51 * cap + 96194 := by
  unfold sps
  rw [maxEntriesL_append, maxEntriesL_spsHead]
  simp only [maxEntriesL, maxEntries, maxEntriesL_sccExt]
  omega

/-- the outcomes of `parseSps` once the fuel covers the recursion depth: an error, or a bounded list of values -/
theorem parseSps_cases (f : Nat) (nalu : Bytes) (hf : 3 * capOf nalu + 870 ≤ f) :
    parseSps f nalu = .err ∨
    ∃ t ext, parseSps f nalu = .ok t ext ∧ t.length ≤ 51 * capOf nalu + 96194 := by
  obtain ⟨t, e, hp, hl⟩ := parse_total_depth f (sps (capOf nalu)) [] { rest := nalu }
    (by have := depthL_sps (capOf nalu); omega)
  rw [maxEntriesL_sps] at hl
  simp only [List.length_nil, Nat.zero_add] at hl
  unfold parseSps
  simp only [hp]
  by_cases h1 : stopped t = true ∨ e.err = true
  · left; simp only [h1, if_true]
  · simp only [h1, if_false]
    generalize (if t.nat "sps_extension_4bits" > 0 then extFlags (e.bitsLeft + 1) e [] else (e, [])) = r
    by_cases hc : (Sei.readTrailing r.1).2 ≠ .none ∨ (Sei.readTrailing r.1).1.err = true
    · left; simp only [hc, if_true]
    · right; exact ⟨t, r.2, by simp only [hc, if_false], hl⟩

/-- **the HEVC SPS parser terminates on every byte string** (C16): fuel = 3 × (bits of the NAL unit + 8) + 870 -/
theorem sps_total (nalu : Bytes) (f : Nat) (hf : 3 * capOf nalu + 870 ≤ f) : parseSps f nalu ≠ .fuel := by
  rcases parseSps_cases f nalu hf with h | ⟨t, ext, h, _⟩ <;> rw [h] <;> simp

/-- the driver fuel `HevcSps.fuel` is always enough -/
theorem sps_total_driver (nalu : Bytes) : parseSps (fuel nalu) nalu ≠ .fuel :=
  sps_total nalu (fuel nalu) (by simp only [capOf, fuel]; omega)

/-- **bounded output**: the number of values returned is linear in the input length -/
theorem sps_total_length (nalu : Bytes) (f : Nat) (hf : 3 * capOf nalu + 870 ≤ f) :
    ∀ t ext, parseSps f nalu = .ok t ext → t.length ≤ 51 * capOf nalu + 96194 := by
  intro t ext ht
  rcases parseSps_cases f nalu hf with h | ⟨t', ext', h, hl⟩
  · rw [h] at ht; cases ht
  · rw [h] at ht; cases ht; exact hl

/-! ### round trip -/

/-- at the stop bit the extension-data loop reads nothing and leaves the reader where it is -/
theorem extFlags_at_trailing (e : ER) (P : Bytes) (m : Nat) (h : e.Inv P)
    (habs : e.abs P = true :: List.replicate m false) (fuel : Nat) : extFlags (fuel + 1) e [] = (e, []) := by
  have hm := Sei.moreRbspData_spec e P true _ h habs
  rw [if_pos rfl, AvcPps.any_replicate_false] at hm
  simp [extFlags, hm]

/-- **HEVC SPS round trip** (C15): the NAL unit an independent serialiser writes for a valid value assignment of the
    syntax (any sub-layers, scaling list data, short-term RPS incl. inter prediction, long-term pictures, VUI/HRD,
    extensions) parses back — through the complete `ParseSPSNALUnit` model, incl. the `sps_extension_data_flag`
    look-ahead and the trailing-bits check — to exactly those values -/
theorem sps_roundtrip (f : Nat) (tr : Trace) (nalu : Bytes) (h : TraceOK f (sps (capOf nalu)) tr)
    (hs : serialize f (sps (capOf nalu)) tr = some nalu) : parseSps f nalu = .ok tr [] := by
  obtain ⟨⟨os, a, hops, hok⟩, hst⟩ := h
  have ha : a = tr := by simpa using AvcPps.ops_acc_eq hops
  subst ha
  simp only [serialize, hops, Option.some.injEq] at hs
  obtain ⟨P, m, hinv, habs⟩ := AvcPps.init_reader os hok
  rw [hs] at hinv habs
  obtain ⟨e1, P1, p1, i1, a1, _⟩ := parse_ops f (sps (capOf nalu)) [] a os a [] _ P _ hops hst hok hinv
    (by simpa using habs)
  have herr : e1.err = false := i1.2.2.2.1
  obtain ⟨ht1, ht2⟩ := Sei.readTrailing_spec e1 P1 m i1 a1
  have hx := extFlags_at_trailing e1 P1 m i1 a1 e1.bitsLeft
  unfold parseSps
  simp only [p1, hst, herr, hx, Bool.false_eq_true, or_self, if_false, ite_self, ht1, ht2, ne_eq,
    not_true_eq_false]

/-! ### picture size -/

/-- **picture size** (C15): `SPS.ImageSize()` (uint32 arithmetic) is the standard's derivation whenever chroma_format_idc
    is one of the four defined values and the conformance window lies inside the picture -/
theorem dims_eq_std (t : Trace) (hc : t.nat "chroma_format_idc" ≤ 3) (hfit : WindowFits t) :
    stdDims t = some (dims t) := by
  unfold WindowFits at hfit
  unfold dims stdDims chroma
  generalize t.nat "chroma_format_idc" = c at hc ⊢
  generalize t.nat "pic_width_in_luma_samples" = w at hfit ⊢
  generalize t.nat "pic_height_in_luma_samples" = h at hfit ⊢
  generalize t.nat "conf_win_left_offset" = l at hfit ⊢
  generalize t.nat "conf_win_right_offset" = r at hfit ⊢
  generalize t.nat "conf_win_top_offset" = tp at hfit ⊢
  generalize t.nat "conf_win_bottom_offset" = b at hfit ⊢
  obtain ⟨h1, h2, h3, h4⟩ := hfit
  have hM : (2 : Nat) ^ 32 = 4294967296 := by decide
  rw [hM] at h1 h2 ⊢
  match c, hc with
  | 0, _ => simp; omega
  | 1, _ => simp; omega
  | 2, _ => simp; omega
  | 3, _ => simp; omega

/-! ### the split 48-bit read -/

/-- **`Read(48)` = `Read(16)` then `Read(32)`** (the one place where the SPS term deviates from the letter of the
    code): on a reader with at least 48 unread bits both give the same value (high 16 bits · 2^32 + low 32 bits), leave
    the same unread bits and no error -/
theorem read48_split (e : ER) (P : Bytes) (he : e.Inv P) (h : 48 ≤ (e.abs P).length) :
    (e.read 48).2 = (e.read 16).2 * 2 ^ 32 + ((e.read 16).1.read 32).2 ∧
    ∃ P1 P2, (e.read 48).1.Inv P1 ∧ ((e.read 16).1.read 32).1.Inv P2 ∧
      (e.read 48).1.abs P1 = ((e.read 16).1.read 32).1.abs P2 := by
  obtain ⟨P1, i1, a1, v1, b1, _⟩ := ER.read_spec e P 48 he (by omega) h
  obtain ⟨Pa, ia, aa, va, ba, _⟩ := ER.read_spec e P 16 he (by omega) (by omega)
  obtain ⟨P2, i2, a2, v2, b2, _⟩ := ER.read_spec (e.read 16).1 Pa 32 ia (by omega) (by rw [aa]; simp; omega)
  generalize (e.read 48).2 = v at v1 b1 ⊢
  generalize (e.read 16).2 = hi at va ba ⊢
  generalize ((e.read 16).1.read 32).2 = lo at v2 b2 ⊢
  refine ⟨?_, P1, P2, i1, i2, ?_⟩
  · have hx : hi * 2 ^ 32 + lo < 2 ^ 48 := by
      have : (2 : Nat) ^ 48 = 2 ^ 16 * 2 ^ 32 := by decide
      have h32 : (2 : Nat) ^ 32 = 4294967296 := by decide
      have h16 : (2 : Nat) ^ 16 = 65536 := by decide
      rw [this, h32, h16] at *
      omega
    apply eq_of_lowBits_eq b1 hx
    rw [v1]
    have hsplit : lowBits 48 (hi * 2 ^ 32 + lo) = lowBits 16 ((hi * 2 ^ 32 + lo) >>> 32) ++ lowBits 32 (hi * 2 ^ 32 + lo) :=
      lowBits_append 16 32 _
    rw [hsplit]
    have hshift : (hi * 2 ^ 32 + lo) >>> 32 = hi := by
      rw [Nat.shiftRight_eq_div_pow]
      have h32 : (2 : Nat) ^ 32 = 4294967296 := by decide
      rw [h32] at b2 ⊢
      omega
    have hlow : lowBits 32 (hi * 2 ^ 32 + lo) = lowBits 32 lo := by
      apply lowBits_congr
      intro i hi32
      rw [Nat.mul_comm, Nat.testBit_two_pow_mul_add _ b2]
      simp [hi32]
    rw [hshift, hlow, va, v2, aa]
    rw [← List.take_add]
  · rw [a1, a2, aa, List.drop_drop]

end Mp4ff.HevcSps
