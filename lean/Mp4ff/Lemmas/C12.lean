import Mp4ff.Model.Segments
/-!
Proofs for C12 (fragments are grouped into segments faithfully; the index tiles the media); restated in Props/C12.lean.
-/
namespace Mp4ff.Segments

/-- all moof start positions held by the segments, flattened in segment/fragment order -/
def moofsOf (st : St) : List Nat := st.segs.flatMap fun s => s.frags.filterMap (·.moof)

/-- total number of fragments -/
def nrFrags (st : St) : Nat := (st.segs.map fun s => s.frags.length).sum

/-! ### helper definitions naming the pieces of `addChild` -/

def isOpen (st : St) : Bool :=
  match st.segs.getLast? with
  | some s => match s.frags.getLast? with
    | some f => f.moof.isNone
    | none => false
  | none => false

def ensureMoofFrag (pos : Nat) (s : Seg) : Seg :=
  match s.frags.getLast? with
  | some f => if f.moof.isSome then { s with frags := s.frags ++ [{ startPos := pos }] } else s
  | none => { s with frags := [{ startPos := pos }] }

def ensureFrag (pos : Nat) (s : Seg) : Seg :=
  if s.frags = [] then { s with frags := [{ startPos := pos }] } else s

def addKid (it : Item) (s : Seg) : Seg := updLastFrag s fun f => { f with children := f.children ++ [it] }
def setMoof (it : Item) (s : Seg) : Seg :=
  updLastFrag s fun f => { f with moof := some it.pos, children := f.children ++ [it] }

def segMoofs (s : Seg) : List Nat := s.frags.filterMap (·.moof)

theorem moofsOf_eq (st : St) : moofsOf st = st.segs.flatMap segMoofs := rfl

theorem addChild_moof (st : St) (it : Item) (sidxOf : Item → Option Sidx) (hk : it.kind = .moof) :
    addChild st it sidxOf =
      if (if isOpen st then st else startIfNeeded st it.pos).segs = [] then none else
      some (updLastSeg (updLastSeg (if isOpen st then st else startIfNeeded st it.pos) (ensureMoofFrag it.pos)) (setMoof it)) := by
  simp only [addChild, hk]; rfl

theorem addChild_emsg (st : St) (it : Item) (sidxOf : Item → Option Sidx) (hk : it.kind = .emsg) :
    addChild st it sidxOf =
      if (startIfNeeded st it.pos).segs = [] then none else
      some (updLastSeg (updLastSeg (startIfNeeded st it.pos) (ensureFrag it.pos)) (addKid it)) := by
  simp only [addChild, hk]; rfl

theorem addChild_mdat (st : St) (it : Item) (sidxOf : Item → Option Sidx) (hk : it.kind = .mdat) :
    addChild st it sidxOf =
      match st.segs.getLast? with
      | none => none
      | some s => if s.frags = [] then none else some (updLastSeg st (addKid it)) := by
  simp only [addChild, hk]; rfl

/-! ### updLastSeg / updLastFrag -/

theorem updLastSeg_nil (st : St) (f : Seg → Seg) (h : st.segs = []) : updLastSeg st f = st := by
  simp [updLastSeg, h]

theorem updLastSeg_concat (st : St) (f : Seg → Seg) (init : List Seg) (s : Seg) (h : st.segs = init ++ [s]) :
    updLastSeg st f = { st with segs := init ++ [f s] } := by
  simp [updLastSeg, h]

theorem updLastFrag_nil (s : Seg) (f : Frag → Frag) (h : s.frags = []) : updLastFrag s f = s := by
  simp [updLastFrag, h]

theorem updLastFrag_concat (s : Seg) (f : Frag → Frag) (init : List Frag) (x : Frag) (h : s.frags = init ++ [x]) :
    updLastFrag s f = { s with frags := init ++ [f x] } := by
  simp [updLastFrag, h]

theorem segs_cases (l : List α) : l = [] ∨ ∃ init s, l = init ++ [s] := by
  rcases List.eq_nil_or_concat l with h | ⟨init, s, h⟩
  · exact .inl h
  · exact .inr ⟨init, s, by simpa using h⟩

theorem updLastSeg_length (st : St) (f : Seg → Seg) : (updLastSeg st f).segs.length = st.segs.length := by
  rcases segs_cases st.segs with h | ⟨init, s, h⟩
  · rw [updLastSeg_nil _ _ h]
  · rw [updLastSeg_concat _ _ _ _ h]; simp [h]

theorem updLastSeg_sidxs (st : St) (f : Seg → Seg) : (updLastSeg st f).sidxs = st.sidxs := by
  unfold updLastSeg; split <;> rfl
theorem updLastSeg_tfra (st : St) (f : Seg → Seg) : (updLastSeg st f).tfra = st.tfra := by
  unfold updLastSeg; split <;> rfl
theorem updLastSeg_som (st : St) (f : Seg → Seg) : (updLastSeg st f).startOnMoof = st.startOnMoof := by
  unfold updLastSeg; split <;> rfl

theorem updLastSeg_comp (st : St) (f g : Seg → Seg) :
    updLastSeg (updLastSeg st f) g = updLastSeg st (fun s => g (f s)) := by
  rcases segs_cases st.segs with h | ⟨init, s, h⟩
  · rw [updLastSeg_nil _ f h, updLastSeg_nil _ _ h, updLastSeg_nil _ _ h]
  · rw [updLastSeg_concat _ f _ _ h, updLastSeg_concat _ _ _ _ h, updLastSeg_concat _ g init (f s) rfl]

theorem moofsOf_updLastSeg (st : St) (f : Seg → Seg) (extra : List Nat) (hne : st.segs ≠ [])
    (hf : ∀ s, segMoofs (f s) = segMoofs s ++ extra) : moofsOf (updLastSeg st f) = moofsOf st ++ extra := by
  rcases segs_cases st.segs with h | ⟨init, s, h⟩
  · exact absurd h hne
  · rw [updLastSeg_concat _ _ _ _ h, moofsOf_eq, moofsOf_eq, h]
    simp [List.flatMap_append, hf]

/-! ### startIfNeeded -/

theorem ite_or {α} (c : Prop) [Decidable c] (a b : α) : (if c then a else b) = b ∨ (if c then a else b) = a := by
  split <;> simp

theorem startIfNeeded_cases (st : St) (pos : Nat) :
    startIfNeeded st pos = st ∨ startIfNeeded st pos = { st with segs := st.segs ++ [{ startPos := pos }] } := by
  unfold startIfNeeded; exact ite_or _ _ _

theorem startIfNeeded_sidxs (st : St) (pos : Nat) : (startIfNeeded st pos).sidxs = st.sidxs := by
  rcases startIfNeeded_cases st pos with h | h <;> rw [h]
theorem startIfNeeded_tfra (st : St) (pos : Nat) : (startIfNeeded st pos).tfra = st.tfra := by
  rcases startIfNeeded_cases st pos with h | h <;> rw [h]
theorem startIfNeeded_som (st : St) (pos : Nat) : (startIfNeeded st pos).startOnMoof = st.startOnMoof := by
  rcases startIfNeeded_cases st pos with h | h <;> rw [h]
theorem startIfNeeded_length (st : St) (pos : Nat) : st.segs.length ≤ (startIfNeeded st pos).segs.length := by
  rcases startIfNeeded_cases st pos with h | h <;> rw [h] <;> simp
theorem startIfNeeded_moofs (st : St) (pos : Nat) : moofsOf (startIfNeeded st pos) = moofsOf st := by
  rcases startIfNeeded_cases st pos with h | h <;> rw [h]
  simp [moofsOf]

theorem startIfNeeded_default (st : St) (pos : Nat) (hs : st.sidxs = []) (ht : st.tfra = none)
    (hf : st.startOnMoof = false) (hne : st.segs ≠ []) : startIfNeeded st pos = st := by
  simp [startIfNeeded, hs, ht, hf, hne]

theorem startIfNeeded_som_true (st : St) (pos : Nat) (hs : st.sidxs = []) (ht : st.tfra = none)
    (hf : st.startOnMoof = true) : (startIfNeeded st pos).segs = st.segs ++ [{ startPos := pos }] := by
  simp [startIfNeeded, hs, ht, hf]

/-! ### per-segment moof lists -/

theorem segMoofs_updLastFrag_same (s : Seg) (g : Frag → Frag) (hg : ∀ f, (g f).moof = f.moof) :
    segMoofs (updLastFrag s g) = segMoofs s := by
  rcases segs_cases s.frags with h | ⟨init, x, h⟩
  · rw [updLastFrag_nil _ _ h]
  · rw [updLastFrag_concat _ _ _ _ h]; simp [segMoofs, h, List.filterMap_cons, hg]

theorem segMoofs_addKid (it : Item) (s : Seg) : segMoofs (addKid it s) = segMoofs s :=
  segMoofs_updLastFrag_same _ _ (fun _ => rfl)

theorem segMoofs_ensureFrag (pos : Nat) (s : Seg) : segMoofs (ensureFrag pos s) = segMoofs s := by
  unfold ensureFrag; split
  · rename_i h; simp [segMoofs, h]
  · rfl

theorem segMoofs_setMoof_ensure (it : Item) (s : Seg) :
    segMoofs (setMoof it (ensureMoofFrag it.pos s)) = segMoofs s ++ [it.pos] := by
  rcases segs_cases s.frags with h | ⟨init, x, h⟩
  · simp [ensureMoofFrag, h, setMoof, updLastFrag, segMoofs]
  · cases hm : x.moof with
    | none =>
      have : ensureMoofFrag it.pos s = s := by simp [ensureMoofFrag, h, hm]
      rw [this]; unfold setMoof; rw [updLastFrag_concat _ _ _ _ h]
      simp [segMoofs, h, hm]
    | some m =>
      have : ensureMoofFrag it.pos s = { s with frags := (init ++ [x]) ++ [{ startPos := it.pos }] } := by
        simp [ensureMoofFrag, h, hm]
      rw [this]; unfold setMoof; rw [updLastFrag_concat _ _ (init ++ [x]) { startPos := it.pos } rfl]
      simp [segMoofs, h, hm]

/-! ### per-item lemmas -/

theorem addChild_moofs (sidxOf : Item → Option Sidx) (it : Item) (st st' : St)
    (h : addChild st it sidxOf = some st') :
    moofsOf st' = moofsOf st ++ (if it.kind == .moof then [it.pos] else []) := by
  cases hk : it.kind
  case styp =>
    simp only [addChild, hk, Option.some.injEq] at h; subst h; simp [moofsOf]
  case sidx =>
    simp only [addChild, hk] at h
    split at h
    · split at h <;> (simp only [Option.some.injEq] at h; subst h; simp [moofsOf])
    · simp only [Option.some.injEq] at h; subst h; simp
  case emsg =>
    rw [addChild_emsg _ _ _ hk] at h
    split at h
    · cases h
    · rename_i hne
      simp only [Option.some.injEq] at h; subst h
      rw [updLastSeg_comp, moofsOf_updLastSeg _ _ [] hne, startIfNeeded_moofs]; · simp
      intro s; rw [segMoofs_addKid, segMoofs_ensureFrag]; simp
  case moof =>
    rw [addChild_moof _ _ _ hk] at h
    have hm : moofsOf (if isOpen st then st else startIfNeeded st it.pos) = moofsOf st := by
      split
      · rfl
      · exact startIfNeeded_moofs _ _
    generalize (if isOpen st then st else startIfNeeded st it.pos) = st1 at h hm
    split at h
    · cases h
    · rename_i hne
      simp only [Option.some.injEq] at h; subst h
      rw [updLastSeg_comp, moofsOf_updLastSeg _ _ [it.pos] hne, hm]
      · simp
      · intro s; exact segMoofs_setMoof_ensure it s
  case mdat =>
    rw [addChild_mdat _ _ _ hk] at h
    split at h
    · cases h
    · rename_i s hs
      split at h
      · cases h
      · simp only [Option.some.injEq] at h; subst h
        have hne : st.segs ≠ [] := by intro h0; simp [h0] at hs
        rw [moofsOf_updLastSeg _ _ [] hne]; · simp
        intro s; rw [segMoofs_addKid]; simp
  all_goals
    simp only [addChild, hk, Option.some.injEq] at h; subst h; simp

theorem addChild_grow (sidxOf : Item → Option Sidx) (it : Item) (st st' : St)
    (h : addChild st it sidxOf = some st') :
    st.segs.length ≤ st'.segs.length ∧ st'.tfra = st.tfra ∧ st'.startOnMoof = st.startOnMoof := by
  cases hk : it.kind
  case styp =>
    simp only [addChild, hk, Option.some.injEq] at h; subst h; simp
  case sidx =>
    simp only [addChild, hk] at h
    split at h
    · split at h <;> (simp only [Option.some.injEq] at h; subst h; simp)
    · simp only [Option.some.injEq] at h; subst h; simp
  case emsg =>
    rw [addChild_emsg _ _ _ hk] at h
    split at h
    · cases h
    · simp only [Option.some.injEq] at h; subst h
      simp only [updLastSeg_length, updLastSeg_tfra, updLastSeg_som, startIfNeeded_tfra, startIfNeeded_som,
        startIfNeeded_length, and_self]
  case moof =>
    rw [addChild_moof _ _ _ hk] at h
    have hm : st.segs.length ≤ (if isOpen st then st else startIfNeeded st it.pos).segs.length ∧
        (if isOpen st then st else startIfNeeded st it.pos).tfra = st.tfra ∧
        (if isOpen st then st else startIfNeeded st it.pos).startOnMoof = st.startOnMoof := by
      split
      · simp
      · simp only [startIfNeeded_tfra, startIfNeeded_som, startIfNeeded_length, and_self]
    generalize (if isOpen st then st else startIfNeeded st it.pos) = st1 at h hm
    split at h
    · cases h
    · simp only [Option.some.injEq] at h; subst h
      simpa only [updLastSeg_length, updLastSeg_tfra, updLastSeg_som] using hm
  case mdat =>
    rw [addChild_mdat _ _ _ hk] at h
    split at h
    · cases h
    · split at h
      · cases h
      · simp only [Option.some.injEq] at h; subst h
        simp [updLastSeg_length, updLastSeg_tfra, updLastSeg_som]
  all_goals
    simp only [addChild, hk, Option.some.injEq] at h; subst h; simp

/-! ### sidx arithmetic -/

theorem refStart_succ (sizes : List Nat) (i : Nat) :
    refStart sizes (i + 1) = refStart sizes i + sizes.getD i 0 := by
  unfold refStart
  rw [List.take_add_one, List.sum_append]
  cases h : sizes[i]? <;> simp [List.getD, h]

theorem refStart_length (sizes : List Nat) : refStart sizes sizes.length = sizes.sum := by
  simp [refStart]

/-! ### the C12 theorems -/

/-- **every moof ends up in exactly one fragment of exactly one segment, in file order** — for every item stream, every
    delimiter configuration (sidx list, tfra offsets, start-on-moof flag) and every intermediate state -/
theorem group_preserves_moofs (sidxOf : Item → Option Sidx) (items : List Item) (st st' : St)
    (h : groupItems st sidxOf items = some st') :
    moofsOf st' = moofsOf st ++ (items.filter (·.kind == .moof)).map (·.pos) := by
  induction items generalizing st with
  | nil => simp only [groupItems, Option.some.injEq] at h; subst h; simp
  | cons it rest ih =>
    simp only [groupItems] at h
    split at h
    · cases h
    · rename_i st1 h1
      rw [ih st1 h, addChild_moofs _ _ _ _ h1]
      by_cases hk : it.kind = .moof <;> simp [hk]

/-- the delimiter configuration is never changed by media boxes, and segments are only ever appended -/
theorem group_segments_grow (sidxOf : Item → Option Sidx) (items : List Item) (st st' : St)
    (h : groupItems st sidxOf items = some st') :
    st.segs.length ≤ st'.segs.length ∧ st'.tfra = st.tfra ∧ st'.startOnMoof = st.startOnMoof := by
  induction items generalizing st with
  | nil => simp only [groupItems, Option.some.injEq] at h; subst h; simp
  | cons it rest ih =>
    simp only [groupItems] at h
    split at h
    · cases h
    · rename_i st1 h1
      obtain ⟨a1, a2, a3⟩ := addChild_grow _ _ _ _ h1
      obtain ⟨b1, b2, b3⟩ := ih st1 h
      exact ⟨Nat.le_trans a1 b1, b2.trans a2, b3.trans a3⟩

/-- **styp delimits**: every styp box opens a new segment (so the number of segments is at least the number of styp
    boxes seen, and a styp-opened segment starts exactly at the styp's position) -/
theorem styp_opens_segment (st : St) (it : Item) (sidxOf : Item → Option Sidx) (hk : it.kind = .styp) :
    ∃ st', addChild st it sidxOf = some st' ∧ st'.segs = st.segs ++ [{ startPos := it.pos, hasStyp := true, stypSize := it.size }] := by
  simp [addChild, hk]

/-- **default mode** (no sidx, no tfra, flag off): a moof opens a segment only when none exists yet -/
theorem default_mode_single_segment (st : St) (it : Item) (sidxOf : Item → Option Sidx) (hk : it.kind = .moof)
    (hs : st.sidxs = []) (ht : st.tfra = none) (hf : st.startOnMoof = false) (hne : st.segs ≠ []) (st' : St)
    (h : addChild st it sidxOf = some st') : st'.segs.length = st.segs.length := by
  rw [addChild_moof _ _ _ hk, startIfNeeded_default st it.pos hs ht hf hne] at h
  simp only [ite_self, hne, if_false, Option.some.injEq] at h
  rw [← h, updLastSeg_length, updLastSeg_length]

/-- **start-on-moof** (no sidx, no tfra): a moof that does not complete a fragment opened by an emsg opens a segment -/
theorem startOnMoof_opens (st : St) (it : Item) (sidxOf : Item → Option Sidx) (hk : it.kind = .moof)
    (hs : st.sidxs = []) (ht : st.tfra = none) (hf : st.startOnMoof = true)
    (hopen : ∀ s ∈ st.segs.getLast?, ∀ f ∈ s.frags.getLast?, f.moof.isSome) (st' : St)
    (h : addChild st it sidxOf = some st') : st'.segs.length = st.segs.length + 1 := by
  have hop : isOpen st = false := by
    unfold isOpen
    split
    · rename_i s hsl
      split
      · rename_i f hfl
        have := hopen s (by simp [hsl]) f (by simp [hfl])
        cases hm : f.moof <;> simp_all
      · rfl
    · rfl
  have hseg := startIfNeeded_som_true st it.pos hs ht hf
  have hne : (startIfNeeded st it.pos).segs ≠ [] := by rw [hseg]; simp
  rw [addChild_moof _ _ _ hk, hop] at h
  simp only [Bool.false_eq_true, if_false, hne, Option.some.injEq] at h
  rw [← h, updLastSeg_length, updLastSeg_length, hseg]; simp

/-- **the index tiles the media**: if the segments are contiguous (each starts where the previous one ends), then
    reference `i`, whose offset from the anchor is the sum of the earlier referenced sizes, starts exactly at the first
    byte of segment `i`, and the references end where the last segment ends -/
theorem sidx_tiles (starts sizes : List Nat) (hl : starts.length = sizes.length)
    (hc : ∀ i, i + 1 < starts.length → starts.getD (i + 1) 0 = starts.getD i 0 + sizes.getD i 0) :
    (∀ i, i < starts.length → starts.getD 0 0 + refStart sizes i = starts.getD i 0) ∧
    (starts ≠ [] → starts.getD 0 0 + sizes.sum = starts.getD (starts.length - 1) 0 + sizes.getD (sizes.length - 1) 0) := by
  have h1 : ∀ i, i < starts.length → starts.getD 0 0 + refStart sizes i = starts.getD i 0 := by
    intro i
    induction i with
    | zero => intro _; simp [refStart]
    | succ i ih =>
      intro hi
      rw [refStart_succ, hc i hi, ← ih (by omega)]; omega
  refine ⟨h1, ?_⟩
  intro hne
  have hpos : 0 < starts.length := List.length_pos_iff.mpr hne
  have := h1 (starts.length - 1) (by omega)
  rw [← this, ← refStart_length sizes]
  have e : sizes.length = (sizes.length - 1) + 1 := by omega
  conv => lhs; rw [e, refStart_succ]
  rw [hl]; omega


/-! ### several top-level sidx boxes: the running reference counter -/

/-- the segment starts one top-level sidx lists: running sums of the referenced sizes from its anchor point, one per
    reference, up to (not including) its first reference_type 1 entry -/
def leafStarts : List (Nat × Nat) → Nat → List Nat
  | [], _ => []
  | (ty, sz) :: rest, start => if ty = 1 then [] else start :: leafStarts rest (start + sz)

/-- the segment starts listed by ALL top-level sidx boxes, in box order -/
def allStarts (sidxs : List Sidx) : List Nat := sidxs.flatMap fun sx => leafStarts sx.refs sx.anchor

theorem refsLoop_spec (pos k : Nat) (refs : List (Nat × Nat)) (start idx : Nat) :
    sidxStart.refsLoop pos k refs start idx =
      if idx ≤ k ∧ (leafStarts refs start)[k - idx]? = some pos then (some true, k)
      else (none, idx + (leafStarts refs start).length) := by
  induction refs generalizing start idx with
  | nil => simp [sidxStart.refsLoop, leafStarts]
  | cons r rest ih =>
    obtain ⟨ty, sz⟩ := r
    unfold sidxStart.refsLoop leafStarts
    by_cases hty : ty = 1
    · simp [hty]
    · simp only [hty, if_false]
      by_cases hfound : pos = start ∧ idx = k
      · obtain ⟨hp, hi⟩ := hfound
        subst hp hi
        simp
      · rw [if_neg hfound, ih]
        rcases Nat.lt_trichotomy idx k with hlt | heq | hgt
        · have h1 : k - idx = (k - (idx + 1)) + 1 := by omega
          have h2 : idx + 1 ≤ k := hlt
          have h3 : idx ≤ k := by omega
          rw [h1, List.getElem?_cons_succ]
          simp only [h2, h3, true_and, List.length_cons]
          split <;> simp <;> omega
        · subst heq
          have hne : ¬ pos = start := fun h => hfound ⟨h, rfl⟩
          have h2 : ¬ idx + 1 ≤ idx := by omega
          simp [h2, Ne.symm hne]
          omega
        · have h2 : ¬ idx + 1 ≤ k := by omega
          have h3 : ¬ idx ≤ k := by omega
          simp [h2, h3]; omega

theorem go_spec (pos k : Nat) (sidxs : List Sidx) (idx : Nat) :
    sidxStart.go pos k sidxs idx = decide (idx ≤ k ∧ (allStarts sidxs)[k - idx]? = some pos) := by
  induction sidxs generalizing idx with
  | nil => simp [sidxStart.go, allStarts]
  | cons sx rest ih =>
    unfold sidxStart.go
    rw [refsLoop_spec]
    have hall : allStarts (sx :: rest) = leafStarts sx.refs sx.anchor ++ allStarts rest := by
      simp [allStarts]
    rw [hall]
    by_cases hc : idx ≤ k ∧ (leafStarts sx.refs sx.anchor)[k - idx]? = some pos
    · rw [if_pos hc]
      obtain ⟨h1, h2⟩ := hc
      have hlt : k - idx < (leafStarts sx.refs sx.anchor).length := by
        rcases List.getElem?_eq_some_iff.mp h2 with ⟨h, _⟩; exact h
      simp [h1, List.getElem?_append_left hlt, h2]
    · rw [if_neg hc]
      simp only [ih]
      congr 1
      apply propext
      by_cases hle : idx ≤ k
      · by_cases hlt : k - idx < (leafStarts sx.refs sx.anchor).length
        · have hn : ¬ idx + (leafStarts sx.refs sx.anchor).length ≤ k := by omega
          rw [List.getElem?_append_left hlt]
          constructor
          · intro h; exact absurd h.1 hn
          · intro h; exact absurd h hc
        · have hge : (leafStarts sx.refs sx.anchor).length ≤ k - idx := by omega
          rw [List.getElem?_append_right hge]
          have he : k - (idx + (leafStarts sx.refs sx.anchor).length) = k - idx - (leafStarts sx.refs sx.anchor).length := by omega
          rw [he]
          constructor
          · intro h; exact ⟨hle, h.2⟩
          · intro h; exact ⟨by omega, h.2⟩
      · constructor
        · intro h; omega
        · intro h; exact absurd h.1 hle

/-- **the multi-sidx rule**: with any number of top-level sidx boxes, segment number `k` (counted over the whole file)
    starts at `pos` exactly when `pos` is the `k`-th entry of the reference starts of all the boxes taken together:
    the reference counter runs on from one box to the next, each box measuring from its own anchor point -/
theorem sidxStart_spec (sidxs : List Sidx) (pos k : Nat) :
    sidxStart sidxs pos k = true ↔ (allStarts sidxs)[k]? = some pos := by
  simp [sidxStart, go_spec]

/-- hence, for a moof that does not complete a fragment opened by an emsg, in a file delimited by top-level sidx boxes
    with at least one segment open: a new segment starts iff the moof sits at the next listed reference start -/
theorem sidx_moof_step (st : St) (it : Item) (sidxOf : Item → Option Sidx) (hk : it.kind = .moof)
    (hs : st.sidxs ≠ []) (hne : st.segs ≠ []) (hop : isOpen st = false) (st' : St)
    (h : addChild st it sidxOf = some st') :
    st'.segs.length =
      st.segs.length + (if (allStarts st.sidxs)[st.segs.length]? = some it.pos then 1 else 0) := by
  have hlen : st.segs.length ≠ 0 := by cases hsg : st.segs <;> simp_all
  rw [addChild_moof _ _ _ hk, hop] at h
  simp only [Bool.false_eq_true, if_false] at h
  have hst : (startIfNeeded st it.pos).segs =
      if (allStarts st.sidxs)[st.segs.length]? = some it.pos then st.segs ++ [{ startPos := it.pos }] else st.segs := by
    unfold startIfNeeded
    simp only [hs, ne_eq, not_false_eq_true, if_true, hlen, or_false]
    by_cases hc : (allStarts st.sidxs)[st.segs.length]? = some it.pos
    · simp [hc, (sidxStart_spec _ _ _).mpr hc]
    · have : sidxStart st.sidxs it.pos st.segs.length = false := by
        cases hb : sidxStart st.sidxs it.pos st.segs.length
        · rfl
        · exact absurd ((sidxStart_spec _ _ _).mp hb) hc
      simp [hc, this]
  have hne' : (startIfNeeded st it.pos).segs ≠ [] := by
    rw [hst]; split <;> simp [hne]
  simp only [hne', if_false, Option.some.injEq] at h
  rw [← h, updLastSeg_length, updLastSeg_length, hst]
  split <;> simp

/-! ### what UpdateSidx computes: the referenced sizes are the written sizes, a new index sits at the first segment -/

/-- the segments lie one behind the other from byte `a` to byte `b`, each as long as `MediaSegment.Size()` says -/
def Tiles : List Seg → Nat → Nat → Prop
  | [], a, b => a = b
  | s :: rest, a, b => s.startPos = a ∧ Tiles rest (a + s.size) b

/-- the first box of the segment (`MediaSegment.FirstBox`) sits at the segment's first byte -/
def FirstOK (s : Seg) : Prop :=
  s.hasStyp = true ∨ ∃ f rest c crest, s.frags = f :: rest ∧ f.children = c :: crest ∧ c.pos = s.startPos

/-- … or the segment was just opened at `pos` and waits for its first box -/
def FirstOK' (pos : Nat) (s : Seg) : Prop := FirstOK s ∨ (s.frags = [] ∧ s.startPos = pos)

/-- invariant of `File.AddChild` over a run of segment boxes that starts at byte `a` and has reached byte `b` -/
def Inv (st : St) (a b : Nat) : Prop := Tiles st.segs a b ∧ ∀ s ∈ st.segs, FirstOK s

/-- the boxes follow each other without gaps from byte `p` -/
def Contig : List Item → Nat → Prop
  | [], _ => True
  | it :: rest, p => it.pos = p ∧ Contig rest (p + it.size)

/-- the kinds of boxes `File.AddChild` puts into segments -/
def segmentBox (k : Kind) : Bool := k == .styp || k == .emsg || k == .moof || k == .mdat

theorem tiles_concat (init : List Seg) (s : Seg) (a b : Nat) :
    Tiles (init ++ [s]) a b ↔ ∃ m, Tiles init a m ∧ s.startPos = m ∧ m + s.size = b := by
  induction init generalizing a with
  | nil =>
    simp only [List.nil_append, Tiles]
    constructor
    · rintro ⟨h1, h2⟩; exact ⟨a, rfl, h1, h2⟩
    · rintro ⟨m, h0, h1, h2⟩; subst h0; exact ⟨h1, h2⟩
  | cons x rest ih =>
    simp only [List.cons_append, Tiles, ih]
    constructor
    · rintro ⟨h1, m, h2⟩; exact ⟨m, ⟨h1, h2.1⟩, h2.2⟩
    · rintro ⟨m, ⟨h1, h2⟩, h3⟩; exact ⟨h1, m, h2, h3⟩

theorem updLastFrag_startPos (s : Seg) (h : Frag → Frag) : (updLastFrag s h).startPos = s.startPos := by
  unfold updLastFrag; split <;> rfl
theorem updLastFrag_hasStyp (s : Seg) (h : Frag → Frag) : (updLastFrag s h).hasStyp = s.hasStyp := by
  unfold updLastFrag; split <;> rfl
theorem updLastFrag_stypSize (s : Seg) (h : Frag → Frag) : (updLastFrag s h).stypSize = s.stypSize := by
  unfold updLastFrag; split <;> rfl

theorem size_updLastFrag (s : Seg) (h : Frag → Frag) (it : Item) (hh : ∀ x, (h x).children = x.children ++ [it])
    (hne : s.frags ≠ []) : (updLastFrag s h).size = s.size + it.size := by
  rcases segs_cases s.frags with h0 | ⟨init, x, h0⟩
  · exact absurd h0 hne
  · rw [updLastFrag_concat _ _ _ _ h0]
    simp only [Seg.size, h0, List.map_append, List.map_cons, List.map_nil, List.sum_append, List.sum_cons,
      List.sum_nil, Frag.size, hh]
    omega

/-- one box added to the last fragment of a segment, a fresh fragment possibly opened for it first -/
theorem seg_step (s : Seg) (extra : List Frag) (pos : Nat) (it : Item) (h : Frag → Frag)
    (he : extra = [] ∨ extra = [{ startPos := pos }]) (hne : s.frags ++ extra ≠ [])
    (hh : ∀ x, (h x).children = x.children ++ [it]) (hp : it.pos = pos) :
    (updLastFrag { s with frags := s.frags ++ extra } h).startPos = s.startPos ∧
    (updLastFrag { s with frags := s.frags ++ extra } h).size = s.size + it.size ∧
    (FirstOK' pos s → FirstOK (updLastFrag { s with frags := s.frags ++ extra } h)) := by
  refine ⟨by rw [updLastFrag_startPos], ?_, ?_⟩
  · rw [size_updLastFrag _ h it hh hne]
    rcases he with he | he <;> subst he <;> simp [Seg.size, Frag.size]
  · intro hf
    rcases hf with (hs | ⟨f, rest, c, crest, h1, h2, h3⟩) | ⟨h1, h2⟩
    · left; rw [updLastFrag_hasStyp]; exact hs
    · right
      rcases segs_cases (rest ++ extra) with h0 | ⟨init, x, h0⟩
      · have hfr : ({ s with frags := s.frags ++ extra } : Seg).frags = [] ++ [f] := by
          simp [h1, h0]
        rw [updLastFrag_concat _ _ _ _ hfr]
        exact ⟨h f, [], c, crest ++ [it], by simp, by simp [hh, h2], h3⟩
      · have hfr : ({ s with frags := s.frags ++ extra } : Seg).frags = (f :: init) ++ [x] := by
          simp [h1, h0]
        rw [updLastFrag_concat _ _ _ _ hfr]
        exact ⟨f, init ++ [h x], c, crest, by simp, h2, h3⟩
    · right
      have hex : extra = [{ startPos := pos }] := by
        rcases he with he | he
        · subst he; simp [h1] at hne
        · exact he
      have hfr : ({ s with frags := s.frags ++ extra } : Seg).frags = [] ++ [{ startPos := pos }] := by
        simp [h1, hex]
      rw [updLastFrag_concat _ _ _ _ hfr]
      exact ⟨h { startPos := pos }, [], it, [], by simp, by simp [hh], by simp [hp, h2]⟩

theorem ensureFrag_eq (pos : Nat) (s : Seg) :
    ∃ extra, (extra = [] ∨ extra = [{ startPos := pos }]) ∧ s.frags ++ extra ≠ [] ∧
      ensureFrag pos s = { s with frags := s.frags ++ extra } := by
  unfold ensureFrag
  by_cases h : s.frags = []
  · exact ⟨[{ startPos := pos }], .inr rfl, by simp, by simp [h]⟩
  · exact ⟨[], .inl rfl, by simpa using h, by simp [h]⟩

theorem ensureMoofFrag_eq (pos : Nat) (s : Seg) :
    ∃ extra, (extra = [] ∨ extra = [{ startPos := pos }]) ∧ s.frags ++ extra ≠ [] ∧
      ensureMoofFrag pos s = { s with frags := s.frags ++ extra } := by
  unfold ensureMoofFrag
  split
  · rename_i f hf
    have hne : s.frags ≠ [] := by intro h0; simp [h0] at hf
    split
    · exact ⟨[{ startPos := pos }], .inr rfl, by simp, rfl⟩
    · exact ⟨[], .inl rfl, by simpa using hne, by simp⟩
  · rename_i hf
    have h0 : s.frags = [] := by simpa using hf
    exact ⟨[{ startPos := pos }], .inr rfl, by simp, by simp [h0]⟩

theorem inv_step (st1 : St) (a pos : Nat) (it : Item) (g : Seg → Seg)
    (ht : Tiles st1.segs a pos) (hne : st1.segs ≠ [])
    (hfo : ∀ init s, st1.segs = init ++ [s] → (∀ x ∈ init, FirstOK x) ∧ FirstOK' pos s)
    (hg : ∀ init s, st1.segs = init ++ [s] →
      (g s).startPos = s.startPos ∧ (g s).size = s.size + it.size ∧ (FirstOK' pos s → FirstOK (g s))) :
    Inv (updLastSeg st1 g) a (pos + it.size) := by
  rcases segs_cases st1.segs with h0 | ⟨init, s, h0⟩
  · exact absurd h0 hne
  · obtain ⟨hi, hs⟩ := hfo init s h0
    obtain ⟨g1, g2, g3⟩ := hg init s h0
    rw [updLastSeg_concat _ _ _ _ h0]
    rw [h0, tiles_concat] at ht
    obtain ⟨m, t1, t2, t3⟩ := ht
    refine ⟨(tiles_concat _ _ _ _).mpr ⟨m, t1, by rw [g1]; exact t2, by rw [g2]; omega⟩, ?_⟩
    intro x hx
    simp only [List.mem_append, List.mem_singleton] at hx
    rcases hx with hx | hx
    · exact hi x hx
    · subst hx; exact g3 hs

theorem inv_pre (st st1 : St) (a pos : Nat)
    (h : st1 = st ∨ st1 = { st with segs := st.segs ++ [{ startPos := pos }] }) (hinv : Inv st a pos) :
    Tiles st1.segs a pos ∧ ∀ init s, st1.segs = init ++ [s] → (∀ x ∈ init, FirstOK x) ∧ FirstOK' pos s := by
  obtain ⟨ht, hf⟩ := hinv
  rcases h with h | h
  · subst h
    refine ⟨ht, ?_⟩
    intro init s hs
    exact ⟨fun x hx => hf x (by simp [hs, hx]), .inl (hf s (by simp [hs]))⟩
  · subst h
    refine ⟨(tiles_concat _ _ _ _).mpr ⟨pos, ht, rfl, by simp [Seg.size]⟩, ?_⟩
    intro init s hs
    obtain ⟨e1, e2⟩ := List.append_inj' hs rfl
    simp only [List.cons.injEq, and_true] at e2
    subst e1 e2
    exact ⟨hf, .inr ⟨rfl, rfl⟩⟩

/-- one segment box handed to `File.AddChild` at the byte the run has reached keeps the invariant -/
theorem addChild_inv (sidxOf : Item → Option Sidx) (it : Item) (st st' : St) (a : Nat)
    (hk : segmentBox it.kind = true) (hinv : Inv st a it.pos) (h : addChild st it sidxOf = some st') :
    Inv st' a (it.pos + it.size) := by
  cases hkk : it.kind
  case styp =>
    simp only [addChild, hkk, Option.some.injEq] at h; subst h
    refine ⟨(tiles_concat _ _ _ _).mpr ⟨it.pos, hinv.1, rfl, by simp [Seg.size]⟩, ?_⟩
    intro x hx
    simp only [List.mem_append, List.mem_singleton] at hx
    rcases hx with hx | hx
    · exact hinv.2 x hx
    · subst hx; exact .inl rfl
  case emsg =>
    rw [addChild_emsg _ _ _ hkk] at h
    obtain ⟨ht, hfo⟩ := inv_pre st _ a it.pos (startIfNeeded_cases st it.pos) hinv
    split at h
    · cases h
    · rename_i hne
      simp only [Option.some.injEq] at h; subst h
      rw [updLastSeg_comp]
      refine inv_step _ a it.pos it _ ht hne hfo ?_
      intro _ s _
      obtain ⟨extra, he, hne', heq⟩ := ensureFrag_eq it.pos s
      simp only [addKid, heq]
      exact seg_step s extra it.pos it _ he hne' (fun _ => rfl) rfl
  case moof =>
    rw [addChild_moof _ _ _ hkk] at h
    have hc : (if isOpen st then st else startIfNeeded st it.pos) = st ∨
        (if isOpen st then st else startIfNeeded st it.pos) = { st with segs := st.segs ++ [{ startPos := it.pos }] } := by
      split
      · exact .inl rfl
      · exact startIfNeeded_cases st it.pos
    obtain ⟨ht, hfo⟩ := inv_pre st _ a it.pos hc hinv
    generalize (if isOpen st then st else startIfNeeded st it.pos) = st1 at h ht hfo
    split at h
    · cases h
    · rename_i hne
      simp only [Option.some.injEq] at h; subst h
      rw [updLastSeg_comp]
      refine inv_step _ a it.pos it _ ht hne hfo ?_
      intro _ s _
      obtain ⟨extra, he, hne', heq⟩ := ensureMoofFrag_eq it.pos s
      simp only [setMoof, heq]
      exact seg_step s extra it.pos it _ he hne' (fun _ => rfl) rfl
  case mdat =>
    rw [addChild_mdat _ _ _ hkk] at h
    split at h
    · cases h
    · rename_i s0 hs0
      split at h
      · cases h
      · rename_i hfr
        simp only [Option.some.injEq] at h; subst h
        have hne : st.segs ≠ [] := by intro h0; simp [h0] at hs0
        obtain ⟨ht, hfo⟩ := inv_pre st st a it.pos (.inl rfl) hinv
        refine inv_step _ a it.pos it _ ht hne hfo ?_
        intro init s hs
        have hs' : s = s0 := by simpa [hs] using hs0
        subst hs'
        have key := seg_step s [] it.pos it (fun f => { f with children := f.children ++ [it] }) (.inl rfl)
          (by simpa using hfr) (fun _ => rfl) rfl
        simpa [addKid] using key
  all_goals simp [segmentBox, hkk] at hk

/-- a gap-free run of segment boxes handed to `File.AddChild` box by box keeps the invariant -/
theorem group_inv (sidxOf : Item → Option Sidx) (items : List Item) (st st' : St) (a p : Nat)
    (hc : Contig items p) (hm : ∀ it ∈ items, segmentBox it.kind = true) (hinv : Inv st a p)
    (h : groupItems st sidxOf items = some st') : Inv st' a (p + (items.map (·.size)).sum) := by
  induction items generalizing st p with
  | nil => simp only [groupItems, Option.some.injEq] at h; subst h; simpa using hinv
  | cons it rest ih =>
    simp only [groupItems] at h
    split at h
    · cases h
    · rename_i st1 h1
      obtain ⟨hp, hc'⟩ := hc
      subst hp
      have h2 := addChild_inv sidxOf it st st1 a (hm it (by simp)) hinv h1
      have := ih st1 (it.pos + it.size) hc' (fun x hx => hm x (by simp [hx])) h2 h
      simpa [Nat.add_assoc] using this

/-- contiguous segments: reference `i` of an index anchored at `a` (offset = sum of the earlier referenced sizes)
    starts at the first byte of segment `i`; all of them together end at `b` -/
theorem tiles_refs (segs : List Seg) (a b : Nat) (ht : Tiles segs a b) :
    (∀ i (hi : i < segs.length), a + refStart (segs.map Seg.size) i = (segs[i]).startPos) ∧
    a + (segs.map Seg.size).sum = b := by
  induction segs generalizing a with
  | nil => simpa [Tiles] using ht
  | cons s rest ih =>
    obtain ⟨h1, h2⟩ := ht
    obtain ⟨r1, r2⟩ := ih (a + s.size) h2
    refine ⟨?_, by simp only [List.map_cons, List.sum_cons]; omega⟩
    intro i hi
    cases i with
    | zero => simp [refStart, h1]
    | succ j =>
      have := r1 j (by simpa using hi)
      simp only [List.getElem_cons_succ, ← this, refStart, List.map_cons, List.take_succ_cons, List.sum_cons]
      omega

theorem findIdx?_sound {α} (p : α → Bool) (l : List α) (i : Nat) (h : l.findIdx? p = some i) :
    ∃ x, l[i]? = some x ∧ p x = true := by
  induction l generalizing i with
  | nil => simp at h
  | cons y rest ih =>
    rw [List.findIdx?_cons] at h
    by_cases hy : p y = true
    · simp only [hy, if_true, Option.some.injEq] at h; subst h; exact ⟨y, by simp, hy⟩
    · simp only [hy] at h
      cases hr : rest.findIdx? p with
      | none => simp [hr] at h
      | some j =>
        simp [hr] at h; subst h
        obtain ⟨x, hx, hpx⟩ := ih j hr
        exact ⟨x, by simpa using hx, hpx⟩

/-- the box in front of which `insertSidx` puts a new index is a box of the file sitting at the first byte of the
    first segment -/
theorem insertIdx_at_start (all : List Item) (st : St) (a b i : Nat) (hinv : Inv st a b)
    (h : insertIdx all st = some i) : ∃ x, all[i]? = some x ∧ x.pos = a := by
  unfold insertIdx at h
  split at h
  · cases h
  · rename_i s rest hs
    have hf : FirstOK s := hinv.2 s (by simp [hs])
    have hsp : s.startPos = a := by have := hinv.1; rw [hs] at this; exact this.1
    split at h
    · cases h
    · rename_i bx hb
      have hbp : bx.pos = a := by
        unfold Seg.firstBox at hb
        by_cases hst : s.hasStyp = true
        · simp only [hst, if_true, Option.some.injEq] at hb; subst hb; exact hsp
        · rcases hf with hf | ⟨f, fr, c, cr, h1, h2, h3⟩
          · exact absurd hf hst
          · simp [hst, h1, h2] at hb
            subst hb; rw [h3, hsp]
      split at h
      · rename_i j hj
        simp only [Option.some.injEq] at h; subst h
        obtain ⟨x, hx, hpx⟩ := findIdx?_sound _ _ _ hj
        have : x = bx := by simpa using hpx
        subst this
        exact ⟨x, hx, hbp⟩
      · cases h

end Mp4ff.Segments
