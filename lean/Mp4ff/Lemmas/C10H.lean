import Mp4ff.Model.CropHdr
namespace Mp4ff.Crop
open Mp4ff.Stbl

theorem cropElst_length (d : Nat) (es : List Nat) : (cropElst d es).length = es.length := by
  simp [cropElst]

theorem cropElst_le (d : Nat) (es : List Nat) (j : Nat) (hj : j < es.length) :
    (cropElst d es)[j]'(by simpa [cropElst_length] using hj) ≤ es[j] := by
  simp only [cropElst, List.getElem_map]
  split <;> omega

theorem cropElst_pos (d : Nat) (es : List Nat) (j : Nat) (hj : j < es.length) (hp : 0 < es[j]) :
    0 < (cropElst d es)[j]'(by simpa [cropElst_length] using hj) := by
  simp only [cropElst, List.getElem_map]
  split <;> omega

/-- on success: same number of tracks; every track header duration is the new duration and does not exceed the
    original; edit lists keep their length, no entry grows, and no entry becomes zero -/
theorem cropHeaders_tracks (h h' : MovieHdr) (e ts : Nat) (hc : cropHeaders h e ts = some h') :
    h'.timescale = h.timescale ∧ h'.mvhdDur = min (newDuration h.timescale e ts) h.mvhdDur ∧
    h'.tracks.length = h.tracks.length ∧
    ∀ i (hi : i < h.tracks.length) (hi' : i < h'.tracks.length),
      h'.tracks[i].tkhdDur = newDuration h.timescale e ts ∧ h'.tracks[i].tkhdDur ≤ h.tracks[i].tkhdDur ∧
      h'.tracks[i].elst.length = h.tracks[i].elst.length ∧
      ∀ j (hj : j < h.tracks[i].elst.length) (hj' : j < h'.tracks[i].elst.length),
        h'.tracks[i].elst[j] ≤ h.tracks[i].elst[j] ∧ (0 < h.tracks[i].elst[j] → 0 < h'.tracks[i].elst[j]) := by
  unfold cropHeaders at hc
  split at hc
  · cases hc
  · simp only at hc
    split at hc
    · rename_i hall
      cases hc
      refine ⟨rfl, rfl, by simp, ?_⟩
      intro i hi hi'
      have hle := (List.all_eq_true.mp hall) h.tracks[i] (List.getElem_mem hi)
      simp only [decide_eq_true_eq] at hle
      simp only [List.getElem_map]
      refine ⟨trivial, hle, cropElst_length _ _, ?_⟩
      intro j hj hj'
      exact ⟨cropElst_le _ _ j hj, cropElst_pos _ _ j hj⟩
    · cases hc

/-- the movie header duration does not grow either (it is only ever shortened) -/
theorem cropHeaders_mvhd (h h' : MovieHdr) (e ts : Nat) (hc : cropHeaders h e ts = some h') :
    h'.mvhdDur ≤ h.mvhdDur := by
  rw [(cropHeaders_tracks h h' e ts hc).2.1]
  exact Nat.min_le_right _ _

/-- in a consistent file (movie duration at least one track's duration) it becomes exactly the new duration -/
theorem cropHeaders_mvhd_eq (h h' : MovieHdr) (e ts : Nat) (hc : cropHeaders h e ts = some h')
    (hcons : ∃ t ∈ h.tracks, t.tkhdDur ≤ h.mvhdDur) : h'.mvhdDur = newDuration h.timescale e ts := by
  have h1 := (cropHeaders_tracks h h' e ts hc).2.1
  unfold cropHeaders at hc
  split at hc
  · cases hc
  · simp only at hc
    split at hc
    · rename_i hall
      obtain ⟨t, ht, hle⟩ := hcons
      have := (List.all_eq_true.mp hall) t ht
      simp only [decide_eq_true_eq] at this
      rw [h1]
      exact Nat.min_eq_left (by omega)
    · cases hc

end Mp4ff.Crop
