import Mp4ff.Model.Walk
import Mp4ff.Lemmas.C04c
/-!
Proofs for C04 (the structural walk is bounded by the input length); restated in Props/C04.lean.
-/
namespace Mp4ff.Walk

/-- **every decoded box costs at least 8 input bytes and the reader never leaves the input**: a box decoded at
    reader position `pos` ends at a reader position `p` with `pos + 8 ≤ p ≤ |input|`, and the number of boxes in its
    subtree is at most `(p - pos) / 8` — for every byte string -/
theorem decodeBox_bound (f : Nat) (bs : Bytes) (pos : Nat) (n : Node) (p : Nat)
    (h : decodeBox f bs pos = some (n, p)) : pos + 8 ≤ p ∧ p ≤ bs.length ∧ n.count * 8 ≤ p - pos := by
  exact (bound_both f).1 bs pos n p h

theorem decodeChildren_bound (f : Nat) (bs : Bytes) (rpos left : Nat) (ns : List Node) (p : Nat)
    (hr : rpos ≤ bs.length) (h : decodeChildren f bs rpos left = some (ns, p)) :
    rpos ≤ p ∧ p ≤ bs.length ∧ countAll ns * 8 ≤ p - rpos := by
  exact (bound_both f).2 bs rpos left ns p hr h

/-- **the whole decoded tree has at most |input| / 8 boxes** (so any per-box allocation bounded by a constant gives
    memory linear in the input) -/
theorem walk_count_bound (bs : Bytes) (ns : List Node) (h : walk bs = some ns) : countAll ns * 8 ≤ bs.length := by
  have := decodeFile_bound bs _ 0 ns (Nat.zero_le _) h
  omega

/-- more fuel never changes a result -/
theorem decodeBox_fuel_mono (f g : Nat) (hfg : f ≤ g) (bs : Bytes) (pos : Nat) (r : Node × Nat)
    (h : decodeBox f bs pos = some r) : decodeBox g bs pos = some r := by
  exact (mono_both f g hfg).1 bs pos r h

/-- **the walk terminates within a number of steps linear in the input**: whatever a larger fuel can decode, the
    fuel `|input| + 2` used by `decodeFile` already decodes -/
theorem decodeBox_fuel_sufficient (g : Nat) (bs : Bytes) (pos : Nat) (r : Node × Nat)
    (h : decodeBox g bs pos = some r) : decodeBox (bs.length + 2) bs pos = some r := by
  exact (suff_both g).1 bs pos r h _ (by omega)

end Mp4ff.Walk

