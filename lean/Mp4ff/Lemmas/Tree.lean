import Mp4ff.Model.Tree
import Mp4ff.Lemmas.LayoutThms
/-!
Nested round trip (Model/Tree.lean): proofs.  Statements are fixed in Props/C01b.lean.
-/
namespace Mp4ff.TreeRT
open Mp4ff Mp4ff.Boxes

mutual
/-- the walk of `rtBox` meets no `moov` box (at any depth, including the box itself) -/
def moovFree : Nat → Bytes → Bool
  | 0, _ => true
  | f + 1, bs =>
    match parseHeader bs with
    | none => true
    | some (ty, _, _) =>
      if ty = "moov" then false
      else if containers.contains ty then moovFreeKids f (bs.drop 8) else true
def moovFreeKids : Nat → Bytes → Bool
  | 0, _ => true
  | f + 1, bs =>
    if bs.isEmpty then true else
    match parseHeader bs with
    | none => true
    | some (_, _, size) =>
      if size > bs.length then true
      else moovFree f (bs.take size) && moovFreeKids f (bs.drop size)
end

/-! ### unfolding lemmas -/

/-- what `rtKids` does with the result for the first child and the result for the rest -/
def combineKid (ty : String) (size : Nat) (child : Bytes) : Res → KidsRes → KidsRes
  | .rejected, _ => .rejected
  | .unmodelled, _ => .unmodelled
  | .encFails, .ok ks => .ok ({ ty := ty, enc := child, dc := [], encOK := false } :: ks)
  | .ok enc dc, .ok ks =>
    if enc.length ≠ size then .rejected else .ok ({ ty := ty, enc := enc, dc := dc } :: ks)
  | _, .rejected => .rejected
  | _, .unmodelled => .unmodelled

theorem rtKids_succ (f : Nat) (bs : Bytes) :
    rtKids (f + 1) bs =
      if bs.isEmpty then .ok [] else
      match parseHeader bs with
      | none => .rejected
      | some (ty, _, size) =>
        if size > bs.length then .rejected
        else combineKid ty size (bs.take size) (rtBox f (bs.take size)) (rtKids f (bs.drop size)) := by
  rw [rtKids]
  unfold combineKid
  rfl

/-- the container branch of `rtBox` once the children are known -/
def finishBox (ty : String) (bs : Bytes) : KidsRes → Res
  | .unmodelled => .unmodelled
  | .rejected => .rejected
  | .ok kids =>
    if ¬ accepts ty kids then .rejected
    else
      let ks := arrange ty kids
      if ks.all (·.encOK) then
        let body := encKids ks
        .ok (beBytes 4 (8 + body.length) ++ (bs.drop 4).take 4 ++ body) (dcKids ks 8)
      else .encFails

def leafRes : RT → Res
  | .unmodelled => .unmodelled
  | .rejected => .rejected
  | .encFails => .encFails
  | .ok _ enc dc => .ok enc dc

theorem rtBox_succ (f : Nat) (bs : Bytes) :
    rtBox (f + 1) bs =
      match parseHeader bs with
      | none => .rejected
      | some (ty, hl, size) =>
        if size ≠ bs.length then .rejected
        else if containers.contains ty then
          if hl ≠ 8 then .rejected else finishBox ty bs (rtKids f (bs.drop 8))
        else leafRes (roundTrip bs) := by
  rw [rtBox]
  unfold finishBox leafRes
  rfl

/-! ### fuel monotonicity -/

theorem combineKid_mono (ty : String) (size : Nat) (child : Bytes) (r r' : Res) (k k' : KidsRes)
    (hr : r ≠ .rejected → r' = r) (hk : k ≠ .rejected → k' = k)
    (h : combineKid ty size child r k ≠ .rejected) :
    combineKid ty size child r' k' = combineKid ty size child r k := by
  cases r <;> cases k <;> simp [combineKid] at h hr hk ⊢ <;> simp_all

theorem finishBox_mono (ty : String) (bs : Bytes) (k k' : KidsRes)
    (hk : k ≠ .rejected → k' = k) (h : finishBox ty bs k ≠ .rejected) :
    finishBox ty bs k' = finishBox ty bs k := by
  cases k <;> simp [finishBox] at h hk ⊢ <;> simp_all

theorem fuel_mono_gen : ∀ f : Nat,
    (∀ g bs, f ≤ g → rtBox f bs ≠ .rejected → rtBox g bs = rtBox f bs) ∧
    (∀ g bs, f ≤ g → rtKids f bs ≠ .rejected → rtKids g bs = rtKids f bs) := by
  intro f
  induction f with
  | zero =>
    constructor
    · intro g bs _ h; simp [rtBox] at h
    · intro g bs _ h; simp [rtKids] at h
  | succ f ih =>
    obtain ⟨ihB, ihK⟩ := ih
    constructor
    · intro g bs hfg h
      obtain ⟨g, rfl⟩ : ∃ g', g = g' + 1 := ⟨g - 1, by omega⟩
      have hfg' : f ≤ g := by omega
      rw [rtBox_succ] at h
      rw [rtBox_succ f, rtBox_succ g]
      cases hph : parseHeader bs with
      | none => rfl
      | some p =>
        obtain ⟨ty, hl, size⟩ := p
        simp only [hph] at h ⊢
        by_cases c1 : size ≠ bs.length
        · simp [c1] at h
        simp only [if_neg c1] at h ⊢
        by_cases c2 : containers.contains ty = true
        · simp only [if_pos c2] at h ⊢
          by_cases c3 : hl ≠ 8
          · simp [c3] at h
          simp only [if_neg c3] at h ⊢
          exact finishBox_mono ty bs _ _ (ihK g _ hfg') h
        · simp only [if_neg c2]
    · intro g bs hfg h
      obtain ⟨g, rfl⟩ : ∃ g', g = g' + 1 := ⟨g - 1, by omega⟩
      have hfg' : f ≤ g := by omega
      rw [rtKids_succ] at h
      rw [rtKids_succ f, rtKids_succ g]
      by_cases c0 : bs.isEmpty = true
      · simp only [if_pos c0]
      simp only [if_neg c0] at h ⊢
      cases hph : parseHeader bs with
      | none => rfl
      | some p =>
        obtain ⟨ty, hl, size⟩ := p
        simp only [hph] at h ⊢
        by_cases c1 : size > bs.length
        · simp [c1] at h
        simp only [if_neg c1] at h ⊢
        exact combineKid_mono ty size _ _ _ _ _ (ihB g _ hfg') (ihK g _ hfg') h

theorem fuel_mono (f g : Nat) (hfg : f ≤ g) (bs : Bytes) (enc : Bytes) (dc : List Nat)
    (h : rtBox f bs = .ok enc dc) : rtBox g bs = .ok enc dc := by
  rw [(fuel_mono_gen f).1 g bs hfg (by rw [h]; simp), h]

theorem roundTripTree_stable (bs : Bytes) (enc : Bytes) (dc : List Nat) (g : Nat) (hg : bs.length + 2 ≤ g)
    (h : roundTripTree bs = .ok enc dc) : rtBox g bs = .ok enc dc :=
  fuel_mono (bs.length + 2) g hg bs enc dc h

/-! ### children: concatenation, `arrange` -/

theorem encKids_append (a b : List Kid) : encKids (a ++ b) = encKids a ++ encKids b := by
  induction a with
  | nil => rfl
  | cons k ks ih => simp [encKids, ih]

theorem encKids_insert_length (cs : List Kid) (c : Kid) (n : Nat) :
    (encKids (cs.take n ++ [c] ++ cs.drop n)).length = (encKids cs).length + c.enc.length := by
  have h : (encKids cs).length = (encKids (cs.take n ++ cs.drop n)).length := by rw [List.take_append_drop]
  rw [h]
  simp only [encKids_append, List.length_append, encKids, List.length_nil]
  omega

theorem all_insert (cs : List Kid) (c : Kid) (n : Nat) :
    (cs.take n ++ [c] ++ cs.drop n).all (·.encOK) = (cs.all (·.encOK) && c.encOK) := by
  have h : cs.all (·.encOK) = (cs.take n ++ cs.drop n).all (·.encOK) := by rw [List.take_append_drop]
  rw [h]
  simp only [List.all_append, List.all_cons, List.all_nil, Bool.and_true]
  cases (cs.take n).all (·.encOK) <;> cases (cs.drop n).all (·.encOK) <;> cases c.encOK <;> rfl

theorem moovAddChild_length (cs : List Kid) (c : Kid) :
    (encKids (moovAddChild cs c)).length = (encKids cs).length + c.enc.length := by
  have happ : (encKids (cs ++ [c])).length = (encKids cs).length + c.enc.length := by
    simp [encKids_append, encKids]
  unfold moovAddChild
  split
  · simp only []
    split
    · exact encKids_insert_length cs c _
    · exact happ
  · exact happ

theorem moovAddChild_all (cs : List Kid) (c : Kid) :
    (moovAddChild cs c).all (·.encOK) = (cs.all (·.encOK) && c.encOK) := by
  have happ : (cs ++ [c]).all (·.encOK) = (cs.all (·.encOK) && c.encOK) := by
    simp [List.all_append]
  unfold moovAddChild
  split
  · simp only []
    split
    · exact all_insert cs c _
    · exact happ
  · exact happ

theorem foldl_moov_length (kids : List Kid) : ∀ acc : List Kid,
    (encKids (kids.foldl moovAddChild acc)).length = (encKids acc).length + (encKids kids).length := by
  induction kids with
  | nil => intro acc; simp [encKids]
  | cons k ks ih =>
    intro acc
    rw [List.foldl_cons, ih, moovAddChild_length]
    simp [encKids]; omega

theorem arrange_length (ty : String) (kids : List Kid) :
    (encKids (arrange ty kids)).length = (encKids kids).length := by
  unfold arrange
  split
  · rw [foldl_moov_length]; simp [encKids]
  · rfl

theorem arrange_of_ne (ty : String) (kids : List Kid) (h : ty ≠ "moov") : arrange ty kids = kids := by
  unfold arrange; rw [if_neg h]

/-! ### the children fill their slice exactly -/

theorem combineKid_ok (ty : String) (size : Nat) (child : Bytes) (r : Res) (k : KidsRes) (ks : List Kid)
    (h : combineKid ty size child r k = .ok ks) :
    ∃ ks', k = .ok ks' ∧
      ((r = .encFails ∧ ks = { ty := ty, enc := child, dc := [], encOK := false } :: ks') ∨
       (∃ enc dc, r = .ok enc dc ∧ enc.length = size ∧ ks = { ty := ty, enc := enc, dc := dc } :: ks')) := by
  cases r <;> cases k <;> simp [combineKid] at h
  · rename_i ks'
    exact ⟨ks', rfl, Or.inl ⟨rfl, h.symm⟩⟩
  · rename_i enc dc ks'
    by_cases c : enc.length = size
    · simp only [if_pos c, KidsRes.ok.injEq] at h
      exact ⟨ks', rfl, Or.inr ⟨enc, dc, rfl, c, h.symm⟩⟩
    · simp [if_neg c] at h

/-- the cases of a successful `rtKids` step -/
theorem rtKids_ok_cases (f : Nat) (bs : Bytes) (ks : List Kid) (h : rtKids (f + 1) bs = .ok ks) :
    (bs = [] ∧ ks = []) ∨
    ∃ ty hl size ks', parseHeader bs = some (ty, hl, size) ∧ size ≤ bs.length ∧ bs ≠ [] ∧
      rtKids f (bs.drop size) = .ok ks' ∧
      ((rtBox f (bs.take size) = .encFails ∧
          ks = { ty := ty, enc := bs.take size, dc := [], encOK := false } :: ks') ∨
       (∃ enc dc, rtBox f (bs.take size) = .ok enc dc ∧ enc.length = size ∧
          ks = { ty := ty, enc := enc, dc := dc } :: ks')) := by
  rw [rtKids_succ] at h
  by_cases c0 : bs.isEmpty = true
  · simp only [if_pos c0, KidsRes.ok.injEq] at h
    exact Or.inl ⟨List.isEmpty_iff.1 c0, h.symm⟩
  simp only [if_neg c0] at h
  cases hph : parseHeader bs with
  | none => simp [hph] at h
  | some p =>
    obtain ⟨ty, hl, size⟩ := p
    simp only [hph] at h
    by_cases c1 : size > bs.length
    · simp [c1] at h
    simp only [if_neg c1] at h
    obtain ⟨ks', hk, hr⟩ := combineKid_ok _ _ _ _ _ _ h
    exact Or.inr ⟨ty, hl, size, ks', rfl, by omega, fun hn => c0 (by simp [hn]), hk, hr⟩

theorem rtKids_length : ∀ (f : Nat) (bs : Bytes) (ks : List Kid), rtKids f bs = .ok ks →
    (encKids ks).length = bs.length := by
  intro f
  induction f with
  | zero => intro bs ks h; simp [rtKids] at h
  | succ f ih =>
    intro bs ks h
    rcases rtKids_ok_cases f bs ks h with ⟨rfl, rfl⟩ | ⟨ty, hl, size, ks', hph, hle, hne, hk, hr⟩
    · rfl
    · have := ih _ _ hk
      rcases hr with ⟨_, rfl⟩ | ⟨enc, dc, _, hlen, rfl⟩
      · simp [encKids, this]; omega
      · simp [encKids, this, hlen]; omega

/-! ### one box -/

theorem finishBox_ok (ty : String) (bs : Bytes) (k : KidsRes) (enc : Bytes) (dc : List Nat)
    (h : finishBox ty bs k = .ok enc dc) :
    ∃ kids, k = .ok kids ∧ accepts ty kids = true ∧ (arrange ty kids).all (·.encOK) = true ∧
      enc = beBytes 4 (8 + (encKids (arrange ty kids)).length) ++ (bs.drop 4).take 4 ++ encKids (arrange ty kids) ∧
      dc = dcKids (arrange ty kids) 8 := by
  cases k with
  | unmodelled => simp [finishBox] at h
  | rejected => simp [finishBox] at h
  | ok kids =>
    simp only [finishBox] at h
    split at h
    · cases h
    · rename_i c1
      split at h
      · rename_i c2
        simp only [Res.ok.injEq] at h
        exact ⟨kids, rfl, Decidable.not_not.mp c1, c2, h.1.symm, h.2.symm⟩
      · cases h

theorem leafRes_ok (r : RT) (enc : Bytes) (dc : List Nat) (h : leafRes r = .ok enc dc) :
    ∃ sz, r = .ok sz enc dc := by
  cases r <;> simp [leafRes] at h
  rename_i sz e d
  exact ⟨sz, by rw [h.1, h.2]⟩

/-- the cases of a successful `rtBox` -/
theorem rtBox_ok_cases (f : Nat) (bs : Bytes) (enc : Bytes) (dc : List Nat) (h : rtBox f bs = .ok enc dc) :
    ∃ f' ty hl, f = f' + 1 ∧ parseHeader bs = some (ty, hl, bs.length) ∧
      ((containers.contains ty = true ∧ hl = 8 ∧ ∃ kids, rtKids f' (bs.drop 8) = .ok kids ∧
          accepts ty kids = true ∧ (arrange ty kids).all (·.encOK) = true ∧
          enc = beBytes 4 (8 + (encKids (arrange ty kids)).length) ++ (bs.drop 4).take 4 ++
            encKids (arrange ty kids) ∧
          dc = dcKids (arrange ty kids) 8) ∨
       (containers.contains ty = false ∧ ∃ sz, roundTrip bs = .ok sz enc dc)) := by
  cases f with
  | zero => simp [rtBox] at h
  | succ f =>
    rw [rtBox_succ] at h
    cases hph : parseHeader bs with
    | none => simp [hph] at h
    | some p =>
      obtain ⟨ty, hl, size⟩ := p
      simp only [hph] at h
      by_cases c1 : size ≠ bs.length
      · simp [c1] at h
      simp only [if_neg c1] at h
      have hs : size = bs.length := Decidable.not_not.mp c1
      subst hs
      refine ⟨f, ty, hl, rfl, rfl, ?_⟩
      by_cases c2 : containers.contains ty = true
      · simp only [if_pos c2] at h
        by_cases c3 : hl ≠ 8
        · simp [c3] at h
        simp only [if_neg c3] at h
        obtain ⟨kids, hk, ha, he, henc, hdc⟩ := finishBox_ok _ _ _ _ _ h
        exact Or.inl ⟨c2, Decidable.not_not.mp c3, kids, hk, ha, he, henc, hdc⟩
      · simp only [if_neg c2] at h
        exact Or.inr ⟨by simpa using c2, leafRes_ok _ _ _ h⟩

theorem parseHeader_cases (bs : Bytes) (ty : String) (hl sz : Nat) (h : parseHeader bs = some (ty, hl, sz)) :
    (hl = 8 ∧ beVal (bs.take 4) ≠ 1 ∧ 8 ≤ bs.length ∧ sz = beVal (bs.take 4)) ∨
    (hl = 16 ∧ beVal (bs.take 4) = 1 ∧ 16 ≤ bs.length) := by
  by_cases h8 : beVal (bs.take 4) = 1
  · right
    simp only [parseHeader, h8, if_true] at h
    by_cases c1 : bs.length < 8
    · simp [c1] at h
    simp only [if_neg c1] at h
    by_cases c2 : bs.length < 16
    · simp [c2] at h
    simp only [if_neg c2] at h
    by_cases c3 : beVal ((bs.drop 8).take 8) < 16
    · simp [c3] at h
    simp only [if_neg c3, Option.some.injEq, Prod.mk.injEq] at h
    exact ⟨h.2.1.symm, h8, by omega⟩
  · left
    obtain ⟨a, b, c, _, _⟩ := parseHeader_8 bs h8 ty hl sz h
    exact ⟨b, h8, a, c⟩

theorem container_length (f : Nat) (bs : Bytes) (enc : Bytes) (dc : List Nat) (ty : String) (hl size : Nat)
    (hh : parseHeader bs = some (ty, hl, size)) (hc : containers.contains ty = true)
    (h : rtBox f bs = .ok enc dc) : enc.length = bs.length := by
  obtain ⟨f', ty', hl', rfl, hph, hcase⟩ := rtBox_ok_cases f bs enc dc h
  rw [hh] at hph
  simp only [Option.some.injEq, Prod.mk.injEq] at hph
  obtain ⟨rfl, rfl, rfl⟩ := hph
  rcases hcase with ⟨_, rfl, kids, hk, _, _, henc, _⟩ | ⟨hn, _⟩
  · have hlen := rtKids_length _ _ _ hk
    have h8 : 8 ≤ bs.length := by
      rcases parseHeader_cases _ _ _ _ hh with ⟨_, _, h, _⟩ | ⟨h, _⟩ <;> omega
    have ht4 : ((bs.drop 4).take 4).length = 4 := by simp; omega
    obtain ⟨e1, _⟩ := hdr_facts (8 + (encKids (arrange ty kids)).length) ((bs.drop 4).take 4)
      (encKids (arrange ty kids)) ht4
    rw [henc, e1, arrange_length, hlen, List.length_drop]
    omega
  · rw [hc] at hn; cases hn

/-- the shape of an accepted leaf, whatever its header length -/
theorem roundTrip_shape (bs : Bytes) (hb : IsBytes bs) (size : Nat) (enc : Bytes) (dc : List Nat)
    (ty : String) (hl sz : Nat) (hph : parseHeader bs = some (ty, hl, sz))
    (h : roundTrip bs = .ok size enc dc) :
    ∃ out, enc = beBytes 4 (8 + out.length) ++ (bs.drop 4).take 4 ++ out ∧ out.length + hl ≤ bs.length := by
  have hhl : hl ≤ bs.length := by
    rcases parseHeader_cases _ _ _ _ hph with ⟨a, _, b, _⟩ | ⟨a, _, b⟩ <;> omega
  simp only [roundTrip, hph] at h
  split at h
  · cases h
  · split at h
    · cases h
    · rename_i sp hsp
      split at h
      · cases h
      · rename_i tr rest hdec
        obtain ⟨out, dc0, p, henc, hdc0, hp, hlen, hag, hdec2⟩ :=
          Layout.encode_decode _ sp.layout [] (bs.drop hl) tr rest (hb.drop hl) hdec
        simp only [List.length_nil, List.drop_zero] at henc
        split at h
        · cases h
        · split at h
          · cases h
          · split at h
            · cases h
            · split at h
              · cases h
              · rw [henc] at h
                simp only [RT.ok.injEq] at h
                refine ⟨out, h.2.1.symm, ?_⟩
                rw [List.length_drop] at hlen
                omega

theorem rtBox_shape (f : Nat) (bs : Bytes) (hb : IsBytes bs) (enc : Bytes) (dc : List Nat)
    (h : rtBox f bs = .ok enc dc) :
    ∃ ty hl body, parseHeader bs = some (ty, hl, bs.length) ∧
      enc = beBytes 4 (8 + body.length) ++ (bs.drop 4).take 4 ++ body ∧ body.length + hl ≤ bs.length := by
  obtain ⟨f', ty, hl, rfl, hph, hcase⟩ := rtBox_ok_cases f bs enc dc h
  rcases hcase with ⟨hc, rfl, kids, hk, _, _, henc, _⟩ | ⟨_, sz, hrt⟩
  · refine ⟨ty, 8, _, hph, henc, ?_⟩
    have hlen := rtKids_length _ _ _ hk
    have h8 : 8 ≤ bs.length := by
      rcases parseHeader_cases _ _ _ _ hph with ⟨_, _, h, _⟩ | ⟨h, _⟩ <;> omega
    rw [arrange_length, hlen, List.length_drop]; omega
  · obtain ⟨out, he, hl'⟩ := roundTrip_shape bs hb sz enc dc ty hl _ hph hrt
    exact ⟨ty, hl, out, hph, he, hl'⟩

theorem header_field (f : Nat) (bs : Bytes) (hb : IsBytes bs) (enc : Bytes) (dc : List Nat)
    (hsz : bs.length < 2 ^ 32) (h : rtBox f bs = .ok enc dc) :
    beVal (enc.take 4) = enc.length ∧ (enc.drop 4).take 4 = (bs.drop 4).take 4 ∧ enc.length ≤ bs.length := by
  obtain ⟨ty, hl, body, hph, henc, hlen⟩ := rtBox_shape f bs hb enc dc h
  have h8 : 8 ≤ bs.length ∧ 8 ≤ hl := by
    rcases parseHeader_cases _ _ _ _ hph with ⟨a, _, h, _⟩ | ⟨a, _, h⟩ <;> omega
  have ht4 : ((bs.drop 4).take 4).length = 4 := by simp; omega
  obtain ⟨e1, e2, e3, _⟩ := hdr_facts (8 + body.length) ((bs.drop 4).take 4) body ht4
  rw [← henc] at e1 e2 e3
  have hlt : 8 + body.length < 256 ^ 4 := by
    have : (256 : Nat) ^ 4 = 2 ^ 32 := by decide
    omega
  refine ⟨?_, e3, by omega⟩
  rw [e2, beVal_beBytes _ _ hlt, e1]

/-- an accepted box that keeps its length has an 8-byte header -/
theorem rtBox_hdr8 (f : Nat) (bs : Bytes) (hb : IsBytes bs) (enc : Bytes) (dc : List Nat)
    (h : rtBox f bs = .ok enc dc) (hlen : enc.length = bs.length) : beVal (bs.take 4) ≠ 1 := by
  obtain ⟨ty, hl, body, hph, henc, hle⟩ := rtBox_shape f bs hb enc dc h
  have h8 : 8 ≤ bs.length := by
    rcases parseHeader_cases _ _ _ _ hph with ⟨a, _, h, _⟩ | ⟨a, _, h⟩ <;> omega
  have ht4 : ((bs.drop 4).take 4).length = 4 := by simp; omega
  obtain ⟨e1, _⟩ := hdr_facts (8 + body.length) ((bs.drop 4).take 4) body ht4
  rw [← henc] at e1
  rcases parseHeader_cases _ _ _ _ hph with ⟨_, a, _, _⟩ | ⟨a, _, _⟩
  · exact a
  · omega

/-! ### lossless through nesting -/

theorem dcKids_shift (ks : List Kid) : ∀ off, dcKids ks off = (dcKids ks 0).map (· + off) := by
  induction ks with
  | nil => intro off; rfl
  | cons k ks ih =>
    intro off
    simp only [dcKids, List.map_append, List.map_map]
    rw [ih (off + k.enc.length), ih (0 + k.enc.length), List.map_map]
    congr 1 <;>
      (apply List.map_congr_left
       intro x _; simp only [Function.comp_def]; omega)

theorem dcKids_cons0 (k : Kid) (ks : List Kid) :
    dcKids (k :: ks) 0 = k.dc ++ (dcKids ks 0).map (· + k.enc.length) := by
  simp only [dcKids]
  rw [dcKids_shift ks (0 + k.enc.length)]
  congr 1
  · simp
  · apply List.map_congr_left
    intro x _; omega

theorem moovFree_succ (f : Nat) (bs : Bytes) (ty : String) (hl size : Nat)
    (hph : parseHeader bs = some (ty, hl, size)) (h : moovFree (f + 1) bs = true) :
    ty ≠ "moov" ∧ (containers.contains ty = true → moovFreeKids f (bs.drop 8) = true) := by
  simp only [moovFree, hph] at h
  by_cases c : ty = "moov"
  · simp [c] at h
  · simp only [if_neg c] at h
    refine ⟨c, fun hc => ?_⟩
    rw [if_pos hc] at h; exact h

theorem moovFreeKids_succ (f : Nat) (bs : Bytes) (ty : String) (hl size : Nat) (hne : bs ≠ [])
    (hph : parseHeader bs = some (ty, hl, size)) (hle : size ≤ bs.length)
    (h : moovFreeKids (f + 1) bs = true) :
    moovFree f (bs.take size) = true ∧ moovFreeKids f (bs.drop size) = true := by
  have c0 : ¬ bs.isEmpty = true := fun hh => hne (List.isEmpty_iff.1 hh)
  have c1 : ¬ size > bs.length := by omega
  simp only [moovFreeKids, hph, if_neg c0, if_neg c1, Bool.and_eq_true] at h
  exact h

/-- an accepted box that keeps its length keeps its 8 header bytes -/
theorem rtBox_hdr_eq (f : Nat) (bs : Bytes) (hb : IsBytes bs) (enc : Bytes) (dc : List Nat)
    (h : rtBox f bs = .ok enc dc) (hlen : enc.length = bs.length) :
    ∃ body, enc = bs.take 8 ++ body := by
  obtain ⟨ty, hl, body, hph, henc, hle⟩ := rtBox_shape f bs hb enc dc h
  have h1 := rtBox_hdr8 f bs hb enc dc h hlen
  obtain ⟨h8, _, hsz, _, _⟩ := parseHeader_8 bs h1 ty hl _ hph
  have ht4 : ((bs.drop 4).take 4).length = 4 := by simp; omega
  obtain ⟨e1, _⟩ := hdr_facts (8 + body.length) ((bs.drop 4).take 4) body ht4
  rw [← henc] at e1
  have hb4 : beBytes 4 (8 + body.length) = bs.take 4 := by
    have hl4 : (bs.take 4).length = 4 := by simp; omega
    have := beBytes_beVal (bs.take 4) (hb.take 4)
    rw [hl4] at this
    rw [← this, ← hsz]; congr 1; omega
  refine ⟨body, ?_⟩
  rw [henc, hb4, ← List.take_add]

theorem lossless_gen : ∀ f : Nat,
    (∀ bs enc dc, IsBytes bs → bs.length < 2 ^ 32 → moovFree f bs = true → rtBox f bs = .ok enc dc →
      enc.length = bs.length → ∀ i, i < enc.length → i ∉ dc → enc[i]? = bs[i]?) ∧
    (∀ bs ks, IsBytes bs → bs.length < 2 ^ 32 → moovFreeKids f bs = true → rtKids f bs = .ok ks →
      ∀ i, i < (encKids ks).length → i ∉ dcKids ks 0 → (encKids ks)[i]? = bs[i]?) := by
  intro f
  induction f with
  | zero =>
    constructor
    · intro bs enc dc _ _ _ h; simp [rtBox] at h
    · intro bs ks _ _ _ h; simp [rtKids] at h
  | succ f ih =>
    obtain ⟨ihB, ihK⟩ := ih
    constructor
    · intro bs enc dc hb hsz hm h hlen i hi hn
      obtain ⟨body, hbody⟩ := rtBox_hdr_eq _ bs hb enc dc h hlen
      have h1 := rtBox_hdr8 _ bs hb enc dc h hlen
      obtain ⟨f', ty, hl, hf, hph, hcase⟩ := rtBox_ok_cases _ bs enc dc h
      have hf' : f = f' := by omega
      subst hf'
      obtain ⟨h8, _, _, _, _⟩ := parseHeader_8 bs h1 ty hl _ hph
      by_cases hi8 : i < 8
      · have ht : (bs.take 8).length = 8 := by simp; omega
        rw [hbody, List.getElem?_append_left (by omega), List.getElem?_take, if_pos hi8]
      · obtain ⟨hty, hmk⟩ := moovFree_succ f bs ty hl _ hph hm
        rcases hcase with ⟨hc, _, kids, hk, _, _, henc, hdc⟩ | ⟨_, sz, hrt⟩
        · rw [arrange_of_ne ty kids hty] at henc hdc
          have ht4 : ((bs.drop 4).take 4).length = 4 := by simp; omega
          have hhl : (beBytes 4 (8 + (encKids kids).length) ++ (bs.drop 4).take 4).length = 8 := by
            simp [beBytes_length, ht4]
          have hlk : (encKids kids).length + 8 = enc.length := by
            rw [henc, List.length_append, hhl]; omega
          have hn' : i - 8 ∉ dcKids kids 0 := by
            intro hmem
            apply hn
            rw [hdc, dcKids_shift kids 8]
            exact List.mem_map.2 ⟨i - 8, hmem, by omega⟩
          have := ihK (bs.drop 8) kids (hb.drop 8) (by rw [List.length_drop]; omega) (hmk hc) hk (i - 8)
            (by omega) hn'
          rw [henc, List.getElem?_append_right (by rw [hhl]; omega), hhl, this, List.getElem?_drop]
          congr 1; omega
        · obtain ⟨_, _, _, _, hag, _⟩ := roundTrip_spec bs hb sz enc dc h1 hsz hrt
          exact hag i (by omega) hi hn
    · intro bs ks hb hsz hm h
      rcases rtKids_ok_cases f bs ks h with ⟨rfl, rfl⟩ | ⟨ty, hl, size, ks', hph, hle, hne, hk, hr⟩
      · intro i hi; simp [encKids] at hi
      · obtain ⟨hm1, hm2⟩ := moovFreeKids_succ f bs ty hl size hne hph hle hm
        have hrest := ihK (bs.drop size) ks' (hb.drop size) (by rw [List.length_drop]; omega) hm2 hk
        have htl : (bs.take size).length = size := by simp; omega
        rcases hr with ⟨_, rfl⟩ | ⟨enc, dc, hbx, hlen, rfl⟩
        · rw [dcKids_cons0]
          simp only [encKids]
          refine Layout.agree_seq (bs.take size) (encKids ks') bs (bs.drop size) [] (dcKids ks' 0)
            (by rw [htl]) ?_ hrest
          intro i hi _
          rw [List.getElem?_take, if_pos (by omega)]
        · rw [dcKids_cons0]
          simp only [encKids]
          refine Layout.agree_seq enc (encKids ks') bs (bs.drop size) dc (dcKids ks' 0)
            (by rw [hlen]) ?_ hrest
          intro i hi hn
          have := ihB (bs.take size) enc dc (hb.take size) (by omega) hm1 hbx (by omega) i hi hn
          rw [this, List.getElem?_take, if_pos (by omega)]

theorem lossless (f : Nat) (bs : Bytes) (hb : IsBytes bs) (enc : Bytes) (dc : List Nat)
    (hsz : bs.length < 2 ^ 32) (h8 : beVal (bs.take 4) ≠ 1) (hm : moovFree f bs = true)
    (h : rtBox f bs = .ok enc dc) :
    ∀ i, 8 ≤ i → i < enc.length → i ∉ dc → enc[i]? = bs[i]? := by
  intro i h8i hi hn
  obtain ⟨f', ty, hl, hf, hph, hcase⟩ := rtBox_ok_cases _ bs enc dc h
  rcases hcase with ⟨hc, _, _⟩ | ⟨_, sz, hrt⟩
  · have hlen := container_length f bs enc dc ty hl _ hph hc h
    exact (lossless_gen f).1 bs enc dc hb hsz hm h hlen i hi hn
  · obtain ⟨_, _, _, _, hag, _⟩ := roundTrip_spec bs hb sz enc dc h8 hsz hrt
    exact hag i h8i hi hn

end Mp4ff.TreeRT
