import Mp4ff.Model.Tree
import Mp4ff.Lemmas.LayoutThms
/-!
Nested round trip (Model/Tree.lean): proofs.  Statements are fixed in Props/C01b.lean.
First the length part of `Layout.encode_decode` without `IsBytes` (needed for `container_length`, which has no such
hypothesis), then the tree lemmas.
-/
namespace Mp4ff.Layout

theorem decFld_len (fl : Fld) (acc : Trace) (bs : Bytes) (v : Val) (bs' : Bytes)
    (hd : decFld fl acc bs = some (v, bs')) :
    ∃ b, encFld fl acc v = some b ∧ b.length + bs'.length = bs.length := by
  cases fl with
  | u w =>
    simp only [decFld] at hd
    split at hd
    · simp at hd
    · simp at hd; obtain ⟨rfl, rfl⟩ := hd
      exact ⟨_, rfl, by simp [beBytes_length]; omega⟩
  | udyn w =>
    simp only [decFld] at hd
    split at hd
    · simp at hd
    · simp at hd; obtain ⟨rfl, rfl⟩ := hd
      exact ⟨_, rfl, by simp [beBytes_length]; omega⟩
  | raw n =>
    simp only [decFld] at hd
    split at hd
    · simp at hd
    · simp at hd; obtain ⟨rfl, rfl⟩ := hd
      exact ⟨bs.take n, by simp [encFld]; omega, by simp; omega⟩
  | rawdyn n =>
    simp only [decFld] at hd
    split at hd
    · simp at hd
    · simp at hd; obtain ⟨rfl, rfl⟩ := hd
      exact ⟨bs.take (n acc), by simp [encFld]; omega, by simp; omega⟩
  | rsv fill =>
    simp only [decFld] at hd
    split at hd
    · simp at hd
    · simp at hd; obtain ⟨rfl, rfl⟩ := hd
      exact ⟨fill, by simp [encFld], by simp; omega⟩
  | cstr =>
    simp only [decFld, Option.map_eq_some_iff] at hd
    obtain ⟨⟨a, r⟩, h1, h2⟩ := hd
    simp at h2; obtain ⟨rfl, rfl⟩ := h2
    obtain ⟨e, _⟩ := splitZero_some _ _ _ h1
    exact ⟨a ++ [0], by simp [encFld], by rw [e]; simp; omega⟩
  | rest =>
    simp only [decFld] at hd
    simp at hd; obtain ⟨rfl, rfl⟩ := hd
    exact ⟨bs, by simp [encFld], by simp⟩

/-- the length part of `encode_decode`, for arbitrary lists of naturals (no `IsBytes`): what the decoder consumed is
    re-encoded (always successfully) to as many bytes -/
theorem decode_encode_len (f : Nat) : ∀ (L : List Syn) (acc : Trace) (bs : Bytes) (a : Trace) (rest : Bytes),
    decode f L acc bs = some (a, rest) →
    ∃ (ext : Trace) (out : Bytes), a = acc ++ ext ∧
      (∀ more, encode f L acc (ext ++ more) = some (out, a, more)) ∧
      out.length + rest.length = bs.length := by
  induction f with
  | zero => intro L acc bs a rest h; simp [decode] at h
  | succ f ih =>
    intro L acc bs a rst hd
    match L with
    | [] =>
      simp only [decode, Option.some.injEq, Prod.mk.injEq] at hd
      obtain ⟨rfl, rfl⟩ := hd
      exact ⟨[], [], by simp, by simp [encode], by simp⟩
    | .fld nm fl :: rest =>
      simp only [decode] at hd
      split at hd
      · rename_i v bs' hv
        obtain ⟨b, hb, hlen⟩ := decFld_len fl acc bs v bs' hv
        obtain ⟨ext2, o2, ha, henc, hlen2⟩ := ih rest _ bs' a rst hd
        refine ⟨(nm, v) :: ext2, b ++ o2, ?_, ?_, ?_⟩
        · rw [ha]; simp
        · intro more
          simp only [encode, List.cons_append, if_true, hb, henc more]
        · simp only [List.length_append]; omega
      · simp at hd
    | .cond p body :: rest =>
      simp only [decode] at hd
      by_cases hp : p acc
      · simp only [hp, if_true] at hd
        split at hd
        · rename_i a1 bs1 h1
          obtain ⟨ext1, o1, ha1, henc1, hlen1⟩ := ih body acc bs a1 bs1 h1
          obtain ⟨ext2, o2, ha, henc, hlen2⟩ := ih rest a1 bs1 a rst hd
          refine ⟨ext1 ++ ext2, o1 ++ o2, ?_, ?_, ?_⟩
          · rw [ha, ha1]; simp
          · intro more
            simp only [encode, hp, if_true, List.append_assoc, henc1 (ext2 ++ more), henc more]
          · simp only [List.length_append]; omega
        · simp at hd
      · simp only [hp] at hd
        obtain ⟨ext2, o2, ha, henc, hlen2⟩ := ih rest acc bs a rst hd
        refine ⟨ext2, o2, ha, ?_, hlen2⟩
        intro more; simp only [encode, hp]; exact henc more
    | .rep cnt body :: rest =>
      simp only [decode] at hd
      cases hc : cnt acc with
      | zero =>
        simp only [hc] at hd
        obtain ⟨ext2, o2, ha, henc, hlen2⟩ := ih rest acc bs a rst hd
        refine ⟨ext2, o2, ha, ?_, hlen2⟩
        intro more; simp only [encode, hc]; exact henc more
      | succ n =>
        simp only [hc] at hd
        split at hd
        · rename_i a1 bs1 h1
          obtain ⟨ext1, o1, ha1, henc1, hlen1⟩ := ih body acc bs a1 bs1 h1
          obtain ⟨ext2, o2, ha, henc, hlen2⟩ := ih _ a1 bs1 a rst hd
          refine ⟨ext1 ++ ext2, o1 ++ o2, ?_, ?_, ?_⟩
          · rw [ha, ha1]; simp
          · intro more
            simp only [encode, hc, List.append_assoc, henc1 (ext2 ++ more), henc more]
          · simp only [List.length_append]; omega
        · simp at hd

/-- at the top level (`acc = []`): the re-encoding that `rtBox` computes has the length the decoder consumed -/
theorem decode_encode_len0 (f : Nat) (L : List Syn) (bs : Bytes) (tr : Trace) (rest : Bytes)
    (hd : decode f L [] bs = some (tr, rest)) :
    ∃ out, encode f L [] tr = some (out, tr, []) ∧ out.length + rest.length = bs.length := by
  obtain ⟨ext, out, ha, henc, hlen⟩ := decode_encode_len f L [] bs tr rest hd
  simp only [List.nil_append] at ha
  subst ha
  have := henc []
  rw [List.append_nil] at this
  exact ⟨out, this, hlen⟩

/-- whenever the decoder accepts, the don't-care walk over the same bytes succeeds with the same trace and rest
    (no `IsBytes` needed) -/
theorem decode_dontCare (f : Nat) : ∀ (L : List Syn) (acc : Trace) (bs : Bytes) (a : Trace) (rest : Bytes) (pos : Nat),
    decode f L acc bs = some (a, rest) → ∃ dc p, dontCare f L acc bs pos = some (dc, a, rest, p) := by
  induction f with
  | zero => intro L acc bs a rest pos h; simp [decode] at h
  | succ f ih =>
    intro L acc bs a rst pos hd
    match L with
    | [] =>
      simp only [decode, Option.some.injEq, Prod.mk.injEq] at hd
      obtain ⟨rfl, rfl⟩ := hd
      exact ⟨[], pos, by simp [dontCare]⟩
    | .fld nm fl :: rest =>
      simp only [decode] at hd
      split at hd
      · rename_i v bs' hv
        obtain ⟨dc, p, h⟩ := ih rest _ bs' a rst (pos + (bs.length - bs'.length)) hd
        exact ⟨_, p, by simp only [dontCare, hv, h, Option.map_some]; rfl⟩
      · simp at hd
    | .cond p body :: rest =>
      simp only [decode] at hd
      by_cases hp : p acc
      · simp only [hp, if_true] at hd
        split at hd
        · rename_i a1 bs1 h1
          obtain ⟨dc1, p1, e1⟩ := ih body acc bs a1 bs1 pos h1
          obtain ⟨dc2, p2, e2⟩ := ih rest a1 bs1 a rst p1 hd
          exact ⟨_, p2, by simp only [dontCare, hp, if_true, e1, e2, Option.map_some]; rfl⟩
        · simp at hd
      · simp only [hp] at hd
        obtain ⟨dc2, p2, e2⟩ := ih rest acc bs a rst pos hd
        exact ⟨dc2, p2, by simp only [dontCare, hp]; exact e2⟩
    | .rep cnt body :: rest =>
      simp only [decode] at hd
      cases hc : cnt acc with
      | zero =>
        simp only [hc] at hd
        obtain ⟨dc2, p2, e2⟩ := ih rest acc bs a rst pos hd
        exact ⟨dc2, p2, by simp only [dontCare, hc]; exact e2⟩
      | succ n =>
        simp only [hc] at hd
        split at hd
        · rename_i a1 bs1 h1
          obtain ⟨dc1, p1, e1⟩ := ih body acc bs a1 bs1 pos h1
          obtain ⟨dc2, p2, e2⟩ := ih _ a1 bs1 a rst p1 hd
          exact ⟨_, p2, by simp only [dontCare, hc, e1, e2, Option.map_some]; rfl⟩
        · simp at hd

end Mp4ff.Layout

namespace Mp4ff.TreeRT
open Mp4ff Mp4ff.Boxes

mutual
/-- the walk of `rtBox` meets no `moov` box (at any depth, including the box itself) -/
def moovFree : Nat → Bytes → Bool
  | 0, _ => true
  | f + 1, bs =>
    match parseHeader bs with
    | none => true
    | some (ty, _, _) =>
      if ty = "moov" then false
      else match pspecOf ty with
        | some ps =>
          match Layout.decode (Layout.fuelFor ps.pre (bs.drop 8).length) ps.pre [] (bs.drop 8) with
          | some (_, rest) => moovFreeKids f rest
          | none => true
        | none => true
def moovFreeKids : Nat → Bytes → Bool
  | 0, _ => true
  | f + 1, bs =>
    if bs.isEmpty then true else
    match parseHeader bs with
    | none => true
    | some (_, _, size) =>
      if size > bs.length then true
      else moovFree f (bs.take size) && moovFreeKids f (bs.drop size)
end

/-! ### unfolding lemmas -/

/-- what `rtKids` does with the result for the first child and the result for the rest -/
def combineKid (ty : String) (size : Nat) (child : Bytes) : Res → KidsRes → KidsRes
  | .rejected, _ => .rejected
  | .unmodelled, _ => .unmodelled
  | .encFails, .ok ks => .ok ({ ty := ty, enc := child, dc := [], encOK := false } :: ks)
  | .ok enc dc, .ok ks =>
    if enc.length ≠ size then .rejected else .ok ({ ty := ty, enc := enc, dc := dc } :: ks)
  | _, .rejected => .rejected
  | _, .unmodelled => .unmodelled

theorem rtKids_succ (f : Nat) (bs : Bytes) :
    rtKids (f + 1) bs =
      if bs.isEmpty then .ok [] else
      match parseHeader bs with
      | none => .rejected
      | some (ty, _, size) =>
        if size > bs.length then .rejected
        else combineKid ty size (bs.take size) (rtBox f (bs.take size)) (rtKids f (bs.drop size)) := by
  rw [rtKids]
  unfold combineKid
  rfl

/-- the child-count check of stsd / dref -/
def countBad (ps : PSpec) (tr : Layout.Trace) (n : Nat) : Bool :=
  match ps.count with
  | some c => decide (tr.nat c ≠ n)
  | none => false

/-- the container branch of `rtBox` once the prefix is decoded and the children are known -/
def finishBox (ty : String) (bs : Bytes) (ps : PSpec) (fuelP : Nat) (tr : Layout.Trace) (payload : Bytes) :
    KidsRes → Res
  | .unmodelled => .unmodelled
  | .rejected => .rejected
  | .ok kids =>
    if ¬ accepts ty kids then .rejected
    else if countBad ps tr kids.length then .rejected
    else
      let ks := arrange ty kids
      if ks.all (·.encOK) then
        match Layout.encode fuelP ps.pre [] tr, Layout.dontCare fuelP ps.pre [] payload 0 with
        | some (pb, _, _), some (pdc, _, _, _) =>
          let body := encKids ks
          .ok (beBytes 4 (8 + pb.length + body.length) ++ (bs.drop 4).take 4 ++ pb ++ body)
              (pdc.map (· + 8) ++ dcKids ks (8 + pb.length))
        | _, _ => .encFails
      else .encFails

/-- the container branch of `rtBox`: prefix, then children -/
def prefixBox (f : Nat) (ty : String) (bs : Bytes) (ps : PSpec) : Res :=
  match Layout.decode (Layout.fuelFor ps.pre (bs.drop 8).length) ps.pre [] (bs.drop 8) with
  | none => .rejected
  | some (tr, rest) =>
    if ¬ ps.valid tr then .rejected
    else finishBox ty bs ps (Layout.fuelFor ps.pre (bs.drop 8).length) tr (bs.drop 8) (rtKids f rest)

/-- what `DecodeUnknown[SR]` + `Encode` give: the payload verbatim behind an 8-byte header -/
def unknownEnc (hl : Nat) (bs : Bytes) : Bytes :=
  beBytes 4 (8 + (bs.drop hl).length) ++ (bs.drop 4).take 4 ++ bs.drop hl

def leafRes (ty : String) (hl : Nat) (bs : Bytes) : RT → Res
  | .unmodelled => if Generated.decoderKeys.contains ty then .unmodelled else .ok (unknownEnc hl bs) []
  | .rejected => .rejected
  | .encFails => .encFails
  | .ok _ enc dc => .ok enc dc

theorem rtBox_succ (f : Nat) (bs : Bytes) :
    rtBox (f + 1) bs =
      match parseHeader bs with
      | none => .rejected
      | some (ty, hl, size) =>
        if size ≠ bs.length then .rejected
        else match pspecOf ty with
          | some ps => if hl ≠ 8 then .rejected else prefixBox f ty bs ps
          | none => leafRes ty hl bs (roundTrip bs) := by
  rw [rtBox]
  unfold prefixBox finishBox leafRes countBad unknownEnc
  rfl

/-! ### fuel monotonicity -/

theorem combineKid_mono (ty : String) (size : Nat) (child : Bytes) (r r' : Res) (k k' : KidsRes)
    (hr : r ≠ .rejected → r' = r) (hk : k ≠ .rejected → k' = k)
    (h : combineKid ty size child r k ≠ .rejected) :
    combineKid ty size child r' k' = combineKid ty size child r k := by
  cases r <;> cases k <;> simp [combineKid] at h hr hk ⊢ <;> simp_all

theorem finishBox_mono (ty : String) (bs : Bytes) (ps : PSpec) (fuelP : Nat) (tr : Layout.Trace) (payload : Bytes)
    (k k' : KidsRes) (hk : k ≠ .rejected → k' = k) (h : finishBox ty bs ps fuelP tr payload k ≠ .rejected) :
    finishBox ty bs ps fuelP tr payload k' = finishBox ty bs ps fuelP tr payload k := by
  cases k with
  | unmodelled => rw [hk (by simp)]
  | rejected => simp [finishBox] at h
  | ok kids => rw [hk (by simp)]

theorem prefixBox_mono (f g : Nat) (ty : String) (bs : Bytes) (ps : PSpec)
    (hk : ∀ rest, rtKids f rest ≠ .rejected → rtKids g rest = rtKids f rest)
    (h : prefixBox f ty bs ps ≠ .rejected) : prefixBox g ty bs ps = prefixBox f ty bs ps := by
  unfold prefixBox at h ⊢
  cases hd : Layout.decode (Layout.fuelFor ps.pre (bs.drop 8).length) ps.pre [] (bs.drop 8) with
  | none => rfl
  | some p =>
    obtain ⟨tr, rest⟩ := p
    simp only [hd] at h ⊢
    by_cases c : ¬ ps.valid tr = true
    · simp [c] at h
    simp only [if_neg c] at h ⊢
    exact finishBox_mono ty bs ps _ tr _ _ _ (hk rest) h

theorem fuel_mono_gen : ∀ f : Nat,
    (∀ g bs, f ≤ g → rtBox f bs ≠ .rejected → rtBox g bs = rtBox f bs) ∧
    (∀ g bs, f ≤ g → rtKids f bs ≠ .rejected → rtKids g bs = rtKids f bs) := by
  intro f
  induction f with
  | zero =>
    constructor
    · intro g bs _ h; simp [rtBox] at h
    · intro g bs _ h; simp [rtKids] at h
  | succ f ih =>
    obtain ⟨ihB, ihK⟩ := ih
    constructor
    · intro g bs hfg h
      obtain ⟨g, rfl⟩ : ∃ g', g = g' + 1 := ⟨g - 1, by omega⟩
      have hfg' : f ≤ g := by omega
      rw [rtBox_succ] at h
      rw [rtBox_succ f, rtBox_succ g]
      cases hph : parseHeader bs with
      | none => rfl
      | some p =>
        obtain ⟨ty, hl, size⟩ := p
        simp only [hph] at h ⊢
        by_cases c1 : size ≠ bs.length
        · simp [c1] at h
        simp only [if_neg c1] at h ⊢
        cases hps : pspecOf ty with
        | none => rfl
        | some ps =>
          simp only [hps] at h ⊢
          by_cases c3 : hl ≠ 8
          · simp [c3] at h
          simp only [if_neg c3] at h ⊢
          exact prefixBox_mono f g ty bs ps (fun rest => ihK g rest hfg') h
    · intro g bs hfg h
      obtain ⟨g, rfl⟩ : ∃ g', g = g' + 1 := ⟨g - 1, by omega⟩
      have hfg' : f ≤ g := by omega
      rw [rtKids_succ] at h
      rw [rtKids_succ f, rtKids_succ g]
      by_cases c0 : bs.isEmpty = true
      · simp only [if_pos c0]
      simp only [if_neg c0] at h ⊢
      cases hph : parseHeader bs with
      | none => rfl
      | some p =>
        obtain ⟨ty, hl, size⟩ := p
        simp only [hph] at h ⊢
        by_cases c1 : size > bs.length
        · simp [c1] at h
        simp only [if_neg c1] at h ⊢
        exact combineKid_mono ty size _ _ _ _ _ (ihB g _ hfg') (ihK g _ hfg') h

theorem fuel_mono (f g : Nat) (hfg : f ≤ g) (bs : Bytes) (enc : Bytes) (dc : List Nat)
    (h : rtBox f bs = .ok enc dc) : rtBox g bs = .ok enc dc := by
  rw [(fuel_mono_gen f).1 g bs hfg (by rw [h]; simp), h]

theorem roundTripTree_stable (bs : Bytes) (enc : Bytes) (dc : List Nat) (g : Nat) (hg : bs.length + 2 ≤ g)
    (h : roundTripTree bs = .ok enc dc) : rtBox g bs = .ok enc dc :=
  fuel_mono (bs.length + 2) g hg bs enc dc h

/-! ### children: concatenation, `arrange` -/

theorem encKids_append (a b : List Kid) : encKids (a ++ b) = encKids a ++ encKids b := by
  induction a with
  | nil => rfl
  | cons k ks ih => simp [encKids, ih]

theorem encKids_insert_length (cs : List Kid) (c : Kid) (n : Nat) :
    (encKids (cs.take n ++ [c] ++ cs.drop n)).length = (encKids cs).length + c.enc.length := by
  have h : (encKids cs).length = (encKids (cs.take n ++ cs.drop n)).length := by rw [List.take_append_drop]
  rw [h]
  simp only [encKids_append, List.length_append, encKids, List.length_nil]
  omega

theorem all_insert (cs : List Kid) (c : Kid) (n : Nat) :
    (cs.take n ++ [c] ++ cs.drop n).all (·.encOK) = (cs.all (·.encOK) && c.encOK) := by
  have h : cs.all (·.encOK) = (cs.take n ++ cs.drop n).all (·.encOK) := by rw [List.take_append_drop]
  rw [h]
  simp only [List.all_append, List.all_cons, List.all_nil, Bool.and_true]
  cases (cs.take n).all (·.encOK) <;> cases (cs.drop n).all (·.encOK) <;> cases c.encOK <;> rfl

theorem moovAddChild_length (cs : List Kid) (c : Kid) :
    (encKids (moovAddChild cs c)).length = (encKids cs).length + c.enc.length := by
  have happ : (encKids (cs ++ [c])).length = (encKids cs).length + c.enc.length := by
    simp [encKids_append, encKids]
  unfold moovAddChild
  split
  · simp only []
    split
    · exact encKids_insert_length cs c _
    · exact happ
  · exact happ

theorem moovAddChild_all (cs : List Kid) (c : Kid) :
    (moovAddChild cs c).all (·.encOK) = (cs.all (·.encOK) && c.encOK) := by
  have happ : (cs ++ [c]).all (·.encOK) = (cs.all (·.encOK) && c.encOK) := by
    simp [List.all_append]
  unfold moovAddChild
  split
  · simp only []
    split
    · exact all_insert cs c _
    · exact happ
  · exact happ

theorem foldl_moov_length (kids : List Kid) : ∀ acc : List Kid,
    (encKids (kids.foldl moovAddChild acc)).length = (encKids acc).length + (encKids kids).length := by
  induction kids with
  | nil => intro acc; simp [encKids]
  | cons k ks ih =>
    intro acc
    rw [List.foldl_cons, ih, moovAddChild_length]
    simp [encKids]; omega

theorem arrange_length (ty : String) (kids : List Kid) :
    (encKids (arrange ty kids)).length = (encKids kids).length := by
  unfold arrange
  split
  · rw [foldl_moov_length]; simp [encKids]
  · rfl

theorem arrange_of_ne (ty : String) (kids : List Kid) (h : ty ≠ "moov") : arrange ty kids = kids := by
  unfold arrange; rw [if_neg h]

/-! ### the children fill their slice exactly -/

theorem combineKid_ok (ty : String) (size : Nat) (child : Bytes) (r : Res) (k : KidsRes) (ks : List Kid)
    (h : combineKid ty size child r k = .ok ks) :
    ∃ ks', k = .ok ks' ∧
      ((r = .encFails ∧ ks = { ty := ty, enc := child, dc := [], encOK := false } :: ks') ∨
       (∃ enc dc, r = .ok enc dc ∧ enc.length = size ∧ ks = { ty := ty, enc := enc, dc := dc } :: ks')) := by
  cases r <;> cases k <;> simp [combineKid] at h
  · rename_i ks'
    exact ⟨ks', rfl, Or.inl ⟨rfl, h.symm⟩⟩
  · rename_i enc dc ks'
    by_cases c : enc.length = size
    · simp only [if_pos c, KidsRes.ok.injEq] at h
      exact ⟨ks', rfl, Or.inr ⟨enc, dc, rfl, c, h.symm⟩⟩
    · simp [if_neg c] at h

/-- the cases of a successful `rtKids` step -/
theorem rtKids_ok_cases (f : Nat) (bs : Bytes) (ks : List Kid) (h : rtKids (f + 1) bs = .ok ks) :
    (bs = [] ∧ ks = []) ∨
    ∃ ty hl size ks', parseHeader bs = some (ty, hl, size) ∧ size ≤ bs.length ∧ bs ≠ [] ∧
      rtKids f (bs.drop size) = .ok ks' ∧
      ((rtBox f (bs.take size) = .encFails ∧
          ks = { ty := ty, enc := bs.take size, dc := [], encOK := false } :: ks') ∨
       (∃ enc dc, rtBox f (bs.take size) = .ok enc dc ∧ enc.length = size ∧
          ks = { ty := ty, enc := enc, dc := dc } :: ks')) := by
  rw [rtKids_succ] at h
  by_cases c0 : bs.isEmpty = true
  · simp only [if_pos c0, KidsRes.ok.injEq] at h
    exact Or.inl ⟨List.isEmpty_iff.1 c0, h.symm⟩
  simp only [if_neg c0] at h
  cases hph : parseHeader bs with
  | none => simp [hph] at h
  | some p =>
    obtain ⟨ty, hl, size⟩ := p
    simp only [hph] at h
    by_cases c1 : size > bs.length
    · simp [c1] at h
    simp only [if_neg c1] at h
    obtain ⟨ks', hk, hr⟩ := combineKid_ok _ _ _ _ _ _ h
    exact Or.inr ⟨ty, hl, size, ks', rfl, by omega, fun hn => c0 (by simp [hn]), hk, hr⟩

theorem rtKids_length : ∀ (f : Nat) (bs : Bytes) (ks : List Kid), rtKids f bs = .ok ks →
    (encKids ks).length = bs.length := by
  intro f
  induction f with
  | zero => intro bs ks h; simp [rtKids] at h
  | succ f ih =>
    intro bs ks h
    rcases rtKids_ok_cases f bs ks h with ⟨rfl, rfl⟩ | ⟨ty, hl, size, ks', hph, hle, hne, hk, hr⟩
    · rfl
    · have := ih _ _ hk
      rcases hr with ⟨_, rfl⟩ | ⟨enc, dc, _, hlen, rfl⟩
      · simp [encKids, this]; omega
      · simp [encKids, this, hlen]; omega

/-! ### one box -/

theorem find_of_mem (l : List (String × PSpec)) (ty : String) (h : ty ∈ l.map (·.1)) :
    ∃ ps, (l.find? (·.1 == ty)).map (·.2) = some ps := by
  obtain ⟨p, hp, e⟩ := List.mem_map.1 h
  cases hf : l.find? (·.1 == ty) with
  | some q => exact ⟨q.2, rfl⟩
  | none =>
    have := List.find?_eq_none.1 hf p hp
    simp [e] at this

/-- the containers of the model are the types with a prefix specification -/
theorem pspecOf_of_container (ty : String) (hc : containers.contains ty = true) : ∃ ps, pspecOf ty = some ps := by
  unfold pspecOf
  by_cases c : plain.contains ty = true
  · exact ⟨_, if_pos c⟩
  · rw [if_neg c]
    apply find_of_mem
    have hm : ty ∈ containers := List.contains_iff_mem.1 hc
    have hp : ty ∉ plain := fun x => c (List.contains_iff_mem.2 x)
    unfold containers at hm
    rcases List.mem_append.1 hm with x | x
    · exact absurd x hp
    · exact x

theorem finishBox_ok (ty : String) (bs : Bytes) (ps : PSpec) (fuelP : Nat) (tr : Layout.Trace) (payload : Bytes)
    (k : KidsRes) (enc : Bytes) (dc : List Nat) (h : finishBox ty bs ps fuelP tr payload k = .ok enc dc) :
    ∃ kids pb pdc a1 a2 b1 b2 b3, k = .ok kids ∧ accepts ty kids = true ∧
      (arrange ty kids).all (·.encOK) = true ∧
      Layout.encode fuelP ps.pre [] tr = some (pb, a1, a2) ∧
      Layout.dontCare fuelP ps.pre [] payload 0 = some (pdc, b1, b2, b3) ∧
      enc = beBytes 4 (8 + pb.length + (encKids (arrange ty kids)).length) ++ (bs.drop 4).take 4 ++ pb ++
        encKids (arrange ty kids) ∧
      dc = pdc.map (· + 8) ++ dcKids (arrange ty kids) (8 + pb.length) := by
  cases k with
  | unmodelled => simp [finishBox] at h
  | rejected => simp [finishBox] at h
  | ok kids =>
    simp only [finishBox] at h
    split at h
    · cases h
    · rename_i c1
      split at h
      · cases h
      · split at h
        · rename_i c2
          split at h
          · rename_i pb a1 a2 pdc b1 b2 b3 he hd
            simp only [Res.ok.injEq] at h
            exact ⟨kids, pb, pdc, a1, a2, b1, b2, b3, rfl, Decidable.not_not.mp c1, c2, he, hd, h.1.symm, h.2.symm⟩
          · cases h
        · cases h

/-- what an accepted container looks like: prefix `pb` (as long as what the prefix decoder consumed), then the
    re-encoded children of the remaining bytes; on bytes, the prefix agrees with the input outside `pdc` -/
theorem prefixBox_ok (f : Nat) (ty : String) (bs : Bytes) (ps : PSpec) (enc : Bytes) (dc : List Nat)
    (h : prefixBox f ty bs ps = .ok enc dc) :
    ∃ (tr : Layout.Trace) (rest : Bytes) (kids : List Kid) (pb : Bytes) (pdc : List Nat),
      Layout.decode (Layout.fuelFor ps.pre (bs.drop 8).length) ps.pre [] (bs.drop 8) = some (tr, rest) ∧
      rtKids f rest = .ok kids ∧
      enc = beBytes 4 (8 + (pb ++ encKids (arrange ty kids)).length) ++ (bs.drop 4).take 4 ++
        (pb ++ encKids (arrange ty kids)) ∧
      dc = pdc.map (· + 8) ++ dcKids (arrange ty kids) (8 + pb.length) ∧
      pb.length + rest.length = (bs.drop 8).length ∧
      (IsBytes bs → rest = (bs.drop 8).drop pb.length ∧
        ∀ i, i < pb.length → i ∉ pdc → pb[i]? = (bs.drop 8)[i]?) := by
  unfold prefixBox at h
  cases hd : Layout.decode (Layout.fuelFor ps.pre (bs.drop 8).length) ps.pre [] (bs.drop 8) with
  | none => rw [hd] at h; cases h
  | some p =>
    obtain ⟨tr, rest⟩ := p
    simp only [hd] at h
    by_cases c : ¬ ps.valid tr = true
    · rw [if_pos c] at h; cases h
    simp only [if_neg c] at h
    obtain ⟨kids, pb, pdc, a1, a2, b1, b2, b3, hk, _, _, he, hdc, henc, hdcs⟩ := finishBox_ok _ _ _ _ _ _ _ _ _ h
    obtain ⟨out, he', hlen⟩ := Layout.decode_encode_len0 _ _ _ _ _ hd
    rw [he] at he'
    simp only [Option.some.injEq, Prod.mk.injEq] at he'
    obtain ⟨rfl, _, _⟩ := he'
    refine ⟨tr, rest, kids, pb, pdc, rfl, hk, ?_, hdcs, hlen, ?_⟩
    · rw [henc, List.length_append, ← Nat.add_assoc, List.append_assoc _ pb]
    · intro hb
      obtain ⟨ext, out, dc0, ha, henc0, hdc0, _, hdrop, hag, _⟩ :=
        Layout.encode_decode_gen _ _ _ _ _ _ (hb.drop 8) hd
      simp only [List.nil_append] at ha
      subst ha
      have e1 := henc0 []
      rw [List.append_nil, he] at e1
      simp only [Option.some.injEq, Prod.mk.injEq] at e1
      obtain ⟨rfl, _, _⟩ := e1
      have e2 := hdc0 0
      rw [hdc] at e2
      simp only [Option.some.injEq, Prod.mk.injEq, Nat.add_zero, List.map_id'] at e2
      obtain ⟨rfl, _⟩ := e2
      exact ⟨hdrop, hag⟩

theorem leafRes_ok (ty : String) (hl : Nat) (bs : Bytes) (r : RT) (enc : Bytes) (dc : List Nat)
    (h : leafRes ty hl bs r = .ok enc dc) :
    (∃ sz, r = .ok sz enc dc) ∨ (r = .unmodelled ∧ enc = unknownEnc hl bs ∧ dc = []) := by
  cases r with
  | unmodelled =>
    simp only [leafRes] at h
    cases hk : Generated.decoderKeys.contains ty with
    | true => rw [hk] at h; simp at h
    | false =>
      rw [hk] at h
      simp only [Bool.false_eq_true, if_false, Res.ok.injEq] at h
      exact Or.inr ⟨rfl, h.1.symm, h.2.symm⟩
  | rejected => simp [leafRes] at h
  | encFails => simp [leafRes] at h
  | ok sz e d =>
    simp only [leafRes, Res.ok.injEq] at h
    exact Or.inl ⟨sz, by rw [h.1, h.2]⟩

/-- an unknown box kept verbatim: shape and length -/
theorem unknownEnc_length (hl : Nat) (bs : Bytes) (h8 : 8 ≤ bs.length) :
    (unknownEnc hl bs).length = 8 + (bs.length - hl) := by
  have ht4 : ((bs.drop 4).take 4).length = 4 := by simp; omega
  obtain ⟨e1, _⟩ := hdr_facts (8 + (bs.drop hl).length) ((bs.drop 4).take 4) (bs.drop hl) ht4
  unfold unknownEnc
  rw [e1, List.length_drop]

/-- with an 8-byte header the payload of an unknown box stays where it was -/
theorem unknownEnc_get (bs : Bytes) (hl : Nat) (h8 : 8 ≤ bs.length) (hl8 : hl = 8) (enc : Bytes)
    (he : enc = unknownEnc hl bs) (i : Nat) (hi : 8 ≤ i) : enc[i]? = bs[i]? := by
  subst hl8
  have ht4 : ((bs.drop 4).take 4).length = 4 := by simp; omega
  have hhl : (beBytes 4 (8 + (bs.drop 8).length) ++ (bs.drop 4).take 4).length = 8 := by
    simp [beBytes_length, ht4]
  rw [he]
  unfold unknownEnc
  rw [List.getElem?_append_right (by rw [hhl]; exact hi), hhl, List.getElem?_drop]
  congr 1; omega

/-- the cases of a successful `rtBox` -/
theorem rtBox_ok_cases (f : Nat) (bs : Bytes) (enc : Bytes) (dc : List Nat) (h : rtBox f bs = .ok enc dc) :
    ∃ f' ty hl, f = f' + 1 ∧ parseHeader bs = some (ty, hl, bs.length) ∧
      ((∃ ps, pspecOf ty = some ps ∧ hl = 8 ∧ prefixBox f' ty bs ps = .ok enc dc) ∨
       (pspecOf ty = none ∧ ∃ sz, roundTrip bs = .ok sz enc dc) ∨
       (pspecOf ty = none ∧ enc = unknownEnc hl bs ∧ dc = [])) := by
  cases f with
  | zero => simp [rtBox] at h
  | succ f =>
    rw [rtBox_succ] at h
    cases hph : parseHeader bs with
    | none => simp [hph] at h
    | some p =>
      obtain ⟨ty, hl, size⟩ := p
      simp only [hph] at h
      by_cases c1 : size ≠ bs.length
      · simp [c1] at h
      simp only [if_neg c1] at h
      have hs : size = bs.length := Decidable.not_not.mp c1
      subst hs
      refine ⟨f, ty, hl, rfl, rfl, ?_⟩
      cases hps : pspecOf ty with
      | some ps =>
        simp only [hps] at h
        by_cases c3 : hl ≠ 8
        · simp [c3] at h
        simp only [if_neg c3] at h
        exact Or.inl ⟨ps, rfl, Decidable.not_not.mp c3, h⟩
      | none =>
        simp only [hps] at h
        rcases leafRes_ok _ _ _ _ _ _ h with hok | ⟨_, he, hd⟩
        · exact Or.inr (Or.inl ⟨rfl, hok⟩)
        · exact Or.inr (Or.inr ⟨rfl, he, hd⟩)

theorem parseHeader_cases (bs : Bytes) (ty : String) (hl sz : Nat) (h : parseHeader bs = some (ty, hl, sz)) :
    (hl = 8 ∧ beVal (bs.take 4) ≠ 1 ∧ 8 ≤ bs.length ∧ sz = beVal (bs.take 4)) ∨
    (hl = 16 ∧ beVal (bs.take 4) = 1 ∧ 16 ≤ bs.length) := by
  by_cases h8 : beVal (bs.take 4) = 1
  · right
    simp only [parseHeader, h8, if_true] at h
    by_cases c1 : bs.length < 8
    · simp [c1] at h
    simp only [if_neg c1] at h
    by_cases c2 : bs.length < 16
    · simp [c2] at h
    simp only [if_neg c2] at h
    by_cases c3 : beVal ((bs.drop 8).take 8) < 16
    · simp [c3] at h
    simp only [if_neg c3, Option.some.injEq, Prod.mk.injEq] at h
    exact ⟨h.2.1.symm, h8, by omega⟩
  · left
    obtain ⟨a, b, c, _, _⟩ := parseHeader_8 bs h8 ty hl sz h
    exact ⟨b, h8, a, c⟩

/-- an accepted container: header, prefix and children are as long as the input -/
theorem prefixBox_length (f : Nat) (ty : String) (bs : Bytes) (ps : PSpec) (enc : Bytes) (dc : List Nat)
    (h8 : 8 ≤ bs.length) (h : prefixBox f ty bs ps = .ok enc dc) :
    ∃ body, enc = beBytes 4 (8 + body.length) ++ (bs.drop 4).take 4 ++ body ∧ body.length + 8 = bs.length := by
  obtain ⟨tr, rest, kids, pb, pdc, _, hk, henc, _, hlen, _⟩ := prefixBox_ok f ty bs ps enc dc h
  refine ⟨_, henc, ?_⟩
  have hkl := rtKids_length _ _ _ hk
  rw [List.length_append, arrange_length, hkl]
  rw [List.length_drop] at hlen
  omega

theorem container_length (f : Nat) (bs : Bytes) (enc : Bytes) (dc : List Nat) (ty : String) (hl size : Nat)
    (hh : parseHeader bs = some (ty, hl, size)) (hc : containers.contains ty = true)
    (h : rtBox f bs = .ok enc dc) : enc.length = bs.length := by
  obtain ⟨f', ty', hl', rfl, hph, hcase⟩ := rtBox_ok_cases f bs enc dc h
  rw [hh] at hph
  simp only [Option.some.injEq, Prod.mk.injEq] at hph
  obtain ⟨rfl, rfl, rfl⟩ := hph
  rcases hcase with ⟨ps, _, _, hp⟩ | ⟨hn, _⟩ | ⟨hn, _⟩
  · have h8 : 8 ≤ bs.length := by
      rcases parseHeader_cases _ _ _ _ hh with ⟨_, _, h, _⟩ | ⟨_, _, h⟩ <;> omega
    obtain ⟨body, henc, hlen⟩ := prefixBox_length f' ty bs ps enc dc h8 hp
    have ht4 : ((bs.drop 4).take 4).length = 4 := by simp; omega
    obtain ⟨e1, _⟩ := hdr_facts (8 + body.length) ((bs.drop 4).take 4) body ht4
    rw [henc, e1]
    omega
  · obtain ⟨ps, hps⟩ := pspecOf_of_container ty hc
    rw [hps] at hn; cases hn
  · obtain ⟨ps, hps⟩ := pspecOf_of_container ty hc
    rw [hps] at hn; cases hn

/-- the shape of an accepted leaf, whatever its header length -/
theorem roundTrip_shape (bs : Bytes) (hb : IsBytes bs) (size : Nat) (enc : Bytes) (dc : List Nat)
    (ty : String) (hl sz : Nat) (hph : parseHeader bs = some (ty, hl, sz))
    (h : roundTrip bs = .ok size enc dc) :
    ∃ out, enc = beBytes 4 (8 + out.length) ++ (bs.drop 4).take 4 ++ out ∧ out.length + hl ≤ bs.length := by
  have hhl : hl ≤ bs.length := by
    rcases parseHeader_cases _ _ _ _ hph with ⟨a, _, b, _⟩ | ⟨a, _, b⟩ <;> omega
  simp only [roundTrip, hph] at h
  split at h
  · cases h
  · split at h
    · cases h
    · rename_i sp hsp
      split at h
      · cases h
      · rename_i tr rest hdec
        obtain ⟨out, dc0, p, henc, hdc0, hp, hlen, hag, hdec2⟩ :=
          Layout.encode_decode _ sp.layout [] (bs.drop hl) tr rest (hb.drop hl) hdec
        simp only [List.length_nil, List.drop_zero] at henc
        split at h
        · cases h
        · split at h
          · cases h
          · split at h
            · cases h
            · split at h
              · cases h
              · rw [henc] at h
                simp only [RT.ok.injEq] at h
                refine ⟨out, h.2.1.symm, ?_⟩
                rw [List.length_drop] at hlen
                omega

theorem rtBox_shape (f : Nat) (bs : Bytes) (hb : IsBytes bs) (enc : Bytes) (dc : List Nat)
    (h : rtBox f bs = .ok enc dc) :
    ∃ ty hl body, parseHeader bs = some (ty, hl, bs.length) ∧
      enc = beBytes 4 (8 + body.length) ++ (bs.drop 4).take 4 ++ body ∧ body.length + hl ≤ bs.length := by
  obtain ⟨f', ty, hl, rfl, hph, hcase⟩ := rtBox_ok_cases f bs enc dc h
  rcases hcase with ⟨ps, _, rfl, hp⟩ | ⟨_, sz, hrt⟩ | ⟨_, he, _⟩
  · have h8 : 8 ≤ bs.length := by
      rcases parseHeader_cases _ _ _ _ hph with ⟨_, _, h, _⟩ | ⟨_, _, h⟩ <;> omega
    obtain ⟨body, henc, hlen⟩ := prefixBox_length f' ty bs ps enc dc h8 hp
    exact ⟨ty, 8, body, hph, henc, by omega⟩
  · obtain ⟨out, he, hl'⟩ := roundTrip_shape bs hb sz enc dc ty hl _ hph hrt
    exact ⟨ty, hl, out, hph, he, hl'⟩
  · have hhl : hl ≤ bs.length := by
      rcases parseHeader_cases _ _ _ _ hph with ⟨a, _, b, _⟩ | ⟨a, _, b⟩ <;> omega
    exact ⟨ty, hl, bs.drop hl, hph, he, by rw [List.length_drop]; omega⟩

theorem header_field (f : Nat) (bs : Bytes) (hb : IsBytes bs) (enc : Bytes) (dc : List Nat)
    (hsz : bs.length < 2 ^ 32) (h : rtBox f bs = .ok enc dc) :
    beVal (enc.take 4) = enc.length ∧ (enc.drop 4).take 4 = (bs.drop 4).take 4 ∧ enc.length ≤ bs.length := by
  obtain ⟨ty, hl, body, hph, henc, hlen⟩ := rtBox_shape f bs hb enc dc h
  have h8 : 8 ≤ bs.length ∧ 8 ≤ hl := by
    rcases parseHeader_cases _ _ _ _ hph with ⟨a, _, h, _⟩ | ⟨a, _, h⟩ <;> omega
  have ht4 : ((bs.drop 4).take 4).length = 4 := by simp; omega
  obtain ⟨e1, e2, e3, _⟩ := hdr_facts (8 + body.length) ((bs.drop 4).take 4) body ht4
  rw [← henc] at e1 e2 e3
  have hlt : 8 + body.length < 256 ^ 4 := by
    have : (256 : Nat) ^ 4 = 2 ^ 32 := by decide
    omega
  refine ⟨?_, e3, by omega⟩
  rw [e2, beVal_beBytes _ _ hlt, e1]

/-- an accepted box that keeps its length has an 8-byte header -/
theorem rtBox_hdr8 (f : Nat) (bs : Bytes) (hb : IsBytes bs) (enc : Bytes) (dc : List Nat)
    (h : rtBox f bs = .ok enc dc) (hlen : enc.length = bs.length) : beVal (bs.take 4) ≠ 1 := by
  obtain ⟨ty, hl, body, hph, henc, hle⟩ := rtBox_shape f bs hb enc dc h
  have h8 : 8 ≤ bs.length := by
    rcases parseHeader_cases _ _ _ _ hph with ⟨a, _, h, _⟩ | ⟨a, _, h⟩ <;> omega
  have ht4 : ((bs.drop 4).take 4).length = 4 := by simp; omega
  obtain ⟨e1, _⟩ := hdr_facts (8 + body.length) ((bs.drop 4).take 4) body ht4
  rw [← henc] at e1
  rcases parseHeader_cases _ _ _ _ hph with ⟨_, a, _, _⟩ | ⟨a, _, _⟩
  · exact a
  · omega

/-! ### lossless through nesting -/

theorem dcKids_shift (ks : List Kid) : ∀ off, dcKids ks off = (dcKids ks 0).map (· + off) := by
  induction ks with
  | nil => intro off; rfl
  | cons k ks ih =>
    intro off
    simp only [dcKids, List.map_append, List.map_map]
    rw [ih (off + k.enc.length), ih (0 + k.enc.length), List.map_map]
    congr 1 <;>
      (apply List.map_congr_left
       intro x _; simp only [Function.comp_def]; omega)

theorem dcKids_cons0 (k : Kid) (ks : List Kid) :
    dcKids (k :: ks) 0 = k.dc ++ (dcKids ks 0).map (· + k.enc.length) := by
  simp only [dcKids]
  rw [dcKids_shift ks (0 + k.enc.length)]
  congr 1
  · simp
  · apply List.map_congr_left
    intro x _; omega

theorem moovFree_succ (f : Nat) (bs : Bytes) (ty : String) (hl size : Nat)
    (hph : parseHeader bs = some (ty, hl, size)) (h : moovFree (f + 1) bs = true) :
    ty ≠ "moov" ∧ (∀ ps tr rest, pspecOf ty = some ps →
      Layout.decode (Layout.fuelFor ps.pre (bs.drop 8).length) ps.pre [] (bs.drop 8) = some (tr, rest) →
      moovFreeKids f rest = true) := by
  simp only [moovFree, hph] at h
  by_cases c : ty = "moov"
  · simp [c] at h
  · simp only [if_neg c] at h
    refine ⟨c, fun ps tr rest hps hd => ?_⟩
    simp only [hps, hd] at h; exact h

theorem moovFreeKids_succ (f : Nat) (bs : Bytes) (ty : String) (hl size : Nat) (hne : bs ≠ [])
    (hph : parseHeader bs = some (ty, hl, size)) (hle : size ≤ bs.length)
    (h : moovFreeKids (f + 1) bs = true) :
    moovFree f (bs.take size) = true ∧ moovFreeKids f (bs.drop size) = true := by
  have c0 : ¬ bs.isEmpty = true := fun hh => hne (List.isEmpty_iff.1 hh)
  have c1 : ¬ size > bs.length := by omega
  simp only [moovFreeKids, hph, if_neg c0, if_neg c1, Bool.and_eq_true] at h
  exact h

/-- an accepted box that keeps its length keeps its 8 header bytes -/
theorem rtBox_hdr_eq (f : Nat) (bs : Bytes) (hb : IsBytes bs) (enc : Bytes) (dc : List Nat)
    (h : rtBox f bs = .ok enc dc) (hlen : enc.length = bs.length) :
    ∃ body, enc = bs.take 8 ++ body := by
  obtain ⟨ty, hl, body, hph, henc, hle⟩ := rtBox_shape f bs hb enc dc h
  have h1 := rtBox_hdr8 f bs hb enc dc h hlen
  obtain ⟨h8, _, hsz, _, _⟩ := parseHeader_8 bs h1 ty hl _ hph
  have ht4 : ((bs.drop 4).take 4).length = 4 := by simp; omega
  obtain ⟨e1, _⟩ := hdr_facts (8 + body.length) ((bs.drop 4).take 4) body ht4
  rw [← henc] at e1
  have hb4 : beBytes 4 (8 + body.length) = bs.take 4 := by
    have hl4 : (bs.take 4).length = 4 := by simp; omega
    have := beBytes_beVal (bs.take 4) (hb.take 4)
    rw [hl4] at this
    rw [← this, ← hsz]; congr 1; omega
  refine ⟨body, ?_⟩
  rw [henc, hb4, ← List.take_add]

theorem lossless_gen : ∀ f : Nat,
    (∀ bs enc dc, IsBytes bs → bs.length < 2 ^ 32 → moovFree f bs = true → rtBox f bs = .ok enc dc →
      enc.length = bs.length → ∀ i, i < enc.length → i ∉ dc → enc[i]? = bs[i]?) ∧
    (∀ bs ks, IsBytes bs → bs.length < 2 ^ 32 → moovFreeKids f bs = true → rtKids f bs = .ok ks →
      ∀ i, i < (encKids ks).length → i ∉ dcKids ks 0 → (encKids ks)[i]? = bs[i]?) := by
  intro f
  induction f with
  | zero =>
    constructor
    · intro bs enc dc _ _ _ h; simp [rtBox] at h
    · intro bs ks _ _ _ h; simp [rtKids] at h
  | succ f ih =>
    obtain ⟨ihB, ihK⟩ := ih
    constructor
    · intro bs enc dc hb hsz hm h hlen i hi hn
      obtain ⟨body, hbody⟩ := rtBox_hdr_eq _ bs hb enc dc h hlen
      have h1 := rtBox_hdr8 _ bs hb enc dc h hlen
      obtain ⟨f', ty, hl, hf, hph, hcase⟩ := rtBox_ok_cases _ bs enc dc h
      have hf' : f = f' := by omega
      subst hf'
      obtain ⟨h8, hl8, _, _, _⟩ := parseHeader_8 bs h1 ty hl _ hph
      by_cases hi8 : i < 8
      · have ht : (bs.take 8).length = 8 := by simp; omega
        rw [hbody, List.getElem?_append_left (by omega), List.getElem?_take, if_pos hi8]
      · obtain ⟨hty, hmk⟩ := moovFree_succ f bs ty hl _ hph hm
        rcases hcase with ⟨ps, hps, _, hp⟩ | ⟨_, sz, hrt⟩ | ⟨_, he, _⟩
        · obtain ⟨tr, rest, kids, pb, pdc, hd, hk, henc, hdc, hplen, hbytes⟩ := prefixBox_ok f ty bs ps enc dc hp
          obtain ⟨hdrop, hag⟩ := hbytes hb
          rw [arrange_of_ne ty kids hty] at henc hdc
          have ht4 : ((bs.drop 4).take 4).length = 4 := by simp; omega
          have hhl : (beBytes 4 (8 + (pb ++ encKids kids).length) ++ (bs.drop 4).take 4).length = 8 := by
            simp [beBytes_length, ht4]
          have hlk : (pb ++ encKids kids).length + 8 = enc.length := by
            rw [henc]; simp only [List.length_append, beBytes_length, ht4]; omega
          have hrl : rest.length < 2 ^ 32 := by
            rw [List.length_drop] at hplen; omega
          have hrb : IsBytes rest := by rw [hdrop]; exact (hb.drop 8).drop _
          have hrest := ihK rest kids hrb hrl (hmk ps tr rest hps hd) hk
          have hn' : i - 8 ∉ pdc ++ (dcKids kids 0).map (· + pb.length) := by
            intro hmem
            apply hn
            rw [hdc, dcKids_shift kids (8 + pb.length)]
            rcases List.mem_append.1 hmem with hm1 | hm2
            · exact List.mem_append.2 (Or.inl (List.mem_map.2 ⟨i - 8, hm1, by omega⟩))
            · obtain ⟨j, hj, hje⟩ := List.mem_map.1 hm2
              exact List.mem_append.2 (Or.inr (List.mem_map.2 ⟨j, hj, by omega⟩))
          have := Layout.agree_seq pb (encKids kids) (bs.drop 8) rest pdc (dcKids kids 0) hdrop hag hrest
            (i - 8) (by omega) hn'
          rw [henc, List.getElem?_append_right (by rw [hhl]; omega), hhl, this, List.getElem?_drop]
          congr 1; omega
        · obtain ⟨_, _, _, _, hag, _⟩ := roundTrip_spec bs hb sz enc dc h1 hsz hrt
          exact hag i (by omega) hi hn
        · exact unknownEnc_get bs hl h8 hl8 enc he i (by omega)
    · intro bs ks hb hsz hm h
      rcases rtKids_ok_cases f bs ks h with ⟨rfl, rfl⟩ | ⟨ty, hl, size, ks', hph, hle, hne, hk, hr⟩
      · intro i hi; simp [encKids] at hi
      · obtain ⟨hm1, hm2⟩ := moovFreeKids_succ f bs ty hl size hne hph hle hm
        have hrest := ihK (bs.drop size) ks' (hb.drop size) (by rw [List.length_drop]; omega) hm2 hk
        have htl : (bs.take size).length = size := by simp; omega
        rcases hr with ⟨_, rfl⟩ | ⟨enc, dc, hbx, hlen, rfl⟩
        · rw [dcKids_cons0]
          simp only [encKids]
          refine Layout.agree_seq (bs.take size) (encKids ks') bs (bs.drop size) [] (dcKids ks' 0)
            (by rw [htl]) ?_ hrest
          intro i hi _
          rw [List.getElem?_take, if_pos (by omega)]
        · rw [dcKids_cons0]
          simp only [encKids]
          refine Layout.agree_seq enc (encKids ks') bs (bs.drop size) dc (dcKids ks' 0)
            (by rw [hlen]) ?_ hrest
          intro i hi hn
          have := ihB (bs.take size) enc dc (hb.take size) (by omega) hm1 hbx (by omega) i hi hn
          rw [this, List.getElem?_take, if_pos (by omega)]

theorem lossless (f : Nat) (bs : Bytes) (hb : IsBytes bs) (enc : Bytes) (dc : List Nat)
    (hsz : bs.length < 2 ^ 32) (h8 : beVal (bs.take 4) ≠ 1) (hm : moovFree f bs = true)
    (h : rtBox f bs = .ok enc dc) :
    ∀ i, 8 ≤ i → i < enc.length → i ∉ dc → enc[i]? = bs[i]? := by
  intro i h8i hi hn
  obtain ⟨f', ty, hl, hf, hph, hcase⟩ := rtBox_ok_cases _ bs enc dc h
  rcases hcase with ⟨ps, _, _, hp⟩ | ⟨_, sz, hrt⟩ | ⟨_, he, _⟩
  · have h8l : 8 ≤ bs.length := by
      rcases parseHeader_cases _ _ _ _ hph with ⟨_, _, h, _⟩ | ⟨_, _, h⟩ <;> omega
    subst hf
    obtain ⟨body, henc, hbl⟩ := prefixBox_length f' ty bs ps enc dc h8l hp
    have ht4 : ((bs.drop 4).take 4).length = 4 := by simp; omega
    obtain ⟨e1, _⟩ := hdr_facts (8 + body.length) ((bs.drop 4).take 4) body ht4
    have hlen : enc.length = bs.length := by rw [henc, e1]; omega
    exact (lossless_gen (f' + 1)).1 bs enc dc hb hsz hm h hlen i hi hn
  · obtain ⟨_, _, _, _, hag, _⟩ := roundTrip_spec bs hb sz enc dc h8 hsz hrt
    exact hag i h8i hi hn
  · obtain ⟨h8l, hl8, _, _, _⟩ := parseHeader_8 bs h8 ty hl _ hph
    exact unknownEnc_get bs hl h8l hl8 enc he i h8i

/-! ### fixed point through nesting -/

/-- what of a decoded child matters for acceptance and re-encoding (everything but its don't-care positions) -/
def kidKey (k : Kid) : String × Bytes × Bool := (k.ty, k.enc, k.encOK)

theorem sameKids_enc : ∀ (ks ks' : List Kid), ks'.map kidKey = ks.map kidKey → encKids ks' = encKids ks
  | [], [], _ => rfl
  | [], _ :: _, h => by simp at h
  | _ :: _, [], h => by simp at h
  | k :: ks, k' :: ks', h => by
    simp only [List.map_cons, List.cons.injEq, kidKey, Prod.mk.injEq] at h
    simp only [encKids, h.1.2.1, sameKids_enc ks ks' h.2]

theorem sameKids_all : ∀ (ks ks' : List Kid), ks'.map kidKey = ks.map kidKey →
    ks'.all (·.encOK) = ks.all (·.encOK)
  | [], [], _ => rfl
  | [], _ :: _, h => by simp at h
  | _ :: _, [], h => by simp at h
  | k :: ks, k' :: ks', h => by
    simp only [List.map_cons, List.cons.injEq, kidKey, Prod.mk.injEq] at h
    simp only [List.all_cons, h.1.2.2, sameKids_all ks ks' h.2]

theorem sameKids_tyAll (p : String → Bool) : ∀ (ks ks' : List Kid), ks'.map kidKey = ks.map kidKey →
    ks'.all (fun k => p k.ty) = ks.all (fun k => p k.ty)
  | [], [], _ => rfl
  | [], _ :: _, h => by simp at h
  | _ :: _, [], h => by simp at h
  | k :: ks, k' :: ks', h => by
    simp only [List.map_cons, List.cons.injEq, kidKey, Prod.mk.injEq] at h
    simp only [List.all_cons, h.1.1, sameKids_tyAll p ks ks' h.2]

theorem sameKids_tyAny (p : String → Bool) : ∀ (ks ks' : List Kid), ks'.map kidKey = ks.map kidKey →
    ks'.any (fun k => p k.ty) = ks.any (fun k => p k.ty)
  | [], [], _ => rfl
  | [], _ :: _, h => by simp at h
  | _ :: _, [], h => by simp at h
  | k :: ks, k' :: ks', h => by
    simp only [List.map_cons, List.cons.injEq, kidKey, Prod.mk.injEq] at h
    simp only [List.any_cons, h.1.1, sameKids_tyAny p ks ks' h.2]

theorem sameKids_accepts (ty : String) (ks ks' : List Kid) (h : ks'.map kidKey = ks.map kidKey) :
    accepts ty ks' = accepts ty ks := by
  unfold accepts
  rw [sameKids_tyAll (fun t => decide (t = "elst")) ks ks' h, sameKids_tyAny (fun t => decide (t = "tfhd")) ks ks' h]

theorem sameKids_length (ks ks' : List Kid) (h : ks'.map kidKey = ks.map kidKey) : ks'.length = ks.length := by
  have := congrArg List.length h
  simpa using this

/-- the header of an accepted, length-preserving re-encoding parses as the input's header did (8-byte header, same
    type, size = length), whatever follows it -/
theorem parseHeader_out (f : Nat) (bs : Bytes) (hb : IsBytes bs) (enc : Bytes) (dc : List Nat)
    (hsz : bs.length < 2 ^ 32) (h : rtBox f bs = .ok enc dc) (hlen : enc.length = bs.length)
    (ty : String) (hl sz : Nat) (hph : parseHeader bs = some (ty, hl, sz)) (X : Bytes) :
    parseHeader (enc ++ X) = some (ty, 8, enc.length) := by
  have h1 := rtBox_hdr8 f bs hb enc dc h hlen
  obtain ⟨h8, _, _, _, hty⟩ := parseHeader_8 bs h1 ty hl sz hph
  obtain ⟨e1, e2, _⟩ := header_field f bs hb enc dc hsz h
  have t4 : (enc ++ X).take 4 = enc.take 4 := List.take_append_of_le_length (by omega)
  have d4 : ((enc ++ X).drop 4).take 4 = (enc.drop 4).take 4 := by
    rw [List.drop_append_of_le_length (by omega), List.take_append_of_le_length (by simp; omega)]
  have := parseHeader_of (enc ++ X) (by simp; omega) (by rw [t4, e1]; omega)
  rw [t4, d4, e1, e2, ← hty] at this
  exact this

theorem finishBox_intro (ty : String) (bs : Bytes) (ps : PSpec) (fuelP : Nat) (tr : Layout.Trace) (payload : Bytes)
    (kids : List Kid) (pb : Bytes) (a1 a2 : Layout.Trace) (pdc : List Nat) (b1 : Layout.Trace) (b2 : Bytes) (b3 : Nat)
    (hacc : accepts ty kids = true) (hcnt : countBad ps tr kids.length = false)
    (harr : arrange ty kids = kids) (hall : kids.all (·.encOK) = true)
    (he : Layout.encode fuelP ps.pre [] tr = some (pb, a1, a2))
    (hd : Layout.dontCare fuelP ps.pre [] payload 0 = some (pdc, b1, b2, b3)) :
    finishBox ty bs ps fuelP tr payload (.ok kids) =
      .ok (beBytes 4 (8 + pb.length + (encKids kids).length) ++ (bs.drop 4).take 4 ++ pb ++ encKids kids)
          (pdc.map (· + 8) ++ dcKids kids (8 + pb.length)) := by
  simp only [finishBox, hacc, hcnt, harr, hall, he, hd]
  simp

/-- everything an accepted container went through -/
theorem prefixBox_ok2 (f : Nat) (ty : String) (bs : Bytes) (ps : PSpec) (enc : Bytes) (dc : List Nat)
    (h : prefixBox f ty bs ps = .ok enc dc) :
    ∃ (tr : Layout.Trace) (rest : Bytes) (kids : List Kid) (pb : Bytes) (a1 a2 : Layout.Trace),
      Layout.decode (Layout.fuelFor ps.pre (bs.drop 8).length) ps.pre [] (bs.drop 8) = some (tr, rest) ∧
      ps.valid tr = true ∧ rtKids f rest = .ok kids ∧ accepts ty kids = true ∧
      countBad ps tr kids.length = false ∧ (arrange ty kids).all (·.encOK) = true ∧
      Layout.encode (Layout.fuelFor ps.pre (bs.drop 8).length) ps.pre [] tr = some (pb, a1, a2) ∧
      enc = beBytes 4 (8 + pb.length + (encKids (arrange ty kids)).length) ++ (bs.drop 4).take 4 ++ pb ++
        encKids (arrange ty kids) := by
  unfold prefixBox at h
  cases hd : Layout.decode (Layout.fuelFor ps.pre (bs.drop 8).length) ps.pre [] (bs.drop 8) with
  | none => rw [hd] at h; cases h
  | some p =>
    obtain ⟨tr, rest⟩ := p
    simp only [hd] at h
    by_cases c : ¬ ps.valid tr = true
    · rw [if_pos c] at h; cases h
    simp only [if_neg c] at h
    obtain ⟨kids, pb, pdc, a1, a2, b1, b2, b3, hk, hacc, hall, he, _, henc, _⟩ := finishBox_ok _ _ _ _ _ _ _ _ _ h
    refine ⟨tr, rest, kids, pb, a1, a2, rfl, Decidable.not_not.mp c, hk, hacc, ?_, hall, he, henc⟩
    rw [hk] at h
    cases hc : countBad ps tr kids.length with
    | false => rfl
    | true => simp [finishBox, hacc, hc] at h

theorem fixed_point_gen : ∀ f : Nat,
    (∀ bs enc dc, IsBytes bs → bs.length < 2 ^ 32 → moovFree f bs = true → rtBox f bs = .ok enc dc →
      enc.length = bs.length → ∃ dc', rtBox f enc = .ok enc dc') ∧
    (∀ bs ks, IsBytes bs → bs.length < 2 ^ 32 → moovFreeKids f bs = true → rtKids f bs = .ok ks →
      ks.all (·.encOK) = true →
      ∃ ks', rtKids f (encKids ks) = .ok ks' ∧ ks'.map kidKey = ks.map kidKey) := by
  intro f
  induction f with
  | zero =>
    constructor
    · intro bs enc dc _ _ _ h; simp [rtBox] at h
    · intro bs ks _ _ _ h; simp [rtKids] at h
  | succ f ih =>
    obtain ⟨ihB, ihK⟩ := ih
    constructor
    · intro bs enc dc hb hsz hm h hlen
      have h1 := rtBox_hdr8 _ bs hb enc dc h hlen
      obtain ⟨f', ty, hl, hf, hph, hcase⟩ := rtBox_ok_cases _ bs enc dc h
      have hf' : f = f' := by omega
      subst hf'
      obtain ⟨h8, hl8, _, _, _⟩ := parseHeader_8 bs h1 ty hl _ hph
      obtain ⟨hty, hmk⟩ := moovFree_succ f bs ty hl _ hph hm
      have hphE : parseHeader enc = some (ty, 8, enc.length) := by
        have := parseHeader_out _ bs hb enc dc hsz h hlen ty hl _ hph []
        rwa [List.append_nil] at this
      rcases hcase with ⟨ps, hps, _, hp⟩ | ⟨hps, sz, hrt⟩ | ⟨_, he, hdc⟩
      · obtain ⟨tr, rest, kids, pb, a1, a2, hd, hv, hk, hacc, hcnt, hall, he, henc⟩ :=
          prefixBox_ok2 f ty bs ps enc dc hp
        rw [arrange_of_ne ty kids hty] at hall henc
        obtain ⟨ext, out, dc0, ha, henc0, _, hplen, hdrop, _, hdec⟩ :=
          Layout.encode_decode_gen _ _ _ _ _ _ (hb.drop 8) hd
        simp only [List.nil_append] at ha
        subst ha
        have e1 := henc0 []
        rw [List.append_nil, he] at e1
        simp only [Option.some.injEq, Prod.mk.injEq] at e1
        obtain ⟨rfl, _, _⟩ := e1
        have hkl := rtKids_length _ _ _ hk
        have hdec' := hdec (encKids kids) (fun e => List.eq_nil_of_length_eq_zero (by rw [hkl, e]; rfl))
        have hrb : IsBytes rest := by rw [hdrop]; exact (hb.drop 8).drop _
        have hrl : rest.length < 2 ^ 32 := by rw [List.length_drop] at hplen; omega
        obtain ⟨kids', hk', hsame⟩ := ihK rest kids hrb hrl (hmk ps tr rest hps hd) hk hall
        have ht4 : ((bs.drop 4).take 4).length = 4 := by simp; omega
        have hencB : enc = beBytes 4 (8 + pb.length + (encKids kids).length) ++ (bs.drop 4).take 4 ++
            (pb ++ encKids kids) := by rw [henc, List.append_assoc _ pb]
        obtain ⟨_, _, f3, f4⟩ := hdr_facts (8 + pb.length + (encKids kids).length) ((bs.drop 4).take 4)
          (pb ++ encKids kids) ht4
        rw [← hencB] at f3 f4
        have hbl : (pb ++ encKids kids).length = (bs.drop 8).length := by
          rw [List.length_append, hkl]; exact hplen
        obtain ⟨pdc', p', hdc'⟩ := Layout.decode_dontCare _ _ _ _ _ _ 0 hdec'
        rw [rtBox_succ, hphE]
        simp only [ne_eq, not_true_eq_false, if_false, hps]
        unfold prefixBox
        rw [f4, hbl, hdec']
        simp only [hv, not_true_eq_false, if_false]
        rw [hk', finishBox_intro ty enc ps _ tr _ kids' pb a1 a2 pdc' tr (encKids kids) p'
          (by rw [sameKids_accepts ty kids kids' hsame]; exact hacc)
          (by rw [sameKids_length kids kids' hsame]; exact hcnt)
          (arrange_of_ne ty kids' hty)
          (by rw [sameKids_all kids kids' hsame]; exact hall) he hdc']
        refine ⟨pdc'.map (· + 8) ++ dcKids kids' (8 + pb.length), ?_⟩
        rw [sameKids_enc kids kids' hsame, f3, ← henc]
      · obtain ⟨_, _, _, _, _, hfix⟩ := roundTrip_spec bs hb sz enc dc h1 hsz hrt
        obtain ⟨dc', hrt'⟩ := hfix hlen
        refine ⟨dc', ?_⟩
        rw [rtBox_succ, hphE]
        simp only [ne_eq, not_true_eq_false, if_false, hps, hrt', leafRes]
      · have hag := (lossless_gen (f + 1)).1 bs enc dc hb hsz hm h hlen
        have heq : enc = bs := by
          apply List.ext_getElem?
          intro i
          by_cases hi : i < enc.length
          · exact hag i hi (by rw [hdc]; simp)
          · rw [List.getElem?_eq_none (by omega), List.getElem?_eq_none (by omega)]
        subst heq
        exact ⟨dc, h⟩
    · intro bs ks hb hsz hm h hall
      rcases rtKids_ok_cases f bs ks h with ⟨rfl, rfl⟩ | ⟨ty, hl, size, ks', hph, hle, hne, hk, hr⟩
      · exact ⟨[], by simp [encKids, rtKids_succ], rfl⟩
      · obtain ⟨hm1, hm2⟩ := moovFreeKids_succ f bs ty hl size hne hph hle hm
        have htl : (bs.take size).length = size := by simp; omega
        rcases hr with ⟨_, rfl⟩ | ⟨enc, dc, hbx, hlen, rfl⟩
        · simp at hall
        · simp only [List.all_cons, Bool.and_eq_true] at hall
          obtain ⟨ks'', hk'', hsame⟩ := ihK (bs.drop size) ks' (hb.drop size) (by rw [List.length_drop]; omega)
            hm2 hk hall.2
          have hlen' : enc.length = (bs.take size).length := by rw [htl]; exact hlen
          obtain ⟨dc', hbx'⟩ := ihB (bs.take size) enc dc (hb.take size) (by omega) hm1 hbx hlen'
          have h1 := rtBox_hdr8 _ _ (hb.take size) enc dc hbx hlen'
          -- the header of the child slice is the header of `bs`
          obtain ⟨ty0, hl0, _, hph0, _, _⟩ := rtBox_shape f _ (hb.take size) enc dc hbx
          obtain ⟨hc8, _, _, _, hty0⟩ := parseHeader_8 _ h1 ty0 hl0 _ hph0
          have hs8 : 8 ≤ size := by omega
          have ht : (bs.take size).take 4 = bs.take 4 := by rw [List.take_take]; congr 1; omega
          have hd : ((bs.take size).drop 4).take 4 = (bs.drop 4).take 4 := by
            rw [List.drop_take, List.take_take]; congr 1; omega
          rw [ht] at h1
          obtain ⟨_, _, _, _, hty⟩ := parseHeader_8 bs h1 ty hl _ hph
          have htye : ty0 = ty := by rw [hty0, hty, hd]
          subst htye
          have hphE := parseHeader_out f _ (hb.take size) enc dc (by omega) hbx hlen' ty0 hl0 _ hph0 (encKids ks')
          have hne' : (enc ++ encKids ks').isEmpty = false := by
            cases enc with
            | nil => simp at hlen; omega
            | cons a b => rfl
          refine ⟨{ ty := ty0, enc := enc, dc := dc' } :: ks'', ?_, ?_⟩
          · simp only [encKids]
            rw [rtKids_succ, hne', hphE]
            simp only [Bool.false_eq_true, if_false]
            rw [if_neg (by simp), List.take_left' rfl, List.drop_left' rfl, hbx', hk'']
            simp [combineKid, hlen]
          · simp only [List.map_cons, hsame]
            rfl

theorem fixed_point (f : Nat) (bs : Bytes) (hb : IsBytes bs) (enc : Bytes) (dc : List Nat)
    (hsz : bs.length < 2 ^ 32) (_h8 : beVal (bs.take 4) ≠ 1) (hm : moovFree f bs = true)
    (h : rtBox f bs = .ok enc dc) (hlen : enc.length = bs.length) :
    ∃ dc', rtBox f enc = .ok enc dc' :=
  (fixed_point_gen f).1 bs enc dc hb hsz hm h hlen

/-! ### `MoovBox.AddChild` only permutes: traks and non-traks each keep their relative order -/

theorem lastTrak_gen (cs : List Kid) : ∀ i acc,
    (lastTrakIdxFrom cs i acc = acc ∧ ∀ k ∈ cs, k.ty ≠ "trak") ∨
    (i ≤ lastTrakIdxFrom cs i acc ∧ ∀ k ∈ cs.drop (lastTrakIdxFrom cs i acc + 1 - i), k.ty ≠ "trak") := by
  induction cs with
  | nil => intro i acc; left; simp [lastTrakIdxFrom]
  | cons c cs ih =>
    intro i acc
    simp only [lastTrakIdxFrom]
    by_cases hc : c.ty = "trak"
    · simp only [hc, if_true]
      rcases ih (i+1) i with ⟨h1, h2⟩ | ⟨h1, h2⟩
      · right; rw [h1]; refine ⟨Nat.le_refl _, ?_⟩
        have : i + 1 - i = 1 := by omega
        rw [this]; simpa using h2
      · right; refine ⟨by omega, ?_⟩
        have : lastTrakIdxFrom cs (i+1) i + 1 - i = (lastTrakIdxFrom cs (i+1) i + 1 - (i+1)) + 1 := by omega
        rw [this, List.drop_succ_cons]; exact h2
    · simp only [hc, if_false]
      rcases ih (i+1) acc with ⟨h1, h2⟩ | ⟨h1, h2⟩
      · left; refine ⟨h1, ?_⟩
        intro k hk
        rcases List.mem_cons.1 hk with rfl | hk
        · exact hc
        · exact h2 k hk
      · right; refine ⟨by omega, ?_⟩
        have : lastTrakIdxFrom cs (i+1) acc + 1 - i = (lastTrakIdxFrom cs (i+1) acc + 1 - (i+1)) + 1 := by omega
        rw [this, List.drop_succ_cons]; exact h2

theorem lastTrak_drop (cs : List Kid) :
    ∀ k ∈ cs.drop (lastTrakIdxFrom cs 0 0 + 1), k.ty ≠ "trak" := by
  rcases lastTrak_gen cs 0 0 with ⟨_, h2⟩ | ⟨_, h2⟩
  · intro k hk; exact h2 k (List.mem_of_mem_drop hk)
  · simpa using h2

theorem moovAddChild_trak (cs : List Kid) (c : Kid) :
    (moovAddChild cs c).filter (fun k => k.ty == "trak") = cs.filter (fun k => k.ty == "trak") ++ [c].filter (fun k => k.ty == "trak") := by
  unfold moovAddChild
  by_cases hc : c.ty = "trak"
  · simp only [hc, if_true]
    split
    · have hd : (cs.drop (lastTrakIdxFrom cs 0 0 + 1)).filter (fun k => k.ty == "trak") = [] := by
        rw [List.filter_eq_nil_iff]
        intro k hk; simpa using lastTrak_drop cs k hk
      have hcs : cs.filter (fun k => k.ty == "trak") =
          (cs.take (lastTrakIdxFrom cs 0 0 + 1)).filter (fun k => k.ty == "trak") ++
          (cs.drop (lastTrakIdxFrom cs 0 0 + 1)).filter (fun k => k.ty == "trak") := by
        rw [← List.filter_append, List.take_append_drop]
      rw [hcs]
      simp [List.filter_append, hd, hc]
    · simp [List.filter_append]
  · simp [hc, List.filter_append]

theorem moovAddChild_other (cs : List Kid) (c : Kid) :
    (moovAddChild cs c).filter (fun k => !(k.ty == "trak")) = cs.filter (fun k => !(k.ty == "trak")) ++ [c].filter (fun k => !(k.ty == "trak")) := by
  unfold moovAddChild
  by_cases hc : c.ty = "trak"
  · simp only [hc, if_true]
    split
    · simp [List.filter_append, hc]
      rw [← List.filter_append, List.take_append_drop]
    · simp [List.filter_append]
  · simp [hc, List.filter_append]

theorem foldl_moov_filter (p : Kid → Bool)
    (hp : ∀ cs c, (moovAddChild cs c).filter p = cs.filter p ++ [c].filter p) (kids : List Kid) :
    ∀ acc, (kids.foldl moovAddChild acc).filter p = acc.filter p ++ kids.filter p := by
  induction kids with
  | nil => intro acc; simp
  | cons c kids ih =>
    intro acc
    rw [List.foldl_cons, ih, hp, List.append_assoc, ← List.filter_append]; rfl

theorem moov_order (kids : List Kid) :
    (arrange "moov" kids).filter (fun k => k.ty == "trak") = kids.filter (fun k => k.ty == "trak") ∧
    (arrange "moov" kids).filter (fun k => !(k.ty == "trak")) = kids.filter (fun k => !(k.ty == "trak")) := by
  simp only [arrange, if_true]
  exact ⟨by simpa using foldl_moov_filter _ moovAddChild_trak kids [],
         by simpa using foldl_moov_filter _ moovAddChild_other kids []⟩
end Mp4ff.TreeRT
