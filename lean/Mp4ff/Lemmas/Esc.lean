import Mp4ff.Lemmas.BitsReader
namespace Mp4ff.Bits

theorem esc_append (a b : Bytes) : ∀ z, esc z (a ++ b) = esc z a ++ esc (escState z a) b := by
  induction a with
  | nil => intro z; simp [esc, escState]
  | cons x xs ih =>
    intro z
    simp only [List.cons_append, esc, escState]
    split <;> simp [ih]

theorem escState_append (a b : Bytes) : ∀ z, escState z (a ++ b) = escState (escState z a) b := by
  induction a with
  | nil => intro z; simp [escState]
  | cons x xs ih =>
    intro z
    simp only [List.cons_append, escState]
    split <;> simp [ih]

theorem escState_le (a : Bytes) : ∀ z, z ≤ 2 → escState z a ≤ 2 := by
  induction a with
  | nil => intro z h; simpa [escState] using h
  | cons x xs ih =>
    intro z hz
    simp only [escState]
    split
    · apply ih; split <;> omega
    · rename_i hne
      apply ih
      split
      · rename_i hx
        subst hx
        by_cases h2 : z = 2
        · exact absurd ⟨h2, by decide⟩ hne
        · omega
      · omega

theorem esc_isBytes (a : Bytes) (ha : IsBytes a) : ∀ z, IsBytes (esc z a) := by
  induction a with
  | nil => intro z b hb; simp [esc] at hb
  | cons x xs ih =>
    intro z b hb
    have hx : x < 256 := ha x (by simp)
    have hxs : IsBytes xs := fun y hy => ha y (by simp [hy])
    simp only [esc] at hb
    split at hb
    · simp only [List.mem_cons] at hb
      rcases hb with h | h | h
      · omega
      · omega
      · exact ih hxs _ b h
    · simp only [List.mem_cons] at hb
      rcases hb with h | h
      · omega
      · exact ih hxs _ b h

/-- the reader's un-escaping inverts the writer's escaping (any start state) -/
theorem unesc_esc (bs : Bytes) : ∀ z, z ≤ 2 → unesc z (esc z bs) = bs := by
  induction bs with
  | nil => intro z _; simp [esc, unesc]
  | cons b bs ih =>
    intro z hz
    unfold esc
    by_cases h : z = 2 ∧ b ≤ 3
    · simp only [h, and_self, if_true]
      obtain ⟨hz2, _⟩ := h
      subst hz2
      simp only [unesc, true_and, if_true]
      by_cases hb : b = 0
      · subst hb; simp; exact ih 1 (by omega)
      · simp [hb]; exact ih 0 (by omega)
    · simp only [h, if_false]
      unfold unesc
      have hne : ¬ (z = 2 ∧ b = 3) := by
        intro ⟨h1, h2⟩; exact h ⟨h1, by omega⟩
      simp only [hne, if_false]
      by_cases hb : b = 0
      · subst hb
        have hz1 : z + 1 ≤ 2 := by
          rcases Nat.lt_or_ge z 2 with h2 | h2
          · omega
          · exfalso; exact h ⟨by omega, by decide⟩
        simp; exact ih (z + 1) hz1
      · simp [hb]; exact ih 0 (by omega)

/-- `z` zero bytes precede; forbidden = 00 00 followed by a byte ≤ 2 -/
def NoForbidden : Nat → Bytes → Prop
  | _, [] => True
  | z, b :: bs => ¬ (2 ≤ z ∧ b ≤ 2) ∧ NoForbidden (if b = 0 then z + 1 else 0) bs

theorem esc_noForbidden (bs : Bytes) : ∀ z, z ≤ 2 → NoForbidden z (esc z bs) := by
  induction bs with
  | nil => intro z _; simp [esc, NoForbidden]
  | cons b bs ih =>
    intro z hz
    unfold esc
    by_cases h : z = 2 ∧ b ≤ 3
    · simp only [h, and_self, if_true]
      obtain ⟨hz2, _⟩ := h
      subst hz2
      refine ⟨by omega, ?_⟩
      simp only [show ¬ ((3:Nat) = 0) by decide, if_false]
      refine ⟨by omega, ?_⟩
      by_cases hb : b = 0
      · subst hb; simp; exact ih 1 (by omega)
      · simp [hb]; exact ih 0 (by omega)
    · simp only [h, if_false]
      refine ⟨?_, ?_⟩
      · intro ⟨h2, hb2⟩
        exact h ⟨by omega, by omega⟩
      · by_cases hb : b = 0
        · subst hb
          have hz1 : z + 1 ≤ 2 := by
            rcases Nat.lt_or_ge z 2 with h2 | h2
            · omega
            · exfalso; exact h ⟨by omega, by decide⟩
          simp; exact ih (z + 1) hz1
        · simp [hb]; exact ih 0 (by omega)

/-- connection of `NoForbidden` with the plain reading "no window 00 00 0x, x ≤ 2" -/
theorem noForbidden_window (l : Bytes) : ∀ z, NoForbidden z l →
    ∀ i, i + 2 < l.length → ¬ (l[i]! = 0 ∧ l[i+1]! = 0 ∧ l[i+2]! ≤ 2) := by
  induction l with
  | nil => intro z _ i hi; simp at hi
  | cons b bs ih =>
    intro z h i hi
    obtain ⟨h0, hrest⟩ := h
    cases i with
    | succ j =>
      have := ih _ hrest j (by simp at hi; omega)
      simpa using this
    | zero =>
      intro ⟨hb0, hb1, hb2⟩
      simp at hb0
      subst hb0
      simp only [if_true] at hrest
      cases bs with
      | nil => simp at hi
      | cons c cs =>
        simp at hb1
        subst hb1
        obtain ⟨_, hrest2⟩ := hrest
        simp only [if_true] at hrest2
        cases cs with
        | nil => simp at hi
        | cons d ds =>
          simp at hb2
          obtain ⟨h3, _⟩ := hrest2
          exact h3 ⟨by omega, hb2⟩

/-- escapes are inserted only where required: a payload without 00 00 0{0..3} is unchanged -/
def Clean : Nat → Bytes → Prop
  | _, [] => True
  | z, b :: bs => ¬ (z = 2 ∧ b ≤ 3) ∧ Clean (if b = 0 then z + 1 else 0) bs

theorem esc_clean (bs : Bytes) : ∀ z, Clean z bs → esc z bs = bs := by
  induction bs with
  | nil => intro z _; rfl
  | cons b bs ih =>
    intro z ⟨h1, h2⟩
    simp only [esc, h1, if_false]
    rw [ih _ h2]

/-- every inserted byte is an 03 that follows two zero bytes of the output and precedes a byte ≤ 3:
    stated as: the output length exceeds the input length exactly by the number of positions
    where the two-zeros state meets a byte ≤ 3 -/
def escCount : Nat → Bytes → Nat
  | _, [] => 0
  | z, b :: bs =>
    if z = 2 ∧ b ≤ 3 then 1 + escCount (if b = 0 then 1 else 0) bs
    else escCount (if b = 0 then z + 1 else 0) bs

theorem esc_length (bs : Bytes) : ∀ z, (esc z bs).length = bs.length + escCount z bs := by
  induction bs with
  | nil => intro z; rfl
  | cons b bs ih =>
    intro z
    simp only [esc, escCount]
    split <;> simp [ih] <;> omega

end Mp4ff.Bits
