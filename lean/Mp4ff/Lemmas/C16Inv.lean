import Mp4ff.Model.AvcSps
import Mp4ff.Lemmas.C13Seq
/-! inversion lemmas for the serialiser `BitSyn.ops` and unfolding lemmas for `BitSyn.parse` (C16: DSL with capped rep, seterr, abort) -/
namespace Mp4ff.BitSyn
open Mp4ff.Bits

theorem ops_nil_inv {f : Nat} {acc src : Trace} {os a s}
    (h : ops (f + 1) [] acc src = some (os, a, s)) : os = [] ∧ a = acc ∧ s = src := by
  simp [ops] at h; obtain ⟨rfl, rfl, rfl⟩ := h; exact ⟨rfl, rfl, rfl⟩

theorem ops_fld_inv {f : Nat} {nm : String} {k : Nat} {rest : List Syn} {acc src : Trace} {os a s}
    (h : ops (f + 1) (.fld nm k :: rest) acc src = some (os, a, s)) :
    ∃ v src' o, src = (nm, v) :: src' ∧ 0 ≤ v ∧ ops f rest (acc ++ [(nm, v)]) src' = some (o, a, s) ∧
      os = Op.fld k v.toNat :: o := by
  match src with
  | [] => simp [ops] at h
  | (nm', v) :: src' =>
    simp only [ops] at h
    split at h
    · rename_i hc
      obtain ⟨rfl, hv⟩ := hc
      cases hr : ops f rest (acc ++ [(nm', v)]) src' with
      | none => simp [hr] at h
      | some r =>
        obtain ⟨o, a', s'⟩ := r
        simp [hr] at h
        obtain ⟨rfl, rfl, rfl⟩ := h
        exact ⟨v, src', o, rfl, hv, hr, rfl⟩
    · simp at h

theorem ops_flag_inv {f : Nat} {nm : String} {rest : List Syn} {acc src : Trace} {os a s}
    (h : ops (f + 1) (.flag nm :: rest) acc src = some (os, a, s)) :
    ∃ v src' o, src = (nm, v) :: src' ∧ (v = 0 ∨ v = 1) ∧ ops f rest (acc ++ [(nm, v)]) src' = some (o, a, s) ∧
      os = Op.flag (v == 1) :: o := by
  match src with
  | [] => simp [ops] at h
  | (nm', v) :: src' =>
    simp only [ops] at h
    split at h
    · rename_i hc
      obtain ⟨rfl, hv⟩ := hc
      cases hr : ops f rest (acc ++ [(nm', v)]) src' with
      | none => simp [hr] at h
      | some r =>
        obtain ⟨o, a', s'⟩ := r
        simp [hr] at h
        obtain ⟨rfl, rfl, rfl⟩ := h
        exact ⟨v, src', o, rfl, hv, hr, rfl⟩
    · simp at h

theorem ops_ue_inv {f : Nat} {nm : String} {rest : List Syn} {acc src : Trace} {os a s}
    (h : ops (f + 1) (.ue nm :: rest) acc src = some (os, a, s)) :
    ∃ v src' o, src = (nm, v) :: src' ∧ 0 ≤ v ∧ ops f rest (acc ++ [(nm, v)]) src' = some (o, a, s) ∧
      os = Op.ue v.toNat :: o := by
  match src with
  | [] => simp [ops] at h
  | (nm', v) :: src' =>
    simp only [ops] at h
    split at h
    · rename_i hc
      obtain ⟨rfl, hv⟩ := hc
      cases hr : ops f rest (acc ++ [(nm', v)]) src' with
      | none => simp [hr] at h
      | some r =>
        obtain ⟨o, a', s'⟩ := r
        simp [hr] at h
        obtain ⟨rfl, rfl, rfl⟩ := h
        exact ⟨v, src', o, rfl, hv, hr, rfl⟩
    · simp at h

theorem ops_se_inv {f : Nat} {nm : String} {rest : List Syn} {acc src : Trace} {os a s}
    (h : ops (f + 1) (.se nm :: rest) acc src = some (os, a, s)) :
    ∃ v src' o, src = (nm, v) :: src' ∧ ops f rest (acc ++ [(nm, v)]) src' = some (o, a, s) ∧
      os = Op.se v :: o := by
  match src with
  | [] => simp [ops] at h
  | (nm', v) :: src' =>
    simp only [ops] at h
    split at h
    · rename_i hc
      subst hc
      cases hr : ops f rest (acc ++ [(nm', v)]) src' with
      | none => simp [hr] at h
      | some r =>
        obtain ⟨o, a', s'⟩ := r
        simp [hr] at h
        obtain ⟨rfl, rfl, rfl⟩ := h
        exact ⟨v, src', o, rfl, hr, rfl⟩
    · simp at h

theorem ops_cond_inv {f : Nat} {p : Trace → Bool} {body rest : List Syn} {acc src : Trace} {os a s}
    (h : ops (f + 1) (.cond p body :: rest) acc src = some (os, a, s)) :
    (p acc = true ∧ ∃ o1 a1 s1 o2, ops f body acc src = some (o1, a1, s1) ∧ ops f rest a1 s1 = some (o2, a, s) ∧
        os = o1 ++ o2) ∨
    (p acc = false ∧ ops f rest acc src = some (os, a, s)) := by
  simp only [ops] at h
  by_cases hp : p acc = true
  · left
    refine ⟨hp, ?_⟩
    simp only [hp, if_true] at h
    cases h1 : ops f body acc src with
    | none => simp [h1] at h
    | some r1 =>
      obtain ⟨o1, a1, s1⟩ := r1
      simp only [h1] at h
      cases h2 : ops f rest a1 s1 with
      | none => simp [h2] at h
      | some r2 =>
        obtain ⟨o2, a2, s2⟩ := r2
        simp [h2] at h
        obtain ⟨rfl, rfl, rfl⟩ := h
        exact ⟨o1, a1, s1, o2, rfl, h2, rfl⟩
  · right
    simp only [hp] at h
    exact ⟨by simpa using hp, h⟩

theorem ops_rep_inv {f : Nat} {cap : Nat} {n : Trace → Nat} {body rest : List Syn} {acc src : Trace} {os a s}
    (h : ops (f + 1) (.rep cap n body :: rest) acc src = some (os, a, s)) :
    (min (n acc) cap = 0 ∧ ops f rest acc src = some (os, a, s)) ∨
    (∃ k o1 a1 s1 o2, min (n acc) cap = k + 1 ∧ ops f body acc src = some (o1, a1, s1) ∧
        ops f (.rep k (fun _ => k) body :: rest) a1 s1 = some (o2, a, s) ∧ os = o1 ++ o2) := by
  simp only [ops] at h
  cases hn : min (n acc) cap with
  | zero => left; simp only [hn] at h; exact ⟨rfl, h⟩
  | succ k =>
    right
    simp only [hn] at h
    cases h1 : ops f body acc src with
    | none => simp [h1] at h
    | some r1 =>
      obtain ⟨o1, a1, s1⟩ := r1
      simp only [h1] at h
      cases h2 : ops f (.rep k (fun _ => k) body :: rest) a1 s1 with
      | none => simp [h2] at h
      | some r2 =>
        obtain ⟨o2, a2, s2⟩ := r2
        simp [h2] at h
        obtain ⟨rfl, rfl, rfl⟩ := h
        exact ⟨k, o1, a1, s1, o2, rfl, rfl, h2, rfl⟩

theorem ops_seterr_inv {f : Nat} {p : Trace → Bool} {rest : List Syn} {acc src : Trace} {r}
    (h : ops (f + 1) (.seterr p :: rest) acc src = some r) :
    p acc = false ∧ ops f rest acc src = some r := by
  simp only [ops] at h
  cases hp : p acc with
  | true => simp [hp] at h
  | false => simp only [hp] at h; exact ⟨rfl, by simpa using h⟩

theorem ops_abort_inv {f : Nat} {p : Trace → Bool} {rest : List Syn} {acc src : Trace} {r}
    (h : ops (f + 1) (.abort p :: rest) acc src = some r) :
    p acc = false ∧ ops f rest acc src = some r := by
  simp only [ops] at h
  cases hp : p acc with
  | true => simp [hp] at h
  | false => simp only [hp] at h; exact ⟨rfl, by simpa using h⟩

/-! `stopped` -/

theorem stopped_append (a b : Trace) : stopped (a ++ b) = (stopped a || stopped b) := by
  simp [stopped, List.any_append]

theorem stopped_of_append_left {a b : Trace} (h : stopped (a ++ b) = false) : stopped a = false := by
  rw [stopped_append] at h; simp at h; exact h.1

/-! unfolding of `parse` -/

theorem parse_nil (f : Nat) (acc : Trace) (e : ER) : parse (f + 1) [] acc e = some (acc, e) := rfl

/-- once stopped, the parser returns at once -/
theorem parse_stopped (f : Nat) (L : List Syn) (acc : Trace) (e : ER) (hs : stopped acc = true) :
    parse (f + 1) L acc e = some (acc, e) := by
  match L with
  | [] => rfl
  | .fld _ _ :: _ => simp [parse, hs]
  | .flag _ :: _ => simp [parse, hs]
  | .ue _ :: _ => simp [parse, hs]
  | .se _ :: _ => simp [parse, hs]
  | .cond _ _ :: _ => simp [parse, hs]
  | .rep _ _ _ :: _ => simp [parse, hs]
  | .seterr _ :: _ => simp [parse, hs]
  | .abort _ :: _ => simp [parse, hs]

theorem parse_fld (f : Nat) (nm : String) (k : Nat) (rest : List Syn) (acc : Trace) (e : ER)
    (hs : stopped acc = false) :
    parse (f + 1) (.fld nm k :: rest) acc e = parse f rest (acc ++ [(nm, ((e.read k).2 : Int))]) (e.read k).1 := by
  simp [parse, hs]

theorem parse_flag (f : Nat) (nm : String) (rest : List Syn) (acc : Trace) (e : ER) (hs : stopped acc = false) :
    parse (f + 1) (.flag nm :: rest) acc e =
      parse f rest (acc ++ [(nm, if e.readFlag.2 then 1 else 0)]) e.readFlag.1 := by
  simp [parse, hs]

theorem parse_ue (f : Nat) (nm : String) (rest : List Syn) (acc : Trace) (e : ER) (hs : stopped acc = false) :
    parse (f + 1) (.ue nm :: rest) acc e =
      parse f rest (acc ++ [(nm, (e.readExpGolomb.2 : Int))]) e.readExpGolomb.1 := by
  simp [parse, hs]

theorem parse_se (f : Nat) (nm : String) (rest : List Syn) (acc : Trace) (e : ER) (hs : stopped acc = false) :
    parse (f + 1) (.se nm :: rest) acc e =
      parse f rest (acc ++ [(nm, e.readSignedGolomb.2)]) e.readSignedGolomb.1 := by
  simp [parse, hs]

theorem parse_cond_true (f : Nat) (p : Trace → Bool) (body rest : List Syn) (acc : Trace) (e : ER)
    (hs : stopped acc = false) (hp : p acc = true) {a1 e1} (h1 : parse f body acc e = some (a1, e1)) :
    parse (f + 1) (.cond p body :: rest) acc e = parse f rest a1 e1 := by
  simp [parse, hs, hp, h1]

theorem parse_cond_true_none (f : Nat) (p : Trace → Bool) (body rest : List Syn) (acc : Trace) (e : ER)
    (hs : stopped acc = false) (hp : p acc = true) (h1 : parse f body acc e = none) :
    parse (f + 1) (.cond p body :: rest) acc e = none := by
  simp [parse, hs, hp, h1]

theorem parse_cond_false (f : Nat) (p : Trace → Bool) (body rest : List Syn) (acc : Trace) (e : ER)
    (hs : stopped acc = false) (hp : p acc = false) :
    parse (f + 1) (.cond p body :: rest) acc e = parse f rest acc e := by
  simp [parse, hs, hp]

theorem parse_rep_zero (f : Nat) (cap : Nat) (n : Trace → Nat) (body rest : List Syn) (acc : Trace) (e : ER)
    (hs : stopped acc = false) (hn : min (n acc) cap = 0) :
    parse (f + 1) (.rep cap n body :: rest) acc e = parse f rest acc e := by
  simp only [parse, hs, hn]; simp

theorem parse_rep_succ (f : Nat) (cap : Nat) (n : Trace → Nat) (body rest : List Syn) (acc : Trace) (e : ER) {k : Nat}
    (hs : stopped acc = false) (hn : min (n acc) cap = k + 1) {a1 e1} (h1 : parse f body acc e = some (a1, e1)) :
    parse (f + 1) (.rep cap n body :: rest) acc e = parse f (.rep k (fun _ => k) body :: rest) a1 e1 := by
  simp only [parse, hs, hn, h1]; simp

theorem parse_rep_succ_none (f : Nat) (cap : Nat) (n : Trace → Nat) (body rest : List Syn) (acc : Trace) (e : ER)
    {k : Nat} (hs : stopped acc = false) (hn : min (n acc) cap = k + 1) (h1 : parse f body acc e = none) :
    parse (f + 1) (.rep cap n body :: rest) acc e = none := by
  simp only [parse, hs, hn, h1]; simp

theorem parse_seterr (f : Nat) (p : Trace → Bool) (rest : List Syn) (acc : Trace) (e : ER)
    (hs : stopped acc = false) :
    parse (f + 1) (.seterr p :: rest) acc e = parse f rest acc (if p acc then { e with err := true } else e) := by
  simp [parse, hs]

theorem parse_abort_false (f : Nat) (p : Trace → Bool) (rest : List Syn) (acc : Trace) (e : ER)
    (hs : stopped acc = false) (hp : p acc = false) :
    parse (f + 1) (.abort p :: rest) acc e = parse f rest acc e := by
  simp [parse, hs, hp]

theorem parse_abort_true (f : Nat) (p : Trace → Bool) (rest : List Syn) (acc : Trace) (e : ER)
    (hs : stopped acc = false) (hp : p acc = true) :
    parse (f + 1) (.abort p :: rest) acc e = some (acc ++ [("__stop", 1)], { e with err := true }) := by
  simp [parse, hs, hp]

theorem opsBits_append (a b : List Op) : opsBits (a ++ b) = opsBits a ++ opsBits b := by
  induction a with
  | nil => rfl
  | cons op a ih => simp [opsBits, ih]

end Mp4ff.BitSyn
