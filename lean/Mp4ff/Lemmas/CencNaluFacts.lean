import Mp4ff.Model.Cenc
import Mp4ff.Lemmas.NaluLenPrefixed
/-! uint32-arithmetic cursor facts for the `protectRanges` loop (Cenc model keeps the `% U32` arithmetic);
these are the former `end_facts` / `step_facts` of NaluLenPrefixed, independent of the walker definitions. -/
namespace Mp4ff.Cenc
open Mp4ff.Nalu

theorem end_facts_u32 (s pre : Bytes) (hs : s = pre ++ lenPrefixed []) (hlt : s.length < U32) :
    ¬ (pre.length < (s.length - 4) % U32) ∧ ¬ (pre.length < s.length % U32) := by
  have hl : s.length = pre.length := by simp [hs, lenPrefixed]
  rw [U32_eq] at hlt
  constructor
  · rw [U32_eq, Nat.mod_eq_of_lt (by omega)]; omega
  · rw [U32_eq, Nat.mod_eq_of_lt (by omega)]; omega

theorem step_facts_u32 (s pre n : Bytes) (rest : List Bytes) (hs : s = pre ++ lenPrefixed (n :: rest))
    (hlt : s.length < U32) (hne : n ≠ []) :
    pre.length < (s.length - 4) % U32 ∧ pre.length < s.length % U32 ∧
    be32 s pre.length = n.length ∧ (pre.length + 4) % U32 = pre.length + 4 ∧
    (pre.length + 4 + n.length) % U32 = pre.length + 4 + n.length ∧
    slice s (pre.length + 4) (pre.length + 4 + n.length) = n ∧
    byteAt s (pre.length + 4) = n.headD 0 ∧
    s = (pre ++ put32 n.length ++ n) ++ lenPrefixed rest ∧
    (pre ++ put32 n.length ++ n).length = pre.length + 4 + n.length ∧
    pre.length + 4 + n.length ≤ s.length := by
  have hn := nonempty_len hne
  rw [lenPrefixed_cons] at hs
  have hl : s.length = pre.length + 4 + n.length + (lenPrefixed rest).length := by
    simp [hs]; omega
  have hlt' := hlt
  rw [U32_eq] at hlt'
  refine ⟨?_, ?_, ?_, ?_, ?_, ?_, ?_, ?_, ?_, ?_⟩
  · rw [U32_eq, Nat.mod_eq_of_lt (by omega)]; omega
  · rw [U32_eq, Nat.mod_eq_of_lt (by omega)]; omega
  · rw [hs]; exact be32_at _ _ _ (by rw [U32_eq]; omega)
  · rw [U32_eq]; exact Nat.mod_eq_of_lt (by omega)
  · rw [U32_eq]; exact Nat.mod_eq_of_lt (by omega)
  · have := slice_at (pre ++ put32 n.length) n (lenPrefixed rest)
    simp only [List.length_append, put32_length, List.append_assoc] at this
    rw [hs]; exact this
  · have := byteAt_append_right (pre ++ put32 n.length) (n ++ lenPrefixed rest) 0
    simp only [List.length_append, put32_length, List.append_assoc, Nat.add_zero] at this
    rw [hs, this]
    cases n with
    | nil => exact absurd rfl hne
    | cons a t => simp [byteAt]
  · simp [hs]
  · simp; omega
  · omega

end Mp4ff.Cenc
