import Mp4ff.Model.AvcSps
import Mp4ff.Lemmas.C13Seq
import Mp4ff.Props.C13
import Mp4ff.Lemmas.C16Inv
import Mp4ff.Lemmas.C16Names
import Mp4ff.Lemmas.C16Sps
/-!
C15/C16: the bitstream-syntax DSL (capped repetitions, seterr, abort): generic round trip, totality and bounded output;
the AVC SPS instance.  Restated in Props/C15.lean and Props/C16.lean.
-/
namespace Mp4ff.BitSyn
open Mp4ff.Bits

mutual
/-- static bound on the number of values a syntax can yield -/
def maxEntries : Syn → Nat
  | .fld _ _ | .flag _ | .ue _ | .se _ => 1
  | .cond _ body => maxEntriesL body
  | .rep cap _ body => cap * maxEntriesL body
  | .seterr _ => 0
  | .abort _ => 1
def maxEntriesL : List Syn → Nat
  | [] => 0
  | s :: rest => maxEntries s + maxEntriesL rest
end

mutual
/-- static bound on the fuel a syntax needs -/
def fuelNeed : Syn → Nat
  | .fld _ _ | .flag _ | .ue _ | .se _ | .seterr _ | .abort _ => 1
  | .cond _ body => 1 + fuelNeedL body
  | .rep cap _ body => 1 + cap * (1 + fuelNeedL body)
def fuelNeedL : List Syn → Nat
  | [] => 1
  | s :: rest => fuelNeed s + fuelNeedL rest
end



/-- the serialiser consumes a prefix of `src` and appends exactly that prefix to `acc` -/
theorem ops_trace (f : Nat) : ∀ (L : List Syn) (acc src : Trace) (os : List Op) (acc' src' : Trace),
    ops f L acc src = some (os, acc', src') → ∃ used, src = used ++ src' ∧ acc' = acc ++ used := by
  induction f with
  | zero => intro L acc src os acc' src' h; simp [ops] at h
  | succ f ih =>
    intro L acc src os acc' src' h
    match L with
    | [] => obtain ⟨_, rfl, rfl⟩ := ops_nil_inv h; exact ⟨[], by simp, by simp⟩
    | .fld nm k :: rest =>
      obtain ⟨v, s0, o, rfl, _, hr, _⟩ := ops_fld_inv h
      obtain ⟨u, rfl, rfl⟩ := ih _ _ _ _ _ _ hr
      exact ⟨(nm, v) :: u, by simp, by simp⟩
    | .flag nm :: rest =>
      obtain ⟨v, s0, o, rfl, _, hr, _⟩ := ops_flag_inv h
      obtain ⟨u, rfl, rfl⟩ := ih _ _ _ _ _ _ hr
      exact ⟨(nm, v) :: u, by simp, by simp⟩
    | .ue nm :: rest =>
      obtain ⟨v, s0, o, rfl, _, hr, _⟩ := ops_ue_inv h
      obtain ⟨u, rfl, rfl⟩ := ih _ _ _ _ _ _ hr
      exact ⟨(nm, v) :: u, by simp, by simp⟩
    | .se nm :: rest =>
      obtain ⟨v, s0, o, rfl, hr, _⟩ := ops_se_inv h
      obtain ⟨u, rfl, rfl⟩ := ih _ _ _ _ _ _ hr
      exact ⟨(nm, v) :: u, by simp, by simp⟩
    | .cond p body :: rest =>
      rcases ops_cond_inv h with ⟨_, o1, a1, s1, o2, h1, h2, _⟩ | ⟨_, h2⟩
      · obtain ⟨u1, rfl, rfl⟩ := ih _ _ _ _ _ _ h1
        obtain ⟨u2, rfl, rfl⟩ := ih _ _ _ _ _ _ h2
        exact ⟨u1 ++ u2, by simp, by simp⟩
      · exact ih _ _ _ _ _ _ h2
    | .rep cap n body :: rest =>
      rcases ops_rep_inv h with ⟨_, h2⟩ | ⟨k, o1, a1, s1, o2, _, h1, h2, _⟩
      · exact ih _ _ _ _ _ _ h2
      · obtain ⟨u1, rfl, rfl⟩ := ih _ _ _ _ _ _ h1
        obtain ⟨u2, rfl, rfl⟩ := ih _ _ _ _ _ _ h2
        exact ⟨u1 ++ u2, by simp, by simp⟩
    | .seterr p :: rest => exact ih _ _ _ _ _ _ (ops_seterr_inv h).2
    | .abort p :: rest => exact ih _ _ _ _ _ _ (ops_abort_inv h).2

theorem ops_stopped_prefix {f : Nat} {L : List Syn} {acc src : Trace} {os acc' src'}
    (h : ops f L acc src = some (os, acc', src')) (hst : stopped acc' = false) : stopped acc = false := by
  obtain ⟨u, _, rfl⟩ := ops_trace f L acc src os acc' src' h
  exact stopped_of_append_left hst

/-- **generic round trip** on the bit level (extended DSL): reading the bits of a serialised trace gives back the
    trace; `stopped = false` is an invariant along the way since every accumulated trace is a prefix of the result -/
theorem parse_ops (f : Nat) : ∀ (L : List Syn) (acc src : Trace) (os : List Op) (acc' src' : Trace)
    (e : ER) (P : Bytes) (tail : List Bool),
    ops f L acc src = some (os, acc', src') → stopped acc' = false →
    (∀ op ∈ os, op.OK) → e.Inv P → e.abs P = opsBits os ++ tail →
    ∃ e' P', parse f L acc e = some (acc', e') ∧ e'.Inv P' ∧ e'.abs P' = tail ∧
      e'.nread + e'.rest.length = e.nread + e.rest.length := by
  induction f with
  | zero => intro L acc src os acc' src' e P tail h; simp [ops] at h
  | succ f ih =>
    intro L acc src os acc' src' e P tail h hst hok he habs
    have hs : stopped acc = false := ops_stopped_prefix h hst
    match L with
    | [] =>
      obtain ⟨rfl, rfl, rfl⟩ := ops_nil_inv h
      exact ⟨e, P, rfl, he, by simpa [opsBits] using habs, rfl⟩
    | .fld nm k :: rest =>
      obtain ⟨v, s0, o, rfl, hv, hr, rfl⟩ := ops_fld_inv h
      simp only [opsBits, List.append_assoc] at habs
      obtain ⟨P1, a1, a2, a3, a4⟩ := ER.readOp_spec e P (Op.fld k v.toNat) _ (hok _ (by simp)) he habs
      simp only [ER.readOp, Op.value] at a1 a2 a3 a4
      obtain ⟨e', P', b1, b2, b3, b4⟩ := ih _ _ _ _ _ _ _ P1 tail hr hst (fun op h => hok op (by simp [h])) a2 a3
      refine ⟨e', P', ?_, b2, b3, by omega⟩
      rw [parse_fld _ _ _ _ _ _ hs, a1, Int.toNat_of_nonneg hv]; exact b1
    | .flag nm :: rest =>
      obtain ⟨v, s0, o, rfl, hv, hr, rfl⟩ := ops_flag_inv h
      simp only [opsBits, List.append_assoc] at habs
      obtain ⟨P1, a1, a2, a3, a4⟩ := ER.readOp_spec e P (Op.flag (v == 1)) _ (hok _ (by simp)) he habs
      simp only [ER.readOp, Op.value] at a1 a2 a3 a4
      obtain ⟨e', P', b1, b2, b3, b4⟩ := ih _ _ _ _ _ _ _ P1 tail hr hst (fun op h => hok op (by simp [h])) a2 a3
      refine ⟨e', P', ?_, b2, b3, by omega⟩
      have hv' : (if (v == 1) = true then (1 : Int) else 0) = v := by
        rcases hv with rfl | rfl <;> simp
      rw [parse_flag _ _ _ _ _ hs, a1, hv']; exact b1
    | .ue nm :: rest =>
      obtain ⟨v, s0, o, rfl, hv, hr, rfl⟩ := ops_ue_inv h
      simp only [opsBits, List.append_assoc] at habs
      obtain ⟨P1, a1, a2, a3, a4⟩ := ER.readOp_spec e P (Op.ue v.toNat) _ (hok _ (by simp)) he habs
      simp only [ER.readOp, Op.value] at a1 a2 a3 a4
      obtain ⟨e', P', b1, b2, b3, b4⟩ := ih _ _ _ _ _ _ _ P1 tail hr hst (fun op h => hok op (by simp [h])) a2 a3
      refine ⟨e', P', ?_, b2, b3, by omega⟩
      rw [parse_ue _ _ _ _ _ hs, a1, Int.toNat_of_nonneg hv]; exact b1
    | .se nm :: rest =>
      obtain ⟨v, s0, o, rfl, hr, rfl⟩ := ops_se_inv h
      simp only [opsBits, List.append_assoc] at habs
      obtain ⟨P1, a1, a2, a3, a4⟩ := ER.readOp_spec e P (Op.se v) _ (hok _ (by simp)) he habs
      simp only [ER.readOp, Op.value] at a1 a2 a3 a4
      obtain ⟨e', P', b1, b2, b3, b4⟩ := ih _ _ _ _ _ _ _ P1 tail hr hst (fun op h => hok op (by simp [h])) a2 a3
      refine ⟨e', P', ?_, b2, b3, by omega⟩
      rw [parse_se _ _ _ _ _ hs, a1]; exact b1
    | .cond p body :: rest =>
      rcases ops_cond_inv h with ⟨hp, o1, a1, s1, o2, h1, h2, rfl⟩ | ⟨hp, h2⟩
      · rw [opsBits_append, List.append_assoc] at habs
        have hs1 := ops_stopped_prefix h2 hst
        obtain ⟨e1, P1, b1, b2, b3, b4⟩ := ih _ _ _ _ _ _ e P _ h1 hs1 (fun op h => hok op (by simp [h])) he habs
        obtain ⟨e2, P2, c1, c2, c3, c4⟩ := ih _ _ _ _ _ _ e1 P1 tail h2 hst (fun op h => hok op (by simp [h])) b2 b3
        refine ⟨e2, P2, ?_, c2, c3, by omega⟩
        rw [parse_cond_true f p body rest acc e hs hp b1]; exact c1
      · obtain ⟨e2, P2, c1, c2, c3, c4⟩ := ih _ _ _ _ _ _ e P tail h2 hst hok he habs
        exact ⟨e2, P2, by rw [parse_cond_false f p body rest acc e hs hp]; exact c1, c2, c3, c4⟩
    | .rep cap n body :: rest =>
      rcases ops_rep_inv h with ⟨hn, h2⟩ | ⟨k, o1, a1, s1, o2, hn, h1, h2, rfl⟩
      · obtain ⟨e2, P2, c1, c2, c3, c4⟩ := ih _ _ _ _ _ _ e P tail h2 hst hok he habs
        exact ⟨e2, P2, by rw [parse_rep_zero f cap n body rest acc e hs hn]; exact c1, c2, c3, c4⟩
      · rw [opsBits_append, List.append_assoc] at habs
        have hs1 := ops_stopped_prefix h2 hst
        obtain ⟨e1, P1, b1, b2, b3, b4⟩ := ih _ _ _ _ _ _ e P _ h1 hs1 (fun op h => hok op (by simp [h])) he habs
        obtain ⟨e2, P2, c1, c2, c3, c4⟩ := ih _ _ _ _ _ _ e1 P1 tail h2 hst (fun op h => hok op (by simp [h])) b2 b3
        refine ⟨e2, P2, ?_, c2, c3, by omega⟩
        rw [parse_rep_succ f cap n body rest acc e hs hn b1]; exact c1
    | .seterr p :: rest =>
      obtain ⟨hp, h2⟩ := ops_seterr_inv h
      obtain ⟨e2, P2, c1, c2, c3, c4⟩ := ih _ _ _ _ _ _ e P tail h2 hst hok he habs
      refine ⟨e2, P2, ?_, c2, c3, c4⟩
      rw [parse_seterr f p rest acc e hs, hp]; exact c1
    | .abort p :: rest =>
      obtain ⟨hp, h2⟩ := ops_abort_inv h
      obtain ⟨e2, P2, c1, c2, c3, c4⟩ := ih _ _ _ _ _ _ e P tail h2 hst hok he habs
      refine ⟨e2, P2, ?_, c2, c3, c4⟩
      rw [parse_abort_false f p rest acc e hs hp]; exact c1

/-- a trace is a valid value assignment of syntax `L`: it has the syntax's shape, every value is in range, it does not
    use the reserved name, and no `seterr`/`abort` condition holds along it -/
def TraceOK (f : Nat) (L : List Syn) (tr : Trace) : Prop :=
  (∃ os a, ops f L [] tr = some (os, a, []) ∧ ∀ op ∈ os, op.OK) ∧ stopped tr = false

/-- **generic NAL unit round trip** (as before, for the extended DSL) -/
theorem serialize_parse (f : Nat) (L : List Syn) (tr : Trace) (h : TraceOK f L tr) :
    ∃ nalu e, serialize f L tr = some nalu ∧ parseNalu f L nalu = some (tr, e) ∧ e.err = false ∧
      e.nread + e.rest.length = nalu.length := by
  obtain ⟨⟨os, a, hops, hok⟩, hst⟩ := h
  obtain ⟨used, hu1, hu2⟩ := ops_trace f L [] tr os a [] hops
  have ha : tr = a := by simp at hu1 hu2; rw [hu2, hu1]
  subst ha
  have hfold := EW.foldl_writeOp os hok {}
  have hrel0 := EW.writeAll_refines (allFields os) {} {} EWRel.init
  have hrel := EW.trailing_refines _ _ hrel0
  have hbw := BW.writeAll_spec (allFields os) {} BW.init_inv (allFields_ok os hok)
  obtain ⟨t1, t2, m, t3⟩ := BW.trailing_spec _ hbw.1
  let w := (os.foldl EW.writeOp {}).writeRbspTrailingBits
  have hw : w = (({} : EW).writeAll (allFields os)).writeRbspTrailingBits := by
    show (os.foldl EW.writeOp {}).writeRbspTrailingBits = _
    rw [hfold]
  have hout : w.out = esc 0 ((({} : BW).writeAll (allFields os)).trailing.out) := by rw [hw, hrel.2.2.1]
  let P := ((({} : BW).writeAll (allFields os)).trailing.out)
  have hinv : ({ rest := w.out } : ER).Inv P := ⟨by simp, by simp, t1.2.2, rfl, by simp, hout⟩
  have habs : ({ rest := w.out } : ER).abs P = opsBits os ++ (true :: List.replicate m false) := by
    show lowBits 0 0 ++ bitsOfBytes P = _
    have : (({} : BW).writeAll (allFields os)).trailing.abs = bitsOfBytes P := by
      simp [BW.abs, t2, lowBits, P]
    simp only [lowBits, List.nil_append]
    rw [← this, t3, hbw.2, fieldBits_allFields]
    simp [BW.abs, lowBits, bitsOfBytes]
  obtain ⟨e', P', a1, a2, _, a4⟩ := parse_ops f L [] tr os tr [] _ P _ hops hst hok hinv habs
  refine ⟨w.out, e', ?_, a1, a2.2.2.2.1, by simpa using a4⟩
  simp only [serialize, hops]
  rfl

/-- more fuel never changes a result -/
theorem parse_fuel_mono (f g : Nat) (hfg : f ≤ g) : ∀ (L : List Syn) (acc : Trace) (e : ER) r,
    parse f L acc e = some r → parse g L acc e = some r := by
  induction f generalizing g with
  | zero => intro L acc e r h; simp [parse] at h
  | succ f ih =>
    intro L acc e r h
    obtain ⟨g, rfl⟩ : ∃ g', g = g' + 1 := ⟨g - 1, by omega⟩
    have hfg' : f ≤ g := by omega
    cases hs : stopped acc with
    | true => rw [parse_stopped _ _ _ _ hs] at h ⊢; exact h
    | false =>
    match L with
    | [] => simpa [parse] using h
    | .fld nm k :: rest => rw [parse_fld _ _ _ _ _ _ hs] at h ⊢; exact ih g hfg' _ _ _ _ h
    | .flag nm :: rest => rw [parse_flag _ _ _ _ _ hs] at h ⊢; exact ih g hfg' _ _ _ _ h
    | .ue nm :: rest => rw [parse_ue _ _ _ _ _ hs] at h ⊢; exact ih g hfg' _ _ _ _ h
    | .se nm :: rest => rw [parse_se _ _ _ _ _ hs] at h ⊢; exact ih g hfg' _ _ _ _ h
    | .seterr p :: rest => rw [parse_seterr _ _ _ _ _ hs] at h ⊢; exact ih g hfg' _ _ _ _ h
    | .abort p :: rest =>
      cases hp : p acc with
      | false => rw [parse_abort_false _ _ _ _ _ hs hp] at h ⊢; exact ih g hfg' _ _ _ _ h
      | true => rw [parse_abort_true _ _ _ _ _ hs hp] at h ⊢; exact h
    | .cond p body :: rest =>
      cases hp : p acc with
      | false =>
        rw [parse_cond_false _ _ _ _ _ _ hs hp] at h ⊢; exact ih g hfg' _ _ _ _ h
      | true =>
        cases h1 : parse f body acc e with
        | none => rw [parse_cond_true_none _ _ _ _ _ _ hs hp h1] at h; cases h
        | some r1 =>
          obtain ⟨a1, e1⟩ := r1
          rw [parse_cond_true _ _ _ _ _ _ hs hp h1] at h
          rw [parse_cond_true _ _ _ _ _ _ hs hp (ih g hfg' _ _ _ _ h1)]
          exact ih g hfg' _ _ _ _ h
    | .rep cap n body :: rest =>
      cases hn : min (n acc) cap with
      | zero =>
        rw [parse_rep_zero _ _ _ _ _ _ _ hs hn] at h ⊢; exact ih g hfg' _ _ _ _ h
      | succ k =>
        cases h1 : parse f body acc e with
        | none => rw [parse_rep_succ_none _ _ _ _ _ _ _ hs hn h1] at h; cases h
        | some r1 =>
          obtain ⟨a1, e1⟩ := r1
          rw [parse_rep_succ _ _ _ _ _ _ _ hs hn h1] at h
          rw [parse_rep_succ _ _ _ _ _ _ _ hs hn (ih g hfg' _ _ _ _ h1)]
          exact ih g hfg' _ _ _ _ h

theorem fuelNeedL_pos (L : List Syn) : 1 ≤ fuelNeedL L := by
  induction L with
  | nil => simp [fuelNeedL]
  | cons s r ih => simp only [fuelNeedL]; omega

theorem parse_total_aux : ∀ (f : Nat) (L : List Syn) (acc : Trace) (e : ER), fuelNeedL L ≤ f →
    ∃ acc' e', parse f L acc e = some (acc', e') ∧ acc'.length ≤ acc.length + maxEntriesL L := by
  intro f
  induction f with
  | zero => intro L acc e h; have := fuelNeedL_pos L; omega
  | succ f ih =>
    intro L acc e hf
    cases hs : stopped acc with
    | true => exact ⟨acc, e, parse_stopped _ _ _ _ hs, by omega⟩
    | false =>
    match L with
    | [] => exact ⟨acc, e, rfl, by omega⟩
    | .fld nm k :: rest =>
      simp only [fuelNeedL, fuelNeed, maxEntriesL, maxEntries] at hf ⊢
      obtain ⟨a, e', h1, h2⟩ := ih rest (acc ++ [(nm, ((e.read k).2 : Int))]) (e.read k).1 (by omega)
      exact ⟨a, e', by rw [parse_fld _ _ _ _ _ _ hs]; exact h1, by simp at h2; omega⟩
    | .flag nm :: rest =>
      simp only [fuelNeedL, fuelNeed, maxEntriesL, maxEntries] at hf ⊢
      obtain ⟨a, e', h1, h2⟩ := ih rest (acc ++ [(nm, if e.readFlag.2 then 1 else 0)]) e.readFlag.1 (by omega)
      exact ⟨a, e', by rw [parse_flag _ _ _ _ _ hs]; exact h1, by simp at h2; omega⟩
    | .ue nm :: rest =>
      simp only [fuelNeedL, fuelNeed, maxEntriesL, maxEntries] at hf ⊢
      obtain ⟨a, e', h1, h2⟩ := ih rest (acc ++ [(nm, (e.readExpGolomb.2 : Int))]) e.readExpGolomb.1 (by omega)
      exact ⟨a, e', by rw [parse_ue _ _ _ _ _ hs]; exact h1, by simp at h2; omega⟩
    | .se nm :: rest =>
      simp only [fuelNeedL, fuelNeed, maxEntriesL, maxEntries] at hf ⊢
      obtain ⟨a, e', h1, h2⟩ := ih rest (acc ++ [(nm, e.readSignedGolomb.2)]) e.readSignedGolomb.1 (by omega)
      exact ⟨a, e', by rw [parse_se _ _ _ _ _ hs]; exact h1, by simp at h2; omega⟩
    | .seterr p :: rest =>
      simp only [fuelNeedL, fuelNeed, maxEntriesL, maxEntries] at hf ⊢
      obtain ⟨a, e', h1, h2⟩ := ih rest acc (if p acc then { e with err := true } else e) (by omega)
      exact ⟨a, e', by rw [parse_seterr _ _ _ _ _ hs]; exact h1, by omega⟩
    | .abort p :: rest =>
      simp only [fuelNeedL, fuelNeed, maxEntriesL, maxEntries] at hf ⊢
      cases hp : p acc with
      | true => exact ⟨_, _, parse_abort_true _ _ _ _ _ hs hp, by simp⟩
      | false =>
        obtain ⟨a, e', h1, h2⟩ := ih rest acc e (by omega)
        exact ⟨a, e', by rw [parse_abort_false _ _ _ _ _ hs hp]; exact h1, by omega⟩
    | .cond p body :: rest =>
      simp only [fuelNeedL, fuelNeed, maxEntriesL, maxEntries] at hf ⊢
      have := fuelNeedL_pos rest
      have := fuelNeedL_pos body
      cases hp : p acc with
      | false =>
        obtain ⟨a, e', h1, h2⟩ := ih rest acc e (by omega)
        exact ⟨a, e', by rw [parse_cond_false _ _ _ _ _ _ hs hp]; exact h1, by omega⟩
      | true =>
        obtain ⟨a1, e1, b1, b2⟩ := ih body acc e (by omega)
        obtain ⟨a, e', h1, h2⟩ := ih rest a1 e1 (by omega)
        exact ⟨a, e', by rw [parse_cond_true _ _ _ _ _ _ hs hp b1]; exact h1, by omega⟩
    | .rep cap n body :: rest =>
      simp only [fuelNeedL, fuelNeed, maxEntriesL, maxEntries] at hf ⊢
      have := fuelNeedL_pos rest
      have := fuelNeedL_pos body
      cases hn : min (n acc) cap with
      | zero =>
        obtain ⟨a, e', h1, h2⟩ := ih rest acc e (by omega)
        exact ⟨a, e', by rw [parse_rep_zero _ _ _ _ _ _ _ hs hn]; exact h1, by omega⟩
      | succ k =>
        have hk : k + 1 ≤ cap := by omega
        have m1 : (k + 1) * (1 + fuelNeedL body) ≤ cap * (1 + fuelNeedL body) := Nat.mul_le_mul_right _ hk
        have m2 : (k + 1) * maxEntriesL body ≤ cap * maxEntriesL body := Nat.mul_le_mul_right _ hk
        rw [Nat.succ_mul] at m1 m2
        obtain ⟨a1, e1, b1, b2⟩ := ih body acc e (by omega)
        obtain ⟨a, e', h1, h2⟩ := ih (.rep k (fun _ => k) body :: rest) a1 e1 (by
          simp only [fuelNeedL, fuelNeed]; omega)
        simp only [maxEntriesL, maxEntries] at h2
        exact ⟨a, e', by rw [parse_rep_succ _ _ _ _ _ _ _ hs hn b1]; exact h1, by omega⟩

/-- **totality and bounded output on EVERY input**: with the syntactic fuel bound the parser always returns, whatever
    the reader state (any bytes, any error state), and yields at most `maxEntriesL L` (+1 for the stop marker) values -/
theorem parse_total (L : List Syn) : ∀ (f : Nat) (acc : Trace) (e : ER), fuelNeedL L ≤ f →
    ∃ acc' e', parse f L acc e = some (acc', e') ∧ acc'.length ≤ acc.length + maxEntriesL L := by
  intro f acc e h; exact parse_total_aux f L acc e h

end Mp4ff.BitSyn

namespace Mp4ff.AvcSps
open Mp4ff.BitSyn Mp4ff.Bits

/-- **AVC SPS round trip** for the extended syntax (bounded cycle / CPB counts) -/
theorem sps_roundtrip (signedOffsets : Bool) (f : Nat) (tr : Trace) (h : TraceOK f (sps signedOffsets) tr) :
    ∃ nalu e, serialize f (sps signedOffsets) tr = some nalu ∧
      parseNalu f (sps signedOffsets) nalu = some (tr, e) ∧ e.err = false := by
  obtain ⟨nalu, e, h1, h2, h3, _⟩ := serialize_parse f _ tr h
  exact ⟨nalu, e, h1, h2, h3⟩

/-- **the AVC SPS parser terminates on every byte string within a fixed number of steps and returns at most a fixed
    number of values** (so time and memory are bounded by a constant plus the input itself) -/
theorem sps_total (signedOffsets : Bool) (nalu : Bytes) :
    ∃ t e, parseNalu (fuelNeedL (sps signedOffsets)) (sps signedOffsets) nalu = some (t, e) ∧
      t.length ≤ maxEntriesL (sps signedOffsets) ∧ maxEntriesL (sps signedOffsets) ≤ 2000 ∧
      fuelNeedL (sps signedOffsets) ≤ 6000 := by
  obtain ⟨t, e, h1, h2⟩ := parse_total (sps signedOffsets) (fuelNeedL (sps signedOffsets)) [] { rest := nalu }
    (Nat.le_refl _)
  refine ⟨t, e, h1, by simpa using h2, ?_, ?_⟩
  · cases signedOffsets <;> decide
  · cases signedOffsets <;> decide

/-- **picture size** (strongest variant for arbitrary traces): the parser's width/height is the standard's derivation
    whenever the trace does not combine separate_colour_plane_flag = 1 with chroma format 1 or 2 -/
theorem dims_eq_std_partial (t : Trace) (hf : t.nat "frame_mbs_only_flag" ≤ 1)
    (hsep : t.get "separate_colour_plane_flag" = 1 → chromaFormat t ≠ 1 ∧ chromaFormat t ≠ 2)
    (hfit : CropFits t) :
    dims t = stdDims t := by
  have hW : W64 = 18446744073709551616 := by decide
  unfold CropFits at hfit
  unfold dims stdDims
  generalize chromaFormat t = c at hsep ⊢
  generalize t.nat "frame_mbs_only_flag" = fmo at hf hfit ⊢
  generalize t.nat "pic_width_in_mbs_minus1" = w at hfit ⊢
  generalize t.nat "pic_height_in_map_units_minus1" = h at hfit ⊢
  generalize t.nat "frame_crop_left_offset" = cl at hfit ⊢
  generalize t.nat "frame_crop_right_offset" = cr at hfit ⊢
  generalize t.nat "frame_crop_top_offset" = ct at hfit ⊢
  generalize t.nat "frame_crop_bottom_offset" = cb at hfit ⊢
  generalize W64 = W at hW hfit ⊢
  subst hW
  have hfm : fmo = 0 ∨ fmo = 1 := by omega
  by_cases hc : t.get "frame_cropping_flag" = 1
  · simp only [hc, if_true, true_implies] at hfit ⊢
    obtain ⟨h1, h2, h3, h4⟩ := hfit
    by_cases hs : t.get "separate_colour_plane_flag" = 1
    · have := hsep hs
      match c, this with
      | 0, _ => rcases hfm with rfl | rfl <;> simp [hs] <;> omega
      | 3, _ => rcases hfm with rfl | rfl <;> simp [hs] <;> omega
      | n + 4, _ => simp
    · match c with
      | 0 => rcases hfm with rfl | rfl <;> simp [hs] <;> omega
      | 1 => rcases hfm with rfl | rfl <;> simp [hs] <;> omega
      | 2 => rcases hfm with rfl | rfl <;> simp [hs] <;> omega
      | 3 => rcases hfm with rfl | rfl <;> simp [hs] <;> omega
      | n + 4 => simp
  · simp only [hc, if_false] at hfit ⊢
    obtain ⟨h1, h2, -⟩ := hfit
    rcases hfm with rfl | rfl <;> simp <;> omega

/-- picture size for every valid SPS (statement as before) -/
theorem dims_eq_std_sps (signedOffsets : Bool) (f : Nat) (tr : Trace) (h : TraceOK f (sps signedOffsets) tr)
    (hfit : CropFits tr) : dims tr = stdDims tr := by
  obtain ⟨⟨os, a, hops, _⟩, _⟩ := h
  obtain ⟨used, hu1, hu2⟩ := ops_trace f _ [] tr os a [] hops
  have ha : tr = a := by simp at hu1 hu2; rw [hu2, hu1]
  subst ha
  refine dims_eq_std_partial tr (sps_trace_fmo _ _ _ _ _ hops) ?_ hfit
  intro hs
  rw [sps_trace_sep _ _ _ _ _ hops hs]
  decide

end Mp4ff.AvcSps
