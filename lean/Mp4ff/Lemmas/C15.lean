import Mp4ff.Model.AvcSps
import Mp4ff.Lemmas.C13Seq
import Mp4ff.Lemmas.C15Inv
import Mp4ff.Lemmas.C15Names
import Mp4ff.Lemmas.C15Sps
import Mp4ff.Props.C13
/-!
C15 (parameter sets parse to the values that were coded): all statements proved, except `dims_eq_std`, which is
FALSE as written (counterexample below); `dims_eq_std_partial` (explicit side condition) and `dims_eq_std_sps`
(every valid trace of the SPS syntax) are proved instead.
Helper lemmas: `Mp4ff/Lemmas/C15Inv.lean`, `C15Names.lean`, `C15Sps.lean`.
-/
namespace Mp4ff.BitSyn
open Mp4ff.Bits

/-- the serialiser consumes a prefix of `src` and appends exactly that prefix to `acc` -/
theorem ops_trace (f : Nat) : ∀ (L : List Syn) (acc src : Trace) (os : List Op) (acc' src' : Trace),
    ops f L acc src = some (os, acc', src') → ∃ used, src = used ++ src' ∧ acc' = acc ++ used := by
  induction f with
  | zero => intro L acc src os acc' src' h; simp [ops] at h
  | succ f ih =>
    intro L acc src os acc' src' h
    match L with
    | [] => obtain ⟨_, rfl, rfl⟩ := ops_nil_inv h; exact ⟨[], by simp, by simp⟩
    | .fld nm k :: rest =>
      obtain ⟨v, s0, o, rfl, _, hr, _⟩ := ops_fld_inv h
      obtain ⟨u, rfl, rfl⟩ := ih _ _ _ _ _ _ hr
      exact ⟨(nm, v) :: u, by simp, by simp⟩
    | .flag nm :: rest =>
      obtain ⟨v, s0, o, rfl, _, hr, _⟩ := ops_flag_inv h
      obtain ⟨u, rfl, rfl⟩ := ih _ _ _ _ _ _ hr
      exact ⟨(nm, v) :: u, by simp, by simp⟩
    | .ue nm :: rest =>
      obtain ⟨v, s0, o, rfl, _, hr, _⟩ := ops_ue_inv h
      obtain ⟨u, rfl, rfl⟩ := ih _ _ _ _ _ _ hr
      exact ⟨(nm, v) :: u, by simp, by simp⟩
    | .se nm :: rest =>
      obtain ⟨v, s0, o, rfl, hr, _⟩ := ops_se_inv h
      obtain ⟨u, rfl, rfl⟩ := ih _ _ _ _ _ _ hr
      exact ⟨(nm, v) :: u, by simp, by simp⟩
    | .cond p body :: rest =>
      rcases ops_cond_inv h with ⟨_, o1, a1, s1, o2, h1, h2, _⟩ | ⟨_, h2⟩
      · obtain ⟨u1, rfl, rfl⟩ := ih _ _ _ _ _ _ h1
        obtain ⟨u2, rfl, rfl⟩ := ih _ _ _ _ _ _ h2
        exact ⟨u1 ++ u2, by simp, by simp⟩
      · exact ih _ _ _ _ _ _ h2
    | .rep n body :: rest =>
      rcases ops_rep_inv h with ⟨_, h2⟩ | ⟨k, o1, a1, s1, o2, _, h1, h2, _⟩
      · exact ih _ _ _ _ _ _ h2
      · obtain ⟨u1, rfl, rfl⟩ := ih _ _ _ _ _ _ h1
        obtain ⟨u2, rfl, rfl⟩ := ih _ _ _ _ _ _ h2
        exact ⟨u1 ++ u2, by simp, by simp⟩

/-- **generic round trip**: reading, with the emulation-removing reader, the bits that the primitive operations of
    a serialised trace occupy gives back exactly that trace, consumes exactly those bits and raises no error — for
    every syntax (any nesting of conditions and repetitions over earlier values) -/
theorem parse_ops (f : Nat) : ∀ (L : List Syn) (acc src : Trace) (os : List Op) (acc' src' : Trace)
    (e : ER) (P : Bytes) (tail : List Bool),
    ops f L acc src = some (os, acc', src') → (∀ op ∈ os, op.OK) → e.Inv P → e.abs P = opsBits os ++ tail →
    ∃ e' P', parse f L acc e = some (acc', e') ∧ e'.Inv P' ∧ e'.abs P' = tail ∧
      e'.nread + e'.rest.length = e.nread + e.rest.length := by
  induction f with
  | zero => intro L acc src os acc' src' e P tail h; simp [ops] at h
  | succ f ih =>
    intro L acc src os acc' src' e P tail h hok he habs
    match L with
    | [] =>
      obtain ⟨rfl, rfl, rfl⟩ := ops_nil_inv h
      exact ⟨e, P, rfl, he, by simpa [opsBits] using habs, rfl⟩
    | .fld nm k :: rest =>
      obtain ⟨v, s0, o, rfl, hv, hr, rfl⟩ := ops_fld_inv h
      simp only [opsBits, List.append_assoc] at habs
      obtain ⟨P1, a1, a2, a3, a4⟩ := ER.readOp_spec e P (Op.fld k v.toNat) _ (hok _ (by simp)) he habs
      simp only [ER.readOp, Op.value] at a1 a2 a3 a4
      obtain ⟨e', P', b1, b2, b3, b4⟩ := ih _ _ _ _ _ _ _ P1 tail hr (fun op h => hok op (by simp [h])) a2 a3
      refine ⟨e', P', ?_, b2, b3, by omega⟩
      rw [parse_fld, a1, Int.toNat_of_nonneg hv]; exact b1
    | .flag nm :: rest =>
      obtain ⟨v, s0, o, rfl, hv, hr, rfl⟩ := ops_flag_inv h
      simp only [opsBits, List.append_assoc] at habs
      obtain ⟨P1, a1, a2, a3, a4⟩ := ER.readOp_spec e P (Op.flag (v == 1)) _ (hok _ (by simp)) he habs
      simp only [ER.readOp, Op.value] at a1 a2 a3 a4
      obtain ⟨e', P', b1, b2, b3, b4⟩ := ih _ _ _ _ _ _ _ P1 tail hr (fun op h => hok op (by simp [h])) a2 a3
      refine ⟨e', P', ?_, b2, b3, by omega⟩
      have hv' : (if (v == 1) = true then (1 : Int) else 0) = v := by
        rcases hv with rfl | rfl <;> simp
      rw [parse_flag, a1, hv']; exact b1
    | .ue nm :: rest =>
      obtain ⟨v, s0, o, rfl, hv, hr, rfl⟩ := ops_ue_inv h
      simp only [opsBits, List.append_assoc] at habs
      obtain ⟨P1, a1, a2, a3, a4⟩ := ER.readOp_spec e P (Op.ue v.toNat) _ (hok _ (by simp)) he habs
      simp only [ER.readOp, Op.value] at a1 a2 a3 a4
      obtain ⟨e', P', b1, b2, b3, b4⟩ := ih _ _ _ _ _ _ _ P1 tail hr (fun op h => hok op (by simp [h])) a2 a3
      refine ⟨e', P', ?_, b2, b3, by omega⟩
      rw [parse_ue, a1, Int.toNat_of_nonneg hv]; exact b1
    | .se nm :: rest =>
      obtain ⟨v, s0, o, rfl, hr, rfl⟩ := ops_se_inv h
      simp only [opsBits, List.append_assoc] at habs
      obtain ⟨P1, a1, a2, a3, a4⟩ := ER.readOp_spec e P (Op.se v) _ (hok _ (by simp)) he habs
      simp only [ER.readOp, Op.value] at a1 a2 a3 a4
      obtain ⟨e', P', b1, b2, b3, b4⟩ := ih _ _ _ _ _ _ _ P1 tail hr (fun op h => hok op (by simp [h])) a2 a3
      refine ⟨e', P', ?_, b2, b3, by omega⟩
      rw [parse_se, a1]; exact b1
    | .cond p body :: rest =>
      rcases ops_cond_inv h with ⟨hp, o1, a1, s1, o2, h1, h2, rfl⟩ | ⟨hp, h2⟩
      · rw [opsBits_append, List.append_assoc] at habs
        obtain ⟨e1, P1, b1, b2, b3, b4⟩ := ih _ _ _ _ _ _ e P _ h1 (fun op h => hok op (by simp [h])) he habs
        obtain ⟨e2, P2, c1, c2, c3, c4⟩ := ih _ _ _ _ _ _ e1 P1 tail h2 (fun op h => hok op (by simp [h])) b2 b3
        refine ⟨e2, P2, ?_, c2, c3, by omega⟩
        rw [parse_cond_true f p body rest acc e hp b1]; exact c1
      · obtain ⟨e2, P2, c1, c2, c3, c4⟩ := ih _ _ _ _ _ _ e P tail h2 hok he habs
        exact ⟨e2, P2, by rw [parse_cond_false f p body rest acc e hp]; exact c1, c2, c3, c4⟩
    | .rep n body :: rest =>
      rcases ops_rep_inv h with ⟨hn, h2⟩ | ⟨k, o1, a1, s1, o2, hn, h1, h2, rfl⟩
      · obtain ⟨e2, P2, c1, c2, c3, c4⟩ := ih _ _ _ _ _ _ e P tail h2 hok he habs
        exact ⟨e2, P2, by rw [parse_rep_zero f n body rest acc e hn]; exact c1, c2, c3, c4⟩
      · rw [opsBits_append, List.append_assoc] at habs
        obtain ⟨e1, P1, b1, b2, b3, b4⟩ := ih _ _ _ _ _ _ e P _ h1 (fun op h => hok op (by simp [h])) he habs
        obtain ⟨e2, P2, c1, c2, c3, c4⟩ := ih _ _ _ _ _ _ e1 P1 tail h2 (fun op h => hok op (by simp [h])) b2 b3
        refine ⟨e2, P2, ?_, c2, c3, by omega⟩
        rw [parse_rep_succ f n body rest acc e hn b1]; exact c1


/-- more fuel never changes a result -/
theorem parse_fuel_mono (f g : Nat) (hfg : f ≤ g) : ∀ (L : List Syn) (acc : Trace) (e : ER) r,
    parse f L acc e = some r → parse g L acc e = some r := by
  induction f generalizing g with
  | zero => intro L acc e r h; simp [parse] at h
  | succ f ih =>
    intro L acc e r h
    obtain ⟨g, rfl⟩ : ∃ g', g = g' + 1 := ⟨g - 1, by omega⟩
    have hfg' : f ≤ g := by omega
    match L with
    | [] => simpa [parse] using h
    | .fld nm k :: rest => rw [parse_fld] at h ⊢; exact ih g hfg' _ _ _ _ h
    | .flag nm :: rest => rw [parse_flag] at h ⊢; exact ih g hfg' _ _ _ _ h
    | .ue nm :: rest => rw [parse_ue] at h ⊢; exact ih g hfg' _ _ _ _ h
    | .se nm :: rest => rw [parse_se] at h ⊢; exact ih g hfg' _ _ _ _ h
    | .cond p body :: rest =>
      cases hp : p acc with
      | false =>
        rw [parse_cond_false _ _ _ _ _ _ hp] at h ⊢; exact ih g hfg' _ _ _ _ h
      | true =>
        cases h1 : parse f body acc e with
        | none => simp [parse, hp, h1] at h
        | some r1 =>
          obtain ⟨a1, e1⟩ := r1
          rw [parse_cond_true _ _ _ _ _ _ hp h1] at h
          rw [parse_cond_true _ _ _ _ _ _ hp (ih g hfg' _ _ _ _ h1)]
          exact ih g hfg' _ _ _ _ h
    | .rep n body :: rest =>
      cases hn : n acc with
      | zero =>
        rw [parse_rep_zero _ _ _ _ _ _ hn] at h ⊢; exact ih g hfg' _ _ _ _ h
      | succ k =>
        cases h1 : parse f body acc e with
        | none => simp [parse, hn, h1] at h
        | some r1 =>
          obtain ⟨a1, e1⟩ := r1
          rw [parse_rep_succ _ _ _ _ _ _ hn h1] at h
          rw [parse_rep_succ _ _ _ _ _ _ hn (ih g hfg' _ _ _ _ h1)]
          exact ih g hfg' _ _ _ _ h

/-- a trace is a valid value assignment of syntax `L`: it has the syntax's shape and every value is in range
    (u(k) fits k ≤ 32 bits, ue(v) < 2^32, se(v) within 32 bits signed) -/
def TraceOK (f : Nat) (L : List Syn) (tr : Trace) : Prop :=
  ∃ os a, ops f L [] tr = some (os, a, []) ∧ ∀ op ∈ os, op.OK

/-- **NAL unit round trip**: the NAL unit an independent serialiser writes for a valid trace (emulation prevention,
    rbsp trailing bits) parses back to exactly that trace, with no error, all bytes of the unit accounted for -/
theorem serialize_parse (f : Nat) (L : List Syn) (tr : Trace) (h : TraceOK f L tr) :
    ∃ nalu e, serialize f L tr = some nalu ∧ parseNalu f L nalu = some (tr, e) ∧ e.err = false ∧
      e.nread + e.rest.length = nalu.length := by
  obtain ⟨os, a, hops, hok⟩ := h
  obtain ⟨used, hu1, hu2⟩ := ops_trace f L [] tr os a [] hops
  have ha : tr = a := by simp at hu1 hu2; rw [hu2, hu1]
  subst ha
  have hfold := EW.foldl_writeOp os hok {}
  have hrel0 := EW.writeAll_refines (allFields os) {} {} EWRel.init
  have hrel := EW.trailing_refines _ _ hrel0
  have hbw := BW.writeAll_spec (allFields os) {} BW.init_inv (allFields_ok os hok)
  obtain ⟨t1, t2, m, t3⟩ := BW.trailing_spec _ hbw.1
  let w := (os.foldl EW.writeOp {}).writeRbspTrailingBits
  have hw : w = (({} : EW).writeAll (allFields os)).writeRbspTrailingBits := by
    show (os.foldl EW.writeOp {}).writeRbspTrailingBits = _
    rw [hfold]
  have hout : w.out = esc 0 ((({} : BW).writeAll (allFields os)).trailing.out) := by rw [hw, hrel.2.2.1]
  let P := ((({} : BW).writeAll (allFields os)).trailing.out)
  have hinv : ({ rest := w.out } : ER).Inv P := ⟨by simp, by simp, t1.2.2, rfl, by simp, hout⟩
  have habs : ({ rest := w.out } : ER).abs P = opsBits os ++ (true :: List.replicate m false) := by
    show lowBits 0 0 ++ bitsOfBytes P = _
    have : (({} : BW).writeAll (allFields os)).trailing.abs = bitsOfBytes P := by
      simp [BW.abs, t2, lowBits, P]
    simp only [lowBits, List.nil_append]
    rw [← this, t3, hbw.2, fieldBits_allFields]
    simp [BW.abs, lowBits, bitsOfBytes]
  obtain ⟨e', P', a1, a2, _, a4⟩ := parse_ops f L [] tr os tr [] _ P _ hops hok hinv habs
  refine ⟨w.out, e', ?_, a1, a2.2.2.2.1, by simpa using a4⟩
  simp only [serialize, hops]
  rfl

end Mp4ff.BitSyn

namespace Mp4ff.AvcSps
open Mp4ff.BitSyn Mp4ff.Bits

/-- **AVC SPS**: every field of every valid SPS (all profiles, scaling lists, poc types 0-2, frame/field, cropping,
    VUI with HRD) is parsed to the value that was coded -/
theorem sps_roundtrip (signedOffsets : Bool) (f : Nat) (tr : Trace) (h : TraceOK f (sps signedOffsets) tr) :
    ∃ nalu e, serialize f (sps signedOffsets) tr = some nalu ∧
      parseNalu f (sps signedOffsets) nalu = some (tr, e) ∧ e.err = false := by
  obtain ⟨nalu, e, h1, h2, h3, _⟩ := serialize_parse f _ tr h
  exact ⟨nalu, e, h1, h2, h3⟩


/- ORIGINAL STATEMENT — FALSE as written:

theorem dims_eq_std (t : Trace) (hf : t.nat "frame_mbs_only_flag" ≤ 1) : dims t = stdDims t

Counterexample (`dims_counterexample` below): an arbitrary trace may carry separate_colour_plane_flag = 1 together
with a chroma format 1 or 2 (here: baseline profile 66, chroma format inferred 1).  The standard's derivation then has
ChromaArrayType = 0, CropUnitX = 1, CropUnitY = 2 - fmo, whereas the parser uses (2, 2 * (2 - fmo)):
dims = some (158, 158), stdDims = some (159, 159).  The syntax itself excludes this (the flag is only coded when
chroma_format_idc = 3), hence `dims_eq_std_sps`. -/

def dimsCounterexample : Trace :=
  [("profile_idc", 66), ("separate_colour_plane_flag", 1), ("frame_mbs_only_flag", 1), ("frame_cropping_flag", 1),
   ("pic_width_in_mbs_minus1", 9), ("pic_height_in_map_units_minus1", 9), ("frame_crop_right_offset", 1),
   ("frame_crop_bottom_offset", 1)]

theorem dims_counterexample :
    dimsCounterexample.nat "frame_mbs_only_flag" ≤ 1 ∧ dims dimsCounterexample = some (158, 158) ∧
      stdDims dimsCounterexample = some (159, 159) := by decide

/-- **picture size** (strongest variant for arbitrary traces): the parser's width/height is the standard's derivation
    whenever the trace does not combine separate_colour_plane_flag = 1 with chroma format 1 or 2 -/
theorem dims_eq_std_partial (t : Trace) (hf : t.nat "frame_mbs_only_flag" ≤ 1)
    (hsep : t.get "separate_colour_plane_flag" = 1 → chromaFormat t ≠ 1 ∧ chromaFormat t ≠ 2) :
    dims t = stdDims t := by
  unfold dims stdDims
  generalize chromaFormat t = c at hsep ⊢
  generalize t.nat "frame_mbs_only_flag" = fmo at hf ⊢
  generalize t.nat "pic_width_in_mbs_minus1" = w
  generalize t.nat "pic_height_in_map_units_minus1" = h
  generalize t.nat "frame_crop_left_offset" = cl
  generalize t.nat "frame_crop_right_offset" = cr
  generalize t.nat "frame_crop_top_offset" = ct
  generalize t.nat "frame_crop_bottom_offset" = cb
  have hfm : fmo = 0 ∨ fmo = 1 := by omega
  by_cases hc : t.get "frame_cropping_flag" = 1
  · simp only [hc, if_true]
    by_cases hs : t.get "separate_colour_plane_flag" = 1
    · have := hsep hs
      match c, this with
      | 0, _ => rcases hfm with rfl | rfl <;> simp [hs, Nat.mul_comm] <;> omega
      | 3, _ => rcases hfm with rfl | rfl <;> simp [hs, Nat.mul_comm] <;> omega
      | n + 4, _ => simp
    · match c with
      | 0 => rcases hfm with rfl | rfl <;> simp [hs, Nat.mul_comm] <;> omega
      | 1 => rcases hfm with rfl | rfl <;> simp [hs, Nat.mul_comm] <;> omega
      | 2 => rcases hfm with rfl | rfl <;> simp [hs, Nat.mul_comm] <;> omega
      | 3 => rcases hfm with rfl | rfl <;> simp [hs, Nat.mul_comm] <;> omega
      | n + 4 => simp
  · simp only [hc, if_false]
    rcases hfm with rfl | rfl <;> simp <;> omega

/-- **picture size, for every valid SPS**: for every trace of the SPS syntax (i.e. everything the parser can return
    for a well-formed SPS) the parser's width/height is the standard's derivation -/
theorem dims_eq_std_sps (signedOffsets : Bool) (f : Nat) (tr : Trace) (h : TraceOK f (sps signedOffsets) tr) :
    dims tr = stdDims tr := by
  obtain ⟨os, a, hops, _⟩ := h
  obtain ⟨used, hu1, hu2⟩ := ops_trace f _ [] tr os a [] hops
  have ha : tr = a := by simp at hu1 hu2; rw [hu2, hu1]
  subst ha
  refine dims_eq_std_partial tr (sps_trace_fmo _ _ _ _ _ hops) ?_
  intro hs
  rw [sps_trace_sep _ _ _ _ _ hops hs]
  decide

end Mp4ff.AvcSps

