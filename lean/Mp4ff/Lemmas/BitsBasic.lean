import Mp4ff.Model.BitSpec
namespace Mp4ff.Bits

@[simp] theorem lowBits_length (n v : Nat) : (lowBits n v).length = n := by
  induction n with
  | zero => rfl
  | succ n ih => simp [lowBits, ih]

theorem lowBits_congr {n a b : Nat} (h : ∀ i, i < n → a.testBit i = b.testBit i) :
    lowBits n a = lowBits n b := by
  induction n with
  | zero => rfl
  | succ n ih =>
    simp only [lowBits]
    rw [h n (by omega), ih (fun i hi => h i (by omega))]

theorem lowBits_inj {n a b : Nat} (h : lowBits n a = lowBits n b) :
    ∀ i, i < n → a.testBit i = b.testBit i := by
  induction n with
  | zero => intro i hi; omega
  | succ n ih =>
    simp only [lowBits, List.cons.injEq] at h
    intro i hi
    by_cases hin : i = n
    · subst hin; exact h.1
    · exact ih h.2 i (by omega)

theorem lowBits_append (a b v : Nat) :
    lowBits (a + b) v = lowBits a (v >>> b) ++ lowBits b v := by
  induction a with
  | zero => simp [lowBits]
  | succ a ih =>
    have : a + 1 + b = (a + b) + 1 := by omega
    rw [this]
    simp only [lowBits, List.cons_append, Nat.testBit_shiftRight]
    rw [ih, Nat.add_comm b a]

theorem bitsOfBytes_append (a b : Bytes) : bitsOfBytes (a ++ b) = bitsOfBytes a ++ bitsOfBytes b := by
  induction a with
  | nil => rfl
  | cons x xs ih => simp [bitsOfBytes, ih]

@[simp] theorem bitsOfBytes_length (a : Bytes) : (bitsOfBytes a).length = 8 * a.length := by
  induction a with
  | nil => rfl
  | cons x xs ih => simp [bitsOfBytes, ih]; omega

theorem testBit_mask (n i : Nat) : (mask n).testBit i = decide (i < n) := by
  unfold mask; exact Nat.testBit_two_pow_sub_one n i

theorem lowBits_and_mask {n m v : Nat} (h : n ≤ m) : lowBits n (v &&& mask m) = lowBits n v := by
  apply lowBits_congr
  intro i hi
  rw [Nat.testBit_and, testBit_mask]
  have : i < m := by omega
  simp [this]

theorem eq_of_lowBits_eq {k a b : Nat} (ha : a < 2 ^ k) (hb : b < 2 ^ k)
    (h : lowBits k a = lowBits k b) : a = b := by
  apply Nat.eq_of_testBit_eq
  intro i
  by_cases hi : i < k
  · exact lowBits_inj h i hi
  · have hk : 2 ^ k ≤ 2 ^ i := Nat.pow_le_pow_right (by decide) (by omega)
    rw [Nat.testBit_lt_two_pow (by omega), Nat.testBit_lt_two_pow (by omega)]

theorem and_mask_lt (v n : Nat) : v &&& mask n < 2 ^ n := by
  unfold mask
  rw [Nat.and_two_pow_sub_one_eq_mod]
  exact Nat.mod_lt _ (Nat.two_pow_pos n)

end Mp4ff.Bits
