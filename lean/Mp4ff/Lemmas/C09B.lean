import Mp4ff.Model.SampleTables
/-!
C09 batch B (stsc: sample → chunk, chunk contents, containing chunks, byte ranges): definitions and proofs.
-/
namespace Mp4ff.Stbl

/-- raw stsc entries (first_chunk, samples_per_chunk, description id): first_chunk strictly increasing from 1,
    samples_per_chunk positive -/
def RawOK (raw : List (Nat × Nat × Nat)) : Prop :=
  raw ≠ [] ∧ (raw.headD (0, 0, 0)).1 = 1 ∧ raw.Pairwise (fun a b => a.1 < b.1) ∧ ∀ e ∈ raw, 0 < e.2.1

/-- samples-per-chunk of chunk `c` (1-based): the last entry whose first_chunk ≤ c -/
def spcOf (raw : List (Nat × Nat × Nat)) (c : Nat) : Nat :=
  ((raw.filter fun e => e.1 ≤ c).getLast?.map (·.2.1)).getD 0

/-- first sample (1-based) of chunk `c` -/
def firstSampleOf (raw : List (Nat × Nat × Nat)) (c : Nat) : Nat :=
  1 + ((List.range (c - 1)).map fun i => spcOf raw (i + 1)).sum

/-- everything the uint32 arithmetic touches stays below 2^32 for chunks up to `cmax` -/
def NoWrap (raw : List (Nat × Nat × Nat)) (cmax : Nat) : Prop :=
  cmax + 1 < U32 ∧ firstSampleOf raw (cmax + 1) < U32 ∧ ∀ e ∈ raw, e.1 ≤ cmax

/-! ### helpers -/
theorem U32_eq : U32 = 4294967296 := by decide
theorem U64_eq : U64 = 18446744073709551616 := by decide

def fcAt (raw : List (Nat × Nat × Nat)) (j : Nat) : Nat := (raw.getD j (0, 0, 0)).1
def spcAt (raw : List (Nat × Nat × Nat)) (j : Nat) : Nat := (raw.getD j (0, 0, 0)).2.1

theorem fcAt_eq {raw : List (Nat × Nat × Nat)} {j : Nat} (h : j < raw.length) : fcAt raw j = raw[j].1 := by
  simp [fcAt, List.getD_eq_getElem?_getD, h]
theorem spcAt_eq {raw : List (Nat × Nat × Nat)} {j : Nat} (h : j < raw.length) : spcAt raw j = raw[j].2.1 := by
  simp [spcAt, List.getD_eq_getElem?_getD, h]

structure InEntry (raw : List (Nat × Nat × Nat)) (j c : Nat) : Prop where
  lt : j < raw.length
  lo : fcAt raw j ≤ c
  hi : j + 1 < raw.length → c < fcAt raw (j + 1)

theorem fcAt_lt {raw} (h : RawOK raw) {i j : Nat} (hij : i < j) (hj : j < raw.length) :
    fcAt raw i < fcAt raw j := by
  have hp := h.2.2.1
  rw [List.pairwise_iff_getElem] at hp
  rw [fcAt_eq hj, fcAt_eq (Nat.lt_trans hij hj)]
  exact hp i j _ _ hij

theorem fcAt_le {raw} (h : RawOK raw) {i j : Nat} (hij : i ≤ j) (hj : j < raw.length) :
    fcAt raw i ≤ fcAt raw j := by
  rcases Nat.eq_or_lt_of_le hij with rfl | hlt
  · exact Nat.le_refl _
  · exact Nat.le_of_lt (fcAt_lt h hlt hj)

theorem len_pos {raw} (h : RawOK raw) : 0 < raw.length := by
  have := h.1
  cases raw with
  | nil => exact absurd rfl this
  | cons a t => simp

theorem fcAt_zero {raw} (h : RawOK raw) : fcAt raw 0 = 1 := by
  have h2 := h.2.1
  cases raw with
  | nil => exact absurd rfl h.1
  | cons a t => simpa [fcAt] using h2

theorem fcAt_ge {raw} (h : RawOK raw) : ∀ j, j < raw.length → j + 1 ≤ fcAt raw j := by
  intro j
  induction j with
  | zero => intro _; rw [fcAt_zero h]; omega
  | succ k ih =>
    intro hk
    have := ih (by omega)
    have := fcAt_lt h (Nat.lt_add_one k) hk
    omega

theorem spcAt_pos {raw} (h : RawOK raw) {j} (hj : j < raw.length) : 0 < spcAt raw j := by
  rw [spcAt_eq hj]; exact h.2.2.2 _ (List.getElem_mem hj)

theorem fcAt_le_cmax {raw cmax} (hw : NoWrap raw cmax) {j} (hj : j < raw.length) : fcAt raw j ≤ cmax := by
  rw [fcAt_eq hj]; exact hw.2.2 _ (List.getElem_mem hj)

theorem len_le_cmax {raw cmax} (h : RawOK raw) (hw : NoWrap raw cmax) : raw.length ≤ cmax := by
  have hp := len_pos h
  have := fcAt_ge h (raw.length - 1) (by omega)
  have := fcAt_le_cmax hw (j := raw.length - 1) (by omega)
  omega

theorem spcOf_of_inEntry {raw} (h : RawOK raw) {j c} (hin : InEntry raw j c) : spcOf raw c = spcAt raw j := by
  have hj := hin.lt
  have e1 : (raw.take (j + 1)).filter (fun e => decide (e.1 ≤ c)) = raw.take (j + 1) := by
    rw [List.filter_eq_self]
    intro a ha
    rw [List.mem_take_iff_getElem] at ha
    obtain ⟨i, hi, rfl⟩ := ha
    have hi' : i < raw.length := by omega
    have := fcAt_le h (i := i) (j := j) (by omega) hj
    rw [fcAt_eq hi'] at this
    have := hin.lo
    simp; omega
  have e2 : (raw.drop (j + 1)).filter (fun e => decide (e.1 ≤ c)) = [] := by
    rw [List.filter_eq_nil_iff]
    intro a ha
    rw [List.mem_drop_iff_getElem] at ha
    obtain ⟨i, hi, rfl⟩ := ha
    have hi' : j + 1 + i < raw.length := by omega
    have := fcAt_le h (i := j + 1) (j := j + 1 + i) (by omega) hi'
    rw [fcAt_eq hi'] at this
    have := hin.hi (by omega)
    simp; omega
  unfold spcOf
  conv => lhs; rw [← List.take_append_drop (j + 1) raw]
  rw [List.filter_append, e1, e2, List.append_nil, List.take_succ_eq_append_getElem hj, List.getLast?_concat,
    spcAt_eq hj]
  simp

theorem firstSampleOf_succ (raw) {c : Nat} (hc : 1 ≤ c) :
    firstSampleOf raw (c + 1) = firstSampleOf raw c + spcOf raw c := by
  obtain ⟨k, rfl⟩ : ∃ k, c = k + 1 := ⟨c - 1, by omega⟩
  simp [firstSampleOf, List.range_succ, List.sum_append]
  omega

theorem firstSampleOf_le_succ (raw) (c : Nat) : firstSampleOf raw c ≤ firstSampleOf raw (c + 1) := by
  cases c with
  | zero => simp [firstSampleOf]
  | succ k => rw [firstSampleOf_succ raw (c := k + 1) (by omega)]; omega

theorem firstSampleOf_mono (raw) {c c' : Nat} (hcc : c ≤ c') : firstSampleOf raw c ≤ firstSampleOf raw c' := by
  induction c' with
  | zero => have : c = 0 := by omega
            subst this; exact Nat.le_refl _
  | succ k ih =>
    rcases Nat.eq_or_lt_of_le hcc with rfl | hlt
    · exact Nat.le_refl _
    · exact Nat.le_trans (ih (by omega)) (firstSampleOf_le_succ raw k)

theorem firstSampleOf_one (raw) : firstSampleOf raw 1 = 1 := by simp [firstSampleOf]
theorem firstSampleOf_pos (raw c) : 1 ≤ firstSampleOf raw c := by unfold firstSampleOf; omega

theorem firstSampleOf_entry_add {raw} (h : RawOK raw) {j} (hj : j < raw.length) :
    ∀ d, (j + 1 < raw.length → fcAt raw j + d ≤ fcAt raw (j + 1)) →
      firstSampleOf raw (fcAt raw j + d) = firstSampleOf raw (fcAt raw j) + d * spcAt raw j := by
  intro d
  induction d with
  | zero => intro _; simp
  | succ d ih =>
    intro hd
    have hin : InEntry raw j (fcAt raw j + d) := ⟨hj, by omega, fun h' => by have := hd h'; omega⟩
    have h1 := fcAt_ge h j hj
    rw [← Nat.add_assoc, firstSampleOf_succ raw (by omega), ih (fun h' => by have := hd h'; omega),
      spcOf_of_inEntry h hin, Nat.succ_mul]
    omega

theorem firstSampleOf_inEntry {raw} (h : RawOK raw) {j c} (hin : InEntry raw j c) :
    firstSampleOf raw c = firstSampleOf raw (fcAt raw j) + (c - fcAt raw j) * spcAt raw j := by
  have := firstSampleOf_entry_add h hin.lt (c - fcAt raw j) (fun h' => by have := hin.hi h'; have := hin.lo; omega)
  have hlo := hin.lo
  rwa [show fcAt raw j + (c - fcAt raw j) = c by omega] at this

theorem firstSampleOf_inEntry_succ {raw} (h : RawOK raw) {j c} (hin : InEntry raw j c) :
    firstSampleOf raw (c + 1) = firstSampleOf raw (fcAt raw j) + (c + 1 - fcAt raw j) * spcAt raw j := by
  have := firstSampleOf_entry_add h hin.lt (c + 1 - fcAt raw j) (fun h' => by have := hin.hi h'; have := hin.lo; omega)
  have hlo := hin.lo
  rwa [show fcAt raw j + (c + 1 - fcAt raw j) = c + 1 by omega] at this

/-! ### closed form of `Stsc.ofRaw` -/

def mkEntry (raw : List (Nat × Nat × Nat)) (r : Nat × Nat × Nat) : StscEntry :=
  ⟨r.1, r.2.1, firstSampleOf raw r.1⟩

theorem wrap_sub {x y : Nat} (hyx : y ≤ x) (hx : x < U32) : (x + U32 - y) % U32 = x - y := by
  rw [U32_eq] at *; omega

theorem wrap_calc {fs fc fc' spc : Nat} (h1 : fc' ≤ fc) (h2 : fc < U32) (h3 : fs + (fc - fc') * spc < U32) :
    (fs + ((fc + U32 - fc') % U32 * spc) % U32) % U32 = fs + (fc - fc') * spc := by
  rw [wrap_sub h1 h2]
  generalize (fc - fc') * spc = p at *
  rw [U32_eq] at *; omega

theorem wrap_calc' {fs fc fc' spc : Nat} (h1 : fc' ≤ fc) (h2 : fc < U32) (h3 : fs + (fc - fc') * spc < U32) :
    (((fc + U32 - fc') % U32 * spc) % U32 + fs) % U32 = fs + (fc - fc') * spc := by
  rw [wrap_sub h1 h2]
  generalize (fc - fc') * spc = p at *
  rw [U32_eq] at *; omega

theorem firstSampleOf_lt_U32 {raw cmax} (hw : NoWrap raw cmax) {c} (hc : c ≤ cmax + 1) : firstSampleOf raw c < U32 :=
  Nat.lt_of_le_of_lt (firstSampleOf_mono raw hc) hw.2.1

theorem ofRaw_fold {raw cmax} (h : RawOK raw) (hw : NoWrap raw cmax) : ∀ k, k ≤ raw.length →
    (raw.take k).foldl (fun (acc : List StscEntry) (r : Nat × Nat × Nat) =>
      match acc.getLast? with
      | none => [⟨r.1, r.2.1, 1⟩]
      | some l => acc ++ [⟨r.1, r.2.1, (l.firstSampleNr + ((r.1 + U32 - l.firstChunk) % U32 * l.samplesPerChunk) % U32) % U32⟩]) []
    = (raw.take k).map (mkEntry raw) := by
  intro k
  induction k with
  | zero => intro _; simp
  | succ k ih =>
    intro hk
    have hk' : k < raw.length := by omega
    rw [List.take_succ_eq_append_getElem hk', List.foldl_append, ih (by omega)]
    simp only [List.foldl_cons, List.foldl_nil, List.map_append, List.map_cons, List.map_nil]
    cases k with
    | zero =>
      have := fcAt_zero h
      rw [fcAt_eq hk'] at this
      simp [mkEntry, this, firstSampleOf_one]
    | succ k =>
      have hk2 : k < raw.length := by omega
      rw [List.take_succ_eq_append_getElem hk2]
      simp only [List.map_append, List.map_cons, List.map_nil, List.getLast?_concat]
      congr 2
      simp only [mkEntry]
      have hlt := fcAt_lt h (Nat.lt_add_one k) hk'
      have hadd := firstSampleOf_entry_add h hk2 (fcAt raw (k + 1) - fcAt raw k) (fun _ => by omega)
      rw [show fcAt raw k + (fcAt raw (k + 1) - fcAt raw k) = fcAt raw (k + 1) by omega] at hadd
      have hcm := fcAt_le_cmax hw hk'
      have hb := firstSampleOf_lt_U32 hw (c := fcAt raw (k + 1)) (by omega)
      rw [hadd] at hb
      have h32 := hw.1
      have := wrap_calc (fs := firstSampleOf raw (fcAt raw k)) (fc := fcAt raw (k + 1)) (fc' := fcAt raw k)
        (spc := spcAt raw k) (by omega) (by omega) hb
      rw [fcAt_eq hk', fcAt_eq hk2, spcAt_eq hk2] at this
      rw [this, ← fcAt_eq hk', ← fcAt_eq hk2, ← spcAt_eq hk2, hadd]

theorem ofRaw_entries {raw cmax} (h : RawOK raw) (hw : NoWrap raw cmax) :
    (Stsc.ofRaw raw).entries = raw.map (mkEntry raw) := by
  have := ofRaw_fold h hw raw.length (Nat.le_refl _)
  rw [List.take_length] at this
  simp only [Stsc.ofRaw]
  exact this

theorem ofRaw_length {raw cmax} (h : RawOK raw) (hw : NoWrap raw cmax) :
    (Stsc.ofRaw raw).entries.length = raw.length := by
  rw [ofRaw_entries h hw]; simp

theorem ofRaw_getD {raw cmax} (h : RawOK raw) (hw : NoWrap raw cmax) {i} (hi : i < raw.length) (d : StscEntry) :
    (Stsc.ofRaw raw).entries.getD i d = ⟨fcAt raw i, spcAt raw i, firstSampleOf raw (fcAt raw i)⟩ := by
  rw [ofRaw_entries h hw, fcAt_eq hi, spcAt_eq hi]
  simp [List.getD_eq_getElem?_getD, hi, mkEntry]

theorem ofRaw_getElem? {raw cmax} (h : RawOK raw) (hw : NoWrap raw cmax) {i} (hi : i < raw.length) :
    (Stsc.ofRaw raw).entries[i]? = some ⟨fcAt raw i, spcAt raw i, firstSampleOf raw (fcAt raw i)⟩ := by
  rw [ofRaw_entries h hw, fcAt_eq hi, spcAt_eq hi]
  simp [hi, mkEntry]

/-! ### the binary searches -/

def bsLast (f : Nat → Nat) (key : Nat) : Nat → Nat → Nat → Nat
  | 0, low, _ => low
  | fuel + 1, low, high =>
    if low < high then
      if f ((low + high) / 2) > key then bsLast f key fuel low ((low + high) / 2)
      else bsLast f key fuel ((low + high) / 2 + 1) high
    else low

theorem bsLast_spec (f : Nat → Nat) (key n : Nat) (hmono : ∀ i j, i ≤ j → j < n → f i ≤ f j) :
    ∀ fuel low high, low ≤ high → high ≤ n → high - low < fuel →
      (∀ i, i < low → f i ≤ key) → (∀ i, high ≤ i → i < n → key < f i) →
      low ≤ bsLast f key fuel low high ∧ bsLast f key fuel low high ≤ high ∧
        (∀ i, i < bsLast f key fuel low high → f i ≤ key) ∧
        (∀ i, bsLast f key fuel low high ≤ i → i < n → key < f i) := by
  intro fuel
  induction fuel with
  | zero => intro low high _ _ hf; omega
  | succ fuel ih =>
    intro low high hlh hhn hf hlo hhi
    unfold bsLast
    split
    · rename_i hlt
      split
      · rename_i hgt
        have := ih low ((low + high) / 2) (by omega) (by omega) (by omega) hlo
          (fun i hi1 hi2 => Nat.lt_of_lt_of_le hgt (hmono _ _ hi1 hi2))
        obtain ⟨r1, r2, r3, r4⟩ := this
        exact ⟨r1, by omega, r3, r4⟩
      · rename_i hle
        have := ih ((low + high) / 2 + 1) high (by omega) hhn (by omega)
          (fun i hi1 => Nat.le_trans (hmono i ((low + high) / 2) (by omega) (by omega)) (by omega)) hhi
        obtain ⟨r1, r2, r3, r4⟩ := this
        exact ⟨by omega, r2, r3, r4⟩
    · exact ⟨Nat.le_refl _, hlh, hlo, fun i hi1 hi2 => hhi i (by omega) hi2⟩

theorem findEntryForSample_go_eq (b : Stsc) (s : Nat) : ∀ fuel lo hi,
    Stsc.findEntryForSample.go b s fuel lo hi =
      bsLast (fun i => (b.entries.getD i ⟨0, 0, 0⟩).firstSampleNr) s fuel lo hi := by
  intro fuel
  induction fuel with
  | zero => intro lo hi; rfl
  | succ fuel ih => intro lo hi; simp only [Stsc.findEntryForSample.go, bsLast, ih]

theorem findEntryForChunk_go_eq (b : Stsc) (c : Nat) : ∀ fuel lo hi,
    Stsc.findEntryForChunk.go b c fuel lo hi =
      bsLast (fun i => (b.entries.getD i ⟨0, 0, 0⟩).firstChunk) c fuel lo hi := by
  intro fuel
  induction fuel with
  | zero => intro lo hi; rfl
  | succ fuel ih => intro lo hi; simp only [Stsc.findEntryForChunk.go, bsLast, ih]

theorem findEntryForChunk_spec {raw cmax} (h : RawOK raw) (hw : NoWrap raw cmax) {c} (h1 : 1 ≤ c) :
    InEntry raw ((Stsc.ofRaw raw).findEntryForChunk c) c := by
  have hlen := ofRaw_length h hw
  have hpos := len_pos h
  have hlc := len_le_cmax h hw
  have h32 := hw.1
  have hf : ∀ i, i < raw.length → ((Stsc.ofRaw raw).entries.getD i ⟨0, 0, 0⟩).firstChunk = fcAt raw i := by
    intro i hi; simp only [ofRaw_getD h hw hi]
  have hs := bsLast_spec (fun i => ((Stsc.ofRaw raw).entries.getD i ⟨0, 0, 0⟩).firstChunk) c raw.length
    (by intro i j hij hj; rw [hf i (by omega), hf j hj]; exact fcAt_le h hij hj)
    (raw.length + 1) 0 raw.length (by omega) (Nat.le_refl _) (by omega) (by intro i hi; omega)
    (by intro i hi1 hi2; omega)
  simp only [Stsc.findEntryForChunk, findEntryForChunk_go_eq, hlen]
  generalize bsLast _ c (raw.length + 1) 0 raw.length = r at hs
  obtain ⟨_, r2, r3, r4⟩ := hs
  have hr : r ≠ 0 := by
    intro h0
    have := r4 0 (by omega) hpos
    rw [hf 0 hpos, fcAt_zero h] at this
    omega
  have : (r + U32 - 1) % U32 = r - 1 := by rw [U32_eq] at *; omega
  rw [this]
  refine ⟨by omega, ?_, ?_⟩
  · have := r3 (r - 1) (by omega)
    rwa [hf _ (by omega)] at this
  · intro hlt
    have := r4 (r - 1 + 1) (by omega) hlt
    rwa [hf _ hlt] at this

theorem findEntryForSample_spec {raw cmax} (h : RawOK raw) (hw : NoWrap raw cmax) {j c s low0}
    (hin : InEntry raw j c) (hs1 : firstSampleOf raw c ≤ s) (hs2 : s < firstSampleOf raw (c + 1)) (hl : low0 ≤ j) :
    (Stsc.ofRaw raw).findEntryForSample s low0 = j := by
  have hlen := ofRaw_length h hw
  have hpos := len_pos h
  have hlc := len_le_cmax h hw
  have h32 := hw.1
  have hj := hin.lt
  have hf : ∀ i, i < raw.length →
      ((Stsc.ofRaw raw).entries.getD i ⟨0, 0, 0⟩).firstSampleNr = firstSampleOf raw (fcAt raw i) := by
    intro i hi; simp only [ofRaw_getD h hw hi]
  have hs := bsLast_spec (fun i => ((Stsc.ofRaw raw).entries.getD i ⟨0, 0, 0⟩).firstSampleNr) s raw.length
    (by intro i j hij hj; rw [hf i (by omega), hf j hj]; exact firstSampleOf_mono raw (fcAt_le h hij hj))
    (raw.length + 1) low0 raw.length (by omega) (Nat.le_refl _) (by omega)
    (by
      intro i hi
      rw [hf i (by omega)]
      exact Nat.le_trans (firstSampleOf_mono raw (Nat.le_trans (fcAt_le h (by omega) hj) hin.lo)) hs1)
    (by intro i hi1 hi2; omega)
  simp only [Stsc.findEntryForSample, findEntryForSample_go_eq, hlen]
  generalize bsLast _ s (raw.length + 1) low0 raw.length = r at hs
  obtain ⟨_, r2, r3, r4⟩ := hs
  have hr1 : ¬ r ≤ j := by
    intro hle
    have := r4 j hle hj
    rw [hf j hj] at this
    have := firstSampleOf_mono raw hin.lo
    omega
  have hr2 : ¬ j + 1 < r := by
    intro hlt
    have := r3 (j + 1) hlt
    rw [hf (j + 1) (by omega)] at this
    have := hin.hi (by omega)
    have := firstSampleOf_mono raw (c := c + 1) (c' := fcAt raw (j + 1)) (by omega)
    omega
  have : r = j + 1 := by omega
  subst this
  rw [U32_eq] at *; omega

theorem div_calc {n fs fc c spc : Nat} (hfc : fc ≤ c) (hlo : fs + (c - fc) * spc ≤ n)
    (hhi : n < fs + (c + 1 - fc) * spc) (hn : n < U32) : (n + U32 - fs) % U32 / spc = c - fc := by
  have hfs : fs ≤ n := by
    generalize (c - fc) * spc = p at hlo; omega
  rw [wrap_sub hfs hn]
  have e : c + 1 - fc = (c - fc) + 1 := by omega
  rw [e, Nat.succ_mul] at hhi
  apply Nat.div_eq_of_lt_le
  · generalize (c - fc) * spc = p at *; omega
  · rw [Nat.succ_mul]; generalize (c - fc) * spc = p at *; omega

theorem chunk_pair_calc {n fs fc c spc : Nat} (hfc : fc ≤ c) (hc : c < U32) (hlo : fs + (c - fc) * spc ≤ n)
    (hhi : n < fs + (c + 1 - fc) * spc) (hn : n < U32) :
    (fc + (n + U32 - fs) % U32 / spc) % U32 = c ∧
    (fs + (n + U32 - fs) % U32 / spc * spc % U32) % U32 = fs + (c - fc) * spc := by
  rw [div_calc hfc hlo hhi hn]
  generalize (c - fc) * spc = p at *
  rw [U32_eq] at *; omega

def mkChunk (raw : List (Nat × Nat × Nat)) (c : Nat) : Chunk := ⟨c, firstSampleOf raw c, spcOf raw c⟩

theorem gcc_go {raw cmax} (h : RawOK raw) (hw : NoWrap raw cmax) (cb : Nat) (hcb : cb ≤ cmax) :
    ∀ fuel chunkNr j acc, chunkNr + fuel = cb + 1 → InEntry raw j chunkNr →
      Stsc.getContainingChunks.go (Stsc.ofRaw raw) raw.length cb fuel chunkNr j
          ⟨fcAt raw j, spcAt raw j, firstSampleOf raw (fcAt raw j)⟩ acc
        = acc ++ (List.range' chunkNr fuel).map (mkChunk raw) := by
  intro fuel
  induction fuel with
  | zero => intro chunkNr j acc _ _; simp [Stsc.getContainingChunks.go]
  | succ fuel ih =>
    intro chunkNr j acc hsum hin
    have h32 := hw.1
    have hle : chunkNr ≤ cb := by omega
    have hfs := firstSampleOf_inEntry h hin
    have hb := firstSampleOf_lt_U32 hw (c := chunkNr) (by omega)
    rw [hfs] at hb
    have hcalc := wrap_calc (fs := firstSampleOf raw (fcAt raw j)) hin.lo (by omega) hb
    unfold Stsc.getContainingChunks.go
    simp only [hle, if_true]
    rw [hcalc, ← hfs]
    have hch : (⟨chunkNr, firstSampleOf raw chunkNr, spcAt raw j⟩ : Chunk) = mkChunk raw chunkNr := by
      simp [mkChunk, spcOf_of_inEntry h hin]
    rw [hch, List.range'_succ, List.map_cons]
    conv => rhs; rw [List.append_cons]
    by_cases hj1 : j + 1 < raw.length
    · rw [ofRaw_getD h hw hj1]
      by_cases heq : chunkNr + 1 = fcAt raw (j + 1)
      · simp only [hj1, heq, and_self, if_true]
        rw [← heq]
        have hin' : InEntry raw (j + 1) (chunkNr + 1) :=
          ⟨hj1, by omega, fun h' => by have := fcAt_lt h (Nat.lt_add_one (j + 1)) h'; omega⟩
        have := ih (chunkNr + 1) (j + 1) (acc ++ [mkChunk raw chunkNr]) (by omega) hin'
        rw [← heq] at this
        exact this
      · simp only [heq, and_false, if_false]
        have hin' : InEntry raw j (chunkNr + 1) :=
          ⟨hin.lt, by have := hin.lo; omega, fun h' => by have := hin.hi h'; omega⟩
        exact ih (chunkNr + 1) j (acc ++ [mkChunk raw chunkNr]) (by omega) hin'
    · simp only [hj1, false_and, if_false]
      have hin' : InEntry raw j (chunkNr + 1) :=
        ⟨hin.lt, by have := hin.lo; omega, fun h' => absurd h' hj1⟩
      exact ih (chunkNr + 1) j (acc ++ [mkChunk raw chunkNr]) (by omega) hin'

theorem inEntry_mono {raw} (h : RawOK raw) {j j' c c'} (hin : InEntry raw j c) (hin' : InEntry raw j' c')
    (hcc : c ≤ c') : j ≤ j' := by
  apply Nat.le_of_not_lt
  intro hlt
  have := hin'.hi (by have := hin.lt; omega)
  have := fcAt_le h (i := j' + 1) (j := j) (by omega) hin.lt
  have := hin.lo
  omega

theorem chunk_of_sample_calc {raw cmax} (h : RawOK raw) (hw : NoWrap raw cmax) {j c n} (hin : InEntry raw j c)
    (hc : c ≤ cmax) (hlo : firstSampleOf raw c ≤ n) (hhi : n < firstSampleOf raw (c + 1)) :
    ((n + U32 - firstSampleOf raw (fcAt raw j)) % U32 / spcAt raw j + fcAt raw j) % U32 = c := by
  have h32 := hw.1
  have hn : n < U32 := Nat.lt_trans hhi (firstSampleOf_lt_U32 hw (c := c + 1) (by omega))
  rw [firstSampleOf_inEntry h hin] at hlo
  rw [firstSampleOf_inEntry_succ h hin] at hhi
  rw [div_calc hin.lo hlo hhi hn]
  have := hin.lo
  rw [U32_eq] at *; omega

/-! ### end helpers 4 -/

/-- `GetChunk`: first sample and size of every chunk -/
theorem getChunk_spec (raw : List (Nat × Nat × Nat)) (h : RawOK raw) (cmax c : Nat) (hw : NoWrap raw cmax)
    (h1 : 1 ≤ c) (hc : c ≤ cmax) :
    (Stsc.ofRaw raw).getChunk c = some ⟨c, firstSampleOf raw c, spcOf raw c⟩ := by
  have hin := findEntryForChunk_spec h hw h1
  have hc0 : c ≠ 0 := by omega
  have h32 := hw.1
  have hfs := firstSampleOf_inEntry h hin
  have hb := firstSampleOf_lt_U32 hw (c := c) (by omega)
  rw [hfs] at hb
  have hcalc := wrap_calc' (fs := firstSampleOf raw (fcAt raw ((Stsc.ofRaw raw).findEntryForChunk c))) hin.lo (by omega) hb
  rw [hfs, ← hcalc, spcOf_of_inEntry h hin]
  simp [Stsc.getChunk, hc0, ofRaw_getElem? h hw hin.lt]

/-- description id of chunk `c` (1-based): that of the last entry whose first_chunk ≤ c -/
def sdiOf (raw : List (Nat × Nat × Nat)) (c : Nat) : Nat :=
  ((raw.filter fun e => e.1 ≤ c).getLast?.map (·.2.2)).getD 0

theorem sdiOf_of_inEntry {raw} (h : RawOK raw) {j c} (hin : InEntry raw j c) :
    sdiOf raw c = (raw.getD j (0, 0, 0)).2.2 := by
  have hj := hin.lt
  have e1 : (raw.take (j + 1)).filter (fun e => decide (e.1 ≤ c)) = raw.take (j + 1) := by
    rw [List.filter_eq_self]
    intro a ha
    rw [List.mem_take_iff_getElem] at ha
    obtain ⟨i, hi, rfl⟩ := ha
    have hi' : i < raw.length := by omega
    have := fcAt_le h (i := i) (j := j) (by omega) hj
    rw [fcAt_eq hi'] at this
    have := hin.lo
    simp; omega
  have e2 : (raw.drop (j + 1)).filter (fun e => decide (e.1 ≤ c)) = [] := by
    rw [List.filter_eq_nil_iff]
    intro a ha
    rw [List.mem_drop_iff_getElem] at ha
    obtain ⟨i, hi, rfl⟩ := ha
    have hi' : j + 1 + i < raw.length := by omega
    have := fcAt_le h (i := j + 1) (j := j + 1 + i) (by omega) hi'
    rw [fcAt_eq hi'] at this
    have := hin.hi (by omega)
    simp; omega
  unfold sdiOf
  conv => lhs; rw [← List.take_append_drop (j + 1) raw]
  rw [List.filter_append, e1, e2, List.append_nil, List.take_succ_eq_append_getElem hj, List.getLast?_concat]
  simp [List.getD_eq_getElem?_getD, hj]

/-- `GetSampleDescriptionID(chunkNr)`: the description id of the stsc entry the chunk belongs to -/
theorem getSampleDescriptionID_spec (raw : List (Nat × Nat × Nat)) (h : RawOK raw) (cmax c : Nat) (hw : NoWrap raw cmax)
    (h1 : 1 ≤ c) (_hc : c ≤ cmax) :
    (Stsc.ofRaw raw).getSampleDescriptionID c = some (sdiOf raw c) := by
  have hin := findEntryForChunk_spec h hw h1
  rw [sdiOf_of_inEntry h hin]
  have hsdi : (Stsc.ofRaw raw).sdi = raw.map (·.2.2) := rfl
  unfold Stsc.getSampleDescriptionID
  rw [hsdi]
  generalize (Stsc.ofRaw raw).findEntryForChunk c = j at hin
  have hj := hin.lt
  rw [ofRaw_getElem? h hw hj]
  simp [List.getD_eq_getElem?_getD, hj]

/-- `ChunkNrFromSampleNr`: the chunk that contains sample `n`, and that chunk's first sample -/
theorem chunkNrFromSampleNr_spec (raw : List (Nat × Nat × Nat)) (h : RawOK raw) (cmax c n : Nat) (hw : NoWrap raw cmax)
    (h1 : 1 ≤ c) (hc : c ≤ cmax) (hlo : firstSampleOf raw c ≤ n) (hhi : n < firstSampleOf raw (c + 1)) :
    (Stsc.ofRaw raw).chunkNrFromSampleNr n = some (c, firstSampleOf raw c) := by
  have hin := findEntryForChunk_spec h hw h1
  generalize (Stsc.ofRaw raw).findEntryForChunk c = j at hin
  have hfind := findEntryForSample_spec h hw hin hlo hhi (Nat.zero_le _)
  have h32 := hw.1
  have hspc := spcAt_pos h hin.lt
  unfold Stsc.chunkNrFromSampleNr
  rw [hfind, ofRaw_getElem? h hw hin.lt]
  simp only [Option.bind_eq_bind, Option.bind_some]
  have hn : n < U32 := Nat.lt_trans hhi (firstSampleOf_lt_U32 hw (c := c + 1) (by omega))
  have hfs := firstSampleOf_inEntry h hin
  have hfs' := firstSampleOf_inEntry_succ h hin
  rw [hfs] at hlo
  rw [hfs'] at hhi
  obtain ⟨e1, e2⟩ := chunk_pair_calc hin.lo (by omega) hlo hhi hn
  rw [if_neg (by omega), e1, e2, hfs]

/-- `GetContainingChunks a b`: exactly the chunks from the one containing `a` to the one containing `b` -/
theorem getContainingChunks_spec (raw : List (Nat × Nat × Nat)) (h : RawOK raw) (cmax ca cb a b : Nat)
    (hw : NoWrap raw cmax) (h1 : 1 ≤ ca) (hab : a ≤ b) (hcab : ca ≤ cb) (hc : cb ≤ cmax)
    (ha1 : firstSampleOf raw ca ≤ a) (ha2 : a < firstSampleOf raw (ca + 1))
    (hb1 : firstSampleOf raw cb ≤ b) (hb2 : b < firstSampleOf raw (cb + 1)) :
    (Stsc.ofRaw raw).getContainingChunks a b =
      some ((List.range' ca (cb + 1 - ca)).map fun c => ⟨c, firstSampleOf raw c, spcOf raw c⟩) := by
  have hina := findEntryForChunk_spec h hw h1
  generalize (Stsc.ofRaw raw).findEntryForChunk ca = ja at hina
  have hinb := findEntryForChunk_spec h hw (c := cb) (by omega)
  generalize (Stsc.ofRaw raw).findEntryForChunk cb = jb at hinb
  have hjab := inEntry_mono h hina hinb hcab
  have hfa := findEntryForSample_spec h hw hina ha1 ha2 (Nat.zero_le _)
  have hfb := findEntryForSample_spec h hw hinb hb1 hb2 hjab
  have ha0 := firstSampleOf_pos raw ca
  have hcond : ¬ (a = 0 ∨ b < a) := by omega
  have hsa := spcAt_pos h hina.lt
  have hsb := spcAt_pos h hinb.lt
  have hcond2 : ¬ (spcAt raw ja = 0 ∨ spcAt raw jb = 0) := by omega
  unfold Stsc.getContainingChunks
  rw [if_neg hcond]
  simp only [hfa, hfb, ofRaw_getElem? h hw hina.lt, ofRaw_getElem? h hw hinb.lt, Option.bind_eq_bind, Option.bind_some,
    if_neg hcond2, chunk_of_sample_calc h hw hina (by omega) ha1 ha2, chunk_of_sample_calc h hw hinb hc hb1 hb2,
    ofRaw_length h hw]
  rw [gcc_go h hw cb hc _ _ _ _ (by omega) hina]
  rfl

/-! ### byte ranges of a sample interval -/

/-- byte positions of a range -/
def positions (r : Nat × Nat) : List Nat := List.range' r.1 r.2

/-- naive: offset of sample `n` = offset of its chunk + sizes of the earlier samples of that chunk -/
def sampleOffset (raw : List (Nat × Nat × Nat)) (offs : List Nat) (sz : Stsz) (c n : Nat) : Nat :=
  offs.getD (c - 1) 0 + ((List.range' (firstSampleOf raw c) (n - firstSampleOf raw c)).map fun k =>
    if sz.uniform ≠ 0 then sz.uniform else sz.sizes.getD (k - 1) 0).sum

/-- the chunk (1-based) containing sample `n`, by naive walk over chunks 1..cmax -/
def chunkOfSample (raw : List (Nat × Nat × Nat)) (cmax n : Nat) : Nat :=
  ((List.range' 1 cmax).find? fun c => decide (n < firstSampleOf raw (c + 1))).getD 0

/-! ### helpers for `getRanges` -/

def sizeFn (sz : Stsz) (n : Nat) : Nat := if sz.uniform ≠ 0 then sz.uniform else sz.sizes.getD (n - 1) 0
def sumSizes (sz : Stsz) (x k : Nat) : Nat := ((List.range' x k).map (sizeFn sz)).sum
def maxSize (sz : Stsz) : Nat := if sz.uniform ≠ 0 then sz.uniform else sz.sizes.foldl max 0

theorem sumSizes_zero (sz x) : sumSizes sz x 0 = 0 := by simp [sumSizes]
theorem sumSizes_succ_front (sz x k) : sumSizes sz x (k + 1) = sizeFn sz x + sumSizes sz (x + 1) k := by
  simp [sumSizes, List.range'_succ]
theorem sumSizes_succ_back (sz x k) : sumSizes sz x (k + 1) = sumSizes sz x k + sizeFn sz (x + k) := by
  simp [sumSizes, List.range'_concat, List.sum_append]

theorem foldl_max_ge (l : List Nat) : ∀ init, init ≤ l.foldl max init ∧ ∀ x ∈ l, x ≤ l.foldl max init := by
  induction l with
  | nil => intro init; simp
  | cons a t ih =>
    intro init
    obtain ⟨i1, i2⟩ := ih (max init a)
    refine ⟨by simp only [List.foldl_cons]; omega, ?_⟩
    intro x hx
    simp only [List.foldl_cons]
    rcases List.mem_cons.mp hx with rfl | hx
    · omega
    · exact i2 x hx

theorem sizeFn_le (sz : Stsz) (n : Nat) : sizeFn sz n ≤ maxSize sz := by
  unfold sizeFn maxSize
  split
  · exact Nat.le_refl _
  · rw [List.getD_eq_getElem?_getD]
    cases hg : sz.sizes[n - 1]? with
    | none => simp
    | some v =>
      simp only [Option.getD_some]
      exact (foldl_max_ge sz.sizes 0).2 v (List.mem_of_getElem? hg)

theorem sumSizes_le (sz : Stsz) (x k : Nat) : sumSizes sz x k ≤ k * maxSize sz := by
  induction k with
  | zero => simp [sumSizes_zero]
  | succ k ih =>
    rw [sumSizes_succ_back, Nat.succ_mul]
    have := sizeFn_le sz (x + k)
    omega

theorem sumSizes_le' (sz : Stsz) (x k N : Nat) (hk : k ≤ N) : sumSizes sz x k ≤ N * maxSize sz :=
  Nat.le_trans (sumSizes_le sz x k) (Nat.mul_le_mul_right _ hk)

theorem sum_const (u : Nat) (l : List Nat) : (l.map fun _ => u).sum = l.length * u := by
  induction l with
  | nil => simp
  | cons a t ih => simp [ih, Nat.succ_mul]; omega

theorem gtss (sz : Stsz) {s e : Nat} (hs : 1 ≤ s) (he : e ≤ sz.sampleNumber)
    (hb : sumSizes sz s (e + 1 - s) < U64) :
    sz.getTotalSampleSize s e = some (sumSizes sz s (e + 1 - s)) := by
  unfold Stsz.getTotalSampleSize
  rw [if_neg (by omega)]
  split
  · rename_i hlt
    rw [show e + 1 - s = 0 by omega, sumSizes_zero]
  · rename_i hge
    split
    · rename_i hu
      have : sumSizes sz s (e + 1 - s) = (e - s + 1) * sz.uniform := by
        unfold sumSizes
        have : sizeFn sz = fun _ => sz.uniform := by funext n; simp [sizeFn, hu]
        rw [this, sum_const]; simp only [List.length_range']; rw [show e + 1 - s = e - s + 1 by omega]
      rw [this] at hb
      rw [this, Nat.mod_eq_of_lt hb]
    · rename_i hu
      have hu' : sz.uniform = 0 := by omega
      have : sizeFn sz = fun nr => sz.sizes.getD (nr - 1) 0 := by funext n; simp [sizeFn, hu']
      unfold sumSizes at hb ⊢
      rw [this] at hb ⊢
      rw [Nat.mod_eq_of_lt hb]

theorem positions_append (o x y : Nat) : positions (o, x) ++ positions (o + x, y) = positions (o, x + y) := by
  simp only [positions]
  have := List.range'_append (s := o) (m := x) (n := y) (step := 1)
  rwa [Nat.one_mul] at this

theorem chunk_positions (sz : Stsz) (base s : Nat) : ∀ k lo, s ≤ lo →
    positions (base + sumSizes sz s (lo - s), sumSizes sz lo k) =
      (List.range' lo k).flatMap (fun n => positions (base + sumSizes sz s (n - s), sizeFn sz n)) := by
  intro k
  induction k with
  | zero => intro lo _; simp [sumSizes_zero, positions]
  | succ k ih =>
    intro lo hlo
    rw [List.range'_succ, List.flatMap_cons, ← ih (lo + 1) (by omega), sumSizes_succ_front, ← positions_append]
    congr 3
    rw [show lo + 1 - s = (lo - s) + 1 by omega, sumSizes_succ_back, show s + (lo - s) = lo by omega]
    omega

theorem flatMap_congr' {α β} (l : List α) (f g : α → List β) (hfg : ∀ x ∈ l, f x = g x) :
    l.flatMap f = l.flatMap g := by
  induction l with
  | nil => rfl
  | cons a t ih =>
    rw [List.flatMap_cons, List.flatMap_cons, hfg a (List.mem_cons_self), ih (fun x hx => hfg x (List.mem_cons_of_mem _ hx))]

theorem mapM_some {α β} (l : List α) (g : α → Option β) (g' : α → β) (hg : ∀ x ∈ l, g x = some (g' x)) :
    l.mapM g = some (l.map g') := by
  induction l with
  | nil => rfl
  | cons a t ih =>
    rw [List.mapM_cons, hg a (List.mem_cons_self), ih (fun x hx => hg x (List.mem_cons_of_mem _ hx))]
    rfl

theorem find_range' (p : Nat → Bool) (c : Nat) (hp : p c = true) : ∀ k start, (∀ c', start ≤ c' → c' < c → p c' = false) →
    start ≤ c → c < start + k → (List.range' start k).find? p = some c := by
  intro k
  induction k with
  | zero => intro start _ _ _; omega
  | succ k ih =>
    intro start hnp h1 h2
    rw [List.range'_succ, List.find?_cons]
    by_cases hsc : start = c
    · subst hsc; rw [hp]
    · rw [hnp start (Nat.le_refl _) (by omega)]
      exact ih (start + 1) (fun c' h1' h2' => hnp c' (by omega) h2') (by omega) (by omega)

theorem chunkOfSample_eq (raw : List (Nat × Nat × Nat)) {cmax c n : Nat} (h1 : 1 ≤ c) (hc : c ≤ cmax)
    (hlo : firstSampleOf raw c ≤ n) (hhi : n < firstSampleOf raw (c + 1)) : chunkOfSample raw cmax n = c := by
  unfold chunkOfSample
  rw [find_range' _ c (by simpa using hhi) cmax 1 _ h1 (by omega)]
  · rfl
  · intro c' _ hc'
    have := firstSampleOf_mono raw (c := c' + 1) (c' := c) (by omega)
    simp; omega

theorem exists_chunk (raw : List (Nat × Nat × Nat)) : ∀ m, 1 ≤ m → ∀ a, 1 ≤ a → a < firstSampleOf raw (m + 1) →
    ∃ c, 1 ≤ c ∧ c ≤ m ∧ firstSampleOf raw c ≤ a ∧ a < firstSampleOf raw (c + 1) := by
  intro m
  induction m with
  | zero => intro h; omega
  | succ m ih =>
    intro _ a ha1 ha2
    by_cases hlt : a < firstSampleOf raw (m + 1)
    · by_cases hm : m = 0
      · subst hm; rw [firstSampleOf_one] at hlt; omega
      · obtain ⟨c, c1, c2, c3, c4⟩ := ih (by omega) a ha1 hlt
        exact ⟨c, c1, by omega, c3, c4⟩
    · exact ⟨m + 1, by omega, Nat.le_refl _, by omega, ha2⟩

def loOf (raw : List (Nat × Nat × Nat)) (a c : Nat) : Nat := max a (firstSampleOf raw c)
def hiOf (raw : List (Nat × Nat × Nat)) (b c : Nat) : Nat := min (b + 1) (firstSampleOf raw (c + 1))

def rangeOf (raw : List (Nat × Nat × Nat)) (offs : List Nat) (sz : Stsz) (a b c : Nat) : Nat × Nat :=
  (offs.getD (c - 1) 0 + sumSizes sz (firstSampleOf raw c) (loOf raw a c - firstSampleOf raw c),
   sumSizes sz (loOf raw a c) (hiOf raw b c - loOf raw a c))

theorem split_samples (raw : List (Nat × Nat × Nat)) {a b ca cb : Nat}
    (ha2 : a < firstSampleOf raw (ca + 1)) (hb1 : firstSampleOf raw cb ≤ b) (hb2 : b < firstSampleOf raw (cb + 1)) :
    ∀ k c0, ca ≤ c0 → c0 + k = cb + 1 →
      (List.range' c0 k).flatMap (fun c => List.range' (loOf raw a c) (hiOf raw b c - loOf raw a c)) =
        List.range' (loOf raw a c0) (b + 1 - loOf raw a c0) := by
  intro k
  induction k with
  | zero =>
    intro c0 _ hc0
    have : c0 = cb + 1 := by omega
    subst this
    have : b + 1 - loOf raw a (cb + 1) = 0 := by unfold loOf; omega
    rw [this]; simp
  | succ k ih =>
    intro c0 hca hc0
    rw [List.range'_succ, List.flatMap_cons, ih (c0 + 1) (by omega) (by omega)]
    have m1 := firstSampleOf_le_succ raw c0
    have m2 := firstSampleOf_mono raw (c := ca + 1) (c' := c0 + 1) (by omega)
    by_cases hk : c0 = cb
    · subst hk
      have e1 : b + 1 - loOf raw a (c0 + 1) = 0 := by unfold loOf; omega
      have e2 : hiOf raw b c0 = b + 1 := by unfold hiOf; omega
      rw [e1, e2]; simp
    · have m3 := firstSampleOf_mono raw (c := c0 + 1) (c' := cb) (by omega)
      have e : loOf raw a (c0 + 1) = loOf raw a c0 + 1 * (hiOf raw b c0 - loOf raw a c0) := by
        unfold loOf hiOf; omega
      rw [e, List.range'_append]
      congr 1
      unfold loOf hiOf; omega

theorem getOffset_eq (offs : List Nat) {c : Nat} (h1 : 1 ≤ c) (hc : c ≤ offs.length) :
    getOffset offs c = some (offs.getD (c - 1) 0) := by
  unfold getOffset
  rw [if_neg (by omega), List.getD_eq_getElem?_getD]
  have : c - 1 < offs.length := by omega
  simp [this]

/-! ### end helpers 6 -/

/-- `GetRangesForSampleInterval a b`: the concatenated ranges are exactly the bytes of samples a..b, in order
    (for a track whose samples number `sz.sampleNumber`, chunks `offs.length`) -/
theorem getRanges_spec (t : Tables) (raw : List (Nat × Nat × Nat)) (hraw : t.stsc = Stsc.ofRaw raw) (h : RawOK raw)
    (hw : NoWrap raw t.offsets.length)
    (hsz : (t.stsz.uniform = 0 → t.stsz.sizes.length = t.stsz.sampleNumber) ∧ (t.stsz.uniform ≠ 0 → t.stsz.sizes = []))
    (hN : firstSampleOf raw (t.offsets.length + 1) = t.stsz.sampleNumber + 1)
    (hbytes : ∀ c, 1 ≤ c → c ≤ t.offsets.length →
       t.offsets.getD (c - 1) 0 + t.stsz.sampleNumber * (if t.stsz.uniform ≠ 0 then t.stsz.uniform else t.stsz.sizes.foldl max 0) < U64)
    (a b : Nat) (h1 : 1 ≤ a) (hab : a ≤ b) (hb : b ≤ t.stsz.sampleNumber) :
    ∃ rs, t.getRanges a b = some rs ∧
      rs.flatMap positions =
        (List.range' a (b + 1 - a)).flatMap fun n =>
          positions (sampleOffset raw t.offsets t.stsz (chunkOfSample raw t.offsets.length n) n,
                     if t.stsz.uniform ≠ 0 then t.stsz.uniform else t.stsz.sizes.getD (n - 1) 0) := by
  have hL : 1 ≤ t.offsets.length := by
    have := fcAt_le_cmax hw (len_pos h); rw [fcAt_zero h] at this; exact this
  obtain ⟨ca, hca1, hcaL, ha1, ha2⟩ := exists_chunk raw _ hL a h1 (by rw [hN]; omega)
  obtain ⟨cb, hcb1, hcbL, hb1, hb2⟩ := exists_chunk raw _ hL b (by omega) (by rw [hN]; omega)
  have hcab : ca ≤ cb := by
    apply Nat.le_of_not_lt; intro hlt
    have := firstSampleOf_mono raw (c := cb + 1) (c' := ca) (by omega)
    omega
  have hgcc := getContainingChunks_spec raw h _ ca cb a b hw hca1 hab hcab hcbL ha1 ha2 hb1 hb2
  refine ⟨(List.range (cb + 1 - ca)).map (fun idx => rangeOf raw t.offsets t.stsz a b (ca + idx)), ?_, ?_⟩
  · unfold Tables.getRanges
    rw [if_neg (by unfold Stsz.nrSamples; omega), hraw, hgcc]
    simp only [Option.bind_eq_bind, Option.bind_some, List.length_map, List.length_range']
    apply mapM_some
    intro idx hidx
    rw [List.mem_range] at hidx
    have hc1 : 1 ≤ ca + idx := by omega
    have hcL : ca + idx ≤ t.offsets.length := by omega
    have h32 := hw.1
    have hget : (List.map (fun c => ({ chunkNr := c, startSampleNr := firstSampleOf raw c, nrSamples := spcOf raw c } : Chunk))
            (List.range' ca (cb + 1 - ca)))[idx]? =
        some ⟨ca + idx, firstSampleOf raw (ca + idx), spcOf raw (ca + idx)⟩ := by
      rw [List.getElem?_map, List.getElem?_range' hidx]; simp
    rw [hget]
    simp only [Option.bind_some, getOffset_eq t.offsets hc1 hcL]
    generalize hcdef : ca + idx = c at *
    have hsucc := firstSampleOf_succ raw hc1
    have hpos := firstSampleOf_pos raw c
    have hmN := firstSampleOf_mono raw (c := c + 1) (c' := t.offsets.length + 1) (by omega)
    have hm1 := firstSampleOf_mono raw (c := ca) (c' := c) (by omega)
    have hm2 := firstSampleOf_mono raw (c := c + 1) (c' := cb + 1) (by omega)
    have hbc := hbytes c hc1 hcL
    change t.offsets.getD (c - 1) 0 + t.stsz.sampleNumber * maxSize t.stsz < U64 at hbc
    have hlo : loOf raw a c = if idx = 0 then a else firstSampleOf raw c := by
      unfold loOf
      split
      · rename_i h0; have : c = ca := by omega
        subst this; omega
      · have := firstSampleOf_mono raw (c := ca + 1) (c' := c) (by omega)
        omega
    have hend : (if idx = cb + 1 - ca - 1 then b else (firstSampleOf raw c + spcOf raw c + U32 - 1) % U32) =
        hiOf raw b c - 1 := by
      unfold hiOf
      split
      · rename_i hl; have : c = cb := by omega
        subst this; omega
      · have := firstSampleOf_mono raw (c := c + 1) (c' := cb) (by omega)
        have := firstSampleOf_lt_U32 hw (c := c + 1) (by omega)
        rw [U32_eq] at *; omega
    have hhi1 : 1 ≤ hiOf raw b c := by unfold hiOf; omega
    have hhiN : hiOf raw b c ≤ t.stsz.sampleNumber + 1 := by unfold hiOf; omega
    have hloa : a ≤ loOf raw a c := by unfold loOf; omega
    have hsize : t.stsz.getTotalSampleSize (loOf raw a c) (hiOf raw b c - 1) =
        some (sumSizes t.stsz (loOf raw a c) (hiOf raw b c - loOf raw a c)) := by
      have := gtss t.stsz (s := loOf raw a c) (e := hiOf raw b c - 1) (by omega) (by omega)
      rw [show hiOf raw b c - 1 + 1 - loOf raw a c = hiOf raw b c - loOf raw a c by omega] at this
      apply this
      have := sumSizes_le' t.stsz (loOf raw a c) (hiOf raw b c - loOf raw a c) t.stsz.sampleNumber (by omega)
      omega
    have hup : t.stsz.getTotalSampleSize (firstSampleOf raw c) (a - 1) =
        some (sumSizes t.stsz (firstSampleOf raw c) (a - firstSampleOf raw c)) := by
      have := gtss t.stsz (s := firstSampleOf raw c) (e := a - 1) (by omega) (by omega)
      rw [show a - 1 + 1 - firstSampleOf raw c = a - firstSampleOf raw c by omega] at this
      apply this
      have := sumSizes_le' t.stsz (firstSampleOf raw c) (a - firstSampleOf raw c) t.stsz.sampleNumber (by omega)
      omega
    rw [hend]
    unfold rangeOf
    by_cases h0 : idx = 0
    · rw [if_pos h0] at hlo
      rw [if_pos h0, hup]
      simp only [Option.bind_some, Option.pure_def]
      rw [← hlo, hsize]
      simp only [Option.bind_some]
      have := sumSizes_le' t.stsz (firstSampleOf raw c) (loOf raw a c - firstSampleOf raw c) t.stsz.sampleNumber (by omega)
      rw [Nat.mod_eq_of_lt (by omega)]
      simp only [hlo]
    · rw [if_neg h0] at hlo
      rw [if_neg h0]
      simp only [Option.bind_some, Option.pure_def]
      rw [← hlo, hsize]
      simp only [Option.bind_some]
      rw [hlo, Nat.sub_self, sumSizes_zero, Nat.add_zero]
  · rw [List.flatMap_map]
    have e1 : (List.range (cb + 1 - ca)).flatMap (fun idx => positions (rangeOf raw t.offsets t.stsz a b (ca + idx))) =
        (List.range' ca (cb + 1 - ca)).flatMap (fun c => positions (rangeOf raw t.offsets t.stsz a b c)) := by
      rw [List.range'_eq_map_range, List.flatMap_map]
    rw [e1]
    have hloa : loOf raw a ca = a := by unfold loOf; omega
    have hsplit := split_samples raw (a := a) ha2 hb1 hb2 (cb + 1 - ca) ca (Nat.le_refl _) (by omega)
    rw [hloa] at hsplit
    rw [← hsplit, List.flatMap_assoc]
    apply flatMap_congr'
    intro c hc
    rw [List.mem_range'_1] at hc
    have hc1 : 1 ≤ c := by omega
    have hcL : c ≤ t.offsets.length := by omega
    have hlo : firstSampleOf raw c ≤ loOf raw a c := by unfold loOf; omega
    unfold rangeOf
    rw [chunk_positions t.stsz (t.offsets.getD (c - 1) 0) (firstSampleOf raw c) _ _ hlo]
    apply flatMap_congr'
    intro n hn
    rw [List.mem_range'_1] at hn
    have hn1 : firstSampleOf raw c ≤ n := by omega
    have hn2 : n < firstSampleOf raw (c + 1) := by
      have : n < hiOf raw b c := by omega
      unfold hiOf at this; omega
    rw [chunkOfSample_eq raw hc1 hcL hn1 hn2]
    rfl

end Mp4ff.Stbl

