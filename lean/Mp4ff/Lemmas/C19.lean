import Mp4ff.Model.Init
/-!
Proofs for C19 (init segments built through the API are consistent); restated in Props/C19.lean.
-/
namespace Mp4ff.Init

section Helpers
open Mp4ff.BoxTree

theorem loop_length (bs : ByteArray) : ∀ (n i : Nat) (r : List UInt8), bs.size - i = n →
    (ByteArray.toList.loop bs i r).length = r.length + n := by
  intro n
  induction n with
  | zero =>
    intro i r h
    rw [ByteArray.toList.loop.eq_1]
    have : ¬ i < bs.size := by omega
    simp [this]
  | succ n ih =>
    intro i r h
    rw [ByteArray.toList.loop.eq_1]
    have : i < bs.size := by omega
    simp only [this, if_true]
    rw [ih (i + 1) _ (by omega)]
    simp; omega

theorem str_length (s : String) : (str s).length = s.toUTF8.size := by
  simp only [str, List.length_map, ByteArray.toList]
  rw [loop_length _ _ 0 [] rfl]; simp

/-! lastTrakIdx -/

theorem lti_append (a b : List Child) : ∀ (i acc : Nat),
    lastTrakIdxFrom (a ++ b) i acc = lastTrakIdxFrom b (i + a.length) (lastTrakIdxFrom a i acc) := by
  induction a with
  | nil => intro i acc; simp [lastTrakIdxFrom]
  | cons x xs ih =>
    intro i acc
    simp only [List.cons_append, lastTrakIdxFrom, ih, List.length_cons]
    congr 1; omega

theorem lti_nontrak (a : List Child) (h : ∀ c ∈ a, c.isTrak = false) : ∀ (i acc : Nat),
    lastTrakIdxFrom a i acc = acc := by
  induction a with
  | nil => intro i acc; rfl
  | cons x xs ih =>
    intro i acc
    have hx : x.isTrak = false := h x (by simp)
    simp only [lastTrakIdxFrom, hx]
    exact ih (fun c hc => h c (by simp [hc])) _ _

theorem lti_traks (ts : List Trak) (hne : ts ≠ []) : ∀ (i acc : Nat),
    lastTrakIdxFrom (ts.map Child.trak) i acc = i + ts.length - 1 := by
  induction ts with
  | nil => exact absurd rfl hne
  | cons t ts ih =>
    intro i acc
    cases ts with
    | nil => simp [lastTrakIdxFrom, Child.isTrak]
    | cons t' ts' =>
      have := ih (by simp) (i + 1) i
      simp only [List.map_cons, lastTrakIdxFrom, Child.isTrak, if_true] at this ⊢
      rw [this]; simp only [List.length_cons]; omega

theorem lti_shape (pre : List Child) (ts : List Trak) (post : List Child)
    (hpre : ∀ c ∈ pre, c.isTrak = false) (hpost : ∀ c ∈ post, c.isTrak = false) :
    lastTrakIdx (pre ++ ts.map Child.trak ++ post) =
      if ts = [] then 0 else pre.length + ts.length - 1 := by
  unfold lastTrakIdx
  rw [lti_append, lti_append, lti_nontrak post hpost, lti_nontrak pre hpre]
  by_cases hts : ts = []
  · subst hts; simp [lastTrakIdxFrom]
  · rw [lti_traks ts hts]; simp [hts]

theorem childTraks_append (a b : List Child) : childTraks (a ++ b) = childTraks a ++ childTraks b := by
  simp [childTraks, List.filterMap_append]

theorem childTraks_map (ts : List Trak) : childTraks (ts.map Child.trak) = ts := by
  induction ts with
  | nil => rfl
  | cons t ts ih => simp only [childTraks, List.map_cons, List.filterMap_cons] at ih ⊢; rw [ih]

theorem childTraks_nontrak (a : List Child) (h : ∀ c ∈ a, c.isTrak = false) : childTraks a = [] := by
  induction a with
  | nil => rfl
  | cons x xs ih =>
    have hx : x.isTrak = false := h x (by simp)
    have := ih (fun c hc => h c (by simp [hc]))
    cases x <;> simp_all [childTraks, Child.isTrak]

theorem childTraks_shape (pre : List Child) (ts : List Trak) (post : List Child)
    (hpre : ∀ c ∈ pre, c.isTrak = false) (hpost : ∀ c ∈ post, c.isTrak = false) :
    childTraks (pre ++ ts.map Child.trak ++ post) = ts := by
  rw [childTraks_append, childTraks_append, childTraks_map, childTraks_nontrak pre hpre,
    childTraks_nontrak post hpost]; simp

theorem moovAddChild_nontrak (cs : List Child) (c : Child) (h : c.isTrak = false) :
    moovAddChild cs c = cs ++ [c] := by
  simp [moovAddChild, h]

theorem moovAddChild_trak_shape (pre : List Child) (ts : List Trak) (post : List Child) (t : Trak)
    (hne : pre ≠ [])
    (hpre : ∀ c ∈ pre, c.isTrak = false) (hpost : ∀ c ∈ post, c.isTrak = false) :
    moovAddChild (pre ++ ts.map Child.trak ++ post) (.trak t) =
      if ts = [] ∨ post = [] then pre ++ ts.map Child.trak ++ post ++ [.trak t]
      else pre ++ (ts ++ [t]).map Child.trak ++ post := by
  have hpl : 0 < pre.length := List.length_pos_iff.mpr hne
  simp only [moovAddChild, Child.isTrak, if_true]
  rw [lti_shape pre ts post hpre hpost]
  by_cases hts : ts = []
  · simp [hts]
  · have htl : 0 < ts.length := List.length_pos_iff.mpr hts
    simp only [hts, if_false, false_or]
    by_cases hp : post = []
    · subst hp
      have : pre.length + ts.length - 1 + 1 = (pre ++ List.map Child.trak ts ++ []).length := by
        simp; omega
      simp [this]
    · have hpo : 0 < post.length := List.length_pos_iff.mpr hp
      have h1 : pre.length + ts.length - 1 ≠ 0 := by omega
      have h2 : pre.length + ts.length - 1 + 1 ≠ (pre ++ List.map Child.trak ts ++ post).length := by
        simp; omega
      have h3 : (pre ++ List.map Child.trak ts).length = pre.length + ts.length - 1 + 1 := by
        simp; omega
      simp only [hp, if_false, h1, h2, ne_eq, not_false_eq_true, and_self, if_true]
      rw [List.take_left' h3, List.drop_left' h3]
      simp

/-- invariant of the builder state after the history `s0` -/
def Inv (st : St) (s0 : List TrackSpec) : Prop :=
  st.traks.map (·.id) = List.range' 1 s0.length ∧
  st.trexs = List.range' 1 s0.length ∧
  st.traks.map (·.spec) = s0 ∧
  st.next = (if s0 = [] then 2 else s0.length + 1) ∧
  st.children = [Child.mvhd, Child.mvex] ++ st.traks.map Child.trak

theorem inv_empty : Inv empty [] := by
  simp [Inv, empty]

theorem inv_step (st : St) (s0 : List TrackSpec) (sp : TrackSpec) (h : Inv st s0) :
    Inv (addEmptyTrack st sp) (s0 ++ [sp]) := by
  obtain ⟨h1, h2, h3, h4, h5⟩ := h
  have hlen : st.traks.length = s0.length := by
    have := congrArg List.length h3; simpa using this
  refine ⟨?_, ?_, ?_, ?_, ?_⟩
  · simp only [addEmptyTrack, List.map_append, h1, List.length_append, List.length_cons,
      List.length_nil, List.range'_concat, hlen, List.map_cons, List.map_nil]
    simp; omega
  · simp only [addEmptyTrack, h2, List.length_append, List.length_cons,
      List.length_nil, List.range'_concat, hlen]
    simp; omega
  · simp [addEmptyTrack, h3]
  · simp [addEmptyTrack, hlen]
  · simp only [addEmptyTrack, h5]
    have := moovAddChild_trak_shape [Child.mvhd, Child.mvex] st.traks [] ⟨st.traks.length + 1, sp⟩
      (by simp) (by simp [Child.isTrak]) (by simp)
    simp only [List.append_nil, or_true, if_true] at this
    rw [this]; simp

theorem inv_foldl (sps : List TrackSpec) : ∀ (st : St) (s0 : List TrackSpec), Inv st s0 →
    Inv (sps.foldl addEmptyTrack st) (s0 ++ sps) := by
  induction sps with
  | nil => intro st s0 h; simpa using h
  | cons sp sps ih =>
    intro st s0 h
    have := ih _ _ (inv_step st s0 sp h)
    simpa using this

theorem inv_build (specs : List TrackSpec) : Inv (build specs) specs := by
  have := inv_foldl specs empty [] inv_empty
  simpa [build] using this

theorem WFs_map {α : Type} (f : α → Tree) (l : List α) (h : ∀ x ∈ l, (f x).WF) : WFs (l.map f) := by
  induction l with
  | nil => simp [WFs]
  | cons x xs ih =>
    simp only [List.map_cons, WFs]
    exact ⟨h x (by simp), ih (fun y hy => h y (by simp [hy]))⟩

theorem leaf_wf (ty : String) (p : Bytes) (h : ty.toUTF8.size = 4) : (leaf ty p).WF := by
  simp only [leaf, Tree.WF, str_length, h]

theorem node_wf (ty : String) (cs : List Tree) (h : ty.toUTF8.size = 4) (hc : WFs cs) :
    (node ty cs).WF := by
  simp only [node, Tree.WF, str_length, h, hc, and_self]

theorem mediaHeaderOf_size (media : String) : (mediaHeaderOf media).toUTF8.size = 4 := by
  unfold mediaHeaderOf
  repeat' split
  all_goals decide

theorem mediaHeader_wf (media : String) : (mediaHeader media).WF := by
  unfold mediaHeader
  simp only
  repeat' split
  all_goals exact leaf_wf _ _ (mediaHeaderOf_size media)

theorem trak_wf (t : Trak) : (trak t).WF := by
  unfold trak
  simp only
  apply node_wf _ _ (by decide)
  simp only [WFs, and_true]
  refine ⟨leaf_wf _ _ (by decide), ?_⟩
  apply node_wf _ _ (by decide)
  simp only [List.cons_append, List.nil_append, WFs]
  refine ⟨leaf_wf _ _ (by decide), leaf_wf _ _ (by decide), ?_⟩
  have hminf : (node "minf" [mediaHeader t.spec.media,
        node "dinf" [leaf "dref" (z 4 ++ beBytes 4 1 ++ (leaf "url " [0, 0, 0, 1]).enc)],
        node "stbl" [stsd t.spec.entries, leaf "stts" (z 8), leaf "stsc" (z 8), leaf "stsz" (z 12),
          leaf "stco" (z 8)]]).WF := by
    apply node_wf _ _ (by decide)
    simp only [WFs, and_true]
    refine ⟨mediaHeader_wf _, ?_, ?_⟩
    · apply node_wf _ _ (by decide)
      simp only [WFs, and_true]
      exact leaf_wf _ _ (by decide)
    · apply node_wf _ _ (by decide)
      simp only [WFs, and_true, stsd]
      exact ⟨leaf_wf _ _ (by decide), leaf_wf _ _ (by decide), leaf_wf _ _ (by decide),
        leaf_wf _ _ (by decide), leaf_wf _ _ (by decide)⟩
  split <;> simp only [List.nil_append, List.cons_append, WFs, and_true]
  · exact ⟨leaf_wf _ _ (by decide), hminf⟩
  · exact hminf

end Helpers

/-- the traks form one contiguous block that does not start at index 0 -/
def Adjacent (cs : List Child) : Prop :=
  ∃ (pre : List Child) (ts : List Trak) (post : List Child), cs = pre ++ ts.map Child.trak ++ post ∧ pre ≠ [] ∧
    (∀ c ∈ pre, c.isTrak = false) ∧ (∀ c ∈ post, c.isTrak = false)

/-- **`MoovBox.AddChild` keeps the traks adjacent and in insertion order**, for every child list whose first child is
    not a trak (mvhd comes first in every moov the library builds) and every added child -/
theorem moovAddChild_adjacent (cs : List Child) (c : Child) (h : Adjacent cs) :
    Adjacent (moovAddChild cs c) ∧
    childTraks (moovAddChild cs c) = childTraks cs ++ (match c with | .trak t => [t] | _ => []) := by
  obtain ⟨pre, ts, post, rfl, hne, hpre, hpost⟩ := h
  have nontrak : ∀ c : Child, c.isTrak = false →
      Adjacent (moovAddChild (pre ++ ts.map Child.trak ++ post) c) ∧
      childTraks (moovAddChild (pre ++ ts.map Child.trak ++ post) c) =
        childTraks (pre ++ ts.map Child.trak ++ post) := by
    intro c hc
    rw [moovAddChild_nontrak _ _ hc]
    refine ⟨⟨pre, ts, post ++ [c], by simp, hne, hpre, ?_⟩, ?_⟩
    · intro x hx
      rcases List.mem_append.mp hx with hx | hx
      · exact hpost x hx
      · simp at hx; subst hx; exact hc
    · rw [childTraks_append, childTraks_nontrak [c] (by simpa using hc)]; simp
  cases c with
  | mvhd => simpa using nontrak .mvhd rfl
  | mvex => simpa using nontrak .mvex rfl
  | other ty => simpa using nontrak (.other ty) rfl
  | trak t =>
    rw [moovAddChild_trak_shape pre ts post t hne hpre hpost]
    simp only
    rw [childTraks_shape pre ts post hpre hpost]
    by_cases hc : ts = [] ∨ post = []
    · simp only [hc, if_true]
      rcases hc with hts | hp
      · subst hts
        refine ⟨⟨pre ++ post, [t], [], by simp, by simp [hne], ?_, by simp⟩, ?_⟩
        · intro x hx
          rcases List.mem_append.mp hx with hx | hx
          · exact hpre x hx
          · exact hpost x hx
        · rw [childTraks_append, childTraks_shape pre [] post hpre hpost]; rfl
      · subst hp
        refine ⟨⟨pre, ts ++ [t], [], by simp, hne, hpre, by simp⟩, ?_⟩
        rw [childTraks_append, childTraks_shape pre ts [] hpre hpost]; rfl
    · simp only [hc, if_false]
      exact ⟨⟨pre, ts ++ [t], post, rfl, hne, hpre, hpost⟩, childTraks_shape pre _ post hpre hpost⟩

/-- the same for any sequence of added children -/
theorem moovAddChildren_adjacent (cs : List Child) (add : List Child) (h : Adjacent cs) :
    Adjacent (add.foldl moovAddChild cs) ∧
    childTraks (add.foldl moovAddChild cs) = childTraks cs ++ childTraks add := by
  induction add generalizing cs with
  | nil => simp [h, childTraks]
  | cons a as ih =>
    have ⟨h1, h2⟩ := moovAddChild_adjacent cs a h
    have ⟨h3, h4⟩ := ih (moovAddChild cs a) h1
    refine ⟨h3, ?_⟩
    simp only [List.foldl_cons]
    rw [h4, h2, List.append_assoc]
    congr 1
    cases a <;> simp [childTraks]

/-- **ids 1..n, one trex per track with the same id, next id = n + 1 above all of them**, for every history -/
theorem build_ids (specs : List TrackSpec) :
    (build specs).traks.map (·.id) = List.range' 1 specs.length ∧
    (build specs).trexs = List.range' 1 specs.length ∧
    (build specs).traks.map (·.spec) = specs ∧
    (build specs).next = (if specs = [] then 2 else specs.length + 1) ∧
    (∀ t ∈ (build specs).traks, 1 ≤ t.id ∧ t.id < (build specs).next) ∧
    ((build specs).traks.map (·.id)).Nodup := by
  obtain ⟨h1, h2, h3, h4, _⟩ := inv_build specs
  refine ⟨h1, h2, h3, h4, ?_, ?_⟩
  · intro t ht
    have hm : t.id ∈ (build specs).traks.map (·.id) := List.mem_map.mpr ⟨t, ht, rfl⟩
    rw [h1, List.mem_range'] at hm
    obtain ⟨i, hi, he⟩ := hm
    rw [h4]
    split <;> simp_all <;> omega
  · rw [h1]; exact List.nodup_range' 1

/-- **moov children: mvhd, mvex, then the traks in id order** (adjacent), for every history -/
theorem build_children (specs : List TrackSpec) :
    (build specs).children = [Child.mvhd, Child.mvex] ++ (build specs).traks.map Child.trak :=
  (inv_build specs).2.2.2.2

/-- **three-letter codes survive the 15-bit mdhd packing** -/
theorem lang_roundtrip (a b c : Nat) (ha : 97 ≤ a ∧ a ≤ 122) (hb : 97 ≤ b ∧ b ≤ 122) (hc : 97 ≤ c ∧ c ≤ 122) :
    unpackLang (packLang [a, b, c]) = [a, b, c] ∧ packLang [a, b, c] < 2 ^ 15 := by
  simp only [unpackLang, packLang]
  refine ⟨?_, by omega⟩
  congr 1
  · omega
  · congr 1
    · omega
    · congr 1; omega

/-- every box of the encoded init is well-formed (4-byte types) so the C02 size theorems apply to it -/
theorem init_tree_wf (st : St) (h : ∀ c ∈ st.children, ∀ ty, c = Child.other ty → (str ty).length = 4) :
    ftyp.WF ∧ (node "moov" (st.children.map (childTree st))).WF := by
  refine ⟨leaf_wf _ _ (by decide), ?_⟩
  apply node_wf _ _ (by decide)
  apply WFs_map
  intro c hc
  cases c with
  | mvhd => exact leaf_wf _ _ (by decide)
  | mvex =>
    apply node_wf _ _ (by decide)
    apply WFs_map
    intro id _
    exact leaf_wf _ _ (by decide)
  | trak t => exact trak_wf t
  | other ty =>
    have := h _ hc ty rfl
    simpa only [childTree, leaf, BoxTree.Tree.WF] using this

end Mp4ff.Init
