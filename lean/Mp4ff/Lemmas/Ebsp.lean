import Mp4ff.Lemmas.Esc
namespace Mp4ff.Bits

/-- the EBSP writer is the plain writer with its output escaped -/
def EWRel (e : EW) (w : BW) : Prop :=
  e.n = w.n ∧ e.v = w.v ∧ e.out = esc 0 w.out ∧ e.nr0 = escState 0 w.out

theorem EW.emit_eq (out : Bytes) (b : Nat) :
    EW.emit (escState 0 out) (esc 0 out) b = (escState 0 (out ++ [b]), esc 0 (out ++ [b])) := by
  rw [esc_append, escState_append]
  unfold EW.emit
  simp only [esc, escState]
  generalize escState 0 out = z
  generalize esc 0 out = o
  by_cases hz : z = 2 <;> by_cases hb3 : b ≤ 3 <;> by_cases hb : b = 0 <;> simp [hz, hb3, hb]

theorem EW.drain_refines (v : Nat) : ∀ (n : Nat) (out : Bytes),
    EW.drain v n (escState 0 out) (esc 0 out) =
      ((BW.drain v n out).1, escState 0 (BW.drain v n out).2, esc 0 (BW.drain v n out).2) := by
  intro n
  induction n using Nat.strongRecOn with
  | _ n ih =>
    intro out
    unfold EW.drain BW.drain
    by_cases h : n ≥ 8
    · simp only [h, dite_true]
      rw [EW.emit_eq]
      exact ih (n - 8) (by omega) _
    · simp only [h, dite_false]

theorem EW.write_refines (e : EW) (w : BW) (h : EWRel e w) (bits k : Nat) :
    EWRel (e.write bits k) (w.write bits k) := by
  obtain ⟨h1, h2, h3, h4⟩ := h
  unfold EW.write BW.write
  rw [h1, h2, h3, h4]
  simp only [EW.drain_refines]
  exact ⟨rfl, rfl, rfl, rfl⟩

theorem EWRel.init : EWRel {} {} := ⟨rfl, rfl, rfl, rfl⟩

theorem EW.writeAll_refines (ops : List (Nat × Nat)) : ∀ (e : EW) (w : BW), EWRel e w →
    EWRel (e.writeAll ops) (w.writeAll ops) := by
  induction ops with
  | nil => intro e w h; exact h
  | cons kv rest ih =>
    intro e w h
    obtain ⟨k, v⟩ := kv
    exact ih _ _ (EW.write_refines e w h v k)

/-! ### reader -/

/-- reader state over an escaped stream: `P` is the un-escaped payload still to come -/
def ER.Inv (e : ER) (P : Bytes) : Prop :=
  e.n < 8 ∧ e.v < 2 ^ e.n ∧ IsBytes P ∧ e.err = false ∧ e.zeroCount ≤ 2 ∧ e.rest = esc e.zeroCount P

def ER.abs (e : ER) (P : Bytes) : List Bool := lowBits e.n e.v ++ bitsOfBytes P

theorem ER.fill_spec (k : Nat) (hk : k ≤ 56) : ∀ (fuel n v nread zc : Nat) (P : Bytes),
    v < 2 ^ n → n < k + 8 → IsBytes P → zc ≤ 2 → k ≤ n + 8 * P.length → k ≤ n + 8 * fuel →
    ∃ n' v' nread' zc' P', ER.fill k fuel n v nread zc (esc zc P) = .ok (n', v', nread', zc', esc zc' P') ∧
      k ≤ n' ∧ n' < k + 8 ∧ v' < 2 ^ n' ∧ IsBytes P' ∧ zc' ≤ 2 ∧
      lowBits n' v' ++ bitsOfBytes P' = lowBits n v ++ bitsOfBytes P ∧
      nread' + (esc zc' P').length = nread + (esc zc P).length := by
  intro fuel
  induction fuel with
  | zero =>
    intro n v nread zc P hv hn8 hr hz _ hf
    have : ¬ (n < k) := by omega
    exact ⟨n, v, nread, zc, P, by simp [ER.fill, this], by omega, hn8, hv, hr, hz, rfl, rfl⟩
  | succ fuel ih =>
    intro n v nread zc P hv hn8 hr hz hlen hf
    unfold ER.fill
    by_cases hnk : n < k
    · simp only [hnk, if_true]
      cases P with
      | nil => simp at hlen; omega
      | cons b P' =>
        have hb : b < 256 := hr b (by simp)
        have hr' : IsBytes P' := fun x hx => hr x (by simp [hx])
        have hno : (v <<< 8) % W64 = v <<< 8 := by
          apply Nat.mod_eq_of_lt
          have h1 := shl_lt (k := 8) hv
          have h2 : (2:Nat) ^ (n + 8) ≤ 2 ^ 64 := Nat.pow_le_pow_right (by decide) (by omega)
          unfold W64; omega
        rw [hno]
        have hv1 : (v <<< 8) ||| b < 2 ^ (n + 8) := by
          apply Nat.or_lt_two_pow (shl_lt hv)
          exact Nat.lt_of_lt_of_le hb (by
            have : (256:Nat) = 2 ^ 8 := by decide
            rw [this]; exact Nat.pow_le_pow_right (by decide) (by omega))
        have hlen' : k ≤ n + 8 + 8 * P'.length := by simp at hlen; omega
        by_cases hesc : zc = 2 ∧ b ≤ 3
        · -- escaped: stream is 03 b …
          obtain ⟨n', v', nread', zc', P'', he, h1, h2, h3, h4, h4z, h5, h6⟩ :=
            ih (n + 8) ((v <<< 8) ||| b) (nread + 2) (if b = 0 then 1 else 0) P' hv1 (by omega) hr'
              (by split <;> omega) hlen' (by omega)
          refine ⟨n', v', nread', zc', P'', ?_, h1, h2, h3, h4, h4z, ?_, ?_⟩
          · simp only [esc, hesc, and_self, if_true]
            have : (if b ≠ 0 then 0 else 1) = (if b = 0 then 1 else 0) := by
              by_cases hb0 : b = 0 <;> simp [hb0]
            rw [this]; exact he
          · rw [h5, shl_or_bits (by simpa using hb)]
            simp [bitsOfBytes]
          · simp only [esc, hesc, and_self, if_true, List.length_cons]
            omega
        · obtain ⟨n', v', nread', zc', P'', he, h1, h2, h3, h4, h4z, h5, h6⟩ :=
            ih (n + 8) ((v <<< 8) ||| b) (nread + 1) (if b = 0 then zc + 1 else 0) P' hv1 (by omega) hr'
              (by
                split
                · rename_i hb0
                  subst hb0
                  by_cases h2 : zc = 2
                  · exact absurd ⟨h2, by decide⟩ hesc
                  · omega
                · omega) hlen' (by omega)
          refine ⟨n', v', nread', zc', P'', ?_, h1, h2, h3, h4, h4z, ?_, ?_⟩
          · simp only [esc, hesc, if_false]
            have hne : ¬ (zc = 2 ∧ b = 3) := by
              intro ⟨a1, a2⟩; exact hesc ⟨a1, by omega⟩
            simp only [hne, if_false]
            have : (if b ≠ 0 then 0 else zc + 1) = (if b = 0 then zc + 1 else 0) := by
              by_cases hb0 : b = 0 <;> simp [hb0]
            rw [this]; exact he
          · rw [h5, shl_or_bits (by simpa using hb)]
            simp [bitsOfBytes]
          · simp only [esc, hesc, if_false, List.length_cons]
            omega
    · simp only [hnk, if_false]
      exact ⟨n, v, nread, zc, P, rfl, by omega, hn8, hv, hr, hz, rfl, rfl⟩

/-- `EBSPReader.Read(k)` on a stream produced by escaping: the next `k` payload bits, and the
    byte counter advances by the bytes of the *escaped* stream that were consumed -/
theorem ER.read_spec (e : ER) (P : Bytes) (k : Nat) (he : e.Inv P) (hk : k ≤ 56)
    (havail : k ≤ (e.abs P).length) :
    ∃ P', (e.read k).1.Inv P' ∧ (e.read k).1.abs P' = (e.abs P).drop k ∧
      lowBits k (e.read k).2 = (e.abs P).take k ∧ (e.read k).2 < 2 ^ k ∧
      (e.read k).1.nread + (e.read k).1.rest.length = e.nread + e.rest.length := by
  obtain ⟨hn, hv, hP, herr, hz, hrest⟩ := he
  have hlen : k ≤ e.n + 8 * P.length := by simpa [ER.abs] using havail
  obtain ⟨n', v', nread', zc', P', hf, h1, h2, h3, h4, h4z, h5, h6⟩ :=
    ER.fill_spec k hk (k / 8 + 1) e.n e.v e.nread e.zeroCount P hv (by omega) hP hz hlen (by omega)
  refine ⟨P', ?_⟩
  unfold ER.read
  rw [hrest]
  simp only [herr, Bool.false_eq_true, if_false, hf]
  have hsplit : n' = k + (n' - k) := by omega
  have habs : e.abs P = lowBits k (v' >>> (n' - k)) ++ (lowBits (n' - k) v' ++ bitsOfBytes P') := by
    rw [ER.abs, ← h5, ← List.append_assoc]
    congr 1
    conv => lhs; rw [hsplit]
    exact lowBits_append k (n' - k) v'
  refine ⟨⟨show n' - k < 8 by omega, and_mask_lt _ _, h4, rfl, h4z, rfl⟩, ?_, ?_, ?_, h6⟩
  · simp only [ER.abs]
    rw [lowBits_and_mask (Nat.le_refl _)]
    have : (lowBits e.n e.v ++ bitsOfBytes P) = e.abs P := rfl
    rw [this, habs, List.drop_left' (by simp)]
  · rw [habs, List.take_left' (by simp)]
  · rw [Nat.shiftRight_eq_div_pow]
    apply Nat.div_lt_of_lt_mul
    rw [← Nat.pow_add]
    have : n' - k + k = n' := by omega
    rw [this]; exact h3

end Mp4ff.Bits
