import Mp4ff.Model.Sei
import Mp4ff.Lemmas.C13Seq
/-!
Byte-level view of the writers for whole-byte writes (SEI framing): a byte-aligned plain writer just
appends bytes; the EBSP writer produces their escaping.
-/
namespace Mp4ff.Bits

/-- bytes are determined by their bits -/
theorem bitsOfBytes_inj : ∀ (a b : Bytes), IsBytes a → IsBytes b → bitsOfBytes a = bitsOfBytes b → a = b := by
  intro a
  induction a with
  | nil =>
    intro b _ _ h
    cases b with
    | nil => rfl
    | cons y ys =>
      have := congrArg List.length h
      simp [bitsOfBytes] at this
      omega
  | cons x xs ih =>
    intro b ha hb h
    cases b with
    | nil =>
      have := congrArg List.length h
      simp [bitsOfBytes] at this
    | cons y ys =>
      simp only [bitsOfBytes] at h
      have h2 := List.append_inj h (by simp)
      have hx : x < 2 ^ 8 := ha x (by simp)
      have hy : y < 2 ^ 8 := hb y (by simp)
      have hxy := eq_of_lowBits_eq hx hy h2.1
      have := ih ys (fun z hz => ha z (by simp [hz])) (fun z hz => hb z (by simp [hz])) h2.2
      rw [hxy, this]

theorem IsBytes.append {a b : Bytes} (ha : IsBytes a) (hb : IsBytes b) : IsBytes (a ++ b) := by
  intro x hx
  simp only [List.mem_append] at hx
  rcases hx with h | h
  · exact ha x h
  · exact hb x h

theorem IsBytes.tail {b : Nat} {a : Bytes} (h : IsBytes (b :: a)) : IsBytes a :=
  fun x hx => h x (by simp [hx])

theorem IsBytes.of_append_right {a b : Bytes} (h : IsBytes (a ++ b)) : IsBytes b :=
  fun x hx => h x (by simp [hx])

theorem IsBytes.of_append_left {a b : Bytes} (h : IsBytes (a ++ b)) : IsBytes a :=
  fun x hx => h x (by simp [hx])

/-- byte-aligned plain writer that has handed out exactly `bs` -/
def BW.Aligned (w : BW) (bs : Bytes) : Prop := w.Inv ∧ w.n = 0 ∧ w.out = bs

theorem BW.Aligned.write8 {w : BW} {bs : Bytes} (h : w.Aligned bs) (b : Nat) (hb : b < 256) :
    (w.write b 8).Aligned (bs ++ [b]) := by
  obtain ⟨hi, hn, ho⟩ := h
  have hs := BW.write_spec w b 8 hi (by decide)
  have hn' : (w.write b 8).n = 0 := by rw [BW.write_n, hn]
  refine ⟨hs.1, hn', ?_⟩
  have habs := hs.2
  simp only [BW.abs, hn', hn, lowBits, List.append_nil] at habs
  apply bitsOfBytes_inj _ _ hs.1.2.2
  · rw [← ho]
    exact IsBytes.append hi.2.2 (by intro x hx; simp at hx; omega)
  · rw [habs, bitsOfBytes_append, ho]
    simp [bitsOfBytes, lowBits]

theorem BW.Aligned.trailing {w : BW} {bs : Bytes} (h : w.Aligned bs) :
    w.trailing.Aligned (bs ++ [0x80]) := by
  obtain ⟨hi, hn, ho⟩ := h
  have h1 := BW.write_spec w 1 1 hi (by decide)
  have hn1 : (w.write 1 1).n = 1 := by rw [BW.write_n, hn]
  have h2 := BW.write_spec (w.write 1 1) 0 7 h1.1 (by decide)
  have hn2 : ((w.write 1 1).write 0 7).n = 0 := by rw [BW.write_n, hn1]
  have ht : w.trailing = (w.write 1 1).write 0 7 := by
    unfold BW.trailing
    simp [hn1]
  rw [ht]
  refine ⟨h2.1, hn2, ?_⟩
  have habs := h2.2
  rw [h1.2] at habs
  simp only [BW.abs, hn2, hn, lowBits, List.append_nil] at habs
  apply bitsOfBytes_inj _ _ h2.1.2.2
  · rw [← ho]
    exact IsBytes.append hi.2.2 (by intro x hx; simp at hx; omega)
  · rw [habs, bitsOfBytes_append, ho]
    simp [bitsOfBytes, lowBits]
    decide

theorem BW.Aligned.init : ({} : BW).Aligned [] := ⟨BW.init_inv, rfl, rfl⟩

/-- EBSP writer in a byte-aligned state whose un-escaped output is `bs` -/
def EW.Aligned (e : EW) (bs : Bytes) : Prop := ∃ w : BW, EWRel e w ∧ w.Aligned bs

theorem EW.Aligned.init : ({} : EW).Aligned [] := ⟨{}, EWRel.init, BW.Aligned.init⟩

theorem EW.Aligned.write8 {e : EW} {bs : Bytes} (h : e.Aligned bs) (b : Nat) (hb : b < 256) :
    (e.write b 8).Aligned (bs ++ [b]) := by
  obtain ⟨w, hr, ha⟩ := h
  exact ⟨w.write b 8, EW.write_refines e w hr b 8, ha.write8 b hb⟩

theorem EW.Aligned.trailing {e : EW} {bs : Bytes} (h : e.Aligned bs) :
    e.writeRbspTrailingBits.out = esc 0 (bs ++ [0x80]) := by
  obtain ⟨w, hr, ha⟩ := h
  have h1 := EW.trailing_refines e w hr
  have h2 := ha.trailing
  rw [h1.2.2.1, h2.2.2]

theorem EW.Aligned.writeBytes {bs : Bytes} (pl : Bytes) : ∀ {e : EW}, e.Aligned bs → IsBytes pl →
    (pl.foldl (fun w b => w.write b 8) e).Aligned (bs ++ pl) := by
  induction pl generalizing bs with
  | nil => intro e h _; simpa using h
  | cons b pl ih =>
    intro e h hp
    simp only [List.foldl_cons]
    have := ih (h.write8 b (hp b (by simp))) (IsBytes.tail hp)
    simpa using this

end Mp4ff.Bits

namespace Mp4ff.Sei
open Mp4ff.Bits

/-- the bytes `WriteSEIValue` produces -/
def seiValueBytes (v : Nat) : Bytes := List.replicate (v / 255) 0xff ++ [v % 255]

theorem seiValueBytes_isBytes (v : Nat) : IsBytes (seiValueBytes v) := by
  intro x hx
  simp only [seiValueBytes, List.mem_append, List.mem_replicate, List.mem_singleton] at hx
  rcases hx with h | h
  · omega
  · omega

theorem seiValueBytes_ge (v : Nat) (h : v ≥ 255) : seiValueBytes v = 0xff :: seiValueBytes (v - 255) := by
  unfold seiValueBytes
  have h1 : v / 255 = (v - 255) / 255 + 1 := by omega
  have h2 : v % 255 = (v - 255) % 255 := by omega
  rw [h1, h2, List.replicate_succ]
  rfl

theorem seiValueBytes_lt (v : Nat) (h : ¬ v ≥ 255) : seiValueBytes v = [v] := by
  unfold seiValueBytes
  have h1 : v / 255 = 0 := by omega
  have h2 : v % 255 = v := by omega
  rw [h1, h2]
  rfl

theorem EW.Aligned.writeSEIValue (v : Nat) : ∀ {e : EW} {bs : Bytes}, e.Aligned bs →
    (e.writeSEIValue v).Aligned (bs ++ seiValueBytes v) := by
  induction v using Nat.strongRecOn with
  | _ v ih =>
    intro e bs h
    unfold EW.writeSEIValue
    by_cases hv : v ≥ 255
    · simp only [hv, dite_true]
      have := ih (v - 255) (by omega) (h.write8 0xff (by decide))
      rw [seiValueBytes_ge v hv]
      simpa using this
    · simp only [hv, dite_false]
      rw [seiValueBytes_lt v hv]
      exact h.write8 v (by omega)

/-- un-escaped bytes of one message -/
def msgBytes (m : Msg) : Bytes := seiValueBytes m.type ++ (seiValueBytes m.payload.length ++ m.payload)

def msgsBytes : List Msg → Bytes
  | [] => []
  | m :: ms => msgBytes m ++ msgsBytes ms

theorem writeSEI_fold (msgs : List Msg) (hok : ∀ m ∈ msgs, IsBytes m.payload) : ∀ {e : EW} {bs : Bytes},
    e.Aligned bs →
    (msgs.foldl (fun (w : EW) m =>
      let w := w.writeSEIValue m.type
      let w := w.writeSEIValue m.payload.length
      m.payload.foldl (fun w b => w.write b 8) w) e).Aligned (bs ++ msgsBytes msgs) := by
  induction msgs with
  | nil => intro e bs h; simpa [msgsBytes] using h
  | cons m ms ih =>
    intro e bs h
    simp only [List.foldl_cons]
    have h1 := EW.Aligned.writeSEIValue m.type h
    have h2 := EW.Aligned.writeSEIValue m.payload.length h1
    have h3 := EW.Aligned.writeBytes m.payload h2 (hok m (by simp))
    have := ih (fun x hx => hok x (by simp [hx])) h3
    simpa [msgsBytes, msgBytes] using this

theorem writeSEI_eq (msgs : List Msg) (hok : ∀ m ∈ msgs, IsBytes m.payload) :
    writeSEI msgs = esc 0 (msgsBytes msgs ++ [0x80]) := by
  unfold writeSEI
  have := writeSEI_fold msgs hok EW.Aligned.init
  simpa using this.trailing

end Mp4ff.Sei
