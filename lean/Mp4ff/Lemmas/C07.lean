import Mp4ff.Model.Cenc
import Mp4ff.Lemmas.C14Conv
import Mp4ff.Lemmas.CencRanges
import Mp4ff.Lemmas.CencCipher
set_option linter.unusedVariables false
/-!
C07/C06 Common Encryption: statements and proofs (helpers in CencRanges.lean, CencCipher.lean).
-/
namespace Mp4ff.Cenc
open Mp4ff.Nalu

/-- `AppendProtectRange` keeps the byte counts, never emits a clear count above 65535, and only the last entry
    carries the protected bytes -/
theorem appendProtectRange_spec (l : List SubSample) (c p : Nat) :
    ∃ ext, appendProtectRange l c p = l ++ ext ∧ (ext.map (·.clear)).sum = c ∧ (ext.map (·.prot)).sum = p ∧
      (∀ r ∈ ext, r.clear ≤ 65535) ∧ maskOf ext = List.replicate c false ++ List.replicate p true := by
  obtain ⟨ext, h1, h2, h3, h4, _, h6⟩ := appendProtectRange_spec' p c l
  exact ⟨ext, h1, h2, h3, h4, h6⟩

/-- `maskOf` distributes over append -/
theorem maskOf_append (a b : List SubSample) : maskOf (a ++ b) = maskOf a ++ maskOf b := by
  exact maskOf_append' a b

/-- **cenc sub-sample map of a well-formed sample** (length-prefixed, non-empty NAL units, total < 2^32), AVC or HEVC:
    the entries partition the sample exactly and protect, per byte, exactly what the standard asks: NAL length fields,
    NAL headers, non-video units and the first 92..107 bytes of a long video unit stay clear, the rest of a video unit
    of at least 108 bytes is protected to its end in whole 16-byte blocks -/
theorem protectRanges_cenc (c : Codec) (ns : List Bytes) (h : NalusOK ns) (hne : ns ≠ []) :
    ∃ rs, protectRanges c none (lenPrefixed ns) = some rs ∧ maskOf rs = cencMask c ns ∧
      (∀ r ∈ rs, r.clear ≤ 65535 ∧ r.prot % 16 = 0) := by
  exact protectRanges_cenc' c ns h hne

/-- shape of the cenc mask for one unit: protected part is a multiple of 16, ends at the unit's end, and for a unit
    longer than 127 bytes starts at most 127 bytes into the unit -/
theorem cencProt_shape (c : Codec) (n : Bytes) :
    cencProt c n % 16 = 0 ∧ cencProt c n ≤ n.length ∧
    (c.isVideo (c.typeOf (n.headD 0)) = true → n.length > 127 → n.length - cencProt c n ≤ 127 ∧ 0 < cencProt c n) ∧
    (c.isVideo (c.typeOf (n.headD 0)) = false → cencProt c n = 0) := by
  exact cencProt_shape' c n

/-- `incrementIV` is big-endian addition of the block count modulo 2^(8·len) -/
theorem incrementIV_spec (iv : Bytes) (hiv : IsBytes iv) (ranges : List SubSample) (len : Nat) :
    (incrementIV iv ranges len).length = iv.length ∧
    beVal (incrementIV iv ranges len) = (beVal iv + nrEncBlocks ranges len) % 256 ^ iv.length := by
  exact incrementIV_spec' iv hiv ranges len

/-- xor twice is the identity on bytes -/
theorem xorBytes_involutive (a k : Bytes) (ha : IsBytes a) (hk : IsBytes k) (hl : a.length ≤ k.length) :
    xorBytes (xorBytes a k) k = a := by
  exact xorBytes_xorBytes a k hl

/-- the sub-sample entries fit the sample -/
def RangesFit (ranges : List SubSample) (n : Nat) : Prop := ((ranges.map fun r => r.clear + r.prot).sum) ≤ n

/-- **CTR is its own inverse over the same sub-sample map and IV** (C06 for cenc), for any block function whose
    outputs are 16 bytes -/
theorem cryptCenc_involutive (E : Block → Block) (hE : ∀ b, (E b).length = 16 ∧ IsBytes (E b))
    (sample iv : Bytes) (hs : IsBytes sample) (ranges : List SubSample) (hf : RangesFit ranges sample.length) :
    cryptCenc E (cryptCenc E sample iv ranges) iv ranges = sample := by
  unfold cryptCenc
  by_cases hr : ranges = []
  · simp only [hr, if_true]
    have hl : (xorBytes sample (keystream E iv 0 sample.length)).length = sample.length := by
      simp [xorBytes_length, keystream_length]
    rw [hl]
    exact xorBytes_xorBytes _ _ (by simp [keystream_length])
  · simp only [hr, if_false]
    exact cryptCenc_go_involutive E iv ranges 0 sample hf

/-- **only protected bytes change** (C07): bytes outside the protected ranges are identical to the clear input -/
theorem cryptCenc_clear_unchanged (E : Block → Block) (hE : ∀ b, (E b).length = 16)
    (sample iv : Bytes) (ranges : List SubSample) (hne : ranges ≠ []) (hf : RangesFit ranges sample.length)
    (i : Nat) (hi : i < sample.length) (hm : (maskOf ranges).getD i false = false) :
    (cryptCenc E sample iv ranges)[i]? = sample[i]? ∧ (cryptCenc E sample iv ranges).length = sample.length := by
  unfold cryptCenc
  simp only [hne, if_false]
  obtain ⟨h1, h2⟩ := cryptCenc_go_clear E iv ranges 0 sample hf
  exact ⟨h2 i hm, h1⟩

/-- CBC decryption inverts CBC encryption when `D` inverts `E` -/
theorem cbcDec_cbcEnc (E D : Block → Block) (hED : ∀ b, b.length = 16 → IsBytes b → D (E b) = b)
    (hE : ∀ b, (E b).length = 16 ∧ IsBytes (E b))
    (chain data : Bytes) (hc : chain.length = 16) (hcb : IsBytes chain) (hd : IsBytes data) (hl : data.length % 16 = 0) :
    (cbcDec D chain (cbcEnc E chain data).1).1 = data := by
  have := (cbc_roundtrip_aux E D hED hE (data.length / 16) chain data hc hcb hd (by omega)).2.2.2.2
  rw [this]

/-- **cbcs pattern cipher round trip** (C06 for cbcs): decrypt ∘ encrypt = id for every crypt/skip pattern whose
    byte counts are multiples of 16 (the 1:9 video pattern, the unpatterned audio case, …), any data length -/
theorem cbcsCrypt_roundtrip (E D : Block → Block) (hED : ∀ b, b.length = 16 → IsBytes b → D (E b) = b)
    (hE : ∀ b, (E b).length = 16 ∧ IsBytes (E b))
    (data iv : Bytes) (hiv : iv.length = 16) (hivb : IsBytes iv) (hd : IsBytes data) (crypt skip : Nat)
    (hc : crypt % 16 = 0) (hs : skip % 16 = 0) :
    cbcsCrypt (cbcDec D) (cbcsCrypt (cbcEnc E) data iv crypt skip) iv crypt skip = data := by
  by_cases h0 : skip = 0
  · subst h0
    have hn : (data.take (data.length / 16 * 16)).length = 16 * (data.length / 16) := by
      simp; omega
    obtain ⟨e1, _, _, _, e5⟩ := cbc_roundtrip_aux E D hED hE (data.length / 16) iv
      (data.take (data.length / 16 * 16)) hiv hivb (cc_isBytes_take hd _) hn
    have e1' : (cbcEnc E iv (data.take (data.length / 16 * 16))).1.length = data.length / 16 * 16 := by
      rw [e1, hn]; omega
    rw [cbcsCrypt_skip0 (cbcEnc E)]
    have hlen : ((cbcEnc E iv (data.take (data.length / 16 * 16))).1 ++ data.drop (data.length / 16 * 16)).length
        = data.length := by
      simp only [List.length_append, e1', List.length_drop]; omega
    rw [cbcsCrypt_skip0 (cbcDec D), hlen, cc_take_append_len _ _ _ e1', cc_drop_append_len _ _ _ e1', e5]
    exact List.take_append_drop _ _
  · have hs16 : 16 ≤ skip := by omega
    obtain ⟨hl, hr⟩ := pat_roundtrip E D hED hE crypt skip hc hs16 (data.length + 2) iv data hiv hivb hd (by omega)
    rw [cbcsCrypt_eq_pat (cbcEnc E) data iv crypt skip h0, cbcsCrypt_eq_pat (cbcDec D) _ iv crypt skip h0, hl, hr]

end Mp4ff.Cenc
