import Mp4ff.Model.Cenc
import Mp4ff.Lemmas.C14Conv
import Mp4ff.Lemmas.CencNaluFacts
/-! helper lemmas for C07: `appendProtectRange`, `maskOf`, `protectRanges` (cenc), `cencProt`, `incrementIV` -/
namespace Mp4ff.Cenc
open Mp4ff.Nalu

/-! ## maskOf -/

theorem maskOf_append' (a b : List SubSample) : maskOf (a ++ b) = maskOf a ++ maskOf b := by
  induction a with
  | nil => simp [maskOf]
  | cons r rest ih => simp [maskOf, ih]

theorem maskOf_single (c p : Nat) : maskOf [⟨c, p⟩] = List.replicate c false ++ List.replicate p true := by
  simp [maskOf]

/-! ## appendProtectRange -/

theorem appendProtectRange_spec' (p : Nat) : ∀ (c : Nat) (l : List SubSample),
    ∃ ext, appendProtectRange l c p = l ++ ext ∧ (ext.map (·.clear)).sum = c ∧ (ext.map (·.prot)).sum = p ∧
      (∀ r ∈ ext, r.clear ≤ 65535) ∧ (∀ r ∈ ext, r.prot = 0 ∨ r.prot = p) ∧
      maskOf ext = List.replicate c false ++ List.replicate p true := by
  intro c
  induction c using Nat.strongRecOn with
  | _ c ih =>
    intro l
    rw [appendProtectRange]
    split
    · rename_i hc
      obtain ⟨ext, he, h1, h2, h3, h4, h5⟩ := ih (c - 65535) (by omega) (l ++ [⟨65535, 0⟩])
      refine ⟨⟨65535, 0⟩ :: ext, by simp [he], ?_, ?_, ?_, ?_, ?_⟩
      · simp only [List.map_cons, List.sum_cons, h1]; omega
      · simp only [List.map_cons, List.sum_cons, h2]; omega
      · intro r hr
        rcases List.mem_cons.mp hr with rfl | hr
        · exact Nat.le_refl _
        · exact h3 r hr
      · intro r hr
        rcases List.mem_cons.mp hr with rfl | hr
        · exact Or.inl rfl
        · exact h4 r hr
      · have e : c = 65535 + (c - 65535) := by omega
        generalize 65535 = k at e h5 ⊢
        simp only [maskOf, h5, List.replicate_zero, List.append_nil]
        rw [← List.append_assoc, List.replicate_append_replicate, ← e]
    · rename_i hc
      refine ⟨[⟨c, p⟩], rfl, by simp, by simp, ?_, ?_, maskOf_single c p⟩
      · intro r hr
        rcases List.mem_singleton.mp hr with rfl
        show c ≤ 65535
        omega
      · intro r hr
        rcases List.mem_singleton.mp hr with rfl
        exact Or.inr rfl

/-! ## protectRanges (cenc) -/

def AccOK (acc : List SubSample) : Prop := ∀ r ∈ acc, r.clear ≤ 65535 ∧ r.prot % 16 = 0

theorem pr_arith (P L cs : Nat) (h : P + 4 + L < U32) (hcs : cs ≤ P) (h112 : L + 4 ≥ 112) :
    ((L + naluHdrLen) % U32 + U32 - minClearSize) % U32 / 16 * 16 = (L + 4 - 96) / 16 * 16 ∧
    (L + 4 - 96) / 16 * 16 > 0 ∧
    (P + 4 + L + U32 - (L + 4 - 96) / 16 * 16) % U32 = P + 4 + L - (L + 4 - 96) / 16 * 16 ∧
    (P + 4 + L - (L + 4 - 96) / 16 * 16 + (L + 4 - 96) / 16 * 16) % U32 = P + 4 + L ∧
    (P + 4 + L - (L + 4 - 96) / 16 * 16 + U32 - cs) % U32 = P + 4 + L - (L + 4 - 96) / 16 * 16 - cs ∧
    (L + 4 - 96) / 16 * 16 ≤ L - 92 ∧ (L + 4 - 96) / 16 * 16 % 16 = 0 := by
  simp only [naluHdrLen, minClearSize, U32_eq] at *
  omega

theorem pr_arith0 (P L : Nat) (h : P + 4 + L < U32) :
    (L + naluHdrLen) % U32 = L + 4 := by
  simp only [naluHdrLen, U32_eq] at *
  omega

theorem rep_split (a b : Nat) (x : Bool) : List.replicate (a + b) x = List.replicate a x ++ List.replicate b x :=
  List.replicate_append_replicate.symm

theorem cencMask_cons (c : Codec) (n : Bytes) (rest : List Bytes) : cencMask c (n :: rest) =
    List.replicate (4 + n.length - cencProt c n) false ++ List.replicate (cencProt c n) true ++ cencMask c rest := by
  simp [cencMask]

theorem pr_go (c : Codec) (s : Bytes) : ∀ (rest : List Bytes) (pre : Bytes) (fuel cs : Nat) (acc : List SubSample),
    s = pre ++ lenPrefixed rest → s.length < U32 → (∀ n ∈ rest, n ≠ []) → rest.length + 1 ≤ fuel →
    cs ≤ pre.length → AccOK acc →
    ∃ rs, protectRanges.go c none s fuel pre.length cs pre.length acc = some rs ∧
      maskOf rs = maskOf acc ++ List.replicate (pre.length - cs) false ++ cencMask c rest ∧ AccOK rs := by
  intro rest
  induction rest with
  | nil =>
    intro pre fuel cs acc hs hlt _ hf hcs hacc
    obtain ⟨f, rfl⟩ : ∃ f, fuel = f + 1 := ⟨fuel - 1, by omega⟩
    have hl : s.length = pre.length := by simp [hs, lenPrefixed]
    rw [protectRanges.go]
    simp only [(end_facts_u32 s pre hs hlt).1, if_false]
    have hm : (pre.length + U32 - cs) % U32 = pre.length - cs := by
      rw [U32_eq] at hlt ⊢; omega
    rw [hm]
    by_cases hgt : pre.length > cs
    · simp only [hgt, if_true]
      obtain ⟨ext, he, _, _, h3, h4, h5⟩ := appendProtectRange_spec' 0 (pre.length - cs) acc
      refine ⟨_, rfl, ?_, ?_⟩
      · rw [he, maskOf_append', h5]; simp [cencMask]
      · rw [he]
        intro r hr
        rcases List.mem_append.mp hr with hr | hr
        · exact hacc r hr
        · refine ⟨h3 r hr, ?_⟩
          rcases h4 r hr with h | h <;> simp [h]
    · simp only [hgt, if_false]
      refine ⟨_, rfl, ?_, hacc⟩
      have : pre.length - cs = 0 := by omega
      simp [this, cencMask]
  | cons n rest ih =>
    intro pre fuel cs acc hs hlt hne hf hcs hacc
    obtain ⟨f, rfl⟩ : ∃ f, fuel = f + 1 := ⟨fuel - 1, by omega⟩
    obtain ⟨hg, _, hbe, hp1, hp2, hsl, hb, hs', hl', hle⟩ := step_facts_u32 s pre n rest hs hlt (hne n (by simp))
    rw [protectRanges.go]
    simp only [hg, if_true, hbe, hp1, hp2, hb]
    have hle' : ¬ (pre.length + 4 + n.length > s.length) := by omega
    simp only [hle', if_false]
    have hih := fun cs' acc' => ih (pre ++ put32 n.length ++ n) f cs' acc' hs' hlt
      (fun m hm => hne m (by simp [hm])) (by simp at hf; omega)
    rw [hl'] at hih
    rw [cencMask_cons]
    have hlt' : pre.length + 4 + n.length < U32 := by omega
    have h0 := pr_arith0 pre.length n.length hlt'
    -- the unprotected unit
    have hclear : cencProt c n = 0 →
        ∃ rs, protectRanges.go c none s f (pre.length + 4 + n.length) cs (pre.length + 4 + n.length) acc = some rs ∧
          maskOf rs = maskOf acc ++ List.replicate (pre.length - cs) false ++
            (List.replicate (4 + n.length - cencProt c n) false ++ List.replicate (cencProt c n) true ++
              cencMask c rest) ∧ AccOK rs := by
      intro hq
      obtain ⟨rs, h1, h2, h3⟩ := hih cs acc (by omega) hacc
      refine ⟨rs, h1, ?_, h3⟩
      rw [h2, hq]
      have e : pre.length + 4 + n.length - cs = (pre.length - cs) + (4 + n.length) := by omega
      rw [e, rep_split (pre.length - cs)]
      simp only [List.append_assoc, Nat.sub_zero, List.replicate_zero, List.append_nil]
    cases hv : c.isVideo (c.typeOf (n.headD 0)) with
    | false =>
      simp only [Bool.false_eq_true, if_false, gt_iff_lt, Nat.lt_irrefl]
      exact hclear (by simp only [cencProt, hv]; simp)
    | true =>
      simp only [if_true]
      by_cases h112 : n.length + 4 ≥ 112
      · obtain ⟨a1, a2, a3, a4, a5, a6, a7⟩ := pr_arith pre.length n.length cs hlt' hcs h112
        have hq : cencProt c n = (n.length + 4 - 96) / 16 * 16 := by simp only [cencProt, hv, h112]; simp
        have hge : (n.length + naluHdrLen) % U32 ≥ minClearSize + 16 := by
          rw [h0]; simp only [minClearSize]; omega
        simp only [hge, if_true, a1, a2, a3, a4, a5]
        rw [← hq] at a2 a6 a7 ⊢
        generalize cencProt c n = q at a2 a6 a7 ⊢
        obtain ⟨ext, he, _, _, h3, h4, h5⟩ := appendProtectRange_spec' q (pre.length + 4 + n.length - q - cs) acc
        rw [he]
        have hacc' : AccOK (acc ++ ext) := by
          intro r hr
          rcases List.mem_append.mp hr with hr | hr
          · exact hacc r hr
          · refine ⟨h3 r hr, ?_⟩
            rcases h4 r hr with h | h <;> simp [h, a7]
        obtain ⟨rs, h1, h2, h3⟩ := hih (pre.length + 4 + n.length) (acc ++ ext) (Nat.le_refl _) hacc'
        refine ⟨rs, h1, ?_, h3⟩
        rw [h2, maskOf_append', h5]
        have e : pre.length + 4 + n.length - q - cs = (pre.length - cs) + (4 + n.length - q) := by omega
        rw [e, rep_split (pre.length - cs)]
        simp only [List.append_assoc, Nat.sub_self, List.replicate_zero, List.append_nil]
      · have hge : ¬ ((n.length + naluHdrLen) % U32 ≥ minClearSize + 16) := by
          rw [h0]; simp only [minClearSize]; omega
        simp only [hge, if_false, gt_iff_lt, Nat.lt_irrefl]
        exact hclear (by simp only [cencProt, h112]; simp)

theorem protectRanges_cenc' (c : Codec) (ns : List Bytes) (h : NalusOK ns) (hne : ns ≠ []) :
    ∃ rs, protectRanges c none (lenPrefixed ns) = some rs ∧ maskOf rs = cencMask c ns ∧
      (∀ r ∈ rs, r.clear ≤ 65535 ∧ r.prot % 16 = 0) := by
  obtain ⟨hb, hlt⟩ := h
  have hnz : ∀ m ∈ ns, m ≠ [] := fun m hm => (hb m hm).1
  have hfuel : ns.length + 1 ≤ (lenPrefixed ns).length + 1 := by
    have := length_le_lenPrefixed ns; omega
  have h4 : ¬ (lenPrefixed ns).length < 4 := by
    cases ns with
    | nil => exact absurd rfl hne
    | cons n rest =>
      have := nonempty_len (hnz n (by simp))
      rw [lenPrefixed_length_cons]; omega
  unfold protectRanges
  simp only [h4, if_false]
  obtain ⟨rs, h1, h2, h3⟩ := pr_go c (lenPrefixed ns) ns [] _ 0 [] rfl hlt hnz hfuel (Nat.le_refl _)
    (fun r hr => absurd hr (by simp))
  refine ⟨rs, h1, ?_, h3⟩
  rw [h2]
  simp [maskOf]

/-! ## cencProt -/

theorem cencProt_shape' (c : Codec) (n : Bytes) :
    cencProt c n % 16 = 0 ∧ cencProt c n ≤ n.length ∧
    (c.isVideo (c.typeOf (n.headD 0)) = true → n.length > 127 → n.length - cencProt c n ≤ 127 ∧ 0 < cencProt c n) ∧
    (c.isVideo (c.typeOf (n.headD 0)) = false → cencProt c n = 0) := by
  unfold cencProt
  generalize c.isVideo (c.typeOf (n.headD 0)) = v
  cases v with
  | false =>
    simp only [Bool.false_eq_true, false_and, if_false]
    refine ⟨?_, ?_, ?_, ?_⟩ <;> intros <;> first | omega | simp_all
  | true =>
    by_cases hl : n.length + 4 ≥ 112
    · simp only [hl, and_self, if_true]
      refine ⟨?_, ?_, ?_, ?_⟩ <;> intros <;> first | omega | simp_all
    · simp only [hl, and_false, if_false]
      refine ⟨?_, ?_, ?_, ?_⟩ <;> intros <;> first | omega | simp_all

/-! ## incrementIV -/

/-- little-endian value -/
def leVal : List Nat → Nat
  | [] => 0
  | b :: r => b + 256 * leVal r

theorem leVal_lt : ∀ (l : List Nat), IsBytes l → leVal l < 256 ^ l.length
  | [], _ => by simp [leVal]
  | b :: r, h => by
    have hb : b < 256 := h b (by simp)
    have := leVal_lt r (fun x hx => h x (by simp [hx]))
    simp only [leVal, List.length_cons, Nat.pow_succ]
    omega

theorem incIV_length : ∀ (l : List Nat) (s : Nat), (incrementIVInPlace l s).length = l.length
  | [], _ => by simp [incrementIVInPlace]
  | b :: r, s => by
    simp only [incrementIVInPlace]
    split
    · simp
    · simp [incIV_length r]

theorem incIV_leVal : ∀ (l : List Nat) (s : Nat), IsBytes l →
    leVal (incrementIVInPlace l s) = (leVal l + s) % 256 ^ l.length
  | [], s, _ => by simp [incrementIVInPlace, leVal, Nat.mod_one]
  | b :: r, s, h => by
    have hb : b < 256 := h b (by simp)
    have hr : IsBytes r := fun x hx => h x (by simp [hx])
    have hlt := leVal_lt r hr
    simp only [incrementIVInPlace]
    split
    · rename_i hs
      simp only [leVal, List.length_cons, Nat.pow_succ]
      rw [Nat.mod_eq_of_lt (by omega)]
      omega
    · rename_i hs
      simp only [leVal, List.length_cons, Nat.pow_succ]
      rw [incIV_leVal r _ hr, Nat.mul_comm (256 ^ r.length) 256, Nat.mod_mul]
      have e1 : (b + 256 * leVal r + s) % 256 = (b + s) % 256 := by omega
      have e2 : (b + 256 * leVal r + s) / 256 = leVal r + (b + s) / 256 := by omega
      rw [e1, e2]

theorem leVal_append : ∀ (a b : List Nat), leVal (a ++ b) = leVal a + 256 ^ a.length * leVal b
  | [], b => by simp [leVal]
  | x :: a, b => by
    simp only [List.cons_append, leVal, leVal_append a b, List.length_cons, Nat.pow_succ]
    rw [Nat.mul_add, Nat.mul_comm (256 ^ a.length) 256, Nat.mul_assoc, Nat.add_assoc]

theorem foldl_leVal : ∀ (l : List Nat) (acc : Nat),
    l.foldl (fun acc b => acc * 256 + b) acc = acc * 256 ^ l.length + leVal l.reverse
  | [], acc => by simp [leVal]
  | b :: l, acc => by
    simp only [List.foldl_cons, foldl_leVal l, List.reverse_cons, leVal_append, List.length_reverse,
      List.length_cons, Nat.pow_succ, leVal]
    generalize 256 ^ l.length = P
    generalize leVal l.reverse = Q
    grind

theorem beVal_eq_leVal (l : Bytes) : beVal l = leVal l.reverse := by
  simp [beVal, foldl_leVal]

theorem incrementIV_spec' (iv : Bytes) (hiv : IsBytes iv) (ranges : List SubSample) (len : Nat) :
    (incrementIV iv ranges len).length = iv.length ∧
    beVal (incrementIV iv ranges len) = (beVal iv + nrEncBlocks ranges len) % 256 ^ iv.length := by
  unfold incrementIV
  refine ⟨by simp [incIV_length], ?_⟩
  rw [beVal_eq_leVal, beVal_eq_leVal, List.reverse_reverse, incIV_leVal _ _ (fun b hb => hiv b (by simpa using hb))]
  simp

end Mp4ff.Cenc
