import Mp4ff.Model.Crop
import Mp4ff.Lemmas.C09A
import Mp4ff.Lemmas.C09B
/-!
C10: `cropStsc` (the stsc cropping routine of mp4ff-crop after the repair that shortens the last kept entry): proof.
-/
namespace Mp4ff.Crop
open Mp4ff.Stbl

/-! ### helpers: filtering a prefix of the raw table -/

/-- if every entry from index `k` on starts after chunk `x`, filtering the first `k` entries is filtering all -/
theorem filter_take_gen {raw} (h : RawOK raw) {k x : Nat} (hk : k < raw.length → x < fcAt raw k) :
    (raw.take k).filter (fun e => decide (e.1 ≤ x)) = raw.filter (fun e => decide (e.1 ≤ x)) := by
  have e2 : (raw.drop k).filter (fun e => decide (e.1 ≤ x)) = [] := by
    rw [List.filter_eq_nil_iff]
    intro a ha
    rw [List.mem_drop_iff_getElem] at ha
    obtain ⟨i, hi, rfl⟩ := ha
    have hi' : k + i < raw.length := by omega
    have := fcAt_le h (i := k) (j := k + i) (by omega) hi'
    rw [fcAt_eq hi'] at this
    have := hk (by omega)
    simp; omega
  conv => rhs; rw [← List.take_append_drop k raw]
  rw [List.filter_append, e2, List.append_nil]

theorem spcOf_take_gen {raw} (h : RawOK raw) {k x : Nat} (hk : k < raw.length → x < fcAt raw k) :
    spcOf (raw.take k) x = spcOf raw x := by
  unfold spcOf; rw [filter_take_gen h hk]

theorem spcOf_take_append_gen {raw} (h : RawOK raw) {k x : Nat} (hk : k < raw.length → x < fcAt raw k)
    (c n s : Nat) (hx : x < c) :
    spcOf (raw.take k ++ [(c, n, s)]) x = spcOf raw x := by
  unfold spcOf
  rw [List.filter_append, filter_take_gen h hk]
  have : List.filter (fun e => decide (e.1 ≤ x)) [(c, n, s)] = [] := by
    simp; omega
  rw [this, List.append_nil]

theorem spcOf_append_self (l : List (Nat × Nat × Nat)) (c n s : Nat) :
    spcOf (l ++ [(c, n, s)]) c = n := by
  unfold spcOf
  rw [List.filter_append]
  have : List.filter (fun e => decide (e.1 ≤ c)) [(c, n, s)] = [(c, n, s)] := by simp
  rw [this, List.getLast?_concat]
  rfl

theorem firstSampleOf_congr (raw raw' : List (Nat × Nat × Nat)) : ∀ c,
    (∀ x, 1 ≤ x → x < c → spcOf raw' x = spcOf raw x) → firstSampleOf raw' c = firstSampleOf raw c := by
  intro c
  induction c with
  | zero => intro _; simp [firstSampleOf]
  | succ k ih =>
    intro hx
    by_cases hk : k = 0
    · subst hk; simp [firstSampleOf]
    · rw [firstSampleOf_succ raw (by omega), firstSampleOf_succ raw' (by omega),
        ih (fun x h1 h2 => hx x h1 (by omega)), hx k (by omega) (by omega)]

/-! ### helpers: well-formedness of the cropped table -/

theorem rawOK_take {raw} (h : RawOK raw) {k : Nat} (hk : 0 < k) : RawOK (raw.take k) := by
  obtain ⟨hne, hhd, hpw, hpos⟩ := h
  refine ⟨?_, ?_, ?_, ?_⟩
  · cases raw with
    | nil => exact absurd rfl hne
    | cons a t =>
      obtain ⟨k', rfl⟩ : ∃ k', k = k' + 1 := ⟨k - 1, by omega⟩
      simp
  · cases raw with
    | nil => exact absurd rfl hne
    | cons a t =>
      obtain ⟨k', rfl⟩ : ∃ k', k = k' + 1 := ⟨k - 1, by omega⟩
      simpa using hhd
  · exact hpw.sublist (List.take_sublist _ _)
  · intro e he; exact hpos e (List.mem_of_mem_take he)

theorem rawOK_take_append {raw} (h : RawOK raw) {k c n s : Nat} (hk : k ≤ raw.length)
    (hc : ∀ i, i < k → fcAt raw i < c) (hn : 0 < n) (h0 : k = 0 → c = 1) :
    RawOK (raw.take k ++ [(c, n, s)]) := by
  have hlen := len_pos h
  refine ⟨by simp, ?_, ?_, ?_⟩
  · by_cases hk0 : k = 0
    · subst hk0; simp [h0 rfl]
    · have := (rawOK_take h (k := k) (by omega))
      obtain ⟨hne, hhd, _, _⟩ := this
      cases htk : raw.take k with
      | nil => exact absurd htk hne
      | cons a t => rw [htk] at hhd; simpa using hhd
  · rw [List.pairwise_append]
    refine ⟨h.2.2.1.sublist (List.take_sublist _ _), by simp, ?_⟩
    intro a ha b hb
    rw [List.mem_take_iff_getElem] at ha
    obtain ⟨i, hi, rfl⟩ := ha
    have hi' : i < raw.length := by omega
    have := hc i (by omega)
    rw [fcAt_eq hi'] at this
    simp at hb
    subst hb
    exact this
  · intro e he
    rw [List.mem_append] at he
    rcases he with he | he
    · exact h.2.2.2 e (List.mem_of_mem_take he)
    · simp at he; subst he; exact hn

/-- **stsc**: every chunk before the one holding sample `last` keeps its size; that chunk is cut right after `last`;
    and the cropped table is again a well-formed stsc table (first_chunk strictly increasing from 1, positive
    samples_per_chunk) -/
theorem cropStsc_spec (raw : List (Nat × Nat × Nat)) (h : RawOK raw) (cmax c last : Nat) (hw : NoWrap raw cmax)
    (h1 : 1 ≤ c) (hc : c ≤ cmax) (hlo : firstSampleOf raw c ≤ last) (hhi : last < firstSampleOf raw (c + 1)) :
    ∃ raw', cropStsc raw last = some raw' ∧
      (∀ j, 1 ≤ j → j < c → spcOf raw' j = spcOf raw j) ∧
      spcOf raw' c = last + 1 - firstSampleOf raw c ∧
      firstSampleOf raw' (c + 1) = last + 1 ∧
      RawOK raw' := by
  have hin := findEntryForChunk_spec h hw h1
  generalize (Stsc.ofRaw raw).findEntryForChunk c = j at hin
  have hfind := findEntryForSample_spec h hw hin hlo hhi (Nat.zero_le _)
  have h32 := hw.1
  have hspc := spcAt_pos h hin.lt
  have hn : last < U32 := Nat.lt_trans hhi (firstSampleOf_lt_U32 hw (c := c + 1) (by omega))
  have hfs := firstSampleOf_inEntry h hin
  have hfs' := firstSampleOf_inEntry_succ h hin
  have hsucc := firstSampleOf_succ raw h1
  have hspcc := spcOf_of_inEntry h hin
  have hfclo := hin.lo
  have hjl := hin.lt
  have hfs1 := firstSampleOf_pos raw (fcAt raw j)
  have hrfc : raw[j].1 = fcAt raw j := (fcAt_eq hjl).symm
  have hj0 : j = 0 → fcAt raw j = 1 := by intro e; subst e; exact fcAt_zero h
  -- entries after `j` start after chunk `c`; entries before `j` start before entry `j`
  have hafter : ∀ x, x ≤ c → j + 1 < raw.length → x < fcAt raw (j + 1) := by
    intro x hx hl; have := hin.hi hl; omega
  have hbefore : ∀ i, i < j → fcAt raw i < fcAt raw j := fun i hi => fcAt_lt h hi hjl
  have hbefore' : ∀ i, i < j + 1 → fcAt raw i ≤ fcAt raw j := fun i hi => fcAt_le h (by omega) hjl
  -- abbreviations
  generalize hFS : firstSampleOf raw (fcAt raw j) = fs at *
  generalize hSP : spcAt raw j = spc at *
  generalize hFC : fcAt raw j = fc at *
  have hsl : (last + U32 - fs + 1) % U32 = last + 1 - fs := by
    have : fs ≤ last := by
      generalize (c - fc) * spc = p at *; omega
    rw [U32_eq] at *; omega
  have hmul : (c + 1 - fc) * spc = (c - fc) * spc + spc := by
    rw [show c + 1 - fc = (c - fc) + 1 by omega, Nat.succ_mul]
  unfold cropStsc
  simp only []
  rw [hfind, ofRaw_getElem? h hw hjl, hFC, hFS, hSP]
  have hrj : raw[j]? = some raw[j] := List.getElem?_eq_getElem hjl
  rw [hrj]
  simp only [Option.bind_eq_bind, Option.bind_some]
  rw [if_neg (by omega), hsl, hrfc]
  by_cases hfull : last + 1 = firstSampleOf raw (c + 1)
  · -- the chunk is kept whole
    have hdiv : (last + 1 - fs) / spc = c + 1 - fc := by
      rw [hfull, hfs', Nat.add_sub_cancel_left, Nat.mul_div_cancel _ hspc]
    have hzero : last + 1 - fs - (last + 1 - fs) / spc * spc = 0 := by
      rw [hdiv, hfull, hfs', Nat.add_sub_cancel_left, Nat.sub_self]
    rw [hzero]
    refine ⟨raw.take (j + 1), by simp, ?_, ?_, ?_, ?_⟩
    · intro x _ hx; exact spcOf_take_gen h (hafter x (by omega))
    · rw [spcOf_take_gen h (hafter c (Nat.le_refl _))]; omega
    · rw [firstSampleOf_congr raw (raw.take (j + 1)) (c + 1)
        (fun x _ hx => spcOf_take_gen h (hafter x (by omega)))]
      omega
    · exact rawOK_take h (by omega)
  · have hdiv : (last + 1 - fs) / spc = c - fc := by
      apply Nat.div_eq_of_lt_le
      · generalize (c - fc) * spc = p at *; omega
      · rw [Nat.succ_mul]; generalize (c - fc) * spc = p at *
        generalize (c + 1 - fc) * spc = q at *; omega
    have hleft : last + 1 - fs - (last + 1 - fs) / spc * spc = last + 1 - firstSampleOf raw c := by
      rw [hdiv, hfs]; generalize (c - fc) * spc = p at *; omega
    have hpos : last + 1 - firstSampleOf raw c > 0 := by omega
    rw [hleft, hdiv]
    by_cases hcf : c - fc = 0
    · -- the cut is inside the first chunk of entry `j`: that entry is shortened
      have hcfc : fc = c := by omega
      rw [if_pos ⟨hpos, hcf⟩, hcfc]
      have hk : ∀ x, x < c → j < raw.length → x < fcAt raw j := by
        intro x hx _; rw [hFC]; omega
      refine ⟨_, rfl, ?_, ?_, ?_, ?_⟩
      · intro x _ hx; exact spcOf_take_append_gen h (hk x hx) _ _ _ hx
      · exact spcOf_append_self _ _ _ _
      · rw [firstSampleOf_succ _ h1, spcOf_append_self,
          firstSampleOf_congr raw _ c (fun x _ hx => spcOf_take_append_gen h (hk x hx) _ _ _ hx)]
        omega
      · exact rawOK_take_append h (by omega) (fun i hi => by have := hbefore i hi; omega) hpos
          (fun e => by have := hj0 e; omega)
    · have hcc : (fc + (c - fc)) % U32 = c := by rw [U32_eq] at *; omega
      rw [if_neg (by omega), if_pos hpos, hcc]
      refine ⟨_, rfl, ?_, ?_, ?_, ?_⟩
      · intro x _ hx; exact spcOf_take_append_gen h (hafter x (by omega)) _ _ _ hx
      · exact spcOf_append_self _ _ _ _
      · rw [firstSampleOf_succ _ h1, spcOf_append_self,
          firstSampleOf_congr raw _ c
            (fun x _ hx => spcOf_take_append_gen h (hafter x (by omega)) _ _ _ hx)]
        omega
      · exact rawOK_take_append h (by omega) (fun i hi => by have := hbefore' i hi; omega) hpos
          (fun e => by omega)


end Mp4ff.Crop
