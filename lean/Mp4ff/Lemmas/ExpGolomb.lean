import Mp4ff.Lemmas.Ebsp
namespace Mp4ff.Bits

theorem expGolombPrefix_inv (nr : Nat) : ∀ (fuel p : Nat), 2 ^ p ≤ nr + 1 → nr + 1 < 2 ^ (p + fuel) →
    ∃ q, expGolombPrefix nr fuel p (2 ^ p - 1) (2 ^ (p + 1) - 2) = (q, 2 ^ q - 1) ∧
      2 ^ q ≤ nr + 1 ∧ nr + 1 < 2 ^ (q + 1) ∧ q < p + fuel := by
  intro fuel
  induction fuel with
  | zero => intro p h1 h2; simp at h2; omega
  | succ fuel ih =>
    intro p h1 h2
    have hp : 2 ^ (p + 1) = 2 * 2 ^ p := by rw [Nat.pow_succ]; omega
    have hpos : 0 < 2 ^ p := Nat.two_pow_pos p
    unfold expGolombPrefix
    by_cases hle : nr ≤ 2 ^ (p + 1) - 2
    · simp only [hle, if_true]
      exact ⟨p, rfl, h1, by omega, by omega⟩
    · simp only [hle, if_false]
      have hp2 : 2 ^ (p + 1 + 1) = 2 * 2 ^ (p + 1) := by rw [Nat.pow_succ]; omega
      have e1 : 2 ^ p - 1 + 2 ^ p = 2 ^ (p + 1) - 1 := by omega
      have e2 : 2 ^ (p + 1) - 1 + 2 ^ (p + 1) - 1 = 2 ^ (p + 1 + 1) - 2 := by omega
      rw [e1, e2]
      have := ih (p + 1) (by omega) (by
        have : p + 1 + fuel = p + (fuel + 1) := by omega
        rw [this]; exact h2)
      obtain ⟨q, hq1, hq2, hq3, hq4⟩ := this
      exact ⟨q, hq1, hq2, hq3, by omega⟩

/-- Exp-Golomb prefix length of `nr`: the `p` with `2^p ≤ nr+1 < 2^(p+1)` -/
def ueLen (nr : Nat) : Nat := (expGolombPrefix nr 64 0 0 0).1

theorem ueLen_spec (nr : Nat) (h : nr < 2 ^ 32) :
    expGolombPrefix nr 64 0 0 0 = (ueLen nr, 2 ^ ueLen nr - 1) ∧
    2 ^ ueLen nr ≤ nr + 1 ∧ nr + 1 < 2 ^ (ueLen nr + 1) ∧ ueLen nr ≤ 32 := by
  have h64 : nr + 1 < 2 ^ (0 + 64) := by
    have : (2:Nat) ^ 32 < 2 ^ (0 + 64) := by decide
    omega
  obtain ⟨q, hq1, hq2, hq3, _⟩ := expGolombPrefix_inv nr 64 0 (by simp) h64
  have e : expGolombPrefix nr 64 0 0 0 = (q, 2 ^ q - 1) := by simpa using hq1
  have hq : ueLen nr = q := by unfold ueLen; rw [e]
  rw [hq]
  refine ⟨e, hq2, hq3, ?_⟩
  apply Nat.le_of_not_lt
  intro hgt
  have : (2:Nat) ^ 33 ≤ 2 ^ q := Nat.pow_le_pow_right (by decide) hgt
  have h33 : (2:Nat) ^ 32 < 2 ^ 33 := by decide
  omega

/-- the bits of ue(nr): `p` zeros, a one, then `p` bits of `nr + 1 - 2^p` -/
def ueBits (nr : Nat) : List Bool :=
  lowBits (ueLen nr + 1) 1 ++ lowBits (ueLen nr) (nr - (2 ^ ueLen nr - 1))

theorem lowBits_one (p : Nat) : lowBits (p + 1) 1 = List.replicate p false ++ [true] := by
  induction p with
  | zero => rfl
  | succ p ih =>
    have : lowBits (p + 1 + 1) 1 = Nat.testBit 1 (p + 1) :: lowBits (p + 1) 1 := rfl
    rw [this, ih]
    have : Nat.testBit 1 (p + 1) = false := by
      apply Nat.testBit_lt_two_pow
      have : (2:Nat) ^ 1 ≤ 2 ^ (p + 1) := Nat.pow_le_pow_right (by decide) (by omega)
      omega
    rw [this]; rfl

/-- what `WriteExpGolomb` hands to `Write` -/
def ueFields (nr : Nat) : List (Nat × Nat) :=
  if ueLen nr > 0 then [(ueLen nr + 1, 1), (ueLen nr, nr - (2 ^ ueLen nr - 1))] else [(1, 1)]

theorem fieldBits_ueFields (nr : Nat) : fieldBits (ueFields nr) = ueBits nr := by
  unfold ueFields ueBits
  by_cases h : ueLen nr > 0
  · simp [h, fieldBits]
  · have : ueLen nr = 0 := by omega
    simp [this, fieldBits, lowBits]

theorem EW.writeExpGolomb_eq (w : EW) (nr : Nat) (h : nr < 2 ^ 32) :
    w.writeExpGolomb nr = w.writeAll (ueFields nr) := by
  unfold EW.writeExpGolomb ueFields
  rw [(ueLen_spec nr h).1]
  by_cases hp : ueLen nr > 0
  · simp [hp, EW.writeAll]
  · have h0 : ueLen nr = 0 := by omega
    simp [h0, EW.writeAll]

theorem ueFields_ok (nr : Nat) (h : nr < 2 ^ 32) : ∀ kv ∈ ueFields nr, kv.1 ≤ 56 := by
  have hl := (ueLen_spec nr h).2.2.2
  unfold ueFields
  intro kv hkv
  split at hkv
  · simp at hkv; rcases hkv with h | h <;> subst h <;> simp <;> omega
  · simp at hkv; subst hkv; simp

/-! ### reading -/

theorem read1_val {v : Nat} {b : Bool} (hv : v < 2 ^ 1) (h : lowBits 1 v = [b]) :
    v = if b then 1 else 0 := by
  cases b with
  | true => exact eq_of_lowBits_eq hv (by decide) (by rw [h]; rfl)
  | false => exact eq_of_lowBits_eq hv (by decide) (by rw [h]; rfl)

theorem ER.countZeros_spec : ∀ (p fuel : Nat) (e : ER) (P : Bytes) (tail : List Bool) (cnt : Nat),
    e.Inv P → e.abs P = List.replicate p false ++ true :: tail → p + 1 ≤ fuel →
    ∃ e' P', ER.countZeros fuel e cnt = (e', some (cnt + p)) ∧ e'.Inv P' ∧ e'.abs P' = tail ∧
      e'.nread + e'.rest.length = e.nread + e.rest.length := by
  intro p
  induction p with
  | zero =>
    intro fuel e P tail cnt he habs hf
    cases fuel with
    | zero => omega
    | succ fuel =>
      obtain ⟨P', h1, h2, h3, h4, h5⟩ := ER.read_spec e P 1 he (by decide) (by rw [habs]; simp)
      rw [habs] at h2 h3
      simp at h2 h3
      have hv := read1_val h4 h3
      simp only [if_true] at hv
      unfold ER.countZeros
      have herr : (e.read 1).1.err = false := h1.2.2.2.1
      simp only [herr, hv, Bool.false_eq_true, if_false, if_true]
      exact ⟨_, P', rfl, h1, h2, h5⟩
  | succ p ih =>
    intro fuel e P tail cnt he habs hf
    cases fuel with
    | zero => omega
    | succ fuel =>
      obtain ⟨P', h1, h2, h3, h4, h5⟩ := ER.read_spec e P 1 he (by decide) (by rw [habs]; simp; omega)
      rw [habs] at h2 h3
      simp [List.replicate_succ] at h2 h3
      have hv := read1_val h4 h3
      simp only [Bool.false_eq_true, if_false] at hv
      unfold ER.countZeros
      have herr : (e.read 1).1.err = false := h1.2.2.2.1
      simp only [herr, hv, Bool.false_eq_true, if_false]
      obtain ⟨e', P'', g1, g2, g3, g4⟩ := ih fuel (e.read 1).1 P' tail (cnt + 1) h1 h2 (by omega)
      refine ⟨e', P'', ?_, g2, g3, by omega⟩
      have : cnt + (p + 1) = cnt + 1 + p := by omega
      rw [this]
      simpa using g1

theorem ER.bitsLeft_ge (e : ER) (P : Bytes) (he : e.Inv P) : (e.abs P).length ≤ e.bitsLeft := by
  obtain ⟨_, _, _, _, _, hrest⟩ := he
  unfold ER.bitsLeft ER.abs
  rw [hrest, esc_length]
  simp; omega

/-- `ReadExpGolomb` inverts `WriteExpGolomb` -/
theorem ER.readExpGolomb_spec (e : ER) (P : Bytes) (nr : Nat) (tail : List Bool) (hnr : nr < 2 ^ 32)
    (he : e.Inv P) (habs : e.abs P = ueBits nr ++ tail) :
    ∃ P', (e.readExpGolomb).2 = nr ∧ (e.readExpGolomb).1.Inv P' ∧ (e.readExpGolomb).1.abs P' = tail ∧
      (e.readExpGolomb).1.nread + (e.readExpGolomb).1.rest.length = e.nread + e.rest.length := by
  obtain ⟨_, hp1, hp2, hp3⟩ := ueLen_spec nr hnr
  have habs' : e.abs P = List.replicate (ueLen nr) false ++ true ::
      (lowBits (ueLen nr) (nr - (2 ^ ueLen nr - 1)) ++ tail) := by
    rw [habs, ueBits, lowBits_one]; simp
  have hfuel : ueLen nr + 1 ≤ e.bitsLeft + 1 := by
    have := ER.bitsLeft_ge e P he
    rw [habs'] at this
    simp at this; omega
  obtain ⟨e', P', c1, c2, c3, c4⟩ := ER.countZeros_spec (ueLen nr) (e.bitsLeft + 1) e P _ 0 he habs' hfuel
  obtain ⟨P'', r1, r2, r3, r4, r5⟩ := ER.read_spec e' P' (ueLen nr) c2 (by omega) (by rw [c3]; simp)
  rw [c3] at r2 r3
  simp at r2 r3
  have hpos : 0 < 2 ^ ueLen nr := Nat.two_pow_pos _
  have hdelta : nr - (2 ^ ueLen nr - 1) < 2 ^ ueLen nr := by
    have : 2 ^ (ueLen nr + 1) = 2 * 2 ^ ueLen nr := by rw [Nat.pow_succ]; omega
    omega
  have hval := eq_of_lowBits_eq r4 hdelta r3
  refine ⟨P'', ?_⟩
  have herr : e.err = false := he.2.2.2.1
  have herr'' : (e'.read (ueLen nr)).1.err = false := r1.2.2.2.1
  unfold ER.readExpGolomb
  simp only [herr, Bool.false_eq_true, if_false, c1, Nat.zero_add, herr'']
  have hlt : (2:Nat) ^ ueLen nr ≤ 2 ^ 32 := Nat.pow_le_pow_right (by decide) hp3
  have h32 : (2:Nat) ^ 32 < W64 := by unfold W64; decide
  have hm1 : (2 ^ ueLen nr - 1) % W64 = 2 ^ ueLen nr - 1 := Nat.mod_eq_of_lt (by omega)
  rw [hm1, hval]
  have hsum : 2 ^ ueLen nr - 1 + (nr - (2 ^ ueLen nr - 1)) = nr := by omega
  rw [hsum, Nat.mod_eq_of_lt (by omega)]
  exact ⟨rfl, r1, r2, by omega⟩


theorem ER.readSignedGolomb_spec (e : ER) (P : Bytes) (x : Int) (tail : List Bool)
    (hx : -(2 ^ 31 : Int) < x ∧ x < 2 ^ 31)
    (he : e.Inv P) (habs : e.abs P = ueBits (seToUe x) ++ tail) :
    ∃ P', (e.readSignedGolomb).2 = x ∧ (e.readSignedGolomb).1.Inv P' ∧
      (e.readSignedGolomb).1.abs P' = tail ∧
      (e.readSignedGolomb).1.nread + (e.readSignedGolomb).1.rest.length = e.nread + e.rest.length := by
  have hnr : seToUe x < 2 ^ 32 := by
    unfold seToUe
    have h31 : (2:Int) ^ 31 = 2147483648 := by decide
    have h32 : (2:Nat) ^ 32 = 4294967296 := by decide
    split <;> omega
  obtain ⟨P', g1, g2, g3, g4⟩ := ER.readExpGolomb_spec e P (seToUe x) tail hnr he habs
  refine ⟨P', ?_⟩
  have herr : e.err = false := he.2.2.2.1
  have herr' : (e.readExpGolomb).1.err = false := g2.2.2.2.1
  unfold ER.readSignedGolomb
  simp only [herr, Bool.false_eq_true, if_false, herr', g1]
  by_cases hpos : x > 0
  · have hu : seToUe x = (2 * x - 1).toNat := by simp [seToUe, hpos]
    have hodd : seToUe x % 2 = 1 := by rw [hu]; omega
    simp only [hodd, if_true]
    refine ⟨?_, g2, g3, g4⟩
    rw [hu]; omega
  · have hu : seToUe x = (-2 * x).toNat := by simp [seToUe, hpos]
    have heven : ¬ (seToUe x % 2 = 1) := by rw [hu]; omega
    simp only [heven, if_false]
    refine ⟨?_, g2, g3, g4⟩
    rw [hu]; omega

end Mp4ff.Bits
